/-
  C12 — property theorems.  Only statements of the property, non-vacuity examples and the audit
  live here; helper lemmas are in `ALV.Lemmas.C12*`.

  Notation: `w = exp(-jω)` is the point at which `freq_response(ω)` evaluates the two `Poly`s;
  `Resp` is the observable (value / nan / the exception of the constructor or of an empty bank).
-/
import ALV.Lemmas.C12Sum
import ALV.Lemmas.C12Bank
import ALV.Lemmas.C12Time
import ALV.Lemmas.C12Gauss
import ALV.Lemmas.C12Hist
import ALV.Lemmas.C12Call
import ALV.Lemmas.C12Pole
import ALV.Lemmas.C12Link
import ALV.Lemmas.C12Src
import Mathlib.Analysis.SpecialFunctions.Complex.Arg
import ALV.Common.Audit

set_option linter.unusedSectionVars false
set_option linter.unusedSimpArgs false

namespace ALV.Props.C12
open ALV.C12 Finset

/- `ckern f n = cexp(-1j*n*f)` (the DFT kernel as coded) and `tf c ω = Σ_k c_k e^{-jωk}` (the
   transfer polynomial) are defined in `ALV.Lemmas.C12Sum`. -/

/-! ### 1. freq_response is the transfer function -/

/-- **C12.0** (code shape ⇒ property shape, any field): `Poly(c)(w)` as coded (terms with zero
coefficient not stored, `w == 0` shortcut, Horner-like scheme with merged steps) is `Σ c_k w^k`. -/
theorem poly_call_eq_sum {K : Type} [Field K] [DecidableEq K] (c : List K) (w : K) :
    evalPoly (polyFrom 0 c) w = ∑ k ∈ range c.length, c.getD k 0 * w ^ k := by
  rw [evalPoly_polyFrom, evalDirect_eq_sum]

/-- **C12.0b**: any stored term list (Laurent powers, after the constructor's shift) evaluates,
on either path (Horner-like or general), to `Σ coeff * w^power` at a non-zero point. -/
theorem poly_call_terms {K : Type} [Field K] [DecidableEq K] (ts : Terms K) (w : K) (hw : w ≠ 0) :
    evalPoly ts w = (ts.map fun t => t.2 * w ^ t.1).sum := evalPoly_termSum ts w hw

/-- **C12.1** `freq_response_eq`: for every pair of coefficient lists and every frequency ω the
model of `ZFilter(b, a).freq_response(ω)` (constructor normalisation, `Poly.__call__` at
`exp(-1j*ω)`, nan test, division) is `Σ b_k e^{-jωk} / Σ a_k e^{-jωk}`, nan where the denominator
vanishes; the constructor raises iff `a` has no non-zero entry. -/
theorem freq_response_eq (b a : List ℂ) (ω : ℝ) :
    respOfFilter b a (Complex.exp (-(Complex.I * ω))) =
      if a.all (fun c => decide (c = 0)) then Resp.valueError
      else if ∑ k ∈ range a.length, a.getD k 0 * Complex.exp (-(Complex.I * ω * k)) = 0 then Resp.nan
      else Resp.val ((∑ k ∈ range b.length, b.getD k 0 * Complex.exp (-(Complex.I * ω * k))) /
                     (∑ k ∈ range a.length, a.getD k 0 * Complex.exp (-(Complex.I * ω * k)))) := by
  rw [respOfFilter_eq_spec _ _ _ (Complex.exp_ne_zero _)]
  simp only [respSpec, Hspec, evalDirect_eq_sum, cexp_pow]
  by_cases h1 : a.all (fun c => decide (c = 0)) = true
  · simp only [h1, if_true]
  · simp only [h1, Bool.false_eq_true, if_false]
    by_cases h2 : ∑ k ∈ range a.length, a.getD k 0 * Complex.exp (-(Complex.I * ω * k)) = 0
    · simp only [h2, if_true]
    · simp only [h2, if_false]

/-- **C12.1b**: the same in every field, at every non-zero point `w` (purely algebraic). -/
theorem freq_response_field {K : Type} [Field K] [DecidableEq K] (b a : List K) (w : K) (hw : w ≠ 0) :
    respOfFilter b a w = respSpec b a w := respOfFilter_eq_spec b a w hw

/-- **C12.1c**: with a stored constant denominator term (no constructor shift) also at `w = 0`. -/
theorem freq_response_field_head {K : Type} [Field K] [DecidableEq K] (b a : List K) (a0 : K)
    (h0 : a0 ≠ 0) (w : K) : respOfFilter b (a0 :: a) w = respSpec b (a0 :: a) w :=
  respOfFilter_eq_spec_of_head b a a0 h0 w

/-- **C12.1e** filters given as `{delay: coefficient}` dicts — sparse, in any insertion order,
possibly non-causal (negative delays): `Poly(dict)` drops zero entries, `sorted()` reorders, the
constructor shifts, `Poly.__call__` takes the Horner or the general (Laurent) path; the response
is `Σ num_k w^k / Σ den_k w^k` over the given entries (`w^k` with `k ∈ ℤ`). -/
theorem freq_response_dict {K : Type} [Field K] [DecidableEq K] (num den : Terms K) (w : K)
    (hw : w ≠ 0) :
    respOfTerms num den w =
      if den.all (fun t => decide (t.2 = 0)) then Resp.valueError
      else if (den.map fun t => t.2 * w ^ t.1).sum = 0 then Resp.nan
      else Resp.val ((num.map fun t => t.2 * w ^ t.1).sum / (den.map fun t => t.2 * w ^ t.1).sum) := by
  rw [respOfTerms_eq_spec _ _ _ hw]
  simp only [respSpecTerms, HspecTerms, evalTerms_eq, termSum]
  by_cases h1 : den.all (fun t => decide (t.2 = 0)) = true
  · simp only [h1, if_true]
  · simp only [h1, Bool.false_eq_true, if_false]
    by_cases h2 : (den.map fun t => t.2 * w ^ t.1).sum = 0
    · simp only [h2, if_true]
    · simp only [h2, if_false]

/-- **C12.1f** the constructor raises (`min()` of an empty sequence, ValueError) exactly when the
denominator has no non-zero entry, whatever the numerator. -/
theorem constructor_raises_iff {K : Type} [Field K] [DecidableEq K] (b a : List K) :
    mkFilter b a = none ↔ ∀ c ∈ a, c = 0 := by
  unfold mkFilter finishFilter
  constructor
  · intro h
    have hm : minKey (polyFrom 0 a) = none := by
      cases hmk : minKey (polyFrom 0 a) with
      | none => rfl
      | some p =>
        rw [hmk] at h
        by_cases hp : p = 0 <;> simp [hp] at h
    have := (polyFrom_eq_nil 0 a).1 ((minKey_eq_none _).1 hm)
    simpa using this
  · intro h
    have : polyFrom 0 a = [] := (polyFrom_eq_nil 0 a).2 (by simpa using h)
    simp [this, minKey]

/-- **C12.1g** `freq_response` is 2π-periodic in the frequency (the harness probes in (-π, π] and
in [0, 2π)). -/
theorem freq_response_periodic (b a : List ℂ) (ω : ℝ) (k : ℤ) :
    respOfFilter b a (Complex.exp (-(Complex.I * ((ω + 2 * Real.pi * k : ℝ) : ℂ))))
      = respOfFilter b a (Complex.exp (-(Complex.I * ω))) := by
  congr 1
  have : -(Complex.I * ((ω + 2 * Real.pi * k : ℝ) : ℂ))
      = -(Complex.I * ω) + (-k : ℤ) * (2 * Real.pi * Complex.I) := by
    push_cast; ring
  rw [this, Complex.exp_add, Complex.exp_int_mul_two_pi_mul_I, mul_one]

/-- **C12.1d** per element over a container of frequencies: same length, element `i` of the
result is the response at element `i` of the argument. -/
theorem freq_response_elementwise (b a : List ℂ) (ωs : List ℝ) :
    (elementwise (fun ω : ℝ => respOfFilter b a (Complex.exp (-(Complex.I * ω)))) ωs).length = ωs.length ∧
    ∀ i : ℕ, (elementwise (fun ω : ℝ => respOfFilter b a (Complex.exp (-(Complex.I * ω)))) ωs)[i]?
        = (ωs[i]?).map fun ω => respSpec b a (Complex.exp (-(Complex.I * ω))) := by
  constructor
  · simp [elementwise]
  · intro i
    simp only [elementwise, List.getElem?_map]
    cases ωs[i]? with
    | none => rfl
    | some ω => simp [respOfFilter_eq_spec _ _ _ (Complex.exp_ne_zero _)]

/-! ### 2. cascade multiplies, parallel adds -/

/-- **C12.2a**: the cascade's response (left fold of `*` over the members' `freq_response`) is the
product of the members' transfer functions; nan / exceptions absorbing. -/
theorem cascade_mul (bank : List (List ℂ × List ℂ)) (ω : ℝ) :
    cascadeResp bank (Complex.exp (-(Complex.I * ω))) = cascadeSpec bank (Complex.exp (-(Complex.I * ω))) :=
  cascadeResp_eq_spec bank _ (Complex.exp_ne_zero _)

/-- **C12.2b**: the parallel bank's response is the sum of the members' transfer functions. -/
theorem parallel_add (bank : List (List ℂ × List ℂ)) (ω : ℝ) :
    parallelResp bank (Complex.exp (-(Complex.I * ω))) = parallelSpec bank (Complex.exp (-(Complex.I * ω))) :=
  parallelResp_eq_spec bank _ (Complex.exp_ne_zero _)

/-- **C12.2c**: when every member has a value `h_i` (a denominator term, denominator non-zero at
`w`), the cascade returns `Π h_i` and the parallel bank `Σ h_i` — in every field. -/
theorem cascade_parallel_vals {K : Type} [Field K] [DecidableEq K] (f : List K × List K)
    (bank : List (List K × List K)) (w : K) (hw : w ≠ 0) (hs : List K)
    (hv : (f :: bank).map (fun g => respSpec g.1 g.2 w) = hs.map Resp.val) :
    cascadeResp (f :: bank) w = Resp.val hs.prod ∧ parallelResp (f :: bank) w = Resp.val hs.sum := by
  cases hs with
  | nil => simp at hv
  | cons h hs =>
    rw [cascadeResp_eq_spec _ _ hw, parallelResp_eq_spec _ _ hw]
    simp only [cascadeSpec, parallelSpec, hv]
    exact ⟨prodResp_vals h hs, sumResp_vals h hs⟩

/-- **C12.2e** nested banks (a member may itself be a cascade or a parallel bank), to any depth:
the response computed as coded (recursive `freq_response`, left folds of `*` / `+`) is the product
over every cascade node and the sum over every parallel node of the leaves' transfer functions. -/
theorem bank_tree_eq_spec (t : Bank ℂ) (ω : ℝ) :
    Bank.resp (Complex.exp (-(Complex.I * ω))) t = Bank.spec (Complex.exp (-(Complex.I * ω))) t :=
  Bank.resp_eq_spec _ (Complex.exp_ne_zero _) t

/-- **C12.2f** the same in any field; and a node all of whose members have values `h_i` returns
`Π h_i` (cascade) resp. `Σ h_i` (parallel). -/
theorem bank_tree_field {K : Type} [Field K] [DecidableEq K] (w : K) (hw : w ≠ 0) (t : Bank K)
    (m : Bank K) (ms : List (Bank K)) (hs : List K)
    (hv : Bank.specList w (m :: ms) = hs.map Resp.val) :
    Bank.resp w t = Bank.spec w t ∧
    Bank.resp w (.cascade (m :: ms)) = Resp.val hs.prod ∧
    Bank.resp w (.parallel (m :: ms)) = Resp.val hs.sum := by
  refine ⟨Bank.resp_eq_spec w hw t, ?_, ?_⟩
  · rw [Bank.resp_eq_spec w hw, Bank.spec, hv]
    cases hs with
    | nil => simp [Bank.specList] at hv
    | cons h hs => exact prodResp_vals h hs
  · rw [Bank.resp_eq_spec w hw, Bank.spec, hv]
    cases hs with
    | nil => simp [Bank.specList] at hv
    | cons h hs => exact sumResp_vals h hs

/-- **C12.2d** evaluation is a ring homomorphism: the filter whose numerator / denominator are the
polynomial products has the product response, and `b₁a₂ + b₂a₁ over a₁a₂` the sum response
(`none` = nan as soon as one denominator vanishes). -/
theorem product_and_sum_filter {K : Type} [Field K] [DecidableEq K] (b₁ a₁ b₂ a₂ : List K) (w : K) :
    Hspec (convL b₁ b₂) (convL a₁ a₂) w = optMul (Hspec b₁ a₁ w) (Hspec b₂ a₂ w) ∧
    Hspec (addL (convL b₁ a₂) (convL b₂ a₁)) (convL a₁ a₂) w = optAdd (Hspec b₁ a₁ w) (Hspec b₂ a₂ w) :=
  ⟨Hspec_conv b₁ a₁ b₂ a₂ w, Hspec_par b₁ a₁ b₂ a₂ w⟩

/-! ### 3. time domain: the FIR loop, its impulse response and the DFT of it -/

/-- **C12.3a**: the generated FIR loop (`ZFilter(b)(xs, zero=0)`: stored terms only, delay line
shifted after every sample) outputs the convolution `y_n = Σ_{k ≤ n} b_k x_{n-k}`, for every
coefficient list and every input. -/
theorem fir_run_eq_conv {K : Type} [Field K] [DecidableEq K] (b xs : List K) :
    firRun b xs = firSpec b xs ∧
    ∀ n < xs.length, (firRun b xs).getD n 0
      = ∑ k ∈ range b.length, if k ≤ n then b.getD k 0 * xs.getD (n - k) 0 else 0 := by
  refine ⟨firRun_eq_firSpec b xs, fun n hn => ?_⟩
  rw [firRun_getD b xs n hn, convAt_eq_sum]

/-- **C12.3b**: the impulse response of the FIR filter `b` is `b` itself (then zeros). -/
theorem impulse_response_fir {K : Type} [Field K] [DecidableEq K] (b : List K) (m n : ℕ) (hn : n ≤ m) :
    (firRun b (1 :: List.replicate m 0)).getD n 0 = b.getD n 0 :=
  firRun_impulse_getD b m n hn

/-- **C12.3c** `dft_impulse_response`: the unnormalised `dft` (as coded, kernel `cexp(-1j*n*ω)`) of
the impulse response of a FIR filter, taken over at least `len b` samples, at ω, equals
`freq_response(ω)` of that filter, and both are `Σ b_k e^{-jωk}`. -/
theorem dft_impulse_response (b : List ℂ) (ω : ℝ) (m : ℕ) (hm : b.length ≤ m + 1) :
    (dft ckern (firRun b (1 :: List.replicate m 0)) [ω] false).map (List.map Resp.val)
      = some [respOfFilter b [1] (Complex.exp (-(Complex.I * ω)))] ∧
    dft ckern (firRun b (1 :: List.replicate m 0)) [ω] false = some [tf b ω] := by
  have hd : dft ckern (firRun b (1 :: List.replicate m 0)) [ω] false = some [tf b ω] := by
    have hk : ckern ω = fun n => Complex.exp (-(Complex.I * ω)) ^ n := funext (ckern_eq ω)
    have := dftSum_firRun_impulse b m hm (Complex.exp (-(Complex.I * ω)))
    simp only [impulse] at this
    simp [dft, hk, this, tf_eq]
  refine ⟨?_, hd⟩
  rw [hd, respOfFilter_eq_spec _ _ _ (Complex.exp_ne_zero _)]
  simp [respSpec, Hspec, tf_eq, evalDirect, evalFrom, pw]

/-- **C12.3d** the same, purely algebraic (any field, any point `w`, kernel `w^n`). -/
theorem dft_impulse_response_field {K : Type} [Field K] [DecidableEq K] (b : List K) (w : K) (m : ℕ)
    (hm : b.length ≤ m + 1) :
    dftSum (fun n => pw w n) (firRun b (1 :: List.replicate m 0)) = evalDirect b w := by
  have := dftSum_firRun_impulse b m hm w
  simpa [impulse, pw_eq_pow] using this

/-! ### 4. steady state -/

/-- **C12.4** `steady_state`: the complex exponential `x_n = e^{jωn}` through the FIR filter `b`
comes out as `H(ω)·e^{jωn}` for every `n ≥ len b − 1` (memory full). -/
theorem steady_state (b : List ℂ) (ω : ℝ) (N n : ℕ) (hn : n < N) (hord : b.length ≤ n + 1) :
    (firRun b ((List.range N).map fun k : ℕ => Complex.exp (Complex.I * ω * k))).getD n 0
      = tf b ω * Complex.exp (Complex.I * ω * n) := by
  have hu : ∀ k : ℕ, Complex.exp (Complex.I * ω * k) = Complex.exp (Complex.I * ω) ^ k := by
    intro k; rw [← Complex.exp_nat_mul]; congr 1; ring
  have huw : Complex.exp (Complex.I * ω) * Complex.exp (-(Complex.I * ω)) = 1 := by
    rw [← Complex.exp_add]; simp
  have := firRun_expo b _ _ huw N n hn hord
  simp only [expoSignal] at this
  simp only [hu, tf_eq]
  exact this

/-- **C12.4a'** the scale factor of C12.4 is literally `freq_response(ω)` of the FIR filter
(`ZFilter(b)`, denominator 1): it is never nan. -/
theorem fir_freq_response (b : List ℂ) (ω : ℝ) :
    respOfFilter b [1] (Complex.exp (-(Complex.I * ω))) = Resp.val (tf b ω) := by
  rw [respOfFilter_eq_spec _ _ _ (Complex.exp_ne_zero _)]
  simp [respSpec, Hspec, tf_eq, evalDirect, evalFrom, pw]

/-- **C12.4c** every sample, transient included: `y_n = (Σ_{k ≤ n} b_k e^{-jωk}) · e^{jωn}`
(algebraic form: `x_n = u^n`, `u·w = 1`, any field). -/
theorem exponential_response {K : Type} [Field K] [DecidableEq K] (b : List K) (u w : K)
    (huw : u * w = 1) (N n : ℕ) (hn : n < N) :
    (firRun b ((List.range N).map fun k => u ^ k)).getD n 0
      = (∑ k ∈ range b.length, if k ≤ n then b.getD k 0 * w ^ k else 0) * u ^ n :=
  firRun_expo_general b u w huw N n hn

/-- **C12.4b** algebraic form: `x_n = u^n`, `u·w = 1`. -/
theorem steady_state_field {K : Type} [Field K] [DecidableEq K] (b : List K) (u w : K)
    (huw : u * w = 1) (N n : ℕ) (hn : n < N) (hord : b.length ≤ n + 1) :
    (firRun b ((List.range N).map fun k => u ^ k)).getD n 0 = evalDirect b w * u ^ n :=
  firRun_expo b u w huw N n hn hord

/-! ### 5. dft is the defining sum, linear, DC bin = mean -/

/-- **C12.5a** `dft` as coded is the defining sum `Σ_n x_n e^{-jωn}`, divided by `N` when
normalised; `ZeroDivisionError` exactly for an empty block, normalised, with a frequency. -/
theorem dft_eq_sum (blk : List ℂ) (freqs : List ℝ) (normalize : Bool) :
    dft ckern blk freqs normalize =
      if normalize = true ∧ blk.length = 0 ∧ freqs ≠ [] then none
      else some (freqs.map fun f : ℝ =>
        (∑ n ∈ range blk.length, blk.getD n 0 * Complex.exp (-(Complex.I * n * f)))
          / (if normalize then (blk.length : ℂ) else 1)) := by
  cases normalize with
  | false => simp [dft, dftSum_eq, ckern]
  | true =>
    by_cases h : blk.length = 0 ∧ freqs ≠ []
    · simp [dft, h]
    · simp only [dft, h, if_false, if_true, true_and, dftSum_eq, natC_eq, ckern, List.map_map]
      rfl

/-- **C12.5b** `dft_linear`: for blocks of equal length, any kernel, any divisor. -/
theorem dft_linear {K : Type} [Field K] (E : ℕ → K) (c d : K) (xs ys : List K)
    (h : xs.length = ys.length) :
    dftSum E (List.zipWith (fun x y => c * x + y) xs ys) / d
      = c * (dftSum E xs / d) + dftSum E ys / d := by
  have := dftSumFrom_linear E c xs ys h 0 0 0
  simp only [mul_zero, add_zero] at this
  simp only [dftSum, this]
  ring

/-- **C12.5c** `dft_dc_mean`: the DC bin of the normalised DFT is the block mean. -/
theorem dft_dc_mean (blk : List ℂ) (h : blk ≠ []) :
    dft ckern blk [0] true = some [blk.sum / blk.length] := by
  have hl : blk.length ≠ 0 := by simpa using h
  have hsum : ∑ n ∈ range blk.length, blk.getD n 0 = blk.sum := by
    have := evalDirect_eq_sum blk (1 : ℂ)
    simp only [one_pow, mul_one] at this
    rw [← this]
    have h1 : ∀ (i : ℕ) (c : List ℂ), evalFrom (1 : ℂ) i c = c.sum := by
      intro i c
      induction c generalizing i with
      | nil => rfl
      | cons x xs ih => simp [evalFrom, ih, pw_eq_pow]
    exact h1 0 blk
  rw [dft_eq_sum]
  simp only [List.getD_eq_getElem?_getD] at hsum
  simp [hl, hsum]

/-! ### 6. the executable evaluator (Gaussian rationals) and ℂ -/

/-- **C12.6a** `gauss_cast`: casting the exact ℚ[i] evaluation of the model into ℂ equals the
model evaluated in ℂ at the cast coefficients and the cast point. -/
theorem gauss_cast (b a : List GRat) (w : GRat) (hw : w ≠ 0) :
    respOfFilter (b.map GRat.toC) (a.map GRat.toC) (GRat.toC w)
      = Resp.map GRat.toC (respOfFilter b a w) :=
  respOfFilter_hom GRat.toCHom b a w hw

/-- **C12.6b**: what the driver computes (model over ℚ[i], with the instances of `Model/C12.lean`)
is the specification over ℚ[i]; cascade / parallel likewise. -/
theorem gauss_model_eq_spec (b a : List GRat) (bank : List (List GRat × List GRat)) (w : GRat)
    (hw : w ≠ 0) :
    respOfFilter b a w = respSpec b a w ∧ cascadeResp bank w = cascadeSpec bank w ∧
    parallelResp bank w = parallelSpec bank w :=
  ⟨respOfFilter_eq_spec b a w hw, cascadeResp_eq_spec bank w hw, parallelResp_eq_spec bank w hw⟩

/-- **C12.6c** every point of the unit circle is `exp(-jω)` for the frequency `ω = -arg w ∈ [-π, π)`
(the harness probes `freq_response` at `atan2(-Im w, Re w)`). -/
theorem unit_point_is_exp (w : ℂ) (h : ‖w‖ = 1) :
    Complex.exp (-(Complex.I * ((-Complex.arg w : ℝ) : ℂ))) = w ∧
    -Real.pi ≤ -Complex.arg w ∧ -Complex.arg w < Real.pi := by
  refine ⟨?_, ?_, ?_⟩
  · have := Complex.norm_mul_exp_arg_mul_I w
    rw [h] at this
    simp only [Complex.ofReal_one, one_mul] at this
    conv_rhs => rw [← this]
    congr 1
    push_cast
    ring
  · have := Complex.arg_le_pi w; linarith
  · have := Complex.neg_pi_lt_arg w; linarith

/-- **C12.6d** a Gaussian rational with `re² + im² = 1` (Pythagorean point) lies on the unit circle. -/
theorem pythagorean_point_norm (g : GRat) (h : g.re * g.re + g.im * g.im = 1) : ‖GRat.toC g‖ = 1 := by
  rw [Complex.norm_def, Complex.normSq_apply]
  have : ((g.re : ℝ)) * g.re + (g.im : ℝ) * g.im = 1 := by exact_mod_cast congrArg (fun q : ℚ => (q : ℝ)) h
  simp [this]

/-- **C12.6e** the tie in one statement: for a Pythagorean point `g` and rational (Gaussian)
coefficients, the driver's exact value, cast to ℂ, is the transfer function of the cast
coefficients at the frequency `ω = -arg g`. -/
theorem driver_value_is_transfer_function (b a : List GRat) (g : GRat)
    (h : g.re * g.re + g.im * g.im = 1) :
    Resp.map GRat.toC (respOfFilter b a g)
      = respSpec (b.map GRat.toC) (a.map GRat.toC)
          (Complex.exp (-(Complex.I * ((-Complex.arg (GRat.toC g) : ℝ) : ℂ)))) := by
  have hg : g ≠ 0 := by
    intro h0; subst h0; simp at h
  rw [(unit_point_is_exp _ (pythagorean_point_norm g h)).1, ← gauss_cast b a g hg]
  apply respOfFilter_eq_spec
  intro h0
  have := pythagorean_point_norm g h
  rw [h0] at this
  simp at this

/-! ### 7. banks are mutable lists: every use answers for the bank as it is now

A `CascadeFilter` / `ParallelFilter` is a python list.  A history is any sequence of list operations
(`l[i] = f`, `append`, `insert`, `extend`, `+=`, `*=`, `pop`, `del`, slice assignment / deletion,
`reverse`, `clear`, swapping) on the banks of a heap — banks may be nested and shared, so an inner
bank changed through another reference changes every bank holding it — interleaved with uses
(`freq_response`, `numpoly/denpoly`, `is_lti`, calling the bank). -/

/-- **C12.7a** a use after any history is answered from the heap as the list operations left it:
the observations of `ops` followed by a use of `t` are those of `ops`, then the answer computed
on the final heap. -/
theorem hist_use_reads_current_bank (heap : List (Obj ℂ)) (ops : List (HOp ℝ ℂ)) (t : ℕ)
    (q : Query ℝ ℂ) :
    histModel (fun ω : ℝ => Complex.exp (-(Complex.I * ω))) heap (ops ++ [.use t q])
      = histModel (fun ω : ℝ => Complex.exp (-(Complex.I * ω))) heap ops ++
        [answer (fun ω : ℝ => Complex.exp (-(Complex.I * ω))) (fun w t => Bank.resp w t) firRun
          (finalHeap (fun ω : ℝ => Complex.exp (-(Complex.I * ω))) (fun w t => Bank.resp w t) firRun heap ops)
          t q] := by
  unfold histModel
  rw [runH_append]
  rfl

/-- **C12.7b** the answer depends only on the current contents of the lists: two heaps (reached by
whatever histories) in which the trees reachable from `t₁` resp. `t₂` are equal answer every use
alike — nothing else of the past is remembered. -/
theorem hist_answer_depends_on_snapshot {K φ : Type} [Field K] [DecidableEq K] (pt : φ → K)
    (h₁ h₂ : List (Obj K)) (t₁ t₂ : ℕ) (q : Query φ K)
    (hs : snap h₁ (h₁.length + 1) t₁ = snap h₂ (h₂.length + 1) t₂) :
    answer pt (fun w t => Bank.resp w t) firRun h₁ t₁ q
      = answer pt (fun w t => Bank.resp w t) firRun h₂ t₂ q :=
  answer_of_snap pt _ _ h₁ h₂ t₁ t₂ q hs

/-- **C12.7c** uses are pure: the heap after a history is the heap after its list operations alone
(dropping every `freq_response` / `numpoly` / `is_lti` / call from the history changes no list). -/
theorem hist_uses_are_pure {K φ : Type} [Field K] [DecidableEq K] (pt : φ → K) (heap : List (Obj K))
    (ops : List (HOp φ K)) :
    finalHeap pt (fun w t => Bank.resp w t) firRun heap ops
      = finalHeap pt (fun w t => Bank.resp w t) firRun heap (ops.filter HOp.isMut) :=
  finalHeap_filter pt _ _ heap ops

/-- **C12.7d** every step of every history, as coded = as specified: each `freq_response` (and
`numpoly/denpoly` ratio) is the product over every cascade and the sum over every parallel bank of
the transfer functions `Σ b_k e^{-jωk} / Σ a_k e^{-jωk}` of the filters that are in the lists at
that moment; each call is the convolution with the current leaves, composed / added. -/
theorem hist_model_eq_spec (heap : List (Obj ℂ)) (ops : List (HOp ℝ ℂ)) :
    histModel (fun ω : ℝ => Complex.exp (-(Complex.I * ω))) heap ops
      = histSpec (fun ω : ℝ => Complex.exp (-(Complex.I * ω))) heap ops :=
  histModel_eq_histSpec _ (fun _ => Complex.exp_ne_zero _) heap ops

/-- **C12.7e** the same in every field, at non-zero points (what the driver computes over ℚ[i]
is covered by C12.6b for each snapshot). -/
theorem hist_model_eq_spec_field {K φ : Type} [Field K] [DecidableEq K] (pt : φ → K)
    (hpt : ∀ f, pt f ≠ 0) (heap : List (Obj K)) (ops : List (HOp φ K)) :
    histModel pt heap ops = histSpec pt heap ops :=
  histModel_eq_histSpec pt hpt heap ops

/-- **C12.7f** the answer to `freq_response` on a snapshot is the tree response of C12.2e, so all
of section 2 applies to every moment of a history. -/
theorem hist_freq_is_tree_response (heap : List (Obj ℂ)) (t : ℕ) (tree : Bank ℂ) (ωs : List ℝ)
    (hs : snap heap (heap.length + 1) t = some tree) :
    answer (fun ω : ℝ => Complex.exp (-(Complex.I * ω))) (fun w t => Bank.resp w t) firRun heap t
        (.freq ωs)
      = Obs.resp (ωs.map fun ω : ℝ => Bank.spec (Complex.exp (-(Complex.I * ω))) tree) := by
  unfold answer
  rw [hs]
  simp only [answerTree, elementwise, Bank.resp_eq_spec _ (Complex.exp_ne_zero _)]


/-! ### 8. the call: `@elementwise("freq", 1)` around the raw method, python's argument binding -/

/-- the points of the unit circle as a function of the frequency -/
noncomputable def expPt : ℝ → ℂ := fun ω => Complex.exp (-(Complex.I * ω))

/-- **C12.8a** EVERY call shape python can bind to `(self, freq)` — frequency by position
(`f.freq_response(w)`), by keyword (`f.freq_response(freq=w)`), unbound with `self=` by keyword, the
keywords in any order — gives the same thing: the raw method applied per element to the object
bound to `freq` (scalar → scalar; list / tuple / deque / set → same kind; generator / Stream → lazy),
each element being the transfer function / product over cascades / sum over parallel banks at
`exp(-jω)`. -/
theorem freq_call_eq_spec (t : Bank ℂ) (args : List (Arg ℝ)) (kw : KwArgs ℝ) (s a : Arg ℝ)
    (h : bindParams ["self", "freq"] args kw = some [s, a]) :
    freqCall expPt t args kw = freqCallSpec expPt t a := by
  unfold freqCall rawFreq freqCallSpec
  rw [wrapper_freq_of_bound _ _ _ _ s a h]
  have : (fun f : ℝ => Bank.resp (expPt f) t) = fun f : ℝ => Bank.spec (expPt f) t :=
    funext fun ω => bank_tree_eq_spec t ω
  rw [this]

/-- **C12.8b** the same in any field, at any non-zero points. -/
theorem freq_call_field {K φ : Type} [Field K] [DecidableEq K] (pt : φ → K) (hpt : ∀ f, pt f ≠ 0)
    (t : Bank K) (args : List (Arg φ)) (kw : KwArgs φ) (s a : Arg φ)
    (h : bindParams ["self", "freq"] args kw = some [s, a]) :
    freqCall pt t args kw = freqCallSpec pt t a := by
  unfold freqCall rawFreq freqCallSpec
  rw [wrapper_freq_of_bound _ _ _ _ s a h]
  have : (fun f : φ => Bank.resp (pt f) t) = fun f : φ => Bank.spec (pt f) t :=
    funext fun f => Bank.resp_eq_spec _ (hpt f) t
  rw [this]

/-- **C12.8c** the four spellings of a well-formed call, explicitly (`x` any object: scalar,
container of any kind). -/
theorem freq_call_shapes {K φ : Type} [Field K] [DecidableEq K] (pt : φ → K) (hpt : ∀ f, pt f ≠ 0)
    (t : Bank K) (x : Arg φ) :
    freqCall pt t [Arg.filt, x] [] = freqCallSpec pt t x ∧
    freqCall pt t [Arg.filt] [("freq", x)] = freqCallSpec pt t x ∧
    freqCall pt t [] [("self", Arg.filt), ("freq", x)] = freqCallSpec pt t x ∧
    freqCall pt t [] [("freq", x), ("self", Arg.filt)] = freqCallSpec pt t x := by
  refine ⟨?_, ?_, ?_, ?_⟩ <;>
    exact freq_call_field pt hpt t _ _ Arg.filt x (by simp [bindParams, kwGetAll, kwGet])

/-- **C12.8d** a list / tuple / deque / set / frozenset of frequencies (some of them possibly not
numbers): the same kind of container of the pointwise responses; the call raises iff an element
computation raises (TypeError for a non-number), with the first such exception. -/
theorem freq_call_container {K φ : Type} [Field K] [DecidableEq K] (pt : φ → K) (t : Bank K)
    (k : Kind) (hk : k = .seq ∨ k = .hash) (xs : List (Option φ)) :
    freqCallSpec pt t (Arg.cont k (xs.map Elem.ofOpt)) =
      match firstExc (xs.map (optResp fun f => Bank.spec (pt f) t)) with
      | some e => .raised e
      | none => .cast k (xs.map (optResp fun f => Bank.spec (pt f) t)) :=
  broadcast_eager _ _ k hk xs

/-- **C12.8e** generators & co (`SOME_GEN_TYPES`), Streams, chains: the call evaluates NOTHING;
reading the result `n` times shows the responses before the first failing element, that exception
once, and StopIteration from then on (a generator that raised is finished). -/
theorem freq_call_lazy {K φ : Type} [Field K] [DecidableEq K] (pt : φ → K) (t : Bank K)
    (k : Kind) (hk : k = .someGen ∨ k = .stream ∨ k = .chain) (xs : List (Option φ)) (n : ℕ) :
    freqCallSpec pt t (Arg.cont k (xs.map Elem.ofOpt)) = .lazy k (xs.map (optResp fun f => Bank.spec (pt f) t)) ∧
    genReads n (xs.map (optResp fun f => Bank.spec (pt f) t)) =
      (trace (xs.map (optResp fun f => Bank.spec (pt f) t))).take n ++
        List.replicate (n - (trace (xs.map (optResp fun f => Bank.spec (pt f) t))).length) NextObs.stop :=
  ⟨broadcast_lazy _ _ k hk xs, genReads_spec _ n⟩

/-- **C12.8f** a scalar frequency (any spelling of the number) gives the response itself, a
non-number (None, a str — strings are not iterated) TypeError; dict / bytes come back only when
empty, list_iterator & co never. -/
theorem freq_call_scalar_and_uncastable {K φ : Type} [Field K] [DecidableEq K] (pt : φ → K) (t : Bank K)
    (x : Option φ) (xs : List (Option φ)) :
    freqCallSpec pt t ⟨.scalar, Elem.ofOpt x, []⟩ = Out.ofResp (optResp (fun f => Bank.spec (pt f) t) x) ∧
    freqCallSpec pt t ⟨.str, Elem.ofOpt none, []⟩ = .raised .typeError ∧
    freqCallSpec pt t (Arg.cont .noCtor (xs.map Elem.ofOpt)) = .raised .typeError ∧
    freqCallSpec pt t (Arg.cont .emptyOnly (([] : List (Option φ)).map Elem.ofOpt)) = .cast .emptyOnly [] :=
  ⟨broadcast_scalar _ _ _ (Or.inl rfl) x, broadcast_scalar _ _ _ (Or.inr rfl) none,
   (broadcast_uncastable _ _ xs).1, (broadcast_uncastable _ _ []).2⟩

/-- **C12.8g** a call python cannot bind (a keyword that is no parameter, too many positional
arguments, `freq` twice, `self` missing): every element computation raises TypeError, so: no
frequency object found → KeyError; otherwise scalar / non-empty eager container → TypeError at
once, EMPTY eager container → the empty container, lazy kinds → a lazy result whose first read
raises. -/
theorem freq_call_unbound {K φ : Type} [Field K] [DecidableEq K] (pt : φ → K) (t : Bank K)
    (args : List (Arg φ)) (kw : KwArgs φ) (h : bindParams ["self", "freq"] args kw = none) :
    freqCall pt t args kw =
      match (if 1 < args.length then args[1]? else kwGet "freq" kw) with
      | none => .raised .keyError
      | some a => broadcast (fun _ => some .typeError) a := by
  unfold freqCall rawFreq
  exact (wrapper_freq_of_unbound _ _ _ _ h).trans (wrapper_const _ _ _)

/-- **C12.8h** in particular any keyword other than `self` / `freq` — e.g. a stray `name=` — makes
the call unbindable, whatever else is passed. -/
theorem freq_call_unexpected_keyword {φ : Type} (args : List (Arg φ)) (kw : KwArgs φ)
    (h : ∃ kv ∈ kw, kv.1 ∉ ["self", "freq"]) : bindParams ["self", "freq"] args kw = none :=
  bindParams_unexpected _ args kw h

/-- **C12.8i** what the unbindable call shows for a container `Arg.cont k xs`. -/
theorem freq_call_unbound_container {K φ : Type} (k : Kind) (xs : List (Elem φ)) :
    broadcast (fun _ => some (Resp.typeError : Resp K)) (Arg.cont k xs) =
      match k with
      | .scalar | .str | .noCtor => .raised .typeError
      | .someGen | .stream | .chain => .lazy k (xs.map fun _ => .typeError)
      | .seq | .hash | .emptyOnly => if xs = [] then .cast k [] else .raised .typeError :=
  broadcast_const_error k xs

/-- **C12.8j** ANY call whatsoever (every list of positional arguments, every dict of keyword
arguments, every kind of object in them): the decorated method as coded — wrapper dispatch, replaced
argument, python's binding inside every element call — is the specification `freqCallSpecFull`
(this is what the driver prints as "model" and "spec"). -/
theorem freq_call_model_eq_spec {K φ : Type} [Field K] [DecidableEq K] (pt : φ → K) (hpt : ∀ f, pt f ≠ 0)
    (t : Bank K) (args : List (Arg φ)) (kw : KwArgs φ) :
    freqCall pt t args kw = freqCallSpecFull pt t args kw := by
  unfold freqCallSpecFull
  cases h : bindParams ["self", "freq"] args kw with
  | none => exact freq_call_unbound pt t args kw h
  | some vs =>
    have hl := bindParams_length _ _ _ _ h
    match vs, hl with
    | [s, a], _ => exact freq_call_field pt hpt t args kw s a h

/-! ### 9. `dft(blk, freqs, normalize=True)` as called -/

/-- **C12.9a** the omitted `normalize` is `True`. -/
theorem dft_call_default {K φ : Type} [Field K] (kern : φ → ℕ → K) (bk : BlkKind) (blk : List K)
    (fs : Option (List φ)) : dftCall kern bk blk fs none = dftCall kern bk blk fs (some true) := rfl

/-- **C12.9b** the call as coded is the defining sum (divided by `N` when normalised, also by
default); ZeroDivisionError for the empty normalised block with a frequency; TypeError for a
frequency object that is no iterable, and for a block without `len()` when normalised; a block that
can be read only once (iterator, generator, Stream) gives the sum for the FIRST frequency and the
empty sum for the others. -/
theorem dft_call_eq_spec {K : Type} [Field K] [DecidableEq K] (bk : BlkKind) (blk : List K)
    (ws : Option (List K)) (normalize : Option Bool) :
    dftCall (fun (w : K) n => pw w n) bk blk ws normalize = dftCallSpec bk blk ws normalize := by
  have hs : ∀ w : K, dftSum (fun n => pw w n) blk = evalDirect blk w := fun w => by
    have := dftSum_pow w blk
    simpa [pw_eq_pow] using this
  unfold dftCall dftCallSpec
  cases ws with
  | none => rfl
  | some ws =>
    cases bk with
    | sized =>
      cases hn : normalize.getD true with
      | false => simp [dft, dftSpec, hs]
      | true =>
        by_cases h : blk = [] ∧ ¬ ws = []
        · simp [dft, h]
        · simp [dft, h, dftSpec, hs, List.map_map]
    | once =>
      cases hn : normalize.getD true with
      | true => simp
      | false =>
        cases ws with
        | nil => simp
        | cons w r => simp [dftSpec, hs]

/-- **C12.9c** python's binding of `dft(...)`: by position, by keyword, or mixed, in any order of
the keywords, the same three parameters are bound; `normalize` stays unbound when omitted. -/
theorem dft_binding {V : Type} (b f n : V) :
    bindDft [b, f] [] = some (b, f, none) ∧
    bindDft [b, f, n] [] = some (b, f, some n) ∧
    bindDft [b, f] [("normalize", n)] = some (b, f, some n) ∧
    bindDft [b] [("freqs", f)] = some (b, f, none) ∧
    bindDft [] [("freqs", f), ("blk", b)] = some (b, f, none) ∧
    bindDft [] [("normalize", n), ("blk", b), ("freqs", f)] = some (b, f, some n) ∧
    bindDft [b] [] = none ∧ bindDft [b, f, n, n] [] = none ∧
    bindDft [b, f] [("freqs", f)] = none ∧ bindDft [b, f] [("norm", n)] = none := by
  simp [bindDft]

/-! ### 10. the dict form of the specification; nan ⇔ the denominator vanishes; poles on the circle -/

/-- **C12.10a** a dict-defined filter as coded is the dict form of the specification (the
statement of C12.1e with the specification the driver prints named in it). -/
theorem freq_response_terms_spec {K : Type} [Field K] [DecidableEq K] (num den : Terms K) (w : K)
    (hw : w ≠ 0) : respOfTerms num den w = respSpecTerms num den w := respOfTerms_eq_spec num den w hw

/-- **C12.10b** the dict form of the specification IS the transfer function of the property: on the
dict `{k: c_k}` of a dense list (zeros included) and on `Poly(list)`'s stored terms (zeros dropped),
`evalTerms` is `Σ c_k w^k`, `HspecTerms` is `Hspec`, `respSpecTerms` is `respSpec` — at every point. -/
theorem terms_spec_eq_dense_spec {K : Type} [Field K] [DecidableEq K] (b a : List K) (w : K) :
    evalTerms (denseTerms 0 a) w = evalDirect a w ∧ evalTerms (polyFrom 0 a) w = evalDirect a w ∧
    HspecTerms (denseTerms 0 b) (denseTerms 0 a) w = Hspec b a w ∧
    HspecTerms (polyFrom 0 b) (polyFrom 0 a) w = Hspec b a w ∧
    respSpecTerms (denseTerms 0 b) (denseTerms 0 a) w = respSpec b a w ∧
    respSpecTerms (polyFrom 0 b) (polyFrom 0 a) w = respSpec b a w :=
  ⟨evalTerms_denseTerms a w, evalTerms_polyFrom a w, HspecTerms_dense b a w, HspecTerms_polyFrom b a w,
   respSpecTerms_dense b a w, respSpecTerms_polyFrom b a w⟩

/-- **C12.10c** `ZFilter(dict(enumerate(b)), dict(enumerate(a)))` and `ZFilter(b, a)` answer alike. -/
theorem dict_filter_eq_list_filter {K : Type} [Field K] [DecidableEq K] (b a : List K) (w : K)
    (hw : w ≠ 0) : respOfTerms (denseTerms 0 b) (denseTerms 0 a) w = respOfFilter b a w := by
  rw [respOfTerms_eq_spec _ _ _ hw, respOfFilter_eq_spec _ _ _ hw, respSpecTerms_dense]

/-- **C12.10d** "nan where the denominator vanishes", as an equivalence, in every field: the call
returns nan iff the filter exists and `Σ a_k w^k = 0`; it returns `v` iff the filter exists, the
denominator does not vanish and `v` is the quotient; there is no third outcome besides the
constructor's ValueError (the zero test precedes the division: never ZeroDivisionError). -/
theorem nan_iff_denominator_vanishes {K : Type} [Field K] [DecidableEq K] (b a : List K) (w : K)
    (hw : w ≠ 0) :
    (respOfFilter b a w = Resp.nan ↔ (∃ c ∈ a, c ≠ 0) ∧ evalDirect a w = 0) ∧
    (∀ v, respOfFilter b a w = Resp.val v ↔
      (∃ c ∈ a, c ≠ 0) ∧ evalDirect a w ≠ 0 ∧ v = evalDirect b w / evalDirect a w) ∧
    (respOfFilter b a w = Resp.valueError ∨ respOfFilter b a w = Resp.nan ∨
      ∃ v, respOfFilter b a w = Resp.val v) := by
  rw [respOfFilter_eq_spec _ _ _ hw]
  exact ⟨respSpec_eq_nan_iff b a w, fun v => respSpec_eq_val_iff b a w v, respSpec_cases b a w⟩

/-- **C12.10e** over ℂ at `exp(-jω)`: nan iff `Σ a_k e^{-jωk} = 0` (and the filter exists). -/
theorem nan_iff_complex (b a : List ℂ) (ω : ℝ) :
    respOfFilter b a (Complex.exp (-(Complex.I * ω))) = Resp.nan ↔
      (∃ c ∈ a, c ≠ 0) ∧ ∑ k ∈ range a.length, a.getD k 0 * Complex.exp (-(Complex.I * ω * k)) = 0 := by
  rw [(nan_iff_denominator_vanishes b a _ (Complex.exp_ne_zero _)).1, evalDirect_eq_sum]
  simp only [cexp_pow]

/-- **C12.10f** the two real points of the circle: at ω = 0 the response is nan iff the denominator
coefficients sum to zero, at ω = π iff their alternating sum is zero. -/
theorem nan_at_dc_and_nyquist (b a : List ℂ) :
    (respOfFilter b a (Complex.exp (-(Complex.I * ((0 : ℝ) : ℂ)))) = Resp.nan ↔
      (∃ c ∈ a, c ≠ 0) ∧ ∑ k ∈ range a.length, a.getD k 0 = 0) ∧
    (respOfFilter b a (Complex.exp (-(Complex.I * ((Real.pi : ℝ) : ℂ)))) = Resp.nan ↔
      (∃ c ∈ a, c ≠ 0) ∧ ∑ k ∈ range a.length, a.getD k 0 * (-1) ^ k = 0) := by
  have h0 : Complex.exp (-(Complex.I * ((0 : ℝ) : ℂ))) = 1 := by simp
  have hpi : Complex.exp (-(Complex.I * ((Real.pi : ℝ) : ℂ))) = -1 := by
    rw [Complex.exp_neg, mul_comm, Complex.exp_pi_mul_I]; norm_num
  rw [h0, hpi]
  refine ⟨?_, ?_⟩
  · rw [(nan_iff_denominator_vanishes b a 1 one_ne_zero).1, evalDirect_eq_sum]
    simp only [one_pow, mul_one]
  · rw [(nan_iff_denominator_vanishes b a (-1) (by norm_num)).1, evalDirect_eq_sum]

/-- **C12.10g** a denominator `(1 - r z⁻¹)·q(z⁻¹)`, `q_0 ≠ 0` (a pole at `z = r`; `r = 1`: ω = 0,
`r = -1`: ω = π): exactly at the pole (`r·w = 1`) the call returns nan whatever the numerator; at
any other point where `q` does not vanish it returns `b(w) / ((1 - r w) q(w))` — a point NEXT to
the pole (such as the binary64 value of `exp(-jπ)`, which is not `-1`) gives a large finite value,
not nan. -/
theorem pole_exactly_and_nearby {K : Type} [Field K] [DecidableEq K] (b qs : List K) (q0 : K)
    (hq : q0 ≠ 0) (r w : K) :
    (r * w = 1 → respOfFilter b (convL [1, -r] (q0 :: qs)) w = Resp.nan) ∧
    (r * w ≠ 1 → evalDirect (q0 :: qs) w ≠ 0 →
      respOfFilter b (convL [1, -r] (q0 :: qs)) w
        = Resp.val (evalDirect b w / ((1 - r * w) * evalDirect (q0 :: qs) w))) := by
  rw [respOfFilter_factor b qs q0 hq r w]
  constructor
  · intro h; simp [h]
  · intro h hq0
    have : (1 - r * w) * evalDirect (q0 :: qs) w ≠ 0 :=
      mul_ne_zero (fun h0 => h (by rw [sub_eq_zero] at h0; exact h0.symm)) hq0
    simp only [this, if_false]

/-! ### 11. the time domain run taken from C04; `dft` as coded -/

/-- **C12.11a** the two slices run the same filter: C04's specification of calling `ZFilter(b)` (the
difference equation over unbounded histories, denominator 1, no memory, zero = 0), C04's bounded
state machine and this slice's FIR loop agree on every coefficient list and every input. -/
theorem c04_run_is_fir_run {K : Type} [Field K] [DecidableEq K] (b xs : List K) :
    C04.fspec b [] 1 0 [] [] xs = firRun b xs ∧
    C04.frun b [] 1 ⟨[], C04.takeP 0 (b.length - 1) []⟩ xs = firRun b xs :=
  ⟨c04_fspec_eq_firRun b xs, c04_frun_eq_firRun b xs⟩

/-- **C12.11b** steady state on C04's run, every FIR order, every `n ≥ order`, any field: the
exponential `x_n = u^n` through the filter as C04 specifies it comes out as `freq_response` (at
`w = 1/u`) times `x_n`; and that `freq_response` is a value, never nan. -/
theorem steady_state_c04 {K : Type} [Field K] [DecidableEq K] (b : List K) (u : K) (hu : u ≠ 0)
    (N n : ℕ) (hn : n < N) (hord : b.length ≤ n + 1) :
    respOfFilter b [1] (1 / u) = Resp.val (evalDirect b (1 / u)) ∧
    (C04.fspec b [] 1 0 [] [] ((List.range N).map fun k => pw u k)).getD n 0
      = evalDirect b (1 / u) * pw u n := by
  constructor
  · rw [respOfFilter_eq_spec_of_head b [] 1 one_ne_zero]
    simp [respSpec, Hspec, evalDirect, evalFrom, pw]
  · rw [c04_fspec_eq_firRun]
    have hx : (fun k => pw u k) = fun k => u ^ k := funext (pw_eq_pow u)
    rw [hx, pw_eq_pow]
    exact firRun_expo b u (1 / u) (by field_simp) N n hn hord

/-- **C12.11c** the same statement as the driver runs it — exact Gaussian rationals, `u` a
Pythagorean point — read in ℂ: with `ω = arg u`, sample `n ≥ order` of C04's run of
`x_n = e^{jωn}` is `H(ω)·e^{jωn}`, `H(ω) = Σ b_k e^{-jωk}` being `freq_response(ω)`. -/
theorem steady_state_gauss (b : List GRat) (u : GRat) (hu : u.re * u.re + u.im * u.im = 1)
    (N n : ℕ) (hn : n < N) (hord : b.length ≤ n + 1) :
    Resp.map GRat.toC (respOfFilter b [1] (1 / u))
      = Resp.val (tf (b.map GRat.toC) (Complex.arg (GRat.toC u))) ∧
    GRat.toC ((C04.fspec b [] 1 0 [] [] ((List.range N).map fun k => pw u k)).getD n 0)
      = tf (b.map GRat.toC) (Complex.arg (GRat.toC u))
          * Complex.exp (Complex.I * (Complex.arg (GRat.toC u)) * n) := by
  have hu0 : u ≠ 0 := by
    intro h0; subst h0; simp at hu
  have hnorm := pythagorean_point_norm u hu
  have huexp : GRat.toC u = Complex.exp (Complex.I * (Complex.arg (GRat.toC u))) := by
    have := Complex.norm_mul_exp_arg_mul_I (GRat.toC u)
    rw [hnorm] at this
    simp only [Complex.ofReal_one, one_mul] at this
    rw [mul_comm]; exact this.symm
  have hw : GRat.toC (1 / u) = Complex.exp (-(Complex.I * (Complex.arg (GRat.toC u)))) := by
    have : GRat.toC (1 / u) = 1 / GRat.toC u := by
      have h := map_div₀ GRat.toCHom (1 : GRat) u
      rw [map_one] at h
      exact h
    rw [this, Complex.exp_neg, ← huexp, one_div]
  have hH : GRat.toC (evalDirect b (1 / u)) = tf (b.map GRat.toC) (Complex.arg (GRat.toC u)) := by
    rw [tf_eq, ← hw]
    exact (evalDirect_hom GRat.toCHom b (1 / u)).symm
  obtain ⟨h1, h2⟩ := steady_state_c04 b u hu0 N n hn hord
  constructor
  · rw [h1]; simp only [Resp.map, hH]
  · rw [h2]
    have hm : GRat.toC (evalDirect b (1 / u) * pw u n)
        = GRat.toC (evalDirect b (1 / u)) * GRat.toC u ^ n := by
      rw [pw_eq_pow]
      have h := map_mul GRat.toCHom (evalDirect b (1 / u)) (u ^ n)
      rw [map_pow] at h
      exact h
    rw [hm, hH]
    congr 1
    rw [huexp, ← Complex.exp_nat_mul]
    congr 1
    rw [← huexp]
    ring

/-- **C12.11d** the unnormalised DFT sum of the impulse response AS C04 RUNS IT, over at least
`len b` samples, at `w`, is `freq_response(w)` of the FIR filter (any field, in particular the
Gaussian rationals of the driver). -/
theorem dft_impulse_response_c04 {K : Type} [Field K] [DecidableEq K] (b : List K) (w : K) (m : ℕ)
    (hm : b.length ≤ m + 1) :
    Resp.val (dftSum (fun n => pw w n) (C04.fspec b [] 1 0 [] [] (1 :: List.replicate m 0)))
      = respOfFilter b [1] w := by
  rw [c04_fspec_eq_firRun, dft_impulse_response_field b w m hm,
    respOfFilter_eq_spec_of_head b [] 1 one_ne_zero]
  simp [respSpec, Hspec, evalDirect, evalFrom, pw]

/-- **C12.11e** `dft` AS CODED (all frequencies, both modes, the ZeroDivisionError included) is
linear in the block: for blocks of equal length, `dft(c·x + y) = c·dft(x) + dft(y)` bin by bin, and
the three calls raise together. -/
theorem dft_linear_as_coded {K φ : Type} [Field K] (kern : φ → ℕ → K) (c : K) (xs ys : List K)
    (h : xs.length = ys.length) (freqs : List φ) (normalize : Bool) :
    dft kern (List.zipWith (fun x y => c * x + y) xs ys) freqs normalize =
      match dft kern xs freqs normalize, dft kern ys freqs normalize with
      | some X, some Y => some (List.zipWith (fun x y => c * x + y) X Y)
      | _, _ => none :=
  dft_linear_coded kern c xs ys h freqs normalize

/-- **C12.11f** the DC bin of the normalised form is the block mean, for every non-empty block, in
every field, with the kernel the driver runs (`w^n` at `w = 1`). -/
theorem dft_dc_mean_field {K : Type} [Field K] (blk : List K) (h : blk ≠ []) :
    dft (fun (w : K) n => pw w n) blk [1] true = some [blk.sum / natC blk.length] := by
  have hl : blk.length ≠ 0 := by simpa using h
  simp [dft, hl, dftSum_pw, evalDirect_one]

/-! ### 12. the model is what the SOURCE says now

`harness/props/c12_tr.py` reads the bodies, decorators and signatures of the four anchored functions
from the repo under test with `ast` and rewrites `ALV/Gen/C12Src.lean` on every check.  Each generated
definition is the hand-written model function, so every theorem above is a theorem about the
regenerated definitions; an edit of the source that changes the meaning breaks one of these. -/

section src
variable {α φ : Type} [Add α] [Mul α] [Sub α] [Neg α] [Div α] [OfNat α 0] [OfNat α 1] [DecidableEq α]

/-- **C12.12a** the body of `LinearFilter.freq_response` as read from the source (the point
`complex_exp(-1j * freq)`, `numpoly` / `denpoly` called at it, `den == 0` → nan, else `num / den`) is
`freqResponse` at the point `exp(-1j*freq)`. -/
theorem src_linear_freq_response_is_model (X : CExp φ α) :
    ALV.Gen.C12.LinearFilter_freq_response X =
      fun (self : Filt α) (freq : φ) => freqResponse self (X.pt freq) := rfl

/-- **C12.12b** the body of `CascadeFilter.freq_response` as read from the source
(`reduce(operator.mul, (filt.freq_response(freq) for filt in self.callables))`) is the cascade case of
`Bank.resp` (members answer recursively) and the flat `cascadeResp`. -/
theorem src_cascade_freq_response_is_model (pt : φ → α) (ms : List (Bank α)) (freq : φ)
    (bank : List (List α × List α)) (w : α) :
    ALV.Gen.C12.CascadeFilter_freq_response (fun m f => Bank.resp (pt f) m) ms freq
        = Bank.resp (pt freq) (.cascade ms) ∧
      ALV.Gen.C12.CascadeFilter_freq_response (fun (f : List α × List α) (v : α) => respOfFilter f.1 f.2 v) bank w
        = cascadeResp bank w := by
  refine ⟨?_, rfl⟩
  simp only [ALV.Gen.C12.CascadeFilter_freq_response, Bank.resp, Bank.respList_eq_map]

/-- **C12.12c** likewise `ParallelFilter.freq_response` (`reduce(operator.add, …)`). -/
theorem src_parallel_freq_response_is_model (pt : φ → α) (ms : List (Bank α)) (freq : φ)
    (bank : List (List α × List α)) (w : α) :
    ALV.Gen.C12.ParallelFilter_freq_response (fun m f => Bank.resp (pt f) m) ms freq
        = Bank.resp (pt freq) (.parallel ms) ∧
      ALV.Gen.C12.ParallelFilter_freq_response (fun (f : List α × List α) (v : α) => respOfFilter f.1 f.2 v) bank w
        = parallelResp bank w := by
  refine ⟨?_, rfl⟩
  simp only [ALV.Gen.C12.ParallelFilter_freq_response, Bank.resp, Bank.respList_eq_map]

/-- **C12.12d** the body of `dft` as read from the source (the generator of
`sum(xn * cexp(-1j * n * f) for n, xn in enumerate(blk))` over `freqs`, `if normalize:` the division
of every value by `len(blk)`, else the list) is the model `dft` with the kernel `cexp(-1j*n*f)`. -/
theorem src_dft_is_model (X : CExp φ α) : ALV.Gen.C12.dft X = dft X.kern := by
  funext blk freqs normalize
  have h : ∀ f, sumEnum (fun n xn => xn * X.cis (-1) n f) blk = dftSum (X.kern f) blk :=
    fun f => sumEnum_mul _ blk
  cases normalize with
  | false => simp only [ALV.Gen.C12.dft, dft, h, Bool.false_eq_true, if_false]
  | true => simp only [ALV.Gen.C12.dft, dft, h, if_true, divAll_map]

/-- **C12.12e** the three `freq_response` methods as DECORATED in the source (`@elementwise("freq", 1)`
around `def freq_response(self, freq)`: the decorator's name and position, the parameter list python
binds) are the call model `freqCall`. -/
theorem src_freq_response_call_is_model (pt : φ → α) (t : Bank α) :
    ALV.Gen.C12.LinearFilter_freq_response_call pt t = freqCall pt t ∧
    ALV.Gen.C12.CascadeFilter_freq_response_call pt t = freqCall pt t ∧
    ALV.Gen.C12.ParallelFilter_freq_response_call pt t = freqCall pt t := by
  have h : ∀ (R : φ → Resp α) (leaf : Bool), rawFreqByP ["self", "freq"] 1 R leaf = rawFreqBy R leaf :=
    fun R leaf => funext fun a => funext fun k => rawFreqByP_self_freq R leaf a k
  refine ⟨?_, ?_, ?_⟩ <;> funext args kw
  · simp only [ALV.Gen.C12.LinearFilter_freq_response_call, freqCall, rawFreq, h]
  · simp only [ALV.Gen.C12.CascadeFilter_freq_response_call, freqCall, rawFreq, h]
  · simp only [ALV.Gen.C12.ParallelFilter_freq_response_call, freqCall, rawFreq, h]

/-- **C12.12f** the signature of `dft` as read from the source is `(blk, freqs, normalize=True)`: the
names `bindDft` binds and the default `dftCall` takes for an omitted `normalize`. -/
theorem src_dft_signature_is_model :
    ALV.Gen.C12.dft_params = dftSignature ∧
    (∀ (V : Type) (args : List V) (kw : List (String × V)),
      bindDftP (ALV.Gen.C12.dft_params.map (·.1)) args kw = bindDft args kw) ∧
    (∀ (kern : φ → ℕ → α) (bk : BlkKind) (blk : List α) (freqs : Option (List φ)),
      dftCall kern bk blk freqs none = dftCall kern bk blk freqs (sigDefault ALV.Gen.C12.dft_params "normalize")) :=
  ⟨rfl, fun _ args kw => bindDftP_signature args kw, fun _ _ _ _ => rfl⟩

end src

/-- **C12.12g** consequently the property holds of the REGENERATED definitions over ℂ: the source's
`freq_response` body at a real frequency evaluates the two polynomials at `exp(-jω)`, and the
source's `dft` body is the defining sum (`dft_eq_sum`). -/
theorem src_complex (f : Filt ℂ) (ω : ℝ) (blk : List ℂ) (freqs : List ℝ) (normalize : Bool) :
    ALV.Gen.C12.LinearFilter_freq_response cisC f ω = freqResponse f (Complex.exp (-(Complex.I * ω))) ∧
    ALV.Gen.C12.dft cisC blk freqs normalize =
      if normalize = true ∧ blk.length = 0 ∧ freqs ≠ [] then none
      else some (freqs.map fun f : ℝ =>
        (∑ n ∈ range blk.length, blk.getD n 0 * Complex.exp (-(Complex.I * n * f)))
          / (if normalize then (blk.length : ℂ) else 1)) := by
  refine ⟨?_, ?_⟩
  · rw [src_linear_freq_response_is_model]
    show freqResponse f (cisC.pt ω) = _
    rw [cisC_pt]
  · rw [src_dft_is_model, cisC_kern, dft_eq_sum]

/-! ### non-vacuity: hypotheses are satisfiable, statements speak about non-trivial inputs -/

example : respOfFilter [(1 : ℚ), 2, 3] [1, 1/2] 1 = Resp.val 4 := by decide +kernel
example : respOfFilter [(1 : ℚ), 2, 3] [0, 0, 1] 2 = Resp.val (17/4) := by decide +kernel   -- shifted, general path
example : respOfFilter [(1 : ℚ)] [1, -1] 1 = Resp.nan := by decide +kernel                     -- pole at ω = 0
example : respOfFilter [(1 : ℚ)] [0, 0] 1 = Resp.valueError := by decide +kernel
example : respOfTerms [((2 : ℤ), (3 : ℚ)), (-1, 1), (0, 0)] [(1, 2), (0, 4)] 2 = Resp.val (25/16) := by
  decide +kernel                                              -- unordered, non-causal, a zero entry
example : cascadeResp [([(1 : ℚ), 1], [1]), ([2], [1, 1])] 1 = Resp.val 2 := by decide +kernel
example : parallelResp [([(1 : ℚ), 1], [1]), ([2], [1, 1])] 1 = Resp.val 3 := by decide +kernel
example : Bank.resp (1 : ℚ) (.parallel [.cascade [.filt [1, 1] [1], .filt [2] [1, 1]], .filt [3] [1]])
    = Resp.val 5 := by decide +kernel
example : Bank.specList (2 : ℚ) [.cascade [.filt [1, 1] [1], .filt [2] [1, 1]], .filt [3] [1]]
    = [(2 : ℚ), 3].map Resp.val := by decide +kernel                                              -- hypothesis of 2f
example : firRun [(1 : ℚ), 2, 0, 3] [1, 0, 0, 0, 0] = [1, 2, 0, 3, 0] := by decide +kernel
example : firRun [(1 : ℚ), 2, 0, 3] [1, 1, 1, 1, 1] = [1, 3, 3, 6, 6] := by decide +kernel       -- steady state from n = 3
example : (⟨3/5, -4/5⟩ : GRat).re * (⟨3/5, -4/5⟩ : GRat).re
    + (⟨3/5, -4/5⟩ : GRat).im * (⟨3/5, -4/5⟩ : GRat).im = 1 := by decide +kernel                  -- hypothesis of 6d/6e
example : (⟨3/5, -4/5⟩ : GRat) ≠ 0 := by decide +kernel                                                 -- hypothesis of 6a/6b
example : ∃ bank : List (List ℚ × List ℚ), ∃ hs : List ℚ,                                        -- hypothesis of 2c
    bank.map (fun g => respSpec g.1 g.2 (2 : ℚ)) = hs.map Resp.val ∧ hs.length = 2 :=
  ⟨[([1, 1], [1]), ([2], [1, 1])], [3, 2/3], by decide +kernel⟩
example : dft (fun (w : ℚ) n => pw w n) [1, 2, 3, 4] [1, -1] true = some [5/2, -1/2] := by decide +kernel

-- a history: use, replace stage 0 in place (same length), use again; then through an inner reference
example : histModel (fun w : ℚ => w)
      [.bank true [1, 2], .leaf [1, 1] [1], .leaf [2] [1, 1], .leaf [3] [1]]
      [.use 0 (.freq [1]), .upd 0 (.setitem 0 3), .use 0 (.freq [1])]
    = [.resp [.val 2], .members [3, 2], .resp [.val 3]] := by decide +kernel
example : histModel (fun w : ℚ => w)
      [.bank false [1, 2], .bank true [2, 3], .leaf [1, 1] [1], .leaf [2] [1]]
      [.use 0 (.freq [1]), .upd 1 (.pop none), .use 0 (.freq [1]), .use 0 (.call [1, 0])]
    = [.resp [.val 6], .popped 3 [2], .resp [.val 4], .out (some [2, 2])] := by decide +kernel
example : (snap [Obj.bank true [1, 2], .leaf [(1 : ℚ), 1] [1], .leaf [2] [1, 1]] 4 0).map (Bank.resp 1)
    = some (.val 2) := by decide +kernel                                                -- hypothesis of 7b/7f

-- the call: positional = keyword (the frequency object a tuple with a non-number in the middle, a generator)
example : freqCall (fun w : ℚ => w) (.cascade [.filt [1, 1] [1], .filt [2] [1, 1]]) [Arg.filt]
      [("freq", Arg.cont .seq [.num 1, .num 2])] = .cast .seq [.val 2, .val 2] := by decide +kernel
example : freqCall (fun w : ℚ => w) (.filt [1, 1] [1]) [Arg.filt, Arg.cont .someGen [.num 1, .bad, .num 2]] []
      = .lazy .someGen [.val 2, .typeError, .val 3] := by decide +kernel
example : genReads 4 [Resp.val (2 : ℚ), .typeError, .val 3] = [.item (.val 2), .exc .typeError, .stop, .stop] := by
  decide +kernel
example : freqCall (fun w : ℚ => w) (.filt [1, 1] [1]) [Arg.filt] [("freq", Arg.cont .seq [.num 1]), ("name", Arg.ofElem (.num 1))]
      = .raised .typeError := by decide +kernel                                   -- hypothesis of 8g/8h
example : freqCall (fun w : ℚ => w) (.filt [1, 1] [1]) [Arg.filt] [("freq", Arg.cont .seq []), ("name", Arg.ofElem (.num 1))]
      = .cast .seq [] := by decide +kernel
example : freqCall (fun w : ℚ => w) (.filt [1, 1] [1]) [Arg.filt] [] = .raised .keyError := by decide +kernel
example : bindParams ["self", "freq"] [] [("freq", Arg.ofElem (.num (1 : ℚ))), ("self", Arg.filt)]
      = some [Arg.filt, Arg.ofElem (.num 1)] := by decide +kernel                  -- hypothesis of 8a/8b
example : dftCall (fun (w : ℚ) n => pw w n) .once [1, 2, 3] (some [1, -1, 1]) (some false) = .ok [6, 0, 0] := by
  decide +kernel
example : dftCall (fun (w : ℚ) n => pw w n) .sized [1, 2, 3] (some [1]) none = .ok [2] := by decide +kernel

-- section 10 / 11
example : respSpecTerms (denseTerms 0 [(1 : ℚ), 0, 3]) (denseTerms 0 [0, 2, 1]) 2 = Resp.val (13/8) ∧
    respSpec [(1 : ℚ), 0, 3] [0, 2, 1] 2 = Resp.val (13/8) := by decide +kernel                  -- 10b, a stored zero, a shift
example : respOfFilter [(1 : GRat)] [1, ⟨-6/5, 0⟩, 1] ⟨3/5, -4/5⟩ = Resp.nan := by decide +kernel   -- 10d: an exact pole at a Pythagorean point
example : ∃ c ∈ [(1 : GRat), ⟨-6/5, 0⟩, 1], c ≠ 0 := ⟨1, by simp, by decide +kernel⟩
example : respOfFilter [(2 : ℚ), 1] (convL [1, -(-1)] [1, 2]) (-1) = Resp.nan := by decide +kernel  -- 10g: at the pole ω = π
example : respOfFilter [(2 : ℚ), 1] (convL [1, -(-1)] [1, 2]) (-1 + 1/1024) = Resp.val (-524800/511) := by
  decide +kernel                                                                                    -- 10g: next to it
example : (-1 : ℚ) * (-1 + 1/1024) ≠ 1 ∧ evalDirect [(1 : ℚ), 2] (-1 + 1/1024) ≠ 0 := by decide +kernel
example : C04.fspec [(1 : ℚ), 2, 0, 3] [] 1 0 [] [] [1, 1, 1, 1, 1] = [1, 3, 3, 6, 6] := by decide +kernel   -- 11a/b, u = 1
example : C04.fspec [(1 : ℚ), 2] [] 1 0 [] [] ((List.range 4).map fun k => pw (2 : ℚ) k) = [1, 4, 8, 16] ∧
    evalDirect [(1 : ℚ), 2] (1 / 2) = 2 := by decide +kernel                                        -- 11b: y_n = H·2^n from n = 1
example : dft (fun (w : ℚ) n => pw w n) (List.zipWith (fun x y => 3 * x + y) [1, 2] [0, 5]) [1, -1] true
    = some [7, -4] ∧ dft (fun (w : ℚ) n => pw w n) [1, 2] [1, -1] true = some [3/2, -1/2] ∧
      dft (fun (w : ℚ) n => pw w n) [0, 5] [1, -1] true = some [5/2, -5/2] := by decide +kernel     -- 11e: 3·(3/2) + 5/2 = 7
example : ALV.Gen.C12.dft (⟨fun s n (w : ℚ) => if s = -1 then pw w n else 0⟩ : CExp ℚ ℚ) [1, 2, 3, 4] [1, -1] true
    = some [5/2, -1/2] := by decide +kernel                                                       -- 12d on a block
example : ALV.Gen.C12.LinearFilter_freq_response (⟨fun _ _ (w : ℚ) => w⟩ : CExp ℚ ℚ) ⟨[(0, 1), (1, 2)], [(0, 1), (1, 1)]⟩ 1
    = some (3/2) := by decide +kernel                                                             -- 12a: (1 + 2w)/(1 + w) at w = 1
example : ALV.Gen.C12.CascadeFilter_freq_response (fun (m : Bank ℚ) (w : ℚ) => Bank.resp w m)
    [.filt [1, 1] [1], .filt [2] [1, 1]] 1 = Resp.val 2 := by decide +kernel                      -- 12b

end ALV.Props.C12

#write_audit "C12"
