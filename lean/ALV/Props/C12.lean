/-
  C12 — property theorems.  Only statements of the property, non-vacuity examples and the audit
  live here; helper lemmas are in `ALV.Lemmas.C12*`.
-/
import ALV.Lemmas.C12Sum
import ALV.Common.Audit

namespace ALV.Props.C12
open ALV.C12 Finset

/-- **C12.0** (code shape ⇒ property shape, any field): `Poly(c)(w)` as coded (terms with zero
coefficient not stored, `w == 0` shortcut, Horner-like scheme with merged steps) is `Σ c_k w^k`. -/
theorem poly_call_eq_sum {K : Type} [Field K] [DecidableEq K] (c : List K) (w : K) :
    evalPoly (polyFrom 0 c) w = ∑ k ∈ range c.length, c.getD k 0 * w ^ k := by
  rw [evalPoly_polyFrom, evalDirect_eq_sum]

/-- **C12.1** `freq_response_eq`: for every pair of coefficient lists and every frequency ω the
model of `ZFilter(b, a).freq_response(ω)` (constructor normalisation, `Poly.__call__` at
`exp(-1j*ω)`, nan test, division) is `Σ b_k e^{-jωk} / Σ a_k e^{-jωk}`, nan where the denominator
vanishes; the constructor raises iff `a` has no non-zero entry. -/
theorem freq_response_eq (b a : List ℂ) (ω : ℝ) :
    respOfFilter b a (Complex.exp (-(Complex.I * ω))) =
      if a.all (fun c => decide (c = 0)) then Resp.valueError
      else if ∑ k ∈ range a.length, a.getD k 0 * Complex.exp (-(Complex.I * ω * k)) = 0 then Resp.nan
      else Resp.val ((∑ k ∈ range b.length, b.getD k 0 * Complex.exp (-(Complex.I * ω * k))) /
                     (∑ k ∈ range a.length, a.getD k 0 * Complex.exp (-(Complex.I * ω * k)))) := by
  rw [respOfFilter_eq_spec _ _ _ (Complex.exp_ne_zero _)]
  simp only [respSpec, Hspec, evalDirect_eq_sum, cexp_pow]
  by_cases h1 : a.all (fun c => decide (c = 0)) = true
  · simp only [h1, if_true]
  · simp only [h1, Bool.false_eq_true, if_false]
    by_cases h2 : ∑ k ∈ range a.length, a.getD k 0 * Complex.exp (-(Complex.I * ω * k)) = 0
    · simp only [h2, if_true]
    · simp only [h2, if_false]

/-- non-vacuity: a concrete filter, exact arithmetic -/
example : respOfFilter [(1 : ℚ), 2, 3] [1, 1/2] 1 = Resp.val 4 := by decide +kernel

end ALV.Props.C12

#write_audit "C12"
