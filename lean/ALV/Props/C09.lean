/-
  C09 — property theorems.  Only statements of the property, non-vacuity
  examples and the audit live here; helper lemmas are in `ALV.Lemmas.C09*`.
-/
import ALV.Lemmas.C09
import ALV.Common.Audit

namespace ALV.Props.C09
open ALV.C09

section core
variable {K : Type} [Semiring K]

/-- **C09.1a** (window given, no normalisation; any semiring): for every number of blocks
(0 included), every `hop ≤ size`, every window of `size` items, the loop of `overlap_add.list`
yields exactly `m*hop + size - hop` samples, `out[n] = Σ_k w[n-k*hop] * B_k[n-k*hop]`, and raises
nothing. -/
theorem ola_core_eq_spec (size hop : Nat) (hs : 0 < size) (hh : hop ≤ size) (w : List K)
    (hw : w.length = size) (Bs : List (List K)) (hB : ∀ B ∈ Bs, B.length = size) :
    (olaCore size hop (some w) Bs).out = olaSpec 1 w size hop Bs ∧
    (olaCore size hop (some w) Bs).err = none := by
  obtain ⟨x, xs, rfl⟩ : ∃ x xs, w = x :: xs := by
    cases w with
    | nil => simp at hw; omega
    | cons x xs => exact ⟨x, xs, rfl⟩
  have hB' : ∀ B ∈ Bs.map (applyWnd (x :: xs)), B.length = size := by
    intro B hBm
    obtain ⟨B0, h0, rfl⟩ := List.mem_map.1 hBm
    rw [applyWnd_length _ _ (by rw [hw, hB B0 h0]), hB B0 h0]
  have h := olaLoop_zero_spec size hop hh _ hB'
  simp only [olaCore, truthy, hw, ne_eq, not_true_eq_false, if_false]
  refine ⟨?_, h.2⟩
  rw [h.1, olaSpec, List.length_map]
  apply List.map_congr_left
  intro n _
  unfold shiftedAt olaAt
  rw [List.length_map]
  apply sumTo_congr
  intro k hk
  have hBk : (Bs.getD k []).length = size := by
    have : Bs.getD k [] = Bs[k] := by simp [List.getD_eq_getElem?_getD, List.getElem?_eq_getElem hk]
    rw [this]; exact hB _ (List.getElem_mem hk)
  have e : (Bs.map (applyWnd (x :: xs))).getD k [] = applyWnd (x :: xs) (Bs.getD k []) := by
    simp [List.getD_eq_getElem?_getD, List.getElem?_eq_getElem hk]
  rw [e, applyWnd_getD _ _ (by rw [hw, hBk])]
  by_cases h1 : k * hop ≤ n
  · by_cases h2 : n - k * hop < size
    · rw [if_pos h1, if_pos ⟨h1, h2⟩, one_mul]
    · have : (x :: xs).getD (n - k * hop) 0 = 0 := by
        simp only [List.getD_eq_getElem?_getD]
        rw [List.getElem?_eq_none (by rw [hw]; omega)]
        rfl
      rw [if_pos h1, if_neg (fun h => h2 h.2), this, zero_mul]
  · rw [if_neg h1, if_neg (fun h => h1 h.1)]

/-- **C09.1b** (no window, no normalisation): the same with the rectangular window. -/
theorem ola_core_nownd_eq_spec (size hop : Nat) (hh : hop ≤ size)
    (Bs : List (List K)) (hB : ∀ B ∈ Bs, B.length = size) :
    (olaCore size hop none Bs).out = olaSpec 1 (List.replicate size 1) size hop Bs ∧
    (olaCore size hop none Bs).err = none := by
  have h := olaLoop_zero_spec size hop hh _ hB
  simp only [olaCore, truthy]
  refine ⟨?_, h.2⟩
  rw [h.1, olaSpec]
  apply List.map_congr_left
  intro n _
  unfold shiftedAt olaAt
  apply sumTo_congr
  intro k hk
  by_cases h1 : k * hop ≤ n
  · by_cases h2 : n - k * hop < size
    · have : (List.replicate size (1 : K)).getD (n - k * hop) 0 = 1 := by
        simp [List.getD_eq_getElem?_getD, List.getElem?_replicate, h2]
      rw [if_pos h1, if_pos ⟨h1, h2⟩, this, one_mul, one_mul]
    · have hBk : (Bs.getD k []).length = size := by
        have : Bs.getD k [] = Bs[k] := by
          simp [List.getD_eq_getElem?_getD, List.getElem?_eq_getElem hk]
        rw [this]; exact hB _ (List.getElem_mem hk)
      have : (Bs.getD k []).getD (n - k * hop) 0 = 0 := by
        generalize Bs.getD k [] = B at hBk
        simp only [List.getD_eq_getElem?_getD]
        rw [List.getElem?_eq_none (by omega)]
        rfl
      rw [if_pos h1, if_neg (fun h => h2 h.2), this]
  · rw [if_neg h1, if_neg (fun h => h1 h.1)]

/-- the number of samples, in the words of the property -/
theorem ola_length (g : K) (w : List K) (size hop : Nat) (Bs : List (List K)) :
    (olaSpec g w size hop Bs).length = Bs.length * hop + (size - hop) := by
  simp [olaSpec]

end core

/-- non-vacuity: two blocks of 3 with hop 2 and a non-trivial window -/
example : (olaCore 3 2 (some [1, 2, 3]) [[1, 10, 100], [1000, 10000, 100000]] : Out Int).out
    = [1, 20, 1300, 20000, 300000] := by decide
example : olaSpec (1 : Int) [1, 2, 3] 3 2 [[1, 10, 100], [1000, 10000, 100000]]
    = [1, 20, 1300, 20000, 300000] := by decide
example : (olaCore 3 1 (none : Option (List Int)) []).out = [0, 0] := by decide

end ALV.Props.C09

#write_audit "C09"
