/-
  C09 — property theorems.  Only statements of the property, non-vacuity
  examples and the audit live here; helper lemmas are in `ALV.Lemmas.C09*`.
-/
import ALV.Lemmas.C09
import ALV.Lemmas.C09Gain
import ALV.Lemmas.C09Order
import ALV.Lemmas.C09Inverse
import ALV.Lemmas.C09Stft
import ALV.Lemmas.C09StftRun
import ALV.Lemmas.C09Err
import ALV.Lemmas.C09Wnd
import ALV.Lemmas.C09R4
import ALV.Lemmas.C09Src
import Mathlib.Algebra.Order.Field.Rat
import ALV.Common.Audit

namespace ALV.Props.C09
open ALV.C09 ALV.C08

section core
variable {K : Type} [Semiring K]

/-- **C09.1a** (window given, no normalisation; any semiring): for every number of blocks
(0 included), every `hop ≤ size`, every window of `size` items, the loop of `overlap_add.list`
yields exactly `m*hop + size - hop` samples, `out[n] = Σ_k w[n-k*hop] * B_k[n-k*hop]`, and raises
nothing. -/
theorem ola_core_eq_spec (size hop : Nat) (hs : 0 < size) (hh : hop ≤ size) (w : List K)
    (hw : w.length = size) (Bs : List (List K)) (hB : ∀ B ∈ Bs, B.length = size) :
    (olaCore size hop (some w) Bs).out = olaSpec 1 w size hop Bs ∧
    (olaCore size hop (some w) Bs).err = none := by
  obtain ⟨x, xs, rfl⟩ : ∃ x xs, w = x :: xs := by
    cases w with
    | nil => simp at hw; omega
    | cons x xs => exact ⟨x, xs, rfl⟩
  have hB' : ∀ B ∈ Bs.map (applyWnd (x :: xs)), B.length = size := by
    intro B hBm
    obtain ⟨B0, h0, rfl⟩ := List.mem_map.1 hBm
    rw [applyWnd_length _ _ (by rw [hw, hB B0 h0]), hB B0 h0]
  have h := olaLoop_zero_spec size hop hh _ hB'
  simp only [olaCore, truthy, hw, ne_eq, not_true_eq_false, if_false]
  refine ⟨?_, h.2⟩
  rw [h.1, olaSpec, List.length_map]
  apply List.map_congr_left
  intro n _
  unfold shiftedAt olaAt
  rw [List.length_map]
  apply sumTo_congr
  intro k hk
  have hBk : (Bs.getD k []).length = size := by
    have : Bs.getD k [] = Bs[k] := by simp [List.getD_eq_getElem?_getD, List.getElem?_eq_getElem hk]
    rw [this]; exact hB _ (List.getElem_mem hk)
  have e : (Bs.map (applyWnd (x :: xs))).getD k [] = applyWnd (x :: xs) (Bs.getD k []) := by
    simp [List.getD_eq_getElem?_getD, List.getElem?_eq_getElem hk]
  rw [e, applyWnd_getD _ _ (by rw [hw, hBk])]
  by_cases h1 : k * hop ≤ n
  · by_cases h2 : n - k * hop < size
    · rw [if_pos h1, if_pos ⟨h1, h2⟩, one_mul]
    · have : (x :: xs).getD (n - k * hop) 0 = 0 := by
        simp only [List.getD_eq_getElem?_getD]
        rw [List.getElem?_eq_none (by rw [hw]; omega)]
        rfl
      rw [if_pos h1, if_neg (fun h => h2 h.2), this, zero_mul]
  · rw [if_neg h1, if_neg (fun h => h1 h.1)]

/-- **C09.1b** (no window, no normalisation): the same with the rectangular window. -/
theorem ola_core_nownd_eq_spec (size hop : Nat) (hh : hop ≤ size)
    (Bs : List (List K)) (hB : ∀ B ∈ Bs, B.length = size) :
    (olaCore size hop none Bs).out = olaSpec 1 (List.replicate size 1) size hop Bs ∧
    (olaCore size hop none Bs).err = none := by
  have h := olaLoop_zero_spec size hop hh _ hB
  simp only [olaCore, truthy]
  refine ⟨?_, h.2⟩
  rw [h.1, olaSpec]
  apply List.map_congr_left
  intro n _
  unfold shiftedAt olaAt
  apply sumTo_congr
  intro k hk
  by_cases h1 : k * hop ≤ n
  · by_cases h2 : n - k * hop < size
    · have : (List.replicate size (1 : K)).getD (n - k * hop) 0 = 1 := by
        simp [List.getD_eq_getElem?_getD, h2]
      rw [if_pos h1, if_pos ⟨h1, h2⟩, this, one_mul, one_mul]
    · have hBk : (Bs.getD k []).length = size := by
        have : Bs.getD k [] = Bs[k] := by
          simp [List.getD_eq_getElem?_getD, List.getElem?_eq_getElem hk]
        rw [this]; exact hB _ (List.getElem_mem hk)
      have : (Bs.getD k []).getD (n - k * hop) 0 = 0 := by
        generalize Bs.getD k [] = B at hBk
        simp only [List.getD_eq_getElem?_getD]
        rw [List.getElem?_eq_none (by omega)]
        rfl
      rw [if_pos h1, if_neg (fun h => h2 h.2), this]
  · rw [if_neg h1, if_neg (fun h => h1 h.1)]

/-- the number of samples, in the words of the property -/
theorem ola_length (g : K) (w : List K) (size hop : Nat) (Bs : List (List K)) :
    (olaSpec g w size hop Bs).length = Bs.length * hop + (size - hop) := by
  simp [olaSpec]

end core


section full
variable {K : Type} [Field K] [LT K] [DecidableLT K] [DecidableEq K]

/-- **C09.1** `overlap_add.list` as a whole: for every number of blocks (0 included), every
`1 ≤ hop ≤ size` (given, or defaulted to `size`), every `size` (given, or read from the first
block), every way of giving the window (`None`, a sequence, a callable — anything that resolves
to `none` or to `size` items), normalisation on or off: exactly `m*hop + size - hop` samples,
`out[n] = Σ_k g * w[n-k*hop] * B_k[n-k*hop]` with the gain `g` of the property, no exception. -/
theorem ola_eq_spec (size hop : Nat) (hs : 0 < size) (h0 : 0 < hop) (hh : hop ≤ size)
    (Bs : List (List K)) (hB : ∀ B ∈ Bs, B.length = size)
    (size? hop? : Option Nat) (hsz : detectSize size? Bs = some size) (hhop : hop?.getD size = hop)
    (wnd : WndArg K) (w? : Option (List K)) (hres : resolveWnd size wnd = .ok w?)
    (hw : ∀ w, w? = some w → w.length = size) (normalize : Bool) :
    (overlapAddList Bs size? hop? wnd normalize).out =
        olaSpec (gainSpec size hop normalize w?) (wndSpec size w?) size hop Bs ∧
    (overlapAddList Bs size? hop? wnd normalize).err = none := by
  unfold overlapAddList
  simp only [hsz, hhop, hres]
  have hc : ¬ (hop = 0 ∨ ceilDiv size hop = 0) := by
    intro h
    rcases h with h | h
    · omega
    · unfold ceilDiv at h
      have : 0 < (size + hop - 1) / hop := Nat.div_pos (by omega) h0
      omega
  cases normalize with
  | false =>
    simp only [normWnd, Bool.false_eq_true, if_false, gainSpec]
    cases w? with
    | none => exact ola_core_nownd_eq_spec size hop hh Bs hB
    | some w => exact ola_core_eq_spec size hop hs hh w (hw w rfl) Bs hB
  | true =>
    simp only [normWnd, if_true, gainSpec]
    cases w? with
    | none =>
      simp only [truthy, if_neg hc, wndSpec]
      have h1 := ola_core_eq_spec size hop hs hh
        (List.replicate size (1 / ((ceilDiv size hop : Nat) : K))) (by simp) Bs hB
      rw [replicate_one_div, olaSpec_scale] at h1
      rw [replicate_one_div]
      exact h1
    | some w =>
      have hwl := hw w rfl
      obtain ⟨x, xs, rfl⟩ : ∃ x xs, w = x :: xs := by
        cases w with
        | nil => simp at hwl; omega
        | cons x xs => exact ⟨x, xs, rfl⟩
      simp only [truthy, hopGain_eq hop h0 (x :: xs) (by simp), wndSpec]
      by_cases hG : maxStrided (x :: xs) hop = 0
      · simp only [hG, if_true]
        exact ola_core_eq_spec size hop hs hh _ hwl Bs hB
      · simp only [hG, if_false]
        have h1 := ola_core_eq_spec size hop hs hh ((x :: xs).map (· / maxStrided (x :: xs) hop))
          (by rw [List.length_map]; exact hwl) Bs hB
        rw [olaSpec_scale] at h1
        exact h1

end full

section ordered
variable {K : Type} [Field K] [LinearOrder K] [IsStrictOrderedRing K]

/-- **C09.2** the normalisation gain: for a non-empty window and `hop ≥ 1` the code's
`max(map(sum, zip(*blocks(|w|, hop))))` exists and is the largest hop-strided sum of `|w|`:
an upper bound of every `Σ_i |w[j + i*hop]|`, `j < hop`, attained by one of them.  (The window is
divided by it unless it is 0; `ola_eq_spec` puts its reciprocal in front of the sum.) -/
theorem gain_spec (hop : Nat) (h0 : 0 < hop) (w : List K) (hw : w ≠ []) :
    ∃ G, hopGain hop w = some G ∧
      (∀ j < hop, sumTo ((w.length + hop - 1) / hop) (fun i => |w.getD (j + i * hop) 0|) ≤ G) ∧
      (∃ j < hop, sumTo ((w.length + hop - 1) / hop) (fun i => |w.getD (j + i * hop) 0|) = G) := by
  refine ⟨maxStrided w hop, hopGain_eq hop h0 w hw, ?_, ?_⟩
  · intro j hj
    obtain ⟨h', rfl⟩ : ∃ h', hop = h' + 1 := ⟨hop - 1, by omega⟩
    have := maxTo_ge (stridedAbsSum w (h' + 1)) h' j hj
    have e : stridedAbsSum w (h' + 1) j =
        sumTo ((w.length + (h' + 1) - 1) / (h' + 1)) (fun i => |w.getD (j + i * (h' + 1)) 0|) := by
      simp only [stridedAbsSum, absS_eq_abs]
    rw [← e]
    exact this
  · obtain ⟨h', rfl⟩ : ∃ h', hop = h' + 1 := ⟨hop - 1, by omega⟩
    obtain ⟨j, hj, hf⟩ := maxTo_attained (stridedAbsSum w (h' + 1)) h'
    refine ⟨j, hj, ?_⟩
    have e : stridedAbsSum w (h' + 1) j =
        sumTo ((w.length + (h' + 1) - 1) / (h' + 1)) (fun i => |w.getD (j + i * (h' + 1)) 0|) := by
      simp only [stridedAbsSum, absS_eq_abs]
    rw [← e]
    exact hf

omit [IsStrictOrderedRing K] in
/-- the gain the specification uses is that maximum, inverted (1 when it is 0 or normalisation is off) -/
theorem gainSpec_eq (size hop : Nat) (w : List K) :
    gainSpec size hop true (some w) = (if maxStrided w hop = 0 then 1 else 1 / maxStrided w hop) ∧
    gainSpec size hop false (some w) = 1 ∧
    gainSpec size hop true (none : Option (List K)) = 1 / (((size + hop - 1) / hop : Nat) : K) := by
  simp [gainSpec]

end ordered

section inverse
variable {K : Type} [Field K] [LT K] [DecidableLT K] [DecidableEq K]

/-- **C09.3** overlap-add inverts blocking: block a signal with the C08 `blocks` (size, hop,
zero padding), overlap-add the blocks with a window whose hop-shifted copies, times the gain, sum
to one (`hop ∣ size`): every output sample covered by `size/hop` blocks
(`size - hop ≤ n < m*hop`, m = number of blocks) is the input sample. -/
theorem ola_blocks_inverse (size hop : Nat) (hs : 0 < size) (h0 : 0 < hop) (hd : hop ∣ size)
    (x : List K) (wnd : WndArg K) (w? : Option (List K)) (hres : resolveWnd size wnd = .ok w?)
    (hw : ∀ w, w? = some w → w.length = size) (normalize : Bool)
    (cola : ∀ j, j < hop → sumTo (size / hop) (fun i =>
        gainSpec size hop normalize w? * (wndSpec size w?).getD (j + i * hop) 0) = 1)
    (n : Nat) (hn1 : size - hop ≤ n) (hn2 : n < (blocks size hop 0 x).length * hop) :
    (overlapAddList (blocks size hop 0 x) (some size) (some hop) wnd normalize).out.getD n 0
      = x.getD n 0 := by
  have hh : hop ≤ size := Nat.le_of_dvd hs hd
  rw [ALV.Props.C08.blocks_eq_spec size hop hs h0] at hn2 ⊢
  have hrow := blocksSpec_row_length size hop hs h0 (0 : K) x
  have hget := blocksSpec_getD size hop h0 (0 : K) x
  generalize blocksSpec size hop (0 : K) x = Bs at hn2 hrow hget
  have h := ola_eq_spec size hop hs h0 hh Bs hrow (some size) (some hop) rfl rfl wnd w? hres hw normalize
  rw [h.1]
  unfold olaSpec
  rw [getD_range_map _ _ _ (by omega)]
  apply olaAt_inverse size hop h0 hd _ _ (fun _ => 1) x Bs
  · intro k hk i hi
    rw [hget k hk i hi, one_mul]
  · intro j hj
    simpa using cola j hj
  · exact hn1
  · exact hn2

end inverse

/-- non-vacuity of the COLA hypothesis: without and with normalisation -/
example : ∀ j, j < 2 → sumTo (4 / 2) (fun i =>
    gainSpec 4 2 false (some [0, 1, 1, (0 : ℚ)]) * (wndSpec 4 (some [0, 1, 1, (0 : ℚ)])).getD (j + i * 2) 0) = 1 := by
  intro j hj
  have : j = 0 ∨ j = 1 := by omega
  rcases this with rfl | rfl <;> simp [sumTo, gainSpec, wndSpec]

example : ∀ j, j < 2 → sumTo (4 / 2) (fun i =>
    gainSpec 4 2 true (some [1, 3, 3, (1 : ℚ)]) * (wndSpec 4 (some [1, 3, 3, (1 : ℚ)])).getD (j + i * 2) 0) = 1 := by
  intro j hj
  have : j = 0 ∨ j = 1 := by omega
  have a1 : ¬ ((1 : ℚ) < 0) := by norm_num
  have a3 : ¬ ((3 : ℚ) < 0) := by norm_num
  have a4 : ¬ ((1 : ℚ) + 3 < 3 + 1) := by norm_num
  rcases this with rfl | rfl <;>
    simp [sumTo, gainSpec, wndSpec, maxStrided, maxTo, stridedAbsSum, absS, a1, a3, a4] <;> norm_num

section stft_plan

/-- **C09.5** the overlap-add strategy is called with `size`, `hop` and exactly the options given
with the `ola_` prefix, prefix removed (an `ola_size` / `ola_hop` option wins over `size` /
`hop`); nothing else gets through.  `dictUpdate kwparams kwargs` is the merge of the defaults
(decorator / partial keywords) with the keywords of the call. -/
theorem stft_ola_kwargs (kwparams kwargs : Dict) (plan : Plan)
    (h : stftPlan kwparams kwargs = .ok plan) :
    ∃ size, dictGet (dictUpdate kwparams kwargs) "size" = some size ∧
      ∀ k, dictGet plan.olaParams k =
        olaKwSpec size ((dictGet (dictUpdate kwparams kwargs) "hop").getD .none)
          (dictUpdate kwparams kwargs) k := by
  unfold stftPlan at h
  generalize dictUpdate kwparams kwargs = merged at h ⊢
  cases hsz : dictGet merged "size" with
  | none => simp [hsz] at h
  | some size =>
    refine ⟨size, rfl, ?_⟩
    simp only [hsz] at h
    split at h
    · simp at h
    · simp only [dictPop] at h
      split at h
      · simp at h
      · rename_i r hr
        simp only [Except.ok.injEq] at h
        subst h
        intro k
        obtain ⟨_, _, hr3⟩ := routeRest_ok _ _ _ _ hr
        simp only [hr3, dictGet_dictUpdate, lastFor_filterMap_strip]
        have hne : ∀ s, stripOla s = none → "ola_" ++ k ≠ s := fun s hs => ola_ne k s hs
        rw [lastFor_filter_ne _ _ _ (hne _ strip_aft), lastFor_filter_ne _ _ _ (hne _ strip_bef),
          lastFor_filter_ne _ _ _ (hne _ strip_itr), lastFor_filter_ne _ _ _ (hne _ strip_tr),
          lastFor_filter_ne _ _ _ (hne _ strip_ola), lastFor_filter_ne _ _ _ (hne _ strip_wnd),
          lastFor_filter_ne _ _ _ (hne _ strip_hop), lastFor_filter_ne _ _ _ (hne _ strip_size)]
        rw [hsz, dictGet_filter_ne _ _ _ (by decide : "hop" ≠ "size")]
        unfold olaKwSpec lastFor
        generalize (merged.filter fun kv => decide (kv.1 = "ola_" ++ k)).getLast? = o
        cases o with
        | some kv => rfl
        | none =>
          simp only [Option.map_none, Option.getD_some]
          by_cases h1 : k = "size"
          · subst h1; rfl
          · by_cases h2 : k = "hop"
            · subst h2; rfl
            · have a1 : ¬ "size" = k := fun e => h1 e.symm
              have a2 : ¬ "hop" = k := fun e => h2 e.symm
              simp [dictGet, List.find?, h1, h2, a1, a2]

/-- **C09.5b** what the wrapper accepts: a plan exists only if `size` is given, `hop ≤ size` when
both are integers, and every keyword is one of the eight known names or an `ola_` option — the
latter only with an overlap-add strategy (`ola` not `None`). -/
theorem stft_plan_checks (kwparams kwargs : Dict) (plan : Plan)
    (h : stftPlan kwparams kwargs = .ok plan) :
    (∀ hh s, dictGet (dictUpdate kwparams kwargs) "hop" = some (.int hh) →
        dictGet (dictUpdate kwparams kwargs) "size" = some (.int s) → hh ≤ s) ∧
    (∀ kv ∈ dictUpdate kwparams kwargs,
        kv.1 ∈ ["size", "hop", "wnd", "ola", "transform", "inverse_transform", "before", "after"] ∨
        (∃ k', kv.1 = "ola_" ++ k') ∧ plan.ola ≠ .none) := by
  unfold stftPlan at h
  generalize dictUpdate kwparams kwargs = merged at h ⊢
  cases hsz : dictGet merged "size" with
  | none => simp [hsz] at h
  | some size =>
    simp only [hsz] at h
    split at h
    · simp at h
    · rename_i hchk
      simp only [dictPop] at h
      split at h
      · simp at h
      · rename_i r hr
        simp only [Except.ok.injEq] at h
        subst h
        obtain ⟨hr1, hr2, _⟩ := routeRest_ok _ _ _ _ hr
        constructor
        · intro hh s hhop hs
          obtain rfl : size = .int s := Option.some.inj hs
          simp only [hhop] at hchk
          by_cases hgt : hh > s
          · simp [hgt] at hchk
          · omega
        · intro kv hkv
          by_cases hk : kv.1 ∈ ["size", "hop", "wnd", "ola", "transform", "inverse_transform",
              "before", "after"]
          · exact Or.inl hk
          · right
            simp only [List.mem_cons, List.not_mem_nil, or_false, not_or] at hk
            have hmem : kv ∈ List.filter (fun x => decide (x.fst ≠ "after"))
                (List.filter (fun x => decide (x.fst ≠ "before"))
                (List.filter (fun x => decide (x.fst ≠ "inverse_transform"))
                (List.filter (fun x => decide (x.fst ≠ "transform"))
                (List.filter (fun x => decide (x.fst ≠ "ola"))
                (List.filter (fun x => decide (x.fst ≠ "wnd"))
                (List.filter (fun x => decide (x.fst ≠ "hop"))
                (List.filter (fun x => decide (x.fst ≠ "size")) merged))))))) := by
              simp only [List.mem_filter, decide_eq_true_eq]
              tauto
            exact ⟨hr1 kv hmem, hr2 (List.ne_nil_of_mem hmem)⟩

/-- **C09.6** the three calling styles: every keyword-only call merges its keywords over the
ones collected so far (later wins, `dictGet_dictUpdate`), so
* the decorator `@stft(**kw)` (= `stft(**kw)(f)`, an empty merge) builds the wrapper of `stft(f, **kw)`;
* a partial chain `stft(**kw₁)…(**kwₙ)` ends with the defaults `kw₁` updated by `kw₂` … `kwₙ`;
* the value the wrapper sees for a keyword is the last one given along the chain and the call. -/
theorem stft_styles (chain : List Dict) (kw d call : Dict) (k : String) :
    stftDefaults ([kw] ++ [[]]) = stftDefaults [kw] ∧
    stftDefaults (chain ++ [d]) = dictUpdate (stftDefaults chain) d ∧
    dictGet (dictUpdate (stftDefaults chain) call) k =
      (match lastFor call k with
        | some v => some v
        | none => match lastFor chain.flatten k with
          | some v => some v
          | none => none) := by
  refine ⟨?_, stftDefaults_snoc chain d, ?_⟩
  · rw [stftDefaults_snoc]; rfl
  · rw [dictGet_dictUpdate, stftDefaults_eq_flatten, dictGet_dictUpdate]
    rfl

end stft_plan

section stft_run
variable {K : Type} [Field K] [LT K] [DecidableLT K] [DecidableEq K]

omit [LT K] [DecidableLT K] [DecidableEq K] in
/-- **C09.4a** the wrapper multiplies each block by the analysis window FIRST: for an analysis
window that resolves to `w` (`None` or `size` items) the blocks handed to the overlap-add are
`after(inverse(func(transform(before(B_k * w), size)), size))` for the C08 blocks `B_k` of the signal
(absent steps skipped; `windowed (some w) B` is `zipWith (*) B w`, `windowed none B = B`); in the call trace the first step called receives `B_k * w` itself and
`func` receives `transform(before(B_k * w))`. -/
theorem stft_window_first (size : Nat) (hop? : Option Nat) (wnd : WndArg K) (w : Option (List K))
    (hres : resolveWndStft size wnd = .ok w) (st : Stages K) (sig : List K) :
    blkGen size hop? wnd st sig =
      .ok ((blocks size (hop?.getD size) 0 sig).map fun B => chainOf st size (windowed w B)) ∧
    blkGenTrace size hop? wnd st sig =
      (blocks size (hop?.getD size) 0 sig).map (fun B => processTrace (st.funcs size) (windowed w B)) ∧
    (∀ blk, (processTrace (st.funcs size) blk).find? (fun e => e.1 = "func") =
        some ("func", funcInput st size blk)) ∧
    (∀ blk, ∃ name, (processTrace (st.funcs size) blk).head? = some (name, blk)) := by
  refine ⟨?_, ?_, processTrace_func st size, processTrace_head st size⟩
  · simp only [blkGen, hres, process_funcs]
  · simp only [blkGenTrace, hres]

/-- **C09.4** an STFT wrapper whose block processing is the identity reconstructs its input: with
`hop ∣ size`, analysis window `wa`, overlap-add `overlap_add.list` called with the same size and
hop and synthesis window `ws`, if the hop-shifted copies of `g * ws * wa` sum to one, then every
output sample covered by `size/hop` blocks equals the input sample, and nothing is raised. -/
theorem stft_identity (size hop : Nat) (hs : 0 < size) (h0 : 0 < hop) (hd : hop ∣ size)
    (hop? : Option Nat) (hhop : hop?.getD size = hop)
    (wa : WndArg K) (wa? : Option (List K)) (hwa : resolveWndStft size wa = .ok wa?)
    (st : Stages K) (hid : ∀ b, process (st.funcs size) b = b)
    (c : OlaCall K) (hcs : c.size? = some size) (hch : c.hop?.getD size = hop)
    (ws? : Option (List K)) (hws : resolveWnd size c.wnd = .ok ws?)
    (hwl : ∀ w, ws? = some w → w.length = size)
    (cola : ∀ j, j < hop → sumTo (size / hop) (fun i => gainSpec size hop c.normalize ws? *
        ((wndSpec size ws?).getD (j + i * hop) 0 * (wndSpec size wa?).getD (j + i * hop) 0)) = 1)
    (x : List K) (n : Nat) (hn1 : size - hop ≤ n) (hn2 : n < (blocks size hop 0 x).length * hop) :
    (stftRun false size hop? wa st (some c) x).out.getD n 0 = x.getD n 0 ∧
    (stftRun false size hop? wa st (some c) x).err = none := by
  have hh : hop ≤ size := Nat.le_of_dvd hs hd
  have hwal : ∀ w, wa? = some w → w.length = size := fun w e =>
    resolveWndStft_length size wa w (e ▸ hwa)
  simp only [stftRun, Bool.false_eq_true, if_false, blkGen, hwa, hhop, hid, overlapAddFrom]
  rw [ALV.Props.C08.blocks_eq_spec size hop hs h0] at hn2 ⊢
  have hrow := blocksSpec_row_length size hop hs h0 (0 : K) x
  have hget := blocksSpec_getD size hop h0 (0 : K) x
  generalize blocksSpec size hop (0 : K) x = Bs at hn2 hrow hget
  have hrow' : ∀ B ∈ Bs.map (windowed wa?), B.length = size := by
    intro B hB
    obtain ⟨B0, h0', rfl⟩ := List.mem_map.1 hB
    exact windowed_length size wa? hwal B0 (hrow B0 h0')
  have h := ola_eq_spec size hop hs h0 hh _ hrow' c.size? c.hop? (by rw [hcs]; rfl) hch c.wnd ws? hws
    hwl c.normalize
  refine ⟨?_, h.2⟩
  rw [h.1]
  unfold olaSpec
  rw [List.length_map, getD_range_map _ _ _ (by omega)]
  apply olaAt_inverse size hop h0 hd _ _ (fun i => (wndSpec size wa?).getD i 0) x
  · intro k hk i hi
    rw [List.length_map] at hk
    have e : (Bs.map (windowed wa?)).getD k [] = windowed wa? (Bs.getD k []) := by
      simp [List.getD_eq_getElem?_getD, List.getElem?_eq_getElem hk]
    have hBk : (Bs.getD k []).length = size := by
      have : Bs.getD k [] = Bs[k] := by simp [List.getD_eq_getElem?_getD, List.getElem?_eq_getElem hk]
      rw [this]; exact hrow _ (List.getElem_mem hk)
    rw [e, windowed_getD size wa? hwal _ hBk i hi, hget k hk i hi]
  · exact cola
  · exact hn1
  · rw [List.length_map]; exact hn2

end stft_run

/-- non-vacuity of `stft_identity`: all steps `None`, identity `func` -/
example : ∀ b : List ℚ, process ((⟨none, none, id, none, none⟩ : Stages ℚ).funcs 4) b = b := fun _ => rfl


section branches
variable {K : Type} [Semiring K]

/-- **C09.7** size check of the loop: with `1 ≤ hop ≤ size`, the first block whose length is not
`size` makes the generator raise ValueError("Wrong block size or declared"), after exactly the
`hop` samples of each block before it (with or without a window). -/
theorem ola_wrong_block_size (size hop : Nat) (hs : 0 < size) (h0 : 0 < hop) (hh : hop ≤ size)
    (w? : Option (List K)) (hw : ∀ w, w? = some w → w.length = size)
    (Bs : List (List K)) (B : List K) (rest : List (List K))
    (hB : ∀ B' ∈ Bs, B'.length = size) (hb : B.length ≠ size) :
    (olaCore size hop w? (Bs ++ B :: rest)).err = some .blockSize ∧
    (olaCore size hop w? (Bs ++ B :: rest)).out = (olaCore size hop w? Bs).out.take (Bs.length * hop) := by
  cases w? with
  | none =>
    simp only [olaCore, truthy]
    exact olaLoop_bad_block size hop h0 hh Bs B rest _ (by simp) hB hb
  | some w =>
    have hwl := hw w rfl
    obtain ⟨x, xs, rfl⟩ : ∃ x xs, w = x :: xs := by
      cases w with
      | nil => simp at hwl; omega
      | cons x xs => exact ⟨x, xs, rfl⟩
    simp only [olaCore, truthy, hwl, ne_eq, not_true_eq_false, if_false, List.map_append, List.map_cons]
    have h1 : ∀ B' ∈ Bs.map (applyWnd (x :: xs)), B'.length = size := by
      intro B' hB'
      obtain ⟨B0, hB0, rfl⟩ := List.mem_map.1 hB'
      rw [applyWnd_length_any, hwl, hB B0 hB0]; omega
    have h2 : (applyWnd (x :: xs) B).length ≠ size := by
      rw [applyWnd_length_any, hwl]; omega
    have := olaLoop_bad_block size hop h0 hh _ _ (rest.map (applyWnd (x :: xs)))
      (List.replicate size 0) (by simp) h1 h2
    simpa using this

/-- **C09.8** outside the quantifier, as coded: with `hop > size` the negative slice bound makes
every iteration replace the memory by the block, so the output is the plain concatenation of the
blocks (no zeros in the gaps, `m*size` samples instead of `m*hop + size - hop`). -/
theorem ola_hop_gt_size_concat (size hop : Nat) (hh : size < hop) (Bs : List (List K))
    (hB : ∀ B ∈ Bs, B.length = size) :
    (olaCore size hop none Bs).out = Bs.flatten ∧ (olaCore size hop none Bs).err = none := by
  simp only [olaCore, truthy]
  exact olaLoop_hop_gt size hop hh Bs _ (by simp) hB

end branches

section misc
variable {K : Type} [Field K] [LT K] [DecidableLT K] [DecidableEq K]

/-- the number of samples, at the level of `overlap_add.list` itself -/
theorem ola_out_length (size hop : Nat) (hs : 0 < size) (h0 : 0 < hop) (hh : hop ≤ size)
    (Bs : List (List K)) (hB : ∀ B ∈ Bs, B.length = size)
    (size? hop? : Option Nat) (hsz : detectSize size? Bs = some size) (hhop : hop?.getD size = hop)
    (wnd : WndArg K) (w? : Option (List K)) (hres : resolveWnd size wnd = .ok w?)
    (hw : ∀ w, w? = some w → w.length = size) (normalize : Bool) :
    (overlapAddList Bs size? hop? wnd normalize).out.length = Bs.length * hop + size - hop := by
  rw [(ola_eq_spec size hop hs h0 hh Bs hB size? hop? hsz hhop wnd w? hres hw normalize).1, ola_length]
  omega

/-- m = 0 with size detection: no block to read the size from, no sample (what the generator
was written to do; the code raises RuntimeError here — defect D7). -/
theorem ola_empty_detect (hop? : Option Nat) (wnd : WndArg K) (normalize : Bool) :
    (overlapAddList ([] : List (List K)) none hop? wnd normalize).out = [] ∧
    (overlapAddList ([] : List (List K)) none hop? wnd normalize).err = none := ⟨rfl, rfl⟩

end misc

section stft_sum
variable {K : Type} [Field K] [LT K] [DecidableLT K] [DecidableEq K]

/-- **C09.4b** the wrapper as a whole, any block processing that keeps the block length: the
output is the windowed hop-shifted sum (C09.1) of the processed windowed blocks (C09.4a) of the
signal (C08), `m*hop + size - hop` samples, nothing raised. -/
theorem stft_eq_spec (size hop : Nat) (hs : 0 < size) (h0 : 0 < hop) (hh : hop ≤ size)
    (hop? : Option Nat) (hhop : hop?.getD size = hop)
    (wa : WndArg K) (wa? : Option (List K)) (hwa : resolveWndStft size wa = .ok wa?)
    (st : Stages K) (hlen : ∀ b : List K, b.length = size → (chainOf st size b).length = size)
    (c : OlaCall K) (hcs : c.size? = some size) (hch : c.hop?.getD size = hop)
    (ws? : Option (List K)) (hws : resolveWnd size c.wnd = .ok ws?)
    (hwl : ∀ w, ws? = some w → w.length = size) (x : List K) :
    (stftRun false size hop? wa st (some c) x).out =
      olaSpec (gainSpec size hop c.normalize ws?) (wndSpec size ws?) size hop
        ((blocks size hop 0 x).map fun B => chainOf st size (windowed wa? B)) ∧
    (stftRun false size hop? wa st (some c) x).err = none ∧
    (stftRun false size hop? wa st (some c) x).blocks = none := by
  have hwal : ∀ w, wa? = some w → w.length = size := fun w e =>
    resolveWndStft_length size wa w (e ▸ hwa)
  simp only [stftRun, Bool.false_eq_true, if_false, blkGen, hwa, hhop, process_funcs, overlapAddFrom]
  have hrow : ∀ B ∈ (blocks size hop 0 x).map (fun B => chainOf st size (windowed wa? B)),
      B.length = size := by
    intro B hB
    obtain ⟨B0, hB0, rfl⟩ := List.mem_map.1 hB
    rw [ALV.Props.C08.blocks_eq_spec size hop hs h0] at hB0
    exact hlen _ (windowed_length size wa? hwal B0 (blocksSpec_row_length size hop hs h0 (0 : K) x B0 hB0))
  have h := ola_eq_spec size hop hs h0 hh _ hrow c.size? c.hop? (by rw [hcs]; rfl) hch c.wnd ws? hws
    hwl c.normalize
  exact ⟨h.1, h.2, trivial⟩

end stft_sum

section finset
variable {K : Type} [CommSemiring K]

/-- the specification's Σ is Mathlib's `Finset.sum` over the block numbers -/
theorem olaAt_eq_sum (g : K) (w : List K) (size h : Nat) (Bs : List (List K)) (n : Nat) :
    olaAt g w size h Bs n = ∑ k ∈ Finset.range Bs.length,
      if k * h ≤ n ∧ n - k * h < size then
        g * (w.getD (n - k * h) 0 * (Bs.getD k []).getD (n - k * h) 0) else 0 := by
  unfold olaAt
  exact sumTo_eq_sum _ _

end finset

section rect
variable {K : Type} [Field K] [LinearOrder K] [IsStrictOrderedRing K]

/-- **C09.2b** "1/ceil(size/h) when no window is given" is the gain of the rectangular window:
the largest hop-strided sum of `size` ones is `ceil(size/hop)`, so giving no window and giving
`[1]*size` are the same specification. -/
theorem gain_nowindow_is_rect (size hop : Nat) (hs : 0 < size) (h0 : 0 < hop) :
    maxStrided (List.replicate size (1 : K)) hop = (((size + hop - 1) / hop : Nat) : K) ∧
    gainSpec size hop true (none : Option (List K)) =
      gainSpec size hop true (some (List.replicate size (1 : K))) ∧
    wndSpec size (none : Option (List K)) = wndSpec size (some (List.replicate size (1 : K))) := by
  refine ⟨maxStrided_rect size hop h0, ?_, rfl⟩
  have hc : 0 < (size + hop - 1) / hop := Nat.div_pos (by omega) h0
  have hne : (((size + hop - 1) / hop : Nat) : K) ≠ 0 := Nat.cast_ne_zero.2 (by omega)
  simp only [gainSpec, if_true, maxStrided_rect size hop h0, hne, if_false]

end rect

/-- non-vacuity: two blocks of 3 with hop 2 and a non-trivial window -/
example : (olaCore 3 2 (some [1, 2, 3]) [[1, 10, 100], [1000, 10000, 100000]] : Out Int).out
    = [1, 20, 1300, 20000, 300000] := by decide
example : olaSpec (1 : Int) [1, 2, 3] 3 2 [[1, 10, 100], [1000, 10000, 100000]]
    = [1, 20, 1300, 20000, 300000] := by decide
example : (olaCore 3 1 (none : Option (List Int)) []).out = [0, 0] := by decide
example : (olaCore 3 2 (none : Option (List Int)) [[1, 2, 3], [4, 5], [6, 7, 8]]).out = [1, 2] := by decide
example : (olaCore 2 3 (none : Option (List Int)) [[1, 2], [3, 4]]).out = [1, 2, 3, 4] := by decide

/-- non-vacuity of the plan theorems: an accepted keyword set, the three rejections, a partial chain -/
example : (stftPlan [("size", .int 4), ("ola_wnd", .obj "w"), ("ola", .obj "list")] [("hop", .int 2)]).toOption.map (·.olaParams)
    = some [("size", .int 4), ("hop", .int 2), ("wnd", .obj "w")] := by decide
example : stftPlan [("size", .int 4), ("olawnd", .obj "w")] [] = .error (.unknownKey "olawnd") := by decide
example : stftPlan [("size", .int 4), ("ola", .none), ("ola_wnd", .none)] [] = .error (.olaOptionWithoutOla "ola_wnd") := by decide
example : stftPlan [("size", .int 4)] [("hop", .int 5)] = .error .hopGtSize := by decide
example : stftDefaults [[("size", .int 4), ("hop", .int 2)], [("hop", .int 1)]] = [("size", .int 4), ("hop", .int 1)] := by decide

/-! ## window objects: the resolution rule is part of the model -/

section wnd_objects
variable {K : Type}

/-- **C09.7a** the resolution rule, callable side: an object that is callable and not a `Stream`
is CALLED with the size, whatever else it is — in particular whether or not it is iterable too
(the `window` StrategyDict itself, an instance of a class with `__call__` and `__iter__`, a list
subclass with `__call__`) and whatever iterating over it would give.  Both resolutions
(`overlap_add`, `blk_gen` of the stft wrapper) then go on with `wnd(size)`. -/
theorem wnd_resolution_callable (size : Nat) (o : WObj K) (f : Nat → CallRes K)
    (hc : o.call = some f) (hs : o.isStream = false) :
    callStep size o = f size ∧
    (∀ it, resolveOlaObj size (.obj { o with iter := it }) = resolveOlaObj size (.obj o)) ∧
    (∀ it, resolveStftObj size (.obj { o with iter := it }) = resolveStftObj size (.obj o)) := by
  refine ⟨?_, ?_, ?_⟩
  · simp [callStep, hc, hs]
  · intro it; simp [resolveOlaObj, callStep, hc, hs]
  · intro it; simp [resolveStftObj, callStep, hc, hs]

/-- **C09.7b** the resolution rule, data side: an object that is not callable, or is a `Stream`
(Streams are callable: `Stream.__call__` maps a call over the items), is window DATA: it is never
called, whatever calling it would return. -/
theorem wnd_resolution_data (size : Nat) (o : WObj K) (h : o.call = none ∨ o.isStream = true) :
    callStep size o = o.asRes ∧
    (∀ c, o.isStream = true →
      resolveOlaObj size (.obj { o with call := c }) = resolveOlaObj size (.obj o) ∧
      resolveStftObj size (.obj { o with call := c }) = resolveStftObj size (.obj o)) := by
  have h1 : ∀ o : WObj K, o.isStream = true → callStep size o = o.asRes := by
    intro o hs
    unfold callStep
    cases o.call <;> simp [hs]
  refine ⟨?_, ?_⟩
  · rcases h with h | h
    · simp [callStep, h]
    · exact h1 o h
  · intro c hs
    have e1 := h1 o hs
    have e2 := h1 { o with call := c } hs
    have e3 : ({ o with call := c } : WObj K).asRes = o.asRes := rfl
    constructor
    · simp only [resolveOlaObj, e1, e2, e3]
    · simp only [resolveStftObj, e1, e2, e3]

/-- **C09.7c** what the overlap-add makes of the object after the call step: numbers are the
window, `None` / a non-iterable is the TypeError "Window should be an iterable or a callable";
`wnd=None` itself is "no window". -/
theorem wnd_resolution_ola (size : Nat) (o : WObj K) :
    resolveOlaObj size (.none : PyWnd K) = .ok none ∧
    (∀ l, callStep size o = .iterable (.nums l) → resolveOlaObj size (.obj o) = .ok (some l)) ∧
    (callStep size o = .pyNone → resolveOlaObj size (.obj o) = .error .windowType) ∧
    (callStep size o = .other → resolveOlaObj size (.obj o) = .error .windowType) := by
  refine ⟨rfl, ?_, ?_, ?_⟩
  · intro l h; simp [resolveOlaObj, h, listStep]
  · intro h; simp [resolveOlaObj, h]
  · intro h; simp [resolveOlaObj, h]

/-- **C09.7d** the stft wrapper's analysis window: the same call step, then the length check at
once (ValueError "Incompatible window size"), and — the one difference to the overlap-add — a
window function that returns `None` means "no window" instead of a TypeError. -/
theorem wnd_resolution_stft (size : Nat) (o : WObj K) :
    resolveStftObj size (.none : PyWnd K) = .ok none ∧
    (∀ l, callStep size o = .iterable (.nums l) →
      resolveStftObj size (.obj o) = if l.length = size then .ok (some l) else .error .windowSize) ∧
    (callStep size o = .pyNone →
      resolveStftObj size (.obj o) = .ok none ∧ resolveOlaObj size (.obj o) = .error .windowType) ∧
    (callStep size o = .other → resolveStftObj size (.obj o) = .error .windowType) := by
  refine ⟨rfl, ?_, ?_, ?_⟩
  · intro l h
    by_cases hl : l.length = size <;> simp [resolveStftObj, h, listStep, hl]
  · intro h; simp [resolveStftObj, resolveOlaObj, h]
  · intro h; simp [resolveStftObj, h]

/-- **C09.7e** the table of Python object kinds the tie draws (each row is checked against
`callable` / `isinstance(·, Iterable)` / `isinstance(·, Stream)` of a REAL object on every run):
exactly the kinds listed are called with the size — the three that are iterable as well
(`strategy_dict`, `user_both`, `callable_list`) included, the three `Stream` kinds excluded —,
every other kind except `scalar` is data. -/
theorem wnd_kind_resolution (k : WKind) (call : Nat → CallRes K) (iter : IterRes K) (size : Nat) :
    k ∈ WKind.all ∧
    callStep size (k.mk call iter) =
      (if k ∈ [WKind.function, .lambda, .partialFn, .boundMethod, .klass, .strategy, .userCallOnly,
               .strategyDict, .userBoth, .callableList] then call size
       else if k = .scalar then .other else .iterable iter) := by
  cases k <;> exact ⟨by decide, rfl⟩

end wnd_objects

section wnd_objects_full
variable {K : Type} [Field K] [LT K] [DecidableLT K] [DecidableEq K]

/-- **C09.1 for window objects**: `overlap_add.list` with ANY window object that resolves
(by C09.7a–c) to `None` or to `size` numbers is the windowed hop-shifted sum with that resolved
window; an object that does not resolve raises its error at the first `next`, no sample. -/
theorem ola_obj_eq_spec (size hop : Nat) (hs : 0 < size) (h0 : 0 < hop) (hh : hop ≤ size)
    (Bs : List (List K)) (hB : ∀ B ∈ Bs, B.length = size)
    (size? hop? : Option Nat) (hsz : detectSize size? Bs = some size) (hhop : hop?.getD size = hop)
    (p : PyWnd K) (normalize : Bool) :
    (∀ w?, resolveOlaObj size p = .ok w? → (∀ w, w? = some w → w.length = size) →
      (overlapAddListObj Bs size? hop? p normalize).out =
          olaSpec (gainSpec size hop normalize w?) (wndSpec size w?) size hop Bs ∧
      (overlapAddListObj Bs size? hop? p normalize).err = none) ∧
    (∀ e, resolveOlaObj size p = .error e → e ≠ .windowItems →
      overlapAddListObj Bs size? hop? p normalize = ⟨[], some e⟩) := by
  constructor
  · intro w? hres hw
    rw [overlapAddListObj_eq Bs size? hop? p normalize size hsz w? hres]
    exact ola_eq_spec size hop hs h0 hh Bs hB size? hop? hsz hhop (ofResolved w?) w?
      (resolveWnd_ofResolved size w?) hw normalize
  · intro e he hne
    exact overlapAddListObj_err Bs size? hop? p normalize size hsz e he hne

/-- **C09.1, callable iterable windows** (the corollary a changed resolution rule breaks): an
object that is callable, not a `Stream`, and whose call returns `size` numbers `w` gives the sum
with `w = wnd(size)` — also when the object is iterable and iterating gives something else. -/
theorem ola_callable_eq_spec (size hop : Nat) (hs : 0 < size) (h0 : 0 < hop) (hh : hop ≤ size)
    (Bs : List (List K)) (hB : ∀ B ∈ Bs, B.length = size)
    (size? hop? : Option Nat) (hsz : detectSize size? Bs = some size) (hhop : hop?.getD size = hop)
    (f : Nat → CallRes K) (it : Option (IterRes K)) (w : List K)
    (hf : f size = .iterable (.nums w)) (hw : w.length = size) (normalize : Bool) :
    (overlapAddListObj Bs size? hop? (.obj ⟨false, some f, it⟩) normalize).out =
        olaSpec (gainSpec size hop normalize (some w)) w size hop Bs ∧
    (overlapAddListObj Bs size? hop? (.obj ⟨false, some f, it⟩) normalize).err = none := by
  have hres : resolveOlaObj size (.obj ⟨false, some f, it⟩ : PyWnd K) = .ok (some w) := by
    simp [resolveOlaObj, callStep, hf, listStep]
  exact (ola_obj_eq_spec size hop hs h0 hh Bs hB size? hop? hsz hhop _ normalize).1 (some w) hres
    (fun w' e => by cases e; exact hw)

/-- **C09.4b for window objects**: the wrapper with an analysis window object `wa` and a synthesis
window object `c.wnd` (`ola_wnd`), both resolved by the rule above (`wa` with the wrapper's
resolution, `c.wnd` with the overlap-add's), is the windowed hop-shifted sum of the processed
windowed blocks. -/
theorem stft_obj_eq_spec (size hop : Nat) (hs : 0 < size) (h0 : 0 < hop) (hh : hop ≤ size)
    (hop? : Option Nat) (hhop : hop?.getD size = hop)
    (wa : PyWnd K) (wa? : Option (List K)) (hwa : resolveStftObj size wa = .ok wa?)
    (st : Stages K) (hlen : ∀ b : List K, b.length = size → (chainOf st size b).length = size)
    (c : OlaCallObj K) (hcs : c.size? = some size) (hch : c.hop?.getD size = hop)
    (ws? : Option (List K)) (hws : resolveOlaObj size c.wnd = .ok ws?)
    (hwl : ∀ w, ws? = some w → w.length = size) (x : List K) :
    (stftRunObj false size hop? wa st (some c) x).out =
      olaSpec (gainSpec size hop c.normalize ws?) (wndSpec size ws?) size hop
        ((blocks size hop 0 x).map fun B => chainOf st size (windowed wa? B)) ∧
    (stftRunObj false size hop? wa st (some c) x).err = none := by
  rw [stftRunObj_eq false size hop? wa st c x size hcs wa? hwa ws? hws]
  have hwal : ∀ w, wa? = some w → w.length = size := fun w e =>
    resolveStftObj_length size wa w (e ▸ hwa)
  have h := stft_eq_spec size hop hs h0 hh hop? hhop (ofResolved wa?) wa?
    (resolveWndStft_ofResolved size wa? hwal) st hlen
    ⟨c.size?, c.hop?, ofResolved ws?, c.normalize⟩ hcs hch ws? (resolveWnd_ofResolved size ws?) hwl x
  exact ⟨h.1, h.2.1⟩

/-- **C09.4 for window objects**: identity processing reconstructs the input (same statement as
`stft_identity`, the windows given as objects). -/
theorem stft_obj_identity (size hop : Nat) (hs : 0 < size) (h0 : 0 < hop) (hd : hop ∣ size)
    (hop? : Option Nat) (hhop : hop?.getD size = hop)
    (wa : PyWnd K) (wa? : Option (List K)) (hwa : resolveStftObj size wa = .ok wa?)
    (st : Stages K) (hid : ∀ b, process (st.funcs size) b = b)
    (c : OlaCallObj K) (hcs : c.size? = some size) (hch : c.hop?.getD size = hop)
    (ws? : Option (List K)) (hws : resolveOlaObj size c.wnd = .ok ws?)
    (hwl : ∀ w, ws? = some w → w.length = size)
    (cola : ∀ j, j < hop → sumTo (size / hop) (fun i => gainSpec size hop c.normalize ws? *
        ((wndSpec size ws?).getD (j + i * hop) 0 * (wndSpec size wa?).getD (j + i * hop) 0)) = 1)
    (x : List K) (n : Nat) (hn1 : size - hop ≤ n) (hn2 : n < (blocks size hop 0 x).length * hop) :
    (stftRunObj false size hop? wa st (some c) x).out.getD n 0 = x.getD n 0 ∧
    (stftRunObj false size hop? wa st (some c) x).err = none := by
  rw [stftRunObj_eq false size hop? wa st c x size hcs wa? hwa ws? hws]
  have hwal : ∀ w, wa? = some w → w.length = size := fun w e =>
    resolveStftObj_length size wa w (e ▸ hwa)
  exact stft_identity size hop hs h0 hd hop? hhop (ofResolved wa?) wa?
    (resolveWndStft_ofResolved size wa? hwal) st hid
    ⟨c.size?, c.hop?, ofResolved ws?, c.normalize⟩ hcs hch ws? (resolveWnd_ofResolved size ws?) hwl
    cola x n hn1 hn2

end wnd_objects_full

/-! ## option routing: `ola_params` bound to `overlap_add(blk_sig, size=None, hop=None, wnd=None,
    normalize=True)` -/

section routing

/-- **C09.5c** what reaches the four parameters of the overlap-add strategy and with which
defaults: `size` / `hop` are the option `ola_size` / `ola_hop` when given, else the wrapper's own
`size` / `hop` (`None` when `hop` was omitted: the strategy then takes `hop = size`); `wnd` is
`ola_wnd` when given, else `None` (NOT the analysis window `wnd`); `normalize` is `ola_normalize`
when given, else `True`. -/
theorem stft_ola_bound (kwparams kwargs : Dict) (plan : Plan)
    (h : stftPlan kwparams kwargs = .ok plan) (b : OlaBound) (hb : bindOla plan.olaParams = .ok b) :
    ∃ size, dictGet (dictUpdate kwparams kwargs) "size" = some size ∧
      let merged := dictUpdate kwparams kwargs
      let hop := (dictGet merged "hop").getD .none
      b.size = (olaKwSpec size hop merged "size").getD .none ∧
      b.hop = (olaKwSpec size hop merged "hop").getD .none ∧
      b.wnd = (olaKwSpec size hop merged "wnd").getD .none ∧
      b.normalize = (olaKwSpec size hop merged "normalize").getD (.int 1) := by
  obtain ⟨size, hsz, hk⟩ := stft_ola_kwargs kwparams kwargs plan h
  obtain ⟨_, h1, h2, h3, h4⟩ := bindOla_ok _ _ hb
  exact ⟨size, hsz, by rw [h1, hk], by rw [h2, hk], by rw [h3, hk], by rw [h4, hk]⟩

/-- **C09.5d** the defaults, spelled out: with no `ola_size` (`ola_hop`, `ola_wnd`,
`ola_normalize`) among the merged keywords the strategy gets the analysis size (the analysis hop
or `None`, no window, normalisation ON). -/
theorem stft_ola_defaults (kwparams kwargs : Dict) (plan : Plan)
    (h : stftPlan kwparams kwargs = .ok plan) (b : OlaBound) (hb : bindOla plan.olaParams = .ok b) :
    let merged := dictUpdate kwparams kwargs
    ((∀ kv ∈ merged, kv.1 ≠ "ola_size") → some b.size = dictGet merged "size") ∧
    ((∀ kv ∈ merged, kv.1 ≠ "ola_hop") → b.hop = (dictGet merged "hop").getD .none) ∧
    ((∀ kv ∈ merged, kv.1 ≠ "ola_wnd") → b.wnd = .none) ∧
    ((∀ kv ∈ merged, kv.1 ≠ "ola_normalize") → pvTruthy b.normalize = true) := by
  obtain ⟨size, hsz, h1, h2, h3, h4⟩ := stft_ola_bound kwparams kwargs plan h b hb
  refine ⟨?_, ?_, ?_, ?_⟩
  · intro hn
    rw [h1, olaKwSpec_absent _ _ _ "size" hn, hsz]; rfl
  · intro hn
    rw [h2, olaKwSpec_absent _ _ _ "hop" hn]; rfl
  · intro hn
    rw [h3, olaKwSpec_absent _ _ _ "wnd" hn]; rfl
  · intro hn
    rw [h4, olaKwSpec_absent _ _ _ "normalize" hn]; rfl

/-- **C09.5e** the overrides: an option given (once — the merged keywords are a dict) as
`ola_size` / `ola_hop` / `ola_wnd` / `ola_normalize` is what the strategy gets. -/
theorem stft_ola_overrides (kwparams kwargs : Dict) (plan : Plan)
    (h : stftPlan kwparams kwargs = .ok plan) (b : OlaBound) (hb : bindOla plan.olaParams = .ok b)
    (k : String) (v : PV)
    (hv : (dictUpdate kwparams kwargs).filter (fun kv => decide (kv.1 = "ola_" ++ k)) = [("ola_" ++ k, v)]) :
    (k = "size" → b.size = v) ∧ (k = "hop" → b.hop = v) ∧ (k = "wnd" → b.wnd = v) ∧
    (k = "normalize" → b.normalize = v) := by
  obtain ⟨size, _, h1, h2, h3, h4⟩ := stft_ola_bound kwparams kwargs plan h b hb
  refine ⟨?_, ?_, ?_, ?_⟩ <;> intro hk <;> subst hk
  · rw [h1, olaKwSpec_present _ _ _ _ v hv]; rfl
  · rw [h2, olaKwSpec_present _ _ _ _ v hv]; rfl
  · rw [h3, olaKwSpec_present _ _ _ _ v hv]; rfl
  · rw [h4, olaKwSpec_present _ _ _ _ v hv]; rfl

/-- **C09.5f** the call of the strategy fails ("unexpected keyword argument") only for an option
`ola_<k>` that was really given and whose `<k>` is not a parameter of the strategy; `size` / `hop`
never cause it. -/
theorem stft_ola_bind_error (kwparams kwargs : Dict) (plan : Plan)
    (h : stftPlan kwparams kwargs = .ok plan) (k : String) (hb : bindOla plan.olaParams = .error k) :
    k ∉ olaSigNames ∧ ∃ v, ("ola_" ++ k, v) ∈ dictUpdate kwparams kwargs := by
  obtain ⟨hk, v, hmem⟩ := bindOla_error _ _ hb
  refine ⟨hk, ?_⟩
  obtain ⟨size, _, hspec⟩ := stft_ola_kwargs kwparams kwargs plan h
  obtain ⟨v', hv'⟩ := dictGet_of_mem _ _ _ hmem
  rw [hspec] at hv'
  have hk1 : k ≠ "size" := fun e => hk (by rw [e]; decide)
  have hk2 : k ≠ "hop" := fun e => hk (by rw [e]; decide)
  exact ⟨v', olaKwSpec_some_mem _ _ _ _ hk1 hk2 v' hv'⟩

end routing

/-- non-vacuity of the window-object theorems: the `window`-StrategyDict shape (callable, iterable
with non-numbers, not a Stream) is called; a Stream is data; a callable returning `None` -/
example : resolveOlaObj 3 (.obj (WKind.strategyDict.mk (fun n => .iterable (.nums (List.replicate n (2 : Int))))
    (.opaque 7))) = .ok (some [2, 2, 2]) := by decide
example : resolveOlaObj 3 (.obj (WKind.userBoth.mk (fun n => .iterable (.nums (List.replicate n (2 : Int))))
    (.nums [1, 1, 3]))) = .ok (some [2, 2, 2]) := by decide
example : resolveOlaObj 3 (.obj (WKind.stream.mk (fun _ => .other) (.nums [1, 1, (3 : Int)]))) = .ok (some [1, 1, 3]) := by decide
example : resolveStftObj 3 (.obj (WKind.lambda.mk (fun _ => .pyNone) (.nums ([] : List Int)))) = .ok none := by decide
example : resolveOlaObj 3 (.obj (WKind.lambda.mk (fun _ => .pyNone) (.nums ([] : List Int)))) = .error .windowType := by decide
example : resolveStftObj 3 (.obj (WKind.pyTuple.mk (fun _ => .other) (.nums [1, (2 : Int)]))) = .error .windowSize := by decide
example : (overlapAddListObj [[1, 10, 100], [1000, 10000, 100000]] none (some 2)
    (.obj (WKind.userBoth.mk (fun n => .iterable (.nums ((List.range n).map fun i => ((i : Int) + 1)))) (.nums [9, 9, 9]))) false : Out Int).out
    = [1, 20, 1300, 20000, 300000] := by decide
/-- non-vacuity of the routing theorems: defaults and overrides -/
example : ((stftPlan [("size", .int 4), ("ola", .obj "list")] [("hop", .int 2)]).toOption.map (bindOla ·.olaParams))
    = some (.ok ⟨.int 4, .int 2, .none, .int 1⟩) := by decide
example : ((stftPlan [("size", .int 4), ("ola_hop", .int 1), ("ola_size", .int 8), ("ola_normalize", .int 0)]
      [("ola_wnd", .obj "w")]).toOption.map (bindOla ·.olaParams))
    = some (.ok ⟨.int 8, .int 1, .obj "w", .int 0⟩) := by decide
example : ((stftPlan [("size", .int 4), ("ola_latency", .int 1)] []).toOption.map (bindOla ·.olaParams))
    = some (.error "latency") := by decide

/-! ## round 4: what the driver runs and no statement reached; zero blocks; histories of partials -/

section r4_trace
variable {K : Type} [Mul K] [OfNat K 0]

/-- **C09.4c** "the wrapper multiplies each block by the analysis window before the user function",
for the analysis window given as an OBJECT and in the indexed words of C08: with the window object
resolving to `w` (`None` or `size` numbers), the call trace of `blk_gen` has one row per block of
the closed form `blocksClosed` (block k = samples `k*hop … k*hop+size-1`, the last one zero padded),
every row is the trace of the processing chain started on `B_k * w`, and what `func` receives in
row k is `transform(before(B_k * w))` — `funcInputSpec`.  A window object that does not resolve
raises before any step is called. -/
theorem stft_func_receives (size hop : Nat) (hs : 0 < size) (h0 : 0 < hop) (hop? : Option Nat)
    (hhop : hop?.getD size = hop) (wa : PyWnd K) (st : Stages K) (sig : List K) :
    (∀ w, resolveStftObj size wa = .ok w →
      blkGenTraceObj size hop? wa st sig =
        (blocksClosed size hop 0 sig).map (fun B => processTrace (st.funcs size) (windowed w B)) ∧
      (blkGenTraceObj size hop? wa st sig).map
          (fun t => (t.find? (fun e => e.1 = "func")).map (·.2)) =
        (funcInputSpec (blocksClosed size hop 0) w (st.before.getD id)
          (match st.transform with | some f => (f · size) | none => id) sig).map some ∧
      blkGenTraceObj size hop? wa st sig = blkGenTrace size hop? (ofResolved w) st sig) ∧
    (∀ e, resolveStftObj size wa = .error e →
      blkGenTraceObj size hop? wa st sig = [] ∧ blkGenObj size hop? wa st sig = .error e) := by
  constructor
  · intro w hres
    have e1 : blkGenTraceObj size hop? wa st sig =
        (blocksClosed size hop 0 sig).map (fun B => processTrace (st.funcs size) (windowed w B)) := by
      simp only [blkGenTraceObj, hres, hhop]
      rw [ALV.Props.C08.blocks_eq_closed size hop hs h0]
    refine ⟨e1, ?_, (blkGenObj_eq size hop? wa st sig w hres).2⟩
    rw [e1]
    simp only [funcInputSpec, List.map_map]
    apply List.map_congr_left
    intro B _
    simp only [Function.comp, processTrace_func, funcInput, windowed, Option.map_some]
    cases w <;> rfl
  · intro e he
    simp only [blkGenTraceObj, blkGenObj, he, and_self]

end r4_trace

section r4_plan

/-- **C09.5g** what `blk_gen` is called with (`blk_params`): `size`, `hop` (`None` when omitted),
the ANALYSIS window `wnd` (`None` when omitted — `ola_wnd` never gets here), and the four steps,
each the merged keyword or the marker `NotSpecified` (then `blk_gen` imports the numpy default);
the strategy is the keyword `ola` or `overlap_add` itself. -/
theorem stft_blk_params (kwparams kwargs : Dict) (plan : Plan)
    (h : stftPlan kwparams kwargs = .ok plan) :
    ∀ merged, merged = dictUpdate kwparams kwargs →
    plan.blkParams =
      [("size", (dictGet merged "size").getD .none), ("hop", (dictGet merged "hop").getD .none),
       ("wnd", (dictGet merged "wnd").getD .none),
       ("transform", (dictGet merged "transform").getD notSpecified),
       ("inverse_transform", (dictGet merged "inverse_transform").getD notSpecified),
       ("before", (dictGet merged "before").getD notSpecified),
       ("after", (dictGet merged "after").getD notSpecified)] ∧
    plan.ola = (dictGet merged "ola").getD defaultOla := by
  intro merged hm
  subst hm
  unfold stftPlan at h
  generalize dictUpdate kwparams kwargs = merged at h ⊢
  cases hsz : dictGet merged "size" with
  | none => simp [hsz] at h
  | some size =>
    simp only [hsz] at h
    split at h
    · simp at h
    · simp only [dictPop] at h
      split at h
      · simp at h
      · simp only [Except.ok.injEq] at h
        subst h
        simp (disch := decide) only [dictGet_filter_ne, hsz, List.cons_append, List.nil_append,
          Option.getD_some, and_self]

/-- **C09.5h** the rejections, exactly: a keyword set is refused only
* without `size` (TypeError),
* with integer `hop > size` (the only ValueError),
* with `hop=None` given explicitly (`None > size` is a TypeError),
* with an `ola_<k>` option although `ola=None` (TypeError naming the option),
* with a keyword that is neither one of the eight names nor an `ola_` option (TypeError naming it). -/
theorem stft_plan_rejects (kwparams kwargs : Dict) (e : PlanErr)
    (h : stftPlan kwparams kwargs = .error e) :
    ∀ merged, merged = dictUpdate kwparams kwargs →
    (e = .missingSize ∧ dictGet merged "size" = none ∧ e.kind = "TypeError") ∨
    (e = .hopGtSize ∧ e.kind = "ValueError" ∧ ∃ hh s, dictGet merged "hop" = some (.int hh) ∧
        dictGet merged "size" = some (.int s) ∧ s < hh) ∨
    (e = .hopNotComparable ∧ e.kind = "TypeError" ∧ dictGet merged "hop" = some .none) ∨
    (∃ k v k', e = .olaOptionWithoutOla k ∧ e.kind = "TypeError" ∧ (k, v) ∈ merged ∧ k = "ola_" ++ k' ∧
        dictGet merged "ola" = some .none) ∨
    (∃ k v, e = .unknownKey k ∧ e.kind = "TypeError" ∧ (k, v) ∈ merged ∧
        k ∉ ["size", "hop", "wnd", "ola", "transform", "inverse_transform", "before", "after"] ∧
        ∀ k', k ≠ "ola_" ++ k') := by
  intro merged hm
  subst hm
  unfold stftPlan at h
  generalize dictUpdate kwparams kwargs = merged at h ⊢
  cases hsz : dictGet merged "size" with
  | none =>
    simp only [hsz, Except.error.injEq] at h
    subst h
    exact Or.inl ⟨rfl, rfl, rfl⟩
  | some size =>
    simp only [hsz] at h
    split at h
    · rename_i e' hchk
      simp only [Except.error.injEq] at h
      subst h
      split at hchk
      · rename_i hh s hhop
        by_cases hgt : hh > s
        · simp only [hgt, if_true, Except.error.injEq] at hchk
          subst hchk
          exact Or.inr (Or.inl ⟨rfl, rfl, hh, s, hhop, rfl, hgt⟩)
        · simp [hgt] at hchk
      · rename_i hhop
        simp only [Except.error.injEq] at hchk
        subst hchk
        exact Or.inr (Or.inr (Or.inl ⟨rfl, rfl, hhop⟩))
      · simp at hchk
    · simp only [dictPop] at h
      split at h
      · rename_i e' hr
        simp only [Except.error.injEq] at h
        subst h
        rcases routeRest_error _ _ _ _ hr with ⟨k, v, k', he, hm, hk, ho⟩ | ⟨k, v, he, hm, hk⟩
        · subst he
          have hm' := (mem_restKws merged (k, v)).1 hm
          refine Or.inr (Or.inr (Or.inr (Or.inl ⟨k, v, k', rfl, rfl, hm'.1, hk, ?_⟩)))
          simp (disch := decide) only [dictGet_filter_ne] at ho
          cases ho' : dictGet merged "ola" with
          | none => simp [ho', defaultOla] at ho
          | some o => simp only [ho', Option.getD_some] at ho; rw [ho]
        · subst he
          have hm' := (mem_restKws merged (k, v)).1 hm
          refine Or.inr (Or.inr (Or.inr (Or.inr ⟨k, v, rfl, rfl, hm'.1, hm'.2, ?_⟩)))
          intro k' hk'
          rw [(stripOla_spec k k').2 hk'] at hk
          simp at hk
      · simp at h

/-- **C09.5i** and nothing else is refused: integer `size`, `hop` omitted or an integer `≤ size`,
every keyword one of the eight names or an `ola_` option (those only with a strategy) — the wrapper
goes on to `blk_gen`.  With `stft_plan_checks` this characterises the accepted keyword sets. -/
theorem stft_plan_accepts (kwparams kwargs : Dict) (s : Int) :
    ∀ merged, merged = dictUpdate kwparams kwargs →
    dictGet merged "size" = some (.int s) →
    (dictGet merged "hop" = none ∨ ∃ hh, dictGet merged "hop" = some (.int hh) ∧ hh ≤ s) →
    (∀ kv ∈ merged,
        kv.1 ∈ ["size", "hop", "wnd", "ola", "transform", "inverse_transform", "before", "after"] ∨
        ((∃ k', kv.1 = "ola_" ++ k') ∧ dictGet merged "ola" ≠ some .none)) →
    ∃ plan, stftPlan kwparams kwargs = .ok plan := by
  intro merged hm hsz hhop hkeys
  cases hp : stftPlan kwparams kwargs with
  | ok plan => exact ⟨plan, rfl⟩
  | error e =>
    exfalso
    rcases stft_plan_rejects kwparams kwargs e hp merged hm with
      ⟨_, h1, _⟩ | ⟨_, _, hh, s', h1, h2, h3⟩ | ⟨_, _, h1⟩ | ⟨k, v, k', _, _, hm', hk, ho⟩ | ⟨k, v, _, _, hm', hk, hk'⟩
    · rw [h1] at hsz; simp at hsz
    · rw [hsz] at h2
      simp only [Option.some.injEq, PV.int.injEq] at h2
      subst h2
      rcases hhop with h | ⟨hh', h, hle⟩
      · rw [h] at h1; simp at h1
      · rw [h] at h1
        simp only [Option.some.injEq, PV.int.injEq] at h1
        omega
    · rcases hhop with h | ⟨hh', h, _⟩ <;> rw [h] at h1 <;> simp at h1
    · rcases hkeys (k, v) hm' with h | ⟨_, h⟩
      · subst hk
        simp only [List.mem_cons, List.not_mem_nil, or_false] at h
        have hs : stripOla ("ola_" ++ k') = some k' := (stripOla_spec _ _).2 rfl
        rcases h with h | h | h | h | h | h | h | h <;> rw [h] at hs <;>
          simp [strip_size, strip_hop, strip_wnd, strip_ola, strip_tr, strip_itr, strip_bef, strip_aft] at hs
      · exact h ho
    · rcases hkeys (k, v) hm' with h | ⟨⟨k', h⟩, _⟩
      · exact hk h
      · exact hk' k' h

end r4_plan

/-- non-vacuity of the rejection / acceptance theorems -/
example : ∃ plan, stftPlan [("size", .int 4), ("ola_wnd", .obj "w")] [("hop", .int 4), ("after", .none)] = .ok plan := by
  refine stft_plan_accepts _ _ 4 _ rfl (by decide) (Or.inr ⟨4, by decide, by decide⟩) ?_
  intro kv hkv
  have e : dictUpdate [("size", PV.int 4), ("ola_wnd", PV.obj "w")] [("hop", PV.int 4), ("after", PV.none)] =
      [("size", .int 4), ("ola_wnd", .obj "w"), ("hop", .int 4), ("after", .none)] := by decide
  rw [e] at hkv ⊢
  simp only [List.mem_cons, List.not_mem_nil, or_false] at hkv
  rcases hkv with rfl | rfl | rfl | rfl
  · left; decide
  · right; exact ⟨⟨"wnd", by decide⟩, by decide⟩
  · left; decide
  · left; decide
example : stftPlan [("size", .int 4)] [("hop", .none)] = .error .hopNotComparable := by decide
example : (stftPlan [("size", .int 4), ("wnd", .obj "w")] [("ola_wnd", .obj "v")]).toOption.map (·.blkParams)
    = some [("size", .int 4), ("hop", .none), ("wnd", .obj "w"), ("transform", notSpecified),
            ("inverse_transform", notSpecified), ("before", notSpecified), ("after", notSpecified)] := by decide

section r4_zero
variable {K : Type} [Field K] [LT K] [DecidableLT K] [DecidableEq K]

/-- **C09.1, m = 0**: zero blocks and a declared `size`: the `m*hop + size - hop` samples of the
length clause are the `size - hop` samples of the flush, all zero — for every window object that
resolves, normalisation on or off (`list(overlap_add.list([], size=4, hop=1)) == [0.0]*3`). -/
theorem ola_zero_blocks (size hop : Nat) (hs : 0 < size) (h0 : 0 < hop) (hh : hop ≤ size)
    (hop? : Option Nat) (hhop : hop?.getD size = hop) (p : PyWnd K) (normalize : Bool)
    (w? : Option (List K)) (hres : resolveOlaObj size p = .ok w?)
    (hw : ∀ w, w? = some w → w.length = size) :
    (overlapAddListObj ([] : List (List K)) (some size) hop? p normalize).out =
        List.replicate (0 * hop + size - hop) 0 ∧
    (overlapAddListObj ([] : List (List K)) (some size) hop? p normalize).err = none := by
  have h := (ola_obj_eq_spec size hop hs h0 hh ([] : List (List K)) (by simp) (some size) hop? rfl hhop p
    normalize).1 w? hres hw
  rw [olaSpec_nil] at h
  simpa using h

/-- **C09.1, the length clause for window objects**: exactly `m*hop + size - hop` samples for every
`m ≥ 0` (the size declared, or read from the first block when there is one). -/
theorem ola_obj_out_length (size hop : Nat) (hs : 0 < size) (h0 : 0 < hop) (hh : hop ≤ size)
    (Bs : List (List K)) (hB : ∀ B ∈ Bs, B.length = size)
    (size? hop? : Option Nat) (hsz : detectSize size? Bs = some size) (hhop : hop?.getD size = hop)
    (p : PyWnd K) (normalize : Bool) (w? : Option (List K)) (hres : resolveOlaObj size p = .ok w?)
    (hw : ∀ w, w? = some w → w.length = size) :
    (overlapAddListObj Bs size? hop? p normalize).out.length = Bs.length * hop + size - hop := by
  rw [((ola_obj_eq_spec size hop hs h0 hh Bs hB size? hop? hsz hhop p normalize).1 w? hres hw).1, ola_length]
  omega

/-- **C09.3 for window objects, in the indexed words of C08**: the covered samples are those below
`m*hop` for `m` = the number of blocks of the closed form (`nFull` complete ones plus the padded
tail) — what the driver evaluates as `covered`. -/
theorem ola_obj_blocks_inverse (size hop : Nat) (hs : 0 < size) (h0 : 0 < hop) (hd : hop ∣ size)
    (x : List K) (p : PyWnd K) (w? : Option (List K)) (hres : resolveOlaObj size p = .ok w?)
    (hw : ∀ w, w? = some w → w.length = size) (normalize : Bool)
    (cola : ∀ j, j < hop → sumTo (size / hop) (fun i =>
        gainSpec size hop normalize w? * (wndSpec size w?).getD (j + i * hop) 0) = 1)
    (n : Nat) (hn1 : size - hop ≤ n) (hn2 : n < (blocksClosed size hop 0 x).length * hop) :
    (overlapAddListObj (blocks size hop 0 x) (some size) (some hop) p normalize).out.getD n 0
      = x.getD n 0 := by
  rw [overlapAddListObj_eq _ (some size) (some hop) p normalize size rfl w? hres]
  exact ola_blocks_inverse size hop hs h0 hd x (ofResolved w?) w? (resolveWnd_ofResolved size w?) hw
    normalize cola n hn1 (by rw [ALV.Props.C08.blocks_eq_closed size hop hs h0]; exact hn2)

/-- **C09.4, m = 0**: the wrapper on a signal of at most `size - hop` samples (the empty one
included).  `Stream.blocks` forms no block — and only then —, no processing step is called
whatever the steps are, and the overlap-add (declared size) still yields the `size - hop` zeros. -/
theorem stft_short_signal (size hop : Nat) (hs : 0 < size) (h0 : 0 < hop) (hh : hop ≤ size)
    (hop? : Option Nat) (hhop : hop?.getD size = hop)
    (wa : PyWnd K) (wa? : Option (List K)) (hwa : resolveStftObj size wa = .ok wa?) (st : Stages K)
    (c : OlaCallObj K) (hcs : c.size? = some size) (hch : c.hop?.getD size = hop)
    (ws? : Option (List K)) (hws : resolveOlaObj size c.wnd = .ok ws?)
    (hwl : ∀ w, ws? = some w → w.length = size) (x : List K) :
    (blocks size hop (0 : K) x = [] ↔ x.length ≤ size - hop) ∧
    (x.length ≤ size - hop →
      (stftRunObj false size hop? wa st (some c) x).out = List.replicate (size - hop) 0 ∧
      (stftRunObj false size hop? wa st (some c) x).err = none ∧
      blkGenTraceObj size hop? wa st x = []) := by
  have hiff : blocks size hop (0 : K) x = [] ↔ x.length ≤ size - hop := by
    rw [ALV.Props.C08.blocks_eq_closed size hop hs h0]
    constructor
    · intro hb
      by_cases hx : x.length ≤ size - hop
      · exact hx
      · exact absurd hb (blocksClosed_nonempty size hop 0 x (by omega))
    · exact blocksClosed_short size hop h0 hh 0 x
  refine ⟨hiff, fun hx => ?_⟩
  have hb := hiff.2 hx
  have hz := ola_zero_blocks size hop hs h0 hh c.hop? hch c.wnd c.normalize ws? hws hwl
  simp only [stftRunObj, blkGenObj, blkGenTraceObj, hwa, hhop, hb, List.map_nil, overlapAddFromObj,
    Bool.false_eq_true, if_false, hcs]
  refine ⟨?_, hz.2, trivial⟩
  simpa using hz.1

end r4_zero

/-- non-vacuity: zero blocks for hop < size, and a one-sample signal that forms no block -/
example : (overlapAddListObj ([] : List (List ℚ)) (some 4) (some 1) .none true).out = [0, 0, 0] := by
  decide +kernel
example : (stftRunObj false 4 (some 2) (.none : PyWnd ℚ) ⟨none, none, id, none, none⟩
    (some ⟨some 4, some 2, .none, true⟩) [3]).out = [0, 0] := by decide +kernel

section r4_hist

/-- **C09.6b** histories of the partial / decorator forms.  `p = stft(**kw)`, `p' = p(**kw')`,
`proc = p(func, **kw')`, `@p`, `stft(func, **kw)` in ANY order and any number of times:
* (immutability) whatever is derived later — from the same partial or any other —, every partial
  and every processor that exists keeps the options record it was created with;
* (own path) that record is the merge of the keyword dicts on its OWN path back to `stft`
  (`stftDefaults` of that path, later levels win: `stft_styles`), so a processor built from a
  partial uses the partial's defaults as they were given, never a keyword of a sibling derivation. -/
theorem stft_partial_histories (ops more : List POp) :
    (∀ i, i < (runOps ops).partials.length →
      (runOps (ops ++ more)).partials[i]? = (runOps ops).partials[i]?) ∧
    (∀ j, j < (runOps ops).procs.length →
      (runOps (ops ++ more)).procs[j]? = (runOps ops).procs[j]?) ∧
    (runOps ops).partials = (runChains ops).partials.map stftDefaults ∧
    (runOps ops).procs = (runChains ops).procs.map stftDefaults := by
  obtain ⟨⟨t, ht⟩, ⟨u, hu⟩⟩ := runOps_append_prefix ops more
  refine ⟨?_, ?_, (runOps_eq_chains ops).1, (runOps_eq_chains ops).2⟩
  · intro i hi
    rw [ht, List.getElem?_append_left hi]
  · intro j hj
    rw [hu, List.getElem?_append_left hj]

/-- what one more event does to the paths: a new partial starts a path, a derivation extends the
path of ITS parent by its own keywords, a processor likewise; no other path changes. -/
theorem stft_partial_paths (ops : List POp) (i : Nat) (kw : Dict) :
    (runChains (ops ++ [.new kw])).partials = (runChains ops).partials ++ [[kw]] ∧
    (runChains (ops ++ [.derive i kw])).partials =
      (runChains ops).partials ++ [(runChains ops).partials.getD i [] ++ [kw]] ∧
    (runChains (ops ++ [.build i kw])).procs =
      (runChains ops).procs ++ [(runChains ops).partials.getD i [] ++ [kw]] ∧
    (runChains (ops ++ [.build i kw])).partials = (runChains ops).partials ∧
    (runChains (ops ++ [.direct kw])).procs = (runChains ops).procs ++ [[kw]] := by
  simp only [runChains_snoc, cstep, and_self]

end r4_hist

/-- non-vacuity, and what the theorem excludes: in the history `p = stft(size=4); a = p(f, hop=1);
b = p(f)` processor `b` has no `hop`; a machine that updates the partial in place gives it `hop=1`. -/
example : (runOps [.new [("size", .int 4)], .build 0 [("hop", .int 1)], .build 0 []]).procs
    = [[("size", .int 4), ("hop", .int 1)], [("size", .int 4)]] := by decide
example : (runOpsMut [.new [("size", .int 4)], .build 0 [("hop", .int 1)], .build 0 []]).procs
    = [[("size", .int 4), ("hop", .int 1)], [("size", .int 4), ("hop", .int 1)]] := by decide
example : (runChains [.new [("size", .int 4)], .derive 0 [("hop", .int 2)], .build 0 [], .build 1 [("wnd", .none)]]).procs
    = [[[("size", .int 4)], []], [[("size", .int 4)], [("hop", .int 2)], [("wnd", .none)]]] := by decide

section r4_opaque
variable {K : Type} [Field K] [LT K] [DecidableLT K] [DecidableEq K]

/-- **C09.7f** window items that are not numbers (a list of parameter tuples, of strings …):
`list(wnd)` succeeds, so nothing is raised before the first ARITHMETIC on an item.
With normalisation that is `abs(item)`: TypeError at the first `next`.  Without normalisation the
length check comes first (ValueError "Incompatible window size" for `n ≠ size`); then the first
block that has an item raises the TypeError before any sample when `hop < size` (the first addition
to the memory; for `hop = size` nothing is ever added and the outcome depends on the Python type of
the samples — outside the model) — and with ZERO blocks nothing is ever computed: the `size - hop` zeros of the length clause, no exception.  (Round 3 had modelled
"TypeError at once" here; the zero-block case showed the real code does not.) -/
theorem ola_opaque_window (size hop : Nat) (h0 : 0 < hop) (Bs : List (List K))
    (size? hop? : Option Nat) (hsz : detectSize size? Bs = some size) (hhop : hop?.getD size = hop)
    (o : WObj K) (n : Nat) (hc : callStep size o = .iterable (.opaque (n + 1))) :
    overlapAddListObj Bs size? hop? (.obj o) true = ⟨[], some .windowItems⟩ ∧
    (n + 1 ≠ size → overlapAddListObj Bs size? hop? (.obj o) false = ⟨[], some .windowSize⟩) ∧
    (n + 1 = size → Bs = [] →
      (overlapAddListObj Bs size? hop? (.obj o) false).out = List.replicate (size - hop) 0 ∧
      (overlapAddListObj Bs size? hop? (.obj o) false).err = none) ∧
    (n + 1 = size → hop < size → ∀ b rest, Bs = b :: rest → b ≠ [] →
      overlapAddListObj Bs size? hop? (.obj o) false = ⟨[], some .windowItems⟩) := by
  have hop0 : hop ≠ 0 := by omega
  have hoi : opaqueItems size (.obj o : PyWnd K) = some (n + 1) := by simp [opaqueItems, hc]
  refine ⟨?_, ?_, ?_, ?_⟩
  · simp [overlapAddListObj, hsz, hhop, hoi, olaOpaque, hop0]
  · intro hne
    simp [overlapAddListObj, hsz, hhop, hoi, olaOpaque, hne]
  · intro he hB
    subst hB
    simp only [overlapAddListObj, hsz, hhop, hoi, olaOpaque, he, Bool.false_eq_true, if_false,
      ne_eq, not_true_eq_false, and_true]
    rw [pyDrop_nat]
    simp [List.drop_replicate]
  · intro he _ b rest hB hb
    subst hB
    have : b.isEmpty = false := by cases b <;> simp_all
    simp [overlapAddListObj, hsz, hhop, hoi, olaOpaque, he, this]

end r4_opaque

/-- non-vacuity: a tuple of parameter tuples as `wnd` -/
example : (overlapAddListObj ([] : List (List ℚ)) (some 3) (some 1)
    (.obj (WKind.pyTuple.mk (fun _ => .other) (.opaque 3))) false).out = [0, 0] := by decide +kernel
example : (overlapAddListObj ([[1, 2, 3]] : List (List ℚ)) (some 3) (some 1)
    (.obj (WKind.pyTuple.mk (fun _ => .other) (.opaque 3))) false).err = some .windowItems := by decide +kernel

section r4_tables
variable {K : Type}

/-- the exception classes and the tags by which the tie tells the errors of `overlap_add.list`
apart (a finite table): the two ValueErrors with a message of the code, `max()` of nothing; the two
TypeErrors; distinct errors have distinct tags. -/
theorem err_table (e e' : Err) :
    (e.tag = e'.tag → e = e') ∧
    (e.kind = "ValueError" ↔ e = .windowSize ∨ e = .blockSize ∨ e = .maxEmpty) ∧
    (e.kind = "TypeError" ↔ e = .windowType ∨ e = .windowItems) ∧
    (e.kind = "ImportError" ↔ e = .numpyMissing) := by
  cases e <;> cases e' <;> decide

/-- the tags by which the tie tells the wrapper's rejections apart determine the rejection,
the offending keyword included -/
theorem plan_err_tags (e e' : PlanErr) : e.tag = e'.tag → e = e' := PlanErr.tag_inj e e'

/-- the kind names the tie uses name the kinds (the driver's `ofName` finds the kind back) -/
theorem wkind_names (k : WKind) : WKind.ofName k.name = some k := by
  cases k <;> decide

/-- `overlap_add(…)` / `overlap_add.numpy(…)` in an interpreter without numpy: `import numpy` is the
first statement of the generator — an ImportError at the first `next`, no sample.  (A fact about
the sandbox, kept as a theorem so that the tie's expectation is a stated one.) -/
theorem ola_numpy_absent :
    (overlapAddNumpyAbsent : Out K).out = [] ∧
    (overlapAddNumpyAbsent : Out K).err = some .numpyMissing ∧
    Err.kind .numpyMissing = "ImportError" := ⟨rfl, rfl, rfl⟩

/-- a keyword VALUE used as a window (`wnd=` / `ola_wnd=` of the wrapper): `None` is "no window";
an integer is an object that is neither callable nor iterable — TypeError in both resolutions; a
named object is itself. -/
theorem pv_window (env : String → Option (WObj K)) (size : Nat) (i : Int) (t : String) :
    pvWnd env .none = some .none ∧
    (∃ p, pvWnd env (.int i) = some p ∧ resolveOlaObj size p = .error .windowType ∧
      resolveStftObj size p = .error .windowType) ∧
    pvWnd env (.obj t) = (env t).map .obj :=
  ⟨rfl, ⟨_, rfl, rfl, rfl⟩, rfl⟩

end r4_tables

/-! ## The model is what the source says (round 5)

`ALV/Gen/C09Src.lean` is rewritten on every check by `harness/props/c09_tr.py` from the text of
`audiolazy/lazy_analysis.py` (read with `ast`): `overlap_add.list` statement by statement, the keyword
logic of the stft `wrapper`, the window paragraph of `blk_gen`.  Each regenerated definition IS the
hand-written model function, for every carrier — so every theorem above about `olaLoop`, `normWnd`,
`stftPlan`, … is a theorem about the definitions regenerated from the source of the repo under test,
and an edit of the source that changes the meaning of a translated paragraph breaks the theorem named
after it. -/
section src
set_option linter.unusedSectionVars false
open ALV.C09.Src
variable {α : Type}

/-- the signature `(blk_sig, size=None, hop=None, wnd=None, normalize=True)` as read from the source
binds `ola_params` as the model's `bindOla` does (names, order, defaults) -/
theorem src_bindOla_is_model :
    ALV.Gen.C09.bindOla = bindOla ∧ ALV.Gen.C09.olaSig.map (·.1) = olaSigNames := ⟨bindOla_eq, rfl⟩

/-- `if size is None: … size = len(blk_sig.peek()) … except StopIteration: return` -/
theorem src_detectSize_is_model : @ALV.Gen.C09.detectSize α = detectSize := detectSize_eq

/-- `if callable(wnd) and not isinstance(wnd, Stream): wnd = wnd(size)` (both places) -/
theorem src_callStep_is_model : @ALV.Gen.C09.callStep α = callStep := callStep_eq

/-- the window paragraph of `overlap_add.list` on the three kinds of objects -/
theorem src_resolveOlaObj_is_model : @ALV.Gen.C09.resolveOlaObj α = resolveOlaObj := resolveOlaObj_eq

/-- the window paragraph of `blk_gen` -/
theorem src_resolveStftObj_is_model : @ALV.Gen.C09.resolveStftObj α = resolveStftObj :=
  resolveStftObj_eq

section gain
variable [Add α] [Neg α] [Div α] [OfNat α 0] [OfNat α 1] [NatCast α] [LT α] [DecidableLT α] [DecidableEq α]

/-- `steps = Stream(wnd).map(abs).blocks(hop).map(tuple); gain = max(xmap(sum, xzip(*steps)))` -/
theorem src_hopGain_is_model : (ALV.Gen.C09.hopGain : Nat → List α → Option α) = hopGain := Src.hopGain_eq

/-- the `if normalize:` paragraph -/
theorem src_normWnd_is_model :
    (ALV.Gen.C09.normWnd : Nat → Nat → Bool → Option (List α) → Except Err (Option (List α))) = normWnd :=
  normWnd_eq
end gain

section loop
variable [Add α] [Mul α] [OfNat α 0]

/-- the two slice assignments of one iteration (`mem[:s_h] = xmap(add, mem[hop:], blk)`,
`mem[s_h:] = blk` on a block ITERATOR) -/
theorem src_olaStep_is_model :
    (ALV.Gen.C09.olaStep : Nat → Nat → List α → List α → List α) = olaStep := olaStep_eq

/-- the `for` loop with its size check and yields, and the flush after it -/
theorem src_olaLoop_is_model :
    (ALV.Gen.C09.olaLoop : Nat → Nat → List α → List (List α) → Out α) = olaLoop := Src.olaLoop_eq

/-- `if wnd:` (length check, `wnd + [0.]`, windowed blocks), `mem = [0.] * size`, the loop -/
theorem src_olaCore_is_model :
    (ALV.Gen.C09.olaCore : Nat → Nat → Option (List α) → List (List α) → Out α) = olaCore := olaCore_eq
end loop

section top
variable [Add α] [Mul α] [Neg α] [Div α] [OfNat α 0] [OfNat α 1] [NatCast α] [LT α] [DecidableLT α] [DecidableEq α]

/-- the paragraphs of `overlap_add.list` in source order -/
theorem src_overlapAddListObj_is_model :
    (ALV.Gen.C09.overlapAddListObj : List (List α) → Option Nat → Option Nat → PyWnd α → Bool → Out α) =
      overlapAddListObj := overlapAddListObj_eq
end top

/-- `k.startswith("ola_")` / `k[len("ola_"):]` -/
theorem src_stripOla_is_model : ALV.Gen.C09.stripOla = stripOla := stripOla_eq

/-- `for k, v in kws.items(): …` of the wrapper -/
theorem src_routeRest_is_model : ALV.Gen.C09.routeRest = routeRest := routeRest_eq

/-- the keyword logic of the wrapper: merge, the two checks, the pops with their defaults in source
order, `ola_params = blk_params.copy()` at its place, the routing loop -/
theorem src_stftPlan_is_model : ALV.Gen.C09.stftPlan = stftPlan := stftPlan_eq

/-- not vacuous: the regenerated loop computes (two blocks of size 2, hop 1, over ℤ) -/
example : (ALV.Gen.C09.olaLoop 2 1 [0, 0] [[1, 2], [3, 4]] : Out Int).out = [1, 5, 4] := by decide

end src

end ALV.Props.C09

#write_audit "C09"
