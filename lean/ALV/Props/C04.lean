/-
  C04 — property theorems: a constant-coefficient filter computes its difference equation.
  Only statements of the property, non-vacuity examples and the audit live here; helper lemmas
  are in `ALV.Lemmas.C04*`.
-/
import ALV.Lemmas.C04Index
import ALV.Lemmas.C04PS
import ALV.Lemmas.C04Sparse
import ALV.Lemmas.C04Pipeline
import ALV.Lemmas.C04Hist
import ALV.Lemmas.C04Cx
import ALV.Lemmas.C04Ext
import ALV.Lemmas.C04Src
import ALV.Common.Audit

set_option linter.unusedSectionVars false
set_option linter.unusedSimpArgs false
namespace ALV.Props.C04
open ALV.C04
variable {K : Type} [Field K] [DecidableEq K]

/-! ### C04.1 the generated loop computes the difference equation -/

/-- **C04.1** (`filter_eq_spec`): for every field, every numerator `b`, every denominator
`a0 :: as` (any lengths, zeros and ±1 anywhere, any `a0` — the division is by `a0` as written),
every memory of the needed length and every input, the generated generator
(`evalIR (compile …)`: special-cased summands, gain written in one of three ways, sequential
state shifts) yields the solution of the difference equation over unbounded histories — unless
the filter is all-zero, which is clause C04.3. -/
theorem filter_eq_spec (b as : List K) (a0 zero : K) (mem xs : List K)
    (hmem : mem.length = as.length)
    (hnz : ¬ ((∀ c ∈ b, c = 0) ∧ (∀ c ∈ as, c = 0))) :
    evalIR (compile b (a0 :: as) zero) mem zero xs = fspec b as a0 zero mem [] xs := by
  have hne : ¬ (numAtoms 0 b ++ denAtoms 1 as = []) := by rwa [dataSum_eq_nil]
  have hemp : (numAtoms 0 b ++ denAtoms 1 as).isEmpty = false := by
    cases h : numAtoms 0 b ++ denAtoms 1 as with
    | nil => exact absurd h hne
    | cons _ _ => rfl
  have h1 := runLoop_eq_frun b as a0 _ (applyGain_compile a0) xs 0 0 mem
    (List.replicate (b.length - 1) zero) hmem (by simp)
  have h2 := frun_eq_fspec b as a0 zero xs mem [] (by omega)
  rw [takeP_nil, ← hmem, List.take_length] at h2
  have hc : compile b (a0 :: as) zero = IR.loop as.length (b.length - 1)
      (numAtoms 0 b ++ denAtoms 1 as)
      (if a0 = -1 then Gain.negOne else if a0 ≠ 1 then Gain.div a0 else Gain.one)
      (mShifts as.length ++ dShifts (b.length - 1)) := by
    simp only [compile, List.tail_cons, hemp]
    rfl
  rw [hc]
  simp only [evalIR]
  rw [h1, h2]

/-- **C04.3** (`allzero`): numerator zero and no feedback ⇒ the *zero value* once per input,
whatever the zero value, the memory and the input are. -/
theorem allzero (b as : List K) (a0 zero : K) (mem xs : List K)
    (hb : ∀ c ∈ b, c = 0) (ha : ∀ c ∈ as, c = 0) :
    evalIR (compile b (a0 :: as) zero) mem zero xs = List.replicate xs.length zero := by
  have hnil : numAtoms 0 b ++ denAtoms 1 as = [] := (dataSum_eq_nil b as).2 ⟨hb, ha⟩
  simp only [compile, List.tail_cons, hnil, List.isEmpty_nil, if_true, evalIR]
  induction xs with
  | nil => rfl
  | cons x xs ih => simp [List.replicate_succ, ih]

/-- **C04.1 + C04.3** with the usual zero value `0`: the difference equation without exception. -/
theorem filter_eq_spec_zero (b as : List K) (a0 : K) (mem xs : List K)
    (hmem : mem.length = as.length) :
    evalIR (compile b (a0 :: as) 0) mem 0 xs = fspec b as a0 0 mem [] xs := by
  by_cases h : (∀ c ∈ b, c = 0) ∧ (∀ c ∈ as, c = 0)
  · rw [allzero b as a0 0 mem xs h.1 h.2, fspec_all_zero b as a0 h.1 h.2]
  · exact filter_eq_spec b as a0 0 mem xs hmem h

/-- **C04.2** exactly one output per input (every branch of `compile`). -/
theorem one_output_per_input (b as : List K) (a0 zero : K) (mem xs : List K)
    (hmem : mem.length = as.length) :
    (evalIR (compile b (a0 :: as) zero) mem zero xs).length = xs.length := by
  by_cases h : (∀ c ∈ b, c = 0) ∧ (∀ c ∈ as, c = 0)
  · rw [allzero b as a0 zero mem xs h.1 h.2]; simp
  · rw [filter_eq_spec b as a0 zero mem xs hmem h, fspec_length]

/-- **C04.3'** a zero numerator with feedback, zero value 0 and no memory given: silence. -/
theorem allzero_feedback (b as : List K) (a0 : K) (xs : List K) (hb : ∀ c ∈ b, c = 0) :
    evalIR (compile b (a0 :: as) 0) (memoryOf 0 as.length Mem.none) 0 xs
      = List.replicate xs.length 0 := by
  rw [filter_eq_spec_zero b as a0 _ xs (by simp [memoryOf])]
  simp only [memoryOf]
  suffices h : ∀ (n : Nat) (hx : List K),
      fspec b as a0 0 (List.replicate n 0) hx xs = List.replicate xs.length 0 from h _ _
  induction xs with
  | nil => intro n hx; simp [fspec]
  | cons x xs ih =>
    intro n hx
    have hd : ∀ (cs : List K) (n : Nat), dot cs (List.replicate n (0 : K)) = 0 := by
      intro cs
      induction cs with
      | nil => intro n; cases n <;> simp [dot]
      | cons c cs ihc => intro n; cases n <;> simp [dot, List.replicate_succ, ihc]
    simp only [fspec, dot_zero_coeffs _ _ hb, hd, sub_zero, zero_div, List.length_cons,
      List.replicate_succ]
    have := ih (n + 1) (x :: hx)
    rw [List.replicate_succ] at this
    rw [this]

/-! ### C04.1' the sentence of the property, literally -/

/-- **C04.1'** (`filter_satisfies_property`): the outputs of the generated loop satisfy the
sentence of the property — one output per input and, at every time `n`,
`a0·y[n] = Σ_k b[k]·x[n−k] − Σ_{k≥1} a[k]·y[n−k]` with `x[−j] = zero`, `y[−k] = mem[k−1]`. -/
theorem filter_satisfies_property (b as : List K) (a0 zero : K) (mem xs : List K)
    (ha0 : a0 ≠ 0) (hmem : mem.length = as.length)
    (hnz : ¬ ((∀ c ∈ b, c = 0) ∧ (∀ c ∈ as, c = 0))) :
    DiffEq b a0 as zero mem xs (evalIR (compile b (a0 :: as) zero) mem zero xs) := by
  rw [filter_eq_spec b as a0 zero mem xs hmem hnz]
  exact fspec_diffeq b as a0 zero mem xs ha0 (by omega)

/-- … and they are the only list that does: the property determines the output completely. -/
theorem filter_unique_solution (b as : List K) (a0 zero : K) (mem xs ys : List K)
    (ha0 : a0 ≠ 0) (hmem : mem.length = as.length)
    (hnz : ¬ ((∀ c ∈ b, c = 0) ∧ (∀ c ∈ as, c = 0)))
    (hys : DiffEq b a0 as zero mem xs ys) :
    ys = evalIR (compile b (a0 :: as) zero) mem zero xs :=
  diffeq_unique b as a0 zero mem xs _ _ ha0 hys
    (filter_satisfies_property b as a0 zero mem xs ha0 hmem hnz)

/-- with zero value 0 the all-zero filter needs no exception -/
theorem filter_satisfies_property_zero (b as : List K) (a0 : K) (mem xs : List K)
    (ha0 : a0 ≠ 0) (hmem : mem.length = as.length) :
    DiffEq b a0 as 0 mem xs (evalIR (compile b (a0 :: as) 0) mem 0 xs) := by
  rw [filter_eq_spec_zero b as a0 mem xs hmem]
  exact fspec_diffeq b as a0 0 mem xs ha0 (by omega)

/-! ### C04.4 non-causal filters refuse to run -/

/-- **C04.4** (`noncausal`): any negative power in numerator or denominator ⇒ `ValueError`,
before anything else is looked at. -/
theorem noncausal (num den : Terms K) (mem : Mem K) (zero : K) (xs : List K)
    (h : ∃ kv ∈ num ++ den, kv.1 < 0) :
    call num den mem zero xs = .error .valueError := by
  have : checkCausal num den = false := by
    simp only [checkCausal, Bool.not_eq_false', List.any_eq_true]
    obtain ⟨kv, hm, hlt⟩ := h
    exact ⟨kv, hm, by simpa using hlt⟩
  simp [call, this]

/-- and a causal filter with `a0 ≠ 0` does run -/
theorem causal_runs (num den : Terms K) (mem : Mem K) (zero : K) (xs : List K)
    (h : ∀ kv ∈ num ++ den, 0 ≤ kv.1) (h0 : coefAt den 0 ≠ 0) :
    ∃ ys, call num den mem zero xs = .ok ys := by
  have : checkCausal num den = true := by
    simp only [checkCausal, Bool.not_eq_true', List.any_eq_false]
    intro kv hm
    have := h kv hm
    simp; omega
  simp [call, this, h0]

/-! ### C04.5 memories -/

/-- no memory given ⇒ the zero value `lm` times -/
theorem memory_none (zero : K) (lm : Nat) : memoryOf zero lm Mem.none = List.replicate lm zero := rfl

/-- a memory of sufficient length: its first `lm` items, in order (`y[-k]` = k-th item) -/
theorem memory_sufficient (zero : K) (lm : Nat) (l : List K) (h : lm ≤ l.length) :
    memoryOf zero lm (Mem.iter l) = l.take lm := by
  simp [memoryOf, memFromIter, List.length_take, Nat.min_eq_left h]

/-- a short memory is LEFT padded with the zero value (as coded) -/
theorem memory_short (zero : K) (lm : Nat) (l : List K) (h : l.length ≤ lm) :
    memoryOf zero lm (Mem.iter l) = List.replicate (lm - l.length) zero ++ l := by
  simp [memoryOf, memFromIter, List.take_of_length_le h]

/-- `callable_memory`: a callable memory is asked for the needed size and then treated as the
iterable it returns -/
theorem callable_memory (zero : K) (lm : Nat) (f : Nat → List K) :
    memoryOf zero lm (Mem.callable f) = memoryOf zero lm (Mem.iter (f lm)) := rfl

/-- `generator_memory`: of an endless iterable exactly the first `lm` items matter — it is the
list case for any prefix of length ≥ lm -/
theorem generator_memory (zero : K) (lm n : Nat) (g : Nat → K) (h : lm ≤ n) :
    memoryOf zero lm (Mem.gen g) = memoryOf zero lm (Mem.iter ((List.range n).map g)) := by
  simp only [memoryOf, memFromIter]
  have : ((List.range n).map g).take lm = (List.range lm).map g := by
    rw [← List.map_take, List.take_range, Nat.min_eq_left h]
  rw [this, List.take_of_length_le (by simp)]

/-- every memory is turned into exactly `lm` items (so `m1 , … , = memory` unpacks) -/
theorem memory_length (zero : K) (lm : Nat) (m : Mem K) : (memoryOf zero lm m).length = lm := by
  cases m <;> simp [memoryOf, memFromIter, List.length_take]

/-! ### C04.6 the whole call -/

/-- **C04.6** (`call_eq_spec`): a causal filter object with `a0 ≠ 0` that is not all-zero, called
with any kind of memory: checks pass, the memory is normalised to `lm` items, the source is
generated and run — the result is the difference equation on the dense coefficient lists. -/
theorem call_eq_spec (num den : Terms K) (mem : Mem K) (zero : K) (xs : List K)
    (hc : ∀ kv ∈ num ++ den, 0 ≤ kv.1) (h0 : coefAt den 0 ≠ 0)
    (hnz : ¬ ((∀ c ∈ dense num, c = 0) ∧ (∀ c ∈ (dense den).tail, c = 0))) :
    call num den mem zero xs
      = .ok (fspec (dense num) (dense den).tail (coefAt den 0) zero
              (memoryOf zero (dense den).tail.length mem) [] xs) := by
  have hcausal : checkCausal num den = true := by
    simp only [checkCausal, Bool.not_eq_true', List.any_eq_false]
    intro kv hm
    have := hc kv hm
    simp; omega
  have hd := dense_cons den h0
  have hl : (dense den).length - 1 = (dense den).tail.length := by simp
  simp only [call, hcausal, Bool.not_true, Bool.false_eq_true, if_false, h0, hl]
  rw [hd]
  simp only [List.tail_cons]
  rw [filter_eq_spec _ _ _ _ _ _ (memory_length _ _ _) hnz]

/-! ### C04.7 power-series identity (bridge to C05) -/

/-- **C04.7** (`ps_identity`): zero memory, zero value 0 — the outputs satisfy
`A(X)·Y(X) = B(X)·X(X)` in every coefficient below the input length (`A = Σ a_k X^k`, …). -/
theorem ps_identity (b as : List K) (a0 : K) (ha0 : a0 ≠ 0) (xs : List K) (n : Nat)
    (hn : n < xs.length) :
    PowerSeries.coeff n (seriesOf (a0 :: as) *
        seriesOf (evalIR (compile b (a0 :: as) 0) (memoryOf 0 as.length Mem.none) 0 xs))
      = PowerSeries.coeff n (seriesOf b * seriesOf xs) := by
  have h := filter_satisfies_property_zero b as a0 (memoryOf 0 as.length Mem.none) xs ha0
    (by simp [memoryOf])
  exact diffeq_ps b as a0 xs _ h n hn

/-- **C04.7'** (`ps_identity_stream`): for an endless input `x`, with `y n` = the `n`-th output
of the generated loop (run on the first `n+1` items — outputs never depend on later input), the
identity `A·Y = B·X` holds in `K⟦X⟧`; since `a0 ≠ 0` makes `A` a unit, `Y = B/A · X`. -/
theorem ps_identity_stream (b as : List K) (a0 : K) (ha0 : a0 ≠ 0) (x : Nat → K) :
    seriesOf (a0 :: as) * PowerSeries.mk (fun n =>
        (evalIR (compile b (a0 :: as) 0) (memoryOf 0 as.length Mem.none) 0
          ((List.range (n + 1)).map x)).getD n 0)
      = seriesOf b * PowerSeries.mk x := by
  have h : (fun n => (evalIR (compile b (a0 :: as) 0) (memoryOf 0 as.length Mem.none) 0
      ((List.range (n + 1)).map x)).getD n 0) = response b as a0 x := by
    funext n
    rw [filter_eq_spec_zero b as a0 _ _ (by simp [memoryOf])]
    rfl
  rw [h]
  exact response_ps b as a0 ha0 x

/-- outputs on a prefix of the input are a prefix of the outputs: the filter is causal and
lazy-compatible (one output per input, never looking ahead) -/
theorem prefix_causal (b as : List K) (a0 : K) (mem xs zs : List K) (hmem : mem.length = as.length) :
    (evalIR (compile b (a0 :: as) 0) mem 0 (xs ++ zs)).take xs.length
      = evalIR (compile b (a0 :: as) 0) mem 0 xs := by
  rw [filter_eq_spec_zero b as a0 mem _ hmem, filter_eq_spec_zero b as a0 mem _ hmem, fspec_take]

/-! ### C04.8 normalisation in `__init__` -/

/-- **C04.8** (`normalise_spec`): the constructor rewrites `num/den` by the common factor
`z^p` (`p` = lowest denominator delay): every coefficient keeps its value and moves from delay
`k + p` to delay `k`, and the denominator then starts at delay 0. -/
theorem normalise_spec (num den : Terms K) (p : Int) (h : minKey den = some p) :
    ∃ num' den', normalise num den = .ok (num', den') ∧ minKey den' = some 0 ∧
      (∀ k, coefAt num' k = coefAt num (k + p)) ∧ (∀ k, coefAt den' k = coefAt den (k + p)) := by
  refine ⟨shiftKeys p num, shiftKeys p den, normalise_ok num den p h, ?_, ?_, ?_⟩
  · rw [minKey_shiftKeys, h]; simp
  · intro k; exact coefAt_shiftKeys p num k
  · intro k; exact coefAt_shiftKeys p den k

/-- a denominator without any non-zero term cannot be normalised (Python: `min()` of an empty
sequence ⇒ ValueError, at construction) -/
theorem empty_denominator (num : Terms K) : normalise num ([] : Terms K) = .error .valueError := rfl

/-- a numerator term left at a negative delay after normalisation ⇒ the call refuses (C04.4
seen from the constructor arguments) -/
theorem noncausal_after_normalise (num den : Terms K) (p : Int) (h : minKey den = some p)
    (kv : Int × K) (hkv : kv ∈ num) (hlt : kv.1 < p) (mem : Mem K) (zero : K) (xs : List K) :
    (do let (n, d) ← normalise num den; call n d mem zero xs) = .error .valueError := by
  rw [normalise_ok num den p h]
  apply noncausal
  refine ⟨(kv.1 - p, kv.2), ?_, by simp; omega⟩
  simp only [List.mem_append, shiftKeys, List.mem_map]
  exact Or.inl ⟨kv, hkv, rfl⟩

/-! ### C04.9 the model's dense compilation is the code's sparse iteration -/

/-- **C04.9** (`compile_iterates_terms`): the code builds `data_sum` by iterating the sparse
dictionaries (`numdict`, then `dendict` whose delay-0 entry is the gain) in ascending power; the
model compiles the dense lists `values()` and skips zeros.  For every causal pair of polynomials
as `terms()` yields them (strictly ascending powers, no stored zero) the summands are the same,
in the same order. -/
theorem compile_iterates_terms (num : Terms K) (a0 : K) (r : Terms K)
    (hsn : List.Pairwise (fun x y => x.1 < y.1) num) (hrn : ∀ kv ∈ num, 0 ≤ kv.1 ∧ kv.2 ≠ 0)
    (hsd : List.Pairwise (fun x y => x.1 < y.1) (((0 : Int), a0) :: r)) (hrd : ∀ kv ∈ r, kv.2 ≠ 0) :
    numAtoms 0 (dense num) ++ denAtoms 1 (dense (((0 : Int), a0) :: r)).tail
      = (num.map (fun kv => numAtoms kv.1.toNat [kv.2])).flatten
        ++ (r.map (fun kv => denAtoms kv.1.toNat [kv.2])).flatten := by
  rw [numAtoms_dense num hsn hrn, denAtoms_dense a0 r hsd hrd]

/-- **C04.6'** (`call_given_memory`): with a list / generator memory of sufficient length the
result is the difference equation whose `y[-k]` is literally the k-th item of the *given*
memory (items beyond the filter order are never read). -/
theorem call_given_memory (num den : Terms K) (l : List K) (zero : K) (xs : List K)
    (hc : ∀ kv ∈ num ++ den, 0 ≤ kv.1) (h0 : coefAt den 0 ≠ 0)
    (hnz : ¬ ((∀ c ∈ dense num, c = 0) ∧ (∀ c ∈ (dense den).tail, c = 0)))
    (hl : (dense den).tail.length ≤ l.length) :
    call num den (Mem.iter l) zero xs
      = .ok (fspec (dense num) (dense den).tail (coefAt den 0) zero l [] xs) := by
  rw [call_eq_spec num den _ zero xs hc h0 hnz, memory_sufficient zero _ l hl]
  congr 1
  apply fspec_congr_hy
  simp [List.take_take]

/-! ### non-vacuity -/

/-- the `ZFilter` docstring: `ZFilter([1, 1], [1, -1])([1, 5, -4, -7, 9], memory=[3], zero=0)` -/
example : evalIR (compile [1, 1] [1, -1] (0 : Rat)) [3] 0 [1, 5, -4, -7, 9] = [4, 10, 11, 0, 2] := by decide +kernel
example : fspec [1, 1] [-1] (1 : Rat) 0 [3] [] [1, 5, -4, -7, 9] = [4, 10, 11, 0, 2] := by decide +kernel
/-- every branch of the string building at once: coefficients 1, -1, 0, other; gain other -/
example : evalIR (compile [1, -1, 0, 3] [2, 1, -1, 0, 5] (0 : Rat)) [1, 2, 3, 4] 0 [2, 4, 6]
    = fspec [1, -1, 0, 3] [1, -1, 0, 5] (2 : Rat) 0 [1, 2, 3, 4] [] [2, 4, 6] := by decide +kernel
example : evalIR (compile [0, 0] [3] (7 : Rat)) [] 7 [1, 2, 3] = [7, 7, 7] := by decide +kernel
example : call [((-1 : Int), (1 : Rat)), (0, 2)] [(0, 3), (1, 1)] Mem.none 0 [1, 2]
    = .error .valueError := by decide +kernel
example : numAtoms 0 (dense [((0 : Int), (1 : ℚ)), (3, 5)]) ++ denAtoms 1 (dense [((0 : Int), (2 : ℚ)), (2, -1)]).tail
    = [Atom.var (.d 0), Atom.mul 5 (.d 3), Atom.var (.m 2)] := by
  rw [compile_iterates_terms _ _ _ (by simp) (by simp) (by simp) (by simp)]
  simp [numAtoms, denAtoms]
  norm_num
/-- C04.4 / `causal_runs` / C04.8: hypotheses satisfiable -/
example : ∃ ys, call [((0 : Int), (1 : ℚ)), (2, 3)] [(0, 2), (1, 1)] Mem.none 0 [1, 2] = .ok ys :=
  causal_runs _ _ _ _ _ (by simp) (by simp [coefAt])
example : ∃ num' den', normalise [((1 : Int), (1 : ℚ)), (2, 3)] [(1, 2), (3, 1)] = .ok (num', den')
    ∧ minKey den' = some 0 ∧ (∀ k, coefAt num' k = coefAt [((1 : Int), (1 : ℚ)), (2, 3)] (k + 1))
    ∧ (∀ k, coefAt den' k = coefAt [((1 : Int), (2 : ℚ)), (3, 1)] (k + 1)) :=
  normalise_spec _ _ 1 (by decide +kernel)
/-- memories: list of sufficient length, short list (left padded), callable, endless generator -/
example : memoryOf (0 : Rat) 2 (Mem.iter [5, 6, 7]) = [5, 6] := by decide +kernel
example : memoryOf (9 : Rat) 3 (Mem.iter [5, 6]) = [9, 5, 6] := by decide +kernel
example : memoryOf (0 : Rat) 2 (Mem.callable fun n => List.replicate n 4) = [4, 4] := by decide +kernel
example : memoryOf (0 : ℚ) 2 (Mem.gen fun i => (i : ℚ) + 1)
    = memoryOf 0 2 (Mem.iter ((List.range 5).map fun i => (i : ℚ) + 1)) :=
  generator_memory 0 2 5 _ (by omega)
/-- C04.6' with a memory longer than the order: hypotheses satisfiable -/
example := call_given_memory [((0 : Int), (1 : Rat)), (1, 1)] [(0, 1), (1, -1)] [3, 99] 0 [1, 5]
  (by decide +kernel) (by decide +kernel) (by decide +kernel) (by decide +kernel)
/-- C04.7: the power-series identity on a concrete recursive filter -/
example : PowerSeries.coeff 2 (seriesOf [(2 : ℚ), 1] *
      seriesOf (evalIR (compile [1, 3] [2, 1] 0) (memoryOf 0 1 Mem.none) 0 [1, 5, -4]))
    = PowerSeries.coeff 2 (seriesOf [1, 3] * seriesOf [1, 5, -4]) :=
  ps_identity [1, 3] [1] 2 (by norm_num) [1, 5, -4] 2 (by simp)
/-- C04.10 on a dictionary with a duplicate power, a stored zero and a common delay 2:
the `ZFilter` docstring filter again -/
example : filterCall [((3 : Int), (1 : Rat)), (2, 5), (2, 1), (4, 0)] [(2, 1), (3, -1)] (Mem.iter [3]) 0
    [1, 5, -4, -7, 9] = .ok [4, 10, 11, 0, 2] := by decide +kernel
example : specCall [((3 : Int), (1 : Rat)), (2, 5), (2, 1), (4, 0)] [(2, 1), (3, -1)] (Mem.iter [3]) 0
    [1, 5, -4, -7, 9] = .ok [4, 10, 11, 0, 2] := by decide +kernel
example : filterCall [((0 : Int), (1 : Rat))] [(0, 0), (1, 0)] Mem.none 0 [1] = .error .valueError := by
  decide +kernel
/-- the hypotheses of C04.1 / C04.1' / C04.6 are satisfiable on a non-trivial filter -/
example : DiffEq [1, -1, 0, 3] (2 : ℚ) [1, -1, 0, 5] 0 [1, 2, 3, 4] [2, 4, 6]
    (evalIR (compile [1, -1, 0, 3] [2, 1, -1, 0, 5] (0 : ℚ)) [1, 2, 3, 4] 0 [2, 4, 6]) :=
  filter_satisfies_property _ _ _ _ _ _ (by norm_num) rfl (by simp)
example : call [((0 : Int), (1 : ℚ)), (1, 1)] [(0, 1), (1, -1)] (Mem.iter [3]) 0 [1, 5, -4, -7, 9]
    = .ok [4, 10, 11, 0, 2] := by decide +kernel

/-! ### C04.10 end to end: constructor arguments to outputs -/

/-- **C04.10** (`filterCall_eq_specCall`): for every pair of raw constructor arguments
(lists sent as `enumerate`, dictionaries with any integer powers in any order, duplicates, stored
zeros), every memory (none, finite, endless, callable — too short ones included, both sides
LEFT-pad them), every zero value and every input, the code-shaped pipeline — sorted dictionary
inserts, zero compaction, normalisation by `min` power, causality and gain checks, `values()`,
memory normalisation, generated source, its execution — returns exactly what the contract
`specCall` says: `ValueError` for an empty denominator or a negative delay, the zero value per
input for the all-zero filter, the solution of the difference equation otherwise. -/
theorem filterCall_eq_specCall (numPairs denPairs : List (Int × K)) (mem : Mem K) (zero : K)
    (xs : List K) :
    filterCall numPairs denPairs mem zero xs = specCall numPairs denPairs mem zero xs := by
  unfold filterCall specCall
  rw [← minKey_mkPoly denPairs]
  cases hmin : minKey (mkPoly denPairs) with
  | none => simp [normalise, hmin]; rfl
  | some p =>
    rw [normalise_ok _ _ p hmin]
    show call (shiftKeys p (mkPoly numPairs)) (shiftKeys p (mkPoly denPairs)) mem zero xs = _
    have hminl : listMin (keys (mkPoly denPairs)) = some p := by rw [← minKey_eq_listMin]; exact hmin
    obtain ⟨hpmem, hple⟩ : p ∈ keys (mkPoly denPairs) ∧ ∀ k ∈ keys (mkPoly denPairs), p ≤ k := by
      rcases listMin_spec (keys (mkPoly denPairs)) with ⟨h1, _⟩ | ⟨q, h1, h2, h3⟩
      · rw [h1] at hminl; simp at hminl
      · rw [h1] at hminl
        have : q = p := by simpa using hminl
        subst this; exact ⟨h2, h3⟩
    by_cases hany : (keysNZ numPairs).any (fun k => decide (k < p)) = true
    · -- a numerator term at a negative delay after normalisation
      simp only [hany, if_true]
      obtain ⟨k, hk, hlt⟩ := List.any_eq_true.1 hany
      have hk' : k ∈ keys (mkPoly numPairs) := (mem_keys_mkPoly numPairs k).2 hk
      obtain ⟨kv, hkv, hkk⟩ := List.mem_map.1 hk'
      apply noncausal
      refine ⟨(kv.1 - p, kv.2), ?_, ?_⟩
      · simp only [List.mem_append, shiftKeys, List.mem_map]
        exact Or.inl ⟨kv, hkv, rfl⟩
      · have : k < p := by simpa using hlt
        simp only; omega
    · simp only [hany, Bool.false_eq_true, if_false]
      have hcausal : ∀ kv ∈ shiftKeys p (mkPoly numPairs) ++ shiftKeys p (mkPoly denPairs), 0 ≤ kv.1 := by
        intro kv hkv
        simp only [List.mem_append, shiftKeys, List.mem_map] at hkv
        rcases hkv with ⟨kv', hm, rfl⟩ | ⟨kv', hm, rfl⟩
        · have hk : kv'.1 ∈ keysNZ numPairs :=
            (mem_keys_mkPoly numPairs kv'.1).1 (List.mem_map.2 ⟨kv', hm, rfl⟩)
          have : ¬ (kv'.1 < p) := by
            intro hlt
            exact hany (List.any_eq_true.2 ⟨kv'.1, hk, by simpa using hlt⟩)
          simp only; omega
        · have := hple kv'.1 (List.mem_map.2 ⟨kv', hm, rfl⟩)
          simp only; omega
      have ha0 : coefAt (shiftKeys p (mkPoly denPairs)) 0 = coefLast denPairs p := by
        rw [coefAt_shiftKeys, coefAt_mkPoly]; simp
      have ha0ne : coefAt (shiftKeys p (mkPoly denPairs)) 0 ≠ 0 := by
        rw [ha0]
        exact (mem_keysNZ_iff denPairs p).1 ((mem_keys_mkPoly denPairs p).1 hpmem)
      have hb : dense (shiftKeys p (mkPoly numPairs)) = coeffsFrom numPairs p := dense_shift_mkPoly _ _
      have ha : dense (shiftKeys p (mkPoly denPairs)) = coeffsFrom denPairs p := dense_shift_mkPoly _ _
      by_cases hz : (∀ c ∈ coeffsFrom numPairs p, c = 0) ∧ (∀ c ∈ (coeffsFrom denPairs p).tail, c = 0)
      · -- the all-zero filter
        have hz' : ((coeffsFrom numPairs p).all (fun c => c == 0) = true)
            ∧ ((coeffsFrom denPairs p).tail.all (fun c => c == 0) = true) :=
          ⟨(all_beq_zero _).2 hz.1, (all_beq_zero _).2 hz.2⟩
        simp only [hz', and_self, if_true]
        have hcheck : checkCausal (shiftKeys p (mkPoly numPairs)) (shiftKeys p (mkPoly denPairs)) = true := by
          simp only [checkCausal, Bool.not_eq_true', List.any_eq_false]
          intro kv hm
          have := hcausal kv hm
          simp; omega
        simp only [call, hcheck, Bool.not_true, Bool.false_eq_true, if_false, ha0ne]
        rw [dense_cons _ ha0ne, hb]
        rw [allzero _ _ _ _ _ _ hz.1 (by rw [ha]; exact hz.2)]
        congr 1
        exact (List.map_const' ..).symm
      · have hz' : ¬ (((coeffsFrom numPairs p).all (fun c => c == 0) = true)
            ∧ ((coeffsFrom denPairs p).tail.all (fun c => c == 0) = true)) := by
          intro h
          exact hz ⟨(all_beq_zero _).1 h.1, (all_beq_zero _).1 h.2⟩
        simp only [hz', if_false]
        rw [call_eq_spec _ _ mem zero xs hcausal ha0ne (by rw [hb, ha]; exact hz)]
        rw [ha0, hb, ha, fspec_specMem]

/-! ### C04.11 histories: lazily consumed results, shared and mutated arguments, several streams

`filt(x, memory=m, zero=z)` returns a lazy stream.  A history (`HOp`) is any sequence of: the caller
overwriting one of its lists / coefficient containers, building a filter from two containers,
calling a filter on an input list with a memory list, requesting `k` more outputs of a stream.
`histModel` runs it as coded (filter object = normalised `Poly` copies, stream = the suspended
generated generator with its local variables, fed through a list iterator); `histSpec` is the
property read per call: every request is answered by the difference equation (`specCall`) of the
constructor arguments as they were at construction, the memory CONTENTS at the call, and the input
items delivered so far. -/

/-- **C04.11** (`hist_model_eq_spec`): every step of every history, as coded = as the property
says.  In particular y[-k] is the k-th item the memory list had when the filter was CALLED (not
when the output is consumed), the coefficients are those the containers had when the filter was
BUILT, a second call of the same filter object starts from its own memory, and streams consumed
interleaved, in any chunking, do not influence one another. -/
theorem hist_model_eq_spec (ops : List (HOp K)) : histModel ops = histSpec ops :=
  histModel_eq_histSpec filterCall_eq_specCall ops

/-- **C04.11a** (`hist_consumption_piecewise`): a suspended generator consumed in two requests
yields what it yields in one, and is left in the same state — the chunking of the consumption is
unobservable (any generated loop, any local variables). -/
theorem hist_consumption_piecewise (g : Gen K) (xs zs : List K) :
    g.feed (xs ++ zs) = ((g.feed xs).1 ++ ((g.feed xs).2.feed zs).1, ((g.feed xs).2.feed zs).2) :=
  Gen.feed_append g xs zs

/-- **C04.11a'** (`hist_spec_piecewise`): the same on the side of the property — answering from
the snapshot and the delivered items (`specCall` on everything delivered, minus what was given) is
independent of how the requests are chunked. -/
theorem hist_spec_piecewise (s : SStrm K) (xs zs : List K) :
    (specImpl (α := K)).feed s (xs ++ zs)
      = (((specImpl (α := K)).feed s xs).1 ++ ((specImpl (α := K)).feed ((specImpl (α := K)).feed s xs).2 zs).1,
         ((specImpl (α := K)).feed ((specImpl (α := K)).feed s xs).2 zs).2) :=
  spec_feed_append filterCall_eq_specCall s xs zs

/-- **C04.11b** (`hist_call_is_create_then_feed`): the one-call model of C04.1–C04.10 is the
history model's call followed by one request for everything. -/
theorem hist_call_is_create_then_feed (n d : List (Int × K)) (mem : Mem K) (zero : K) (xs : List K) :
    filterCall n d mem zero xs = (filterGen n d mem zero).map (fun g => (g.feed xs).1) :=
  filterCall_eq_filterGen n d mem zero xs

/-- **C04.11c** (`hist_uses_are_pure`): constructor, call and consumption never modify a caller's
object: the lists and containers after a history are what the caller's own mutations leave. -/
theorem hist_uses_are_pure (ops : List (HOp K)) (st : HState K (Terms K × Terms K) (Gen K)) :
    (hfinal modelImpl st ops).nums = (hfinal modelImpl st (ops.filter HOp.isStore)).nums
    ∧ (hfinal modelImpl st ops).coefs = (hfinal modelImpl st (ops.filter HOp.isStore)).coefs :=
  hfinal_stores modelImpl ops st

/-- **C04.11d** (`hist_memory_is_snapshot`): between two requests the caller may overwrite any
of its lists other than the stream's own input list — the list it gave as `memory=` included — and
any coefficient container, any number of times: the next request is answered as if it had not. -/
theorem hist_memory_is_snapshot (st : HState K (Terms K × Terms K) (Gen K)) (s k : Nat)
    (stores : List (HOp K)) (hall : ∀ o ∈ stores, HOp.isStore o = true)
    (hsrc : ∀ c v, HOp.setNums c v ∈ stores → ∀ t, st.strms s = some t → t.src ≠ c) :
    (hstep modelImpl (hfinal modelImpl st stores) (.take s k)).1 = (hstep modelImpl st (.take s k)).1 :=
  take_after_stores modelImpl s k stores st hall hsrc

/-- **C04.11e** (`hist_filter_is_snapshot`): a filter object does not look at the containers it
was built from any more: calling it after they were overwritten behaves as before. -/
theorem hist_filter_is_snapshot (st : HState K (Terms K × Terms K) (Gen K)) (c : Nat)
    (v : List (Int × K)) (s f x : Nat) (mem : Option Nat) (zero : K) :
    (hstep modelImpl (hstep modelImpl st (.setCoefs c v)).2 (.call s f x mem zero)).1
      = (hstep modelImpl st (.call s f x mem zero)).1 :=
  call_after_setCoefs modelImpl st c v s f x mem zero

/-- **C04.11f** (`hist_streams_independent`): a request on one stream, and a further call of any
filter, leave every other live stream exactly as it was suspended, and every filter object as it
was. -/
theorem hist_streams_independent (st : HState K (Terms K × Terms K) (Gen K)) (s s' : Nat) (h : s' ≠ s) :
    (∀ k, (hstep modelImpl st (.take s k)).2.strms s' = st.strms s'
        ∧ (hstep modelImpl st (.take s k)).2.filts = st.filts)
    ∧ (∀ f x mem zero, (hstep modelImpl st (.call s f x mem zero)).2.strms s' = st.strms s'
        ∧ (hstep modelImpl st (.call s f x mem zero)).2.filts = st.filts) :=
  ⟨fun k => take_frame modelImpl st s k s' h, fun f x mem zero => call_frame modelImpl st s f x mem zero s' h⟩

/-- **C04.11g** (`cascade_model_eq_spec`): the same filter object applied to its own (lazy) output,
any number of times, each stage with its own memory: as coded = the difference equation applied
stage by stage. -/
theorem cascade_model_eq_spec (n d : List (Int × K)) (zero : K) (mems : List (Mem K)) (xs : List K) :
    cascadeWith (fun m ys => filterCall n d m zero ys) mems xs
      = cascadeWith (fun m ys => specCall n d m zero ys) mems xs := by
  have : (fun (m : Mem K) ys => filterCall n d m zero ys) = (fun m ys => specCall n d m zero ys) := by
    funext m ys
    exact filterCall_eq_specCall n d m zero ys
  rw [this]

/-! non-vacuity of C04.11: the docstring filter `ZFilter([1, 1], [1, -1])` in histories -/

/-- memory list overwritten between the call and the consumption: the stream starts from the
contents at the call (`[3]`), in two requests, and ends with its input -/
example : histModel (α := Rat)
    [.setCoefs 0 [(0, 1), (1, 1)], .setCoefs 1 [(0, 1), (1, -1)], .build 0 0 1,
     .setNums 0 [1, 5, -4, -7, 9], .setNums 1 [3],
     .call 0 0 0 (some 1) 0, .setNums 1 [100], .take 0 2, .setCoefs 1 [(0, 1), (1, 5)], .take 0 9]
    = [.stored, .stored, .ok, .stored, .stored, .ok, .stored, .outs [4, 10] false, .stored,
       .outs [11, 0, 2] true] := by decide +kernel
example : histSpec (α := Rat)
    [.setCoefs 0 [(0, 1), (1, 1)], .setCoefs 1 [(0, 1), (1, -1)], .build 0 0 1,
     .setNums 0 [1, 5, -4, -7, 9], .setNums 1 [3],
     .call 0 0 0 (some 1) 0, .setNums 1 [100], .take 0 2, .setCoefs 1 [(0, 1), (1, 5)], .take 0 9]
    = [.stored, .stored, .ok, .stored, .stored, .ok, .stored, .outs [4, 10] false, .stored,
       .outs [11, 0, 2] true] := by decide +kernel
/-- the same filter object called twice, the two streams consumed interleaved; the second call
has its own memory; the input list grows while the first stream is pending and is read lazily;
a non-causal filter refuses at the call, an unknown name is reported as such -/
example : histModel (α := Rat)
    [.setCoefs 0 [(0, 1), (1, 1)], .setCoefs 1 [(0, 1), (1, -1)], .build 0 0 1,
     .setNums 0 [1, 5], .setNums 1 [3], .call 0 0 0 (some 1) 0, .setNums 1 [-1], .call 1 0 0 (some 1) 0,
     .take 0 1, .take 1 1, .setNums 0 [1, 5, -4], .take 1 5, .take 0 5, .take 0 1,
     .setCoefs 2 [(-1, 1)], .build 1 2 1, .call 2 1 0 none 0, .take 2 1]
    = [.stored, .stored, .ok, .stored, .stored, .ok, .stored, .ok,
       .outs [4] false, .outs [0] false, .stored, .outs [6, 7] true, .outs [10, 11] true, .outs [] true,
       .stored, .ok, .err .valueError, .unbound] := by decide +kernel
/-- hypotheses of C04.11d are satisfiable: a live stream reading list 0, the caller overwrites
list 1 (its memory list) and a container -/
example := hist_memory_is_snapshot (K := ℚ)
  ⟨fun _ => [1, 5], fun _ => [], fun _ => none, fun _ => some ⟨Gen.const 7, 0, 0, false⟩⟩
  0 2 [.setNums 1 [100], .setCoefs 1 []] (by simp [HOp.isStore])
  (by intro c v hm t ht
      simp at hm
      simp only [Option.some.injEq] at ht
      subst ht
      simp [hm.1])

/-! ### C04.12 coefficient kinds and call shapes: the special cases of the string building are neutral -/

/-- **C04.12a** (`unit_test_sound_iff`): let the string building decide "this coefficient is unitary,
leave the multiplication out and keep only its sign" with ANY test `u` (the code: `c == 1 or c == -1`;
a refactoring: `abs(c) == 1`).  The summand it writes has the value of the product `c·d_k`
(numerator) resp. `−c·m_k` (feedback) in every environment IF AND ONLY IF `u c → c = 1 ∨ c = −1`.
So the test of the code is the weakest sound one, and a test by modulus is unsound in every field
with a unit-modulus element other than ±1 (ℚ(i): `1j`). -/
theorem unit_test_sound_iff (u : K → Bool) (c : K) :
    ((∀ (e : Env K) (k : Nat), evalSum e (numAtomsBy u k [c]) = c * e.get (.d k)) ∧
     (∀ (e : Env K) (k : Nat), evalSum e (denAtomsBy u k [c]) = -(c * e.get (.m k))))
    ↔ (u c = true → c = 1 ∨ c = -1) := by
  constructor
  · rintro ⟨hn, _⟩ hu
    by_cases h1 : c = 1
    · exact Or.inl h1
    · right
      have := hn ⟨[], [1]⟩ 0
      rw [evalSum_numAtomsBy_one] at this
      simp [hu, h1, Env.get] at this
      exact this.symm
  · intro h
    constructor <;> intro e k
    · rw [evalSum_numAtomsBy_one]
      by_cases hu : u c = true
      · rcases h hu with rfl | rfl
        · simp [hu]
        · simp only [hu, if_true]
          split_ifs with h1
          · rw [h1]; simp
          · simp
      · simp [hu]
    · rw [evalSum_denAtomsBy_one]
      by_cases hu : u c = true
      · rcases h hu with rfl | rfl
        · simp only [hu, if_true]
          split_ifs with h1
          · have h2 : (1 : K) * e.get (Var.m k) = (-1) * e.get (Var.m k) :=
              congrArg (· * e.get (Var.m k)) h1
            simpa using h2
          · simp
        · simp [hu]
      · simp [hu]

/-- **C04.12b** (`term_value`): for EVERY field element `c` — zero, one, minus one, a unit-modulus
non-real number, anything — the (special-cased) summand generated for a numerator coefficient has
the value `c·d_k` and the one for a feedback coefficient `−c·m_k`. -/
theorem term_value (c : K) (e : Env K) (k : Nat) :
    evalSum e (numAtoms k [c]) = c * e.get (.d k)
    ∧ evalSum e (denAtoms k [c]) = -(c * e.get (.m k)) := by
  have h := (unit_test_sound_iff (isPlusMinusOne (α := K)) c).2 (by
    intro hu
    simpa [isPlusMinusOne] using hu)
  rw [← numAtomsBy_code, ← denAtomsBy_code]
  exact ⟨h.1 e k, h.2 e k⟩

/-- **C04.12c** (`coefficient_is_multiplied`): a coefficient other than 1, −1, 0 is written as a
product, whatever its modulus. -/
theorem coefficient_is_multiplied (c : K) (h1 : c ≠ 1) (hm : c ≠ -1) (h0 : c ≠ 0) (k : Nat) :
    numAtoms k [c] = [Atom.mul c (.d k)] ∧ denAtoms k [c] = [Atom.negMul c (.m k)] := by
  simp [numAtoms, denAtoms, h1, hm, h0]

/-- **C04.12d** (`special_cases_neutral`): the special cases of `__call__` (coefficient 1 / −1 / 0,
gain 1 / −1) are semantically neutral: the generated loop yields what the loop WITHOUT any special
case (`compilePlain`: every coefficient a product, the gain always a division) yields — for every
field, every coefficient list, memory and input (the all-zero filter yields the zero value, C04.3). -/
theorem special_cases_neutral (b as : List K) (a0 zero : K) (mem xs : List K)
    (hmem : mem.length = as.length)
    (hnz : ¬ ((∀ c ∈ b, c = 0) ∧ (∀ c ∈ as, c = 0))) :
    evalIR (compile b (a0 :: as) zero) mem zero xs = evalIR (compilePlain b (a0 :: as)) mem zero xs := by
  rw [filter_eq_spec b as a0 zero mem xs hmem hnz, compilePlain_eq_fspec b as a0 zero mem xs hmem]

/-- … with zero value 0 without exception -/
theorem special_cases_neutral_zero (b as : List K) (a0 : K) (mem xs : List K)
    (hmem : mem.length = as.length) :
    evalIR (compile b (a0 :: as) 0) mem 0 xs = evalIR (compilePlain b (a0 :: as)) mem 0 xs := by
  rw [filter_eq_spec_zero b as a0 mem xs hmem, compilePlain_eq_fspec b as a0 0 mem xs hmem]

/-- the open-test compiler instantiated with the code's test is the model of the code -/
theorem compileBy_is_compile (b a : List K) (zero : K) :
    compileBy isPlusMinusOne b a zero = compile b a zero := compileBy_code b a zero

/-- **C04.12e** (`gauss_filterCall_eq_specCall`): the very instance the driver EXECUTES for complex
coefficients and samples — `filterCall` / `specCall` over the executable Gaussian rationals with the
model's own `+ * - /` — is covered by C04.10 (ℚ(i) is a field, `Lemmas/C12Gauss`). -/
theorem gauss_filterCall_eq_specCall (n d : List (Int × GRat)) (mem : Mem GRat) (zero : GRat)
    (xs : List GRat) : gaussFilterCall n d mem zero xs = gaussSpecCall n d mem zero xs :=
  filterCall_eq_specCall n d mem zero xs

/-- **C04.12f** (`gauss_run_is_complex_run`): what the generated loop computes over ℚ(i) is, under
the embedding ℚ(i) → ℂ, the solution of the difference equation over the complex numbers. -/
theorem gauss_run_is_complex_run (b as : List GRat) (a0 zero : GRat) (mem xs : List GRat)
    (hmem : mem.length = as.length)
    (hnz : ¬ ((∀ c ∈ b, c = 0) ∧ (∀ c ∈ as, c = 0))) :
    (gaussEval b (a0 :: as) zero mem xs).map ALV.C12.GRat.toC
      = fspec (b.map ALV.C12.GRat.toC) (as.map ALV.C12.GRat.toC) (ALV.C12.GRat.toC a0)
          (ALV.C12.GRat.toC zero) (mem.map ALV.C12.GRat.toC) [] (xs.map ALV.C12.GRat.toC) := by
  have h := filter_eq_spec b as a0 zero mem xs hmem hnz
  have h2 := fspec_hom ALV.C12.GRat.toCHom b as a0 zero mem [] xs
  have hco : (⇑ALV.C12.GRat.toCHom : GRat → ℂ) = ALV.C12.GRat.toC := rfl
  simp only [hco, List.map_nil, ALV.C12.GRat.toCHom_apply] at h2
  unfold gaussEval
  rw [← h2, ← h]

/-- **C04.12g** (`filterCallD_eq_specCallD`): call shapes — `ZFilter(num)` (denominator omitted),
`filt(seq)` (memory and zero omitted), any subset given: as coded = the contract with the documented
defaults (denominator 1, no memory, zero value 0). -/
theorem filterCallD_eq_specCallD (n : List (Int × K)) (d : Option (List (Int × K)))
    (mem : Option (Mem K)) (zero : Option K) (xs : List K) :
    filterCallD n d mem zero xs = specCallD n d mem zero xs := by
  cases d <;> cases mem <;> cases zero <;> exact filterCall_eq_specCall _ _ _ _ _

/-- the omitted arguments are exactly `{0: 1}`, `None`, `0` -/
theorem call_defaults (n : List (Int × K)) (xs : List K) :
    filterCallD n none none none xs = filterCall n [(0, 1)] Mem.none 0 xs := rfl

example : unitModulus gi = true ∧ gi ≠ 1 ∧ gi ≠ -1 ∧ gi ≠ 0 := by decide +kernel
example : ¬ (unitModulus gi = true → gi = 1 ∨ gi = -1) := by decide +kernel
example := coefficient_is_multiplied gi (by decide +kernel) (by decide +kernel) (by decide +kernel) 3
/-- the complex one-pole oscillator `1 / (1 - 1j * z ** -1)` on a step -/
example : gaussEval [1] [1, -gi] 0 [0] [1, 1, 1, 1, 1] = [1, ⟨1, 1⟩, gi, 0, 1] := by decide +kernel
/-- `ZFilter([1j, 2])([1, 2, -3])`: as coded, and with the unit test `abs(coeff) == 1` -/
example : gaussEval [gi, 2] [1] 0 [] [1, 2, -3] = [gi, ⟨2, 2⟩, ⟨4, -3⟩] := by decide +kernel
example : gaussEvalBy unitModulus [gi, 2] [1] 0 [] [1, 2, -3] = [-1, 0, 7] := by decide +kernel
example : gaussFilterCall [(0, gi), (1, 2)] [(0, 1)] Mem.none 0 [1, 2, -3] = .ok [gi, ⟨2, 2⟩, ⟨4, -3⟩] := by
  decide +kernel
example : gaussSpecCall [(0, 1)] [(0, 1), (1, gi)] (Mem.iter [gi]) 0 [1, ⟨2, 0⟩] = .ok [⟨2, 0⟩, ⟨2, -2⟩] := by
  decide +kernel
example := gauss_run_is_complex_run [gi, 2] [-gi] 1 0 [3] [1, 2, -3] rfl (by decide +kernel)
example := special_cases_neutral [(1 : ℚ), -1, 0, 3] [1, -1, 0, 5] 2 7 [1, 2, 3, 4] [2, 4, 6] rfl (by simp)
example : filterCallD [((0 : Int), (2 : Rat)), (1, 1)] none none none [1, 2] = .ok [2, 5] := by decide +kernel

/-! ### C04.13 filter objects whose polynomials were assigned: the `a[0] == 0` branch -/

/-- **C04.13a** (`zero_gain_refuses`): a causal filter object whose denominator has no (or a zero)
delay-0 coefficient — possible only when the polynomials were assigned to the object, `__init__`
never leaves one — refuses to run: ZeroDivisionError "Invalid filter gain". -/
theorem zero_gain_refuses (num den : Terms K) (mem : Mem K) (zero : K) (xs : List K)
    (hc : ∀ kv ∈ num ++ den, 0 ≤ kv.1) (h0 : coefAt den 0 = 0) :
    call num den mem zero xs = .error .zeroDivision := by
  have hcausal : checkCausal num den = true := by
    simp only [checkCausal, Bool.not_eq_true', List.any_eq_false]
    intro kv hm
    have := hc kv hm
    simp; omega
  simp [call, hcausal, h0]

/-- **C04.13b** (`callRaw_eq_specCallRaw`): a filter object whose `numpoly` / `denpoly` were assigned
(any dictionaries: no normalisation happened): negative delay ⇒ ValueError, else `a[0] = 0` ⇒
ZeroDivisionError, else the difference equation of the contract. -/
theorem callRaw_eq_specCallRaw (n d : List (Int × K)) (mem : Mem K) (zero : K) (xs : List K) :
    callRaw n d mem zero xs = specCallRaw n d mem zero xs := by
  unfold callRaw specCallRaw
  have hmem : ∀ (p : List (Int × K)) (kv : Int × K), kv ∈ mkPoly p → kv.1 ∈ keysNZ p := by
    intro p kv hkv
    exact (mem_keys_mkPoly p kv.1).1 (List.mem_map.2 ⟨kv, hkv, rfl⟩)
  by_cases hany : (keysNZ n ++ keysNZ d).any (fun k => decide (k < 0)) = true
  · simp only [hany, if_true]
    obtain ⟨k, hk, hlt⟩ := List.any_eq_true.1 hany
    have hlt' : k < 0 := by simpa using hlt
    apply noncausal
    rcases List.mem_append.1 hk with h | h
    · obtain ⟨kv, hkv, hkk⟩ := List.mem_map.1 ((mem_keys_mkPoly n k).2 h)
      exact ⟨kv, List.mem_append.2 (Or.inl hkv), by rw [hkk]; exact hlt'⟩
    · obtain ⟨kv, hkv, hkk⟩ := List.mem_map.1 ((mem_keys_mkPoly d k).2 h)
      exact ⟨kv, List.mem_append.2 (Or.inr hkv), by rw [hkk]; exact hlt'⟩
  · simp only [hany, Bool.false_eq_true, if_false]
    have hcausal : ∀ kv ∈ mkPoly n ++ mkPoly d, 0 ≤ kv.1 := by
      intro kv hkv
      have hk : kv.1 ∈ keysNZ n ++ keysNZ d := by
        rcases List.mem_append.1 hkv with h | h
        · exact List.mem_append.2 (Or.inl (hmem n kv h))
        · exact List.mem_append.2 (Or.inr (hmem d kv h))
      have : ¬ (kv.1 < 0) := by
        intro hlt
        exact hany (List.any_eq_true.2 ⟨kv.1, hk, by simpa using hlt⟩)
      omega
    by_cases h0 : coefLast d 0 = 0
    · simp only [h0, if_true]
      exact zero_gain_refuses _ _ _ _ _ hcausal (by rw [coefAt_mkPoly]; exact h0)
    · simp only [h0, if_false]
      rw [← filterCall_eq_specCall]
      have h0mem : (0 : Int) ∈ keysNZ d := (mem_keysNZ_iff d 0).2 h0
      have hmin : minKey (mkPoly d) = some 0 := by
        rw [minKey_mkPoly]
        rcases listMin_spec (keysNZ d) with ⟨_, h2⟩ | ⟨q, h1, h2, h3⟩
        · rw [h2] at h0mem; simp at h0mem
        · rw [h1]
          have hq0 : q ≤ 0 := h3 0 h0mem
          have hq : ¬ (q < 0) := by
            intro hlt
            exact hany (List.any_eq_true.2 ⟨q, List.mem_append.2 (Or.inr h2), by simpa using hlt⟩)
          congr 1; omega
      unfold filterCall
      rw [normalise_ok _ _ 0 hmin]
      rw [shiftKeys_zero, shiftKeys_zero]
      rfl

example : callRaw [((0 : Int), (1 : Rat))] [(1, 1)] Mem.none 0 [1, 2] = .error .zeroDivision := by decide +kernel
example : callRaw [((0 : Int), (1 : Rat))] [(0, 0), (1, 1)] Mem.none 0 [1, 2] = .error .zeroDivision := by decide +kernel
example : callRaw [((-1 : Int), (1 : Rat))] [(1, 1)] Mem.none 0 [1, 2] = .error .valueError := by decide +kernel
example : specCallRaw [((1 : Int), (1 : Rat))] [(0, 2), (1, 1)] Mem.none 0 [1, 2] = .ok [0, 1/2] := by decide +kernel
example := zero_gain_refuses [((0 : Int), (1 : ℚ))] [(1, 1)] Mem.none 0 [1] (by simp) (by decide +kernel)

/-! ### C04.14 constructor argument kinds, the cast with a divisor, serialised error names -/

/-- **C04.14a** (`coefArg_denotes`): every kind of constructor argument, read as the dictionary the
pipeline works on (`CoefArg.pairs`: what `Poly.__init__` stores), denotes the polynomial the
documentation says: nothing ⇒ 0, a number `c` ⇒ the constant `c`, a list ⇒ `c_k` at power `k`, a
dict / Poly ⇒ its items (last one wins). -/
theorem coefArg_denotes (a : CoefArg K) (k : Int) : coefLast a.pairs k = a.coef k :=
  coefArg_coef a k

/-- **C04.14b** (`enumerate_is_positional`): `Poly(list)` stores `enumerate(list)` (`enumFrom 0`):
looking power `k` up gives the `k`-th item, 0 outside the list. -/
theorem enumerate_is_positional (l : List K) (k : Int) :
    coefLast (enumFrom 0 l) k = if k < 0 then 0 else l.getD k.toNat 0 :=
  coefLast_enumFrom l k

/-- **C04.14c** (`coefArg_call_eq_spec`): the call of a filter built from ANY two argument kinds
(denominator possibly omitted) is the contract on the dictionaries they denote. -/
theorem coefArg_call_eq_spec (n : CoefArg K) (d : Option (CoefArg K)) (mem : Option (Mem K))
    (zero : Option K) (xs : List K) :
    filterCallD n.pairs (d.map CoefArg.pairs) mem zero xs
      = specCallD n.pairs (d.map CoefArg.pairs) mem zero xs :=
  filterCallD_eq_specCallD _ _ _ _ _

/-- **C04.14d** (`castDiv_zero`): `ZFilter(filt, 0)` raises ZeroDivisionError at construction. -/
theorem castDiv_zero (n : List (Int × K)) : castDiv n 0 = .error .zeroDivision := by
  simp [castDiv]

/-- **C04.14e** (`castDiv_is_division`): `ZFilter(filt, c)` with `c ≠ 0` is `filt / c`: the same
powers, every numerator coefficient divided by `c` (the denominator is untouched). -/
theorem castDiv_is_division (n : List (Int × K)) (c : K) (hc : c ≠ 0) :
    ∃ n', castDiv n c = .ok n' ∧ n'.map (·.1) = n.map (·.1) ∧ ∀ k, coefLast n' k = coefLast n k / c := by
  refine ⟨n.map fun kv => (kv.1, kv.2 * (1 / c)), by simp [castDiv, hc], by simp [Function.comp_def], ?_⟩
  intro k
  have h := lastD_map_val (fun x : K => x * (1 / c)) n k 0
  simp only [zero_mul] at h
  rw [coefLast_eq_lastD, coefLast_eq_lastD, h]
  simp [div_eq_mul_inv]

/-- **C04.14e'** (`castDiv_response`): … and dividing every numerator coefficient by `c` divides the
response by `c` (the initial state divided as well — in particular the zero-state response): the
filter `filt / c` of the documentation. -/
theorem castDiv_response (b as : List K) (a0 c : K) (mem xs : List K) (hmem : mem.length = as.length) :
    evalIR (compile (b.map (· / c)) (a0 :: as) 0) (mem.map (· / c)) 0 xs
      = (evalIR (compile b (a0 :: as) 0) mem 0 xs).map (· / c) := by
  rw [filter_eq_spec_zero _ _ _ _ _ (by simpa using hmem), filter_eq_spec_zero _ _ _ _ _ hmem]
  exact fspec_scale b as a0 c xs mem []

/-- **C04.14f** (`err_name_injective`): the two exceptions travel under different names. -/
theorem err_name_injective (e e' : Err) (h : e.name = e'.name) : e = e' := by
  cases e <;> cases e' <;> first | rfl | (simp [Err.name] at h)

/-! ### C04.15 the gain is applied by division -/

/-- **C04.15a** (`gain_is_division`): for every `a0` other than 1 and −1 (any spelling: an integer,
a negative number, a Fraction, a float, a complex number are all just field elements here) the
generated statement is `m0 = (sum) / a0`: the operator is a DIVISION by the gain itself. -/
theorem gain_is_division (b as : List K) (a0 zero : K) (h1 : a0 ≠ 1) (hm : a0 ≠ -1)
    (hnz : ¬ ((∀ c ∈ b, c = 0) ∧ (∀ c ∈ as, c = 0))) :
    compile b (a0 :: as) zero = IR.loop as.length (b.length - 1) (numAtoms 0 b ++ denAtoms 1 as)
      (Gain.div a0) (mShifts as.length ++ dShifts (b.length - 1)) := by
  rw [compile_loop b as a0 zero hnz]
  simp [h1, hm]

/-- **C04.15b** (`gain_unit_no_division`): gain −1 ⇒ the negated sum; gain 1 ⇒ the bare sum (in a
field where `1 ≠ −1`: the code tests `gain == -1` first); no division is generated, so integer
samples stay integers. -/
theorem gain_unit_no_division (b as : List K) (zero : K)
    (hnz : ¬ ((∀ c ∈ b, c = 0) ∧ (∀ c ∈ as, c = 0))) :
    ((1 : K) ≠ -1 →
      compile b (1 :: as) zero = IR.loop as.length (b.length - 1) (numAtoms 0 b ++ denAtoms 1 as)
        Gain.one (mShifts as.length ++ dShifts (b.length - 1)))
    ∧ compile b (-1 :: as) zero = IR.loop as.length (b.length - 1) (numAtoms 0 b ++ denAtoms 1 as)
      Gain.negOne (mShifts as.length ++ dShifts (b.length - 1)) := by
  constructor
  · intro h
    rw [compile_loop b as 1 zero hnz]
    simp [h]
  · rw [compile_loop b as (-1) zero hnz]
    simp

/-- **C04.15c** (`gain_division_value`): executing that statement divides by `a0`; over a field this
equals multiplying by the inverse — which is why NO theorem over a field (and no comparison with a
tolerance) can tell `(sum) / a0` from `(sum) * (1 / a0)`: only the structural tie T3 (operator and
operand of the generated source) and the exact-regime I/O tie (Fraction samples with an integer
gain: `Fraction / 3` is a Fraction, `Fraction * (1 / 3)` is a rounded float) pin the operator. -/
theorem gain_division_value (g s : K) :
    applyGain (Gain.div g) s = s / g ∧ s / g = s * g⁻¹ :=
  ⟨rfl, div_eq_mul_inv s g⟩

/-! ### C04.16 which generator is chosen; the free response -/

/-- **C04.16a** (`const_loop_iff`): the trivial generator `for unused in seq: yield zero` is chosen
IF AND ONLY IF the numerator AND the feedback part are all zero. -/
theorem const_loop_iff (b as : List K) (a0 zero : K) :
    compile b (a0 :: as) zero = IR.constLoop zero ↔ (∀ c ∈ b, c = 0) ∧ (∀ c ∈ as, c = 0) :=
  compile_const_iff b as a0 zero

/-- **C04.16b** (`zero_numerator_free_response`): a zero numerator WITH feedback runs the real loop
and yields the free response: the homogeneous recursion `a0·y[n] = −Σ a_k·y[n−k]` started on the
memory — whatever the input values and the zero value are (they only count the outputs / fill an
omitted memory). -/
theorem zero_numerator_free_response (b as : List K) (a0 zero : K) (mem xs : List K)
    (hb : ∀ c ∈ b, c = 0) (ha : ¬ (∀ c ∈ as, c = 0)) (hmem : mem.length = as.length) :
    evalIR (compile b (a0 :: as) zero) mem zero xs = freeResp as a0 mem xs.length := by
  rw [filter_eq_spec b as a0 zero mem xs hmem (fun h => ha h.2), fspec_zero_num b as a0 zero hb]

/-- **C04.16c** (`free_response_ignores_input`): … so two inputs of the same length give the same
output. -/
theorem free_response_ignores_input (b as : List K) (a0 zero : K) (mem xs xs' : List K)
    (hb : ∀ c ∈ b, c = 0) (ha : ¬ (∀ c ∈ as, c = 0)) (hmem : mem.length = as.length)
    (hl : xs.length = xs'.length) :
    evalIR (compile b (a0 :: as) zero) mem zero xs = evalIR (compile b (a0 :: as) zero) mem zero xs' := by
  rw [zero_numerator_free_response b as a0 zero mem xs hb ha hmem,
      zero_numerator_free_response b as a0 zero mem xs' hb ha hmem, hl]

/-- **C04.16d** (`free_response_first_output`): its first output is `−(Σ a_k·mem[k−1]) / a0`: not
the zero value, and non-zero as soon as that sum is. -/
theorem free_response_first_output (b as : List K) (a0 zero : K) (mem : List K) (x : K) (xs : List K)
    (hb : ∀ c ∈ b, c = 0) (ha : ¬ (∀ c ∈ as, c = 0)) (hmem : mem.length = as.length) :
    (evalIR (compile b (a0 :: as) zero) mem zero (x :: xs)).head? = some ((0 - dot as mem) / a0) := by
  rw [zero_numerator_free_response b as a0 zero mem _ hb ha hmem]
  simp [freeResp]

/-! ### C04.17 how a memory is read -/

/-- **C04.17a** (`memory_iterator_reads`): an ITERATOR memory with items `l` left: the first `lm`
are kept (in order), `min (lm+1) |l|` items are pulled — `takewhile` pulls the first item that fails
its test and drops it — and the iterator is left at `l.drop (lm+1)`. -/
theorem memory_iterator_reads (lm : Nat) (l : List K) :
    readMem lm (Src.fin l) = (l.take lm, min (lm + 1) l.length, Src.fin (l.drop (lm + 1))) :=
  readMem_fin lm l

/-- **C04.17b** (`memory_endless_reads`): an endless iterator is advanced by exactly `lm + 1`. -/
theorem memory_endless_reads (lm : Nat) (g : Nat → K) (p : Nat) :
    readMem lm (Src.inf g p)
      = ((List.range lm).map (fun i => g (p + i)), lm + 1, Src.inf g (p + lm + 1)) :=
  readMem_inf lm g p

/-- **C04.17c** (`memory_rest`): what the caller can still get out of its iterator afterwards. -/
theorem memory_rest (lm n : Nat) (l : List K) :
    Src.peek n (readMem lm (Src.fin l)).2.2 = (l.drop (lm + 1)).take n := by
  rw [readMem_fin, peek_fin]

/-- **C04.17d** (`memory_read_is_memoryOf`): the list built from what was read (LEFT padded when
short) is the memory of C04.5 — for a finite and for an endless iterator. -/
theorem memory_read_is_memoryOf (zero : K) (lm : Nat) (l : List K) (g : Nat → K) :
    memoryFromSrc zero lm (Src.fin l) = memoryOf zero lm (Mem.iter l)
    ∧ memoryFromSrc zero lm (Src.inf g 0) = memoryOf zero lm (Mem.gen g) :=
  ⟨memoryFromSrc_fin zero lm l, memoryFromSrc_inf zero lm g⟩

/-- **C04.17e** (`callable_asked_once`): a callable memory is asked exactly once, for the needed
size; nothing else is ever asked. -/
theorem callable_asked_once (lm : Nat) (m : Mem K) :
    memAsked lm m = (match m with | .callable _ => [lm] | _ => []) := by
  cases m <;> rfl

/-- which memories are iterators for `readMem` -/
theorem mem_src_cases (l : List K) (g : Nat → K) (f : Nat → List K) :
    (Mem.iter l).src = some (Src.fin l) ∧ (Mem.gen g).src = some (Src.inf g 0)
    ∧ (Mem.none : Mem K).src = none ∧ (Mem.callable f).src = none := ⟨rfl, rfl, rfl, rfl⟩

/-! ### C04.18 complex histories and cascades: the instances the driver executes -/

/-- **C04.18a** (`gauss_hist_model_eq_spec`): entry "ghist" — every step of every history over ℚ(i),
run with the model's own Gaussian-rational operations, as coded = as the property says. -/
theorem gauss_hist_model_eq_spec (ops : List (HOp GRat)) : gaussHistModel ops = gaussHistSpec ops :=
  histModel_eq_histSpec filterCall_eq_specCall ops

/-- **C04.18b** (`gauss_cascade_model_eq_spec`): entry "gcascade" — one filter object with complex
coefficients applied to its own lazy output, stage by stage. -/
theorem gauss_cascade_model_eq_spec (n d : List (Int × GRat)) (zero : GRat) (mems : List (Mem GRat))
    (xs : List GRat) :
    cascadeWith (fun m ys => gaussFilterCall n d m zero ys) mems xs
      = cascadeWith (fun m ys => gaussSpecCall n d m zero ys) mems xs :=
  cascade_model_eq_spec n d zero mems xs

/-! non-vacuity of C04.14 – C04.18 -/
example : (CoefArg.list [(3 : Rat), 0, 5]).coef 2 = 5 ∧ (CoefArg.number (7 : Rat)).coef 0 = 7
    ∧ (CoefArg.none : CoefArg Rat).coef 0 = 0 ∧ (CoefArg.dict [((2 : Int), (1 : Rat)), (2, 9)]).coef 2 = 9 := by
  decide +kernel
example : castDiv [((0 : Int), (6 : Rat)), (1, 3)] 3 = .ok [(0, 2), (1, 1)] := by decide +kernel
example := castDiv_is_division [((0 : Int), (6 : ℚ)), (1, 3)] 3 (by norm_num)
example : evalIR (compile [2, 1] [1, -1] (0 : Rat)) [1] 0 [3, 6] = (evalIR (compile [6, 3] [1, -1] (0 : Rat)) [3] 0 [3, 6]).map (· / 3) := by
  decide +kernel
/-- every spelling of a gain other than ±1: 3, −3, 1/2, i — the generated gain is `Gain.div` of it -/
example := gain_is_division [(1 : ℚ)] [2] 3 0 (by norm_num) (by norm_num) (by simp)
example := gain_is_division [(1 : ℚ)] [2] (-3) 0 (by norm_num) (by norm_num) (by simp)
example := gain_is_division [(1 : ℚ)] [2] (1 / 2) 0 (by norm_num) (by norm_num) (by simp)
example := (gain_unit_no_division [(1 : ℚ)] [2] 0 (by simp)).1 (by norm_num)
example := gain_is_division [(1 : GRat)] [gi] gi 0 (by decide +kernel) (by decide +kernel) (by decide +kernel)
/-- exact samples come out exact: `Fraction(1, 3) / 3` -/
example : evalIR (compile [1] [3, 1] (0 : Rat)) [2] 0 [1/3, 5] = [-5/9, 50/27] := by decide +kernel
/-- zero numerator, feedback `y[n] = 2·y[n−1]`, no memory given, zero value 7: free response 14, 28, 56
— not `7, 7, 7` -/
example : evalIR (compile [0, 0] [1, -2] (7 : Rat)) (memoryOf 7 1 Mem.none) 7 [5, 5, 5] = [14, 28, 56] := by
  decide +kernel
example : freeResp [(-2 : Rat)] 1 [7] 3 = [14, 28, 56] := by decide +kernel
example := zero_numerator_free_response [(0 : ℚ), 0] [-2] 1 7 [7] [5, 5, 5] (by simp) (by simp) rfl
example : filterCall [((0 : Int), (0 : Rat))] [(0, 1), (1, -2)] (Mem.iter [3]) 0 [1, 1] = .ok [6, 12] := by
  decide +kernel
/-- iterator memories: order 2, five items ⇒ 3 pulled, `[4, 5]` left; two items ⇒ both pulled, nothing left -/
example : readMem 2 (Src.fin [(1 : Rat), 2, 3, 4, 5]) = ([1, 2], 3, Src.fin [4, 5]) := by
  rw [memory_iterator_reads]; rfl
example : (readMem 2 (Src.fin [(1 : Rat), 2, 3, 4, 5])).2.1 = 3 ∧ (readMem 2 (Src.fin [(1 : Rat), 2])).2.1 = 2
    ∧ (readMem 0 (Src.fin [(1 : Rat), 2])).2.1 = 1 := by decide +kernel
example : Src.peek 2 (readMem 1 (Src.inf (fun i => (i : Rat)) 0)).2.2 = [2, 3] := by decide +kernel
/-- a complex history: the one-pole oscillator called twice, consumed interleaved -/
example : gaussHistModel
    [.setCoefs 0 [(0, 1)], .setCoefs 1 [(0, 1), (1, -gi)], .build 0 0 1, .setNums 0 [1, 1, 1], .setNums 1 [gi],
     .call 0 0 0 (some 1) 0, .setNums 1 [0], .call 1 0 0 none 0, .take 0 2, .take 1 3]
    = [.stored, .stored, .ok, .stored, .stored, .ok, .stored, .ok, .outs [0, 1] false,
       .outs [1, ⟨1, 1⟩, gi] false] := by decide +kernel

/-! ### C04.19 the model is what the source says NOW

`ALV/Gen/C04Src.lean` is rewritten on every check by the translator `harness/props/c04_tr.py` from the text of
`LinearFilter.__call__` (read with `ast`): the two coefficient loops with their `if / elif` chains (tests, constants
and format strings in the order of the source), the `len(data_sum) == 0` test, the gain chain, the line templates of the
generated generator with their `xrange` bounds, the memory block and the two guards with the exceptions they raise.  The
theorems below say that these regenerated definitions ARE the hand-written model, so every theorem above is a theorem about
the code as it reads now; an edit of the method that changes its meaning breaks one of them on the next run. -/
section src
open ALV.C04.Py
variable {α : Type}

/-- **C04.19a**: the numerator loop (accumulating `data_sum.append(...)` over `iteritems(numdict)`) builds `numAtoms`. -/
theorem src_numLoop_is_model [Neg α] [OfNat α 0] [OfNat α 1] [DecidableEq α] (b : List α) (st : St α) :
    forItems ALV.Gen.C04.numBody 0 b st = ⟨st.data_sum ++ numAtoms 0 b, st.gain⟩ :=
  SrcLemmas.numLoop b 0 st

/-- **C04.19b**: the denominator loop: delay 0 binds `gain`, the other delays append `denAtoms`. -/
theorem src_denLoop_is_model [Neg α] [OfNat α 0] [OfNat α 1] [DecidableEq α] (a : List α) (st : St α) :
    forItems ALV.Gen.C04.denBody 0 a st = ⟨st.data_sum ++ denAtoms 1 a.tail, a.headD st.gain⟩ :=
  SrcLemmas.denLoop a st

/-- **C04.19c** (`src_compile_is_model`): the regenerated source builder is the model's `compile`. -/
theorem src_compile_is_model [Neg α] [OfNat α 0] [OfNat α 1] [DecidableEq α] :
    (ALV.Gen.C04.compile : List α → List α → α → IR α) = compile := by
  funext b a zero; exact SrcLemmas.compile_eq b a zero

/-- **C04.19d** (`src_memoryOf_is_model`): the regenerated memory block is the model's `memoryOf`. -/
theorem src_memoryOf_is_model : (ALV.Gen.C04.memoryOf : α → Nat → Mem α → List α) = memoryOf := by
  funext zero lm mem; exact SrcLemmas.memoryOf_eq zero lm mem

/-- **C04.19e** (`src_call_is_model`): the regenerated method (guards in their order, lengths, memory, generated source,
run) is the model's `call`. -/
theorem src_call_is_model [Add α] [Mul α] [Sub α] [Neg α] [Div α] [OfNat α 0] [OfNat α 1] [DecidableEq α] :
    (ALV.Gen.C04.call : Terms α → Terms α → Mem α → α → List α → Except Err (List α)) = call := by
  funext num den mem zero xs; exact SrcLemmas.call_eq num den mem zero xs

/-- **C04.19f** (`src_call_eq_spec`): C04.6 stated about the regenerated method. -/
theorem src_call_eq_spec (num den : Terms K) (mem : Mem K) (zero : K) (xs : List K)
    (hc : ∀ kv ∈ num ++ den, 0 ≤ kv.1) (h0 : coefAt den 0 ≠ 0)
    (hnz : ¬ ((∀ c ∈ dense num, c = 0) ∧ (∀ c ∈ (dense den).tail, c = 0))) :
    ALV.Gen.C04.call num den mem zero xs
      = .ok (fspec (dense num) (dense den).tail (coefAt den 0) zero
              (memoryOf zero (dense den).tail.length mem) [] xs) := by
  rw [src_call_is_model]; exact call_eq_spec num den mem zero xs hc h0 hnz

/-- **C04.19g**: the refusals, stated about the regenerated method. -/
theorem src_call_refuses (num den : Terms K) (mem : Mem K) (zero : K) (xs : List K) :
    ((∃ kv ∈ num ++ den, kv.1 < 0) → ALV.Gen.C04.call num den mem zero xs = .error .valueError)
    ∧ ((∀ kv ∈ num ++ den, 0 ≤ kv.1) → coefAt den 0 = 0 →
        ALV.Gen.C04.call num den mem zero xs = .error .zeroDivision) := by
  rw [src_call_is_model]
  exact ⟨noncausal num den mem zero xs, zero_gain_refuses num den mem zero xs⟩

end src

/-- the regenerated method run on 1 / (1 - 2 z^-1) with memory [3], and on a non-causal filter -/
example : ALV.Gen.C04.call [((0 : Int), (1 : Rat))] [(0, 1), (1, -2)] (Mem.iter [3]) 0 [1, 1] = .ok [7, 15]
    ∧ ALV.Gen.C04.call [((-1 : Int), (1 : Rat))] [(0, 1)] Mem.none 0 [1] = .error .valueError := by
  decide +kernel
end ALV.Props.C04

#write_audit "C04"
