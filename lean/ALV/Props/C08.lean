/-
  C08 — property theorems.  Only statements of the property, non-vacuity
  examples and the audit live here; helper lemmas are in `ALV.Lemmas.C08`.
-/
import ALV.Lemmas.C08
import ALV.Lemmas.C08Hist
import ALV.Lemmas.C08Call
import ALV.Lemmas.C08Mut
import ALV.Lemmas.C08Table
import ALV.Lemmas.C08NonFin
import ALV.Lemmas.C08Src
import ALV.Common.Audit

namespace ALV.Props.C08
open ALV.C08
variable {α : Type}

/-- **C08.1**: the generator model of `blocks` equals the specification, for every
input length, every size ≥ 1, every hop ≥ 1 (both loops), any pad value and item type. -/
theorem blocks_eq_spec (size hop : Nat) (hs : 0 < size) (hh : 0 < hop) (pad : α) (xs : List α) :
    blocks size hop pad xs = blocksSpec size hop pad xs := by
  have inv : BInv size (⟨[], 0⟩ : BState α) := ⟨by simpa using hs, by simp, fun _ => by simp⟩
  have := bloop_spec size hop hs hh pad xs ⟨[], 0⟩ inv
  simpa [blocks, virt, lastN] using this

/-- **C08.1b**: the same in the indexed words of the property: the output is the list of the
`nFull` complete blocks `items k*hop .. k*hop+size-1` (k = 0 .. nFull-1, in order), followed by one
final padded block iff the remaining `rest = xs.drop (nFull*hop)` holds more than
`max(size-hop,0)` real items. -/
theorem blocks_eq_closed (size hop : Nat) (hs : 0 < size) (hh : 0 < hop) (pad : α) (xs : List α) :
    blocks size hop pad xs = blocksClosed size hop pad xs := by
  rw [blocks_eq_spec size hop hs hh pad xs]
  exact blocksSpec_eq_closed size hop hs hh pad xs.length xs rfl

/-- Block `k` (for every complete block) is exactly items `k*hop .. k*hop+size-1`. -/
theorem block_k (size hop : Nat) (hs : 0 < size) (hh : 0 < hop) (pad : α) (xs : List α)
    (k : Nat) (hk : k < nFull size hop xs.length) :
    (blocks size hop pad xs)[k]? = some ((xs.drop (k * hop)).take size) := by
  rw [blocks_eq_closed size hop hs hh pad xs]
  unfold blocksClosed
  simp only
  rw [List.getElem?_append_left (by simpa using hk)]
  simp [hk]

/-- The number of blocks: all complete ones, plus one iff the padded tail condition holds. -/
theorem blocks_length (size hop : Nat) (hs : 0 < size) (hh : 0 < hop) (pad : α) (xs : List α) :
    (blocks size hop pad xs).length =
      nFull size hop xs.length +
        (if ((xs.drop (nFull size hop xs.length * hop)).length : Int) > max ((size : Int) - hop) 0
          then 1 else 0) := by
  rw [blocks_eq_closed size hop hs hh pad xs]
  unfold blocksClosed
  simp only [List.length_append, List.length_map, List.length_range]
  split <;> simp

/-- every complete block has exactly `size` items -/
theorem block_k_length (size hop : Nat) (xs : List α)
    (k : Nat) (hk : k < nFull size hop xs.length) :
    ((xs.drop (k * hop)).take size).length = size := by
  unfold nFull at hk
  split at hk
  · omega
  · rename_i h
    have : k * hop ≤ xs.length - size := by
      have := Nat.div_mul_le_self (xs.length - size) hop
      have h2 : k ≤ (xs.length - size) / hop := by omega
      exact Nat.le_trans (Nat.mul_le_mul_right hop h2) this
    simp only [List.length_take, List.length_drop]
    omega

/-- **C08.2**: `zero_pad` yields exactly `left` pad items, the sequence, then `right` pad items. -/
theorem zero_pad_eq_spec (left right : Nat) (zero : α) (xs : List α) :
    zeroPad left right zero xs = List.replicate left zero ++ xs ++ List.replicate right zero := rfl

theorem zero_pad_length (left right : Nat) (zero : α) (xs : List α) :
    (zeroPad left right zero xs).length = left + xs.length + right := by
  simp [zeroPad]; omega


/-! ## Histories: prefixes and failing / observing sources, caller edits, live sources -/

/-- **C08.3 (prefix / failure statement)**: for EVERY prefix `pre` of the input, the blocks the
generator has handed out after consuming `pre` (the loop only, without the end-of-input clause) are
exactly the complete blocks of that prefix.  So a source that fails after delivering the items
`pre` has produced every complete block of `pre`, and no padded block. -/
theorem blocks_prefix (size hop : Nat) (hs : 0 < size) (hh : 0 < hop) (pre : List α) :
    (bloop size hop (⟨[], 0⟩ : BState α) pre).1 = fullBlocks size hop pre := by
  have := bloop_full size hop hs hh pre ⟨[], 0⟩ (binv_init size hs)
  simpa [virt, lastN] using this

/-- the blocks already handed out never change: the output for `pre ++ suf` starts with the
complete blocks of `pre`, whatever follows (more items, the end, a failure) -/
theorem blocks_incremental (size hop : Nat) (hs : 0 < size) (hh : 0 < hop) (pad : α)
    (pre suf : List α) :
    fullBlocks size hop pre <+: blocks size hop pad (pre ++ suf) := by
  unfold blocks
  simp only [bloop_append, blocks_prefix size hop hs hh pre, List.append_assoc]
  exact List.prefix_append _ _

/-- **C08.4 (no read-ahead)**: block `k` is handed out when exactly `k*hop + size` items have been
pulled from the source. -/
theorem reads_closed (size hop : Nat) (hs : 0 < size) (hh : 0 < hop) (xs : List α) :
    bloopReads size hop (⟨[], 0⟩ : BState α) 0 xs = readsClosed size hop xs.length := by
  rw [bloopReads_closed size hop hs hh xs ⟨[], 0⟩ 0 (by simpa using hs)]
  unfold readsClosed
  simp only [Int.sub_zero, Int.toNat_natCast, Nat.zero_add]
  apply List.map_congr_left
  intro k _
  omega

/-- events of the loop in closed form: (items pulled, block) for every complete block -/
theorem events_closed (size hop : Nat) (hs : 0 < size) (hh : 0 < hop) (xs : List α) :
    (bloopEv size hop (⟨[], 0⟩ : BState α) 0 xs).1 =
      (List.range (nFull size hop xs.length)).map
        fun k => (k * hop + size, (xs.drop (k * hop)).take size) := by
  have hz := List.zip_unzip (bloopEv size hop (⟨[], 0⟩ : BState α) 0 xs).1
  rw [List.unzip_eq_map] at hz
  rw [← hz, bloopEv_fst, (bloopEv_snd size hop xs ⟨[], 0⟩ 0).1, reads_closed size hop hs hh,
    blocks_prefix size hop hs hh]
  unfold readsClosed fullBlocks
  rw [List.zip_map']

/-- **C08.5a**: a source that delivers `xs` and then FAILS: every complete block of `xs` has been
handed out, block `k` after exactly `k*hop+size` pulled items, no padded block, and the exception
comes out. -/
theorem trace_fail (size hop : Nat) (hs : 0 < size) (hh : 0 < hop) (pad : α) (xs : List α) :
    blocksTrace size hop pad xs .fail =
      ⟨(List.range (nFull size hop xs.length)).map
        fun k => (k * hop + size, (xs.drop (k * hop)).take size), true⟩ := by
  simp only [blocksTrace, events_closed size hop hs hh xs]

/-- **C08.5b**: a source that delivers `xs` and then ENDS: the same events, then the padded final
block (iff it holds more than `max(size-hop,0)` real items) once all `|xs|` items were pulled. -/
theorem trace_stop (size hop : Nat) (hs : 0 < size) (hh : 0 < hop) (pad : α) (xs : List α) :
    blocksTrace size hop pad xs .stop =
      ⟨((List.range (nFull size hop xs.length)).map
          fun k => (k * hop + size, (xs.drop (k * hop)).take size)) ++
        (tailBlock size hop pad xs).map (fun b => (xs.length, b)), false⟩ := by
  have h1 := blocks_eq_closed size hop hs hh pad xs
  have h2 := blocks_prefix size hop hs hh xs
  unfold blocks at h1
  simp only at h1
  rw [h2] at h1
  have h3 : btail size hop pad (bloop size hop (⟨[], 0⟩ : BState α) xs).2 = tailBlock size hop pad xs :=
    List.append_cancel_left (h1.trans (rfl : blocksClosed size hop pad xs =
      fullBlocks size hop xs ++ tailBlock size hop pad xs))
  simp only [blocksTrace, events_closed size hop hs hh xs, (bloopEv_snd size hop xs ⟨[], 0⟩ 0).2, h3]

/-- the blocks of a trace that ended normally are the blocks of C08.1 -/
theorem trace_stop_blocks (size hop : Nat) (pad : α) (xs : List α) :
    (blocksTrace size hop pad xs .stop).events.map Prod.snd = blocks size hop pad xs := by
  simp only [blocksTrace, blocks, List.map_append, (bloopEv_snd size hop xs ⟨[], 0⟩ 0).1,
    (bloopEv_snd size hop xs ⟨[], 0⟩ 0).2, List.map_map]
  congr 1
  simp [Function.comp_def]

/-- **C08.6 (the yielded container is the generator's deque)**: with a caller that changes the
contents of the yielded containers (keeping their length), the blocks are those of `mutSpec`:
each block is the first `size` items of the virtual input, and the next virtual input is what the
caller LEFT of these items followed by the rest of the input, minus `hop` items. -/
theorem blocks_mut_eq_spec (size hop : Nat) (hs : 0 < size) (hh : 0 < hop) (pad : α)
    (edit : Nat → LenPres α) (xs : List α) :
    blocksMut size hop pad (fun k => (edit k).1) xs = mutSpec size hop pad edit 0 xs := by
  have := bloopMut_spec size hop hs hh pad edit xs ⟨[], 0⟩ 0 (binv_init size hs)
  simpa [blocksMut, virt, lastN] using this

/-- a caller that leaves the containers alone gets the blocks of C08.1 -/
theorem blocks_mut_id (size hop : Nat) (pad : α) (xs : List α) :
    blocksMut size hop pad (fun _ b => b) xs = blocks size hop pad xs := by
  simp only [blocksMut, blocks, bloopMut_id]

/-- when `hop ≥ size` nothing of a previous container shows in the next block, whatever the caller
did to it -/
theorem blocks_mut_hop_ge_size (size hop : Nat) (hs : 0 < size) (hge : size ≤ hop) (pad : α)
    (edit : Nat → LenPres α) (xs : List α) :
    blocksMut size hop pad (fun k => (edit k).1) xs = blocks size hop pad xs := by
  have hh : 0 < hop := by omega
  rw [blocks_mut_eq_spec size hop hs hh, blocks_eq_spec size hop hs hh]
  exact mutSpec_hop_ge size hop hs hh hge pad edit xs.length xs 0 rfl

/-- the docstring's note, wherever it applies in the run: when `hop ≤ size` and a further complete
block follows the block `b = v.take size`, that next block is what the caller left of `b` from
position `hop` on, followed by the next `hop` items of the input. -/
theorem mut_next_block (size hop : Nat) (hs : 0 < size) (hh : 0 < hop) (hle : hop ≤ size) (pad : α)
    (edit : Nat → LenPres α) (k : Nat) (v : List α) (hv : size + hop ≤ v.length) :
    (mutSpec size hop pad edit k v)[1]? =
      some (((edit k).1 (v.take size)).drop hop ++ (v.drop size).take hop) := by
  have he : ((edit k).1 (v.take size)).length = size := by
    rw [(edit k).2, List.length_take]; omega
  rw [mutSpec_step size hop hs hh pad edit k v (by omega),
    mutSpec_step size hop hs hh pad edit (k + 1) _ (by
      simp only [List.length_drop, List.length_append, he]; omega)]
  simp only [List.getElem?_cons_succ, List.getElem?_cons_zero, Option.some.injEq]
  rw [List.drop_append_of_le_length (by omega), List.take_append]
  simp only [List.length_drop, he]
  rw [List.take_of_length_le (by simp only [List.length_drop, he]; omega)]
  congr 2
  omega

/-- **C08.7 (live source, "same through Stream.blocks" for sources that follow the caller)**: when
the item pulled as number `i` depends on how many blocks had been handed out at that moment, the
blocks are those of the fixed sequence `i ↦ item i (nFull size hop i)`: nothing is read ahead. -/
theorem blocks_live (size hop : Nat) (hs : 0 < size) (hh : 0 < hop) (pad : α)
    (item : Nat → Nat → α) (n : Nat) :
    blocksLive size hop pad item n =
      blocks size hop pad ((List.range n).map fun i => item i (nFull size hop i)) := by
  have inv : LInv size hop (⟨[], 0⟩ : BState α) 0 0 :=
    ⟨by simp, by simpa using hs, fun _ => by simp, fun h => by omega⟩
  simp only [blocksLive, blocks, bloopLive_eq size hop hs hh item n _ 0 0 inv, List.range_eq_range']

/-- **C08.2b**: `zero_pad` over a source that delivers `xs` then ends / fails: `left` pads before
anything is pulled, item `j` when `j+1` items were pulled, the right pads only after a normal end. -/
theorem zero_pad_trace (left right : Nat) (zero : α) (xs : List α) :
    (zeroPadTrace left right zero xs .stop).1.map Prod.snd = zeroPad left right zero xs ∧
    (zeroPadTrace left right zero xs .stop).2 = false ∧
    (zeroPadTrace left right zero xs .fail).1.map Prod.snd = List.replicate left zero ++ xs ∧
    (zeroPadTrace left right zero xs .fail).2 = true := by
  have hm : List.map Prod.snd (List.map (fun p : Nat × α => (p.1 + 1, p.2))
      ((List.range xs.length).zip xs)) = xs := by
    rw [List.map_map]
    have : (Prod.snd ∘ fun p : Nat × α => (p.1 + 1, p.2)) = Prod.snd := rfl
    rw [this, List.map_snd_zip]
    simp
  refine ⟨?_, rfl, ?_, rfl⟩
  · simp only [zeroPadTrace, zeroPad, List.map_append, hm, List.map_map]
    simp [Function.comp_def]
  · simp only [zeroPadTrace, List.map_append, hm, List.map_map]
    simp [Function.comp_def]


/-! ## The call: shapes, defaults, spellings of the parameters -/

/-- **C08.8a (default of `hop`)**: `hop` omitted / `None` is `hop = size`, for EVERY spelling of `size`
(also the refused ones). -/
theorem call_hop_default (dflt : α) (size : Num) (padval : Option α) (it : Bool) (xs : List α) (e : Ending) :
    blocksCall dflt size .none padval it xs e = blocksCall dflt size size padval it xs e := by
  cases size with
  | int i =>
    unfold blocksCall initSize
    by_cases h1 : i < 0
    · simp [h1]
    · by_cases h2 : maxSsize < i
      · simp [h1, h2]
      · have : ((i.toNat : Nat) : Int) = i := by omega
        simp [h1, h2, initHop, this]
  | _ => simp [blocksCall, initSize]

/-- **C08.8b (default of `padval`)**: `padval` omitted is `padval = 0.` given. -/
theorem call_padval_default (dflt : α) (size hop : Num) (it : Bool) (xs : List α) (e : Ending) :
    blocksCall dflt size hop none it xs e = blocksCall dflt size hop (some dflt) it xs e := rfl

/-- **C08.8c (call shapes)**: all-positional, all-keyword (any order), and mixed calls bind the same
parameters. -/
theorem bind_forms {V : Type} (seq size hop padval : V) :
    ALV.C08.bind blocksParams 1 [seq, size, hop, padval] [] = some [some seq, some size, some hop, some padval] ∧
    ALV.C08.bind blocksParams 1 [seq] [("size", size), ("hop", hop), ("padval", padval)] =
      some [some seq, some size, some hop, some padval] ∧
    ALV.C08.bind blocksParams 1 [seq, size] [("padval", padval), ("hop", hop)] =
      some [some seq, some size, some hop, some padval] ∧
    ALV.C08.bind blocksParams 1 [] [("hop", hop), ("seq", seq), ("padval", padval), ("size", size)] =
      some [some seq, some size, some hop, some padval] := ⟨rfl, rfl, rfl, rfl⟩

/-- omitted parameters stay unbound (their defaults apply) -/
theorem bind_omitted {V : Type} (seq size padval : V) :
    ALV.C08.bind blocksParams 1 [seq] [] = some [some seq, none, none, none] ∧
    ALV.C08.bind blocksParams 1 [seq, size] [] = some [some seq, some size, none, none] ∧
    ALV.C08.bind blocksParams 1 [seq, size] [("padval", padval)] = some [some seq, some size, none, some padval] :=
  ⟨rfl, rfl, rfl⟩

/-- calls Python refuses (TypeError when the call is made): too many positional arguments, unknown
keyword, a parameter given twice, no data argument -/
theorem bind_refused {V : Type} (a b c d e : V) :
    ALV.C08.bind blocksParams 1 [a, b, c, d, e] [] = none ∧
    ALV.C08.bind blocksParams 1 [a, b] [("pad", c)] = none ∧
    ALV.C08.bind blocksParams 1 [a, b] [("size", c)] = none ∧
    ALV.C08.bind blocksParams 1 [] [("size", b)] = none := ⟨rfl, rfl, rfl, rfl⟩

/-- the written call is the call of the body with the bound parameters: positional = keyword form,
omitted `hop` / `padval` = their defaults -/
theorem apply_forms (asNum : α → Num) (asIter : α → Bool) (dflt seq size hop padval : α) (xs : List α) (e : Ending) :
    blocksApply asNum asIter dflt [seq, size, hop, padval] [] xs e =
      some (blocksCall dflt (asNum size) (asNum hop) (some padval) (asIter seq) xs e) ∧
    blocksApply asNum asIter dflt [seq] [("padval", padval), ("hop", hop), ("size", size)] xs e =
      some (blocksCall dflt (asNum size) (asNum hop) (some padval) (asIter seq) xs e) ∧
    blocksApply asNum asIter dflt [seq, size] [] xs e =
      some (blocksCall dflt (asNum size) (asNum size) (some dflt) (asIter seq) xs e) := by
  refine ⟨rfl, rfl, ?_⟩
  show some (blocksCall dflt (asNum size) .none none (asIter seq) xs e) = _
  rw [call_hop_default, call_padval_default]

/-- **"same through Stream.blocks"** for every call shape: `s.blocks(*args, **kwargs)` is
`blocks(iter(s), *args, **kwargs)`; giving `seq` again by keyword is refused. -/
theorem stream_blocks_apply (asNum : α → Num) (asIter : α → Bool) (dflt self : α) (args : List α)
    (kw : List (String × α)) (xs : List α) (e : Ending) :
    streamBlocksApply asNum asIter dflt self args kw xs e = blocksApply asNum asIter dflt (self :: args) kw xs e ∧
    streamBlocksApply asNum asIter dflt self [] [("seq", self)] xs e = none := ⟨rfl, rfl⟩

/-- **C08.9a (refused spellings of `size`)**: `None` (also: omitted), a float, a Fraction, any other
object: TypeError; negative: ValueError; above 2^63-1: OverflowError — raised when the first block is asked
for, before the source is touched (nothing pulled, no block). -/
theorem call_size_refused (dflt : α) (hop : Num) (padval : Option α) (it : Bool) (xs : List α) (e : Ending) :
    blocksCall dflt .none hop padval it xs e = ⟨[], .err .typeError, 0⟩ ∧
    (∀ q, blocksCall dflt (.flt q) hop padval it xs e = ⟨[], .err .typeError, 0⟩) ∧
    (∀ q, blocksCall dflt (.frac q) hop padval it xs e = ⟨[], .err .typeError, 0⟩) ∧
    blocksCall dflt .other hop padval it xs e = ⟨[], .err .typeError, 0⟩ ∧
    (∀ i : Int, i < 0 → blocksCall dflt (.int i) hop padval it xs e = ⟨[], .err .valueError, 0⟩) ∧
    (∀ i : Int, maxSsize < i → blocksCall dflt (.int i) hop padval it xs e = ⟨[], .err .overflowError, 0⟩) := by
  refine ⟨rfl, fun _ => rfl, fun _ => rfl, rfl, fun i hi => ?_, fun i hi => ?_⟩
  · simp [blocksCall, initSize, hi]
  · have h0 : ¬ i < 0 := by unfold maxSsize at hi; omega
    simp [blocksCall, initSize, hi, h0]

/-- **C08.9b**: a `hop` without arithmetic, or a `seq` that is not iterable: TypeError, nothing pulled. -/
theorem call_hop_seq_refused (dflt : α) (s : Nat) (hs : (s : Int) ≤ maxSsize) (hop : Num) (padval : Option α)
    (it : Bool) (xs : List α) (e : Ending) :
    blocksCall dflt (.int s) .other padval it xs e = ⟨[], .err .typeError, 0⟩ ∧
    (hop ≠ .other → blocksCall dflt (.int s) hop padval false xs e = ⟨[], .err .typeError, 0⟩) := by
  have h1 : ¬ ((s : Int) < 0) := by omega
  have h2 : ¬ (maxSsize < (s : Int)) := by omega
  have hsz : initSize (.int (s : Int)) = .ok s := by simp [initSize, h1, h2]
  refine ⟨by simp [blocksCall, hsz, initHop], fun hne => ?_⟩
  cases hop <;> simp [blocksCall, hsz, initHop] at hne ⊢

/-- the run of the base model with the flag "the index is a Python int all along" is its trace -/
theorem runOfBase_int (s h : Nat) (pad : α) (xs : List α) (e : Ending) :
    runOfBase s h true pad xs e =
      ⟨(blocksTrace s h pad xs e).events, (if (blocksTrace s h pad xs e).raised then .srcFail else .stop), xs.length⟩ := by
  cases e with
  | fail => simp [runOfBase, blocksTrace]
  | stop =>
    unfold runOfBase blocksTrace btail
    by_cases hc : (bloopEv s h (⟨[], 0⟩ : BState α) 0 xs).2.idx > max ((s : Int) - h) 0
    · simp [hc]
    · simp [hc]

/-- **C08.9c (accepted int spellings: int, bool, int subclass)**: for `size`, `hop` ints ≥ 0 the call
IS the generator of the property: its events are the trace of C08.5, it ends cleanly (or with the
source's exception), having pulled every item. -/
theorem call_int (dflt : α) (s h : Nat) (hs : (s : Int) ≤ maxSsize) (padval : Option α) (xs : List α) (e : Ending) :
    blocksCall dflt (.int s) (.int h) padval true xs e =
      ⟨(blocksTrace s h (padval.getD dflt) xs e).events,
        (if (blocksTrace s h (padval.getD dflt) xs e).raised then .srcFail else .stop), xs.length⟩ := by
  have h1 : ¬ ((s : Int) < 0) := by omega
  have h2 : ¬ (maxSsize < (s : Int)) := by omega
  rw [← runOfBase_int]
  simp [blocksCall, initSize, initHop, h1, h2, grun_int]

/-- `Trace.raised`: the exception comes out iff the source failed, and then after exactly the complete
blocks of the delivered items (no padded block) -/
theorem trace_raised (size hop : Nat) (hs : 0 < size) (hh : 0 < hop) (pad : α) (xs : List α) (e : Ending) :
    ((blocksTrace size hop pad xs e).raised = true ↔ e = .fail) ∧
    ((blocksTrace size hop pad xs e).raised = true →
      (blocksTrace size hop pad xs e).events.map Prod.snd = fullBlocks size hop xs) := by
  cases e with
  | stop => simp [blocksTrace]
  | fail =>
    refine ⟨by simp [blocksTrace], fun _ => ?_⟩
    rw [trace_fail size hop hs hh pad xs]
    simp [fullBlocks, List.map_map, Function.comp_def]

/-- the tail of the base model after the whole input, in closed form -/
theorem btail_closed (size hop : Nat) (hs : 0 < size) (hh : 0 < hop) (pad : α) (xs : List α) :
    btail size hop pad (bloopEv size hop (⟨[], 0⟩ : BState α) 0 xs).2 = tailBlock size hop pad xs := by
  have h1 := blocks_eq_closed size hop hs hh pad xs
  have h2 := blocks_prefix size hop hs hh xs
  unfold blocks at h1
  simp only at h1
  rw [h2] at h1
  rw [(bloopEv_snd size hop xs ⟨[], 0⟩ 0).2]
  exact List.append_cancel_left (h1.trans (rfl : blocksClosed size hop pad xs =
    fullBlocks size hop xs ++ tailBlock size hop pad xs))

/-- **C08.9d (float / Fraction `hop` with a whole value ≥ 1, e.g. `hop=2.0`)**: the same complete blocks at
the same moments; where the int hop would give a padded final block, the float hop gives it only when no
complete block came before (the index is still an int), otherwise `xrange` refuses the float index:
TypeError AFTER the complete blocks, when the source has ended. -/
theorem call_whole_float_hop (dflt : α) (s h : Nat) (hs0 : 0 < s) (hs : (s : Int) ≤ maxSsize) (hh : 0 < h)
    (padval : Option α) (xs : List α) :
    (∀ e, blocksCall dflt (.int s) (.flt (h : Nat)) padval true xs e =
          blocksCall dflt (.int s) (.frac (h : Nat)) padval true xs e) ∧
    blocksCall dflt (.int s) (.flt (h : Nat)) padval true xs .fail = ⟨fullEvents s h xs, .srcFail, xs.length⟩ ∧
    blocksCall dflt (.int s) (.flt (h : Nat)) padval true xs .stop =
      (match tailBlock s h (padval.getD dflt) xs with
       | [] => ⟨fullEvents s h xs, .stop, xs.length⟩
       | b :: _ =>
         if nFull s h xs.length = 0 then ⟨[(xs.length, b)], .stop, xs.length⟩
         else ⟨fullEvents s h xs, .err .typeError, xs.length⟩) := by
  have h1 : ¬ ((s : Int) < 0) := by omega
  have h2 : ¬ (maxSsize < (s : Int)) := by omega
  have c1 : ((s : Nat) : Rat) - 1 = (((s : Int) - 1 : Int) : Rat) := by
    simp [Rat.intCast_sub, Rat.intCast_natCast]
  have c2 : ((s : Nat) : Rat) - ((h : Nat) : Rat) = (((s : Int) - (h : Int) : Int) : Rat) := by
    simp [Rat.intCast_sub, Rat.intCast_natCast]
  have hrun : ∀ e, blocksCall dflt (.int s) (.flt (h : Nat)) padval true xs e =
      runOfBase s h false (padval.getD dflt) xs e := by
    intro e
    simp only [blocksCall, initSize, initHop, h1, h2, if_false, Int.toNat_natCast, Bool.not_true]
    rw [c1, c2, grun_rat, grun_int]
    simp
  have hev : (bloopEv s h (⟨[], 0⟩ : BState α) 0 xs).1 = fullEvents s h xs := events_closed s h hs0 hh xs
  refine ⟨fun e => rfl, ?_, ?_⟩
  · rw [hrun]; simp only [runOfBase, hev]
  · rw [hrun]
    simp only [runOfBase, hev, btail_closed s h hs0 hh]
    cases tailBlock s h (padval.getD dflt) xs with
    | nil => rfl
    | cons b bs =>
      simp only [Bool.or_false]
      by_cases hn : nFull s h xs.length = 0
      · simp [fullEvents, hn]
      · have : (fullEvents s h xs).isEmpty = false := by
          simp [fullEvents, hn]
        simp [this, hn]

/-- **C08.9e (`size = 0`)**: no block in the loop; one EMPTY block when the source ends, iff more than
`max(-hop, 0)` items came. -/
theorem call_size_zero (dflt : α) (h : Int) (padval : Option α) (xs : List α) :
    blocksCall dflt (.int 0) (.int h) padval true xs .fail = ⟨[], .srcFail, xs.length⟩ ∧
    blocksCall dflt (.int 0) (.int h) padval true xs .stop =
      (if -h < (xs.length : Int) ∧ 0 < xs.length then ⟨[(xs.length, [])], .stop, xs.length⟩
       else ⟨[], .stop, xs.length⟩) := by
  have hq := gloopEv_quiet 0 (-1) (-h) true xs (⟨[], 0, true⟩ : GState Int α) 0 (by simp) (by left; simp)
  have hp : pushAll 0 ([] : List α) xs = [] := by
    rw [pushAll_eq 0 xs [] (by simp)]; simp [lastSz]
  dsimp only at hq
  rw [hp] at hq
  have hcall : ∀ e, blocksCall dflt (.int 0) (.int h) padval true xs e =
      grun 0 (-1) (-h) true Int.toNat (padval.getD dflt) xs e := by
    intro e; simp [blocksCall, initSize, initHop, maxSsize]
  constructor
  · rw [hcall]; simp only [grun, hq]
  · rw [hcall]
    simp only [grun, hq, gtail, Int.zero_add]
    by_cases hc : -h < (xs.length : Int) ∧ 0 < xs.length
    · have hc' : -h < (xs.length : Int) ∧ (0 : Int) < (xs.length : Int) := ⟨hc.1, by omega⟩
      simp [hc, hc', padTo]
    · have hc' : ¬ (-h < (xs.length : Int) ∧ (0 : Int) < (xs.length : Int)) := fun hx => hc ⟨hx.1, by omega⟩
      simp [hc, hc']

/-- **C08.9f (`hop ≤ 0`)**: the loop hands out block 0 (the first `size` items `a ++ [x]`) and then NOTHING,
however many items follow (an endless source is read for ever: the `.fail` line holds for every `rest`);
when the source ends, the last `size` items come out once more iff more than `size` items came.  With the
same hop spelled as a float, that last block is refused (TypeError). -/
theorem call_hop_nonpos (dflt : α) (a : List α) (x : α) (rest : List α)
    (hs : ((a.length + 1 : Nat) : Int) ≤ maxSsize) (h : Int) (hh : h ≤ 0) (padval : Option α) :
    blocksCall dflt (.int (a.length + 1 : Nat)) (.int h) padval true (a ++ x :: rest) .fail =
      ⟨[(a.length + 1, a ++ [x])], .srcFail, (a ++ x :: rest).length⟩ ∧
    blocksCall dflt (.int (a.length + 1 : Nat)) (.int h) padval true (a ++ x :: rest) .stop =
      (if rest = [] then ⟨[(a.length + 1, a ++ [x])], .stop, (a ++ x :: rest).length⟩
       else ⟨[(a.length + 1, a ++ [x]), ((a ++ x :: rest).length, lastSz (a.length + 1) (a ++ x :: rest))],
              .stop, (a ++ x :: rest).length⟩) ∧
    blocksCall dflt (.int (a.length + 1 : Nat)) (.flt (h : Int)) padval true (a ++ x :: rest) .stop =
      (if rest = [] then ⟨[(a.length + 1, a ++ [x])], .stop, (a ++ x :: rest).length⟩
       else ⟨[(a.length + 1, a ++ [x])], .err .typeError, (a ++ x :: rest).length⟩) := by
  have h1 : ¬ (((a.length + 1 : Nat) : Int) < 0) := by omega
  have h2 : ¬ (maxSsize < ((a.length + 1 : Nat) : Int)) := by omega
  have hsz : initSize (.int ((a.length + 1 : Nat) : Int)) = .ok (a.length + 1) := by
    simp only [initSize, if_neg h1, if_neg h2, Int.toNat_natCast]
  have c1' : ∀ n : Nat, (n : Rat) - 1 = ((((n : Nat) : Int) - 1 : Int) : Rat) := by
    intro n; simp [Rat.intCast_sub, Rat.intCast_natCast]
  have c2' : ∀ n : Nat, (n : Rat) - ((h : Int) : Rat) = ((((n : Nat) : Int) - h : Int) : Rat) := by
    intro n; simp [Rat.intCast_sub, Rat.intCast_natCast]
  have c1 := c1' (a.length + 1)
  have c2 := c2' (a.length + 1)
  have hcond : ∀ n : Nat, (((a.length + 1 : Nat) : Int) - h < ((a.length + 1 : Nat) : Int) - h + (n : Int) ∧
      (0 : Int) < ((a.length + 1 : Nat) : Int) - h + (n : Int)) ↔ n ≠ 0 := by
    intro n; omega
  have hpad : ∀ n : Nat, a.length + 1 - (((a.length + 1 : Nat) : Int) - h + (n : Int)).toNat = 0 := by
    intro n; omega
  refine ⟨?_, ?_, ?_⟩
  · simp only [blocksCall, hsz, initHop, Bool.not_true, if_false, grun, gloopEv_nonpos a x rest h hh]
    simp
  · simp only [blocksCall, hsz, initHop, Bool.not_true, if_false, grun, gloopEv_nonpos a x rest h hh, gtail]
    by_cases hr : rest = []
    · subst hr; simp
    · have hn : rest.length ≠ 0 := by simpa using hr
      simp only [if_pos ((hcond rest.length).mpr hn), hpad, padTo, if_neg hr]
      simp
  · simp only [blocksCall, hsz, initHop, Bool.not_true, if_false]
    rw [c1, c2, grun_rat]
    simp only [grun, gloopEv_nonpos a x rest h hh, gtail]
    by_cases hr : rest = []
    · subst hr; simp
    · have hn : rest.length ≠ 0 := by simpa using hr
      simp only [if_pos ((hcond rest.length).mpr hn), if_neg hr]
      simp

/-- `hop ≤ 0` and fewer than `size` items: no block at all (no padded block either) -/
theorem call_hop_nonpos_short (dflt : α) (s : Nat) (hs : (s : Int) ≤ maxSsize) (h : Int) (hh : h ≤ 0)
    (padval : Option α) (xs : List α) (hx : xs.length < s) :
    blocksCall dflt (.int s) (.int h) padval true xs .stop = ⟨[], .stop, xs.length⟩ := by
  have h1 : ¬ ((s : Int) < 0) := by omega
  have h2 : ¬ (maxSsize < (s : Int)) := by omega
  have hsz : initSize (.int (s : Int)) = .ok s := by simp only [initSize, if_neg h1, if_neg h2, Int.toNat_natCast]
  have hq := gloopEv_quiet s ((s : Int) - 1) ((s : Int) - h) true xs (⟨[], 0, true⟩ : GState Int α) 0 (by simp)
    (by right; show (0 : Int) + xs.length ≤ (s : Int) - 1; omega)
  have hc : ¬ ((s : Int) - h < (0 : Int) + xs.length ∧ (0 : Int) < (0 : Int) + xs.length) := by omega
  simp only [blocksCall, hsz, initHop, Bool.not_true, if_false, grun, hq, gtail, if_neg hc]
  simp

/-! ## A caller that changes the yielded deque in ANY way (length too), operations that fail -/

/-- **C08.6b**: when `hop ≥ size` nothing the caller does to a yielded deque (append, pop, clear, …:
any change that respects `maxlen`) shows in any later block, the padded final block included. -/
theorem blocks_mut_any_hop_ge_size (size hop : Nat) (hs : 0 < size) (hge : size ≤ hop) (pad : α)
    (edit : Nat → List α → List α) (hed : ∀ k l, l.length ≤ size → (edit k l).length ≤ size)
    (xs : List α) :
    blocksMut size hop pad edit xs = blocks size hop pad xs := by
  have hh : 0 < hop := by omega
  have := bloopMut_ge size hop hs hh hge pad edit hed xs ⟨[], 0⟩ 0 (binv_init size hs)
  rw [blocks_eq_spec size hop hs hh]
  simpa [blocksMut, virt, lastN] using this

/-- the deque operations of the tie (`DqOp`: item assignment, rotate, reverse, append, appendleft, pop,
popleft, clear, extend, del, insert; a FAILED one — IndexError — leaves the deque as it was) respect
`maxlen`, so C08.6b applies to every history of them -/
theorem blocks_mut_ops_hop_ge_size (size hop : Nat) (hs : 0 < size) (hge : size ≤ hop) (pad : α)
    (ops : Nat → List (DqOp α)) (xs : List α) :
    blocksMut size hop pad (fun k => applyOps size (ops k)) xs = blocks size hop pad xs :=
  blocks_mut_any_hop_ge_size size hop hs hge pad _ (fun k l hl => applyOps_length_le size (ops k) l hl) xs

/-- a failed operation leaves no trace: the history goes on as if it had not been attempted -/
theorem failed_op_no_trace (size : Nat) (o : DqOp α) (os : List (DqOp α)) (l : List α)
    (h : o.apply size l = none) :
    applyOps size (o :: os) l = applyOps size os l ∧
    opsFailed size (o :: os) l = true :: opsFailed size os l := by
  simp [applyOps, opsFailed, h]

/-- **C08.6d (indices of either sign on the yielded deque)**: `blk[i] = v`, `del blk[i]`, `blk.insert(i, v)` with
any int `i`: a non-negative index is the operation of the same name; `-(k+1)` with `k < len` is position
`len - 1 - k`; anything outside `-len ≤ i < len` raises IndexError for item assignment / deletion (and leaves no
trace, `failed_op_no_trace`), while `insert` cuts the position to `0 .. len` and fails only on a full deque. -/
theorem neg_index_ops (size : Nat) (l : List α) (v : α) (k : Nat) :
    (DqOp.setI (k : Int) v).apply size l = (DqOp.keep (.set k v)).apply size l ∧
    (DqOp.delI (k : Int) : DqOp α).apply size l = (DqOp.del k).apply size l ∧
    (DqOp.insertI (k : Int) v).apply size l = (DqOp.insert k v).apply size l ∧
    (k < l.length →
      (DqOp.setI (-((k : Int) + 1)) v).apply size l = (DqOp.keep (.set (l.length - 1 - k) v)).apply size l ∧
      (DqOp.delI (-((k : Int) + 1)) : DqOp α).apply size l = (DqOp.del (l.length - 1 - k)).apply size l ∧
      (DqOp.insertI (-((k : Int) + 1)) v).apply size l = (DqOp.insert (l.length - 1 - k) v).apply size l) ∧
    (l.length ≤ k →
      (DqOp.setI (-((k : Int) + 1)) v).apply size l = none ∧
      (DqOp.delI (-((k : Int) + 1)) : DqOp α).apply size l = none ∧
      (DqOp.insertI (-((k : Int) + 1)) v).apply size l = (DqOp.insert 0 v).apply size l) := by
  have hk0 : (0 : Int) ≤ (k : Int) := by omega
  have hneg : ¬ ((0 : Int) ≤ -((k : Int) + 1)) := by omega
  refine ⟨?_, ?_, ?_, fun hk => ⟨?_, ?_, ?_⟩, fun hk => ⟨?_, ?_, ?_⟩⟩
  · simp only [DqOp.apply, normIdx, if_pos hk0, Int.toNat_natCast]
    split <;> simp
  · simp only [DqOp.apply, normIdx, if_pos hk0, Int.toNat_natCast]
    split <;> simp
  · simp only [DqOp.apply, insPos, if_pos hk0, Int.toNat_natCast]
  · have h1 : -(l.length : Int) ≤ -((k : Int) + 1) := by omega
    have h2 : (-((k : Int) + 1) + (l.length : Int)).toNat = l.length - 1 - k := by omega
    have h3 : l.length - 1 - k < l.length := by omega
    simp only [DqOp.apply, normIdx, if_neg hneg, if_pos h1, h2, if_pos h3, Option.map_some]
  · have h1 : -(l.length : Int) ≤ -((k : Int) + 1) := by omega
    have h2 : (-((k : Int) + 1) + (l.length : Int)).toNat = l.length - 1 - k := by omega
    have h3 : l.length - 1 - k < l.length := by omega
    simp only [DqOp.apply, normIdx, if_neg hneg, if_pos h1, h2, if_pos h3, Option.map_some]
  · have h2 : (-((k : Int) + 1) + (l.length : Int)).toNat = l.length - 1 - k := by omega
    simp only [DqOp.apply, insPos, if_neg hneg, h2]
  · have h1 : ¬ (-(l.length : Int) ≤ -((k : Int) + 1)) := by omega
    simp only [DqOp.apply, normIdx, if_neg hneg, if_neg h1, Option.map_none]
  · have h1 : ¬ (-(l.length : Int) ≤ -((k : Int) + 1)) := by omega
    simp only [DqOp.apply, normIdx, if_neg hneg, if_neg h1, Option.map_none]
  · have h2 : (-((k : Int) + 1) + (l.length : Int)).toNat = 0 := by omega
    simp only [DqOp.apply, insPos, if_neg hneg, h2]

/-- one list of failed operations per block handed out by the loop -/
theorem mut_fails_length (size hop : Nat) (ops : Nat → List (DqOp α)) (xs : List α) :
    (bloopMutFails size hop ops (⟨[], 0⟩ : BState α) 0 xs).length =
      (bloopMut size hop (fun k => applyOps size (ops k)) (⟨[], 0⟩ : BState α) 0 xs).1.length :=
  bloopMutFails_length size hop ops xs ⟨[], 0⟩ 0

/-- the length-preserving edits of C08.6 as deque operations: the same blocks (operations that do not
fail), so `blocks_mut_eq_spec` / `mut_next_block` speak about these histories -/
theorem blocks_mut_edits (size hop : Nat) (hs : 0 < size) (hh : 0 < hop) (pad : α)
    (es : Nat → List (Edit α)) (xs : List α) :
    blocksMut size hop pad (fun k => applyEdits (es k)) xs =
      mutSpec size hop pad (fun k => editsLP (es k)) 0 xs :=
  blocks_mut_eq_spec size hop hs hh pad (fun k => editsLP (es k)) xs


/-- the fields of a run with accepted int spellings: every item was pulled, the run ends cleanly iff the
source did, and the blocks of a finished source are those of C08.1 -/
theorem call_int_fields (dflt : α) (s h : Nat) (hs : (s : Int) ≤ maxSsize) (padval : Option α) (xs : List α)
    (e : Ending) :
    (blocksCall dflt (.int s) (.int h) padval true xs e).pulled = xs.length ∧
    ((blocksCall dflt (.int s) (.int h) padval true xs e).ending = .stop ↔ e = .stop) ∧
    (blocksCall dflt (.int s) (.int h) padval true xs .stop).events.map Prod.snd =
      blocks s h (padval.getD dflt) xs := by
  refine ⟨by rw [call_int dflt s h hs], ?_, ?_⟩
  · rw [call_int dflt s h hs]
    cases e <;> simp [blocksTrace]
  · rw [call_int dflt s h hs, trace_stop_blocks]

/-- `zero_pad` as written: positional = keyword form, omitted parameters = their defaults -/
theorem zero_pad_apply_forms (asNum : α → Num) (asIter : α → Bool) (dflt seq l r z : α) (xs : List α) (e : Ending) :
    zeroPadApply asNum asIter dflt [seq, l, r, z] [] xs e =
      some (zeroPadCall dflt (some (asNum l)) (some (asNum r)) (some z) (asIter seq) xs e) ∧
    zeroPadApply asNum asIter dflt [] [("zero", z), ("right", r), ("seq", seq), ("left", l)] xs e =
      some (zeroPadCall dflt (some (asNum l)) (some (asNum r)) (some z) (asIter seq) xs e) ∧
    zeroPadApply asNum asIter dflt [seq] [("right", r)] xs e =
      some (zeroPadCall dflt none (some (asNum r)) none (asIter seq) xs e) ∧
    zeroPadApply asNum asIter dflt [seq, l] [("left", l)] xs e = none ∧
    ALV.C08.bind zeroPadParams 1 [seq, l, r, z, z] [] = none := ⟨rfl, rfl, rfl, rfl, rfl⟩

/-! ## The call of `zero_pad` -/

/-- **C08.2c (defaults)**: `zero_pad(seq)` is `zero_pad(seq, 0, 0, 0.)` -/
theorem zero_pad_call_defaults (dflt : α) (it : Bool) (xs : List α) (e : Ending) :
    zeroPadCall dflt none none none it xs e =
      zeroPadCall dflt (some (.int 0)) (some (.int 0)) (some dflt) it xs e := rfl

/-- **C08.2d (int spellings ≥ 0)**: the call is the generator of C08.2b -/
theorem zero_pad_call_int (dflt : α) (l r : Nat) (z : α) (xs : List α) (e : Ending) :
    zeroPadCall dflt (some (.int l)) (some (.int r)) (some z) true xs e =
      ⟨(zeroPadTrace l r z xs e).1, if (zeroPadTrace l r z xs e).2 then .srcFail else .stop⟩ := by
  cases e <;> simp [zeroPadCall, zeroPadTrace, rangeCount]

/-- negative counts pad nothing (`xrange` of a negative number is empty) -/
theorem zero_pad_call_negative (dflt : α) (l r : Int) (hl : l ≤ 0) (hr : r ≤ 0) (z : Option α) (it : Bool)
    (xs : List α) (e : Ending) :
    zeroPadCall dflt (some (.int l)) (some (.int r)) z it xs e =
      zeroPadCall dflt (some (.int 0)) (some (.int 0)) z it xs e := by
  have h1 : l.toNat = 0 := by omega
  have h2 : r.toNat = 0 := by omega
  simp [zeroPadCall, rangeCount, h1, h2]

/-- **C08.2e (refused spellings)**: a `left` that is not an int (float, Fraction, None, other) is refused
before anything comes out or is pulled; a `right` that is not an int is refused only after the left pads
and EVERY item have come out (the output of a source that fails after its items). -/
theorem zero_pad_call_refused (dflt : α) (l : Nat) (left right : Num) (hl : ∀ i, left ≠ .int i)
    (hr : ∀ i, right ≠ .int i) (r : Option Num) (z : α) (it : Bool) (xs : List α) (e : Ending) :
    zeroPadCall dflt (some left) r (some z) it xs e = ⟨[], .err .typeError⟩ ∧
    zeroPadCall dflt (some (.int l)) (some right) (some z) true xs .stop =
      ⟨(zeroPadTrace l 0 z xs .fail).1, .err .typeError⟩ := by
  constructor
  · cases left with
    | int i => exact absurd rfl (hl i)
    | _ => rfl
  · cases right with
    | int i => exact absurd rfl (hr i)
    | _ => simp [zeroPadCall, zeroPadTrace, rangeCount]


/-- **C08.2f**: the call of `zero_pad` for EVERY spelling of `left` / `right`, every subset of defaults,
iterable or not, source ending or failing, is the table `zeroPadCallSpec` (items, read counts, ending). -/
theorem zero_pad_call_eq_spec (dflt : α) (left right : Option Num) (zero : Option α) (it : Bool)
    (xs : List α) (e : Ending) :
    (zeroPadCall dflt left right zero it xs e).out.map Prod.snd = (zeroPadCallSpec dflt left right zero it xs e).1 ∧
    (zeroPadCall dflt left right zero it xs e).out.map Prod.fst = (zeroPadCallSpec dflt left right zero it xs e).2.1 ∧
    (zeroPadCall dflt left right zero it xs e).ending = (zeroPadCallSpec dflt left right zero it xs e).2.2 := by
  have hA : List.map (fun x : Nat × α => x.snd) ((List.range xs.length).zip xs) = xs := by
    have := List.map_snd_zip (l₁ := List.range xs.length) (l₂ := xs) (by simp)
    simpa using this
  have hB : List.map (fun x : Nat × α => x.fst + 1) ((List.range xs.length).zip xs) =
      List.map (fun x => x + 1) (List.range xs.length) := by
    have := List.map_fst_zip (l₁ := List.range xs.length) (l₂ := xs) (by simp)
    calc List.map (fun x : Nat × α => x.fst + 1) ((List.range xs.length).zip xs)
        = List.map (fun x => x + 1) (List.map Prod.fst ((List.range xs.length).zip xs)) := by
          rw [List.map_map]; rfl
      _ = _ := by rw [this]
  unfold zeroPadCall zeroPadCallSpec
  cases hl : left.getD (.int 0) with
  | int l =>
    simp only [rangeCount]
    cases it with
    | false => simp
    | true =>
      cases e with
      | fail => simp [hA, hB, Function.comp_def]
      | stop =>
        cases hr : right.getD (.int 0) <;> simp [hA, hB, Function.comp_def]
  | _ => simp [rangeCount]

/-! ## The whole table of the call, and any caller of the yielded deque (closed in round 4) -/

/-- **C08.10 (the loop over exact rationals IS the table)**: for an accepted `size` and a hop of exact value
`q` — an int (`rInt = true`, then `q` is whole), a float or a Fraction (`rInt = false`) — the generic-index loop
run on `Rat` gives the rows of `hopTable`: size 0; positive whole hop = THE PROPERTY (with TypeError instead of a
padded block that follows a complete one when the hop is not an int); hop ≤ 0 or not whole = block 0 only, then
the last `size` items / TypeError at the end iff more than `max(size, hop)` items came. -/
theorem hop_table (sz : Nat) (q : Rat) (rInt : Bool) (hr : rInt = true → q.den = 1) (pad : α) (xs : List α)
    (e : Ending) :
    grun sz ((sz : Rat) - 1) ((sz : Rat) - q) rInt (fun r : Rat => r.floor.toNat) pad xs e =
      hopTable sz q rInt pad xs e := by
  by_cases hsz : sz = 0
  · exact grunQ_size_zero sz hsz q rInt pad xs e
  · have hs0 : 0 < sz := by omega
    by_cases hw : q.den = 1 ∧ 1 ≤ q.num
    · -- positive whole hop
      obtain ⟨hq, hh⟩ := whole_pos_nat q hw
      have hrun := grunQ_whole sz q.num.toNat rInt pad xs e
      rw [← hq] at hrun
      rw [hrun]
      unfold hopTable
      rw [if_neg hsz, if_pos hw]
      have hev : (bloopEv sz q.num.toNat (⟨[], 0⟩ : BState α) 0 xs).1 = fullEvents sz q.num.toNat xs :=
        events_closed sz q.num.toNat hs0 hh xs
      cases e with
      | fail => simp only [runOfBase, hev]
      | stop =>
        simp only [runOfBase, hev, btail_closed sz q.num.toNat hs0 hh]
        cases tailBlock sz q.num.toNat pad xs with
        | nil => rfl
        | cons b bs =>
          simp only [finish, if_true, Bool.or_comm]
    · -- hop ≤ 0 or not a whole number
      have hne := not_whole_pos q hw
      have hr' : rInt = true → q ≤ 0 := fun h => whole_nonpos q hw (hr h)
      unfold hopTable
      rw [if_neg hsz, if_neg hw]
      by_cases hn : xs.length < sz
      · rw [grunQ_short sz q rInt pad xs hn e]
        have : ¬ sz ≤ xs.length := by omega
        simp only [if_neg this, if_pos hn]
        cases e <;> rfl
      · obtain ⟨a, x, rest, hx, ha⟩ : ∃ a x rest, xs = a ++ x :: rest ∧ a.length + 1 = sz := by
          have hlt : sz - 1 < xs.length := by omega
          refine ⟨xs.take (sz - 1), xs[sz - 1], xs.drop sz, ?_, ?_⟩
          · have h := (List.take_append_drop (sz - 1) xs).symm
            rw [List.drop_eq_getElem_cons hlt] at h
            have e : sz - 1 + 1 = sz := by omega
            rw [e] at h
            exact h
          · simp only [List.length_take]; omega
        subst ha
        subst hx
        rw [grunQ_else_long a x rest q rInt hne hr' pad e]
        have hle : a.length + 1 ≤ (a ++ x :: rest).length := by
          simp only [List.length_append, List.length_cons]; omega
        have htake : (a ++ x :: rest).take (a.length + 1) = a ++ [x] := by
          rw [List.take_append, List.take_of_length_le (by omega)]; simp
        simp only [if_pos hle, if_neg hn, htake]
        cases e <;> rfl

/-- **C08.10b (THE WHOLE TABLE)**: the call of `blocks`, for EVERY spelling of `size` and `hop` (int / bool, float,
Fraction — whole or not, of any sign —, None, other objects), given or defaulted `padval`, iterable or not, a source
that ends or fails after any input: what comes out, when, and how it ends is `blocksCallSpec`. -/
theorem blocksCall_eq_spec (dflt : α) (size hop : Num) (padval : Option α) (it : Bool) (xs : List α) (e : Ending) :
    blocksCall dflt size hop padval it xs e = blocksCallSpec dflt size hop padval it xs e := by
  cases size with
  | int s =>
    unfold blocksCall blocksCallSpec initSize
    by_cases h1 : s < 0
    · simp only [if_pos h1]
    · by_cases h2 : maxSsize < s
      · simp only [if_neg h1, if_pos h2]
      · simp only [if_neg h1, if_neg h2]
        obtain ⟨sz, rfl⟩ : ∃ sz : Nat, s = (sz : Int) := ⟨s.toNat, by omega⟩
        simp only [Int.toNat_natCast]
        -- an int hop: the `Int` loop is the `Rat` loop at whole numbers
        have hint : ∀ h : Int, grun sz ((sz : Int) - 1) ((sz : Int) - h) true Int.toNat
            (padval.getD dflt) xs e = hopTable sz (h : Rat) true (padval.getD dflt) xs e := by
          intro h
          have c1 : ((sz : Nat) : Rat) - 1 = ((((sz : Nat) : Int) - 1 : Int) : Rat) := by
            simp [Rat.intCast_sub, Rat.intCast_natCast]
          have c2 : ((sz : Nat) : Rat) - ((h : Int) : Rat) = ((((sz : Nat) : Int) - h : Int) : Rat) := by
            simp [Rat.intCast_sub, Rat.intCast_natCast]
          rw [← grun_rat, ← c1, ← c2]
          exact hop_table sz (h : Rat) true (fun _ => Rat.den_intCast h) _ xs e
        cases hop with
        | none =>
          simp only [initHop]
          cases it with
          | false => rfl
          | true =>
            simp only [Bool.not_true, Bool.false_eq_true, if_false]
            rw [hint, Rat.intCast_natCast]
        | int h =>
          simp only [initHop, Num.val?]
          cases it with
          | false => rfl
          | true =>
            simp only [Bool.not_true, Bool.false_eq_true, if_false]
            exact hint h
        | flt q =>
          simp only [initHop, Num.val?]
          cases it with
          | false => rfl
          | true =>
            simp only [Bool.not_true, Bool.false_eq_true, if_false]
            exact hop_table sz q false (fun h => absurd h (by decide)) _ xs e
        | frac q =>
          simp only [initHop, Num.val?]
          cases it with
          | false => rfl
          | true =>
            simp only [Bool.not_true, Bool.false_eq_true, if_false]
            exact hop_table sz q false (fun h => absurd h (by decide)) _ xs e
        | fnf k =>
          simp only [initHop]
          cases it with
          | false => rfl
          | true =>
            simp only [Bool.not_true, Bool.false_eq_true, if_false]
            exact grunX_table sz k _ xs e
        | other => rfl
  | _ => rfl

/-- **C08.10c (`hop` = `float('inf')`, `float('-inf')`, `float('nan')`)**: never an error and never a second
block: block 0 when `size ≥ 1` items were pulled, then the source is read to its end (an endless one for ever)
and the run ends cleanly; when fewer than `size` items came (or `size = 0`) the padded (empty) block comes out
iff `hop = +inf` and at least one item came — `max(size - hop, 0)` is `0` for `+inf`, `+inf` for `-inf`, and
`nan` for `nan`, against which every comparison fails.  Unlike a finite non-whole float hop (`call_nonwhole_hop`)
there is no TypeError at the end: the index `±inf` / `nan` is never greater than itself. -/
theorem call_nonfinite_hop (dflt : α) (s : Nat) (hs : (s : Int) ≤ maxSsize) (k : NonFin) (padval : Option α)
    (xs : List α) (e : Ending) :
    blocksCall dflt (.int s) (.fnf k) padval true xs e = nonFinTable s k (padval.getD dflt) xs e ∧
    ((nonFinTable s k (padval.getD dflt) xs e).ending = .stop ↔ e = .stop) ∧
    (nonFinTable s k (padval.getD dflt) xs e).pulled = xs.length ∧
    (0 < s → s ≤ xs.length → (nonFinTable s k (padval.getD dflt) xs e).events = [(s, xs.take s)]) := by
  have h1 : ¬ ((s : Int) < 0) := by omega
  have h2 : ¬ (maxSsize < (s : Int)) := by omega
  refine ⟨?_, ?_, ?_, ?_⟩
  · rw [blocksCall_eq_spec]
    simp only [blocksCallSpec, if_neg h1, if_neg h2, Int.toNat_natCast, Bool.not_true, Bool.false_eq_true, if_false]
  · unfold nonFinTable finish
    cases e <;> (split <;> simp <;> split <;> simp)
  · unfold nonFinTable finish
    cases e <;> (split <;> simp <;> split <;> simp)
  · intro h0 hle
    have hz : ¬ s = 0 := by omega
    have hn : ¬ (k = .pinf ∧ 0 < xs.length ∧ xs.length < s) := by omega
    unfold nonFinTable finish
    cases e <;> simp [hz, hle, hn]

/-- the rows of the table that were open after round 3, read off `blocksCall_eq_spec`: a float / Fraction hop
that is NOT a whole number, at least `size ≥ 1` items: block 0 when `size` items were pulled, nothing more in
the loop (an endless source is read for ever), and when the source ends TypeError iff more than `max(size, hop)`
items came — otherwise a clean end.  Fewer than `size` items: the padded block iff more than `max(size - hop, 0)`
items came, as for an int hop. -/
theorem call_nonwhole_hop (dflt : α) (s : Nat) (hs0 : 0 < s) (hs : (s : Int) ≤ maxSsize) (q : Rat) (hq : q.den ≠ 1)
    (padval : Option α) (xs : List α) :
    (∀ e, blocksCall dflt (.int s) (.flt q) padval true xs e = blocksCall dflt (.int s) (.frac q) padval true xs e) ∧
    (s ≤ xs.length →
      blocksCall dflt (.int s) (.flt q) padval true xs .fail = ⟨[(s, xs.take s)], .srcFail, xs.length⟩ ∧
      blocksCall dflt (.int s) (.flt q) padval true xs .stop =
        ⟨[(s, xs.take s)], (if s < xs.length ∧ q < (xs.length : Rat) then .err .typeError else .stop), xs.length⟩) ∧
    (xs.length < s →
      blocksCall dflt (.int s) (.flt q) padval true xs .stop =
        (if max ((s : Rat) - q) 0 < (xs.length : Rat)
          then ⟨[(xs.length, xs ++ List.replicate (s - xs.length) (padval.getD dflt))], .stop, xs.length⟩
          else ⟨[], .stop, xs.length⟩)) := by
  have h1 : ¬ ((s : Int) < 0) := by omega
  have h2 : ¬ (maxSsize < (s : Int)) := by omega
  have hz : ¬ s = 0 := by omega
  have hw : ¬ (q.den = 1 ∧ 1 ≤ q.num) := fun h => hq h.1
  have hsp : ∀ e, blocksCall dflt (.int s) (.flt q) padval true xs e = hopTable s q false (padval.getD dflt) xs e := by
    intro e
    rw [blocksCall_eq_spec]
    simp only [blocksCallSpec, if_neg h1, if_neg h2, Num.val?, Int.toNat_natCast, Bool.not_true,
      Bool.false_eq_true, if_false]
  refine ⟨fun e => rfl, fun hle => ⟨?_, ?_⟩, fun hlt => ?_⟩
  · rw [hsp]; simp only [hopTable, if_neg hz, if_neg hw, if_pos hle]
  · have hn : ¬ xs.length < s := by omega
    rw [hsp]; simp only [hopTable, if_neg hz, if_neg hw, if_pos hle, if_neg hn, finish]
    by_cases hc : s < xs.length ∧ q < (xs.length : Rat)
    · rw [decide_eq_true hc, if_pos hc]; simp only [if_true, Bool.false_eq_true, if_false]
    · rw [decide_eq_false hc, if_neg hc]; simp only [Bool.false_eq_true, if_false]
  · have hn : ¬ s ≤ xs.length := by omega
    rw [hsp]; simp only [hopTable, if_neg hz, if_neg hw, if_neg hn, if_pos hlt, finish]
    by_cases hc : max ((s : Rat) - q) 0 < (xs.length : Rat)
    · rw [decide_eq_true hc, if_pos hc]; simp only [if_true, List.nil_append]
    · rw [decide_eq_false hc, if_neg hc]; simp only [Bool.false_eq_true, if_false]

/-- **C08.6c (ANY caller, `hop ≤ size`)**: whatever the caller does to the yielded deque between two blocks
(no hypothesis on `edit`: contents, length, even emptied), every block after the first is the last `size` of
what the caller left followed by the next `hop` items; a final block (what was left, the remaining `0 < r < hop`
items, `hop - r` pads, cut to `size`) iff items remain. -/
theorem blocks_mut_any_eq_spec (size hop : Nat) (hs : 0 < size) (hh : 0 < hop) (hle : hop ≤ size) (pad : α)
    (edit : Nat → List α → List α) (xs : List α) :
    blocksMut size hop pad edit xs = mutSpecG size hop pad edit xs :=
  blocksMut_eq_mutSpecG size hop hs hh hle pad edit xs

/-- the deque operations of the tie (length-changing and failing ones included), `hop ≤ size` -/
theorem blocks_mut_ops_eq_spec (size hop : Nat) (hs : 0 < size) (hh : 0 < hop) (hle : hop ≤ size) (pad : α)
    (ops : Nat → List (DqOp α)) (xs : List α) :
    blocksMut size hop pad (fun k => applyOps size (ops k)) xs =
      mutSpecG size hop pad (fun k => applyOps size (ops k)) xs :=
  blocks_mut_any_eq_spec size hop hs hh hle pad _ xs

/-- the two specifications of an editing caller agree where both apply (length-preserving edits, `hop ≤ size`):
`mutSpec` (virtual input, C08.6) and `mutSpecG` (last `size` of what was left) are the same blocks -/
theorem mutSpec_eq_mutSpecG (size hop : Nat) (hs : 0 < size) (hh : 0 < hop) (hle : hop ≤ size) (pad : α)
    (edit : Nat → LenPres α) (xs : List α) :
    mutSpec size hop pad edit 0 xs = mutSpecG size hop pad (fun k => (edit k).1) xs := by
  rw [← blocks_mut_eq_spec size hop hs hh, blocks_mut_any_eq_spec size hop hs hh hle]

/-- what a shortened deque does to the NEXT block (`hop ≤ size`, a further complete window follows): the block
holds what the caller left (at most `size` items) followed by the next `hop` items, cut to the last `size` —
after `clear()` it has only `hop` items -/
theorem mut_any_next_block (size hop : Nat) (hs : 0 < size) (hh : 0 < hop) (hle : hop ≤ size) (pad : α)
    (edit : Nat → List α → List α) (xs : List α) (hx : size + hop ≤ xs.length) :
    (blocksMut size hop pad edit xs)[1]? =
      some (lastSz size (edit 0 (xs.take size) ++ (xs.drop size).take hop)) := by
  rw [blocks_mut_any_eq_spec size hop hs hh hle]
  unfold mutSpecG
  have hn : ¬ xs.length < size := by omega
  rw [if_neg hn, mutSpecGo]
  have hc : ¬ ((xs.drop size).length < hop ∨ hop = 0) := by
    simp only [List.length_drop]; omega
  rw [dif_neg hc]
  simp

/-- non-vacuity: hypotheses satisfiable, statement about a non-trivial input -/
example : blocks 4 2 (0:Nat) [100,101,102,103,104] = [[100,101,102,103],[102,103,104,0]] := by decide
example : blocks 2 3 (9:Nat) [0,1,2,3,4] = [[0,1],[3,4]] := by decide
example : nFull 4 2 5 = 1 ∧ (0:Nat) < nFull 4 2 5 := by decide
-- a source failing after 5 items: one complete block, after 4 pulled items, no padded block
example : (blocksTrace 4 2 (0:Nat) [100,101,102,103,104] .fail).events = [(4, [100,101,102,103])] := by decide
example : (blocksTrace 4 2 (0:Nat) [100,101,102,103,104] .stop).events =
    [(4, [100,101,102,103]), (5, [102,103,104,0])] := by decide
-- the caller overwrites item 3 of block 0 with 7: it shows as item 1 of block 1 (hop = 2 < size = 4)
example : blocksMut 4 2 (0:Nat) (fun k b => if k = 0 then b.set 3 7 else b) [100,101,102,103,104,105] =
    [[100,101,102,103],[102,7,104,105]] := by decide
-- live source delivering the number of blocks handed out so far
example : blocksLive 2 1 (9:Nat) (fun _ ph => ph) 4 = [[0,0],[0,1],[1,2]] := by decide

-- the call layer: `blocks(seq, 3)` = `blocks(seq, 3, 3, 0.)`; hop=2.0 after a complete block refuses the padded one
example : (blocksCall (99:Nat) (.int 3) .none none true [1,2,3,4] .stop).events = [(3, [1,2,3]), (4, [4,99,99])] := by decide
example : (blocksCall (99:Nat) (.int (3:Nat)) (.flt (2:Nat)) none true [0,1,2,3,4,5,6,7] .stop).ending = .err .typeError ∧
    (blocksCall (99:Nat) (.int (3:Nat)) (.flt (2:Nat)) none true [0,1,2,3,4,5,6,7] .stop).events =
      [(3, [0,1,2]), (5, [2,3,4]), (7, [4,5,6])] := by
  rw [(call_whole_float_hop (99:Nat) 3 2 (by decide) (by decide) (by decide) none [0,1,2,3,4,5,6,7]).2.2]
  decide
example : (blocksCall (99:Nat) (.int (3:Nat)) (.flt (2:Nat)) none true [0,1] .stop).events = [(2, [0,1,99])] := by
  rw [(call_whole_float_hop (99:Nat) 3 2 (by decide) (by decide) (by decide) none [0,1]).2.2]
  decide
example : (blocksCall (99:Nat) (.int (-1)) (.int 1) none true [0,1] .stop).ending = .err .valueError := by decide
example : ((3:Nat):Int) ≤ maxSsize ∧ (0:Nat) < 3 := by decide
-- hop = 0: block 0, then the last `size` items when the source ends
example : (blocksCall (99:Nat) (.int 2) (.int 0) none true [0,1,2,3,4,5,6] .stop).events = [(2, [0,1]), (7, [5,6])] := by decide
-- size = 0: one empty block at the end
example : (blocksCall (99:Nat) (.int 0) .none none true [0,1,2] .stop).events = [(3, [])] := by decide
-- the caller clears block 0 (size 4, hop 2): the final block holds 2 items; with hop 4 nothing shows
example : blocksMut 4 2 (0:Nat) (fun k => applyOps 4 (if k = 0 then [DqOp.clear] else [])) [0,1,2,3,4] = [[0,1,2,3],[4,0]] := by decide
example : blocksMut 2 4 (0:Nat) (fun k => applyOps 2 (if k = 0 then [DqOp.clear, .pop] else [])) [0,1,2,3,4,5,6] =
    [[0,1],[4,5]] ∧ opsFailed 2 [DqOp.clear, .pop] [0,(1:Nat)] = [false, true] := by decide
example : (zeroPadCall (0:Nat) (some (.int 1)) (some (.flt 1)) none true [7,8] .stop).out = [(0,0),(1,7),(2,8)] ∧
    (zeroPadCall (0:Nat) (some (.int 1)) (some (.flt 1)) none true [7,8] .stop).ending = .err .typeError := ⟨rfl, rfl⟩
example : ∀ i : Int, Num.flt 1 ≠ Num.int i := by intro i h; cases h


-- round 4: the whole table.  hop = 0.5 (not whole), size 2, five items: block 0, then TypeError at the end;
-- three items and hop 3.5: a clean end (not more than max(size, hop) items); two items, size 4, hop 2.5: padded block
example : (blocksCall (99:Nat) (.int 2) (.flt (1/2)) none true [0,1,2,3,4] .stop).events = [(2, [0,1])] ∧
    (blocksCall (99:Nat) (.int 2) (.flt (1/2)) none true [0,1,2,3,4] .stop).ending = .err .typeError := by decide +kernel
example : (blocksCall (99:Nat) (.int 2) (.frac (7/2)) none true [0,1,2] .stop).ending = .stop := by decide +kernel
example : (blocksCall (99:Nat) (.int 4) (.flt (5/2)) none true [0,1] .stop).events = [(2, [0,1,99,99])] := by decide +kernel
example : (1/2 : Rat).den ≠ 1 ∧ (0:Nat) < 2 ∧ ((2:Nat):Int) ≤ maxSsize ∧ 2 ≤ [0,1,2,3,4].length := by decide +kernel
-- indices from the end: blk[-1] = 7 on block 0 (size 4, hop 2) shows as item 1 of block 1; del blk[-5] fails
example : blocksMut 4 2 (0:Nat) (fun k => applyOps 4 (if k = 0 then [DqOp.setI (-1) 7, .delI (-5)] else [])) [0,1,2,3,4,5] =
    [[0,1,2,3],[2,7,4,5]] ∧ opsFailed 4 [DqOp.setI (-1) 7, .delI (-5)] [0,1,2,(3:Nat)] = [false, true] := by decide
-- non-finite hops: size 3, hop = +inf, two items: the padded block; hop = nan: nothing; five items: block 0 only
example : (blocksCall (99:Nat) (.int 3) (.fnf .pinf) none true [0,1] .stop).events = [(2, [0,1,99])] ∧
    (blocksCall (99:Nat) (.int 3) (.fnf .nan) none true [0,1] .stop).events = [] ∧
    (blocksCall (99:Nat) (.int 3) (.fnf .ninf) none true [0,1,2,3,4] .stop).events = [(3, [0,1,2])] ∧
    (blocksCall (99:Nat) (.int 3) (.fnf .ninf) none true [0,1,2,3,4] .stop).ending = .stop := by decide +kernel
-- hypotheses of `hop_table`: an int index needs a whole hop, a float one nothing
example : (true = true → ((-3 : Int) : Rat).den = 1) ∧ (false = true → (1/2 : Rat).den = 1) := by decide +kernel
-- any caller, hop < size: three pops and an appendleft on block 0 (size 4, hop 2)
example : blocksMut 4 2 (0:Nat) (fun k => applyOps 4 (if k = 0 then [DqOp.pop, .pop, .pop, .appendleft 7] else []))
    [0,1,2,3,4,5,6] = [[0,1,2,3],[7,0,4,5],[4,5,6,0]] := by decide
example : (0:Nat) < 4 ∧ (0:Nat) < 2 ∧ 2 ≤ 4 ∧ 4 + 2 ≤ [0,1,2,3,4,5,6].length := by decide

/-! ### The model regenerated from the source

`ALV/Gen/C08Src.lean` is rewritten on every check by the translator `harness/props/c08_tr.py` from the text of
`lazy_misc.blocks` / `lazy_misc.zero_pad` in the repo under test (constants, comparisons, reset values, order of
the statements, loop selection, tail clause, defaults).  The theorems below say that what the source says NOW is the
hand-written model; with them every theorem above is a theorem about the regenerated definitions. -/

section Src
variable {ι : Type} [Add ι] [Sub ι] [LT ι] [LE ι] [DecidableEq ι]
  [DecidableRel (fun a b : ι => a < b)] [DecidableRel (fun a b : ι => a ≤ b)] [OfNat ι 0] [OfNat ι 1]

/-- **C08.T1**: the body of the `hop > size` loop as the source has it is the model's `gstep`, with
`last = size - 1` and `reinit = size - hop`, on every index type (int, exact rational, non-finite). -/
theorem src_loop2_step_is_model (maxlen : Nat) (size hop : ι) (hopInt : Bool) :
    Gen.C08.loop2_step (α := α) maxlen size hop hopInt = gstep maxlen (size - 1) (size - hop) hopInt := by
  funext s x; exact loop2_step_eq_gstep maxlen size hop hopInt s x

/-- **C08.T2**: the body of the `hop <= size` loop (no skip test) is `gstep` wherever the index is not negative … -/
theorem src_loop1_step_is_model (maxlen : Nat) (size hop : ι) (hopInt : Bool) (s : GState ι α) (x : α)
    (h : ¬ s.idx < 0) :
    Gen.C08.loop1_step maxlen size hop hopInt s x = gstep maxlen (size - 1) (size - hop) hopInt s x :=
  loop1_step_eq_gstep maxlen size hop hopInt s x h
end Src

/-- … and under the source's loop selection `hop <= size` it never is: from the base model's step
(`bstep`, the one `blocks_eq_spec` is about) both regenerated bodies are indistinguishable. -/
theorem src_step_is_bstep (size hop : Nat) (rInt : Bool) (s : GState Int α) (x : α) :
    toB (Gen.C08.loop2_step size (size : Int) (hop : Int) rInt s x).1 = (bstep size hop (toB s) x).1 ∧
    (Gen.C08.loop2_step size (size : Int) (hop : Int) rInt s x).2 = (bstep size hop (toB s) x).2 ∧
    (¬ s.idx < 0 → Gen.C08.loop1_step size (size : Int) (hop : Int) rInt s x =
      Gen.C08.loop2_step size (size : Int) (hop : Int) rInt s x) := by
  rw [loop2_step_eq_gstep]
  obtain ⟨h1, h2, _⟩ := gstep_int size hop rInt s x
  exact ⟨h1, h2, fun h => by rw [loop1_step_eq_gstep _ _ _ _ _ _ h]⟩

/-- **C08.T3**: the tail clause of the source (`idx > max(size-hop, 0)`, `xrange(idx, size)` pads, one more block) is
the model's `gtail` / `btail`. -/
theorem src_tail_is_model (size : Nat) (hop : Int) (pad : α) (s : GState Int α) :
    Gen.C08.tail size (size : Int) hop Int.toNat pad s = gtail size ((size : Int) - hop) Int.toNat pad s :=
  tail_eq_gtail size (size : Int) hop Int.toNat pad s (by intro i; unfold Py.max2; split <;> omega)

/-- **C08.T4**: the whole body of `blocks` as the source has it (start state, loop selection, both loops, tail), run to
its end on each of the three index types Python computes with, is the model's run `grun`. -/
theorem src_blocks_run_is_model (sz : Nat) (pad : α) (xs : List α) (e : Ending) :
    (∀ (h : Int) (hopInt : Bool), Gen.C08.blocks_run sz (sz : Int) h hopInt Int.toNat pad xs e =
      grun sz ((sz : Int) - 1) ((sz : Int) - h) hopInt Int.toNat pad xs e) ∧
    (∀ (q : Rat) (hopInt : Bool) (toN : Rat → Nat), Gen.C08.blocks_run sz (sz : Rat) q hopInt toN pad xs e =
      grun sz ((sz : Rat) - 1) ((sz : Rat) - q) hopInt toN pad xs e) ∧
    (∀ (k : NonFin) (hopInt : Bool), Gen.C08.blocks_run sz (XRat.fin (sz : Rat)) (XRat.ofNonFin k) hopInt XRat.toN pad xs e =
      grun sz (XRat.fin ((sz : Rat) - 1)) (XRat.sizeMinus k) hopInt XRat.toN pad xs e) :=
  ⟨fun h b => blocks_run_int sz h b pad xs e, fun q b t => blocks_run_rat sz q b t pad xs e,
   fun k b => blocks_run_nonfin sz k b pad xs e⟩

/-- **C08.T5**: the call model IS the regenerated body behind the model's refusals of `deque(maxlen=size)` /
`size - hop`, with the source's own `if hop is None: hop = size`. -/
theorem src_blocksCall_is_model (dflt : α) (size hop : Num) (padval : Option α) (it : Bool) (xs : List α) (e : Ending) :
    blocksCall dflt size hop padval it xs e = blocksCallSrc dflt size hop padval it xs e :=
  blocksCall_eq_src dflt size hop padval it xs e

theorem src_hop_default_is_model (sz : Nat) (hop : Num) :
    Gen.C08.hop_bound (.int sz) .none = .int sz ∧ (hop ≠ .none → Gen.C08.hop_bound (.int sz) hop = hop) ∧
    initHop sz (Gen.C08.hop_bound (.int sz) hop) = initHop sz hop :=
  ⟨rfl, fun h => by simp [Gen.C08.hop_bound, h], initHop_hop_bound sz hop⟩

/-- **C08.T6**: the blocks of the regenerated body, for int `size` and `hop`, are the `blocks` of the base model — the
function `blocks_eq_spec` (C08.1) is about; no hypothesis on size or hop. -/
theorem src_blocks_is_model (size hop : Nat) (pad : α) (xs : List α) :
    (Gen.C08.blocks_run size (size : Int) (hop : Int) true Int.toNat pad xs .stop).events.map Prod.snd =
      blocks size hop pad xs := by
  rw [blocks_run_int, grun_int, runOfBase_int]
  obtain ⟨h1, h2⟩ := bloopEv_snd size hop xs (⟨[], 0⟩ : BState α) 0
  simp only [blocksTrace, blocks, List.map_append, h1, h2, List.map_map]
  congr 1
  simp [Function.comp_def]

/-- hence the property itself, stated about the regenerated definition -/
theorem src_blocks_eq_spec (size hop : Nat) (hs : 0 < size) (hh : 0 < hop) (pad : α) (xs : List α) :
    (Gen.C08.blocks_run size (size : Int) (hop : Int) true Int.toNat pad xs .stop).events.map Prod.snd =
      blocksSpec size hop pad xs := by
  rw [src_blocks_is_model, blocks_eq_spec size hop hs hh]

/-- **C08.T7**: `zero_pad` as the source has it (its loops in their order) is the model. -/
theorem src_zero_pad_is_model : @Gen.C08.zero_pad α = zeroPad := by
  funext l r z xs; exact zero_pad_eq l r z xs

/-- **C08.T8**: names, order and default values of the parameters in the source are the ones the call model binds
with (`blocksParams`, `zeroPadParams`, one required parameter, `size=None, hop=None, padval=0.`, `left=0, right=0,
zero=0.`). -/
theorem src_signatures_are_model :
    Gen.C08.blocks_params.map Prod.fst = blocksParams ∧ nRequired Gen.C08.blocks_params = 1 ∧
    Gen.C08.blocks_params.map Prod.snd = [none, some .none, some .none, some (.flt 0 1)] ∧
    Gen.C08.zero_pad_params.map Prod.fst = zeroPadParams ∧ nRequired Gen.C08.zero_pad_params = 1 ∧
    Gen.C08.zero_pad_params.map Prod.snd = [none, some (.int 0), some (.int 0), some (.flt 0 1)] := by decide

-- the regenerated body runs: size 3, hop 2 / hop 4 (skip loop) / float hop 2.0 (TypeError in place of the padded block)
example : (Gen.C08.blocks_run 3 (3 : Int) 2 true Int.toNat (0:Nat) [1,2,3,4,5,6] .stop).events =
    [(3, [1,2,3]), (5, [3,4,5]), (6, [5,6,0])] := by decide
example : (Gen.C08.blocks_run 3 (3 : Int) 4 true Int.toNat (0:Nat) [1,2,3,4,5,6] .stop).events =
    [(3, [1,2,3]), (6, [5,6,0])] := by decide
example : (blocksCallSrc (0:Nat) (.int 3) (.flt 2) none true [1,2,3,4] .stop).ending = .err .typeError := by decide +kernel
example : ¬ ((⟨[], 0, true⟩ : GState Int Nat).idx < 0) := by decide

end ALV.Props.C08

#write_audit "C08"
