/-
  C08 — property theorems.  Only statements of the property, non-vacuity
  examples and the audit live here; helper lemmas are in `ALV.Lemmas.C08`.
-/
import ALV.Lemmas.C08
import ALV.Lemmas.C08Hist
import ALV.Common.Audit

namespace ALV.Props.C08
open ALV.C08
variable {α : Type}

/-- **C08.1**: the generator model of `blocks` equals the specification, for every
input length, every size ≥ 1, every hop ≥ 1 (both loops), any pad value and item type. -/
theorem blocks_eq_spec (size hop : Nat) (hs : 0 < size) (hh : 0 < hop) (pad : α) (xs : List α) :
    blocks size hop pad xs = blocksSpec size hop pad xs := by
  have inv : BInv size (⟨[], 0⟩ : BState α) := ⟨by simpa using hs, by simp, fun _ => by simp⟩
  have := bloop_spec size hop hs hh pad xs ⟨[], 0⟩ inv
  simpa [blocks, virt, lastN] using this

/-- **C08.1b**: the same in the indexed words of the property: the output is the list of the
`nFull` complete blocks `items k*hop .. k*hop+size-1` (k = 0 .. nFull-1, in order), followed by one
final padded block iff the remaining `rest = xs.drop (nFull*hop)` holds more than
`max(size-hop,0)` real items. -/
theorem blocks_eq_closed (size hop : Nat) (hs : 0 < size) (hh : 0 < hop) (pad : α) (xs : List α) :
    blocks size hop pad xs = blocksClosed size hop pad xs := by
  rw [blocks_eq_spec size hop hs hh pad xs]
  exact blocksSpec_eq_closed size hop hs hh pad xs.length xs rfl

/-- Block `k` (for every complete block) is exactly items `k*hop .. k*hop+size-1`. -/
theorem block_k (size hop : Nat) (hs : 0 < size) (hh : 0 < hop) (pad : α) (xs : List α)
    (k : Nat) (hk : k < nFull size hop xs.length) :
    (blocks size hop pad xs)[k]? = some ((xs.drop (k * hop)).take size) := by
  rw [blocks_eq_closed size hop hs hh pad xs]
  unfold blocksClosed
  simp only
  rw [List.getElem?_append_left (by simpa using hk)]
  simp [hk]

/-- The number of blocks: all complete ones, plus one iff the padded tail condition holds. -/
theorem blocks_length (size hop : Nat) (hs : 0 < size) (hh : 0 < hop) (pad : α) (xs : List α) :
    (blocks size hop pad xs).length =
      nFull size hop xs.length +
        (if ((xs.drop (nFull size hop xs.length * hop)).length : Int) > max ((size : Int) - hop) 0
          then 1 else 0) := by
  rw [blocks_eq_closed size hop hs hh pad xs]
  unfold blocksClosed
  simp only [List.length_append, List.length_map, List.length_range]
  split <;> simp

/-- every complete block has exactly `size` items -/
theorem block_k_length (size hop : Nat) (xs : List α)
    (k : Nat) (hk : k < nFull size hop xs.length) :
    ((xs.drop (k * hop)).take size).length = size := by
  unfold nFull at hk
  split at hk
  · omega
  · rename_i h
    have : k * hop ≤ xs.length - size := by
      have := Nat.div_mul_le_self (xs.length - size) hop
      have h2 : k ≤ (xs.length - size) / hop := by omega
      exact Nat.le_trans (Nat.mul_le_mul_right hop h2) this
    simp only [List.length_take, List.length_drop]
    omega

/-- **C08.2**: `zero_pad` yields exactly `left` pad items, the sequence, then `right` pad items. -/
theorem zero_pad_eq_spec (left right : Nat) (zero : α) (xs : List α) :
    zeroPad left right zero xs = List.replicate left zero ++ xs ++ List.replicate right zero := rfl

theorem zero_pad_length (left right : Nat) (zero : α) (xs : List α) :
    (zeroPad left right zero xs).length = left + xs.length + right := by
  simp [zeroPad]; omega


/-! ## Histories: prefixes and failing / observing sources, caller edits, live sources -/

/-- **C08.3 (prefix / failure statement)**: for EVERY prefix `pre` of the input, the blocks the
generator has handed out after consuming `pre` (the loop only, without the end-of-input clause) are
exactly the complete blocks of that prefix.  So a source that fails after delivering the items
`pre` has produced every complete block of `pre`, and no padded block. -/
theorem blocks_prefix (size hop : Nat) (hs : 0 < size) (hh : 0 < hop) (pre : List α) :
    (bloop size hop (⟨[], 0⟩ : BState α) pre).1 = fullBlocks size hop pre := by
  have := bloop_full size hop hs hh pre ⟨[], 0⟩ (binv_init size hs)
  simpa [virt, lastN] using this

/-- the blocks already handed out never change: the output for `pre ++ suf` starts with the
complete blocks of `pre`, whatever follows (more items, the end, a failure) -/
theorem blocks_incremental (size hop : Nat) (hs : 0 < size) (hh : 0 < hop) (pad : α)
    (pre suf : List α) :
    fullBlocks size hop pre <+: blocks size hop pad (pre ++ suf) := by
  unfold blocks
  simp only [bloop_append, blocks_prefix size hop hs hh pre, List.append_assoc]
  exact List.prefix_append _ _

/-- **C08.4 (no read-ahead)**: block `k` is handed out when exactly `k*hop + size` items have been
pulled from the source. -/
theorem reads_closed (size hop : Nat) (hs : 0 < size) (hh : 0 < hop) (xs : List α) :
    bloopReads size hop (⟨[], 0⟩ : BState α) 0 xs = readsClosed size hop xs.length := by
  rw [bloopReads_closed size hop hs hh xs ⟨[], 0⟩ 0 (by simpa using hs)]
  unfold readsClosed
  simp only [Int.sub_zero, Int.toNat_natCast, Nat.zero_add]
  apply List.map_congr_left
  intro k _
  omega

/-- events of the loop in closed form: (items pulled, block) for every complete block -/
theorem events_closed (size hop : Nat) (hs : 0 < size) (hh : 0 < hop) (xs : List α) :
    (bloopEv size hop (⟨[], 0⟩ : BState α) 0 xs).1 =
      (List.range (nFull size hop xs.length)).map
        fun k => (k * hop + size, (xs.drop (k * hop)).take size) := by
  have hz := List.zip_unzip (bloopEv size hop (⟨[], 0⟩ : BState α) 0 xs).1
  rw [List.unzip_eq_map] at hz
  rw [← hz, bloopEv_fst, (bloopEv_snd size hop xs ⟨[], 0⟩ 0).1, reads_closed size hop hs hh,
    blocks_prefix size hop hs hh]
  unfold readsClosed fullBlocks
  rw [List.zip_map']

/-- **C08.5a**: a source that delivers `xs` and then FAILS: every complete block of `xs` has been
handed out, block `k` after exactly `k*hop+size` pulled items, no padded block, and the exception
comes out. -/
theorem trace_fail (size hop : Nat) (hs : 0 < size) (hh : 0 < hop) (pad : α) (xs : List α) :
    blocksTrace size hop pad xs .fail =
      ⟨(List.range (nFull size hop xs.length)).map
        fun k => (k * hop + size, (xs.drop (k * hop)).take size), true⟩ := by
  simp only [blocksTrace, events_closed size hop hs hh xs]

/-- **C08.5b**: a source that delivers `xs` and then ENDS: the same events, then the padded final
block (iff it holds more than `max(size-hop,0)` real items) once all `|xs|` items were pulled. -/
theorem trace_stop (size hop : Nat) (hs : 0 < size) (hh : 0 < hop) (pad : α) (xs : List α) :
    blocksTrace size hop pad xs .stop =
      ⟨((List.range (nFull size hop xs.length)).map
          fun k => (k * hop + size, (xs.drop (k * hop)).take size)) ++
        (tailBlock size hop pad xs).map (fun b => (xs.length, b)), false⟩ := by
  have h1 := blocks_eq_closed size hop hs hh pad xs
  have h2 := blocks_prefix size hop hs hh xs
  unfold blocks at h1
  simp only at h1
  rw [h2] at h1
  have h3 : btail size hop pad (bloop size hop (⟨[], 0⟩ : BState α) xs).2 = tailBlock size hop pad xs :=
    List.append_cancel_left (h1.trans (rfl : blocksClosed size hop pad xs =
      fullBlocks size hop xs ++ tailBlock size hop pad xs))
  simp only [blocksTrace, events_closed size hop hs hh xs, (bloopEv_snd size hop xs ⟨[], 0⟩ 0).2, h3]

/-- the blocks of a trace that ended normally are the blocks of C08.1 -/
theorem trace_stop_blocks (size hop : Nat) (pad : α) (xs : List α) :
    (blocksTrace size hop pad xs .stop).events.map Prod.snd = blocks size hop pad xs := by
  simp only [blocksTrace, blocks, List.map_append, (bloopEv_snd size hop xs ⟨[], 0⟩ 0).1,
    (bloopEv_snd size hop xs ⟨[], 0⟩ 0).2, List.map_map]
  congr 1
  simp [Function.comp_def]

/-- **C08.6 (the yielded container is the generator's deque)**: with a caller that changes the
contents of the yielded containers (keeping their length), the blocks are those of `mutSpec`:
each block is the first `size` items of the virtual input, and the next virtual input is what the
caller LEFT of these items followed by the rest of the input, minus `hop` items. -/
theorem blocks_mut_eq_spec (size hop : Nat) (hs : 0 < size) (hh : 0 < hop) (pad : α)
    (edit : Nat → LenPres α) (xs : List α) :
    blocksMut size hop pad (fun k => (edit k).1) xs = mutSpec size hop pad edit 0 xs := by
  have := bloopMut_spec size hop hs hh pad edit xs ⟨[], 0⟩ 0 (binv_init size hs)
  simpa [blocksMut, virt, lastN] using this

/-- a caller that leaves the containers alone gets the blocks of C08.1 -/
theorem blocks_mut_id (size hop : Nat) (pad : α) (xs : List α) :
    blocksMut size hop pad (fun _ b => b) xs = blocks size hop pad xs := by
  simp only [blocksMut, blocks, bloopMut_id]

/-- when `hop ≥ size` nothing of a previous container shows in the next block, whatever the caller
did to it -/
theorem blocks_mut_hop_ge_size (size hop : Nat) (hs : 0 < size) (hge : size ≤ hop) (pad : α)
    (edit : Nat → LenPres α) (xs : List α) :
    blocksMut size hop pad (fun k => (edit k).1) xs = blocks size hop pad xs := by
  have hh : 0 < hop := by omega
  rw [blocks_mut_eq_spec size hop hs hh, blocks_eq_spec size hop hs hh]
  exact mutSpec_hop_ge size hop hs hh hge pad edit xs.length xs 0 rfl

/-- the docstring's note, wherever it applies in the run: when `hop ≤ size` and a further complete
block follows the block `b = v.take size`, that next block is what the caller left of `b` from
position `hop` on, followed by the next `hop` items of the input. -/
theorem mut_next_block (size hop : Nat) (hs : 0 < size) (hh : 0 < hop) (hle : hop ≤ size) (pad : α)
    (edit : Nat → LenPres α) (k : Nat) (v : List α) (hv : size + hop ≤ v.length) :
    (mutSpec size hop pad edit k v)[1]? =
      some (((edit k).1 (v.take size)).drop hop ++ (v.drop size).take hop) := by
  have he : ((edit k).1 (v.take size)).length = size := by
    rw [(edit k).2, List.length_take]; omega
  rw [mutSpec_step size hop hs hh pad edit k v (by omega),
    mutSpec_step size hop hs hh pad edit (k + 1) _ (by
      simp only [List.length_drop, List.length_append, he]; omega)]
  simp only [List.getElem?_cons_succ, List.getElem?_cons_zero, Option.some.injEq]
  rw [List.drop_append_of_le_length (by omega), List.take_append]
  simp only [List.length_drop, he]
  rw [List.take_of_length_le (by simp only [List.length_drop, he]; omega)]
  congr 2
  omega

/-- **C08.7 (live source, "same through Stream.blocks" for sources that follow the caller)**: when
the item pulled as number `i` depends on how many blocks had been handed out at that moment, the
blocks are those of the fixed sequence `i ↦ item i (nFull size hop i)`: nothing is read ahead. -/
theorem blocks_live (size hop : Nat) (hs : 0 < size) (hh : 0 < hop) (pad : α)
    (item : Nat → Nat → α) (n : Nat) :
    blocksLive size hop pad item n =
      blocks size hop pad ((List.range n).map fun i => item i (nFull size hop i)) := by
  have inv : LInv size hop (⟨[], 0⟩ : BState α) 0 0 :=
    ⟨by simp, by simpa using hs, fun _ => by simp, fun h => by omega⟩
  simp only [blocksLive, blocks, bloopLive_eq size hop hs hh item n _ 0 0 inv, List.range_eq_range']

/-- **C08.2b**: `zero_pad` over a source that delivers `xs` then ends / fails: `left` pads before
anything is pulled, item `j` when `j+1` items were pulled, the right pads only after a normal end. -/
theorem zero_pad_trace (left right : Nat) (zero : α) (xs : List α) :
    (zeroPadTrace left right zero xs .stop).1.map Prod.snd = zeroPad left right zero xs ∧
    (zeroPadTrace left right zero xs .stop).2 = false ∧
    (zeroPadTrace left right zero xs .fail).1.map Prod.snd = List.replicate left zero ++ xs ∧
    (zeroPadTrace left right zero xs .fail).2 = true := by
  have hm : List.map Prod.snd (List.map (fun p : Nat × α => (p.1 + 1, p.2))
      ((List.range xs.length).zip xs)) = xs := by
    rw [List.map_map]
    have : (Prod.snd ∘ fun p : Nat × α => (p.1 + 1, p.2)) = Prod.snd := rfl
    rw [this, List.map_snd_zip]
    simp
  refine ⟨?_, rfl, ?_, rfl⟩
  · simp only [zeroPadTrace, zeroPad, List.map_append, hm, List.map_map]
    simp [Function.comp_def]
  · simp only [zeroPadTrace, List.map_append, hm, List.map_map]
    simp [Function.comp_def]

/-- non-vacuity: hypotheses satisfiable, statement about a non-trivial input -/
example : blocks 4 2 (0:Nat) [100,101,102,103,104] = [[100,101,102,103],[102,103,104,0]] := by decide
example : blocks 2 3 (9:Nat) [0,1,2,3,4] = [[0,1],[3,4]] := by decide
example : nFull 4 2 5 = 1 ∧ (0:Nat) < nFull 4 2 5 := by decide
-- a source failing after 5 items: one complete block, after 4 pulled items, no padded block
example : (blocksTrace 4 2 (0:Nat) [100,101,102,103,104] .fail).events = [(4, [100,101,102,103])] := by decide
example : (blocksTrace 4 2 (0:Nat) [100,101,102,103,104] .stop).events =
    [(4, [100,101,102,103]), (5, [102,103,104,0])] := by decide
-- the caller overwrites item 3 of block 0 with 7: it shows as item 1 of block 1 (hop = 2 < size = 4)
example : blocksMut 4 2 (0:Nat) (fun k b => if k = 0 then b.set 3 7 else b) [100,101,102,103,104,105] =
    [[100,101,102,103],[102,7,104,105]] := by decide
-- live source delivering the number of blocks handed out so far
example : blocksLive 2 1 (9:Nat) (fun _ ph => ph) 4 = [[0,0],[0,1],[1,2]] := by decide

end ALV.Props.C08

#write_audit "C08"
