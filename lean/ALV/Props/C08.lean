/-
  C08 — property theorems.  Only statements of the property, non-vacuity
  examples and the audit live here; helper lemmas are in `ALV.Lemmas.C08`.
-/
import ALV.Lemmas.C08
import ALV.Common.Audit

namespace ALV.Props.C08
open ALV.C08
variable {α : Type}

/-- **C08.1**: the generator model of `blocks` equals the specification, for every
input length, every size ≥ 1, every hop ≥ 1 (both loops), any pad value and item type. -/
theorem blocks_eq_spec (size hop : Nat) (hs : 0 < size) (hh : 0 < hop) (pad : α) (xs : List α) :
    blocks size hop pad xs = blocksSpec size hop pad xs := by
  have inv : BInv size (⟨[], 0⟩ : BState α) := ⟨by simpa using hs, by simp, fun _ => by simp⟩
  have := bloop_spec size hop hs hh pad xs ⟨[], 0⟩ inv
  simpa [blocks, virt, lastN] using this

/-- **C08.1b**: the same in the indexed words of the property: the output is the list of the
`nFull` complete blocks `items k*hop .. k*hop+size-1` (k = 0 .. nFull-1, in order), followed by one
final padded block iff the remaining `rest = xs.drop (nFull*hop)` holds more than
`max(size-hop,0)` real items. -/
theorem blocks_eq_closed (size hop : Nat) (hs : 0 < size) (hh : 0 < hop) (pad : α) (xs : List α) :
    blocks size hop pad xs = blocksClosed size hop pad xs := by
  rw [blocks_eq_spec size hop hs hh pad xs]
  exact blocksSpec_eq_closed size hop hs hh pad xs.length xs rfl

/-- Block `k` (for every complete block) is exactly items `k*hop .. k*hop+size-1`. -/
theorem block_k (size hop : Nat) (hs : 0 < size) (hh : 0 < hop) (pad : α) (xs : List α)
    (k : Nat) (hk : k < nFull size hop xs.length) :
    (blocks size hop pad xs)[k]? = some ((xs.drop (k * hop)).take size) := by
  rw [blocks_eq_closed size hop hs hh pad xs]
  unfold blocksClosed
  simp only
  rw [List.getElem?_append_left (by simpa using hk)]
  simp [hk]

/-- The number of blocks: all complete ones, plus one iff the padded tail condition holds. -/
theorem blocks_length (size hop : Nat) (hs : 0 < size) (hh : 0 < hop) (pad : α) (xs : List α) :
    (blocks size hop pad xs).length =
      nFull size hop xs.length +
        (if ((xs.drop (nFull size hop xs.length * hop)).length : Int) > max ((size : Int) - hop) 0
          then 1 else 0) := by
  rw [blocks_eq_closed size hop hs hh pad xs]
  unfold blocksClosed
  simp only [List.length_append, List.length_map, List.length_range]
  split <;> simp

/-- every complete block has exactly `size` items -/
theorem block_k_length (size hop : Nat) (xs : List α)
    (k : Nat) (hk : k < nFull size hop xs.length) :
    ((xs.drop (k * hop)).take size).length = size := by
  unfold nFull at hk
  split at hk
  · omega
  · rename_i h
    have : k * hop ≤ xs.length - size := by
      have := Nat.div_mul_le_self (xs.length - size) hop
      have h2 : k ≤ (xs.length - size) / hop := by omega
      exact Nat.le_trans (Nat.mul_le_mul_right hop h2) this
    simp only [List.length_take, List.length_drop]
    omega

/-- **C08.2**: `zero_pad` yields exactly `left` pad items, the sequence, then `right` pad items. -/
theorem zero_pad_eq_spec (left right : Nat) (zero : α) (xs : List α) :
    zeroPad left right zero xs = List.replicate left zero ++ xs ++ List.replicate right zero := rfl

theorem zero_pad_length (left right : Nat) (zero : α) (xs : List α) :
    (zeroPad left right zero xs).length = left + xs.length + right := by
  simp [zeroPad]; omega

/-- non-vacuity: hypotheses satisfiable, statement about a non-trivial input -/
example : blocks 4 2 (0:Nat) [100,101,102,103,104] = [[100,101,102,103],[102,103,104,0]] := by decide
example : blocks 2 3 (9:Nat) [0,1,2,3,4] = [[0,1],[3,4]] := by decide
example : nFull 4 2 5 = 1 ∧ (0:Nat) < nFull 4 2 5 := by decide

end ALV.Props.C08

#write_audit "C08"
