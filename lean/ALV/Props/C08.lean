/-
  C08 — property theorems.  Only statements of the property, non-vacuity
  examples and the audit live here; helper lemmas are in `ALV.Lemmas.C08`.
-/
import ALV.Lemmas.C08
import ALV.Common.Audit

namespace ALV.Props.C08
open ALV.C08
variable {α : Type}

/-- **C08.1**: the generator model of `blocks` equals the specification, for every
input length, every size ≥ 1, every hop ≥ 1 (both loops), any pad value and item type. -/
theorem blocks_eq_spec (size hop : Nat) (hs : 0 < size) (hh : 0 < hop) (pad : α) (xs : List α) :
    blocks size hop pad xs = blocksSpec size hop pad xs := by
  have inv : BInv size (⟨[], 0⟩ : BState α) := ⟨by simpa using hs, by simp, fun _ => by simp⟩
  have := bloop_spec size hop hs hh pad xs ⟨[], 0⟩ inv
  simpa [blocks, virt, lastN] using this

/-- **C08.2**: `zero_pad` yields exactly `left` pad items, the sequence, then `right` pad items. -/
theorem zero_pad_eq_spec (left right : Nat) (zero : α) (xs : List α) :
    zeroPad left right zero xs = List.replicate left zero ++ xs ++ List.replicate right zero := rfl

theorem zero_pad_length (left right : Nat) (zero : α) (xs : List α) :
    (zeroPad left right zero xs).length = left + xs.length + right := by
  simp [zeroPad]; omega

/-- non-vacuity: hypotheses satisfiable, statement about a non-trivial input -/
example : blocks 4 2 (0:Nat) [100,101,102,103,104] = [[100,101,102,103],[102,103,104,0]] := by decide
example : blocks 2 3 (9:Nat) [0,1,2,3,4] = [[0,1],[3,4]] := by decide

end ALV.Props.C08

#write_audit "C08"
