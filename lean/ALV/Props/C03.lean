/-
  C03 — property theorems: a Stream behaves as a lazy sequence under any history.
  Only statements of the property, non-vacuity examples and the audit live here; the
  lemmas are in `ALV.Lemmas.C03` (next refines head/tail), `C03Step` (relation, tee hubs),
  `C03Refine` (one lemma per method); for periodic sources `C03PSeq` (eventually periodic sequences
  up to re-folding), `C03PNext` (a terminating next returns the head), `C03PStep`, `C03PRun`.

  Reading guide.  `run f st ops` is the heap-of-iterators model (fuel `f`: `none` = Python
  would not terminate); `specRun sp ops` is the immutable-list specification.  `den E it`
  is the list an iterator still has to yield; `Rel E st sp` says that every model object
  denotes the specification object with the same pool index.
-/
import ALV.Lemmas.C03Run
import ALV.Lemmas.C03Hist
import ALV.Lemmas.C03Periodic
import ALV.Lemmas.C03PRun
import ALV.Lemmas.C03PTotalRun
import ALV.Lemmas.C03Counts
import ALV.Lemmas.C03Call
import ALV.Lemmas.C03X
import ALV.Lemmas.C03XC
import ALV.Lemmas.C03Src
import ALV.Common.Audit

namespace ALV.Props.C03
open ALV.C03
variable {α : Type}

/-- **C03.1 (step)** every method, on every reachable state, does what the list model does:
same return value / exception, and the resulting states are again related.  All counts
(`None`, negative, 0, within, beyond, float, ±inf, nan), all element functions, Streams and
StreamTeeHubs alike. -/
theorem step_refines {E : List (List α)} {st : St α} {sp : SPool α} (R : Rel E st sp) (op : Op α)
    (hop : op.Fin) :
    ∃ E' F st' sp' o, (∀ f, F ≤ f → step f st op = some (st', o)) ∧ specStep sp op = some (sp', o) ∧
      Rel E' st' sp' := by
  obtain ⟨E', F, st', sp', o, S⟩ := ALV.C03.step_refines R op hop
  exact ⟨E', F, st', sp', o, S.run, S.spec, S.rel⟩

/-- **C03.1 (histories)** for every history of operations over finite sources, of any length,
starting from nothing: with enough fuel the model terminates at every step and the whole
list of observations (return values and exceptions) is the one of the list model. -/
theorem run_refines (ops : List (Op α)) (hops : ∀ op, op ∈ ops → op.Fin) :
    ∃ F, ∀ f, F ≤ f → run f St.empty ops = specRun [] ops :=
  run_refines_from rel_empty ops hops

/-- **C03.4a** `take(n)` with `n` at least the number of remaining items returns all of them,
without error, and leaves the Stream empty (the clause that defect D1 breaks in /repo). -/
theorem take_short {E : List (List α)} {h : Heap α} {it : It α} (hH : HeapOK E h) (hO : Ok h it)
    (n : Nat) (hn : (den E it).length ≤ n) :
    ∃ F h' it', (∀ f, F ≤ f → takeIt f h it (.int n) = some (h', it', .items (den E it))) ∧
      den E it' = [] := by
  obtain ⟨F, h', it', run, R⟩ := takeN_ok (n : Nat) h it hH hO
  refine ⟨F, h', it', fun f hf => ?_, by rw [R.den']; exact List.drop_eq_nil_of_le hn⟩
  simp [takeIt, takeMode, run f hf, List.take_of_length_le hn]

/-- **C03.4b** `take()` (n = None) returns the next item, or StopIteration at the end. -/
theorem take_none {E : List (List α)} {h : Heap α} {it : It α} (hH : HeapOK E h) (hO : Ok h it) :
    ∃ F h' it', (∀ f, F ≤ f → takeIt f h it .none = some (h', it',
        match den E it with | [] => .err "StopIteration" | v :: _ => .item v)) ∧
      den E it' = (den E it).tail := by
  obtain ⟨F, h', it', G⟩ := next_ok hH hO
  refine ⟨F, h', it', fun f hf => ?_, G.den'⟩
  have := next_mono_le hf G.run
  cases hd : den E it <;> simp [takeIt, takeMode, this, hd]

/-- **C03.2 independence** an operation leaves every object it does not name exactly as it was:
a Stream at another pool index still denotes the same remaining sequence, a hub still has the
same number of uses, each denoting the same sequence — whatever is consumed from its copies,
tee siblings or the other uses of its thub, in whatever order.  (`Op.touched`: the index the
method is called on and an object passed as argument; `peek` and `copy` touch nothing.) -/
theorem independent {E : List (List α)} {st : St α} {sp : SPool α} (R : Rel E st sp) (op : Op α)
    (hop : op.Fin) :
    ∃ E' F st' o, (∀ f, F ≤ f → step f st op = some (st', o)) ∧
      ∀ j, j ∉ op.touched →
        (∀ it, st.pool[j]? = some (.stream it) →
          ∃ it', st'.pool[j]? = some (.stream it') ∧ den E' it' = den E it) ∧
        (∀ uses, st.pool[j]? = some (.hub uses) →
          ∃ uses', st'.pool[j]? = some (.hub uses') ∧ uses'.length = uses.length ∧
            ∀ u', u' ∈ uses' → ∀ u, u ∈ uses → den E' u' = den E u) := by
  obtain ⟨E', F, st', sp', o, S⟩ := ALV.C03.step_refines R op hop
  refine ⟨E', F, st', o, S.run, fun j hj => ⟨fun it hit => ?_, fun uses huses => ?_⟩⟩
  · cases R.lookup j with
    | missing hp hq => rw [hp] at hit; cases hit
    | dead hp hq => rw [hp] at hit; cases hit
    | hub us q hp hq ok => rw [hp] at hit; cases hit
    | stream it0 hp hq ok =>
      rw [hp] at hit; cases hit
      have hfr := spec_frame S.spec j hj (getElem?_lt hq)
      rw [hq] at hfr
      cases S.rel.lookup j with
      | missing hp' hq' => rw [hq'] at hfr; cases hfr
      | dead hp' hq' => rw [hq'] at hfr; cases hfr
      | hub us q hp' hq' ok' => rw [hq'] at hfr; cases hfr
      | stream it' hp' hq' ok' =>
        rw [hq'] at hfr
        injection hfr with e1; injection e1 with e2; injection e2 with e3
        exact ⟨it', hp', e3⟩
  · cases R.lookup j with
    | missing hp hq => rw [hp] at huses; cases huses
    | dead hp hq => rw [hp] at huses; cases huses
    | stream it0 hp hq ok => rw [hp] at huses; cases huses
    | hub us q hp hq ok =>
      rw [hp] at huses; cases huses
      have hfr := spec_frame S.spec j hj (getElem?_lt hq)
      rw [hq] at hfr
      cases S.rel.lookup j with
      | missing hp' hq' => rw [hq'] at hfr; cases hfr
      | dead hp' hq' => rw [hq'] at hfr; cases hfr
      | stream it' hp' hq' ok' => rw [hq'] at hfr; cases hfr
      | hub us' q' hp' hq' ok' =>
        rw [hq'] at hfr
        injection hfr with e1; injection e1 with e2 e3
        refine ⟨us', hp', e3, fun u' hu' u hu => ?_⟩
        have a := (ok' u' hu').2
        have b := (ok u hu).2
        rw [e2, b] at a
        injection a with e4
        exact e4.symm

/-- **C03.2b** a copy sees the whole remaining sequence: after `copy()` the new Stream and the
original both denote what the original denoted. -/
theorem copy_whole {E : List (List α)} {st : St α} {sp : SPool α} (R : Rel E st sp) (i : Nat)
    (it : It α) (hi : st.pool[i]? = some (.stream it)) :
    ∃ E' st' a b, (∀ f, step f st (.copy i) = some (st', .new st.pool.length)) ∧
      st'.pool[i]? = some (.stream a) ∧ st'.pool[st.pool.length]? = some (.stream b) ∧
      den E' a = den E it ∧ den E' b = den E it := by
  cases R.lookup i with
  | missing hp hq => rw [hp] at hi; cases hi
  | dead hp hq => rw [hp] at hi; cases hi
  | hub us q hp hq ok => rw [hp] at hi; cases hi
  | stream it0 hp hq ok =>
    rw [hp] at hi; cases hi
    obtain ⟨hok1, ext1, okt, dent⟩ := teeOf_ok R.hok ok
    have hlt := getElem?_lt hp
    refine ⟨E ++ [den E it], ⟨st.heap ++ [⟨it, []⟩], st.pool.set i (.stream (.tee st.heap.length 0)) ++
        [.stream (.tee st.heap.length 0)]⟩, .tee st.heap.length 0, .tee st.heap.length 0,
      fun f => by simp [step, hp, teeOf], ?_, ?_, dent, dent⟩
    · simp [List.getElem?_append_left, hlt]
    · simp [List.getElem?_append_right]

/-- **C03.3c** every one of the `n` uses of a thub sees the whole sequence. -/
theorem thub_whole {E : List (List α)} {st : St α} {sp : SPool α} (R : Rel E st sp) (xs : List α) (n : Nat) :
    ∃ E' st' uses, (∀ f, step f st (.thub (.list xs) n) = some (st', .new st.pool.length)) ∧
      st'.pool[st.pool.length]? = some (.hub uses) ∧ uses.length = n ∧ ∀ u, u ∈ uses → den E' u = xs := by
  obtain ⟨hok1, ext1, okt, dent⟩ := teeOf_ok (it := .src xs) R.hok trivial
  refine ⟨E ++ [xs], ⟨st.heap ++ [⟨.src xs, []⟩], st.pool ++ [.hub (List.replicate n (.tee st.heap.length 0))]⟩,
    List.replicate n (.tee st.heap.length 0), fun f => by simp [step, mkSrc, teeOf], by simp, by simp,
    fun u hu => ?_⟩
  obtain ⟨_, rfl⟩ := List.mem_replicate.1 hu
  exact dent

/-- **C03.4c** `peek` removes nothing: no object — the peeked one included — changes its
denotation (and the value returned is the one `take` would return, by `step_refines`). -/
theorem peek_pure {E : List (List α)} {st : St α} {sp : SPool α} (R : Rel E st sp) (i : Nat) (c : Cnt) :
    ∃ E' F st' o, (∀ f, F ≤ f → step f st (.peek i c) = some (st', o)) ∧
      ∀ (j : Nat) (it : It α), st.pool[j]? = some (Obj.stream it) →
        ∃ it', st'.pool[j]? = some (Obj.stream it') ∧ den E' it' = den E it := by
  obtain ⟨E', F, st', o, run, ind⟩ := independent R (.peek i c) trivial
  exact ⟨E', F, st', o, run, fun j it hit => (ind j (by simp [Op.touched])).1 it hit⟩

/-- **C03.3a** a thub hands out exactly `n` uses: of `k` successive `Stream(hub)` requests the
first `n` produce a new Stream, every later one raises IndexError. -/
theorem thub_uses (xs : List α) (n k : Nat) :
    ∃ F, ∀ f, F ≤ f → run f St.empty (.thub (.list xs) n :: List.replicate k (.new (.obj 0))) =
      some (.new 0) :: (List.range k).map
        (fun j => some (if j < n then Obs.new (1 + j) else .err "IndexError")) := by
  obtain ⟨F, h⟩ := run_refines (α := α) (.thub (.list xs) n :: List.replicate k (.new (.obj 0)))
    (fun op hop => by
      rcases List.mem_cons.1 hop with rfl | hop
      · trivial
      · rw [List.eq_of_mem_replicate hop]; trivial)
  refine ⟨F, fun f hf => ?_⟩
  rw [h f hf]
  have := specRun_uses (⟨xs, []⟩ : LSeq α) k n []
  simp [specRun, specStep, specSrc, srcSeq] at this ⊢
  exact this

/-- **C03.3d** a thub among several arguments (`Stream(pre, hub, post)`, `s.append(pre, hub, post)`)
gives one of its uses to that call, at the call: of the `k` requests that follow, the first `n - 1`
succeed, the others raise IndexError; with no use left it is the call itself that raises.  (The
real `it.chain(*args)` asks the hub for its iterator only when the chain gets there: finding D16.) -/
theorem thub_uses_mixed (xs pre post : List α) (n k : Nat) :
    ∃ F, ∀ f, F ≤ f → run f St.empty
        (.thub (.list xs) n :: .new (.mixed pre 0 post) :: List.replicate k (.new (.obj 0))) =
      some (.new 0) :: some (if 0 < n then Obs.new 1 else .err "IndexError") :: (List.range k).map
        (fun j => some (if j + 1 < n then Obs.new (if 0 < n then 2 + j else 1 + j) else .err "IndexError")) := by
  obtain ⟨F, h⟩ := run_refines (α := α)
    (.thub (.list xs) n :: .new (.mixed pre 0 post) :: List.replicate k (.new (.obj 0)))
    (fun op hop => by
      rcases List.mem_cons.1 hop with rfl | hop
      · trivial
      rcases List.mem_cons.1 hop with rfl | hop
      · trivial
      · rw [List.eq_of_mem_replicate hop]; trivial)
  refine ⟨F, fun f hf => ?_⟩
  rw [h f hf]
  cases n with
  | zero =>
    have := specRun_uses (⟨xs, []⟩ : LSeq α) k 0 []
    simp [specRun, specStep, specSrc, srcSeq] at this ⊢
    exact this
  | succ m =>
    have := specRun_uses (⟨xs, []⟩ : LSeq α) k m [.stream (((LSeq.fin pre).append ⟨xs, []⟩).append (LSeq.fin post))]
    simp [specRun, specStep, specSrc, srcSeq] at this ⊢
    rw [this]

/-- **C03.3b** `thub` of a non-iterable is that object: nothing is created, the object comes back. -/
theorem thub_noniter (f : Nat) (st : St α) (v : α) (n : Nat) :
    step f st (.thub (.const v) n) = some (st, .const v) := rfl

/-- **C03.5a** a positive float count of `take` / `peek` is rounded to the nearest integer,
x.5 upwards (`rint`); non-positive floats, `-inf` and `nan` give 0; negative ints give 0. -/
theorem take_count_float (x : Rat) (hx : x > 0) :
    takeMode (.flt x) = .n (rintPos x).toNat ∧
      (rintPos x : Rat) - 1/2 ≤ x ∧ x < (rintPos x : Rat) + 1/2 :=
  ⟨takeMode_flt_pos x hx, rintPos_nearest x⟩

theorem take_count_nonpositive (x : Rat) (hx : x ≤ 0) (n : Int) (hn : n ≤ 0) :
    takeMode (.flt x) = .n 0 ∧ takeMode (.int n) = .n 0 ∧ takeMode .ninf = .n 0 ∧ takeMode .nan = .n 0 := by
  refine ⟨?_, ?_, rfl, rfl⟩
  · have : ¬ x > 0 := by grind
    simp [takeMode, this]
  · simp [takeMode]; omega

/-- **C03.5b** a float count of `skip` / `limit` is rounded to the nearest integer, x.5 to the
even neighbour (Python 3 `round`). -/
theorem round_count_float (x : Rat) :
    roundCount (.flt x) = .ok (roundHalfEven x).toNat ∧
      (roundHalfEven x : Rat) - 1/2 ≤ x ∧ x ≤ (roundHalfEven x : Rat) + 1/2 ∧
      ((x = (roundHalfEven x : Rat) + 1/2 ∨ x = (roundHalfEven x : Rat) - 1/2) → roundHalfEven x % 2 = 0) :=
  ⟨rfl, roundHalfEven_nearest x⟩

/-- **C03.6 (periodic sources, partial)** `take(n)` on a bare periodic Stream (`Stream(a, b, c)`,
`Stream(x)`) returns the first `n` items of the periodic sequence, for every `n`. -/
theorem periodic_take_partial (per rest : List α) (hp : per ≠ []) (h : Heap α) (n : Nat) :
    ∃ rest', takeIt 1 h (.cyc per rest) (.int n) =
      some (h, .cyc per rest', .items ((LSeq.mk rest per).take n)) := by
  obtain ⟨rest', hr⟩ := takeN_cyc per hp h n rest
  exact ⟨rest', by simp [takeIt, takeMode, hr]⟩

/-- **C03.6 (prefix lemma of the specification)** a finite read of an eventually periodic
sequence is a read of the finite list obtained by unrolling enough periods: any finite history
sees only a finite prefix of a periodic source. -/
theorem spec_take_prefix (s : LSeq α) {n m : Nat} (hm : n ≤ m) :
    s.take n = (LSeq.mk (s.unroll m) []).take n := LSeq.take_prefix s hm

/-! ### histories in which the caller owns containers (`hist`)

`hrun` interleaves the method calls with what the caller does to the containers he owns: those
handed out by take / peek / list() and the lists he builds and passes in (`HOp`). -/

/-- **C03.7 (histories with the caller's containers)** for every such history over finite sources:
every observation and the final contents of every container of the caller are those of the list
model — whatever the caller did to the containers in between, and however often he passed the
same list in. -/
theorem hist_refines (hops : List (HOp α)) (hfin : ∀ hop, hop ∈ hops → hop.Fin) :
    ∃ F, ∀ f, F ≤ f → hrun f HSt.empty hops = hspecRun ⟨[], []⟩ hops :=
  hrun_refines_from rel_empty [] hops hfin

/-- **C03.7a (what take / peek return belongs to the caller)** as long as the caller passes none
of his containers back in, nothing he does to them (clear, reverse, pop, extend, overwrite) is
seen by any stream: the method calls of the history observe exactly what they observe in the
plain history without the caller's actions.  In particular `peek` still removes nothing and
`take` still returns the first items of what remains after the caller has changed a list that
an earlier `peek` / `take` returned. -/
theorem hist_results_owned (f : Nat) (st : St α) (ls : List (List α)) (hops : List (HOp α))
    (h : ∀ hop, hop ∈ hops → hop.NoRef) :
    opObs hops (hrun f ⟨st, ls⟩ hops).1 = run f st (hops.filterMap HOp.plain) :=
  hrun_plain f st ls hops h

/-- **C03.7b (arguments are not written to)** no method call changes a container of the caller:
after any step other than the caller's own `mut`, every existing list is what it was. -/
theorem hist_lists_frame {f : Nat} {s s' : HSt α} {hop : HOp α} {o : Obs α}
    (h : hstep f s hop = some (s', o)) (hm : ∀ j m, hop ≠ .edit j m) :
    ∃ extra, s'.lists = s.lists ++ extra := hstep_lists_frame h hm

/-- **C03.7c** a mutation by the caller changes no stream, hub or tee buffer. -/
theorem hist_mut_state (f : Nat) (s : HSt α) (j : Nat) (m : Mut α) :
    ∃ s' o, hstep f s (.edit j m) = some (s', o) ∧ s'.st = s.st ∧ s'.lists.length = s.lists.length :=
  hstep_mut_state f s j m

/-- **C03.7d (a list passed in is its contents at the call)** `Stream(L)`, `x.append(L)`,
`thub(L, n)` are the operation on the literal contents `L` has when the call is made. -/
theorem hist_ref_snapshot (f : Nat) (s : HSt α) (i j n : Nat) (xs : List α) (hj : s.lists[j]? = some xs) :
    hstep f s (.newRef j) = hstep f s (.op (.new (.list xs))) ∧
    hstep f s (.appendRef i j) = hstep f s (.op (.append i (.list xs))) ∧
    hstep f s (.thubRef j n) = hstep f s (.op (.thub (.list xs) n)) := by
  simp [hstep, hj]

/-! ### every kind of source: finite lists, `Stream(1, 2, 3)` (cycle), `Stream(5)` (repeat)

For endless sources "enough fuel always exists" is false (Python itself never returns from
`list(Stream(1, 2))`, `Stream(1, 2).take(inf)` or from a `filter` that rejects a whole period), so
the refinement is stated twice: from the model's side — *whenever the model returns* (`step f … =
some`, a run without `none`), for whatever fuel `f` (`periodic_refines`) — and from the list model's
side — for the histories on which Python returns (`SpecLive`), enough fuel exists
(`periodic_total`).  `PRel false E st sp`: every model object denotes — as an
eventually periodic sequence `pden E it : LSeq`, up to re-folding of the period (`LSeq.Eqv`) — the
specification object with the same pool index; every tee hub still distributes its sequence. -/

/-- **C03.6a (the equivalence used by the relation is sound)** two representations related by
re-folding have the same first `n` items for every `n`, are both endless or both finite, and a
finite one is related only to itself. -/
theorem seq_eqv_sound {s t : LSeq α} (h : LSeq.Eqv s t) :
    (∀ n, s.take n = t.take n) ∧ s.endless = t.endless ∧ (s.per = [] → s = t) :=
  ⟨h.take, h.endless, h.fin⟩

/-- **C03.6b (step, every source)** every method, on every reachable state over finite and periodic
sources: whenever the model's step returns, the list model makes the same step — same return value
/ exception — and the resulting states are related again.  (And so: where the list model says "never
returns" — `list()` / `take(inf)` of an endless sequence — the model does not return either.) -/
theorem periodic_step_refines {E : List (LSeq α)} {st : St α} {sp : SPool α} (R : PRel false E st sp) (op : Op α)
    {f : Nat} {st' : St α} {o : Obs α} (h : step f st op = some (st', o)) :
    ∃ E' sp', specStep sp op = some (sp', o) ∧ PRel false E' st' sp' :=
  step_sound R op (opLive_false sp op) f st' o h

/-- **C03.6c (`take` / `peek` / `next` / `list()` on any iterator)** whenever `Stream.take` returns —
any count, any iterator built from finite and periodic leaves, tee outputs, map / filter / chain /
skip / limit wrappers — it returns what `specTake` returns on (any representation of) the sequence the
iterator denotes, and leaves an iterator denoting the rest. -/
theorem periodic_take_refines {E : List (LSeq α)} {f : Nat} {h : Heap α} {it : It α} {c : Cnt}
    {h' : Heap α} {it' : It α} {o : Obs α} (hr : takeIt f h it c = some (h', it', o)) (hH : PHeapOK false E h)
    (hW : WF false E h it) {s : LSeq α} (hs : LSeq.Eqv s (pden E it)) :
    ∃ s', specTake s c = some (s', o) ∧ LSeq.Eqv s' (pden E it') ∧ PHeapOK false E h' ∧ WF false E h' it' := by
  obtain ⟨s', a, b, c', d, _⟩ := takeIt_sound hr hH hW hs
  exact ⟨s', a, b, c', d⟩

/-- **C03.6 (histories over finite and periodic sources)** for every history, of any length, over a
pool whose sources may be finite lists or endless periodic streams, starting from nothing: whenever
the model terminates at every step (there is a fuel `f` for which no step runs out of fuel — no
request that Python itself would never finish), the whole list of observations (return values and
exceptions) is the one of the list model. -/
theorem periodic_refines (ops : List (Op α)) (f : Nat)
    (hterm : ∀ o, o ∈ run f (St.empty : St α) ops → o ≠ none) :
    run f (St.empty : St α) ops = specRun [] ops :=
  run_sound_from prel_empty f ops hterm

/-- **C03.6d (every history, every fuel)** without any side condition: each observation the model
makes before it runs out of fuel is the observation of the list model at the same step. -/
theorem periodic_refines_prefix (ops : List (Op α)) (f k : Nat) (o : Obs α)
    (hk : (run f (St.empty : St α) ops)[k]? = some (some o)) :
    (specRun ([] : SPool α) ops)[k]? = some (some o) :=
  run_sound_prefix prel_empty f ops k o hk

/-- **C03.6e (the fuel is irrelevant once it suffices)** two fuels for which the model terminates at
every step give the same observations. -/
theorem periodic_fuel_irrelevant (ops : List (Op α)) (f f' : Nat)
    (h : ∀ o, o ∈ run f (St.empty : St α) ops → o ≠ none)
    (h' : ∀ o, o ∈ run f' (St.empty : St α) ops → o ≠ none) :
    run f (St.empty : St α) ops = run f' (St.empty : St α) ops :=
  (periodic_refines ops f h).trans (periodic_refines ops f' h').symm

/-- **C03.6f (finite and periodic sources: enough fuel exists)** a sufficient condition for every
call to return, stated on the list model alone (`SpecLive`, decidable: `spec_live_check`): the list
model never answers "never returns" (`list()` / `take(inf)` of an endless sequence) and no `filter` is
applied to an endless sequence whose whole period it rejects.  Then, for every such history of any
length over finite and periodic sources, with enough fuel the model terminates at every step and the
whole list of observations is the one of the list model (and none of them is "never returns").
(`run_refines` states the same for finite sources, where no side condition is needed.) -/
theorem periodic_total (ops : List (Op α)) (hl : SpecLive ([] : SPool α) ops) :
    (∃ F, ∀ f, F ≤ f → run f (St.empty : St α) ops = specRun [] ops) ∧
      ∀ o, o ∈ specRun ([] : SPool α) ops → o ≠ none :=
  ⟨run_total_from prel_empty ops hl, specLive_no_none ops [] hl⟩

/-- **C03.6g** the condition of `periodic_total` is decided by the executable `specLiveB`. -/
theorem spec_live_check (sp : SPool α) (ops : List (Op α)) (h : specLiveB sp ops = true) :
    SpecLive sp ops := specLiveB_sound ops sp h

/-- **C03.6h (`take` returns)** on every iterator built from finite and periodic leaves, tee outputs
and map / filter / chain / skip / limit wrappers whose filters all sit over sequences they hit
(`WF true`), `Stream.take` returns with enough fuel for every count — `take(inf)` / `list()` when the
sequence is finite.  (What it returns: `periodic_take_refines`.) -/
theorem periodic_take_total {E : List (LSeq α)} {h : Heap α} {it : It α} (hH : PHeapOK true E h)
    (hO : WF true E h it) (c : Cnt) (hfin : takeMode c = .all → (pden E it).per = []) :
    ∃ F h' it' o, ∀ f, F ≤ f → takeIt f h it c = some (h', it', o) := takeIt_total hH hO c hfin

/-- **C03.7f (the caller's containers, finite and periodic sources: enough fuel exists)** -/
theorem hist_total (hops : List (HOp α)) (hl : HSpecLive (⟨[], []⟩ : HSp α) hops) :
    ∃ F, ∀ f, F ≤ f → hrun f (HSt.empty : HSt α) hops = hspecRun ⟨[], []⟩ hops :=
  hrun_total_from prel_empty [] hops hl

/-- **C03.7e (histories with the caller's containers, every source)** `hist_refines` over finite
and periodic sources: whenever the model terminates at every step, every observation and the final
contents of every container of the caller are those of the list model. -/
theorem hist_refines_periodic (hops : List (HOp α)) (f : Nat)
    (hterm : ∀ o, o ∈ (hrun f (HSt.empty : HSt α) hops).1 → o ≠ none) :
    hrun f (HSt.empty : HSt α) hops = hspecRun ⟨[], []⟩ hops :=
  hrun_sound_from prel_empty f [] hops hterm

/-- non-vacuity: a concrete history with a copy consumed in the other order, a short take -/
example : run 10 (St.empty : St Int)
    [.new (.list [1, 2, 3]), .copy 0, .take 0 (.int 2), .drain 1, .take 0 (.int 5), .take 0 .none]
    = [some (.new 0), some (.new 1), some (.items [1, 2]), some (.items [1, 2, 3]), some (.items [3]),
       some (.err "StopIteration")] := by decide
example : specRun ([] : SPool Int)
    [.new (.list [1, 2, 3]), .copy 0, .take 0 (.int 2), .drain 1, .take 0 (.int 5), .take 0 .none]
    = [some (.new 0), some (.new 1), some (.items [1, 2]), some (.items [1, 2, 3]), some (.items [3]),
       some (.err "StopIteration")] := by decide
/-- a thub with 2 uses, consumed in the "wrong" order, third request fails -/
example : run 10 (St.empty : St Int)
    [.thub (.list [4, 5]) 2, .new (.obj 0), .new (.obj 0), .new (.obj 0), .drain 2, .take 1 (.int 1), .drain 1]
    = [some (.new 0), some (.new 1), some (.new 2), some (.err "IndexError"), some (.items [4, 5]),
       some (.items [4]), some (.items [5])] := by decide
/-- a thub with one use among several arguments: the call takes the use, the next request fails,
    the stream yields the three parts -/
example : run 10 (St.empty : St Int)
    [.thub (.list [1, 2]) 1, .new (.mixed [0] 0 [3]), .new (.obj 0), .drain 1]
    = [some (.new 0), some (.new 1), some (.err "IndexError"), some (.items [0, 1, 2, 3])] := by decide
/-- periodic source through the model and the spec -/
example : run 10 (St.empty : St Int) [.new (.cyc [1, 2, 3]), .take 0 (.int 5), .skip 0 (.int 2), .take 0 (.int 2)]
    = [some (.new 0), some (.items [1, 2, 3, 1, 2]), some .unit, some (.items [2, 3])] := by decide
example : specRun ([] : SPool Int) [.new (.cyc [1, 2, 3]), .take 0 (.int 5), .skip 0 (.int 2), .take 0 (.int 2)]
    = [some (.new 0), some (.items [1, 2, 3, 1, 2]), some .unit, some (.items [2, 3])] := by decide
example : (Op.new (.list [1, 2, 3]) : Op Int).Fin ∧ (Op.thub (.obj 0) 2 : Op Int).Fin := ⟨trivial, trivial⟩
/-- periodic sources in a whole history (hypothesis and conclusion of `periodic_refines`): a periodic
    Stream, its copy moved into a thub with 2 uses, float / None / negative counts (`rint(2.5) = 3`,
    `round(1.5) = 2`, `round(3.5) = 4`), peek on the stream and on the hub, skip, limit, append of a
    list and of a `repeat`, a filter over a period, the third hub request failing -/
example :
    let ops : List (Op Int) :=
      [.new (.cyc [1, 2, 3]), .copy 0, .thub (.obj 1) 2, .take 0 (.flt (5/2)), .peek 0 .none,
       .skip 0 (.flt (3/2)), .take 0 .none, .new (.obj 2), .limit 3 (.flt (7/2)), .append 3 (.list [9]),
       .drain 3, .peek 2 (.int 2), .append 0 (.const 7), .take 0 (.int 4), .take 1 .none, .new (.obj 2),
       .new (.obj 2), .take 4 (.int (-2)), .filter 4 (fun x => x != 2), .take 4 (.int 3), .peek 4 (.flt (3/2))]
    let obs : List (Option (Obs Int)) :=
      [some (.new 0), some (.new 1), some (.new 2), some (.items [1, 2, 3]), some (.item 1),
       some .unit, some (.item 3), some (.new 3), some .unit, some .unit,
       some (.items [1, 2, 3, 1, 9]), some (.items [1, 2]), some .unit, some (.items [1, 2, 3, 1]),
       some (.err "noobj"), some (.new 4), some (.err "IndexError"), some (.items []), some .unit,
       some (.items [1, 3, 1]), some (.items [3, 1])]
    (∀ o, o ∈ run 12 (St.empty : St Int) ops → o ≠ none) ∧ run 12 (St.empty : St Int) ops = obs ∧
      specRun ([] : SPool Int) ops = obs ∧ specLiveB [] ops = true := by decide +kernel
/-- the side condition is needed: where Python never returns the model runs out of fuel (`none`);
    the list model says "never returns" for `list()` of an endless sequence, and treats a filter that
    rejects the whole period as an empty sequence (outside the property) -/
example : run 9 (St.empty : St Int) [.new (.cyc [1, 2]), .drain 0] = [some (.new 0), none]
    ∧ specRun ([] : SPool Int) [.new (.cyc [1, 2]), .drain 0] = [some (.new 0), none]
    ∧ run 9 (St.empty : St Int) [.new (.const 1), .filter 0 (fun x => x != 1), .take 0 .none]
        = [some (.new 0), some .unit, none]
    ∧ specRun ([] : SPool Int) [.new (.const 1), .filter 0 (fun x => x != 1), .take 0 .none]
        = [some (.new 0), some .unit, some (.err "StopIteration")]
    ∧ specLiveB ([] : SPool Int) [.new (.cyc [1, 2]), .drain 0] = false
    ∧ specLiveB ([] : SPool Int) [.new (.const 1), .filter 0 (fun x => x != 1), .take 0 .none] = false
    ∧ specLiveB ([] : SPool Int) [.new (.cyc [1, 2]), .filter 0 (fun x => x != 1), .take 0 (.int 3)] = true
    := by decide +kernel
/-- `hist` over a periodic source: the caller reverses what `take` returned and appends it again -/
example : hrun 9 (HSt.empty : HSt Int)
    [.op (.new (.cyc [1, 2])), .op (.take 0 (.int 2)), .edit 0 .reverse, .op (.limit 0 (.int 2)), .appendRef 0 0,
     .op (.drain 0)]
    = ([some (.new 0), some (.items [1, 2]), some .unit, some .unit, some .unit, some (.items [1, 2, 2, 1])],
       [[2, 1], [1, 2, 2, 1]])
    ∧ hspecRun (⟨[], []⟩ : HSp Int)
    [.op (.new (.cyc [1, 2])), .op (.take 0 (.int 2)), .edit 0 .reverse, .op (.limit 0 (.int 2)), .appendRef 0 0,
     .op (.drain 0)]
    = ([some (.new 0), some (.items [1, 2]), some .unit, some .unit, some .unit, some (.items [1, 2, 2, 1])],
       [[2, 1], [1, 2, 2, 1]]) := by decide +kernel
/-- two representations of `1 2 3 1 2 3 …` are related by re-folding -/
example : LSeq.Eqv (LSeq.mk [] [1, 2, 3]) (LSeq.mk [1] [2, 3, 1]) := .rot [] 1 [2, 3]
/-- `hist`: the caller reverses what `peek` returned, clears what `take` returned, passes the
    reversed list in twice; model and list model agree, the lists at the end are the caller's -/
example : hrun 10 (HSt.empty : HSt Int)
    [.op (.new (.list [1, 2, 3, 4, 5])), .op (.peek 0 (.int 3)), .edit 0 .reverse, .op (.take 0 (.int 2)),
     .edit 1 .clear, .appendRef 0 0, .newRef 0, .op (.drain 0), .op (.drain 1)]
    = ([some (.new 0), some (.items [1, 2, 3]), some .unit, some (.items [1, 2]), some .unit, some .unit,
        some (.new 1), some (.items [3, 4, 5, 3, 2, 1]), some (.items [3, 2, 1])],
       [[3, 2, 1], [], [3, 4, 5, 3, 2, 1], [3, 2, 1]]) := by decide
example : hspecRun (⟨[], []⟩ : HSp Int)
    [.op (.new (.list [1, 2, 3, 4, 5])), .op (.peek 0 (.int 3)), .edit 0 .reverse, .op (.take 0 (.int 2)),
     .edit 1 .clear, .appendRef 0 0, .newRef 0, .op (.drain 0), .op (.drain 1)]
    = ([some (.new 0), some (.items [1, 2, 3]), some .unit, some (.items [1, 2]), some .unit, some .unit,
        some (.new 1), some (.items [3, 4, 5, 3, 2, 1]), some (.items [3, 2, 1])],
       [[3, 2, 1], [], [3, 4, 5, 3, 2, 1], [3, 2, 1]]) := by decide
example : (HOp.op (.new (.list [1, 2])) : HOp Int).Fin ∧ (HOp.edit 0 .clear : HOp Int).NoRef ∧
    (HOp.appendRef 0 0 : HOp Int).Fin := ⟨trivial, trivial, trivial⟩
/-- the counts: `rint` rounds x.5 away from zero, `round` to even -/
example : takeMode (.flt (5/2)) = .n 3 ∧ roundHalfEven (5/2) = 2 ∧ roundHalfEven (7/2) = 4
    ∧ takeMode .nan = .n 0 ∧ takeMode (.int (-2)) = .n 0 ∧ takeMode .ninf = .n 0 := by decide +kernel

/-! ### the call layer: spellings of counts, omitted arguments, argument lists, refused calls

`crun` runs a history of *calls* (`Call`, Model/C03Call.lean): each call is elaborated as the code
handles its arguments (`elabCall`) into an operation of the history model, or is refused without
touching anything. -/

/-- **C03.8 (histories of calls, finite sources)** every history of calls — counts spelled as int,
bool, float, Fraction, ±inf, nan, None, something that is no number, or omitted; `Stream(...)` /
`append(...)` with no, one or several arguments, iterables, scalars, both; `thub` / `tee` with any
`n` — refines the list model: with enough fuel every observation (return values, exceptions) and the
caller's containers at the end are the list model's. -/
theorem call_refines (cs : List (Call α)) (hfin : ∀ c, c ∈ cs → c.Fin) :
    ∃ F, ∀ f, F ≤ f → crun f HSt.empty cs = cspecRun ⟨[], []⟩ cs :=
  crun_refines_from rel_empty [] cs hfin

/-- **C03.8a (histories of calls, every source)** whenever the model terminates at every step. -/
theorem call_refines_periodic (cs : List (Call α)) (f : Nat)
    (hterm : ∀ o, o ∈ (crun f (HSt.empty : HSt α) cs).1 → o ≠ none) :
    crun f (HSt.empty : HSt α) cs = cspecRun ⟨[], []⟩ cs :=
  crun_sound_from prel_empty f [] cs hterm

/-- **C03.9 (a failed call leaves no trace, list model)** after a call that raises — IndexError of an
exhausted hub, StopIteration of `take()` at the end, TypeError / ValueError / OverflowError of a bad
count or a bad argument list, AttributeError of `hub.take`, a missing object — every Stream denotes
what it denoted, and every hub distributes the sequence it distributed, with the same number of uses
or (when the failing method had built `Stream(hub)` first) one fewer. -/
theorem failed_call_no_trace {s s' : HSp α} {c : Call α} {e : String}
    (h : cspecStep s c = some (s', .err e)) :
    ∀ j : Nat, (∀ x, s.sp[j]? = some (SObj.stream x) → s'.sp[j]? = some (SObj.stream x)) ∧
      (∀ x u, s.sp[j]? = some (SObj.hub x u) → ∃ u', u' ≤ u ∧ u ≤ u' + 1 ∧ s'.sp[j]? = some (SObj.hub x u')) :=
  cspecStep_err_keeps h

/-- **C03.9a (a failed operation leaves no trace, heap model)** on every reachable state over finite
sources: when an operation raises, every Stream of the pool still yields exactly the remaining
sequence it would have yielded. -/
theorem failed_op_no_trace {E : List (List α)} {st : St α} {sp : SPool α} (R : Rel E st sp) (op : Op α)
    (hop : op.Fin) :
    ∃ E' F st' o, (∀ f, F ≤ f → step f st op = some (st', o)) ∧
      ∀ e, o = .err e → ∀ (j : Nat) (it : It α), st.pool[j]? = some (Obj.stream it) →
        ∃ it', st'.pool[j]? = some (Obj.stream it') ∧ den E' it' = den E it := by
  obtain ⟨E', F, st', sp', o, S⟩ := ALV.C03.step_refines R op hop
  refine ⟨E', F, st', o, S.run, fun e he j it hit => ?_⟩
  subst he
  have K := specStep_err_keeps S.spec
  cases R.lookup j with
  | missing hp hq => rw [hp] at hit; cases hit
  | dead hp hq => rw [hp] at hit; cases hit
  | hub us q hp hq ok => rw [hp] at hit; cases hit
  | stream it0 hp hq ok =>
    rw [hp] at hit; cases hit
    have hq2 := (K j).1 _ hq
    cases S.rel.lookup j with
    | missing hp' hq' => rw [hq'] at hq2; cases hq2
    | dead hp' hq' => rw [hq'] at hq2; cases hq2
    | hub us q hp' hq' ok' => rw [hq'] at hq2; cases hq2
    | stream it' hp' hq' ok' =>
      rw [hq'] at hq2
      injection hq2 with e1; injection e1 with e2; injection e2 with e3
      exact ⟨it', hp', e3⟩

/-- **C03.9b** a refused call (`elabCall c = .ret o`: a missing / ill-typed argument, a Fraction or an
int beyond `sys.maxsize` given to `take`, `Stream()`, `Stream([1], 2)`, `tee(x, 0)`, `tee(5, 3)`) changes
no Stream, no hub, no tee buffer of the heap model. -/
theorem refused_call_state (f : Nat) (s : HSt α) (c : Call α) (o : Obs α) (h : elabCall c = .ret o) :
    ∃ s', cstep f s c = some (s', o) ∧ s'.st = s.st :=
  ⟨⟨s.st, keep s.lists o⟩, by simp [cstep, h], rfl⟩

/-- **C03.10a (defaults)** `take()` is `take(None)`, `peek()` is `peek(None)`: the next item outside any
container; `skip()` / `limit()` without a count are refused (TypeError); `tee(x)` is `tee(x, 2)`. -/
theorem call_defaults (i : Nat) (d : CArg α) :
    elabCall (.take i .omitted : Call α) = elabCall (.take i (.given .none)) ∧
    elabCall (.peek i .omitted : Call α) = elabCall (.peek i (.given .none)) ∧
    elabCall (.take i .omitted : Call α) = .hop (.op (.take i .none)) ∧
    elabCall (.skip i .omitted : Call α) = .ret (.err "TypeError") ∧
    elabCall (.limit i .omitted : Call α) = .ret (.err "TypeError") ∧
    elabCall (.tee d none) = elabCall (.tee d (some (.int 2))) := ⟨rfl, rfl, rfl, rfl, rfl, rfl⟩

/-- **C03.10b (bool is an int)** `True` / `False` as a count are `1` / `0`, for every method. -/
theorem count_bool (i : Nat) (b : Bool) :
    elabCall (.take i (.given (.bool b)) : Call α) = .hop (.op (.take i (.int (if b then 1 else 0)))) ∧
    elabCall (.peek i (.given (.bool b)) : Call α) = .hop (.op (.peek i (.int (if b then 1 else 0)))) ∧
    elabCall (.skip i (.given (.bool b)) : Call α) = .hop (.op (.skip i (.int (if b then 1 else 0)))) ∧
    elabCall (.limit i (.given (.bool b)) : Call α) = .hop (.op (.limit i (.int (if b then 1 else 0)))) := by
  refine ⟨rfl, rfl, rfl, ?_⟩
  cases b <;> simp [elabCall, elabLimit, spellRound, roundedOf, maxsize]

/-- **C03.10c (Fraction)** `skip` / `limit` round a Fraction as they round a float of the same value
(half to even); `take` / `peek` refuse a non-negative Fraction (the ValueError of `itertools.islice`:
nothing is consumed) and take nothing for a negative one. -/
theorem count_fraction (i : Nat) (x : Rat) :
    elabCall (.skip i (.given (.frac x)) : Call α) = elabCall (.skip i (.given (.flt x))) ∧
    elabCall (.limit i (.given (.frac x)) : Call α) = elabCall (.limit i (.given (.flt x))) ∧
    roundCount (spellRound (.frac x)) = .ok (roundHalfEven x).toNat ∧
    (0 ≤ x → elabCall (.take i (.given (.frac x)) : Call α) = .ret (.err "ValueError")) ∧
    (x < 0 → elabCall (.take i (.given (.frac x)) : Call α) = .hop (.op (.take i (.int 0)))) := by
  refine ⟨rfl, rfl, rfl, fun h => ?_, fun h => ?_⟩
  · have : ¬ x < 0 := by grind
    simp [elabCall, elabTake, this, withCnt]
  · simp [elabCall, elabTake, h, withCnt]

/-- **C03.10d (exactly on a tie)** for a float count `k + 0.5`: `take` / `peek` (`rint`) go away from
zero, to `k + 1` — for even and odd `k`; `skip` / `limit` (`round`) go to the even neighbour. -/
theorem count_ties (k : Nat) :
    takeMode (.flt ((k : Int) + 1/2)) = .n (k + 1) ∧
    ∃ r : Int, roundCount (.flt ((k : Int) + 1/2)) = .ok r.toNat ∧ r % 2 = 0 ∧ (r = k ∨ r = k + 1) := by
  constructor
  · have hpos : ((k : Int) : Rat) + 1/2 > 0 := by
      have : (0 : Rat) ≤ ((k : Int) : Rat) := by exact_mod_cast Int.natCast_nonneg k
      grind
    rw [takeMode_flt_pos _ hpos, rint_tie]
    congr 1
  · obtain ⟨h1, h2⟩ := round_tie (k : Int)
    exact ⟨_, rfl, h1, h2⟩

/-- **C03.10e (the argument list of `Stream(...)` / `append(...)`)** no argument: TypeError; one
iterable: its items; one scalar: that scalar for ever; several iterables: one after the other;
several scalars: that period for ever; both kinds: TypeError. -/
theorem stream_args (xs ys : List α) (v w : α) :
    elabArgs ([] : List (CArg α)) = .error "TypeError" ∧
    elabArgs [.lst xs] = .ok (.list xs) ∧ elabArgs [.scalar v] = .ok (.const v) ∧
    elabArgs [.lst xs, .lst ys] = .ok (.chain [xs, ys]) ∧
    elabArgs [.scalar v, .scalar w] = .ok (.cyc [v, w]) ∧
    elabArgs [.lst xs, .scalar v] = .error "TypeError" ∧ elabArgs [.scalar v, .lst xs] = .error "TypeError" :=
  ⟨rfl, rfl, rfl, rfl, rfl, rfl, rfl⟩

/-- **C03.10f** the sequences these sources denote in the list model. -/
theorem stream_args_denote (xs ys : List α) (v w : α) :
    srcSeq (.chain [xs, ys]) = ⟨xs ++ ys, []⟩ ∧ srcSeq (.cyc [v, w]) = ⟨[], [v, w]⟩ ∧
    srcSeq (.const v) = ⟨[], [v]⟩ ∧ srcSeq (.list xs) = ⟨xs, []⟩ := by
  simp [srcSeq]

/-- **C03.10g (`thub` / `tee` of a non-iterable, any `n`)** `thub(c, n)` is `c` whatever `n` is;
`tee(c, n)` is `n` times `c` (none for `n <= 0`); `tee(x, 0)` of a Stream / hub is `()` and takes
nothing from it. -/
theorem noniter_any_n (f : Nat) (s : HSt α) (v : α) (n : NSpell) (k : Nat) (j : Nat) :
    cstep f s (.thub (.scalar v) n) = some (s, .const v) ∧
    elabCall (.tee (.scalar v) (some (.int k)) : Call α) = .ret (.items (List.replicate k v)) ∧
    elabCall (.tee (.obj j) (some (.int 0)) : Call α) = .ret (.news []) := by
  refine ⟨?_, by simp [elabCall, NSpell.toInt?], by simp [elabCall, NSpell.toInt?]⟩
  simp [cstep, elabCall, hstep, stepKeep, step, keep]

/-- non-vacuity: a history of calls with a failing call in the middle of everything: a Fraction to
    take, `append()` without arguments, `limit` beyond `sys.maxsize` on a hub (loses a use), `Stream()`,
    `thub(s, -1)`; then every live Stream still yields what the list model says -/
example :
    let cs : List (Call Int) :=
      [.stream [.lst [1, 2, 3, 4, 5, 6]], .take 0 (.given (.frac (5/2))), .take 0 (.given (.bool true)),
       .append 0 [], .skip 0 (.given (.frac (3/2))), .peek 0 .omitted, .stream [], .stream [.lst [1], .scalar 2],
       .thub (.obj 0) (.int (-1)), .thub (.obj 0) (.int 2), .limit 1 (.given (.int 9223372036854775808)),
       .tee (.obj 1) (some (.int 0)), .tee (.scalar 7) none, .take 0 (.given .other),
       .stream [.lst [0], .obj 1, .lst [9]], .plain (.op (.drain 3)), .stream [.obj 1]]
    let obs : List (Option (Obs Int)) :=
      [some (.new 0), some (.err "ValueError"), some (.items [1]), some (.err "TypeError"), some .unit,
       some (.item 4), some (.err "TypeError"), some (.err "TypeError"), some (.err "ValueError"),
       some (.new 1), some (.err "ValueError"), some (.news []), some (.items [7, 7]), some (.err "TypeError"),
       some (.new 3), some (.items [0, 4, 5, 6, 9]), some (.err "IndexError")]
    (crun 12 (HSt.empty : HSt Int) cs).1 = obs ∧ (cspecRun (⟨[], []⟩ : HSp Int) cs).1 = obs := by
  exact ⟨by decide +kernel, by decide +kernel⟩
example : (Call.take 0 (.given (.bool true)) : Call Int).Fin ∧ (Call.stream [.lst [1], .lst [2]] : Call Int).Fin ∧
    (Call.stream [] : Call Int).Fin := by
  refine ⟨fun h he => ?_, fun h he => ?_, fun h he => ?_⟩
  · simp [elabCall, elabTake, withCnt] at he; subst he; trivial
  · simp [elabCall, elabArgs, listsOf, CArg.iterable] at he; subst he; trivial
  · simp [elabCall, elabArgs] at he
/-- the ties: `take(0.5) = take(1)`, `take(2.5) = take(3)`, `skip(0.5) = skip(0)`, `skip(1.5) = skip(2)`,
    `skip(2.5) = skip(2)`; `-0.0` and negative floats take / skip nothing -/
example : takeMode (.flt (1/2)) = .n 1 ∧ takeMode (.flt (5/2)) = .n 3 ∧ takeMode (.flt (3/2)) = .n 2
    ∧ roundHalfEven (1/2) = 0 ∧ roundHalfEven (3/2) = 2 ∧ roundHalfEven (5/2) = 2
    ∧ (roundHalfEven (-1/2)).toNat = 0 ∧ (roundHalfEven (-3/2)).toNat = 0 ∧ takeMode (.flt 0) = .n 0
    ∧ takeMode (.flt (-5/2)) = .n 0 := by decide +kernel

/-! ### element functions and sources that raise in the middle of a stream (Model/C03X.lean)

`xnext` has three outcomes (item / StopIteration / another exception); `map`, `filter`, `chain`, `tee` go
on after an exception (so do `s.attr` / `s(...)`: a `map` object), `islice` (`limit`) and the generator of `skip`
are finished by it;
`take(n)` raises it and the Stream goes on behind the raising position.  The list model becomes a list
of *events* (`Ev`: an item or the exception raised at that position). -/

/-- **C03.11a (`next` with exceptions)** on every iterator built from raising sources, `map` / `filter` /
`chain` / `islice` / `skipper` wrappers (no tee leaves): whenever `next` returns, it delivers the
head event of the denotation — the item, the exception, or StopIteration for the empty one — touches no
tee buffer and leaves an iterator denoting the tail.  In particular after an exception the following
`next` goes on with the next event of the (wrapper-specific: `mapE`, `filterE`, `limE`, `skipE`)
event list. -/
theorem raise_next {f : Nat} {h h' : XHeap α} {it it' : XIt α} {r : Res α} (ht : it.teeFree = true)
    (hx : xnext f h it = some (h', it', r)) :
    h' = h ∧ it'.teeFree = true ∧
      (match r with
        | .stop => xden it = [] ∧ xden it' = []
        | .item v => xden it = .ok v :: xden it'
        | .raise e => xden it = .error e :: xden it') := by
  obtain ⟨a, b, c⟩ := xnext_sound f h it h' it' r ht hx
  refine ⟨a, b, ?_⟩
  cases r <;> exact c

/-- **C03.11b (`take` with exceptions)** `take(n)` / `take()` / `take(inf)`: whenever it returns, it returns
`specTakeX` of the events: the first `n` items when none of the first `n` events raises, otherwise the
first exception — and then the Stream goes on right behind the raising position (the items pulled
before it are lost). -/
theorem raise_take {f : Nat} {h : XHeap α} {it : XIt α} {c : Cnt} {h' : XHeap α} {it' : XIt α} {o : Obs α}
    (ht : it.teeFree = true) (hx : xtakeIt f h it c = some (h', it', o)) :
    h' = h ∧ it'.teeFree = true ∧ specTakeX (xden it) c = (xden it', o) := xtakeIt_sound ht hx

/-- **C03.11c (histories with exceptions, no copies)** for every history of new / take / next / list() /
skip / limit / append / map / filter / `s.attr` over sources and element functions that raise anywhere,
of any length: whenever the model terminates at every step, the whole list of observations is the one
of the event-list model. -/
theorem raise_history (ops : List (XOp α)) (f : Nat) (hops : ∀ op, op ∈ ops → op.teeFree = true)
    (hterm : ∀ o, o ∈ xrun f (XSt.empty : XSt α) ops → o ≠ none) :
    xrun f (XSt.empty : XSt α) ops = xspecRun [] ops :=
  xrun_sound f ops XSt.empty (fun _ h => by simp [XSt.empty] at h) hops hterm

/-- **C03.11d (nothing raises: the list model)** on sequences without raising positions and with element
functions that never raise, the event functions are the list functions of the list model: `map`,
`filter`, `take` / `limit`, `drop` / `skip`; `take(n)` returns the first `n` items and leaves the rest. -/
theorem raise_free_is_list_model (f : α → α) (p : α → Bool) (n : Nat) (xs : List α) :
    mapE (fun v => .ok (f v)) (okList xs) = okList (xs.map f) ∧
    filterE (fun v => .ok (p v)) (okList xs) = okList (xs.filter p) ∧
    limE n (okList xs) = okList (xs.take n) ∧ skipE n (okList xs) = okList (xs.drop n) ∧
    takeE n (okList xs) = (.ok (xs.take n), okList (xs.drop n)) :=
  ⟨mapE_ok f xs, filterE_ok p xs, limE_ok n xs, skipE_ok n xs, takeE_ok n xs⟩

/-- **C03.11e (tee does not store an exception)** an exception coming out of the source of a tee is
handed to the copy that asked; buffer and position of that copy are unchanged, only the source has moved
on — so every other copy (and the Stream itself after a `peek`) goes straight to the next item. -/
theorem raise_tee_once {f : Nat} {h h' : XHeap α} {k : Nat} {parent p' : XIt α} {buf : List α} {e : String}
    (hk : h[k]? = some ⟨parent, buf⟩) (hp : xnext f h parent = some (h', p', .raise e)) :
    xnext (f + 1) h (.tee k buf.length) = some (h'.set k ⟨p', buf⟩, .tee k buf.length, .raise e) :=
  tee_raise_not_stored hk hp

/-- **C03.11f (histories with exceptions AND copies)** — was `raise_history_with_copies_PENDING`.  For
every history of new / take / next / list() / skip / limit / append / map / filter / `s.attr` / `copy` /
`peek`, of any length, over sources and element functions that raise anywhere: whenever the heap model
terminates at every step, the whole list of observations is the one of the specification
`Spec/C03XC.lean` — a Stream is a list of events (`evs`; every method is the list function of C03.11c)
wherever nothing below it is shared; a copy / `peek` turns what the Stream denoted into a shared
sequence (`SHub`: what it still has to deliver, and the ITEMS delivered so far) read through `view`s; a
view behind the front reads the stored item, the view at the front takes the head event for everybody:
an item is stored, an exception goes to that view alone and is gone. -/
theorem raise_history_with_copies (ops : List (XOp α)) (f : Nat)
    (hterm : ∀ o, o ∈ xrun f (XSt.empty : XSt α) ops → o ≠ none) :
    xrun f (XSt.empty : XSt α) ops = srun f (SSt.empty : SSt α) ops :=
  srun_abs f ops XSt.empty hterm

/-- **C03.11g (one step, any state)** the same for one operation from any state of the heap model:
`XSt.abs` replaces every iterator without tee leaves — in the pool, under a wrapper, as the source of
a tee — by the list of events it denotes. -/
theorem raise_step_with_copies {f : Nat} {st st' : XSt α} {op : XOp α} {o : Obs α}
    (hx : xstep f st op = some (st', o)) : sstep f st.abs op = some (st'.abs, o) := sstep_abs hx

/-- **C03.11h (the specification with copies extends the one without)** on histories without `copy` /
`peek` the specification with copies makes the observations of the event-list model of C03.11c (whenever
the heap model terminates). -/
theorem raise_copies_conservative (ops : List (XOp α)) (f : Nat) (hops : ∀ op, op ∈ ops → op.teeFree = true)
    (hterm : ∀ o, o ∈ xrun f (XSt.empty : XSt α) ops → o ≠ none) :
    srun f (SSt.empty : SSt α) ops = xspecRun [] ops := by
  rw [← raise_history_with_copies ops f hterm]; exact raise_history ops f hops hterm

/-- **C03.11i (an exception of a shared sequence is delivered once; items to everybody)** a reader `pos` items
behind the start of a shared sequence whose source is a list of events `L` (nothing shared below it; `buf`:
the items delivered so far) has `viewOf L buf pos` in front of it — the stored items it has not read, then
`L`.  `next` on it delivers the head of that view (StopIteration for the empty one) and leaves the tail.
When it is an item (or StopIteration) the view of EVERY reader `q` of that sequence is unchanged — copies
are independent, whatever the order of consumption.  An exception can only be met at the front
(`pos = buf.length`); it is removed from the shared list and nothing is stored: the view of every other
reader, `viewOf (error e :: L') buf q`, becomes `viewOf L' buf q` — its old view with that one event
erased. -/
theorem raise_shared_once (f : Nat) {H : SHeap α} {k : Nat} {L : List (Ev α)} {buf : List α} {pos : Nat}
    (hk : H[k]? = some ⟨.evs L, buf⟩) (hp : pos ≤ buf.length) :
    ∃ (L' : List (Ev α)) (buf' : List α) (pos' : Nat) (r : Res α),
      snext (f + 2) H (.view k pos) = some (H.set k ⟨.evs L', buf'⟩, .view k pos', r) ∧ pos' ≤ buf'.length ∧
      (match r with
        | .stop => viewOf L buf pos = [] ∧ viewOf L' buf' pos' = [] ∧
            ∀ q, q ≤ buf.length → viewOf L' buf' q = viewOf L buf q
        | .item v => viewOf L buf pos = .ok v :: viewOf L' buf' pos' ∧
            ∀ q, q ≤ buf.length → viewOf L' buf' q = viewOf L buf q
        | .raise e => viewOf L buf pos = .error e :: viewOf L' buf' pos' ∧
            pos = buf.length ∧ buf' = buf ∧ L = .error e :: L') := by
  obtain ⟨L', buf', pos', r, h1, h2, h3, h4⟩ := shared_next f hk hp
  refine ⟨L', buf', pos', r, h1, h2, ?_⟩
  cases r with
  | stop => exact ⟨h3.1, h3.2, h4⟩
  | item v => exact ⟨h3, h4⟩
  | raise e => exact ⟨h3, h4⟩

/-- non-vacuity of C03.11i: two readers of one shared sequence `[1, KeyError, 3]`, one item delivered:
    the reader at the front gets the exception, the one behind never sees it -/
example :
    let H : SHeap Int := [⟨.evs [.error "KeyError", .ok 3], [1]⟩]
    H[0]? = some ⟨.evs [.error "KeyError", .ok 3], [1]⟩ ∧ (1 : Nat) ≤ [1].length ∧
    snext 2 H (.view 0 1) = some ([⟨.evs [.ok 3], [1]⟩], .view 0 1, .raise "KeyError") ∧
    viewOf [.error "KeyError", .ok 3] [(1 : Int)] 0 = [.ok 1, .error "KeyError", .ok 3] ∧
    viewOf [.ok 3] [(1 : Int)] 0 = [.ok 1, .ok 3] := ⟨rfl, by decide, rfl, rfl, rfl⟩

/-- **C03.11j (`skip` with a count that `int(round(n))` refuses)** `s.skip(inf)` / `skip(-inf)` (OverflowError),
`skip(nan)` (ValueError), `skip(None)` (TypeError): the CALL succeeds and returns `self` for every count —
`int(round(n))` is evaluated lazily, inside the generator; no tee buffer is touched (a copy made before
keeps everything); the first read of the Stream raises that error, after it the Stream is empty. -/
theorem skip_refused_lazy (f : Nat) (st : XSt α) (i : Nat) (it : XIt α) (c : Cnt) (e : String)
    (hi : st.pool[i]? = some (some it)) (hc : roundCount c = .error e) :
    ∃ st' : XSt α, xstep f st (xskipOf i c) = some (st', .unit) ∧ st'.heap = st.heap ∧
      (∀ j, j ≠ i → st'.pool[j]? = st.pool[j]?) ∧
      xrun (f + 1) st' [.next i, .next i, .take i (.int 3)] =
        [some (.err e), some (.err "StopIteration"), some (.items [])] := by
  refine ⟨⟨st.heap, st.pool.set i (some (.src [.error e]))⟩, ?_, rfl, ?_, ?_⟩
  · simp [xskipOf, hc, xstep, hi]
  · intro j hj; simp [List.getElem?_set, Ne.symm hj]
  · have hlt : i < st.pool.length := (List.getElem?_eq_some_iff.1 hi).1
    simp [xrun, xstep, xtakeIt, takeMode, xnext, xtakeN, obsOf, hlt]

/-- the refused counts and their errors; every other count is accepted and rounded half-to-even -/
theorem skip_refused_kinds :
    roundCount .inf = .error "OverflowError" ∧ roundCount .ninf = .error "OverflowError" ∧
    roundCount .nan = .error "ValueError" ∧ roundCount .none = .error "TypeError" ∧
    (∀ n : Int, (xskipOf 0 (.int n) : XOp α) = .skip 0 n.toNat) ∧
    (∀ x : Rat, (xskipOf 0 (.flt x) : XOp α) = .skip 0 (roundHalfEven x).toNat) :=
  ⟨rfl, rfl, rfl, rfl, fun _ => rfl, fun _ => rfl⟩

/-- non-vacuity of C03.11j: a copy made before `skip(inf)` keeps everything -/
example :
    xrun 9 (XSt.empty : XSt Int)
      [.new [.ok 1, .ok 2], .copy 0, xskipOf 0 .inf, .next 0, .next 0, .drain 1, xskipOf 1 .nan, .drain 1, .drain 1]
    = [some (.new 0), some (.new 1), some .unit, some (.err "OverflowError"), some (.err "StopIteration"),
       some (.items [1, 2]), some .unit, some (.err "ValueError"), some (.items [])] := by decide +kernel

/-- non-vacuity: `map` goes on after the exception, `take(5)` raises and the Stream goes on behind the
    raising position; `limit` and `skip` are finished by it; `s.attr` goes on -/
example :
    let boom : Int → Ev Int := fun x => if x = 3 then .error "ValueError" else .ok (x * 10)
    let ops : List (XOp Int) :=
      [.new [.ok 1, .ok 2, .ok 3, .ok 4, .ok 5], .map 0 boom, .take 0 (.int 5), .drain 0,
       .new [.ok 1, .ok 2, .ok 3, .ok 4, .ok 5], .map 1 boom, .limit 1 4, .take 1 (.int 9), .drain 1,
       .new [.ok 1, .error "KeyError", .ok 3, .ok 4], .skip 2 1, .next 2, .next 2,
       .new [.ok 1, .ok 2, .ok 3, .ok 4], .map 3 boom, .attr 3 (fun x => .ok x), .take 4 (.int 2), .next 4, .next 4]
    let obs : List (Option (Obs Int)) :=
      [some (.new 0), some .unit, some (.err "ValueError"), some (.items [40, 50]),
       some (.new 1), some .unit, some .unit, some (.err "ValueError"), some (.items []),
       some (.new 2), some .unit, some (.err "KeyError"), some (.err "StopIteration"),
       some (.new 3), some .unit, some (.new 4), some (.items [10, 20]), some (.err "ValueError"),
       some (.item 40)]
    xrun 9 (XSt.empty : XSt Int) ops = obs ∧ xspecRun [] ops = obs ∧ (∀ op, op ∈ ops → op.teeFree = true) := by
  refine ⟨by decide +kernel, by decide +kernel, by simp [XOp.teeFree]⟩
/-- `peek` that raises: the Stream itself loses nothing but the raising position; a copy made before sees
    neither the exception (delivered once) nor a gap in the items -/
example :
    let boom : Int → Ev Int := fun x => if x = 3 then .error "ValueError" else .ok (x * 10)
    xrun 9 (XSt.empty : XSt Int)
      [.new [.ok 1, .ok 2, .ok 3, .ok 4, .ok 5], .map 0 boom, .copy 0, .peek 0 (.int 5), .take 0 (.int 2), .next 0,
       .drain 1]
    = [some (.new 0), some .unit, some (.new 1), some (.err "ValueError"), some (.items [10, 20]), some (.item 40),
       some (.items [10, 20, 40, 50])] := by decide +kernel
/-- non-vacuity of C03.11f: the same history on the specification with copies; and a `limit` over a copy is
    finished by the exception it is handed, while the other copy goes on -/
example :
    let boom : Int → Ev Int := fun x => if x = 3 then .error "ValueError" else .ok (x * 10)
    let ops : List (XOp Int) :=
      [.new [.ok 1, .ok 2, .ok 3, .ok 4, .ok 5], .map 0 boom, .copy 0, .peek 0 (.int 5), .take 0 (.int 2), .next 0,
       .drain 1,
       .new [.ok 1, .error "KeyError", .ok 3, .ok 4], .copy 2, .limit 2 3, .take 2 (.int 3), .drain 2, .drain 3]
    let obs : List (Option (Obs Int)) :=
      [some (.new 0), some .unit, some (.new 1), some (.err "ValueError"), some (.items [10, 20]), some (.item 40),
       some (.items [10, 20, 40, 50]),
       some (.new 2), some (.new 3), some .unit, some (.err "KeyError"), some (.items []), some (.items [1, 3, 4])]
    xrun 9 (XSt.empty : XSt Int) ops = obs ∧ srun 9 (SSt.empty : SSt Int) ops = obs ∧
      (∀ o, o ∈ xrun 9 (XSt.empty : XSt Int) ops → o ≠ none) := by
  refine ⟨by decide +kernel, by decide +kernel, by decide +kernel⟩

/-! ### C03.12 — the model is regenerated from the source (translator `harness/props/c03_tr.py`)

`ALV.Gen.C03` is rewritten from `audiolazy/lazy_stream.py` on every run of the check: one program (`Src.Body` /
`Src.HubBody`, the deep embedding of Model/C03Src.lean) per method.  The theorems below say that the interpretation
of the regenerated program of each method is the hand-written model function of that method; `src_step_is_model`
puts them together: the step function every theorem above speaks about IS the interpretation of what the source
says now (`run`, `hrun`, `crun` are folds of `step`). -/

open ALV.C03.Src in
/-- `Stream.take`: `if n is None` / `if isinf(n) and n > 0` / `if isinstance(n, float): n = rint(n) if n > 0 else 0` /
    `constructor(it.islice(self._data, max(n, 0)))` decide the mode `takeMode` decides, for every count -/
theorem src_take_mode_is_model (c : Cnt) : takeModeP ALV.Gen.C03.take c = .ok (takeMode c) :=
  takeModeP_gen c

open ALV.C03.Src in
/-- `Stream.take` on an iterator -/
theorem src_take_is_model : @takeP α ALV.Gen.C03.take = takeIt := by
  funext f h it c; exact takeP_gen f h it c

open ALV.C03.Src in
/-- `Stream.copy`: `a, b = it.tee(self._data); self._data = a; return Stream(b)` is `teeOf`, both sides at position 0 -/
theorem src_copy_is_model :
    @copyP α ALV.Gen.C03.copy = fun h it => .ok ((teeOf h it).1, (teeOf h it).2, (teeOf h it).2) := by
  funext h it; exact copyP_gen h it

open ALV.C03.Src in
/-- `StreamTeeHub.copy`: the same on `self._iters[0]` -/
theorem src_hub_copy_is_model :
    @hubCopyP α ALV.Gen.C03.hubCopy = fun h it => .ok ((teeOf h it).1, (teeOf h it).2, (teeOf h it).2) := by
  funext h it; exact hubCopyP_gen h it

open ALV.C03.Src in
/-- `Stream.peek` = `self.copy().take(n=n, …)`: the count is handed on unchanged, and the whole operation (Stream
    and hub, empty hub: the IndexError of `StreamTeeHub.__iter__`) is the model's -/
theorem src_peek_is_model (f : Nat) (st : St α) (i : Nat) (c : Cnt) :
    peekArgP ALV.Gen.C03.peek c = .ok c ∧ stepP ALV.Gen.C03.progs f st (.peek i c) = step f st (.peek i c) :=
  ⟨peekArgP_gen c, stepP_peek f st i c⟩

open ALV.C03.Src in
/-- `Stream.skip`: the `skipper` generator over `xrange(int(round(n)))`, count evaluated lazily -/
theorem src_skip_is_model (it : It α) (c : Cnt) (g : α → α) (p : α → Bool) (o : Option (It α)) :
    wrapP ALV.Gen.C03.skip it c g p o =
      match roundCount c with
      | .error _ => .error .refused
      | .ok n => .ok (.skipper n it) :=
  wrapP_skip it c g p o

open ALV.C03.Src in
/-- `Stream.limit`: `it.islice(self._data, max(int(round(n)), 0))`, errors of `int(round(n))` raised by the call -/
theorem src_limit_is_model (it : It α) (c : Cnt) (g : α → α) (p : α → Bool) (o : Option (It α)) :
    wrapP ALV.Gen.C03.limit it c g p o =
      match roundCount c with
      | .error e => .error (.eager e)
      | .ok n => .ok (.limiter n it) :=
  wrapP_limit it c g p o

open ALV.C03.Src in
/-- `Stream.append`: `it.chain(self._data, Stream(*other)._data)` -/
theorem src_append_is_model (it it2 : It α) (c : Cnt) (g : α → α) (p : α → Bool) :
    wrapP ALV.Gen.C03.append it c g p (some it2) = .ok (.chain it it2) :=
  wrapP_append it it2 c g p

open ALV.C03.Src in
/-- `Stream.map`: `xmap(func, self._data)` -/
theorem src_map_is_model (it : It α) (c : Cnt) (g : α → α) (p : α → Bool) (o : Option (It α)) :
    wrapP ALV.Gen.C03.map it c g p o = .ok (.map g it) :=
  wrapP_map it c g p o

open ALV.C03.Src in
/-- `Stream.filter`: `xfilter(func, self._data)` -/
theorem src_filter_is_model (it : It α) (c : Cnt) (g : α → α) (p : α → Bool) (o : Option (It α)) :
    wrapP ALV.Gen.C03.filter it c g p o = .ok (.filter p it) :=
  wrapP_filter it c g p o

open ALV.C03.Src in
/-- the `StreamTeeHub` side: `take` raises AttributeError, `__iter__` pops or raises IndexError, and each of
    `limit / skip / append / map / filter` is `Stream(self).<the same method>(<the same arguments>)` -/
theorem src_hub_methods_are_model :
    raiseP ALV.Gen.C03.hubTake = "AttributeError" ∧ popErrP ALV.Gen.C03.hubIter = "IndexError" ∧
    viaP "limit" ["n"] ALV.Gen.C03.hubLimit = true ∧ viaP "skip" ["n"] ALV.Gen.C03.hubSkip = true ∧
    viaP "append" ["*other"] ALV.Gen.C03.hubAppend = true ∧ viaP "map" ["func"] ALV.Gen.C03.hubMap = true ∧
    viaP "filter" ["func"] ALV.Gen.C03.hubFilter = true := by
  decide

open ALV.C03.Src in
/-- `StreamTeeHub.__init__(data, n)`: `super().__init__(data)` / `iter_self = super().__iter__()` /
    `self._iters = list(it.tee(iter_self, n))` build what the model's `.thub` branch builds: the iterator of
    `Stream(data)` (`mkSrc`: an existing Stream is moved, an existing hub gives a use; its error is the error of the
    call), one `itertools.tee` over it, `n` copies of its output stored in the new hub -/
theorem src_hub_init_is_model (st : St α) (s : ALV.C03.Src α) (n : Nat) :
    hubInitP ALV.Gen.C03.hubInit st s n =
      match mkSrc st s with
      | .error e => some (st, .err e)
      | .ok (st', it) =>
        some (⟨(teeOf st'.heap it).1, st'.pool ++ [.hub (List.replicate n (teeOf st'.heap it).2)]⟩, .new st'.pool.length) :=
  hubInitP_gen st s n

open ALV.C03.Src in
/-- `thub(data, n)`: `StreamTeeHub(data, n) if isinstance(data, Iterable) else data` is the `.thub` branch of the
    model, for every state, argument and number of copies (a non-iterable comes back as it is and nothing is built) -/
theorem src_thub_is_model (f : Nat) (st : St α) (s : ALV.C03.Src α) (n : Nat) :
    thubP ALV.Gen.C03.progs st s n = step f st (.thub s n) :=
  stepP_thub f st s n

open ALV.C03.Src in
/-- `Stream.__init__(*dargs)`: the tree `if len(dargs) == 0: raise TypeError` / `elif len(dargs) == 1:` (`iter(dargs[0])`
    when iterable, else `it.repeat(dargs[0])`) / `else:` (all iterable: `it.chain(*[iter(arg) for arg in dargs])`, none:
    `it.cycle(dargs)`, both kinds: `raise TypeError`) reads every argument list the way the call layer's `elabArgs` does
    (`Stream(...)`, `x.append(...)`: `elabCall`); the iterator term of the result is `mkSrc` (the `.new` / `.append` /
    `.thub` branches of `step`) -/
theorem src_init_is_model : @initP α ALV.Gen.C03.init = elabArgs := by
  funext args; exact initP_gen args

open ALV.C03.Src in
/-- `lazy_itertools.tee(x, n)` on an object of the pool: `isinstance(data, (Stream, Iterator))` holds, and
    `tuple(Stream(cp) for cp in it.tee(data, n))` is the `.tee` branch of the model (the iterator of the object is
    taken — a Stream is moved, a hub gives a use —, one `itertools.tee` over it, `n` new Streams on its output) -/
theorem src_tee_is_model (f : Nat) (st : St α) (i n : Nat) :
    teeP ALV.Gen.C03.progs st i n = step f st (.tee i n) :=
  stepP_tee f st i n

open ALV.C03.Src in
/-- the call layer's reading of `lazy_itertools.tee` comes from the source too: the else arm on a non-iterable
    (`tuple(data for unused in xrange(n))`: `n` times the same object, nothing built) and the default `n=2` -/
theorem src_tee_call_is_model (v : α) (k : Int) (d : CArg α) :
    elabCall (.tee (.scalar v) (some (.int k))) = .ret (teeScalarP ALV.Gen.C03.tee v k.toNat) ∧
    sigDefault ALV.Gen.C03.sigs "lazy_itertools.tee" "n" = some (some "2") ∧
    elabCall (.tee d none) = elabCall (.tee d (some (.int 2))) :=
  ⟨rfl, by decide, rfl⟩

open ALV.C03.Src in
/-- **the model's step function is the interpretation of the regenerated programs**, for every fuel, state and
    operation (take / peek / skip / limit / append / map / filter / copy on Streams and StreamTeeHubs, `thub`,
    `StreamTeeHub.__init__` and `lazy_itertools.tee` come from the programs; `next(iter(x))`, `list(x)` and the
    constructor on an already elaborated argument (`mkSrc`; the argument-list rules of `Stream.__init__` are
    `src_init_is_model`) are the hand-written branches on both sides) -/
theorem src_step_is_model : @stepP α ALV.Gen.C03.progs = step := by
  funext f st op; exact stepP_gen f st op

open ALV.C03.Src in
/-- signatures: parameter names, order and defaults of the translated methods are the documented ones, and the
    call layer's reading of an omitted count is the reading of the default the source gives (`take(n=None)`; `n` of
    skip / limit required) -/
theorem src_signatures_are_model :
    ALV.Gen.C03.sigs = sigModel ∧
    (∀ a, argOfDefault (sigDefault ALV.Gen.C03.sigs "Stream.take" "n") = some a → elabTake .omitted = elabTake a) ∧
    (∀ a, argOfDefault (sigDefault ALV.Gen.C03.sigs "Stream.peek" "n") = some a → elabTake .omitted = elabTake a) ∧
    argOfDefault (sigDefault ALV.Gen.C03.sigs "Stream.skip" "n") = some .omitted ∧
    argOfDefault (sigDefault ALV.Gen.C03.sigs "Stream.limit" "n") = some .omitted := by
  refine ⟨by decide, ?_, ?_, by decide, by decide⟩
  · intro a h
    have : argOfDefault (sigDefault ALV.Gen.C03.sigs "Stream.take" "n") = some (.given .none) := by decide
    rw [this] at h; cases h; rfl
  · intro a h
    have : argOfDefault (sigDefault ALV.Gen.C03.sigs "Stream.peek" "n") = some (.given .none) := by decide
    rw [this] at h; cases h; rfl

/-- non-vacuity: a history through every translated method, run by the interpretation of the regenerated programs -/
example :
    ALV.C03.Src.runP ALV.Gen.C03.progs 12 (St.empty : St Int)
      [.new (.list [1, 2, 3, 4, 5, 6, 7, 8]), .peek 0 (.flt (5/2)), .take 0 (.flt (5/2)), .copy 0, .skip 0 (.flt (3/2)),
       .limit 0 (.flt (5/2)), .map 0 (· * 10), .filter 0 (· != 70), .append 0 (.list [9]), .take 0 .inf, .take 1 .none,
       .thub (.list [1, 2]) 1, .take 2 (.int 1), .peek 2 (.int 1), .map 2 (· + 1), .copy 2]
    = [some (.new 0), some (.items [1, 2, 3]), some (.items [1, 2, 3]), some (.new 1), some .unit, some .unit, some .unit,
       some .unit, some .unit, some (.items [60, 9]), some (.item 4), some (.new 2), some (.err "AttributeError"),
       some (.items [1]), some (.new 3), some (.err "IndexError")] := by decide +kernel

end ALV.Props.C03

#write_audit "C03"
