/-
  C03 — property theorems.
-/
import ALV.Model.C03
import ALV.Spec.C03
import ALV.Common.Audit

namespace ALV.Props.C03
open ALV.C03
variable {α : Type}

/-- **C03.3b** `thub` of a non-iterable is that object: no state change, the object itself is returned. -/
theorem thub_noniter (f : Nat) (st : St α) (v : α) (n : Nat) :
    step (f + 1) st (.thub (.const v) n) = some (st, .const v) := rfl

end ALV.Props.C03

#write_audit "C03"
