/-
  C17 — property theorems (placeholder while the tie is being brought up).
-/
import ALV.Model.C17
import ALV.Spec.C17
import ALV.Common.Audit

namespace ALV.Props.C17
open ALV.C17

theorem init_not_finished (script : List Cmd) : (init script).finished = false := rfl

end ALV.Props.C17

#write_audit "C17"
