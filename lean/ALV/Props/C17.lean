/-
  C17 — property theorems.  Statements of the property over ALL schedules (any interleaving
  of the control script and any number of player threads at the yield points), any chunk
  counts, any control script; non-vacuity examples; audit.  Helper lemmas: `ALV.Lemmas.C17*`.
-/
import ALV.Lemmas.C17Close
import ALV.Lemmas.C17Chunks
import ALV.Lemmas.C17Locks
import ALV.Common.Audit

namespace ALV.Props.C17
open ALV.C17

/-- **C17.1 delivered_prefix** — whatever the schedule and the control history, what a device
stream has received is a prefix of `chunks(audio)` (in order, nothing duplicated, nothing
skipped), and it is the whole sequence once the player has left its loop without having been
stopped. -/
theorem delivered_prefix {cfg : Cfg} {script : List Cmd} {s : State} (h : Reach cfg script s)
    (k : Nat) (p : Player) (hp : s.players[k]? = some p) :
    p.written <+: chunksOf cfg.cs p.audio ∧
    (afterLoop p.pc = true → p.halting = false → p.written = chunksOf cfg.cs p.audio) := by
  obtain ⟨h0, h1, _, h3⟩ := ploc_reach h k p hp
  refine ⟨⟨p.todo, by rw [h1, h0]⟩, fun ha hh => ?_⟩
  rcases h3 ha with ht | ht
  · rw [← h0, ← h1, ht, List.append_nil]
  · rw [hh] at ht; cases ht

/-- **C17.1b chunks_are_padded_audio** — `chunks(audio)` consists of chunks of exactly `cs`
samples whose concatenation is the audio followed by zero padding to a chunk boundary (fewer than
`cs` zeros), for every chunk size and every audio length. -/
theorem chunks_are_padded_audio (cs : Nat) (hs : 0 < cs) (audio : List Int) :
    (chunksOf cs audio).flatten = audio ++ List.replicate (padLen cs audio.length) 0 ∧
    (∀ c ∈ chunksOf cs audio, c.length = cs) ∧ padLen cs audio.length < cs := by
  rw [chunksOf_eq_chunksSpec cs hs]
  refine ⟨groups_flatten cs hs _ _ rfl, groups_len cs hs _ _ rfl (padded_len_mod cs hs audio), ?_⟩
  exact Nat.mod_lt _ hs

/-- **C17.1c delivered_complete** — a player that left its loop without having been stopped has
delivered exactly the audio followed by the zero padding, as consecutive chunks of `cs` samples. -/
theorem delivered_complete {cfg : Cfg} {script : List Cmd} {s : State} (h : Reach cfg script s)
    (hcs : 0 < cfg.cs) (k : Nat) (p : Player) (hp : s.players[k]? = some p)
    (ha : afterLoop p.pc = true) (hh : p.halting = false) :
    p.written.flatten = p.audio ++ List.replicate (padLen cfg.cs p.audio.length) 0 ∧
    ∀ c ∈ p.written, c.length = cfg.cs := by
  have hw := (delivered_prefix h k p hp).2 ha hh
  rw [hw]
  exact ⟨(chunks_are_padded_audio cfg.cs hcs p.audio).1, (chunks_are_padded_audio cfg.cs hcs p.audio).2.1⟩

example : chunksOf 2 [1, 2, 3] = [[1, 2], [3, 0]] := by decide

/-- **C17.2 terminate_once** — the backend is terminated at most once, whatever the schedule
and however often `close` is called. -/
theorem terminate_once {cfg : Cfg} {script : List Cmd} {s : State} (h : Reach cfg script s) :
    s.terminated ≤ 1 := (mi_reach h).term

/-- once `close` has returned normally the manager is finished -/
theorem finished_after_close {cfg : Cfg} {script : List Cmd} {s : State} (h : Reach cfg script s)
    (al : List Bool) (n : Nat) (hc : Ev.closeOk al n ∈ s.log) : s.finished = true :=
  (mi_reach h).okFin al n hc

/-- **C17.4 play_after_close_raises** — on a finished manager `play` creates no thread, opens no
stream, leaves `_threads` alone and raises `ThreadError` (two steps: lock, raise + release). -/
theorem play_after_close_raises (cfg : Cfg) (s s1 s2 : State) (a : List Int)
    (hf : s.finished = true) (hpc : s.mpc = .pAcq a)
    (h1 : stepMain cfg s = some s1) (h2 : stepMain cfg s1 = some s2) :
    s1.players = s.players ∧ s2.players = s.players ∧ s2.threads = s.threads ∧
    Ev.playThreadError ∈ s2.log ∧ s2.finished = true := by
  unfold stepMain at h1
  rw [hpc] at h1
  simp only [hf] at h1
  split at h1
  · cases h1
  · simp only [if_true] at h1
    cases h1
    unfold stepMain at h2
    simp only at h2
    cases h2
    refine ⟨rfl, by simp, by simp, mem_next_log_self _ _, by simpa using hf⟩

/-- non-vacuity: `close ; play` reaches the raising branch (default schedule of the control
script alone) -/
example : ((runSched ⟨false, false, 2⟩ (init [.close, .play [1, 2, 3]])
    (List.replicate 9 Tid.main)).1.log) = [.closeOk [] 0, .playThreadError] := by decide

/-- **C17.3 closed_after** — once the backend has been terminated (which only `close` does, as its
last action) every device stream is closed, `_threads` is empty, the manager is finished, the
backend was terminated exactly once, and every player thread is past all its backend calls and
past `thread_finished` (at most the release of its own locks remains) — for every schedule,
any number of players, any control script. -/
theorem closed_after {cfg : Cfg} {script : List Cmd} {s : State} (h : Reach cfg script s)
    (ht : 1 ≤ s.terminated) : closedAfter s = true :=
  closedAfter_of_terminated h ht

/-- … in particular in every state after a `close` call has returned -/
theorem closed_after_close {cfg : Cfg} {script : List Cmd} {s : State} (h : Reach cfg script s)
    (al : List Bool) (n : Nat) (hc : Ev.closeOk al n ∈ s.log) : closedAfter s = true :=
  closedAfter_of_terminated h (by rw [(li_reach h).okTerm al n hc]; exact Nat.le_refl 1)

/-- non-vacuity of `closed_after_close`: a full run of `play ; close` under a schedule with
context switches ends with `close` returned and everything shut -/
example : let s := (runSched ⟨false, false, 2⟩ (init [.play [101, 102, 103], .close])
      ([0,0,0,0,0,0,0,0,0,0,0,1,1,1,1,0,1,1,1,1,1,0,0,0,0,0].map
        fun n => if n = 0 then Tid.main else Tid.player (n - 1))).1
    (Ev.closeOk [false] 0 ∈ s.log ∧ closedAfter s = true ∧ s.mpc = .done) := by decide

/-- **C17.3b** the assertion `assert not self._pa._streams` in `close` never fails -/
theorem close_assertion_holds {cfg : Cfg} {script : List Cmd} {s : State}
    (h : Reach cfg script s) : Ev.closeAssertionError ∉ s.log ∧ s.mpc ≠ .kAssertRel :=
  ⟨(li_reach h).noAssert, (si_reach h).g.noAssert⟩

/-- **C17.3c backend_protocol** — no backend call that PortAudio would refuse is ever issued: no
write on a stopped or closed stream, no stop/start/close of a closed stream, no stream call and
no `open` after `terminate`. -/
theorem backend_protocol {cfg : Cfg} {script : List Cmd} {s : State} (h : Reach cfg script s) :
    s.perr = false := (si_reach h).g.noPerr

/-- **C17.5 lock_order** — in every reachable state, a thread whose pending operation is the
acquisition of lock `w` only holds locks of strictly smaller rank (`halting` < thread lock <
manager lock): the waits-for relation between locks is acyclic, so no deadlock involves locks
only (every deadlock of the model goes through `go.wait()` / `join`). -/
theorem lock_order {cfg : Cfg} {script : List Cmd} {s : State} (hr : Reach cfg script s)
    (t : Tid) (h w : LockId) (hh : holds s t h) (hw : wants s t = some w) :
    lockRank h < lockRank w := by
  obtain ⟨l1, l2, l3, l4⟩ := lk_reach hr
  cases t with
  | main =>
    simp only [wants] at hw
    cases h with
    | hlock =>
      have hc := (l1 _ hh).2
      revert hw hc; cases s.mpc <;> simp [wantsMain, closeBody] <;> intro e <;> subst e <;> simp [lockRank]
    | mlock =>
      have hc := l2 hh
      revert hw hc; cases s.mpc <;> simp [wantsMain, mainHoldsM]
    | tlock i =>
      obtain ⟨p, hp, hl⟩ := hh
      rcases l4 i p hp _ hl with ⟨_, hc⟩ | ⟨hc, _⟩
      · revert hw hc; cases s.mpc <;> simp [wantsMain, mainHoldsT]
      · cases hc
  | player i =>
    simp only [wants] at hw
    cases h with
    | hlock => have := (l1 _ hh).1; cases this
    | mlock =>
      have hc := l3 i hh
      unfold pcAt at hc
      rw [hc] at hw
      simp [wantsPlayer] at hw
    | tlock j =>
      obtain ⟨p, hp, hl⟩ := hh
      rcases l4 j p hp _ hl with ⟨hc, _⟩ | ⟨hc, hsel⟩
      · cases hc
      · cases hc
        rw [hp] at hw
        simp only [Option.map_some, Option.bind_some] at hw
        revert hw hsel
        cases p.pc <;> simp [wantsPlayer, selfHold] <;> intro e <;> subst e <;> simp [lockRank]

/-- non-vacuity: a player at `thread_finished` holds its own lock and wants the manager lock -/
example : let s := (runSched ⟨true, false, 2⟩ (init [.play [101], .close])
      ([0,0,0,0,0,0,0,1,1,1,1,1].map fun n => if n = 0 then Tid.main else Tid.player (n - 1))).1
    (wants s (.player 0) = some .mlock ∧ (s.players[0]?).map (·.lk) = some (some (.player 0))) := by
  decide

/-- **C17.5b manager_lock_never_blocks** (progress) — whoever holds the manager lock
(`AudioIO.lock`) has an enabled pending operation: the lock is only held across operations that
cannot block, so `play`, `close` and `thread_finished` never wait for it for ever. -/
theorem manager_lock_never_blocks {cfg : Cfg} {script : List Cmd} {s : State}
    (hr : Reach cfg script s) (t : Tid) (ht : s.mlock = some t) : enabled cfg s t = true :=
  mlock_holder_enabled' hr t ht

/-! ### liveness of `close` — PENDING (carried by the tie on every explored schedule)

Proved so far, for ALL schedules: no backend/assertion failure can abort `close`
(`close_assertion_holds`, `backend_protocol`), no deadlock consists of locks only (`lock_order`,
`manager_lock_never_blocks`), and the code as it is DOES deadlock through `go.wait()`
(`deadlock_pause_close`, `deadlock_pause_resume_close` below).  Not yet proved in Lean: -/

-- PENDING
/-- script without `pause` calls -/
def NoPause (script : List Cmd) : Prop := ∀ i, Cmd.ctl .pause i ∉ script

-- PENDING: every maximal run of a script without `pause` ends with the script completed (every
-- `close` returned) and all players finished — both variants of `stop()`.
def close_returns_no_pause : Prop :=
  ∀ (cfg : Cfg) (script : List Cmd) (s : State), NoPause script → Reach cfg script s →
    terminal cfg s = true → allDone s = true

-- PENDING: with the proposed fix and `wait=False`, `close` returns whatever was paused (scripts
-- without `join` calls; a `join` of a paused player blocks by the script's own doing).
def close_returns_fixed : Prop :=
  ∀ (cfg : Cfg) (script : List Cmd) (s : State), cfg.fixed = true → cfg.wait = false →
    (∀ i, Cmd.join i ∉ script) → Reach cfg script s → terminal cfg s = true → s.mpc = .done

-- PENDING: every run is finite (so a maximal run exists and weak fairness is implied): the number
-- of steps from the initial state is bounded by a function of the script.
def steps_bounded : Prop :=
  ∀ (cfg : Cfg) (script : List Cmd), ∃ B : Nat, ∀ (sched : List Tid),
    (runSched cfg (init script) sched).2 = [] → sched.length ≤ B

/-! ### the deadlock of the code as it is (D10) -/

def mkSched (l : List Nat) : List Tid := l.map fun n => if n = 0 then Tid.main else Tid.player (n - 1)

/-- `close()` is blocked for ever: the control script is inside `close` (at `thread.join()`), the
player is blocked in `go.wait()`, nobody can move -/
def StuckInClose (cfg : Cfg) (s : State) : Prop :=
  terminal cfg s = true ∧ s.mpc = .kJoin 0 ∧ pcAt s 0 = some .goWait

instance (cfg : Cfg) (s : State) : Decidable (StuckInClose cfg s) := by
  unfold StuckInClose; infer_instance

/-- **C17.6 deadlock_pause_close** (as-coded model, `wait=False`): `th = play(x); th.pause();
close()` reaches a state in which `close` never returns.  Schedule found on the real code by the
scheduler harness (19 steps). -/
theorem deadlock_pause_close :
    StuckInClose ⟨false, false, 2⟩
      (runSched ⟨false, false, 2⟩ (init [.play [101], .ctl .pause 0, .close])
        (mkSched [0,0,0,0,0,0,0,0,0,0,0,0,1,1,1,1,0,0,0])).1 := by decide

/-- the same with `wait=True` (close joins the paused player without stopping it) -/
theorem deadlock_pause_close_wait :
    StuckInClose ⟨true, false, 2⟩
      (runSched ⟨true, false, 2⟩ (init [.play [101], .ctl .pause 0, .close])
        (mkSched [0,0,0,0,0,0,0,0,0,0,0,0,1,1,1,1])).1 := by decide

/-- **C17.6b** the player need not be paused when `close` starts: `pause ; play ; close` deadlocks
too when the thread had already seen the pause (it tests `halting` before `go.wait()` and `stop()`
clears `go` again afterwards).  So "no player is paused when close starts" is NOT sufficient for
`close` to return in the code as it is. -/
theorem deadlock_pause_resume_close :
    StuckInClose ⟨false, false, 2⟩
      (runSched ⟨false, false, 2⟩ (init [.play [101], .ctl .pause 0, .ctl .resume 0, .close])
        (mkSched [0,0,0,0,0,0,0,0,0,0,1,1,1,1,0,0,0,0,0,0,0,0])).1 := by decide

/-- with the proposed fix (`Cfg.fixed`) the very same schedules run `close` to its end -/
theorem fixed_pause_close_returns :
    ((runSched ⟨false, true, 2⟩ (init [.play [101], .ctl .pause 0, .close])
        (mkSched ([0,0,0,0,0,0,0,0,0,0,0,0,1,1,1,1,0,0,0] ++ [1,1,1,1,1,1,0,0,0,0,0]))).1.log
      = [.playOk 0, .ctlOk, .closeOk [false] 0]) := by decide

/-- **C17.7 alive_after_close_reachable** — the strict reading "no player thread is alive when
close returns" fails on one window: a player that has already left `_threads` is not joined, and
may still have its last lock release to do (it is past every backend call: `closed_after`). -/
theorem alive_after_close_reachable :
    ((runSched ⟨true, false, 2⟩ (init [.play [101], .close])
        (mkSched [0,0,0,0,0,0,0,1,1,1,1,1,1,1,0,0,0,0])).1.log
      = [.playOk 0, .closeOk [true] 0]) := by decide

end ALV.Props.C17

#write_audit "C17"
