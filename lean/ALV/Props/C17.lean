/-
  C17 — property theorems.  Statements of the property over ALL schedules (any interleaving
  of the control script and any number of player threads at the yield points), any chunk
  counts, any control script; safety AND liveness (every run is finite, `close` returns, what
  holds afterwards); non-vacuity examples; audit.  Helper lemmas: `ALV.Lemmas.C17*`.
-/
import ALV.Lemmas.C17Close
import ALV.Lemmas.C17Chunks
import ALV.Lemmas.C17Locks
import ALV.Lemmas.C17Shutdown
import ALV.Lemmas.C17Paused
import ALV.Lemmas.C17Wait
import ALV.Lemmas.C17FineLive
import ALV.Lemmas.C17Rec
import ALV.Lemmas.C17Spec
import ALV.Lemmas.C17Mix
import ALV.Lemmas.C17Src
import ALV.Common.Audit

namespace ALV.Props.C17
open ALV.C17

/-- schedules are written as lists of numbers: 0 = control script, n+1 = player n -/
def mkSched (l : List Nat) : List Tid := l.map fun n => if n = 0 then Tid.main else Tid.player (n - 1)

/-- **C17.1 delivered_prefix** — whatever the schedule and the control history, what a device
stream has received is a prefix of `chunks(audio)` (in order, nothing duplicated, nothing
skipped), and it is the whole sequence once the player has left its loop without having been
stopped — for an iterable that raises at its end: all the chunks that were completed before the
exception (`playChunks`: the first `|audio| / cs` chunks). -/
theorem delivered_prefix {cfg : Cfg} {script : List Cmd} {s : State} (h : Reach cfg script s)
    (k : Nat) (p : Player) (hp : s.players[k]? = some p) :
    p.written <+: chunksOf p.cs p.audio ∧
    (afterLoop p.pc = true → p.halting = false → p.written = playChunks p.cs p.audio p.fail) ∧
    (afterLoop p.pc = true → p.halting = false → p.fail = false →
      p.written = chunksOf p.cs p.audio) := by
  obtain ⟨h0, h1, _, h3⟩ := ploc_reach h k p hp
  have hpre : p.written <+: playChunks p.cs p.audio p.fail := ⟨p.todo, by rw [h1, h0]⟩
  have hfull : afterLoop p.pc = true → p.halting = false →
      p.written = playChunks p.cs p.audio p.fail := by
    intro ha hh
    rcases h3 ha with ht | ht
    · rw [← h0, ← h1, ht, List.append_nil]
    · rw [hh] at ht; cases ht
  refine ⟨hpre.trans ?_, hfull, fun ha hh hf => ?_⟩
  · unfold playChunks; split
    · exact List.take_prefix _ _
    · exact List.prefix_refl _
  · rw [hfull ha hh, hf]; simp [playChunks]

/-- **C17.1b chunks_are_padded_audio** — `chunks(audio)` consists of chunks of exactly `cs`
samples whose concatenation is the audio followed by zero padding to a chunk boundary (fewer than
`cs` zeros), for every chunk size and every audio length. -/
theorem chunks_are_padded_audio (cs : Nat) (hs : 0 < cs) (audio : List Int) :
    (chunksOf cs audio).flatten = audio ++ List.replicate (padLen cs audio.length) 0 ∧
    (∀ c ∈ chunksOf cs audio, c.length = cs) ∧ padLen cs audio.length < cs := by
  rw [chunksOf_eq_chunksSpec cs hs]
  refine ⟨groups_flatten cs hs _ _ rfl, groups_len cs hs _ _ rfl (padded_len_mod cs hs audio), ?_⟩
  exact Nat.mod_lt _ hs

/-- **C17.1c delivered_complete** — a player that left its loop without having been stopped has
delivered exactly the audio followed by the zero padding, as consecutive chunks of `cs` samples. -/
theorem delivered_complete {cfg : Cfg} {script : List Cmd} {s : State} (h : Reach cfg script s)
    (k : Nat) (p : Player) (hp : s.players[k]? = some p) (hcs : 0 < p.cs)
    (ha : afterLoop p.pc = true) (hh : p.halting = false) (hf : p.fail = false) :
    p.written.flatten = p.audio ++ List.replicate (padLen p.cs p.audio.length) 0 ∧
    ∀ c ∈ p.written, c.length = p.cs := by
  have hw := (delivered_prefix h k p hp).2.2 ha hh hf
  rw [hw]
  exact ⟨(chunks_are_padded_audio p.cs hcs p.audio).1, (chunks_are_padded_audio p.cs hcs p.audio).2.1⟩

example : chunksOf 2 [1, 2, 3] = [[1, 2], [3, 0]] := by decide

/-- **C17.1d delivered_failing** — a played iterable that raises after its samples (the repaired
`run`: the exception leaves the loop through `finally`): the device stream of a player that was
not stopped has received exactly the samples of the chunks that were complete before the exception,
`audio[: |audio| / cs * cs]`, as chunks of `cs` samples — no padding, nothing of the partly filled
chunk, nothing lost before it. -/
theorem delivered_failing {cfg : Cfg} {script : List Cmd} {s : State} (h : Reach cfg script s)
    (k : Nat) (p : Player) (hp : s.players[k]? = some p) (hcs : 0 < p.cs)
    (ha : afterLoop p.pc = true) (hh : p.halting = false) (hf : p.fail = true) :
    p.written.flatten = p.audio.take (p.audio.length / p.cs * p.cs) ∧
    ∀ c ∈ p.written, c.length = p.cs := by
  have hw := (delivered_prefix h k p hp).2.1 ha hh
  have hall := (chunks_are_padded_audio p.cs hcs p.audio).2.1
  rw [hw, hf]
  simp only [playChunks, if_true]
  refine ⟨?_, fun c hc => hall c (List.mem_of_mem_take hc)⟩
  rw [flatten_take_uniform p.cs _ _ hall, (chunks_are_padded_audio p.cs hcs p.audio).1]
  exact List.take_append_of_le_length (Nat.div_mul_le_self _ _)

/-- non-vacuity: `play(it, chunk_size=2)` with an iterable that yields 101, 102, 103 and raises, then
`close()` (`wait=True`): a complete coarse run; the stream holds `[[101, 102]]`, everything is shut -/
example : let s := (runSched ⟨true, true, [true]⟩ (init [.play [101, 102, 103] 2, .close])
      (mkSched [0,0,0,0,0,0,0,0,0, 1,1,1,1,1,1,1,1,1, 0,0,0,0,0])).1
    (s.log = [.playOk 0, .closeOk [false] 0] ∧ s.players.map (·.written) = [[[101, 102]]] ∧
      s.players.map (·.fail) = [true] ∧ allDone s = true ∧ closedAfter s = true) := by decide

/-- **C17.1e chunks_are_the_spec** — the chunk sequence in the words of the property, as the SPEC
function the tie compares the device's bytes with (`chunksSpec` = `groups cs (padded cs audio)`):
`chunks(audio)` IS `chunksSpec`; `chunksSpec` consists of chunks of exactly `cs` samples whose
concatenation is `padded` = the audio followed by `padLen` (< `cs`) zeros; and it is the ONLY such
sequence — any list of chunks of `cs` samples with that concatenation is `chunksSpec`: nothing lost,
duplicated or reordered. -/
theorem chunks_are_the_spec (cs : Nat) (hs : 0 < cs) (audio : List Int) :
    chunksOf cs audio = chunksSpec cs audio ∧
    (chunksSpec cs audio).flatten = padded cs audio ∧
    padded cs audio = audio ++ List.replicate (padLen cs audio.length) 0 ∧
    (∀ c ∈ chunksSpec cs audio, c.length = cs) ∧
    (∀ l : List (List Int), (∀ c ∈ l, c.length = cs) → l.flatten = padded cs audio →
      l = chunksSpec cs audio) := by
  refine ⟨chunksOf_eq_chunksSpec cs hs audio, groups_flatten cs hs _ _ rfl, rfl,
    groups_len cs hs _ _ rfl (padded_len_mod cs hs audio), fun l hl hf => ?_⟩
  unfold chunksSpec
  rw [← hf, groups_unique cs hs l hl]

/-- **C17.1f delivered_is_spec** — the delivery clause as the executable predicate `deliveredOK` of
the specification (`Spec/C17.lean`): in EVERY reachable state, for every player, what the device
stream has received is a prefix of `chunksSpec cs audio`, and all of it once the player has left
its loop un-stopped and its iterable did not raise. -/
theorem delivered_is_spec {cfg : Cfg} {script : List Cmd} {s : State} (h : Reach cfg script s)
    (k : Nat) (p : Player) (hp : s.players[k]? = some p) (hcs : 0 < p.cs) :
    p.written <+: chunksSpec p.cs p.audio ∧
    (afterLoop p.pc = true → p.halting = false → p.fail = false →
      p.written = chunksSpec p.cs p.audio) ∧
    deliveredOK p.cs p.audio p.written (afterLoop p.pc && !p.halting && !p.fail) = true := by
  obtain ⟨h1, _, h3⟩ := delivered_prefix h k p hp
  rw [chunksOf_eq_chunksSpec p.cs hcs] at h1 h3
  refine ⟨h1, h3, ?_⟩
  unfold deliveredOK
  simp only [Bool.and_eq_true, Bool.or_eq_true, Bool.not_eq_true', beq_iff_eq]
  refine ⟨(List.prefix_iff_eq_take.mp h1), ?_⟩
  cases ha : afterLoop p.pc <;> cases hh : p.halting <;> cases hf : p.fail <;> simp
  exact h3 ha hh hf

/-- non-vacuity: three samples in chunks of two; the spec value, and `deliveredOK` on a partial
and on the complete delivery (and its refusal of a reordered / duplicated / short one) -/
example : chunksSpec 2 [1, 2, 3] = [[1, 2], [3, 0]] ∧ padded 2 [1, 2, 3] = [1, 2, 3, 0] ∧
    deliveredOK 2 [1, 2, 3] [[1, 2]] false = true ∧ deliveredOK 2 [1, 2, 3] [[1, 2], [3, 0]] true = true ∧
    deliveredOK 2 [1, 2, 3] [[1, 2]] true = false ∧ deliveredOK 2 [1, 2, 3] [[3, 0]] false = false ∧
    deliveredOK 2 [1, 2, 3] [[1, 2], [1, 2]] false = false := by
  have e : chunksSpec 2 [1, 2, 3] = [[1, 2], [3, 0]] := by
    rw [← chunksOf_eq_chunksSpec 2 (by decide)]; decide
  refine ⟨e, by decide, ?_, ?_, ?_, ?_, ?_⟩ <;> simp [deliveredOK, e]

/-- **C17.2 terminate_once** — the backend is terminated at most once, whatever the schedule
and however often `close` is called. -/
theorem terminate_once {cfg : Cfg} {script : List Cmd} {s : State} (h : Reach cfg script s) :
    s.terminated ≤ 1 := (mi_reach h).term

/-- once `close` has returned normally the manager is finished -/
theorem finished_after_close {cfg : Cfg} {script : List Cmd} {s : State} (h : Reach cfg script s)
    (al : List Bool) (n : Nat) (hc : Ev.closeOk al n ∈ s.log) : s.finished = true :=
  (mi_reach h).okFin al n hc

/-- **C17.4 play_after_close_raises** — on a finished manager `play` creates no thread, opens no
stream, leaves `_threads` alone and raises `ThreadError` (two steps: lock, raise + release). -/
theorem play_after_close_raises (cfg : Cfg) (s s1 s2 : State) (a : List Int) (c : Nat)
    (hf : s.finished = true) (hpc : s.mpc = .pAcq a c)
    (h1 : stepMain cfg s = some s1) (h2 : stepMain cfg s1 = some s2) :
    s1.players = s.players ∧ s2.players = s.players ∧ s2.threads = s.threads ∧
    Ev.playThreadError ∈ s2.log ∧ s2.finished = true := by
  unfold stepMain at h1
  rw [hpc] at h1
  simp only [hf] at h1
  split at h1
  · cases h1
  · simp only [if_true] at h1
    cases h1
    unfold stepMain at h2
    simp only at h2
    cases h2
    refine ⟨rfl, by simp, by simp, mem_next_log_self _ _, by simpa using hf⟩

/-- non-vacuity: `close ; play` reaches the raising branch (default schedule of the control
script alone) -/
example : ((runSched ⟨false, false, []⟩ (init [.close, .play [1, 2, 3] 2])
    (List.replicate 9 Tid.main)).1.log) = [.closeOk [] 0, .playThreadError] := by decide

/-- **C17.3 closed_after** — once the backend has been terminated (which only `close` does, as its
last action) every device stream is closed, `_threads` is empty, the manager is finished, the
backend was terminated exactly once, and every player thread is past all its backend calls and
past `thread_finished` (at most the release of its own locks remains) — for every schedule,
any number of players, any control script. -/
theorem closed_after {cfg : Cfg} {script : List Cmd} {s : State} (h : Reach cfg script s)
    (ht : 1 ≤ s.terminated) : closedAfter s = true :=
  closedAfter_of_terminated h ht

/-- … in particular in every state after a `close` call has returned -/
theorem closed_after_close {cfg : Cfg} {script : List Cmd} {s : State} (h : Reach cfg script s)
    (al : List Bool) (n : Nat) (hc : Ev.closeOk al n ∈ s.log) : closedAfter s = true :=
  closedAfter_of_terminated h (by rw [(li_reach h).okTerm al n hc]; exact Nat.le_refl 1)

/-- non-vacuity of `closed_after_close`: a full run of `play ; close` under a schedule with
context switches ends with `close` returned and everything shut -/
example : let s := (runSched ⟨false, false, []⟩ (init [.play [101, 102, 103] 2, .close])
      ([0,0,0,0,0,0,0,0,0,0,0,1,1,1,1,0,1,1,1,1,1,0,0,0,0,0].map
        fun n => if n = 0 then Tid.main else Tid.player (n - 1))).1
    (Ev.closeOk [false] 0 ∈ s.log ∧ closedAfter s = true ∧ s.mpc = .done) := by decide

/-- **C17.3b** the assertion `assert not self._pa._streams` in `close` never fails -/
theorem close_assertion_holds {cfg : Cfg} {script : List Cmd} {s : State}
    (h : Reach cfg script s) : Ev.closeAssertionError ∉ s.log ∧ s.mpc ≠ .kAssertRel :=
  ⟨(li_reach h).noAssert, (si_reach h).g.noAssert⟩

/-- **C17.3c backend_protocol** — no backend call that PortAudio would refuse is ever issued: no
write on a stopped or closed stream, no stop/start/close of a closed stream, no stream call and
no `open` after `terminate`. -/
theorem backend_protocol {cfg : Cfg} {script : List Cmd} {s : State} (h : Reach cfg script s) :
    s.perr = false := (si_reach h).g.noPerr

/-- **C17.5 lock_order** — in every reachable state, a thread whose pending operation is the
acquisition of lock `w` only holds locks of strictly smaller rank (`halting` < thread lock <
manager lock): the waits-for relation between locks is acyclic, so no deadlock involves locks
only (every deadlock of the model goes through `go.wait()` / `join`). -/
theorem lock_order {cfg : Cfg} {script : List Cmd} {s : State} (hr : Reach cfg script s)
    (t : Tid) (h w : LockId) (hh : holds s t h) (hw : wants s t = some w) :
    lockRank h < lockRank w := by
  obtain ⟨l1, l2, l3, l4⟩ := lk_reach hr
  cases t with
  | main =>
    simp only [wants] at hw
    cases h with
    | hlock =>
      have hc := (l1 _ hh).2
      revert hw hc; cases s.mpc <;> simp [wantsMain, closeBody] <;> intro e <;> subst e <;> simp [lockRank]
    | mlock =>
      have hc := l2 hh
      revert hw hc; cases s.mpc <;> simp [wantsMain, mainHoldsM]
    | tlock i =>
      obtain ⟨p, hp, hl⟩ := hh
      rcases l4 i p hp _ hl with ⟨_, hc⟩ | ⟨hc, _⟩
      · revert hw hc; cases s.mpc <;> simp [wantsMain, mainHoldsT]
      · cases hc
  | player i =>
    simp only [wants] at hw
    cases h with
    | hlock => have := (l1 _ hh).1; cases this
    | mlock =>
      have hc := l3 i hh
      unfold pcAt at hc
      rw [hc] at hw
      simp [wantsPlayer] at hw
    | tlock j =>
      obtain ⟨p, hp, hl⟩ := hh
      rcases l4 j p hp _ hl with ⟨hc, _⟩ | ⟨hc, hsel⟩
      · cases hc
      · cases hc
        rw [hp] at hw
        simp only [Option.map_some, Option.bind_some] at hw
        revert hw hsel
        cases p.pc <;> simp [wantsPlayer, selfHold] <;> intro e <;> subst e <;> simp [lockRank]

/-- non-vacuity: a player at `thread_finished` holds its own lock and wants the manager lock -/
example : let s := (runSched ⟨true, false, []⟩ (init [.play [101] 2, .close])
      ([0,0,0,0,0,0,0,1,1,1,1,1].map fun n => if n = 0 then Tid.main else Tid.player (n - 1))).1
    (wants s (.player 0) = some .mlock ∧ (s.players[0]?).map (·.lk) = some (some (.player 0))) := by
  decide

/-- **C17.5b manager_lock_never_blocks** (progress) — whoever holds the manager lock
(`AudioIO.lock`) has an enabled pending operation: the lock is only held across operations that
cannot block, so `play`, `close` and `thread_finished` never wait for it for ever. -/
theorem manager_lock_never_blocks {cfg : Cfg} {script : List Cmd} {s : State}
    (hr : Reach cfg script s) (t : Tid) (ht : s.mlock = some t) : enabled cfg s t = true :=
  mlock_holder_enabled' hr t ht

/-! ### liveness of `close`

Every run is finite (`rank_decreases`, `steps_bounded`: a ranking function strictly decreases at
every step of every thread, so no fairness assumption is needed and every schedule, continued as
long as some thread is enabled, ends in a terminal state: `maximal_run_exists`).  Every terminal
state has the control script finished, or joining a player blocked in `go.wait()` on a cleared
event (`terminal_states`).  From these: `close` returns — with the repaired `stop()` and
`wait=False` whatever was paused (`close_returns_fixed`), for both variants and both `wait`
values when the script never pauses (`close_returns_no_pause`), and with `wait=True` when no
player is paused at the time `close` is called (`close_returns_wait`) — and afterwards everything
is shut and nobody is alive (`shutdown_fixed`, `shutdown_no_pause`, `shutdown_wait`). -/

/-- script without `pause` calls -/
def NoPause (script : List Cmd) : Prop := ∀ i, Cmd.ctl .pause i ∉ script

/-- **C17.8 rank_decreases** — in every reachable state, every step of every thread strictly
decreases the rank `phi` (rank of the script's program counter + weight of the calls still to be
issued + Σ players (8 · chunks still to write + rank of the player's program counter)): both
variants of `stop()`, wait true/false, any number of players, any chunk counts, any script. -/
theorem rank_decreases {cfg : Cfg} {script : List Cmd} {s s' : State} {t : Tid}
    (hr : Reach cfg script s) (h : step cfg s t = some s') : phi cfg s' < phi cfg s :=
  phi_step hr h

/-- **C17.8b steps_bounded** — every run is finite: a schedule that was executed to its end is
no longer than `stepBound cfg script = 1 + Σ calls (play a: 27 + 8·|chunks a|, pause/play/stop: 4,
join: 2, close: 12)`.  Weak fairness is therefore implied: a thread that stays enabled is
eventually the only one that can be chosen. -/
theorem steps_bounded (cfg : Cfg) (script : List Cmd) : ∃ B : Nat, ∀ (sched : List Tid),
    (runSched cfg (init script) sched).2 = [] → sched.length ≤ B :=
  ⟨stepBound cfg script, fun sched h => by
    have := runSched_phi sched Reach.init h
    unfold stepBound; omega⟩

/-- the bound in closed form -/
theorem steps_bounded_explicit (cfg : Cfg) (script : List Cmd) (sched : List Tid)
    (h : (runSched cfg (init script) sched).2 = []) : sched.length ≤ 1 + wsum cfg script := by
  have := runSched_phi sched (Reach.init (cfg := cfg) (script := script)) h
  have e := stepBound_eq cfg script
  unfold stepBound at e; omega

/-- non-vacuity: a schedule of 30 steps that is executed to its end (the bound is 52) -/
example : let sched := mkSched ([0,0,0,0,0,0,0,0,0,0,0,0,1,1,1,1,0,0,0] ++ [1,1,1,1,1,1,0,0,0,0,0])
    (runSched ⟨false, true, []⟩ (init [.play [101] 2, .ctl .pause 0, .close]) sched).2 = [] ∧
    sched.length = 30 ∧ stepBound ⟨false, true, []⟩ [.play [101] 2, .ctl .pause 0, .close] = 52 := by
  decide

/-- **C17.8c maximal_run_exists** — every executed schedule can be continued to a terminal state
(nobody enabled), and every such continuation stays within the bound. -/
theorem maximal_run_exists (cfg : Cfg) (script : List Cmd) (sched : List Tid)
    (h : (runSched cfg (init script) sched).2 = []) :
    ∃ ext, (runSched cfg (init script) (sched ++ ext)).2 = [] ∧
      terminal cfg (runSched cfg (init script) (sched ++ ext)).1 = true ∧
      (sched ++ ext).length ≤ stepBound cfg script := by
  have hr : Reach cfg script (runSched cfg (init script) sched).1 := reach_runSched sched Reach.init
  obtain ⟨ext, h1, h2⟩ := exists_maximal _ _ hr (Nat.le_refl _)
  have happ := runSched_append cfg sched (init script) ext h
  refine ⟨ext, by rw [happ]; exact h1, by rw [happ]; exact h2, ?_⟩
  have := runSched_phi (sched ++ ext) (Reach.init (cfg := cfg) (script := script)) (by rw [happ]; exact h1)
  unfold stepBound; omega

/-- **C17.9 terminal_states** — the shape of EVERY terminal state (both variants of `stop()`,
wait true/false, any script): the control script has finished, or it is joining — by a `join`
call of its own or by `thread.join()` inside `close` — a player that is blocked in `go.wait()` on
a cleared event.  There is no other deadlock. -/
theorem terminal_states {cfg : Cfg} {script : List Cmd} {s : State} (hr : Reach cfg script s)
    (ht : terminal cfg s = true) :
    s.mpc = .done ∨ ∃ i p, (s.mpc = .jJoin i ∨ s.mpc = .kJoin i) ∧ s.players[i]? = some p ∧
      p.pc = .goWait ∧ p.go = false :=
  terminal_shape hr ht

/-- non-vacuity: the second alternative is reachable with the repaired `stop()` too — by the
script's own `join` of a player it has paused (`th.pause(); th.join()` blocks on the real code
as well: scheduler run `play ; pause ; join ; close` ends in `0:th0.join:0,1:go0.wait:0`) -/
example : let s := (runSched ⟨false, true, []⟩ (init [.play [101] 2, .ctl .pause 0, .join 0, .close])
      (mkSched [0,0,0,0,0,1,0,0,0,1,1,1,0])).1
    (terminal ⟨false, true, []⟩ s = true ∧ s.mpc = .jJoin 0 ∧ pcAt s 0 = some .goWait) := by decide

/-- **C17.10 close_never_blocks_fixed** — with the repaired `stop()` and `wait=False` no run
ends inside `close`, whatever was paused, for EVERY script: a run can only get stuck in a `join`
call of the script itself, on a player the script has paused. -/
theorem close_never_blocks_fixed {cfg : Cfg} {script : List Cmd} {s : State}
    (hf : cfg.fixed = true) (hw : cfg.wait = false) (hr : Reach cfg script s)
    (ht : terminal cfg s = true) :
    s.mpc = .done ∨ ∃ i p, s.mpc = .jJoin i ∧ Cmd.join i ∈ script ∧ s.players[i]? = some p ∧
      p.pc = .goWait ∧ p.go = false := by
  rcases terminal_shape hr ht with h | ⟨i, p, hm, hp, hpc, hgo⟩
  · exact Or.inl h
  · rcases hm with hm | hm
    · exact Or.inr ⟨i, p, hm, (scr_reach hr).cur _ (by rw [hm]; rfl), hp, hpc, hgo⟩
    · obtain ⟨q, hq, hq2⟩ := gf_reach hr hf hw i (Or.inr hm)
      rw [hp] at hq; cases hq; rw [hgo] at hq2; cases hq2

/-- **C17.10b close_returns_fixed** — with the repaired `stop()` and `wait=False`, every maximal
run of a script without `join` calls ends with the script completed: every `close` returned,
whatever was paused.  (A `join` of a paused player blocks by the script's own doing — on the
real code too: `th.pause(); th.join()`.) -/
theorem close_returns_fixed (cfg : Cfg) (script : List Cmd) (s : State) (hf : cfg.fixed = true)
    (hw : cfg.wait = false) (hj : ∀ i, Cmd.join i ∉ script) (hr : Reach cfg script s)
    (ht : terminal cfg s = true) : s.mpc = .done := by
  rcases close_never_blocks_fixed hf hw hr ht with h | ⟨i, _, _, hmem, _⟩
  · exact h
  · exact absurd hmem (hj i)

/-- non-vacuity: `play ; pause ; close` under the schedule on which the code as it was deadlocks -/
example : (runSched ⟨false, true, []⟩ (init [.play [101] 2, .ctl .pause 0, .close])
    (mkSched ([0,0,0,0,0,0,0,0,0,0,0,0,1,1,1,1,0,0,0] ++ [1,1,1,1,1,1,0,0,0,0,0]))).1.mpc = .done :=
  close_returns_fixed _ _ _ rfl rfl (by simp) (reach_runSched _ Reach.init) (by decide)

/-- **C17.11 close_returns_no_pause** — for scripts without `pause` calls (both variants of
`stop()`, wait true/false, `join` calls allowed) every maximal run ends with the script completed
(every `close` and every `join` returned) and all players finished. -/
theorem close_returns_no_pause (cfg : Cfg) (script : List Cmd) (s : State) (hn : NoPause script)
    (hr : Reach cfg script s) (ht : terminal cfg s = true) : allDone s = true := by
  have np := np_reach hn hr
  have hd : s.mpc = .done := by
    rcases terminal_shape hr ht with h | ⟨i, p, _, hp, hpc, _⟩
    · exact h
    · exact absurd hpc (np i p hp).noWait
  exact allDone_of_done hr ht hd (fun k p hp hpc => absurd hpc (np k p hp).noWait)

/-- non-vacuity: two players, `stop` of one, `join` of the other, `wait=True`, code as it was -/
example : allDone (runSched ⟨true, false, []⟩
      (init [.play [101, 102] 1, .play [201] 1, .ctl .stop 0, .join 1, .close])
      (mkSched [0,0,0,0,0,1,0,0,0,1,1,1,0,0,1,2,2,2,0,0,0,2,2,2,0,1,1,2,2,1,0,0,1,1,0,0,0,0])).1 = true :=
  close_returns_no_pause _ _ _ (by intro i h; simp at h) (reach_runSched _ Reach.init) (by decide)

/-- **C17.12a close_never_blocks_wait** — repaired `stop()`, `wait` true or false, EVERY script in
which no player still in its loop is paused (has its `go` event cleared) whenever `close` is
called: no run ends inside `close`; a run can only get stuck in a `join` call of the script
itself, on a player the script has paused. -/
theorem close_never_blocks_wait {cfg : Cfg} {script : List Cmd} {s : State}
    (hf : cfg.fixed = true) (hu : UnpausedAtClose cfg script) (hr : Reach cfg script s)
    (ht : terminal cfg s = true) :
    s.mpc = .done ∨ ∃ i p, s.mpc = .jJoin i ∧ Cmd.join i ∈ script ∧ s.players[i]? = some p ∧
      p.pc = .goWait ∧ p.go = false := by
  rcases terminal_shape hr ht with h | ⟨i, p, hm, hp, hpc, hgo⟩
  · exact Or.inl h
  · rcases hm with hm | hm
    · exact Or.inr ⟨i, p, hm, (scr_reach hr).cur _ (by rw [hm]; rfl), hp, hpc, hgo⟩
    · rcases gc_reach hf hu hr (by rw [hm]; rfl) i p hp with h | h
      · rw [hgo] at h; cases h
      · rw [hpc] at h; cases h

/-- **C17.12 close_returns_wait** — the `wait=True` clause, repaired `stop()` (it holds for
`wait=False` too): if no player that is still in its loop is paused (has its `go` event cleared)
whenever the script calls `close` — nothing can resume it afterwards, the control script being
inside `close` — then every maximal run of a script without `join` calls ends with the script
completed.  Without the hypothesis `close(wait=True)` blocks for ever: `deadlock_pause_close_wait`
(known finding D10b). -/
theorem close_returns_wait (cfg : Cfg) (script : List Cmd) (s : State) (hf : cfg.fixed = true)
    (hu : UnpausedAtClose cfg script) (hj : ∀ i, Cmd.join i ∉ script) (hr : Reach cfg script s)
    (ht : terminal cfg s = true) : s.mpc = .done := by
  rcases close_never_blocks_wait hf hu hr ht with h | ⟨i, _, _, hmem, _⟩
  · exact h
  · exact absurd hmem (hj i)

/-- **C17.12b close_returns_wait_checked** — the hypothesis of `close_returns_wait` as a decidable
check of the script alone: the `go` events are written by the control script only, so whether a
player is paused at the first `close` is a function of the script (`closeUnpaused`: interpret
play / pause / play / stop over one flag per player created so far; at the first `close` every
flag is set). -/
theorem close_returns_wait_checked (cfg : Cfg) (script : List Cmd) (s : State)
    (hf : cfg.fixed = true) (hc : closeUnpaused cfg script = true) (hj : ∀ i, Cmd.join i ∉ script)
    (hr : Reach cfg script s) (ht : terminal cfg s = true) : s.mpc = .done :=
  close_returns_wait cfg script s hf (unpaused_of_check hc) hj hr ht

/-- non-vacuity: `wait=True`, a player paused and resumed before `close`; and the check rejects
the script of known finding D10b -/
example : (runSched ⟨true, true, []⟩ (init [.play [101, 102, 103] 2, .ctl .pause 0, .ctl .resume 0, .close])
    (mkSched [0,0,0,0,0,1,0,0,0,1,1,1,0,0,0,1,1,1,0,0,0,1,1,1,0,1,1,1,0,0,0,0,0])).1.mpc = .done :=
  close_returns_wait_checked _ _ _ rfl (by decide) (by simp) (reach_runSched _ Reach.init) (by decide)

example : closeUnpaused ⟨true, true, []⟩ [.play [101] 2, .ctl .pause 0, .close] = false := by decide

/-- **C17.13 shutdown** — once the control script has finished in a terminal state and the script
contained a `close`: that `close` has returned, every device stream is closed, `_threads` is
empty, the backend was terminated exactly once and NO player thread is alive. -/
theorem shutdown {cfg : Cfg} {script : List Cmd} {s : State} (hr : Reach cfg script s)
    (ht : terminal cfg s = true) (hd : s.mpc = .done) (hc : Cmd.close ∈ script) :
    (∃ al n, Ev.closeOk al n ∈ s.log) ∧ closedAfter s = true ∧ noneAlive s = true ∧
      s.terminated = 1 :=
  after_done hr ht hd hc

/-- **C17.13b shutdown_fixed** — the liveness clause in the words of the property, repaired
`stop()`, `wait=False`: EVERY schedule of a script that calls `close` (and never `join`s), continued
as long as some thread is enabled, reaches in at most `stepBound cfg script` steps a state where
`close` has returned, all streams are closed, the backend is terminated exactly once and no player
is alive — whatever was paused. -/
theorem shutdown_fixed (cfg : Cfg) (script : List Cmd) (hf : cfg.fixed = true)
    (hw : cfg.wait = false) (hj : ∀ i, Cmd.join i ∉ script) (hc : Cmd.close ∈ script)
    (sched : List Tid) (hrun : (runSched cfg (init script) sched).2 = []) :
    sched.length ≤ stepBound cfg script ∧
    (terminal cfg (runSched cfg (init script) sched).1 = true →
      (runSched cfg (init script) sched).1.mpc = .done ∧
      (∃ al n, Ev.closeOk al n ∈ (runSched cfg (init script) sched).1.log) ∧
      closedAfter (runSched cfg (init script) sched).1 = true ∧
      noneAlive (runSched cfg (init script) sched).1 = true ∧
      (runSched cfg (init script) sched).1.terminated = 1) := by
  have hr : Reach cfg script (runSched cfg (init script) sched).1 := reach_runSched sched Reach.init
  refine ⟨?_, fun ht => ?_⟩
  · have := runSched_phi sched (Reach.init (cfg := cfg) (script := script)) hrun
    unfold stepBound; omega
  · have hd := close_returns_fixed cfg script _ hf hw hj hr ht
    exact ⟨hd, after_done hr ht hd hc⟩

/-- non-vacuity of `shutdown_fixed`: a maximal run with a paused player -/
example : let s := (runSched ⟨false, true, []⟩ (init [.play [101] 2, .ctl .pause 0, .close])
      (mkSched ([0,0,0,0,0,0,0,0,0,0,0,0,1,1,1,1,0,0,0] ++ [1,1,1,1,1,1,0,0,0,0,0]))).1
    (terminal ⟨false, true, []⟩ s = true ∧ Ev.closeOk [false] 0 ∈ s.log ∧ noneAlive s = true) := by
  decide

/-- **C17.13c shutdown_no_pause** — the same for scripts without `pause` calls: both variants of
`stop()`, wait true ("after waiting for all audio") or false, `join` calls allowed. -/
theorem shutdown_no_pause (cfg : Cfg) (script : List Cmd) (hn : NoPause script)
    (hc : Cmd.close ∈ script) (sched : List Tid)
    (hrun : (runSched cfg (init script) sched).2 = []) :
    sched.length ≤ stepBound cfg script ∧
    (terminal cfg (runSched cfg (init script) sched).1 = true →
      allDone (runSched cfg (init script) sched).1 = true ∧
      (∃ al n, Ev.closeOk al n ∈ (runSched cfg (init script) sched).1.log) ∧
      closedAfter (runSched cfg (init script) sched).1 = true ∧
      (runSched cfg (init script) sched).1.terminated = 1) := by
  have hr : Reach cfg script (runSched cfg (init script) sched).1 := reach_runSched sched Reach.init
  refine ⟨?_, fun ht => ?_⟩
  · have := runSched_phi sched (Reach.init (cfg := cfg) (script := script)) hrun
    unfold stepBound; omega
  · have ha := close_returns_no_pause cfg script _ hn hr ht
    have hd : (runSched cfg (init script) sched).1.mpc = .done := by
      unfold allDone at ha
      simp only [Bool.and_eq_true, beq_iff_eq] at ha
      exact ha.1
    obtain ⟨h1, h2, _, h4⟩ := after_done hr ht hd hc
    exact ⟨ha, h1, h2, h4⟩

/-- non-vacuity of `shutdown_no_pause`: its hypotheses hold on a maximal run of two players
(`wait=True`, code as it was, `stop` of one and `join` of the other) -/
example : closedAfter (runSched ⟨true, false, []⟩
      (init [.play [101, 102] 1, .play [201] 1, .ctl .stop 0, .join 1, .close])
      (mkSched [0,0,0,0,0,1,0,0,0,1,1,1,0,0,1,2,2,2,0,0,0,2,2,2,0,1,1,2,2,1,0,0,1,1,0,0,0,0])).1 = true :=
  ((shutdown_no_pause _ _ (by intro i h; simp at h) (by simp) _ (by decide)).2 (by decide)).2.2.1

/-- **C17.13d shutdown_wait** — and for `wait=True` (or false) with the repaired `stop()`, when
no player is paused at the time `close` is called. -/
theorem shutdown_wait (cfg : Cfg) (script : List Cmd) (hf : cfg.fixed = true)
    (hu : UnpausedAtClose cfg script) (hj : ∀ i, Cmd.join i ∉ script) (hc : Cmd.close ∈ script)
    (sched : List Tid) (hrun : (runSched cfg (init script) sched).2 = []) :
    sched.length ≤ stepBound cfg script ∧
    (terminal cfg (runSched cfg (init script) sched).1 = true →
      (runSched cfg (init script) sched).1.mpc = .done ∧
      (∃ al n, Ev.closeOk al n ∈ (runSched cfg (init script) sched).1.log) ∧
      closedAfter (runSched cfg (init script) sched).1 = true ∧
      noneAlive (runSched cfg (init script) sched).1 = true ∧
      (runSched cfg (init script) sched).1.terminated = 1) := by
  have hr : Reach cfg script (runSched cfg (init script) sched).1 := reach_runSched sched Reach.init
  refine ⟨?_, fun ht => ?_⟩
  · have := runSched_phi sched (Reach.init (cfg := cfg) (script := script)) hrun
    unfold stepBound; omega
  · have hd := close_returns_wait cfg script _ hf hu hj hr ht
    exact ⟨hd, after_done hr ht hd hc⟩

/-- … with the hypothesis as the decidable check of the script -/
theorem shutdown_wait_checked (cfg : Cfg) (script : List Cmd) (hf : cfg.fixed = true)
    (hu : closeUnpaused cfg script = true) (hj : ∀ i, Cmd.join i ∉ script) (hc : Cmd.close ∈ script)
    (sched : List Tid) (hrun : (runSched cfg (init script) sched).2 = []) :
    sched.length ≤ stepBound cfg script ∧
    (terminal cfg (runSched cfg (init script) sched).1 = true →
      (runSched cfg (init script) sched).1.mpc = .done ∧
      (∃ al n, Ev.closeOk al n ∈ (runSched cfg (init script) sched).1.log) ∧
      closedAfter (runSched cfg (init script) sched).1 = true ∧
      noneAlive (runSched cfg (init script) sched).1 = true ∧
      (runSched cfg (init script) sched).1.terminated = 1) :=
  shutdown_wait cfg script hf (unpaused_of_check hu) hj hc sched hrun

/-- non-vacuity of `shutdown_wait_checked` (`wait=True`, pause and resume before `close`) -/
example : let s := (runSched ⟨true, true, []⟩
      (init [.play [101, 102, 103] 2, .ctl .pause 0, .ctl .resume 0, .close])
      (mkSched [0,0,0,0,0,1,0,0,0,1,1,1,0,0,0,1,1,1,0,0,0,1,1,1,0,1,1,1,0,0,0,0,0])).1
    (terminal ⟨true, true, []⟩ s = true ∧ Ev.closeOk [false] 0 ∈ s.log ∧ noneAlive s = true ∧
      (s.players.map (·.written)) = [[[101, 102], [103, 0]]]) := by
  decide

/-- **C17.14 wait_close_delivers_all** — "after waiting for all audio when wait is true": with
`wait=True` `close` never stops a player, so if the script itself never calls `stop()`, then once
a `close` has returned EVERY device stream has received its whole chunk sequence (the audio
followed by the zero padding, `chunks_are_padded_audio`) — for every schedule, both variants of
`stop()`. -/
theorem wait_close_delivers_all {cfg : Cfg} {script : List Cmd} {s : State} (hw : cfg.wait = true)
    (hns : ∀ i, Cmd.ctl .stop i ∉ script) (hr : Reach cfg script s)
    (al : List Bool) (n : Nat) (hc : Ev.closeOk al n ∈ s.log)
    (k : Nat) (p : Player) (hp : s.players[k]? = some p) :
    p.written = playChunks p.cs p.audio p.fail := by
  have hca := closed_after_close hr al n hc
  have hex : exiting p = true := by
    unfold closedAfter at hca
    simp only [Bool.and_eq_true, List.all_eq_true] at hca
    exact (hca.2 p (List.mem_of_getElem? hp)).2
  have hal : afterLoop p.pc = true := by
    revert hex; unfold exiting; cases p.pc <;> simp [afterLoop]
  exact (delivered_prefix hr k p hp).2.1 hal ((hn_reach hw hns hr).noHalt k p hp)

/-- non-vacuity: `wait=True`, pause and resume, three samples in chunks of two -/
example : let s := (runSched ⟨true, true, []⟩
      (init [.play [101, 102, 103] 2, .ctl .pause 0, .ctl .resume 0, .close])
      (mkSched [0,0,0,0,0,1,0,0,0,1,1,1,0,0,0,1,1,1,0,0,0,1,1,1,0,1,1,1,0,0,0,0,0])).1
    (Ev.closeOk [false] 0 ∈ s.log ∧ s.players.map (·.written) = [[[101, 102], [103, 0]]]) := by
  decide


/-! ### the fine-grained system: every pull of a sample from a played iterable is a step

`ALV.Model.C17Fine`: between two writes a player pulls its samples one at a time into its chunk
buffer (`Asm`), and any other thread may run between two pulls — the granularity at which the tie
explores the real code with scheduler-aware iterables (both chunking strategies, 2–3 players).
`fine_assembly_own_samples` is the invariant that interference through anything shared between
the chunk generators would break; `fine_refines` says that, when no iterable raises, the fine
system does nothing the coarse one cannot do, so every theorem above holds for it. -/

/-- schedules of the fine system, as lists of numbers -/
def fineRun (fc : FCfg) (script : List Cmd) (l : List Nat) : FState := (runSchedF fc (initF script) (mkSched l)).1

/-- **C17.15 fine_assembly_own_samples** — the central invariant of chunk assembly, for EVERY
schedule (pre-emption between any two pulls), any number of players, any chunk sizes, any script,
iterables that raise included, with or without the repairs: what a device stream has received,
then the player's chunk buffer, then the samples it has not pulled yet, is exactly that player's
own audio (or, once its last chunk was zero padded, the stream holds the audio followed by zeros
and nothing is left); the buffer never exceeds the chunk size; every chunk written has exactly
`cs` samples.  No sample of another player can be in it: "nothing lost, duplicated or reordered,
whatever the interleaving of player threads". -/
theorem fine_assembly_own_samples {fc : FCfg} {script : List Cmd} {fs : FState}
    (h : ReachF fc script fs) (k : Nat) (p : Player) (a : Asm)
    (hp : fs.base.players[k]? = some p) (ha : fs.asm[k]? = some a) :
    (p.written.flatten ++ a.buf ++ a.rest = p.audio ∨
      (a.rest = [] ∧ a.buf = [] ∧ ∃ n, p.written.flatten = p.audio ++ List.replicate n 0)) ∧
    a.buf.length ≤ p.cs ∧ (∀ c ∈ p.written, c.length = p.cs) ∧
    fs.asm.length = fs.base.players.length := by
  have inv := own_reach h
  obtain ⟨h1, h2, h3⟩ := inv.2 k p a hp ha
  exact ⟨h2, h1, h3, inv.1⟩

/-- script and configuration of the examples: two players, chunk size 2, `wait=True`, no failure -/
def exFc : FCfg := ⟨⟨true, true, []⟩, false⟩
def exScript : List Cmd := [.play [101, 102, 103] 2, .play [201, 202] 2, .close]

/-- non-vacuity: player 0 is pre-empted after its first pull, player 1 pulls one sample, player 0
goes on: the buffers hold `[101, 102]` and `[201]`, never a mixture -/
example : (fineRun exFc exScript [0,0,0,0,0,0,0,0,0,0,0,0,0,0, 1,1, 2,2, 1]).asm.map (·.buf) =
      [[101, 102], [201]] ∧
    (fineRun exFc exScript [0,0,0,0,0,0,0,0,0,0,0,0,0,0, 1,1, 2,2, 1]).asm.map (·.rest) =
      [[103], [202]] ∧
    pulling (fineRun exFc exScript [0,0,0,0,0,0,0,0,0,0,0,0,0,0, 1,1, 2,2, 1]) 1 = true := by decide

/-- **C17.15b pull_moves_one_sample** — what the tie labels `it<k>.pull` (`pulling`): the player is
at `write` with a chunk that is not complete; its step is always enabled and moves exactly ONE sample
from the unpulled rest of ITS OWN iterable to the end of ITS OWN chunk buffer, changing nothing else
(no device stream, no other player's buffer) — or, when nothing is left and the iterable raises, it
is the exception step (to the epilogue with the repaired `run`, to the thread's death without). -/
theorem pull_moves_one_sample (fc : FCfg) (fs fs' : FState) (i : Nat)
    (hpull : pulling fs i = true) (h : stepF fc fs (.player i) = some fs') :
    enabledF fc fs (.player i) = true ∧
    ∃ p a, fs.base.players[i]? = some p ∧ fs.asm[i]? = some a ∧ p.pc = .write ∧
      a.buf.length ≠ p.cs ∧
      ((∃ x r, a.rest = x :: r ∧ fs'.base = fs.base ∧
          fs'.asm = fs.asm.set i { a with rest := r, buf := a.buf ++ [x] }) ∨
       (a.rest = [] ∧ a.fail = true ∧ fs'.asm = fs.asm ∧
          fs'.base = setP fs.base i { p with pc := if fc.dieFixed then .finAcq else .done })) := by
  refine ⟨pull_enabled fc fs i hpull, ?_⟩
  have hpull' := hpull
  unfold pulling at hpull'
  cases hp : fs.base.players[i]? with
  | none => rw [hp] at hpull'; simp at hpull'
  | some p =>
    cases ha : fs.asm[i]? with
    | none => rw [hp, ha] at hpull'; simp at hpull'
    | some a =>
      rw [hp, ha] at hpull'
      simp only [Bool.and_eq_true, beq_iff_eq, Bool.not_eq_true'] at hpull'
      refine ⟨p, a, rfl, rfl, hpull'.1, ?_, pull_step fc fs fs' i p a hp ha hpull h⟩
      intro hl
      have := hpull'.2
      unfold chunkReady at this
      simp [hl] at this

/-- non-vacuity: the pull of `202` by player 1 while player 0's buffer holds `[101, 102]` -/
example : let fs := fineRun exFc exScript [0,0,0,0,0,0,0,0,0,0,0,0,0,0, 1,1, 2,2, 1]
    (pulling fs 1 = true ∧ (stepF exFc fs (.player 1)).map (fun f => f.asm.map (·.buf)) =
      some [[101, 102], [201, 202]]) := by decide

/-- **C17.16e fine_delivered_is_spec** — the fine assembly against the SPEC function: in every
reachable state of the fine system (pre-emption between any two pulls, any number of players) a
device stream holds a prefix of `chunksSpec cs audio` — groups of exactly `cs` frames of the audio
followed by the zero padding — and all of it once its player left the loop un-stopped. -/
theorem fine_delivered_is_spec {fc : FCfg} {script : List Cmd} {fs : FState} (hsd : Sound fc)
    (hpos : PosCs script) (h : ReachF fc script fs) (k : Nat) (p : Player)
    (hp : fs.base.players[k]? = some p) :
    p.written <+: chunksSpec p.cs p.audio ∧
    (afterLoop p.pc = true → p.halting = false → p.fail = false →
      p.written = chunksSpec p.cs p.audio) ∧
    deliveredOK p.cs p.audio p.written (afterLoop p.pc && !p.halting && !p.fail) = true := by
  have hr := (sim_reach hsd hpos h).1
  obtain ⟨hl, hall⟩ := (sim_reach hsd hpos h).2
  have hk : k < fs.asm.length := by have := lt_of_getElem? hp; omega
  have hcs : 0 < p.cs := (hall k p fs.asm[k] hp (List.getElem?_eq_getElem hk)).pos
  exact delivered_is_spec hr k p hp hcs

/-- **C17.16 fine_refines** — refinement: when no played iterable raises (and chunk sizes are
positive), the coarse state carried by ANY reachable state of the fine system is reachable in the
coarse system with the same script and configuration: a fine step is a coarse step or a stutter
step (a pull).  Every safety theorem above therefore holds of the fine system. -/
theorem fine_refines {fc : FCfg} {script : List Cmd} {fs : FState} (hsd : Sound fc)
    (hpos : PosCs script) (h : ReachF fc script fs) : Reach fc.cfg script fs.base :=
  (sim_reach hsd hpos h).1

/-- **C17.16b fine_delivered_prefix** — `delivered_prefix` for the fine system, all schedules -/
theorem fine_delivered_prefix {fc : FCfg} {script : List Cmd} {fs : FState} (hsd : Sound fc)
    (hpos : PosCs script) (h : ReachF fc script fs) (k : Nat) (p : Player)
    (hp : fs.base.players[k]? = some p) :
    p.written <+: chunksOf p.cs p.audio ∧
    (afterLoop p.pc = true → p.halting = false → p.written = playChunks p.cs p.audio p.fail) ∧
    (afterLoop p.pc = true → p.halting = false → p.fail = false →
      p.written = chunksOf p.cs p.audio) :=
  delivered_prefix (fine_refines hsd hpos h) k p hp

/-- **C17.16c fine_delivered_complete** — `delivered_complete` for the fine system: a player that
left its loop un-stopped has delivered its audio followed by the zero padding, in chunks of `cs` -/
theorem fine_delivered_complete {fc : FCfg} {script : List Cmd} {fs : FState} (hsd : Sound fc)
    (hpos : PosCs script) (h : ReachF fc script fs) (k : Nat) (p : Player)
    (hp : fs.base.players[k]? = some p) (ha : afterLoop p.pc = true) (hh : p.halting = false)
    (hf : p.fail = false) :
    p.written.flatten = p.audio ++ List.replicate (padLen p.cs p.audio.length) 0 ∧
    ∀ c ∈ p.written, c.length = p.cs := by
  have hr := fine_refines hsd hpos h
  obtain ⟨hl, hall⟩ := (sim_reach hsd hpos h).2
  have hk : k < fs.asm.length := by have := lt_of_getElem? hp; omega
  have hcs : 0 < p.cs := (hall k p fs.asm[k] hp (List.getElem?_eq_getElem hk)).pos
  exact delivered_complete hr k p hp hcs ha hh hf

/-- **C17.16d fine_safety** — the other safety clauses for the fine system: backend terminated at
most once; no backend call PortAudio would refuse; `close`'s assertion holds; and once the backend
is terminated everything is closed -/
theorem fine_safety {fc : FCfg} {script : List Cmd} {fs : FState} (hsd : Sound fc)
    (hpos : PosCs script) (h : ReachF fc script fs) :
    fs.base.terminated ≤ 1 ∧ fs.base.perr = false ∧ Ev.closeAssertionError ∉ fs.base.log ∧
    (1 ≤ fs.base.terminated → closedAfter fs.base = true) := by
  have hr := fine_refines hsd hpos h
  exact ⟨terminate_once hr, backend_protocol hr, (close_assertion_holds hr).1, closed_after hr⟩

/-- a complete fine run of the two players with pre-emptions inside chunk assembly -/
def exFull : List Nat :=
  [0,0,0,0,0,0,0,0,0,0,0,0,0,0, 1,1, 2,2, 1,1,1,1,1,1,1,1,1,1,1, 0,0,0, 2,2,2,2,2,2,2,2, 0,0,0,0,0]

/-- non-vacuity of the refinement theorems: the hypotheses hold, the run ends with both streams
holding their own audio, everybody finished -/
example : ((fineRun exFc exScript exFull).base.players.map (·.written) =
      [[[101, 102], [103, 0]], [[201, 202]]]) ∧
    (allDone (fineRun exFc exScript exFull).base = true) ∧ Sound exFc ∧
    (posCsB exScript = true) := by
  refine ⟨by decide, by decide, Or.inr ?_, by decide⟩
  intro b hb; cases hb

/-- **C17.17 fine_terminal_iff** — a thread can move in the fine system exactly when it can in the
coarse state (a pull is always possible, a write needs what the coarse write needs): terminal
states, hence deadlocks, correspond. -/
theorem fine_terminal_iff {fc : FCfg} {script : List Cmd} {fs : FState} (hsd : Sound fc)
    (hpos : PosCs script) (h : ReachF fc script fs) :
    terminalF fc fs = terminal fc.cfg fs.base :=
  terminalF_eq fc fs (sim_reach hsd hpos h).2

/-- **C17.18 fine_rank_decreases** — every step of every thread of the fine system decreases the
rank `phiF` = coarse rank + samples of the `play` calls still to be issued + samples still to be
pulled: no fairness assumption is needed for the fine system either. -/
theorem fine_rank_decreases {fc : FCfg} {script : List Cmd} {fs fs' : FState} {t : Tid}
    (hsd : Sound fc) (hpos : PosCs script) (hr : ReachF fc script fs)
    (h : stepF fc fs t = some fs') : phiF fc fs' < phiF fc fs :=
  phiF_step hsd hpos hr h

/-- **C17.18b fine_steps_bounded** — every fine run is finite: at most the coarse bound plus one
step for each sample played. -/
theorem fine_steps_bounded (fc : FCfg) (script : List Cmd) (hsd : Sound fc) (hpos : PosCs script)
    (sched : List Tid) (h : (runSchedF fc (initF script) sched).2 = []) :
    sched.length ≤ stepBound fc.cfg script + audW script := by
  have := runSchedF_phiF hsd hpos sched (ReachF.init (fc := fc) (script := script)) h
  rw [phiF_init] at this
  unfold stepBoundF at this
  omega

/-- **C17.18c fine_maximal_run_exists** — every executed fine schedule can be continued to a state
where nobody is enabled. -/
theorem fine_maximal_run_exists (fc : FCfg) (script : List Cmd) (hsd : Sound fc)
    (hpos : PosCs script) (sched : List Tid) (h : (runSchedF fc (initF script) sched).2 = []) :
    ∃ ext, (runSchedF fc (initF script) (sched ++ ext)).2 = [] ∧
      terminalF fc (runSchedF fc (initF script) (sched ++ ext)).1 = true := by
  have hr : ReachF fc script (runSchedF fc (initF script) sched).1 :=
    reachF_runSchedF sched ReachF.init
  obtain ⟨ext, h1, h2⟩ := exists_maximalF hsd hpos _ _ hr (Nat.le_refl _)
  have happ := runSchedF_append fc sched (initF script) ext h
  exact ⟨ext, by rw [happ]; exact h1, by rw [happ]; exact h2⟩

/-- **C17.19 fine_shutdown** — the liveness clause for the fine system (pre-emption anywhere
inside chunk assembly): every fine schedule that was executed to its end is bounded, and if nobody
is enabled at its end then — under the hypotheses of `close_returns_fixed` (repaired `stop()`,
`wait=False`, whatever was paused), or of `close_returns_no_pause` (no `pause` call, both
variants, any `wait`), or of `close_returns_wait_checked` (repaired `stop()`, nobody paused when
`close` is called) — the script has completed, `close` has returned, every stream is closed, the
backend was terminated exactly once and no player is alive. -/
theorem fine_shutdown (fc : FCfg) (script : List Cmd) (hsd : Sound fc) (hpos : PosCs script)
    (hc : Cmd.close ∈ script)
    (hyp : (fc.cfg.fixed = true ∧ fc.cfg.wait = false ∧ ∀ i, Cmd.join i ∉ script) ∨
           NoPause script ∨
           (fc.cfg.fixed = true ∧ closeUnpaused fc.cfg script = true ∧ ∀ i, Cmd.join i ∉ script))
    (sched : List Tid) (hrun : (runSchedF fc (initF script) sched).2 = []) :
    sched.length ≤ stepBound fc.cfg script + audW script ∧
    (terminalF fc (runSchedF fc (initF script) sched).1 = true →
      (runSchedF fc (initF script) sched).1.base.mpc = .done ∧
      (∃ al n, Ev.closeOk al n ∈ (runSchedF fc (initF script) sched).1.base.log) ∧
      closedAfter (runSchedF fc (initF script) sched).1.base = true ∧
      noneAlive (runSchedF fc (initF script) sched).1.base = true ∧
      (runSchedF fc (initF script) sched).1.base.terminated = 1) := by
  refine ⟨fine_steps_bounded fc script hsd hpos sched hrun, fun ht => ?_⟩
  have hrf : ReachF fc script (runSchedF fc (initF script) sched).1 :=
    reachF_runSchedF sched ReachF.init
  have hr := fine_refines hsd hpos hrf
  rw [fine_terminal_iff hsd hpos hrf] at ht
  have hd : (runSchedF fc (initF script) sched).1.base.mpc = .done := by
    rcases hyp with ⟨hf, hw, hj⟩ | hn | ⟨hf, hu, hj⟩
    · exact close_returns_fixed fc.cfg script _ hf hw hj hr ht
    · have ha := close_returns_no_pause fc.cfg script _ hn hr ht
      unfold allDone at ha
      simp only [Bool.and_eq_true, beq_iff_eq] at ha
      exact ha.1
    · exact close_returns_wait_checked fc.cfg script _ hf hu hj hr ht
  exact ⟨hd, after_done hr ht hd hc⟩

/-- **C17.19b fine_wait_close_delivers_all** — `wait=True`, no `stop()` call: once `close` has
returned in the fine system every device stream holds its whole chunk sequence. -/
theorem fine_wait_close_delivers_all {fc : FCfg} {script : List Cmd} {fs : FState}
    (hsd : Sound fc) (hpos : PosCs script) (hw : fc.cfg.wait = true)
    (hns : ∀ i, Cmd.ctl .stop i ∉ script) (h : ReachF fc script fs)
    (al : List Bool) (n : Nat) (hc : Ev.closeOk al n ∈ fs.base.log)
    (k : Nat) (p : Player) (hp : fs.base.players[k]? = some p) :
    p.written = playChunks p.cs p.audio p.fail :=
  wait_close_delivers_all hw hns (fine_refines hsd hpos h) al n hc k p hp

/-! ### a played iterable that raises (known finding D21) -/

/-- the code as it is (`dieFixed = false`): `play(it)` with an iterable that raises at its second
pull, then `close()` (`wait=True`), under the schedule found on the real code by the harness -/
def dieFc : FCfg := ⟨⟨true, true, [true]⟩, false⟩
def dieState : FState := fineRun dieFc [.play [101] 2, .close] [0,0,0,0,0,0,0,0,0, 1,1,1, 0]

/-- **C17.20 die_close_spins** — an iterable that raises kills the player thread before its
epilogue: the thread is finished (`join` returns at once) but still first in `_threads`, its
device stream still open; and from ANY state of that shape (`Spinning`) the loop in `close` — take
the lock and `_threads[0]`, release, `join` — can be repeated for ever without changing anything:
`close()` never returns (no `close` event is ever logged).  Known finding D21. -/
theorem die_close_spins :
    Spinning dieFc dieState 0 ∧ dieState.base.players.map (·.sst) = [.active] ∧
    (∀ (fc : FCfg) (fs : FState) (i : Nat), Spinning fc fs i → ∀ n, ∃ fs',
      runSchedF fc fs (List.replicate n [Tid.main, .main, .main]).flatten = (fs', []) ∧
      fs'.base.mpc = .kMAcq ∧ fs'.base.log = fs.base.log) := by
  refine ⟨⟨by decide, by decide, by decide, by decide, by decide, by decide⟩, by decide, ?_⟩
  intro fc fs i h n
  exact spin_forever n h

/-- **C17.20b die_fixed_close_returns** — with `try … finally` around the loop of `run`
(proposed_fixes/D21-player-dies-close-spins.diff, `dieFixed = true`) the same history under the
same schedule, continued, runs `close` to its end: the chunks completed before the exception
were delivered, the stream is closed, the backend terminated once, nobody is alive. -/
theorem die_fixed_close_returns :
    let fc : FCfg := ⟨⟨true, true, [true]⟩, true⟩
    let fs := fineRun fc [.play [101, 102, 103] 2, .close]
      [0,0,0,0,0,0,0,0,0, 1,1,1,1,1,1,1,1,1,1,1,1, 0,0,0,0,0]
    (fs.base.log = [.playOk 0, .closeOk [false] 0] ∧ closedAfter fs.base = true ∧
      noneAlive fs.base = true ∧ fs.base.players.map (·.written) = [[[101, 102]]] ∧
      terminalF fc fs = true) := by decide

/-- **C17.21 fine_shutdown_with_raising_iterables** — the general shutdown theorem for iterables
that raise, with the repair of `run` (`dieFixed = true`: `try … finally` around the loop, what
/repo has since dd9cc91): for EVERY script that calls `close` (chunk sizes positive, no `join`),
any number of players, any set of played iterables that raise at their end, repaired `stop()`,
`wait=False`, EVERY fine schedule (pre-emption between any two pulls): when nobody can move any
more the script has completed, every device stream is closed, `_threads` is empty and no player
thread is alive.  A player whose iterable raises goes to its epilogue exactly as one that reached
the end of its audio does; the coarse system has the exception as a step of its own
(`stepPlayer`, `write` with nothing left and `fail` set) and `fine_refines` needs no `NoFail`.
(This was the PENDING statement of round 2; it is an instance of `fine_shutdown`.) -/
theorem fine_shutdown_with_raising_iterables :
  ∀ (fc : FCfg) (script : List Cmd), fc.dieFixed = true → PosCs script → Cmd.close ∈ script →
    fc.cfg.fixed = true → fc.cfg.wait = false → (∀ i, Cmd.join i ∉ script) →
    ∀ (sched : List Tid), (runSchedF fc (initF script) sched).2 = [] →
      terminalF fc (runSchedF fc (initF script) sched).1 = true →
      (runSchedF fc (initF script) sched).1.base.mpc = .done ∧
      closedAfter (runSchedF fc (initF script) sched).1.base = true ∧
      noneAlive (runSchedF fc (initF script) sched).1.base = true := by
  intro fc script hd hpos hc hf hw hj sched hrun ht
  obtain ⟨h1, _, h3, h4, _⟩ :=
    (fine_shutdown fc script (Or.inl hd) hpos hc (Or.inl ⟨hf, hw, hj⟩) sched hrun).2 ht
  exact ⟨h1, h3, h4⟩

/-- two players, the first one's iterable raises after three samples (chunks of two: one chunk is
delivered, the third sample is lost with the exception), the second one is paused when `close`
comes: a maximal run with pre-emptions inside chunk assembly -/
def raiseFc : FCfg := ⟨⟨false, true, [true, false]⟩, true⟩
def raiseScript : List Cmd := [.play [101, 102, 103] 2, .play [201, 202] 2, .ctl .pause 1, .close]
def raiseSched : List Nat :=
  [0,0,0,0,0,0,0,0,0,0,0,0,0,0, 1,1, 2,2, 1,1,1, 0,0,0, 2,2, 1,1,1,1,1,1,1, 0,0,0,0,0,0,0,0,0,
   2,2,2,2,2,2, 0,0,0,0,0]

/-- non-vacuity of `fine_shutdown_with_raising_iterables`: its hypotheses hold on that run, which
ends with nobody enabled; the first stream received exactly its one complete chunk -/
example : (runSchedF raiseFc (initF raiseScript) (mkSched raiseSched)).2 = [] ∧
    terminalF raiseFc (fineRun raiseFc raiseScript raiseSched) = true ∧
    (fineRun raiseFc raiseScript raiseSched).base.players.map (·.written) = [[[101, 102]], [[201, 202]]] ∧
    (fineRun raiseFc raiseScript raiseSched).base.log = [.playOk 0, .playOk 1, .ctlOk, .closeOk [false, false] 0] ∧
    posCsB raiseScript = true := by decide

/-! ### call shapes: `play(audio, **kwargs)` as written and what the backend is asked

`ALV.Spec.C17`: `PlayCall` (each keyword given or omitted), `openArgs` (the `pa.open` call),
`frames` / `samplesPerChunk` (frames per write, chunk size handed to `chunks`).  The tie sends the
call as written; the driver resolves the defaults with these functions, so that the chunk size of
the modelled `Cmd.play` IS `samplesPerChunk`, and compares `openArgs` with what the fake backend
received. -/

/-- **C17.22 play_defaults** — `play(audio)` with nothing else: float32, one channel, 44100 Hz,
`chunks.size` frames per buffer and per chunk, the API's default output device if one was chosen -/
theorem play_defaults (d : Nat) (api : Option Nat) :
    openArgs d api {} = { format := 1, channels := 1, rate := 44100, framesPerBuffer := d,
                          output := true, device := api } ∧
    frames d {} = d ∧ samplesPerChunk d {} = d := by
  simp [openArgs, frames, samplesPerChunk, fmtCode]

/-- **C17.22b play_omitted_is_default** — omitting a keyword is giving its default: the call as
written and the call with every default spelled out ask the same of the backend and chunk alike
(whatever `chunks.size` is at the time of the call) -/
theorem play_omitted_is_default (d : Nat) (api : Option Nat) (c : PlayCall) :
    let full : PlayCall := { chunkSize := some (c.chunkSize.getD d), dfmt := some (c.dfmt.getD "f"),
                             channels := some (c.channels.getD 1), rate := some (c.rate.getD 44100),
                             device := c.device }
    openArgs d api c = openArgs d api full ∧ samplesPerChunk d c = samplesPerChunk d full ∧
    frames d c = frames d full := by
  simp [openArgs, frames, samplesPerChunk]

/-- **C17.22c explicit_device_wins** — `output_device_index` given by the caller is passed through
whatever `api` the manager was built with; without it the API's default output device is used; the
other arguments do not depend on the API at all -/
theorem explicit_device_wins (d : Nat) (api : Option Nat) (c : PlayCall) (x : Nat) :
    (openArgs d api { c with device := some x }).device = some x ∧
    (openArgs d api { c with device := none }).device = api ∧
    { openArgs d api c with device := none } = { openArgs d none c with device := none } := by
  simp [openArgs]

/-- **C17.22d frames_per_write** — a chunk has `chunk_size * channels` samples and is written as
`chunk_size` frames, which is also `frames_per_buffer` of the device stream -/
theorem frames_per_write (d : Nat) (api : Option Nat) (c : PlayCall) :
    samplesPerChunk d c = (openArgs d api c).framesPerBuffer * (openArgs d api c).channels ∧
    (openArgs d api c).framesPerBuffer = frames d c := by
  simp [openArgs, frames, samplesPerChunk]

example : openArgs 2048 (some 7) { chunkSize := some 2, rate := some 8000, channels := some 2 } =
    { format := 1, channels := 2, rate := 8000, framesPerBuffer := 2, output := true, device := some 7 } ∧
    samplesPerChunk 2048 { chunkSize := some 2, channels := some 2 } = 4 ∧
    samplesPerChunk 3 {} = 3 := by decide

/-! ### recording streams (`AudioIO.record`, `RecStream`, the recordings loop of `close`)

`ALV.Model.C17Rec`: histories of `record` / `take` / `stop` / `close` calls of the control thread.
The tie runs the same histories on the real code with an input device that delivers known numbers
and compares every `take` result, the reads issued, the device streams' state and `_recordings`. -/

open ALV.C17Rec in
/-- **C17.23 rec_delivered_in_order** — for EVERY history: what a recording stream has handed out,
followed by what it still buffers, is exactly what its device stream delivered in the reads issued
so far, in order — nothing lost, duplicated or reordered; its device stream was closed at most
once, and exactly when its generator finished; a finished stream is not recording and buffers
nothing. -/
theorem rec_delivered_in_order (cmds : List RCmd) (i : Nat) (r : Rec)
    (h : (run C17Rec.init cmds).recs[i]? = some r) :
    r.out ++ r.buf = devData i r.cs r.reads ∧ r.closes ≤ 1 ∧ (r.closes = 1 ↔ r.done = true) ∧
    (r.done = true → r.recording = false ∧ r.buf = []) := by
  obtain ⟨h1, h2, h3⟩ := (run_si cmds _ si_init).c.recs i r h
  refine ⟨h1, ?_, ?_, h3⟩
  · rw [h2]; split <;> omega
  · rw [h2]; cases r.done <;> simp

open ALV.C17Rec in
/-- **C17.23b rec_manager_invariant** — `_recordings` holds exactly the streams whose generator has
not finished, without repetition; the backend was terminated at most once, and exactly when the
manager is finished -/
theorem rec_manager_invariant (cmds : List RCmd) :
    let s := run C17Rec.init cmds
    (∀ i, i ∈ s.recordings ↔ ∃ r, s.recs[i]? = some r ∧ r.done = false) ∧ s.recordings.Nodup ∧
    s.terminated ≤ 1 ∧ (s.terminated = 1 ↔ s.finished = true) := by
  have inv := run_si cmds _ si_init
  refine ⟨inv.c.mem, inv.c.nodup, ?_, ?_⟩
  · rw [inv.term]; split <;> omega
  · rw [inv.term]; cases (run C17Rec.init cmds).finished <;> simp

open ALV.C17Rec in
/-- **C17.23c rec_closed_after_close** — once the history contains a `close` (whatever comes before
or after it: streams never read, read half a chunk, stopped, already finished, `record` after
`close`): the manager is finished, the backend terminated exactly once, `_recordings` is empty and
EVERY recording stream ever created has finished, is not recording, and had its device stream
closed exactly once. -/
theorem rec_closed_after_close (cmds : List RCmd) (hc : RCmd.close ∈ cmds) :
    let s := run C17Rec.init cmds
    s.finished = true ∧ s.terminated = 1 ∧ s.recordings = [] ∧
    ∀ (i : Nat) (r : Rec), s.recs[i]? = some r →
      r.done = true ∧ r.closes = 1 ∧ r.recording = false ∧ r.buf = [] := by
  have inv := run_si cmds _ si_init
  have hf := run_finished cmds C17Rec.init (Or.inr hc)
  refine ⟨hf, by rw [inv.term, hf]; rfl, inv.fin hf, fun i r hr => ?_⟩
  have hd : r.done = true := by
    cases hd : r.done with
    | true => rfl
    | false =>
      have := (inv.c.mem i).mpr ⟨r, hr, hd⟩
      rw [inv.fin hf] at this; cases this
  obtain ⟨_, h2, h3⟩ := inv.c.recs i r hr
  exact ⟨hd, by rw [h2, hd]; rfl, (h3 hd).1, (h3 hd).2⟩

open ALV.C17Rec in
/-- **C17.23d rec_remove_by_identity** — the repaired `recording_finished` (c60d4c5, finding D26)
is `self._recordings = [r for r in self._recordings if r is not recst]`; the model removes with
`List.erase` on stream indices.  In every state of every history the two agree (a stream is listed at
most once), and removing a stream never disturbs another one: `take` on stream `i` leaves exactly
the streams `≠ i` that were listed, in their order. -/
theorem rec_remove_by_identity (cmds : List RCmd) (i n : Nat) :
    let s := run C17Rec.init cmds
    s.recordings.erase i = s.recordings.filter (· != i) ∧
    ((takeOn s i n).2.recordings = s.recordings ∨
     (takeOn s i n).2.recordings = s.recordings.filter (· != i)) := by
  have inv := run_si cmds _ si_init
  have e := List.Nodup.erase_eq_filter inv.c.nodup i
  refine ⟨e, ?_⟩
  unfold takeOn
  split
  · exact Or.inl rfl
  · simp only
    split
    · exact Or.inr e
    · exact Or.inl rfl

/-- non-vacuity (D26's witness): two active streams, the one that is not the oldest finishes first -/
example : (C17Rec.run C17Rec.init [.record 1, .record 1, .stop 1, .take 1 1]).recordings = [0] ∧
    (C17Rec.run C17Rec.init [.record 1, .record 1, .close]).recordings = [] ∧
    (C17Rec.run C17Rec.init [.record 1, .record 1, .close]).terminated = 1 := by decide

/-- non-vacuity: two streams (chunks of 3 and of 2), one read into the middle of its second chunk
and stopped, the other never stopped; `close` drains both, the last one first -/
example : let s := C17Rec.run C17Rec.init [.record 3, .take 0 4, .record 2, .take 1 1, .stop 0, .take 0 1, .close, .take 1 5, .record 2]
    (s.log = [.recordOk 0, .took [1000, 1001, 1002, 1003], .recordOk 1, .took [2000], .stopOk,
              .took [1004], .closeOk, .took [], .recordRefused] ∧
      s.recs.map (·.out) = [[1000, 1001, 1002, 1003, 1004, 1005], [2000, 2001]] ∧
      s.recs.map (·.reads) = [2, 1] ∧ s.recs.map (·.closes) = [1, 1] ∧ s.recordings = [] ∧
      s.terminated = 1) := by decide

/-! ### recordings, a failing `pa.open` and a raising `terminate()` in the SAME history as the players

`ALV.Model.C17Mix`: a layer over the coarse system.  Between the coarse calls the control thread may
call `io.record(…)` (one backend call, `pa.open(input=True)`) and `io.play(…)` on a backend whose
`pa.open` raises for that call (`with self.lock`, `go.set()`, `pa.open` raises, the lock is released
by the exception); `close()` drains `_recordings` (one `file_obj.close()` each, the last one first)
between its loop over `_threads` and `terminate()`; `terminate()` may raise.  The tie (`entry = "mix"`)
runs such histories on the real code under the scheduler and compares step by step. -/

/-- schedules of the mixed system, as lists of numbers (n+1 = the player whose thread object has
index n: here no `pa.open` fails before a player is created, so player n) -/
def mixRun (xc : XCfg) (script : List XCmd) (l : List Nat) : XState := (runSchedX xc (initX script) (mkSched l)).1

/-- **C17.24 mix_refines** — every step of the mixed system is a step of the coarse system or leaves
the coarse state alone, so the coarse state of ANY reachable state of the mixed system is reachable in
the coarse system with the coarse calls of the script: every safety theorem above (`delivered_is_spec`,
`terminate_once`, `closed_after`, `backend_protocol`, `lock_order`, …) holds with recordings, failing
opens and a raising terminate in the history. -/
theorem mix_refines {xc : XCfg} {script : List XCmd} {x : XState} (h : ReachX xc script x) :
    Reach xc.cfg (projScript script) x.base ∧
    (∀ (t : Tid) (x' : XState), stepX xc x t = some x' →
      x'.base = x.base ∨ step xc.cfg x.base t = some x'.base) :=
  ⟨mix_reach h, fun t x' hs => stepX_base xc x x' t hs⟩

/-- **C17.24b mix_delivered** — delivery with both kinds of stream active: every player's device
stream holds a prefix of `chunksSpec`, all of it once the player left its loop un-stopped. -/
theorem mix_delivered {xc : XCfg} {script : List XCmd} {x : XState} (h : ReachX xc script x)
    (k : Nat) (p : Player) (hp : x.base.players[k]? = some p) (hcs : 0 < p.cs) :
    p.written <+: chunksSpec p.cs p.audio ∧
    (afterLoop p.pc = true → p.halting = false → p.fail = false →
      p.written = chunksSpec p.cs p.audio) :=
  ⟨(delivered_is_spec (mix_reach h) k p hp hcs).1, (delivered_is_spec (mix_reach h) k p hp hcs).2.1⟩

/-- **C17.25 mix_closed_after** — "afterwards every device stream is closed, the backend is terminated
exactly once", with recordings AND player threads in the same history, whatever the schedule: once the
backend has been terminated (only `close` does that, after its two loops) every player's stream is
closed and its thread past all backend calls (`closedAfter`), EVERY recording stream's device stream
was closed exactly once (`recsClosed`), `_threads` is empty, the backend was terminated exactly once —
whether or not `terminate()` raised — and no backend call was refused. -/
theorem mix_closed_after {xc : XCfg} {script : List XCmd} {x : XState} (h : ReachX xc script x)
    (ht : 1 ≤ x.base.terminated) :
    closedAfterX x = true ∧ x.base.terminated = 1 ∧ x.base.perr = false ∧
    (∀ r ∈ x.recs, r.closes = 1) := by
  have hr := mix_reach h
  have hc := closedAfter_of_terminated hr ht
  have hrc := recsClosed_of_terminated h ht
  refine ⟨by unfold closedAfterX; rw [hc, hrc]; rfl, ?_, backend_protocol hr, ?_⟩
  · have := terminate_once hr; omega
  · unfold recsClosed at hrc
    rw [List.all_eq_true] at hrc
    intro r hr'; simpa using hrc r hr'

/-- **C17.25b mix_recordings_invariant** — in every reachable state: a recording's device stream is
closed at most once, and a recording is still listed (not closed) only while the backend is not
terminated; the lock taken by a failing `play` is held only inside that call. -/
theorem mix_recordings_invariant {xc : XCfg} {script : List XCmd} {x : XState}
    (h : ReachX xc script x) :
    (∀ r ∈ x.recs, r.closes ≤ 1) ∧ (lastActive x.recs = none ∨ x.base.terminated = 0) ∧
    (x.shadow = true → x.xpc ≠ .idle) :=
  ⟨(xi_reach h).le1, (xi_reach h).act, (xi_reach h).sh⟩

/-- **C17.26 mix_shutdown** — close with both kinds active, in the words of the property: when the
mixed script (containing a `close`) has been issued to its end and nobody can move, `close` has
returned, every player's device stream is closed, every recording's device stream was closed exactly
once, the backend was terminated exactly once and NO player thread is alive. -/
theorem mix_shutdown {xc : XCfg} {script : List XCmd} {x : XState} (h : ReachX xc script x)
    (ht : terminalX xc x = true) (hd : scriptDone x = true) (hc : Cmd.close ∈ projScript script) :
    (∃ al n, Ev.closeOk al n ∈ x.base.log) ∧ closedAfterX x = true ∧ noneAlive x.base = true ∧
    x.base.terminated = 1 := by
  obtain ⟨hterm, hdone⟩ := terminal_of_terminalX h ht hd
  obtain ⟨h1, _, h3, h4⟩ := after_done (mix_reach h) hterm hdone hc
  exact ⟨h1, (mix_closed_after h (by omega)).1, h3, h4⟩

/-- two players, a recording opened between the two `play` calls and one before, `wait=True` -/
def mixXc : XCfg := ⟨⟨true, true, []⟩, false⟩
def mixScript : List XCmd :=
  [.ext (.record 2), .base (.play [101, 102, 103] 2), .ext (.record 1), .base (.play [201] 2), .base .close]
def mixSched : List Nat :=
  [0, 0,0,0,0,0,0, 0, 0,0,0,0,0, 0,0,0, 1,1,1,1,1,1,1,1,1,1, 0,0,0, 2,2,2,2,2,2,2,2, 0,0,0, 0,0, 0,0]

/-- non-vacuity of `mix_shutdown` / `mix_closed_after`: a complete run; the recordings own device
streams 0 and 2, the players 1 and 3; `close` closed stream 2 before stream 0 -/
example : (runSchedX mixXc (initX mixScript) (mkSched mixSched)).2 = [] ∧
    terminalX mixXc (mixRun mixXc mixScript mixSched) = true ∧
    scriptDone (mixRun mixXc mixScript mixSched) = true ∧
    (mixRun mixXc mixScript mixSched).recs.map (fun r => (r.six, r.closes)) = [(0, 1), (2, 1)] ∧
    (mixRun mixXc mixScript mixSched).six = [1, 3] ∧
    (mixRun mixXc mixScript mixSched).base.players.map (·.written) = [[[101, 102], [103, 0]], [[201, 0]]] ∧
    (mixRun mixXc mixScript mixSched).base.terminated = 1 ∧
    (mixRun mixXc mixScript (mixSched.take 41)).recs.map (·.closes) = [0, 1] := by decide

/-- **C17.27 open_failure_leaves_no_trace** — `pa.open` raising inside `play` (the call is due, the
manager lock free, the manager not finished): the control thread takes the lock, sets the new thread's
`go`, `pa.open` raises, the lock is released by the exception — four steps after which the coarse state
(players, `_threads`, locks, log) is exactly what it was: no thread was created or started, nothing was
appended to `_threads`, the manager lock is free, only the thread-object count went up; while the lock
was held, `thread_finished` of every player was blocked, as it is by the manager lock. -/
theorem open_failure_leaves_no_trace (xc : XCfg) (x : XState) (t : Nat) (rest : List (Nat × XOp))
    (hx : x.xpc = .idle) (htodo : x.todo = (t, .playFail) :: rest) (hdue : due x.base t = true)
    (hfree : x.base.mlock = none) (hfin : x.base.finished = false) :
    ∃ x1 x2 x3 x4, stepMainX xc x = some x1 ∧ stepMainX xc x1 = some x2 ∧ stepMainX xc x2 = some x3 ∧
      stepMainX xc x3 = some x4 ∧
      x4.base = x.base ∧ x4.shadow = false ∧ x4.xpc = .idle ∧ x4.todo = rest ∧ x4.recs = x.recs ∧
      x4.ghosts = x.ghosts + 1 ∧ x4.xlog = x.xlog ++ [(t, .playOpenError)] ∧
      (∀ y ∈ [x1, x2, x3], y.base = x.base ∧ y.shadow = true ∧
        ∀ i p, x.base.players[i]? = some p → p.pc = .tfAcq → stepPlayerX xc y i = none) := by
  refine ⟨{ x with shadow := true, xpc := .fGoSet }, { x with shadow := true, xpc := .fOpen },
    { x with shadow := true, xpc := .fRel },
    { x with xpc := .idle, shadow := false, ghosts := x.ghosts + 1, todo := rest,
             xlog := x.xlog ++ [(t, .playOpenError)] }, ?_, ?_, ?_, ?_, rfl, rfl, rfl, rfl, rfl, rfl, rfl, ?_⟩
  · simp [stepMainX, hx, htodo, hdue, hfree, hfin]
  · simp [stepMainX]
  · simp [stepMainX]
  · simp [stepMainX, htodo]
  · intro y hy
    simp only [List.mem_cons, List.mem_nil_iff, or_false] at hy
    rcases hy with rfl | rfl | rfl <;>
      exact ⟨rfl, rfl, fun i p hp hpc => by simp [stepPlayerX, hp, hpc]⟩

/-- non-vacuity: `play ; play (pa.open raises) ; play ; close` — the failing call is issued while the
first player is at `thread_finished`; it blocks there until the lock is released; the third call's
thread object has index 2, its device stream index 1 -/
def failScript : List XCmd :=
  [.base (.play [101] 2), .ext .playFail, .base (.play [201, 202] 2), .base .close]
example : let x := mixRun mixXc failScript [0,0,0,0,0,0, 1,1,1,1,1, 0]
    (x.shadow = true ∧ x.xpc = .fGoSet ∧ pcAt x.base 0 = some .tfAcq ∧
      enabledX mixXc x (.player 0) = false ∧ enabled mixXc.cfg x.base (.player 0) = true) := by decide
def failSched : List Nat :=
  [0,0,0,0,0,0, 1,1,1,1,1, 0,0,0,0, 0,0,0,0,0, 0,0,0, 1,1,1, 0,0,0, 2,2,2,2,2,2,2,2, 0,0,0,0,0]
example : let x := mixRun mixXc failScript failSched
    (scriptDone x = true ∧ terminalX mixXc x = true ∧ x.ghosts = 1 ∧ x.tix = [0, 2] ∧ x.six = [0, 1] ∧
      x.xlog = [(2, .playOpenError)] ∧ x.base.log = [.playOk 0, .playOk 1, .closeOk [false, false] 0] ∧
      closedAfterX x = true) := by decide

/-- **C17.28 raising_terminate_changes_nothing** — a backend whose `terminate()` raises: the call is
made all the same, exactly once, after everything else was closed; the exception leaves `close()`
through `with self.halting` (the lock is released).  No step of any thread depends on it: every
schedule runs exactly as with a `terminate()` that returns — only the caller of that `close()` sees the
backend's error instead of a return (`closeRaised`) — so after it every device stream is closed, the
backend terminated exactly once, a second `close()` does nothing and `play` raises. -/
theorem raising_terminate_changes_nothing (cfg : Cfg) (script : List XCmd) (sched : List Tid) :
    runSchedX ⟨cfg, true⟩ (initX script) sched = runSchedX ⟨cfg, false⟩ (initX script) sched ∧
    (1 ≤ (runSchedX ⟨cfg, true⟩ (initX script) sched).1.base.terminated →
      closeRaised ⟨cfg, true⟩ (runSchedX ⟨cfg, true⟩ (initX script) sched).1 = true ∧
      closedAfterX (runSchedX ⟨cfg, true⟩ (initX script) sched).1 = true ∧
      (runSchedX ⟨cfg, true⟩ (initX script) sched).1.base.terminated = 1 ∧
      (runSchedX ⟨cfg, true⟩ (initX script) sched).1.base.finished = true ∧
      (runSchedX ⟨cfg, true⟩ (initX script) sched).1.base.hlock ≠ some .main ∨
        closeBody (runSchedX ⟨cfg, true⟩ (initX script) sched).1.base.mpc = true) := by
  refine ⟨runSchedX_termFails cfg true false sched _, fun ht => ?_⟩
  have hr : ReachX ⟨cfg, true⟩ script (runSchedX ⟨cfg, true⟩ (initX script) sched).1 :=
    reachX_runSchedX sched ReachX.init
  obtain ⟨h1, h2, _⟩ := mix_closed_after hr ht
  by_cases hcb : closeBody (runSchedX ⟨cfg, true⟩ (initX script) sched).1.base.mpc = true
  · exact Or.inr hcb
  · refine Or.inl ⟨by simp [closeRaised]; omega, h1, h2, ?_, ?_⟩
    · have mi := mi_reach (mix_reach hr)
      cases hf : (runSchedX ⟨cfg, true⟩ (initX script) sched).1.base.finished with
      | true => rfl
      | false => have := mi.fin0 hf; omega
    · intro hh
      have := ((lk_reach (mix_reach hr)).1 _ hh).2
      exact hcb this

/-! ### the deadlock of the code as it is (D10) -/

/-- `close()` is blocked for ever: the control script is inside `close` (at `thread.join()`), the
player is blocked in `go.wait()`, nobody can move -/
def StuckInClose (cfg : Cfg) (s : State) : Prop :=
  terminal cfg s = true ∧ s.mpc = .kJoin 0 ∧ pcAt s 0 = some .goWait

instance (cfg : Cfg) (s : State) : Decidable (StuckInClose cfg s) := by
  unfold StuckInClose; infer_instance

/-- **C17.6 deadlock_pause_close** (as-coded model, `wait=False`): `th = play(x); th.pause();
close()` reaches a state in which `close` never returns.  Schedule found on the real code by the
scheduler harness (19 steps). -/
theorem deadlock_pause_close :
    StuckInClose ⟨false, false, []⟩
      (runSched ⟨false, false, []⟩ (init [.play [101] 2, .ctl .pause 0, .close])
        (mkSched [0,0,0,0,0,0,0,0,0,0,0,0,1,1,1,1,0,0,0])).1 := by decide

/-- the same with `wait=True` (close joins the paused player without stopping it) -/
theorem deadlock_pause_close_wait :
    StuckInClose ⟨true, false, []⟩
      (runSched ⟨true, false, []⟩ (init [.play [101] 2, .ctl .pause 0, .close])
        (mkSched [0,0,0,0,0,0,0,0,0,0,0,0,1,1,1,1])).1 := by decide

/-- … and the repaired `stop()` does not change that (`wait=True` never calls `stop()`): known
finding D10b stays.  `close_returns_wait` states the exact hypothesis this script violates. -/
theorem deadlock_pause_close_wait_fixed :
    StuckInClose ⟨true, true, []⟩
      (runSched ⟨true, true, []⟩ (init [.play [101] 2, .ctl .pause 0, .close])
        (mkSched [0,0,0,0,0,0,0,0,0,0,0,0,1,1,1,1])).1 := by decide

/-- **C17.6b** the player need not be paused when `close` starts: `pause ; play ; close` deadlocks
too when the thread had already seen the pause (it tests `halting` before `go.wait()` and `stop()`
clears `go` again afterwards).  So "no player is paused when close starts" is NOT sufficient for
`close` to return in the code as it is. -/
theorem deadlock_pause_resume_close :
    StuckInClose ⟨false, false, []⟩
      (runSched ⟨false, false, []⟩ (init [.play [101] 2, .ctl .pause 0, .ctl .resume 0, .close])
        (mkSched [0,0,0,0,0,0,0,0,0,0,1,1,1,1,0,0,0,0,0,0,0,0])).1 := by decide

/-- with the proposed fix (`Cfg.fixed`) the very same schedules run `close` to its end -/
theorem fixed_pause_close_returns :
    ((runSched ⟨false, true, []⟩ (init [.play [101] 2, .ctl .pause 0, .close])
        (mkSched ([0,0,0,0,0,0,0,0,0,0,0,0,1,1,1,1,0,0,0] ++ [1,1,1,1,1,1,0,0,0,0,0]))).1.log
      = [.playOk 0, .ctlOk, .closeOk [false] 0]) := by decide

/-- **C17.7 alive_after_close_reachable** — the strict reading "no player thread is alive when
close returns" fails on one window: a player that has already left `_threads` is not joined, and
may still have its last lock release to do (it is past every backend call: `closed_after`). -/
theorem alive_after_close_reachable :
    ((runSched ⟨true, false, []⟩ (init [.play [101] 2, .close])
        (mkSched [0,0,0,0,0,0,0,1,1,1,1,1,1,1,0,0,0,0])).1.log
      = [.playOk 0, .closeOk [true] 0]) := by decide

-- ---------------------------------------------------------------------------------------------
-- The regenerated synchronisation skeleton (translator harness/props/c17_tr.py → ALV/Gen/C17Src.lean)
-- ---------------------------------------------------------------------------------------------
open ALV.Gen.C17 in
/-- **C17.src.1 src_skeleton_is_documented** — the skeleton the translator extracted from
`audiolazy/lazy_io.py` on THIS run (for each anchored method of `AudioIO` / `AudioThread`: its lock
blocks, guards, loops, `try … finally`, and the operations on events / threads / lists / the backend, in
source order and with their nesting) is the skeleton the transition system was written against.
Reordering two operations, moving one into or out of a `with` block, dropping a `finally`, changing a
guard or adding an operation on a shared object breaks this theorem. -/
theorem src_skeleton_is_documented : skeleton = documentedSkeleton := by decide

/-- `Cfg.fixed` as the source has it (`none`: neither variant of the model) -/
def srcFixed : Option Bool :=
  variantOf (lookupSk ALV.Gen.C17.skeleton "AudioThread.stop") (lookupSk ALV.Gen.C17.skeleton "AudioThread.run")
/-- `FCfg.dieFixed` as the source has it -/
def srcDieFixed : Option Bool := dieVariantOf (lookupSk ALV.Gen.C17.skeleton "AudioThread.run")

/-- **C17.src.2 src_variant_is_modelled** — the two switches of the model are READ from the
regenerated skeleton (does `stop()` set the event, does `run` re-test `halting`; is the loop of `run`
inside `try … finally` with the epilogue as its `finally`), and the source is the repaired variant of
both (the one the liveness theorems `shutdown_fixed` / `fine_shutdown_with_raising_iterables` are
about). -/
theorem src_variant_is_modelled : srcFixed = some true ∧ srcDieFixed = some true := by decide

open ALV.Gen.C17 in
/-- **C17.src.3 src_run_is_model** — the program counters of a player thread (`PPc`, the pending
operations `stepPlayer` branches on) are exactly the yield points of the regenerated
`AudioThread.run` with `thread_finished` inlined — the same operations, in source order, each with
the same locks held (`closeStream` and the acquisition of the manager's lock under the thread's own
lock: the nesting `lock_order` is about). -/
theorem src_run_is_model : yieldsOf skeleton "AudioThread.run" = runPcs.filterMap ppcY := by decide

open ALV.Gen.C17 in
/-- **C17.src.4 src_play_is_model** — `AudioIO.play` with `AudioThread.__init__` inlined: lock,
(`ThreadError` leaves the lock), `go.set()`, `pa.open`, `start()`, unlock = `pAcq … pRel`. -/
theorem src_play_is_model (f : Bool) : yieldsOf skeleton "AudioIO.play" = playPcs.filterMap (mpcY f) := by
  cases f <;> decide

open ALV.Gen.C17 in
/-- **C17.src.5 src_close_is_model** — `AudioIO.close` with `thread.stop()` inlined (and hence
`__exit__` and `terminate`, which only call it): `halting` lock, manager lock around the look at
`_threads[0]`, the thread's own lock around the event operation of `stop()` — the one read from the
source —, `join`, (a failing `assert` leaves `halting`), `terminate`, unlock = `kHAcq … kHRel`. -/
theorem src_close_is_model :
    yieldsOf skeleton "AudioIO.close" = closePcs.filterMap (mpcY (srcFixed.getD false)) ∧
    lookupSk skeleton "AudioIO.__exit__" = .op (.call .close) .done ∧
    lookupSk skeleton "AudioIO.terminate" = .op (.call .close) .done := by decide

/-- the method behind a control call -/
def ctlMethod : Ctl → String
  | .pause => "AudioThread.pause"
  | .resume => "AudioThread.play"
  | .stop => "AudioThread.stop"

open ALV.Gen.C17 in
/-- **C17.src.6 src_ctl_is_model** — `pause` / `play` / `stop` of a thread: own lock, ONE event
operation (`clear` / `set` / the one of `stop()` read from the source), unlock = `cAcq, cEvt, cRel`;
and `stop()` is the only one that sets `halting`, before its event operation (as `cAcq` does). -/
theorem src_ctl_is_model (k : Ctl) :
    yieldsOf skeleton (ctlMethod k) = (ctlPcs k).filterMap (mpcY (srcFixed.getD false)) ∧
    ((opsOf (lookupSk skeleton (ctlMethod k))).contains (.setHalting true) = (k == .stop)) := by
  cases k <;> decide

/-- **C17.src.7 src_yields_drive_the_steps** — what the yield-point tables mean for the step
functions, for every state: a player thread is enabled exactly when the yield point of its program
counter is (blocked only by the lock it acquires there / by `go.wait()` on a cleared event); the
control thread blocks on an acquisition exactly when the lock named there is held, on a `join`
exactly until the thread is done; and the event operation at `cEvt` / `kSEvt` is the one `ctlOp`
names. -/
theorem src_yields_drive_the_steps (cfg : Cfg) (s : State) :
    (∀ i p, s.players[i]? = some p → (p.pc = .write → p.todo ≠ [] ∨ p.fail = true) →
      (stepPlayer cfg s i).isSome = (p.pc == .begin || yEnabled s p false (ppcY p.pc))) ∧
    (∀ f l held p, mpcY f s.mpc = some (.acq l, held) →
      (∀ i, mpcTarget s.mpc = some i → s.players[i]? = some p) →
      (stepMain cfg s).isSome = (lockOf s p l).isNone) ∧
    (∀ i, s.mpc = .kJoin i ∨ s.mpc = .jJoin i → (stepMain cfg s).isSome = isDone s i) ∧
    (∀ k, ctlOp cfg.fixed k = if ctlGo cfg k then Op.goSet else Op.goClear) :=
  ⟨fun i p hp hw => player_enabled_iff cfg s i p hp hw,
   fun f l held p hy hp => main_acq_enabled_iff cfg f s l held hy p hp,
   fun i h => main_join_enabled_iff cfg s i h,
   fun k => ctlGo_is_ctlOp cfg k⟩

open ALV.Gen.C17 in
/-- **C17.src.9 src_run_successor** — the SUCCESSOR STRUCTURE of `stepPlayer` is computed from the
regenerated skeleton: `nextPc skeleton gv pc` runs the control-flow interpreter of `Skel`
(`ALV.Model.C17Next`: sequencing, `with`, the `for` loop and `break`, `if` with short-circuit `or` whose
`go.is_set()` is a yield point of its own, `try … finally`, the inlined call of `thread_finished`) over
`AudioThread.run` AS READ ON THIS RUN, from the yield point the program counter `pc` stands for (`ppcY`)
to the next one, under the guard values `gv`.  For the source variant read on this run, EVERY step of
a player thread in EVERY state moves its program counter exactly there (`playerGv`: the values of
`halting`, `go.is_set()`, "another chunk", "still in `_threads`", "the iterable raises" in that state).
So the branch structure of `stepPlayer` — after `write` test `halting` then `is_set`; `stop_stream`
then `break` on `halting` else `wait`; re-test after `wait`; loop head; the exception leaving through
`finally`; the epilogue with `close` and `thread_finished` only if still registered — is no longer
hand-written: an edit of `run` that moves a `break`, a guard or the `finally` changes `nextPc skeleton`
and breaks this theorem (besides `src_skeleton_is_documented`). -/
theorem src_run_successor (cfg : Cfg) (hf : some cfg.fixed = srcFixed) (s s' : State) (i : Nat)
    (p : Player) (hp : s.players[i]? = some p) (hs : stepPlayer cfg s i = some s') :
    (s'.players[i]?).map (·.pc) = some (nextPc skeleton (playerGv s i p) p.pc) := by
  have hfix : cfg.fixed = true := by
    have := src_variant_is_modelled.1; rw [this] at hf; exact Option.some.inj hf
  exact player_pc_is_nextPc cfg hfix s s' i p hp hs

open ALV.Gen.C17 in
/-- `nextPc skeleton` is total on the program counters of `run`: every one of them is a yield point
the interpreter finds in the regenerated method (never the "not a yield point" answer `new`), under
every guard valuation; a started thread begins at `write` or, with nothing to play, at the epilogue;
and an exception at `write` (the played iterable raises) leaves through the `finally` clause: the
epilogue (`finAcq`) — the only operation the model lets raise. -/
theorem src_run_successor_total (h g m t : Bool) :
    (∀ pc ∈ PPc.begin :: runPcs,
      nextPc skeleton { halting := h, go := g, more := m, inThreads := t } pc ≠ .new) ∧
    nextPc skeleton { more := m } .begin = (if m then .write else .finAcq) ∧
    nextPc skeleton { halting := h, go := g, more := m, inThreads := t, raises := true } .write = .finAcq := by
  cases h <;> cases g <;> cases m <;> cases t <;> decide

open ALV.Gen.C17 in
/-- **C17.src.10 src_main_successor** — the same for the control thread, inside each call: at every
program counter of `stepMain` that is a yield point of `AudioIO.play` (with `AudioThread.__init__`
inlined), `AudioIO.close` (with `thread.stop()` inlined) or `pause` / `play` / `stop` of a thread
(`mpcMethod`; all but `begin`, `done` and the script's own `join`), EVERY step in EVERY state goes to
the yield point `nextY skeleton m …` computes from the regenerated method `m` under the guard values of
that state (`mainGv`: `finished`, `wait`, "`_threads[0]` raises", "the assert fails", and for the
release of the manager's lock in `close` whether the block was left by the `break`) — or the
interpreter says the method is over, exactly where the model returns to the script (`mpcReturns`: the
last lock release, also the one caused by `raise ThreadError` / the failing `assert`); until then the
program counter stays in the method.  So the branch structure of `close` (already finished → only the
lock; look at `_threads[0]` under the lock, `break` on IndexError through the release; `stop()` unless
`wait`; `join`; back to the loop head; the assert; `terminate`; release) and of `play` (raise through
the release / `go.set`, `open`, `start`, release) is read from the source. -/
theorem src_main_successor (cfg : Cfg) (hf : some cfg.fixed = srcFixed) (s s' : State) (m : String) (y : Y)
    (hm : mpcMethod s.mpc = some m) (hy : mpcY true s.mpc = some y) (hs : stepMain cfg s = some s') :
    (nextY skeleton m (mainGv cfg s) y).map (·.2) = some (if mpcReturns s.mpc then none else mpcY true s'.mpc) ∧
    (mpcReturns s.mpc = false → mpcMethod s'.mpc = some m) := by
  have hfix : cfg.fixed = true := by
    have := src_variant_is_modelled.1; rw [this] at hf; exact Option.some.inj hf
  exact main_pc_is_nextY cfg hfix s s' m y hm hy hs

/-- the method names of `mpcMethod` are those of `src_ctl_is_model` -/
theorem ctlMeth_is_ctlMethod : ctlMeth = ctlMethod := by funext k; cases k <;> rfl

open ALV.Gen.C17 in
/-- **C17.src.11 src_player_step_is_interpreted** — `stepPlayer` IS the interpretation of the
regenerated `AudioThread.run`: for the source variant read on this run, in every state, a step of
player `i` is enabled exactly when the yield point of its program counter is (`yEnabled`: the lock it
acquires there is free / the event it waits for is set), and then the WHOLE successor state is
`stepOfSkel skeleton s i p` = the effect of the operation the skeleton has at that yield point
(`applyYP`: take / release the lock the skeleton names, one backend call on the own device stream, a
write hands over the next chunk), then of the local operations the control-flow interpreter passes
(`applyLocalP`: `_threads.remove` inside `thread_finished`), then the yield point it reaches as the
new program counter.  What stays hand-written for a player thread is `applyYP` / `applyLocalP` (what
ONE operation of the vocabulary does to the state: 8 + 1 one-line cases) and `playerGv` (which state
fields the guards read) — not which operation comes where, nor under which lock, nor what follows. -/
theorem src_player_step_is_interpreted (cfg : Cfg) (hf : some cfg.fixed = srcFixed) (s : State) (i : Nat)
    (p : Player) (hp : s.players[i]? = some p) (hw : p.pc = .write → p.todo ≠ [] ∨ p.fail = true) :
    stepPlayer cfg s i =
      if p.pc == .begin || yEnabled s p false (ppcY p.pc) then some (stepOfSkel skeleton s i p) else none := by
  have hfix : cfg.fixed = true := by
    have := src_variant_is_modelled.1; rw [this] at hf; exact Option.some.inj hf
  have hen := player_enabled_iff cfg s i p hp hw
  rcases hst : stepPlayer cfg s i with _ | s'
  · rw [hst] at hen
    rw [← hen]; rfl
  · rw [hst] at hen
    rw [← hen, player_step_is_skeleton cfg hfix s s' i p hp hst]; rfl

open ALV.Gen.C17 in
/-- **C17.src.12 src_main_step_is_interpreted** — the EFFECTS of `stepMain` inside a call are read
from the regenerated methods too: at every program counter that is a yield point of `play` / `close` /
`pause` / `play` / `stop`, for the source variant read on this run, in every state, the successor state
of an enabled step is `mainStepEff skeleton …` = the effect of the operation the skeleton has at that
yield point (`applyYM`: take / release the lock named there, set / clear the event of the thread object
of the call, `pa.open`, `start()`, `terminate()`), then of the local operations the control-flow
interpreter passes on the way to the next yield point (`applyLocalM`: `finished = True` after the
`halting` lock is taken and the test failed, the creation of the thread object under the manager's lock,
`_threads.append` after `pa.open`, `halting = True` of `stop()` under the thread's lock before the
event operation) — up to the program counter, which `src_main_successor` gives, and at the last lock
release of the call the return to the script (`State.next`).  With `src_main_successor` and the
enabledness clauses of `src_yields_drive_the_steps`, what stays hand-written of `stepMain` is: what
ONE operation of the vocabulary does to the state (`applyYM` / `applyLocalM`), which state fields the
guards read (`mainGv`), the data a program counter carries (which thread), and the script level
(`nextCmd`, the logged observation). -/
theorem src_main_step_is_interpreted (cfg : Cfg) (hf : some cfg.fixed = srcFixed) (s s' : State)
    (m : String) (y : Y) (t : Option Player)
    (ht : t = match mainTarget s.mpc with
              | some j => s.players[j]?
              | none => none)
    (hm : mpcMethod s.mpc = some m) (hy : mpcY true s.mpc = some y) (hs : stepMain cfg s = some s') :
    ∃ eff, mainStepEff skeleton cfg s t m y = some eff ∧
      if mpcReturns s.mpc then ∃ e, s' = eff.next e else { s' with mpc := s.mpc } = eff := by
  have hfix : cfg.fixed = true := by
    have := src_variant_is_modelled.1; rw [this] at hf; exact Option.some.inj hf
  exact main_step_is_skeleton cfg hfix s s' m y t ht hm hy hs

/-- **C17.src.8 src_shutdown** — the liveness clause for the source AS READ: for the configuration
whose `fixed` switch is the one extracted from `lazy_io.py` on this run, `wait=False`, every schedule
of a script that calls `close` (no `join`), continued while some thread is enabled, ends with `close`
returned, all streams closed, the backend terminated once, no player alive (`shutdown_fixed`); and,
with the `dieFixed` switch extracted on this run, the same over the fine-grained system for played
iterables that raise (`fine_shutdown_with_raising_iterables`). -/
theorem src_shutdown (cfg : Cfg) (script : List Cmd) (hf : some cfg.fixed = srcFixed)
    (hw : cfg.wait = false) (hj : ∀ i, Cmd.join i ∉ script) (hc : Cmd.close ∈ script) :
    (∀ (sched : List Tid), (runSched cfg (init script) sched).2 = [] →
      terminal cfg (runSched cfg (init script) sched).1 = true →
      (runSched cfg (init script) sched).1.mpc = .done ∧
      closedAfter (runSched cfg (init script) sched).1 = true ∧
      noneAlive (runSched cfg (init script) sched).1 = true ∧
      (runSched cfg (init script) sched).1.terminated = 1) ∧
    (∀ (d : Bool), some d = srcDieFixed → PosCs script →
      ∀ (sched : List Tid), (runSchedF ⟨cfg, d⟩ (initF script) sched).2 = [] →
      terminalF ⟨cfg, d⟩ (runSchedF ⟨cfg, d⟩ (initF script) sched).1 = true →
      (runSchedF ⟨cfg, d⟩ (initF script) sched).1.base.mpc = .done ∧
      closedAfter (runSchedF ⟨cfg, d⟩ (initF script) sched).1.base = true ∧
      noneAlive (runSchedF ⟨cfg, d⟩ (initF script) sched).1.base = true) := by
  have hfix : cfg.fixed = true := by
    have := src_variant_is_modelled.1; rw [this] at hf; exact Option.some.inj hf
  refine ⟨fun sched hrun ht => ?_, fun d hd hpos sched hrun ht => ?_⟩
  · obtain ⟨h1, _, h3, h4, h5⟩ := (shutdown_fixed cfg script hfix hw hj hc sched hrun).2 ht
    exact ⟨h1, h3, h4, h5⟩
  · have hdie : d = true := by
      have := src_variant_is_modelled.2; rw [this] at hd; exact Option.some.inj hd
    exact fine_shutdown_with_raising_iterables ⟨cfg, d⟩ script hdie hpos hc hfix hw hj sched hrun ht

/-- non-vacuity of `src_shutdown`: the configuration read from the source, a paused player -/
example : some (⟨false, true, []⟩ : Cfg).fixed = srcFixed ∧ some true = srcDieFixed ∧
    (runSched ⟨false, true, []⟩ (init [.play [101] 2, .ctl .pause 0, .close])
      (mkSched ([0,0,0,0,0,0,0,0,0,0,0,0,1,1,1,1,0,0,0] ++ [1,1,1,1,1,1,0,0,0,0,0]))).2 = [] := by
  decide


end ALV.Props.C17

#write_audit "C17"
