/-
  C06 — property theorems: time-varying coefficients are sampled once per output sample.
  Only statements of the property, non-vacuity examples and the audit live here; helper lemmas
  are in `ALV.Lemmas.C06*`.
-/
import ALV.Lemmas.C06
import ALV.Common.Audit

set_option linter.unusedSectionVars false
set_option linter.unusedSimpArgs false
namespace ALV.Props.C06
open ALV.C04 ALV.C06
variable {K : Type} [Field K] [DecidableEq K]

/-- what `compileTV` builds when the sum is not empty and the gain is the constant `a0` -/
theorem compileTV_loop (b as : List (Coef K)) (a0 zero : K)
    (hnz : ¬ ((∀ c ∈ b, c = Coef.const 0) ∧ (∀ c ∈ as, c = Coef.const 0))) :
    compileTV b (Coef.const a0 :: as) zero = TIR.loop as.length (b.length - 1)
      (numAtomsTV 0 b ++ denAtomsTV 1 as)
      (if a0 = -1 then Gain.negOne else if a0 ≠ 1 then Gain.div a0 else Gain.one)
      (mShifts as.length ++ dShifts (b.length - 1)) (streamIdx 0 b) (streamIdx 1 as) := by
  have hne : ¬ (numAtomsTV 0 b ++ denAtomsTV 1 as = []) := by rwa [dataSumTV_eq_nil]
  have hemp : (numAtomsTV 0 b ++ denAtomsTV 1 as).isEmpty = false := by
    cases h : numAtomsTV 0 b ++ denAtomsTV 1 as with
    | nil => exact absurd h hne
    | cons _ _ => rfl
  simp only [compileTV, List.tail_cons, hemp]
  rfl

/-! ### C06.1 the generated time-varying loop computes the time-varying difference equation -/

/-- **C06.1** (`tv_eq_spec`): for every field, every numerator `b` and denominator tail `as` in
which ANY subset of the coefficients are Streams (of any lengths) and the others constants (zeros
and ±1 anywhere), every constant gain `a0`, every memory of the needed length and every input, the
generated generator — special-cased constant summands, `next(b{k}) * d{k}` / `-next(a{k}) * m{k}`
for the Streams, one iterator per coefficient argument, gain written in one of three ways,
sequential state shifts, ending at the first `StopIteration` — yields the solution of the
time-varying difference equation over unbounded histories, in which output `n` uses each
coefficient's `n`-th value and which ends with the shortest of input and coefficient streams.
(The all-zero filter is C04.3; a Stream gain is `gain_path` below.) -/
theorem tv_eq_spec (b as : List (Coef K)) (a0 zero : K) (mem xs : List K)
    (hmem : mem.length = as.length)
    (hnz : ¬ ((∀ c ∈ b, c = Coef.const 0) ∧ (∀ c ∈ as, c = Coef.const 0))) :
    (evalTV (compileTV b (Coef.const a0 :: as) zero) mem zero (itsOf b as) xs).1
      = tvspec b as (Coef.const a0) zero 0 mem [] xs := by
  rw [compileTV_loop b as a0 zero hnz, itsOf_eq]
  simp only [evalTV]
  rw [runLoopTV_eq_tvrun b as a0 _ (applyGain_compile a0) xs 0 0 0 mem
    (List.replicate (b.length - 1) zero) hmem (by simp)]
  have h2 := tvrun_eq_tvspec b as (Coef.const a0) zero xs 0 mem [] (by omega)
  rw [takeP_nil, ← hmem, List.take_length] at h2
  exact h2

/-! ### C06.4 every coefficient stream is read exactly once per output sample -/

/-- **C06.4** (`reads_once`): whenever the generated loop yields at least `k` outputs, then after
those `k` outputs (the input cut after `k` items) EVERY coefficient iterator `b{i}` / `a{j}` has been
advanced by exactly `k` items — no `next` more, none less, whatever the shape of the expression —
and the outputs are the first `k` outputs. -/
theorem reads_once (b as : List (Coef K)) (a0 zero : K) (mem xs : List K) (k : Nat)
    (hnz : ¬ ((∀ c ∈ b, c = Coef.const 0) ∧ (∀ c ∈ as, c = Coef.const 0)))
    (hk : k ≤ (evalTV (compileTV b (Coef.const a0 :: as) zero) mem zero (itsOf b as) xs).1.length) :
    evalTV (compileTV b (Coef.const a0 :: as) zero) mem zero (itsOf b as) (xs.take k)
      = ((evalTV (compileTV b (Coef.const a0 :: as) zero) mem zero (itsOf b as) xs).1.take k,
         ⟨b.map (fun c => c.items.drop k), as.map (fun c => c.items.drop k)⟩) := by
  rw [compileTV_loop b as a0 zero hnz, itsOf_eq] at hk ⊢
  simp only [evalTV] at hk ⊢
  rw [runLoopTV_take b as _ _ xs k 0 0 0 mem _ hk]
  simp [itsAt]

/-! ### non-vacuity -/

/-- D13's witness: `(Stream([1,2,3])*z**-1 + 1)([1]*10, zero=0)` gives 1, 3, 4 and ends -/
example : (evalTV (compileTV [Coef.const 1, Coef.strm [1, 2, 3]] [Coef.const (1 : Rat)] 0) [] 0
      (itsOf [Coef.const 1, Coef.strm [1, 2, 3]] []) [1, 1, 1, 1, 1, 1, 1, 1, 1, 1]).1 = [1, 3, 4] := by
  decide +kernel
example : tvspec [Coef.const 1, Coef.strm [1, 2, 3]] [] (Coef.const (1 : Rat)) 0 0 [] []
    [1, 1, 1, 1, 1, 1, 1, 1, 1, 1] = [1, 3, 4] := by decide +kernel
/-- a stream in the denominator, gain 2, a constant -1 and a zero: hypotheses of C06.1 hold -/
example : (evalTV (compileTV [Coef.const (-1), Coef.const 0, Coef.strm [1, 2, 3, 4]]
      [Coef.const (2 : ℚ), Coef.strm [1, -1, 1, -1]] 0) [5] 0
      (itsOf [Coef.const (-1), Coef.const 0, Coef.strm [1, 2, 3, 4]] [Coef.strm [1, -1, 1, -1]]) [1, 2, 3]).1
    = tvspec [Coef.const (-1), Coef.const 0, Coef.strm [1, 2, 3, 4]] [Coef.strm [1, -1, 1, -1]]
        (Coef.const 2) 0 0 [5] [] [1, 2, 3] :=
  tv_eq_spec _ _ _ _ _ _ rfl (by simp)
example : (evalTV (compileTV [Coef.const 1, Coef.strm [1, 2, 3, 4, 5]] [Coef.const (1 : Rat)] 0) [] 0
      (itsOf [Coef.const 1, Coef.strm [1, 2, 3, 4, 5]] []) [1, 1]).2.b = [[], [3, 4, 5]] := by
  decide +kernel

end ALV.Props.C06

#write_audit "C06"
