/-
  C06 — property theorems: time-varying coefficients are sampled once per output sample.
  Only statements of the property, non-vacuity examples and the audit live here; helper lemmas
  are in `ALV.Lemmas.C06*`.
-/
import ALV.Lemmas.C06Call
import ALV.Lemmas.C06Gain
import ALV.Lemmas.C06Algebra
import ALV.Lemmas.C06TwoCalls
import ALV.Lemmas.C06TwoCallsFull
import ALV.Lemmas.C06Expr
import ALV.Lemmas.C06Hub
import ALV.Lemmas.C06HubNest
import ALV.Lemmas.C06Src
import ALV.Common.Audit

set_option linter.unusedSectionVars false
set_option linter.unusedSimpArgs false
namespace ALV.Props.C06
open ALV.C04 ALV.C06
open LaurentPolynomial
variable {K : Type} [Field K] [DecidableEq K]

/-! ### C06.1 the generated time-varying loop computes the time-varying difference equation -/

/-- **C06.1** (`tv_eq_spec`): for every field, every numerator `b` and denominator tail `as` in
which ANY subset of the coefficients are Streams (of any lengths) and the others constants (zeros
and ±1 anywhere), every constant gain `a0`, every memory of the needed length and every input, the
generated generator — special-cased constant summands, `next(b{k}) * d{k}` / `-next(a{k}) * m{k}`
for the Streams, one iterator per coefficient argument, gain written in one of three ways,
sequential state shifts, ending at the first `StopIteration` — yields the solution of the
time-varying difference equation over unbounded histories, in which output `n` uses each
coefficient's `n`-th value and which ends with the shortest of input and coefficient streams.
(The all-zero filter is `allzero`; a Stream gain is `gain_path` below.) -/
theorem tv_eq_spec (b as : List (Coef K)) (a0 zero : K) (mem xs : List K)
    (hmem : mem.length = as.length)
    (hnz : ¬ ((∀ c ∈ b, c = Coef.const 0) ∧ (∀ c ∈ as, c = Coef.const 0))) :
    (evalTV (compileTV b (Coef.const a0 :: as) zero) mem zero (itsOf b as) xs).1
      = tvspec b as (Coef.const a0) zero 0 mem [] xs :=
  evalTV_eq_tvspec b as a0 zero mem xs hmem hnz

/-- **C06.1'** (`tv_satisfies_property`): the outputs of the generated loop satisfy the sentence of
the property, literally: they end when the input or any coefficient stream ends, and for every
output `n`:  `a0·y[n] = Σ_k b_k[n]·x[n−k] − Σ_{k≥1} a_k[n]·y[n−k]`  with `x[−j] = zero`,
`y[−k] = mem[k−1]`, constants standing for constant streams. -/
theorem tv_satisfies_property (b as : List (Coef K)) (a0 zero : K) (mem xs : List K)
    (ha0 : a0 ≠ 0) (hmem : mem.length = as.length)
    (hnz : ¬ ((∀ c ∈ b, c = Coef.const 0) ∧ (∀ c ∈ as, c = Coef.const 0))) :
    TVDiffEq b (Coef.const a0) as zero mem xs
      (evalTV (compileTV b (Coef.const a0 :: as) zero) mem zero (itsOf b as) xs).1 := by
  rw [tv_eq_spec b as a0 zero mem xs hmem hnz]
  exact tvspec_diffeq b as (Coef.const a0) zero mem xs (by omega) (fun _ _ => ha0)

/-- **C06.1''** the sentence of the property for ANY gain, Stream included (`a0[n] ≠ 0` wherever
an output is produced): the specification `tvspec` is a solution. -/
theorem spec_satisfies_property (b as : List (Coef K)) (a0 : Coef K) (zero : K) (mem xs : List K)
    (hmem : as.length ≤ mem.length)
    (ha0 : ∀ n, n < (tvspec b as a0 zero 0 mem [] xs).length → a0.val n ≠ 0) :
    TVDiffEq b a0 as zero mem xs (tvspec b as a0 zero 0 mem [] xs) :=
  tvspec_diffeq b as a0 zero mem xs hmem ha0

/-- the all-zero filter (C04.3 again): the zero value once per input, no coefficient is read -/
theorem allzero (b as : List (Coef K)) (a0 : Coef K) (zero : K) (mem xs : List K) (its : Its K)
    (hb : ∀ c ∈ b, c = Coef.const 0) (ha : ∀ c ∈ as, c = Coef.const 0) :
    evalTV (compileTV b (a0 :: as) zero) mem zero its xs = (List.replicate xs.length zero, its) := by
  rw [compileTV_const b as a0 zero ⟨hb, ha⟩]
  simp only [evalTV]
  congr 1
  induction xs with
  | nil => rfl
  | cons x xs ih => simp [List.replicate_succ, ih]

/-! ### C06.2 the output ends when the input or any coefficient stream ends -/

/-- **C06.2** (`ends_with_shortest`): the number of outputs is the input length cut by the length
of every coefficient *stream* (constants never end it) — every numerator, every denominator tail,
every constant gain, the all-zero filter included (it has no stream). -/
theorem ends_with_shortest (b as : List (Coef K)) (a0 zero : K) (mem xs : List K)
    (hmem : mem.length = as.length) :
    (evalTV (compileTV b (Coef.const a0 :: as) zero) mem zero (itsOf b as) xs).1.length
      = endLen xs.length (b ++ as) :=
  evalTV_length b as a0 zero mem xs hmem

/-- … for any gain (Stream included), at the level of the specification -/
theorem spec_ends_with_shortest (b as : List (Coef K)) (a0 : Coef K) (zero : K) (mem xs : List K) :
    (tvspec b as a0 zero 0 mem [] xs).length = endLen xs.length (a0 :: (b ++ as)) :=
  tvspec_length b as a0 zero mem xs

/-- `endLen` is what its name says: never more than the input … -/
theorem endLen_le_input (cs : List (Coef K)) (n : Nat) : endLen n cs ≤ n := endLen_le cs n

/-- … never more than any coefficient stream … -/
theorem endLen_le_every_stream (cs : List (Coef K)) (s : List K) (hs : Coef.strm s ∈ cs) (n : Nat) :
    endLen n cs ≤ s.length := endLen_le_stream cs s hs n

/-- … and with no stream at all it is the input length (constants stand for endless streams) -/
theorem endLen_constants (l : List K) (n : Nat) : endLen n (l.map Coef.const) = n := by
  induction l with
  | nil => rfl
  | cons c cs ih => simpa [endLen] using ih

/-! ### C06.3 a constant stream behaves like the constant -/

/-- **C06.3** (`const_stream`): two filters whose coefficients deliver the same values for the
first `|x|` outputs (pairwise: a Stream against a constant, against a longer Stream, against the
prefix of an endless one …) produce the same outputs. -/
theorem const_stream (b b' as as' : List (Coef K)) (a0 zero : K) (mem xs : List K)
    (hmem : mem.length = as.length)
    (hb : List.Forall₂ (Coef.agree xs.length) b b') (ha : List.Forall₂ (Coef.agree xs.length) as as')
    (hnz : ¬ ((∀ c ∈ b, c = Coef.const 0) ∧ (∀ c ∈ as, c = Coef.const 0)))
    (hnz' : ¬ ((∀ c ∈ b', c = Coef.const 0) ∧ (∀ c ∈ as', c = Coef.const 0))) :
    (evalTV (compileTV b (Coef.const a0 :: as) zero) mem zero (itsOf b as) xs).1
      = (evalTV (compileTV b' (Coef.const a0 :: as') zero) mem zero (itsOf b' as') xs).1 := by
  rw [tv_eq_spec b as a0 zero mem xs hmem hnz,
    tv_eq_spec b' as' a0 zero mem xs (by rw [hmem]; exact ha.length_eq) hnz']
  exact tvspec_congr zero xs 0 mem [] (by simpa using hb) (by simpa using ha) (agree_refl _ _)

/-- the instance the property names: a Stream that repeats `c` at least `|x|` times, anywhere in
the numerator, is the constant `c` -/
theorem const_stream_single (pre post as : List (Coef K)) (c a0 zero : K) (N : Nat) (mem xs : List K)
    (hmem : mem.length = as.length) (hN : xs.length ≤ N) (hc : c ≠ 0) :
    (evalTV (compileTV (pre ++ Coef.strm (List.replicate N c) :: post) (Coef.const a0 :: as) zero) mem zero
        (itsOf (pre ++ Coef.strm (List.replicate N c) :: post) as) xs).1
      = (evalTV (compileTV (pre ++ Coef.const c :: post) (Coef.const a0 :: as) zero) mem zero
        (itsOf (pre ++ Coef.const c :: post) as) xs).1 := by
  apply const_stream _ _ _ _ _ _ _ _ hmem
  · induction pre with
    | nil => exact List.Forall₂.cons (agree_const_replicate c _ _ hN) (forall₂_agree_refl _ _)
    | cons p ps ih => exact List.Forall₂.cons (agree_refl _ _) ih
  · exact forall₂_agree_refl _ _
  · intro h
    have := h.1 (Coef.strm (List.replicate N c)) (by simp)
    simp at this
  · intro h
    have := h.1 (Coef.const c) (by simp)
    exact hc (Coef.const.inj this)

/-- all coefficients constant: the time-varying source is C04's source, the outputs are C04's
difference equation `fspec`, and no iterator exists to be read -/
theorem constants_eq_c04 (b as : List K) (a0 zero : K) (mem xs : List K)
    (hmem : mem.length = as.length)
    (hnz : ¬ ((∀ c ∈ b, c = 0) ∧ (∀ c ∈ as, c = 0))) :
    (evalTV (compileTV (b.map Coef.const) (Coef.const a0 :: as.map Coef.const) zero) mem zero
        (itsOf (b.map Coef.const) (as.map Coef.const)) xs).1
      = fspec b as a0 zero mem [] xs
    ∧ (evalTV (compileTV (b.map Coef.const) (Coef.const a0 :: as.map Coef.const) zero) mem zero
        (itsOf (b.map Coef.const) (as.map Coef.const)) xs).1
      = evalIR (compile b (a0 :: as) zero) mem zero xs := by
  have hnz' : ¬ ((∀ c ∈ b.map Coef.const, c = Coef.const 0) ∧ (∀ c ∈ as.map Coef.const, c = Coef.const 0)) := by
    rw [map_const_eq_zero, map_const_eq_zero]; exact hnz
  constructor
  · rw [tv_eq_spec _ _ a0 zero mem xs (by simpa using hmem) hnz', tvspec_const]
  · rw [compileTV_loop _ _ a0 zero hnz']
    have hne : ¬ (numAtoms 0 b ++ denAtoms 1 as = []) := by rwa [dataSum_eq_nil]
    have hemp : (numAtoms 0 b ++ denAtoms 1 as).isEmpty = false := by
      cases h : numAtoms 0 b ++ denAtoms 1 as with
      | nil => exact absurd h hne
      | cons _ _ => rfl
    have hc : compile b (a0 :: as) zero = IR.loop as.length (b.length - 1)
        (numAtoms 0 b ++ denAtoms 1 as)
        (if a0 = -1 then Gain.negOne else if a0 ≠ 1 then Gain.div a0 else Gain.one)
        (mShifts as.length ++ dShifts (b.length - 1)) := by
      simp only [compile, List.tail_cons, hemp]
      rfl
    rw [hc]
    simp only [evalTV, evalIR, List.length_map, numAtomsTV_const, denAtomsTV_const,
      ← List.map_append, runLoopTV_lti]

/-! ### C06.4 every coefficient stream is read exactly once per output sample -/

/-- **C06.4** (`reads_once`): whenever the generated loop yields at least `k` outputs, then after
those `k` outputs (the input cut after `k` items) EVERY coefficient iterator `b{i}` / `a{j}` has been
advanced by exactly `k` items — no `next` more, none less, whatever the shape of the expression —
and the outputs are the first `k` outputs.  No hypothesis on the coefficients: the all-zero filter
with a constant gain has no Stream coefficient and no iterator. -/
theorem reads_once (b as : List (Coef K)) (a0 zero : K) (mem xs : List K) (k : Nat)
    (hk : k ≤ (evalTV (compileTV b (Coef.const a0 :: as) zero) mem zero (itsOf b as) xs).1.length) :
    evalTV (compileTV b (Coef.const a0 :: as) zero) mem zero (itsOf b as) (xs.take k)
      = ((evalTV (compileTV b (Coef.const a0 :: as) zero) mem zero (itsOf b as) xs).1.take k,
         ⟨b.map (fun c => c.items.drop k), as.map (fun c => c.items.drop k)⟩) :=
  evalTV_take b as a0 zero mem xs k hk

/-- one evaluation of the generated expression with every coefficient present: each iterator is
advanced by exactly one item, however many summands there are -/
theorem reads_once_step (b as : List (Coef K)) (n : Nat) (g x : K) (ms ds bn an : List K)
    (hb : row? b n = some bn) (ha : row? as n = some an) :
    (evalSumTV (⟨g :: ms, x :: ds⟩ : Env K) (itsAt b as n) (numAtomsTV 0 b ++ denAtomsTV 1 as)).1
      = itsAt b as (n + 1) := by
  rw [evalSumTV_some b as n g x ms ds bn an hb ha]

/-! ### C06.5 the variable-gain path -/

/-- **C06.5** (`gain_path`): the rewriting done for a Stream gain `a0` — every stored coefficient
multiplied by the Stream `1/a0` (`Poly * Stream`, element by element; absent powers stay absent),
gain replaced by the constant 1 — makes the generated loop compute the difference equation whose
gain at output `n` is `a0[n]`; in particular the output also ends with the gain stream. -/
theorem gain_path (b as : List (Coef K)) (gs : List K) (zero : K) (mem xs : List K)
    (hmem : mem.length = as.length)
    (hnz : ¬ ((∀ c ∈ b, c = Coef.const 0) ∧ (∀ c ∈ as, c = Coef.const 0))) :
    (evalTV (compileTV (b.map (mulPresent (Coef.strm (gs.map (1 / ·)))))
          (Coef.const 1 :: as.map (mulPresent (Coef.strm (gs.map (1 / ·))))) zero) mem zero
        (itsOf (b.map (mulPresent (Coef.strm (gs.map (1 / ·)))))
          (as.map (mulPresent (Coef.strm (gs.map (1 / ·)))))) xs).1
      = tvspec b as (Coef.strm gs) zero 0 mem [] xs := by
  rw [tv_eq_spec _ _ 1 zero mem xs (by simpa using hmem)
    (by rw [map_mulPresent_zero, map_mulPresent_zero]; exact hnz)]
  exact tvspec_gain b as gs zero hnz xs 0 mem []

/-- the gain Stream itself: `inv_gain = 1 / den[0]` is the element-wise reciprocal -/
theorem inv_gain_eq (gs : List K) : (1 : Coef K) / Coef.strm gs = Coef.strm (gs.map (1 / ·)) := rfl

/-- **C06.5'** (`gain_path_property`): hence, with a Stream gain that is non-zero wherever an
output is produced, the outputs satisfy the sentence of the property with `a0[n]` on the left. -/
theorem gain_path_property (b as : List (Coef K)) (gs : List K) (zero : K) (mem xs : List K)
    (hmem : mem.length = as.length)
    (hnz : ¬ ((∀ c ∈ b, c = Coef.const 0) ∧ (∀ c ∈ as, c = Coef.const 0)))
    (hg : ∀ n, n < gs.length → gs.getD n 0 ≠ 0) :
    TVDiffEq b (Coef.strm gs) as zero mem xs
      (evalTV (compileTV (b.map (mulPresent (Coef.strm (gs.map (1 / ·)))))
          (Coef.const 1 :: as.map (mulPresent (Coef.strm (gs.map (1 / ·))))) zero) mem zero
        (itsOf (b.map (mulPresent (Coef.strm (gs.map (1 / ·)))))
          (as.map (mulPresent (Coef.strm (gs.map (1 / ·)))))) xs).1 := by
  rw [gain_path b as gs zero mem xs hmem hnz]
  apply tvspec_diffeq b as (Coef.strm gs) zero mem xs (by omega)
  intro n hn
  have hlen : n < gs.length := by
    have h1 := tvspec_length b as (Coef.strm gs) zero mem xs
    have h2 := endLen_le_stream (Coef.strm gs :: (b ++ as)) gs (by simp) xs.length
    omega
  have := hg n hlen
  simpa [Coef.val, Coef.get?, List.getD_eq_getElem?_getD] using this

/-- **C06.5''** (`gain_path_dict`): the rewriting as the code does it on the `OrderedDict`s —
`inv_gain = 1 / den[0]; den[0] = 0` (deletes the entry) `; den *= inv_gain.copy()` (`Poly.__mul__`
by a one-term polynomial: double loop, thub, accumulation, compaction) `; den[0] = 1` (re-inserted
at the end) `; self.numpoly * inv_gain` — yields, as dense coefficient lists, exactly the lists of
`gain_path`, for every normalised filter object (powers ascending, denominator starting at delay
0 with the Stream gain, no stored constant zero). -/
theorem gain_path_dict (num rest : Terms (Coef K)) (gs : List K)
    (hnum : List.Pairwise (fun x y : Int × Coef K => x.1 < y.1) num)
    (hden : List.Pairwise (fun x y : Int × Coef K => x.1 < y.1) (((0 : Int), Coef.strm gs) :: rest))
    (hnz : ∀ kv ∈ num ++ rest, kv.2 ≠ Coef.const 0) :
    dense (gainPath num (((0 : Int), Coef.strm gs) :: rest)).1
        = (dense num).map (mulPresent (Coef.strm (gs.map (1 / ·))))
    ∧ dense (gainPath num (((0 : Int), Coef.strm gs) :: rest)).2
        = Coef.const 1 :: (dense (((0 : Int), Coef.strm gs) :: rest)).tail.map
            (mulPresent (Coef.strm (gs.map (1 / ·)))) :=
  gainPath_dense num rest gs hnum hden hnz

/-! ### C06.7 the whole call on a filter object -/

/-- **C06.7a** (`call_eq_spec`): `LinearFilter.__call__` on a causal filter object whose gain is a
constant `g ≠ 0` and which is not all-zero, any kind of memory: causality test, gain test, dense
lists, memory normalisation, generated source, one iterator per Stream coefficient, its execution
— the result is the time-varying difference equation on the dense coefficient lists. -/
theorem call_eq_spec (num den : Terms (Coef K)) (mem : Mem K) (zero : K) (xs : List K) (g : K)
    (hc : ∀ kv ∈ num ++ den, 0 ≤ kv.1) (h0 : coefAt den 0 = Coef.const g) (hg : g ≠ 0)
    (hnz : ¬ ((∀ c ∈ dense num, c = Coef.const 0) ∧ (∀ c ∈ (dense den).tail, c = Coef.const 0))) :
    (callTV num den mem zero xs).map Prod.fst
      = .ok (tvspec (dense num) (dense den).tail (Coef.const g) zero 0
              (memoryOf zero (dense den).tail.length mem) [] xs) :=
  callTV_const_eq num den mem zero xs g hc h0 hg hnz

/-- **C06.7b** (`call_gain_eq_spec`): the same with a Stream gain: gain test, rewriting on the
dictionaries, `ZFilter(…)` constructor, second `__call__`, generated source with every coefficient
a Stream — the result is the difference equation whose gain at output `n` is `a0[n]`, on the
ORIGINAL coefficient lists; it ends with the shortest of input, coefficient streams and gain stream. -/
theorem call_gain_eq_spec (num rest : Terms (Coef K)) (gs : List K) (mem : Mem K) (zero : K) (xs : List K)
    (hnum : List.Pairwise (fun x y : Int × Coef K => x.1 < y.1) num)
    (hden : List.Pairwise (fun x y : Int × Coef K => x.1 < y.1) (((0 : Int), Coef.strm gs) :: rest))
    (hstored : ∀ kv ∈ num ++ rest, kv.2 ≠ Coef.const 0) (hcn : ∀ kv ∈ num, 0 ≤ kv.1)
    (hnz : ¬ ((∀ c ∈ dense num, c = Coef.const 0)
      ∧ (∀ c ∈ (dense (((0 : Int), Coef.strm gs) :: rest)).tail, c = Coef.const 0))) :
    (callTV num (((0 : Int), Coef.strm gs) :: rest) mem zero xs).map Prod.fst
      = .ok (tvspec (dense num) (dense (((0 : Int), Coef.strm gs) :: rest)).tail (Coef.strm gs) zero 0
              (memoryOf zero (dense (((0 : Int), Coef.strm gs) :: rest)).tail.length mem) [] xs) :=
  callTV_gain_eq num rest gs mem zero xs hnum hden hstored hcn hnz

/-- a filter with any negative power refuses to run, Stream coefficients or not (C04.4) -/
theorem noncausal (num den : Terms (Coef K)) (mem : Mem K) (zero : K) (xs : List K)
    (h : ∃ kv ∈ num ++ den, kv.1 < 0) :
    callTV num den mem zero xs = .error .valueError := by
  have : checkCausal num den = false := by
    simp only [checkCausal, Bool.not_eq_false', List.any_eq_true]
    obtain ⟨kv, hm, hlt⟩ := h
    exact ⟨kv, hm, by simpa using hlt⟩
  simp [callTV, this]

/-- **C06.7c** (`call_normalised`): `LinearFilter.__call__` on ANY normalised causal filter object
(what `__init__` leaves: `terms()` ascending, no stored constant zero, denominator starting at
delay 0 with a gain that is a non-zero constant or a Stream), C06.7a and C06.7b in one statement and
with the all-zero filter: the zero value once per input when every coefficient besides the gain is
the constant zero, the time-varying difference equation with gain `a0[n]` otherwise. -/
theorem call_normalised (num den : Terms (Coef K)) (mem : Mem K) (zero : K) (xs : List K)
    (hnum : List.Pairwise (fun x y : Int × Coef K => x.1 < y.1) num)
    (hden : List.Pairwise (fun x y : Int × Coef K => x.1 < y.1) den)
    (hstored : ∀ kv ∈ num ++ den, kv.2 ≠ Coef.const 0) (hc : ∀ kv ∈ num ++ den, 0 ≤ kv.1)
    (h0 : coefAt den 0 ≠ Coef.const 0) :
    ((∀ c ∈ dense num, c = Coef.const 0) ∧ (∀ c ∈ (dense den).tail, c = Coef.const 0) →
      (callTV num den mem zero xs).map Prod.fst = .ok (xs.map (fun _ => zero)))
    ∧ (¬ ((∀ c ∈ dense num, c = Coef.const 0) ∧ (∀ c ∈ (dense den).tail, c = Coef.const 0)) →
      (callTV num den mem zero xs).map Prod.fst
        = .ok (tvspec (dense num) (dense den).tail (coefAt den 0) zero 0
                (memoryOf zero (dense den).tail.length mem) [] xs)) :=
  callTV_normalised num den mem zero xs hnum hden hstored hc h0

/-! ### C06.8 end to end: constructor arguments to outputs -/

/-- **C06.8** (`filterCallTV_eq_specCallTV`, C04.10 for Stream coefficients): for every pair of raw
constructor arguments — `(power, coefficient)` pairs in any order, with duplicates, stored zeros, any
integer powers, any subset of the coefficients being Streams, the leading denominator coefficient
included —, every memory (none, finite, endless, callable; too short ones are LEFT-padded by both
sides), every zero value and every input, the code-shaped pipeline — sorted dictionary inserts and
zero compaction of `Poly(dict)` at the coefficient type `Coef` (a Stream is never a zero),
normalisation by the lowest denominator power in `LinearFilter.__init__`, causality test, gain
test, the variable-gain rewriting `den[0] = 0; den *= inv_gain.copy(); den[0] = 1; numpoly *
inv_gain` with `Poly.__mul__` on the dictionaries, the `ZFilter(…)` constructor again, `values()`,
memory normalisation, the generated time-varying source and its execution with one iterator per
Stream coefficient — returns exactly what the contract `specCallTV` says: `ValueError` for an empty
denominator or a negative delay, the zero value per input for the all-zero filter, and otherwise
the solution of  `a0[n]·y[n] = Σ_k b_k[n]·x[n−k] − Σ_{k≥1} a_k[n]·y[n−k]`  ending with the shortest
of input, coefficient streams and gain stream.
(Division is the field's total division on both sides; on the real code a zero inside a Stream
gain raises `ZeroDivisionError` at that sample — outside the property, see ASSUMPTIONS of the tie.) -/
theorem filterCallTV_eq_specCallTV (numPairs denPairs : List (Int × Coef K)) (mem : Mem K) (zero : K)
    (xs : List K) :
    (filterCallTV numPairs denPairs mem zero xs).map Prod.fst
      = specCallTV numPairs denPairs mem zero xs :=
  filterCallTV_eq_specCallTV_full numPairs denPairs mem zero xs

/-! ### C06.9 the all-zero filter with a Stream gain, and the exact domain of C06.2 / C06.4 -/

/-- **C06.9a** (`allzero_stream_gain`): `ZFilter([], [Stream(gs)])` — the filter whose only stored
coefficient is a Stream gain.  The variable-gain rewriting leaves the empty numerator and the
denominator `{0: 1}`; the generated source is `for unused in seq: yield zero`.  So the call yields
the zero value once per INPUT item, whatever the gain stream holds and however short it is (it may
be empty), and no iterator over the gain stream — nor over anything else — is handed to the loop:
the gain stream is never read.  This is the one corner in which the output neither ends with the
gain stream nor reads it once per sample. -/
theorem allzero_stream_gain (gs : List K) (mem : Mem K) (zero : K) (xs : List K) :
    callTV ([] : Terms (Coef K)) [((0 : Int), Coef.strm gs)] mem zero xs
      = .ok (xs.map (fun _ => zero), ⟨[], []⟩) :=
  callTV_gain_allzero gs mem zero xs

/-- **C06.9b** (`allzero_stream_gain_shape`): that object is the whole corner — a normalised filter
object with a Stream gain whose other `values()` are all the constant zero stores nothing but its
gain (every other way to write the all-zero filter is normalised to it by `Poly` / `__init__`). -/
theorem allzero_stream_gain_shape (num rest : Terms (Coef K)) (gs : List K)
    (hnum : List.Pairwise (fun x y : Int × Coef K => x.1 < y.1) num)
    (hden : List.Pairwise (fun x y : Int × Coef K => x.1 < y.1) (((0 : Int), Coef.strm gs) :: rest))
    (hstored : ∀ kv ∈ num ++ rest, kv.2 ≠ Coef.const 0) (hcn : ∀ kv ∈ num, 0 ≤ kv.1)
    (hz : (∀ c ∈ dense num, c = Coef.const 0)
      ∧ (∀ c ∈ (dense (((0 : Int), Coef.strm gs) :: rest)).tail, c = Coef.const 0)) :
    num = [] ∧ rest = [] :=
  allzero_shape num rest (Coef.strm gs) hnum hden hstored hcn hz

/-- **C06.9c** in that corner `ends_with_shortest` is FALSE as soon as the gain stream is shorter
than the input: `|x|` outputs instead of `min(|x|, |gs|)`. -/
theorem allzero_stream_gain_not_shortest (gs : List K) (mem : Mem K) (zero : K) (xs : List K)
    (h : gs.length < xs.length) :
    ∃ ys its, callTV ([] : Terms (Coef K)) [((0 : Int), Coef.strm gs)] mem zero xs = .ok (ys, its)
      ∧ ys.length ≠ endLen xs.length [Coef.strm gs] := by
  refine ⟨_, _, allzero_stream_gain gs mem zero xs, ?_⟩
  simp only [List.length_map, endLen]
  omega

/-- **C06.2'** (`call_ends_with_shortest`): on every normalised causal filter object EXCEPT that
corner — Stream gain and all other `values()` the constant zero — the output of `__call__` ends
with the shortest of input, coefficient streams and gain stream.  (`hcorner` excludes exactly the
object of C06.9a/b, for which C06.9c shows the conclusion false.) -/
theorem call_ends_with_shortest (num den : Terms (Coef K)) (mem : Mem K) (zero : K) (xs : List K)
    (hnum : List.Pairwise (fun x y : Int × Coef K => x.1 < y.1) num)
    (hden : List.Pairwise (fun x y : Int × Coef K => x.1 < y.1) den)
    (hstored : ∀ kv ∈ num ++ den, kv.2 ≠ Coef.const 0) (hc : ∀ kv ∈ num ++ den, 0 ≤ kv.1)
    (h0 : coefAt den 0 ≠ Coef.const 0)
    (hcorner : ¬ ((coefAt den 0).isStream = true ∧ (∀ c ∈ dense num, c = Coef.const 0)
      ∧ (∀ c ∈ (dense den).tail, c = Coef.const 0))) :
    ∃ ys its, callTV num den mem zero xs = .ok (ys, its) ∧
      ys.length = endLen xs.length (coefAt den 0 :: (dense num ++ (dense den).tail)) :=
  callTV_length num den mem zero xs hnum hden hstored hc h0 hcorner

/-- **C06.4'** (`call_reads_once`): `reads_once` for the whole call, any gain: the generated loop
is run with one iterator per Stream in `loopCoeffs` — the dense coefficient lists of the object,
or, for a Stream gain, every stored coefficient times its own tee copy of `1/a0` (so one `next`
on such an iterator is one `next` on the coefficient stream and one on the gain stream) — and
after `k` outputs every one of them has been advanced by exactly `k` items.  It holds in the corner
of C06.9 too, but says nothing there: `loopCoeffs` is `([], [])`, the gain stream has no iterator. -/
theorem call_reads_once (num den : Terms (Coef K)) (mem : Mem K) (zero : K) (xs : List K)
    (hnum : List.Pairwise (fun x y : Int × Coef K => x.1 < y.1) num)
    (hden : List.Pairwise (fun x y : Int × Coef K => x.1 < y.1) den)
    (hstored : ∀ kv ∈ num ++ den, kv.2 ≠ Coef.const 0) (hc : ∀ kv ∈ num ++ den, 0 ≤ kv.1)
    (h0 : coefAt den 0 ≠ Coef.const 0) (k : Nat) (ys : List K) (its : Its K)
    (hr : callTV num den mem zero xs = .ok (ys, its)) (hk : k ≤ ys.length) :
    callTV num den mem zero (xs.take k)
      = .ok (ys.take k, ⟨(loopCoeffs num den).1.map (fun c => c.items.drop k),
                          (loopCoeffs num den).2.map (fun c => c.items.drop k)⟩) :=
  callTV_take num den mem zero xs hnum hden hstored hc h0 k ys its hr hk

/-- … in which a Stream gain is present in EVERY iterator unless the filter is the corner: the
loop's coefficient lists are all-zero exactly when the object's are. -/
theorem loop_coeffs_allzero_iff (num den : Terms (Coef K)) :
    ((∀ c ∈ (loopCoeffs num den).1, c = Coef.const 0) ∧ (∀ c ∈ (loopCoeffs num den).2, c = Coef.const 0))
      ↔ ((∀ c ∈ dense num, c = Coef.const 0) ∧ (∀ c ∈ (dense den).tail, c = Coef.const 0)) :=
  loopCoeffs_allzero num den

/-! ### C06.10 two calls of the same filter object -/

/-- **C06.10a** (`second_call_continues`): constant gain.  A coefficient Stream is an iterator the
filter object owns; the second call hands the same iterators to a new generator.  If the first
output was ended by its input (`|xs1|` outputs), the second call — its own memory, zero value and
input — computes the same difference equation with the coefficient index going on at `|xs1|`:
`a0·y₂[n] = Σ_k b_k[|xs1|+n]·x₂[n−k] − Σ_{k≥1} a_k[|xs1|+n]·y₂[n−k]`. -/
theorem second_call_continues (b as : List (Coef K)) (a0 zero1 zero2 : K) (mem1 mem2 xs1 xs2 : List K)
    (hmem2 : mem2.length = as.length)
    (hnz : ¬ ((∀ c ∈ b, c = Coef.const 0) ∧ (∀ c ∈ as, c = Coef.const 0)))
    (hfull : (evalTV (compileTV b (Coef.const a0 :: as) zero1) mem1 zero1 (itsOf b as) xs1).1.length
      = xs1.length) :
    (evalTV (compileTV b (Coef.const a0 :: as) zero2) mem2 zero2
        (evalTV (compileTV b (Coef.const a0 :: as) zero1) mem1 zero1 (itsOf b as) xs1).2 xs2).1
      = tvspec b as (Coef.const a0) zero2 xs1.length mem2 [] xs2 :=
  evalTV_continue b as a0 zero1 zero2 mem1 mem2 xs1 xs2 hmem2 hnz hfull

/-- **C06.10a'** (`second_call_continues_object`): the same on the filter OBJECT.  A normalised
causal filter object with a constant gain, not all-zero, is called; the output — ended by its input
— is consumed; the object, which now holds every coefficient Stream where the generated loop left
it (`callTwice`: `advance`), is called again with its own memory, zero value and input: causality
test, gain test, `values()`, memory normalisation, generated source, a new generator on the same
iterators — the result is the difference equation with the coefficient index going on at `|xs1|`. -/
theorem second_call_continues_object (num den : Terms (Coef K)) (mem1 mem2 : Mem K) (zero1 zero2 : K)
    (xs1 xs2 : List K) (g : K)
    (hnum : List.Pairwise (fun x y : Int × Coef K => x.1 < y.1) num)
    (hden : List.Pairwise (fun x y : Int × Coef K => x.1 < y.1) den)
    (hstored : ∀ kv ∈ num ++ den, kv.2 ≠ Coef.const 0) (hc : ∀ kv ∈ num ++ den, 0 ≤ kv.1)
    (h0 : coefAt den 0 = Coef.const g) (hg : g ≠ 0)
    (hnz : ¬ ((∀ c ∈ dense num, c = Coef.const 0) ∧ (∀ c ∈ (dense den).tail, c = Coef.const 0)))
    (hfull : ∃ ys its, callTV num den mem1 zero1 xs1 = .ok (ys, its) ∧ ys.length = xs1.length) :
    (callTwice num den mem1 zero1 xs1 mem2 zero2 xs2).2.map Prod.fst
      = .ok (tvspec (dense num) (dense den).tail (Coef.const g) zero2 xs1.length
              (memoryOf zero2 (dense den).tail.length mem2) [] xs2) :=
  callTwice_const num den mem1 mem2 zero1 zero2 xs1 xs2 g hnum hden hstored hc h0 hg hnz hfull

/-- … which is the equation on the streams as the first call left them -/
theorem continued_eq_dropped (b as : List (Coef K)) (a0 : Coef K) (zero : K) (k : Nat)
    (mem xs : List K) :
    tvspec (b.map (Coef.dropC k)) (as.map (Coef.dropC k)) (a0.dropC k) zero 0 mem [] xs
      = tvspec b as a0 zero k mem [] xs := by
  rw [tvspec_dropC, Nat.zero_add]

/-- **C06.10b** (`second_call_continues_stream_gain`, the code after the repair of D16): Stream gain.
The variable-gain path works on `den = Poly(self.denpoly)` — a new dictionary — so the filter object
keeps its polynomials; its Streams have delivered one item per output (through the products with
the tee copies of `1/a0`).  If the first output was ended by its input, the second call — the
rewriting done again, its own memory, zero value and input — computes
`a0[|xs1|+n]·y₂[n] = Σ_k b_k[|xs1|+n]·x₂[n−k] − Σ_{k≥1} a_k[|xs1|+n]·y₂[n−k]`. -/
theorem second_call_continues_stream_gain (num rest : Terms (Coef K)) (gs : List K) (mem1 mem2 : Mem K)
    (zero1 zero2 : K) (xs1 xs2 : List K)
    (hnum : List.Pairwise (fun x y : Int × Coef K => x.1 < y.1) num)
    (hden : List.Pairwise (fun x y : Int × Coef K => x.1 < y.1) (((0 : Int), Coef.strm gs) :: rest))
    (hstored : ∀ kv ∈ num ++ rest, kv.2 ≠ Coef.const 0) (hcn : ∀ kv ∈ num, 0 ≤ kv.1)
    (hnz : ¬ ((∀ c ∈ dense num, c = Coef.const 0)
      ∧ (∀ c ∈ (dense (((0 : Int), Coef.strm gs) :: rest)).tail, c = Coef.const 0)))
    (hfull : ∃ ys its, callTV num (((0 : Int), Coef.strm gs) :: rest) mem1 zero1 xs1 = .ok (ys, its)
      ∧ ys.length = xs1.length) :
    (callTwice num (((0 : Int), Coef.strm gs) :: rest) mem1 zero1 xs1 mem2 zero2 xs2).2.map Prod.fst
      = .ok (tvspec (dense num) (dense (((0 : Int), Coef.strm gs) :: rest)).tail (Coef.strm gs) zero2
              xs1.length
              (memoryOf zero2 (dense (((0 : Int), Coef.strm gs) :: rest)).tail.length mem2) [] xs2) :=
  callTwice_gain_continue num rest gs mem1 mem2 zero1 zero2 xs1 xs2 hnum hden hstored hcn hnz hfull

/-- **C06.10c** (`refused_call_leaves_no_trace`): a call that raises (non-causal filter, no gain)
changes nothing: the second call of the object is the first call with the second arguments. -/
theorem refused_call_leaves_no_trace (num den : Terms (Coef K)) (mem1 mem2 : Mem K) (zero1 zero2 : K)
    (xs1 xs2 : List K) (e : Err) (h : callTV num den mem1 zero1 xs1 = .error e) :
    (callTwice num den mem1 zero1 xs1 mem2 zero2 xs2).2 = callTV num den mem2 zero2 xs2 := by
  simp only [callTwice, objAfter, h]

/-- **C06.10d** (`no_gain_raises`): a causal filter object whose denominator has lost its delay-0
term (`filt.denpoly[0] = 0` on the object: `Poly.__setitem__` deletes the entry) refuses to run:
`ZeroDivisionError("Invalid filter gain")`, before anything is read. -/
theorem no_gain_raises (num rest : Terms (Coef K)) (mem : Mem K) (zero : K) (xs : List K)
    (hcn : ∀ kv ∈ num, 0 ≤ kv.1) (hpos : ∀ kv ∈ rest, (0 : Int) < kv.1) :
    callTV num rest mem zero xs = .error .zeroDivision :=
  callTV_no_gain num rest mem zero xs hcn hpos

/-- **C06.10e** (`callTwice_eq_specCallTwice`, the two-call contract for EVERY history): for every
pair of raw constructor arguments and the filter object `__init__` makes of them, for every first
and second memory / zero value / input, the code-shaped two-call model (`callTwice`: the object as the
first call leaves it — iterators where the generated loop stopped, the failed last evaluation
included — called again) shows exactly what the contract `specCallTwice` says on the raw pairs:
a refused call is refused again with the same error; if the first output was ended by its input, the
second call computes the difference equation with every coefficient stream `|xs1|` items further;
if the first output was ended by a coefficient stream, that stream has ended and the second output is
empty at once (constant gain: the empty iterator is the one the failed `next` left; Stream gain: the
ended stream had exactly `|ys|` items). -/
theorem callTwice_eq_specCallTwice (numPairs denPairs : List (Int × Coef K)) (mem1 mem2 : Mem K)
    (zero1 zero2 : K) (xs1 xs2 : List K) (n0 d0 : Terms (Coef K))
    (hn : normalise (mkPoly numPairs) (mkPoly denPairs) = .ok (n0, d0)) :
    ((callTwice n0 d0 mem1 zero1 xs1 mem2 zero2 xs2).1.map Prod.fst,
     (callTwice n0 d0 mem1 zero1 xs1 mem2 zero2 xs2).2.map Prod.fst)
      = specCallTwice numPairs denPairs mem1 zero1 xs1 mem2 zero2 xs2 :=
  callTwice_eq_specCallTwice_full numPairs denPairs mem1 mem2 zero1 zero2 xs1 xs2 n0 d0 hn

/-- **C06.10f** (`second_call_after_ended_stream`): on the object — any normalised causal filter
object, any gain: when a coefficient stream ended the first output, the second output is empty. -/
theorem second_call_after_ended_stream (num den : Terms (Coef K)) (mem1 mem2 : Mem K) (zero1 zero2 : K)
    (xs1 xs2 : List K)
    (hnum : List.Pairwise (fun x y : Int × Coef K => x.1 < y.1) num)
    (hden : List.Pairwise (fun x y : Int × Coef K => x.1 < y.1) den)
    (hstored : ∀ kv ∈ num ++ den, kv.2 ≠ Coef.const 0) (hc : ∀ kv ∈ num ++ den, 0 ≤ kv.1)
    (h0 : coefAt den 0 ≠ Coef.const 0) (ys : List K) (its : Its K)
    (hr : callTV num den mem1 zero1 xs1 = .ok (ys, its)) (hne : ys.length ≠ xs1.length) :
    (callTwice num den mem1 zero1 xs1 mem2 zero2 xs2).2.map Prod.fst = .ok [] := by
  cases h : coefAt den 0 with
  | const g =>
    exact callTwice_const_short num den mem1 mem2 zero1 zero2 xs1 xs2 g ⟨hnum, hden, hstored, hc, h0⟩ h
      ys its hr hne
  | strm gs =>
    exact callTwice_gain_short num den mem1 mem2 zero1 zero2 xs1 xs2 gs ⟨hnum, hden, hstored, hc, h0⟩ h
      ys its hr hne

/-! ### C06.6 filter arithmetic acts on coefficient sequences element by element -/

/-- **C06.6a** a product / sum / difference / quotient of two coefficients has an `n`-th value
exactly when both have (Stream operators end with the shortest operand; numbers never end) … -/
theorem coef_defined (a b : Coef K) (n : Nat) :
    ((a * b).defined n ↔ a.defined n ∧ b.defined n) ∧ ((a + b).defined n ↔ a.defined n ∧ b.defined n)
    ∧ ((a - b).defined n ↔ a.defined n ∧ b.defined n) ∧ ((a / b).defined n ↔ a.defined n ∧ b.defined n)
    ∧ ((-a).defined n ↔ a.defined n) :=
  ⟨defined_mul a b n, defined_add a b n, defined_sub a b n, defined_div a b n, defined_neg a n⟩

/-- … and that value is the operation on the `n`-th values (a number standing for the constant
stream) -/
theorem coef_elementwise (a b : Coef K) (n : Nat) (ha : a.defined n) (hb : b.defined n) :
    (a * b).val n = a.val n * b.val n ∧ (a + b).val n = a.val n + b.val n
    ∧ (a - b).val n = a.val n - b.val n ∧ (a / b).val n = a.val n / b.val n
    ∧ (-a).val n = - a.val n :=
  ⟨val_mul a b n ha hb, val_add a b n ha hb, val_sub a b n ha hb, val_div a b n ha hb, val_neg a n ha⟩

/-- **C06.6b** (`poly_mul_elementwise`): `Poly.__mul__` (double loop, accumulation, compaction —
the C07 model) on polynomials with Stream coefficients: at every time `n` inside all the Streams,
the coefficients of the product are those of the product of the two polynomials read at time `n`
— no bound on the number of terms, on how often a Stream is used, on the powers. -/
theorem poly_mul_elementwise (n : Nat) (p q : ALV.C07.MPoly (Coef K)) (hp : polyDefined n p)
    (hq : polyDefined n q) :
    ALV.C07.toLaurent (snap n (ALV.C07.mul p q))
      = ALV.C07.toLaurent (snap n p) * ALV.C07.toLaurent (snap n q)
    ∧ polyDefined n (ALV.C07.mul p q) :=
  ⟨toLaurent_snap_mul n p q hp hq, polyDefined_mul n p q hp hq⟩

/-- **C06.6c** (`poly_add_elementwise`): the same for `Poly.__add__` (chain + intersection) -/
theorem poly_add_elementwise (n : Nat) (p q : ALV.C07.MPoly (Coef K)) (hp : polyDefined n p)
    (hq : polyDefined n q) (kp : (ALV.C07.keys p).Nodup) (kq : (ALV.C07.keys q).Nodup) :
    ALV.C07.toLaurent (snap n (ALV.C07.add p q))
      = ALV.C07.toLaurent (snap n p) + ALV.C07.toLaurent (snap n q)
    ∧ polyDefined n (ALV.C07.add p q) :=
  ⟨toLaurent_snap_add n p q hp hq kp kq, polyDefined_add n p q hp hq⟩

/-- **C06.6d** (`poly_neg_elementwise`): and for `-Poly` -/
theorem poly_neg_elementwise (n : Nat) (p : ALV.C07.MPoly (Coef K)) (hp : polyDefined n p)
    (kp : (ALV.C07.keys p).Nodup) :
    ALV.C07.toLaurent (snap n (ALV.C07.neg p)) = - ALV.C07.toLaurent (snap n p) :=
  toLaurent_snap_neg n p hp kp

/-- **C06.6e** (`filter_mul_elementwise`): the product of two filters (`ZFilter.__mul__`:
numerators multiplied, denominators multiplied) read at time `n` is the product of the two
transfer functions read at time `n`:  `num·den'·num'… `, stated without division. -/
theorem filter_mul_elementwise (n : Nat) (fn fd gn gd : ALV.C07.MPoly (Coef K))
    (h1 : polyDefined n fn) (h2 : polyDefined n fd) (h3 : polyDefined n gn) (h4 : polyDefined n gd) :
    ALV.C07.toLaurent (snap n (ALV.C07.mul fn gn)) * (ALV.C07.toLaurent (snap n fd) * ALV.C07.toLaurent (snap n gd))
      = (ALV.C07.toLaurent (snap n fn) * ALV.C07.toLaurent (snap n gn)) * ALV.C07.toLaurent (snap n (ALV.C07.mul fd gd)) := by
  rw [toLaurent_snap_mul n fn gn h1 h3, toLaurent_snap_mul n fd gd h2 h4]

/-- **C06.6f** (`filter_add_elementwise`): the sum of two filters with different denominators
(`ZFilter.__add__`: `num·den'.copy() + num'·den.copy()` over `den·den'`; a copy is an independent
iterator over the same items) read at time `n` is `f_n + g_n`: numerator `= fn·gd + gn·fd`,
denominator `= fd·gd` as Laurent polynomials. -/
theorem filter_add_elementwise (n : Nat) (fn fd gn gd : ALV.C07.MPoly (Coef K))
    (h1 : polyDefined n fn) (h2 : polyDefined n fd) (h3 : polyDefined n gn) (h4 : polyDefined n gd) :
    ALV.C07.toLaurent (snap n (ALV.C07.add (ALV.C07.mul fn (gd.map fun kv => (kv.1, kv.2.copy)))
        (ALV.C07.mul gn (fd.map fun kv => (kv.1, kv.2.copy)))))
      = ALV.C07.toLaurent (snap n fn) * ALV.C07.toLaurent (snap n gd)
        + ALV.C07.toLaurent (snap n gn) * ALV.C07.toLaurent (snap n fd)
    ∧ ALV.C07.toLaurent (snap n (ALV.C07.mul fd gd))
      = ALV.C07.toLaurent (snap n fd) * ALV.C07.toLaurent (snap n gd) := by
  have hcopy : ∀ p : ALV.C07.MPoly (Coef K), (p.map fun kv => (kv.1, kv.2.copy)) = p := by
    intro p; simp [Coef.copy]
  rw [hcopy, hcopy]
  refine ⟨?_, toLaurent_snap_mul n fd gd h2 h4⟩
  rw [toLaurent_snap_add n _ _ (polyDefined_mul n fn _ h1 h4) (polyDefined_mul n gn _ h3 h2)
      (ALV.C07.wf_mul _ _).1 (ALV.C07.wf_mul _ _).1,
    toLaurent_snap_mul n fn _ h1 h4, toLaurent_snap_mul n gn _ h3 h2]

/-! ### C06.11 `ZFilter` arithmetic on filter OBJECTS, and whole expressions of any depth

`f.numAt n` / `f.denAt n`: the numerator / denominator polynomial of the filter object with every
coefficient read at time `n` (Laurent polynomials; `z^-k` is `T^k`).  `h.IsAt n N D`: `h` read at
time `n` is exactly the pair `(N, D)` up to the common delay `T^p` by which `LinearFilter.__init__`
makes the denominator start at delay 0. -/

/-- **C06.11a** (`zfilter_init`): `LinearFilter.__init__` on two `Poly`s with Stream coefficients:
refuses exactly the empty denominator; otherwise the object read at any time `n` inside its Streams
is the pair it was given, multiplied by a common `T^p` (`Poly.__mul__` by `Poly([0,1]) ** -power`). -/
theorem zfilter_init (num den : ALV.C07.MPoly (Coef K)) :
    ((∃ e, ZFT.make num den = .error e) ↔ den = [])
    ∧ ∀ f, ZFT.make num den = .ok f → ∀ n, polyDefined n num → polyDefined n den →
        f.IsAt n (ALV.C07.toLaurent (snap n num)) (ALV.C07.toLaurent (snap n den)) ∧ f.definedAt n :=
  ⟨ZFT.make_error_iff num den, fun _ h n hn hd => ZFT.make_at h n hn hd⟩

/-- **C06.11b** (`zfilter_mul_elementwise`): `ZFilter.__mul__` of two filter objects, any number of
terms, any Streams: at every time `n` inside them the product object IS `(N_f·N_g) / (D_f·D_g)`. -/
theorem zfilter_mul_elementwise (f g h : ZFT K) (e : f.mul g = .ok h) (n : Nat) (hf : f.definedAt n)
    (hg : g.definedAt n) :
    h.IsAt n (f.numAt n * g.numAt n) (f.denAt n * g.denAt n) ∧ h.definedAt n ∧ h.WF :=
  ZFT.mul_at e n hf hg

/-- **C06.11c** (`zfilter_div_elementwise`): `ZFilter.__truediv__` by a filter object:
`(N_f·D_g) / (D_f·N_g)` at every time -/
theorem zfilter_div_elementwise (f g h : ZFT K) (e : f.div g = .ok h) (n : Nat) (hf : f.definedAt n)
    (hg : g.definedAt n) :
    h.IsAt n (f.numAt n * g.denAt n) (f.denAt n * g.numAt n) ∧ h.definedAt n ∧ h.WF :=
  ZFT.div_at e n hf hg

/-- **C06.11d** (`zfilter_add_elementwise`): `ZFilter.__add__` of two filter objects: with equal
denominators (`Poly.__eq__`: numbers by value, a Stream never — then they read the same at every
time) the shortcut `(N_f + N_g) / D_f`; otherwise `(N_f·D_g + N_g·D_f) / (D_f·D_g)` built with
`.copy()`s of the denominators — at every time `n`, for all polynomials. -/
theorem zfilter_add_elementwise (f g h : ZFT K) (e : f.add g = .ok h) (n : Nat) (hf : f.definedAt n)
    (hg : g.definedAt n) (wf : f.WF) (wg : g.WF) :
    ((polyEqTV f.den g.den = true ∧ f.denAt n = g.denAt n
        ∧ h.IsAt n (f.numAt n + g.numAt n) (f.denAt n))
      ∨ (polyEqTV f.den g.den = false
        ∧ h.IsAt n (f.numAt n * g.denAt n + g.numAt n * f.denAt n) (f.denAt n * g.denAt n)))
    ∧ h.definedAt n ∧ h.WF :=
  ZFT.add_at e n hf hg wf wg

/-- **C06.11e** (`zfilter_neg_elementwise`): `-filter` -/
theorem zfilter_neg_elementwise (f h : ZFT K) (e : f.neg = .ok h) (n : Nat) (hf : f.definedAt n)
    (wf : f.WF) : h.IsAt n (- f.numAt n) (f.denAt n) ∧ h.definedAt n ∧ h.WF :=
  ZFT.neg_at e n hf wf

/-- **C06.11f** (`zfilter_scale_elementwise`): `filter * Stream`, `filter * number`
(`ZFilter(self.numpoly * other, self.denpoly)`), and hence `filter / Stream` (`* (1 / other)`):
the numerator is multiplied by the Stream's `n`-th value at every time `n` -/
theorem zfilter_scale_elementwise (f h : ZFT K) (c : Coef K) (e : f.mulCoef c = .ok h) (n : Nat)
    (hf : f.definedAt n) (hc : c.defined n) (wf : f.WF) :
    h.IsAt n (f.numAt n * C (c.val n)) (f.denAt n) ∧ h.definedAt n ∧ h.WF :=
  ZFT.mulCoef_at e n hf hc wf

/-- **C06.11g** (`zfilter_atoms`): `z ** -k` is `T^k / 1`; `ZFilter([c])` for a number or a Stream
`c` is `c[n] / 1` (a constant stream behaves like the constant: only `c.val n` is seen). -/
theorem zfilter_atoms (n : Nat) :
    (∀ (k : Nat) (f : ZFT K), ZFT.zpow k = .ok f →
        f.numAt n = T (k : ℤ) ∧ f.denAt n = 1 ∧ f.definedAt n ∧ f.WF)
    ∧ (∀ (c : Coef K) (f : ZFT K), ZFT.ofCoef c = .ok f → c.defined n →
        f.numAt n = C (c.val n) ∧ f.denAt n = 1 ∧ f.definedAt n ∧ f.WF) :=
  ⟨fun _ _ e => ZFT.zpow_at e n, fun _ _ e hc => ZFT.ofCoef_at e n hc⟩

/-- **C06.11h** (`poly_copy_eq`, `poly_eq_reads_equal`): `Poly.copy()` hands out independent
iterators over the same items; polynomials that `Poly.__eq__` calls equal read the same at any time -/
theorem poly_copy_eq (p : ALV.C07.MPoly (Coef K)) : polyCopy p = p := polyCopy_eq p
theorem poly_eq_reads_equal (p q : ALV.C07.MPoly (Coef K)) (h : polyEqTV p q = true)
    (hp : (ALV.C07.keys p).Nodup) (hq : (ALV.C07.keys q).Nodup) (n : Nat) :
    ALV.C07.toLaurent (snap n p) = ALV.C07.toLaurent (snap n q) :=
  polyEqTV_at h hp hq n

/-- **C06.11h'** (`poly_div_elementwise`): `Poly.__truediv__` on Stream coefficients — by a one-term
`Poly` `w·x^d` (`w` a number or a Stream): the quotient read at time `n` is the dividend times
`(1/w[n])·x^(-d)`, every coefficient divided by the `n`-th item of `w`; by a Stream / number `c`
(`thub(other, len(self))`): the dividend times `1/c[n]`.  (The code shares ONE Stream object among all
quotient coefficients in the first case: defect D22, the tie reports it as a known finding.) -/
theorem poly_div_elementwise (p q : ALV.C07.MPoly (Coef K)) (n : Nat) (hp : polyDefined n p)
    (kp : (ALV.C07.keys p).Nodup) :
    (∀ (d : Int) (w : Coef K), ALV.C07.divPoly p [(d, w)] = .ok q → w.defined n →
        ALV.C07.toLaurent (snap n q) = ALV.C07.toLaurent (snap n p) * (C (1 / w.val n) * T (-d)))
    ∧ (∀ c : Coef K, ALV.C07.divScalar p c = .ok q → c.defined n →
        ALV.C07.toLaurent (snap n q) = ALV.C07.toLaurent (snap n p) * C (1 / c.val n)) :=
  ⟨fun _ _ e hw => divPoly_at e n hp hw kp, fun _ e hc => divScalar_at e n hp hc kp⟩

/-- **C06.11i** (`expr_elementwise`, the algebra clause for EVERY expression, any depth): whatever
Python builds from `z ** -k`, numbers and Streams with `+ - * /` and unary minus — dispatch
filter∘filter / filter∘other / other∘filter (`__rbinary__`) / Stream∘Stream, `Poly` arithmetic with
thub copies, shortcuts, compaction, normalisation — read at any time `n` inside all the Stream
leaves is the value of the SAME expression computed by ordinary arithmetic on the `n`-th items of
the leaves: a Stream / number `c` has `c[n] = ALV.C06.Tree.at n t`, a filter object `f` has
`N_f / D_f = N / D` (`ALV.C06.Tree.at n t = frac N D`, cross-multiplied), and `f` is well formed. -/
theorem expr_elementwise (n : Nat) (t : ALV.C06.Tree K) (v : Val K) (e : evalTree t = .ok v)
    (hd : ALV.C06.Tree.definedAt n t) : Val.Rel n v (ALV.C06.Tree.at n t) :=
  evalTree_rel n t v e hd

/-- **C06.11j** (`expr_freeze`): building the filter from Streams and then reading it at time `n`
gives the same fraction as reading the Streams at time `n` first and building the
constant-coefficient filter (the filter of C04 / C05) from those numbers. -/
theorem expr_freeze (n m : Nat) (t : ALV.C06.Tree K) (f f' : ZFT K) (e : evalTree t = .ok (.filt f))
    (e' : evalTree (ALV.C06.Tree.freeze n t) = .ok (.filt f')) (hd : ALV.C06.Tree.definedAt n t) :
    ∃ N D, ALV.C06.Tree.at n t = .frac N D ∧ f.numAt n * D = N * f.denAt n
      ∧ f'.numAt m * D = N * f'.denAt m :=
  evalTree_freeze n m t f f' e e' hd

/-- **C06.11k** (`expr_constant_streams`, "a constant stream behaves like the constant" for whole
expressions): if every Stream leaf delivers one and the same value for its first `N` items, then at
EVERY time `n < N` the filter built from the Streams reads as the one fraction of the expression
with the constants in place of the Streams (`ALV.C06.Tree.freeze 0 t`), which does not depend on `n`. -/
theorem expr_constant_streams (N : Nat) (t : ALV.C06.Tree K) (f f' : ZFT K) (hconst : ALV.C06.Tree.constUpTo N t)
    (e : evalTree t = .ok (.filt f)) (e' : evalTree (ALV.C06.Tree.freeze 0 t) = .ok (.filt f')) :
    ∃ Nm D, ∀ n, n < N → ∀ m, f.numAt n * D = Nm * f.denAt n ∧ f'.numAt m * D = Nm * f'.denAt m := by
  cases N with
  | zero => exact ⟨0, 0, fun n hn => absurd hn (Nat.not_lt_zero n)⟩
  | succ N =>
    obtain ⟨hd0, _⟩ := ALV.C06.Tree.constUpTo_spec hconst (Nat.succ_pos N)
    obtain ⟨Nm, D, hat, _, _⟩ := evalTree_freeze 0 0 t f f' e e' hd0
    refine ⟨Nm, D, fun n hn m => ?_⟩
    obtain ⟨hdn, hfr⟩ := ALV.C06.Tree.constUpTo_spec hconst hn
    obtain ⟨N2, D2, hat2, h1, h2⟩ := evalTree_freeze n m t f f' e (by rw [hfr]; exact e') hdn
    have : ALV.C06.Tree.at n t = ALV.C06.Tree.at 0 t := by
      rw [← ALV.C06.Tree.at_freeze n 0 t, hfr, ALV.C06.Tree.at_freeze]
    rw [this, hat] at hat2
    cases hat2
    exact ⟨h1, h2⟩

/-- **C06.11l** (`expr_reads_once`, the read-count clause for a filter built by ANY expression):
the polynomials the arithmetic leaves are in insertion order, with products of tee copies as
coefficients — however many times a Stream was used, the generated loop gets ONE iterator per
coefficient of the object (`values()`), and after `k` outputs every one of them has been advanced
by exactly `k` items (constant gain; for a Stream gain see C06.4').  Each such coefficient is an
element-wise combination of the leaves (C06.11i), so its `i`-th item needs the `i`-th item of every
leaf in it and no other. -/
theorem expr_reads_once (t : ALV.C06.Tree K) (f : ZFT K) (e : evalTree t = .ok (.filt f)) (mem : Mem K)
    (zero : K) (xs : List K) (g : K) (hc : ∀ kv ∈ f.num ++ f.den, 0 ≤ kv.1)
    (h0 : coefAt f.den 0 = Coef.const g) (hg : g ≠ 0) (k : Nat) (ys : List K) (its : Its K)
    (hr : callTV f.num f.den mem zero xs = .ok (ys, its)) (hk : k ≤ ys.length) :
    callTV f.num f.den mem zero (xs.take k)
      = .ok (ys.take k, ⟨(dense f.num).map (fun c => c.items.drop k),
                          (dense f.den).tail.map (fun c => c.items.drop k)⟩) :=
  callTV_const_take f.num f.den mem zero xs g hc h0 hg k ys its hr hk

/-! ### C06.12 the tee / thub bookkeeping: sources, hubs, copies (`ALV.C06.Hub`)

The machine: a leaf Stream wraps a SOURCE iterator; `thub(stream, n)` / `Stream.copy()` is a tee group
whose copies share a buffer of the items pulled from upstream so far (a copy that is behind reads
the buffer, the one that is ahead pulls upstream once); `Poly.__mul__`, `Poly.__truediv__` and the
Stream-gain rewriting allocate the groups (`mulHub`, `divHub`, `gainHub`); the generated loop calls
`next` on every coefficient iterator once per output (`round`). -/
section hub
open ALV.C06.Hub

/-- **C06.12a** (`hub_advances_max_over_copies`): for EVERY iterator (any nesting of hubs and maps, any
order of the calls, failed calls included) one `next` keeps, for every tee group, the number of
upstream pulls (= buffer length) equal to the MAXIMUM of the positions of its copies; and for a source
wrapped by one hub, the number of pulls of the SOURCE equal to that buffer length, the buffer being
exactly the items pulled so far. -/
theorem hub_advances_max_over_copies (srcs : Nat → Src K) (k g : Nat) (t : It K) (st : St K)
    (wf : t.WF) (ow : t.Owned k g) (hm : GroupMax st g) (ho : OwnedInv srcs st k g) :
    GroupMax (next srcs t st).1 g ∧ OwnedInv srcs (next srcs t st).1 k g
    ∧ ((next srcs t st).1.buf g).length = (next srcs t st).1.pulls k :=
  ⟨next_groupMax srcs t g st wf hm, next_owned srcs k g t st wf ow ho,
    ownedInv_len (next_owned srcs k g t st wf ow ho)⟩

/-- what the two invariants say: the source has been pulled exactly max-over-copies times -/
theorem hub_pulls_eq_max (srcs : Nat → Src K) (k g : Nat) (st : St K) (hm : GroupMax st g)
    (ho : OwnedInv srcs st k g) :
    (∀ i, st.pos g i ≤ st.pulls k) ∧ (st.pulls k = 0 ∨ ∃ i, st.pos g i = st.pulls k) := by
  have h := ownedInv_len ho
  rw [← h]; exact hm

/-- **C06.12b** (`hub_copy_is_real_copy`): every copy of a hub over a source delivers the source's
items in order from its OWN position — whatever the other copies have read — and ends exactly when it
has delivered all of them (with the source's own exception if it raises). -/
theorem hub_copy_is_real_copy (srcs : Nat → Src K) (k g i : Nat) (st : St K) (ho : OwnedInv srcs st k g)
    (hm : GroupMax st g) :
    (next srcs (It.tee g i (It.src k)) st).2
      = match (srcs k).items[st.pos g i]? with
        | some v => Res.ok v
        | none => if (srcs k).raises then Res.raise else Res.stop :=
  next_copy_value srcs k g i st ho hm

/-- … in particular a finite `itertools.repeat(c, n)` behind a hub gives `n` items to EVERY copy (not
`n / m`: the copies never share the countdown) -/
theorem hub_finite_repeat (srcs : Nat → Src K) (k g i n : Nat) (c : K) (st : St K)
    (hs : srcs k = ⟨List.replicate n c, false⟩) (ho : OwnedInv srcs st k g) (hm : GroupMax st g) :
    (next srcs (It.tee g i (It.src k)) st).2 = if st.pos g i < n then Res.ok c else Res.stop := by
  rw [next_copy_value srcs k g i st ho hm, hs]
  by_cases h : st.pos g i < n
  · simp [h, List.getElem?_replicate]
  · simp [h, List.getElem?_replicate]

/-- **C06.12c** (`hub_reads_once_per_sample`): the coefficients handed to the loop are built over a hub
that wraps source `k`, each copy of the hub used at most once among them (and at least one): one
successful evaluation of the generated expression advances the SOURCE by exactly one item, however
many copies the algebra made; and the hypotheses hold again afterwards. -/
theorem hub_reads_once_per_sample (srcs : Nat → Src K) (k g : Nat) (cs : List (HC K)) (st st' : St K)
    (vs : List K) (wf : ∀ c ∈ cs, c.WF) (fl : ∀ c ∈ cs, c.Flat) (ow : ∀ c ∈ cs, c.Owned k g)
    (hm : GroupMax st g) (ho : OwnedInv srcs st k g)
    (once : ∀ i, occR g i cs ≤ 1) (used : ∃ i, occR g i cs = 1)
    (sync : ∀ i, occR g i cs = 1 → st.pos g i = st.pulls k)
    (hr : round srcs cs st = (st', .ok vs)) :
    st'.pulls k = st.pulls k + 1 ∧ GroupMax st' g ∧ OwnedInv srcs st' k g
      ∧ (∀ i, occR g i cs = 1 → st'.pos g i = st'.pulls k) :=
  round_reads_once srcs k g cs st st' vs wf fl ow hm ho once used sync hr

/-- **C06.12d** (`hub_reads_once`): from the state `filt(x)` leaves (nothing read), after `n` outputs
the source has been pulled exactly `n` times. -/
theorem hub_reads_once (srcs : Nat → Src K) (k g : Nat) (cs : List (HC K))
    (wf : ∀ c ∈ cs, c.WF) (fl : ∀ c ∈ cs, c.Flat) (ow : ∀ c ∈ cs, c.Owned k g)
    (once : ∀ i, occR g i cs ≤ 1) (used : ∃ i, occR g i cs = 1) (n : Nat) (st' : St K)
    (h : roundsOk srcs cs n St.init st') : st'.pulls k = n := by
  have := rounds_reads_once srcs k g cs wf fl ow once used n St.init st' (groupMax_init g)
    (ownedInv_init srcs k g) (fun _ _ => rfl) h
  simpa [St.init] using this

/-- **C06.12e** (`shared_stream_object`): the SAME Stream object stored directly in `m` coefficients
(no hub — the assumption "every Stream object is used once" broken): `m` pulls per output sample. -/
theorem shared_stream_object (srcs : Nat → Src K) (k : Nat) (cs : List (HC K)) (nh : ∀ c ∈ cs, c.NoHub k)
    (n : Nat) (st' : St K) (h : roundsOk srcs cs n St.init st') : st'.pulls k = n * dirR k cs := by
  have := rounds_shared_direct srcs k cs nh n St.init st' h
  simpa [St.init] using this

/-- **C06.12f** (`call_reads_nothing`): when `filt(x)` has returned — polynomials built, Stream-gain
rewriting done, generator created — every source has been pulled 0 times, the one behind the leading
denominator coefficient included: the first read happens at the first output request. -/
theorem call_reads_nothing (srcs : Nat → Src K) (nsrc : Nat) (num den : PE K) (zero : K) (xs : List K) :
    (callH srcs nsrc num den zero xs).atCall = List.replicate nsrc 0 :=
  callH_atCall srcs nsrc num den zero xs

/-- **C06.12g** (`hub_loop_step`, raising coefficient included): the loop yields one output per
successful evaluation and records the pulls of that moment; an evaluation in which a coefficient
iterator ends (`StopIteration`) or RAISES ends the loop without an output, with that flag. -/
theorem hub_loop_step (srcs : Nat → Src K) (nsrc : Nat) (b as : List (HC K)) (a0 zero x : K)
    (xs hx hy : List K) (st : St K) :
    (∀ st1 vs, round srcs (b ++ as) st = (st1, .ok vs) →
      ∃ y, loopH srcs nsrc b as a0 zero (x :: xs) hx hy st
        = (y :: (loopH srcs nsrc b as a0 zero xs (x :: hx) (y :: hy) st1).1,
           (List.range nsrc).map st1.pulls :: (loopH srcs nsrc b as a0 zero xs (x :: hx) (y :: hy) st1).2.1,
           (loopH srcs nsrc b as a0 zero xs (x :: hx) (y :: hy) st1).2.2.1,
           (loopH srcs nsrc b as a0 zero xs (x :: hx) (y :: hy) st1).2.2.2))
    ∧ (∀ st1, round srcs (b ++ as) st = (st1, .stop) →
        loopH srcs nsrc b as a0 zero (x :: xs) hx hy st = ([], [], st1, .stop))
    ∧ (∀ st1, round srcs (b ++ as) st = (st1, .raise) →
        loopH srcs nsrc b as a0 zero (x :: xs) hx hy st = ([], [], st1, .raise)) :=
  loopH_step srcs nsrc b as a0 zero x xs hx hy st

/-- **C06.12h** (`hub_nested_reads_once_rounds`, reads-once for ANY nesting of hubs): the coefficient
iterators form a LINEAR forest — every tee group has one upstream (`It.Cons up`), no hub sits on itself
(`WF`), and every source / every hub copy is written in exactly one place, once (`Lin`, `Stat`: the
tokens `It.expo` of the coefficient list and of every upstream are pairwise disjoint and duplicate
free) — hubs over products of hub copies, copies of copies, to any depth.  Then after `n` successful
evaluations of the generated expression EVERY source written anywhere in the coefficients has been
pulled exactly `n` times, and every other source never. -/
theorem hub_nested_reads_once_rounds (srcs : Nat → Src K) (up : Nat → It K) (G : Nat → Prop)
    (L : Lin up G) (cs : List (HC K)) (wf : ∀ c ∈ cs, c.WF) (cons : ∀ c ∈ cs, c.Cons up)
    (hs : Stat up G (groupsR cs) (expoR cs)) (n : Nat) (st' : St K)
    (h : roundsOk srcs cs n St.init st') :
    (∀ k ∈ srcsR cs, st'.pulls k = n) ∧ (∀ k, k ∉ srcsR cs → st'.pulls k = 0) :=
  rounds_nested_reads_once srcs L cs wf cons hs n st' h

/-- … one round of it, from any round boundary reached: the lockstep step (every token of the
coefficient list goes from `n` to `n + 1`, every group's buffer with it, nothing else moves) -/
theorem hub_nested_round_lockstep (srcs : Nat → Src K) (up : Nat → It K) (G : Nat → Prop)
    (L : Lin up G) (n : Nat) (cs : List (HC K)) (st st' : St K) (vs : List K)
    (wf : ∀ c ∈ cs, c.WF) (cons : ∀ c ∈ cs, c.Cons up) (hs : Stat up G (groupsR cs) (expoR cs))
    (hp : Pre up n (groupsR cs) (expoR cs) st) (hr : round srcs cs st = (st', .ok vs)) :
    Step up n (groupsR cs) (expoR cs) st st' :=
  round_lock srcs L n cs st st' vs wf cons hs hp hr

/-- **C06.12i** (`hub_nested_reads_once_partial`, the PENDING statement on the whole `callH`, with the
linearity of the coefficient list `callCoefs num den` — what `filt(x)` hands to the generated loop after
`Poly` arithmetic and the Stream-gain rewriting — as a hypothesis instead of derived from "every leaf
Stream written once"): row `j` of the pull trace is `0` or `j + 1` for every source. -/
theorem hub_nested_reads_once_partial (srcs : Nat → Src K) (nsrc : Nat) (num den : PE K) (zero : K)
    (xs : List K) (up : Nat → It K) (G : Nat → Prop) (L : Lin up G)
    (wf : ∀ c ∈ callCoefs num den, c.WF) (cons : ∀ c ∈ callCoefs num den, c.Cons up)
    (hs : Stat up G (groupsR (callCoefs num den)) (expoR (callCoefs num den))) :
    ∀ (j : Nat) (row : List Nat), (callH srcs nsrc num den zero xs).trace[j]? = some row →
      ∀ (k v : Nat), row[k]? = some v → v = 0 ∨ v = j + 1 := by
  intro j row h k v hv
  rcases callH_trace srcs nsrc num den zero xs j row h with rfl | ⟨st1, h1, rfl⟩
  · left
    simp only [List.getElem?_map] at hv
    cases hk : (List.range nsrc)[k]? with
    | none => rw [hk] at hv; simp at hv
    | some k' => rw [hk] at hv; simp only [Option.map_some, Option.some.injEq] at hv; exact hv.symm
  · obtain ⟨a, b⟩ := rounds_nested_reads_once srcs L _ wf cons hs (j + 1) st1 h1
    simp only [List.getElem?_map] at hv
    cases hk : (List.range nsrc)[k]? with
    | none => rw [hk] at hv; simp at hv
    | some k' =>
      rw [hk] at hv
      simp only [Option.map_some, Option.some.injEq] at hv
      subst hv
      by_cases hm : k' ∈ srcsR (callCoefs num den)
      · exact Or.inr (a k' hm)
      · exact Or.inl (b k' hm)

/-- non-vacuity, depth 2 (`g * p * q`: hubs 1 and 2 sit over products of copies of hub 0; `nestUp`, `nestCs`,
`nestLin` in `Lemmas/C06HubNest.lean`) -/
example : callCoefs (.mul (.mul (.poly [((0 : Int), HC.s (It.src 0))]) (.poly [(0, HC.c (1 : Rat)), (1, HC.c 1)]))
      (.poly [(0, HC.c 1), (1, HC.c 2)])) (.poly [(0, HC.c 1)]) = nestCs := by decide +kernel
example (srcs : Nat → Src ℚ) (n : Nat) (st' : St ℚ) (h : roundsOk srcs nestCs n St.init st') :
    st'.pulls 0 = n :=
  (hub_nested_reads_once_rounds srcs nestUp (fun g => g < 3) nestLin nestCs
    (by intro c hc; simp [nestCs] at hc; rcases hc with rfl | rfl | rfl <;>
          simp [HC.WF, It.WF, It.groups, nestUp])
    (by intro c hc; simp [nestCs] at hc; rcases hc with rfl | rfl | rfl <;>
          simp [HC.Cons, It.Cons, nestUp])
    (by simp [Stat, nestCs, groupsR, expoR, HC.groups, HC.expo, It.groups, It.expo, nestUp])
    n st' h).1 0 (by simp [nestCs, srcsR, HC.srcs, It.srcs, nestUp])

/-- **C06.12j** (`hub_nested_reads_once_checked`): linearity of a coefficient list is DECIDABLE
(`Linear`: the upstream table is read off the list itself, every quantifier is bounded by the groups
written in it).  So for every filter expression the PENDING statement below follows from ONE evaluation:
`Linear (callCoefs num den)`, which `decide` discharges for any concrete `num`, `den`. -/
theorem hub_nested_reads_once_checked (srcs : Nat → Src K) (nsrc : Nat) (num den : PE K) (zero : K)
    (xs : List K) (hl : Linear (callCoefs num den)) :
    ∀ (j : Nat) (row : List Nat), (callH srcs nsrc num den zero xs).trace[j]? = some row →
      ∀ (k v : Nat), row[k]? = some v → v = 0 ∨ v = j + 1 :=
  hub_nested_reads_once_partial srcs nsrc num den zero xs (upOf (callCoefs num den))
    (· ∈ groupsR (callCoefs num den)) hl.2.1.lin (fun c hc => (hl.1 c hc).1) (fun c hc => (hl.1 c hc).2)
    ⟨fun g hg => hg, hl.2.2.1, hl.2.2.2⟩

/-- non-vacuity: `g * p * q` (hubs over products of hub copies) -/
example : Linear (callCoefs (.mul (.mul (.poly [((0 : Int), HC.s (It.src 0))]) (.poly [(0, HC.c (1 : Rat)), (1, HC.c 1)]))
      (.poly [(0, HC.c 1), (1, HC.c 2)])) (.poly [(0, HC.c 1)])) := by decide +kernel
/-- the Stream-gain path (`inv_gain` under a copy of a copy) -/
example : Linear (callCoefs (.poly [((0 : Int), HC.c (1 : Rat))])
      (.poly [(0, HC.s (It.src 0)), (1, HC.c 2), (2, HC.c 3)])) := by decide +kernel
/-- six Streams: `(s0 + s1 z^-1) * (s2 + 2 z^-1) / s3` over `(s4 + 2 z^-1) * (1 + s5 z^-1)` — products of Stream
polynomials, division by a Stream, Stream gain -/
example : Linear (callCoefs
      (.divs (.mul (.poly [((0 : Int), HC.s (It.src 0)), (1, HC.s (It.src 1))])
                   (.poly [(0, HC.s (It.src 2)), (1, HC.c (2 : Rat))])) (HC.s (It.src 3)))
      (.mul (.poly [(0, HC.s (It.src 4)), (1, HC.c 2)]) (.poly [(0, HC.c 1), (1, HC.s (It.src 5))]))) := by
  decide +kernel
/-- depth 3, six Streams, a negative power, a key written twice, numerator `((s0 p) (s1 + z^-1)) q` over the
Stream-gain denominator `(s2 + 2 z^-1 + s3 z^-1) ((1 + s4 z^-1) / s5)` -/
example : Linear (callCoefs
    (.mul (.mul (.mul (.poly [((0 : Int), HC.s (It.src 0))]) (.poly [(0, HC.c (1 : Rat)), (1, HC.c 1)]))
                (.poly [(0, HC.s (It.src 1)), (1, HC.c 1)]))
          (.poly [(0, HC.c 1), (1, HC.c 2), (-1, HC.c 3)]))
    (.mul (.poly [(0, HC.s (It.src 2)), (1, HC.c 2), (1, HC.s (It.src 3))])
          (.divs (.poly [(0, HC.c 1), (1, HC.s (It.src 4))]) (HC.s (It.src 5))))) := by
  decide +kernel
/-- the hypothesis is not empty talk: the SAME Stream object stored twice (C06.12e) is not linear -/
example : ¬ Linear ([HC.s (It.src 0), HC.s (It.src 0)] : List (HC Rat)) := by decide +kernel

-- PENDING
/-- PENDING (not proved): reads-once for NESTED hubs, on the whole call.  For every filter whose
polynomials are built by `Poly` arithmetic (`*`, `/ Stream`) from leaf Streams, every Stream object
written once, any depth — products of products put a hub over a product of hub copies, the Stream-gain
rewriting puts `inv_gain` under a copy of a copy — after output `j + 1` every source has been pulled
exactly `j + 1` times (0 if no coefficient of the filter contains it).  Proved: the invariant "buffer
length = max over copies" for any nesting (C06.12a); the full statement for hubs that sit directly on
their source (C06.12c/d); and THIS statement for any nesting whenever the coefficient list `callCoefs num
den` is a linear forest (C06.12h/i), which is decidable (C06.12j: one `decide` per concrete filter).  What
is left: that `Poly` arithmetic (`mulHub`, `divHub`, `gainHub`,
`denseH`) on leaf Streams written once only builds linear forests (a statement about lists, no `next`
in it; checked by `decide` on the depth-2 / depth-3 / Stream-gain shapes above; `hub_nested_reads_once_reduced`
is the machine-checked reduction.  Proof plan: thread `Good up hi ls (ctx ++ coefficients)` — `Lin up (· < hi)`,
elementwise `WF` / `Cons up`, `(expoR _).Nodup`, no top token in any upstream, sources within the leaves `ls` —
through `PE.build` with the context `ctx` of polynomials built before; `thub` of a top coefficient `e` is
`up := upd up hi e`; `accum` permutes `expoR`; the double loop of `mulHub` uses copy `(γ_i1, i2)` and
`(δ_i2, i1)` once each; `denseH` / `filter` only drop coefficients); measured on the real code for nested shapes by the entry hub (where this
very statement is also evaluated on every generated input). -/
def hub_nested_reads_once_PENDING : Prop :=
  ∀ (srcs : Nat → Src K) (nsrc : Nat) (num den : PE K) (zero : K) (xs : List K),
    num.Leafy → den.Leafy → (num.leafs ++ den.leafs).Nodup →
    ∀ (j : Nat) (row : List Nat), (callH srcs nsrc num den zero xs).trace[j]? = some row →
      ∀ (k v : Nat), row[k]? = some v → v = 0 ∨ v = j + 1

/-- the PENDING statement is REDUCED (machine-checked) to a statement about lists with no `next`, no
state and no trace in it: "`Poly` arithmetic on leaf Streams written once builds a linear forest" -/
theorem hub_nested_reads_once_reduced
    (builder_linear : ∀ (num den : PE K), num.Leafy → den.Leafy → (num.leafs ++ den.leafs).Nodup →
      Linear (callCoefs num den)) : hub_nested_reads_once_PENDING (K := K) :=
  fun srcs nsrc num den zero xs hn hd hnd =>
    hub_nested_reads_once_checked srcs nsrc num den zero xs (builder_linear num den hn hd hnd)

/-- non-vacuity: `Stream(repeat(1/2, 3)) * (1 + z^-1)` — `Poly.__mul__` makes a hub with two copies -/
example : (mulHub [((0 : Int), HC.s (It.src 0))] [(0, HC.c (1 : Rat)), (1, HC.c 1)] 0).1
    = [(0, HC.s (.br .mul (.tee 0 0 (.src 0)) 1)), (1, HC.s (.br .mul (.tee 0 1 (.src 0)) 1))] := by
  decide +kernel
example : (callH (fun _ => ⟨[1/2, 1/2, 1/2], false⟩) 1
      (.mul (.poly [((0 : Int), HC.s (It.src 0))]) (.poly [(0, HC.c (1 : Rat)), (1, HC.c 1)]))
      (.poly [(0, HC.c 1)]) 0 [1, 2, 3, 4, 5]).out = [1/2, 3/2, 5/2] := by decide +kernel
example : (callH (fun _ => ⟨[1/2, 1/2, 1/2], false⟩) 1
      (.mul (.poly [((0 : Int), HC.s (It.src 0))]) (.poly [(0, HC.c (1 : Rat)), (1, HC.c 1)]))
      (.poly [(0, HC.c 1)]) 0 [1, 2, 3, 4, 5]).trace = [[1], [2], [3]] := by decide +kernel
example := hub_reads_once (fun _ => (⟨[1/2, 1/2, 1/2], false⟩ : Src ℚ)) 0 0
  [HC.s (.br .mul (.tee 0 0 (.src 0)) 1), HC.s (.br .mul (.tee 0 1 (.src 0)) 1)]
  (by intro c hc; simp at hc; rcases hc with rfl | rfl <;> simp [HC.WF, It.WF, It.groups])
  (by intro c hc; simp at hc; rcases hc with rfl | rfl <;> simp [HC.Flat, It.Flat, It.groups])
  (by intro c hc; simp at hc; rcases hc with rfl | rfl <;> simp [HC.Owned, It.Owned])
  (by intro i; simp only [occR, HC.occ, It.occ]; split <;> split <;> omega)
  ⟨0, by simp [occR, HC.occ, It.occ]⟩

/-! ### C06.13 the hub programs REGENERATED FROM THE SOURCE are the hand-written hub model

`harness/props/c06_tr.py` reads the bodies of `Poly.__mul__`, `Poly.__truediv__` (`lazy_poly.py`) and the
block under `if isinstance(self.denpoly[0], Stream)` of `LinearFilter.__call__` (`lazy_filters.py`) with
`ast` on every run and writes them as the Lean definitions `ALV.Gen.C06.mulHub / divHub / divTermHub /
gainHub` (`ALV/Gen/C06Src.lean`) in the vocabulary of `ALV/Model/C06HubSrc.lean`, in which a hub KNOWS the
number of copies the source allocates it with (`thub(v, len(other._data))`) and using it once more is
`none` (IndexError).  The theorems below say that what the source says NOW is the hand-written model
every C06.12 theorem is about — and that no hub ever runs out of copies. -/

/-- **C06.13a** (`src_mulHub_is_model`): the regenerated `Poly.__mul__` — hubs of `self` allocated first
with `len(other._data)` copies, then those of `other` with `len(self._data)`, the double loop, `k1 + k2`,
`v1 * v2`, `+=` on a key that is there — never exhausts a hub and is `mulHub`. -/
theorem src_mulHub_is_model :
    (ALV.Gen.C06.mulHub : HPoly K → HPoly K → Nat → Option (HPoly K × Nat))
      = fun p q g => some (mulHub p q g) := by
  funext p q g; exact ALV.Gen.C06.mulHub_eq p q g

/-- **C06.13b** (`src_divHub_is_model`): the regenerated `Poly.__truediv__` by a number / Stream — one hub
of `len(self)` copies, coefficient `j` divided by copy `j` — is `divHub`. -/
theorem src_divHub_is_model :
    (ALV.Gen.C06.divHub : HPoly K → HC K → Nat → Option (HPoly K × Nat))
      = fun p c g => some (divHub p c g) := by
  funext p c g; exact ALV.Gen.C06.divHub_eq p c g

/-- **C06.13c** (`src_divTermHub_is_model`): the regenerated branch for a one-term Poly divisor
`value * x^delta` (the D25 repair: the Stream goes through a hub of `len(self)` copies) is `divHub` on the
powers lowered by `delta`. -/
theorem src_divTermHub_is_model :
    (ALV.Gen.C06.divTermHub : HPoly K → Int → HC K → Nat → Option (HPoly K × Nat))
      = fun p delta c g => some (divHub (p.map fun kv => (kv.1 - delta, kv.2)) c g) := by
  funext p delta c g
  rw [ALV.Gen.C06.divTermHub_eq, ALV.Gen.C06.divHub_eq]

/-- **C06.13d** (`src_gainHub_is_model`): the regenerated Stream-gain block of `LinearFilter.__call__`
(`den = Poly(self.denpoly); inv_gain = 1 / den[0]; den[0] = 0; den *= inv_gain.copy(); den[0] = 1;
ZFilter(self.numpoly * inv_gain, den)`, statement by statement, with the regenerated `__mul__`) is
`gainHub`, whenever `den[0]` is a Stream (the guard of the block). -/
theorem src_gainHub_is_model (num den : HPoly K) (e0 : It K) (g : Nat) (h0 : findC den 0 = .s e0) :
    ALV.Gen.C06.gainHub num den g = some (gainHub num den e0 g) :=
  ALV.Gen.C06.gainHub_eq num den e0 g h0

/-- non-vacuity: `(1 + z^-1) / Stream`-shaped denominator `s + 2 z^-1` goes through the regenerated block -/
example : findC [((0 : Int), HC.s (It.src 0)), (1, HC.c (2 : Rat))] 0 = .s (It.src 0) := by decide +kernel
example : (ALV.Gen.C06.gainHub [((0 : Int), HC.c (1 : Rat))] [(0, HC.s (It.src 0)), (1, HC.c 2)] 0).map (·.2.1)
    = some [(1, HC.s (.bl .mul 2 (.tee 1 0 (.tee 0 1 (.bl .div 1 (.src 0)))))), (0, HC.c 1)] := by
  decide +kernel
/-- the count matters: a hub of one copy asked twice is `none` (IndexError) -/
example : (thubN (HC.s (It.src 0) : HC Rat) 1 0).1 1 = none := by decide +kernel

end hub

/-! ### non-vacuity -/

/-- D13's witness: `(Stream([1,2,3])*z**-1 + 1)([1]*10, zero=0)` gives 1, 3, 4 and ends -/
example : (evalTV (compileTV [Coef.const 1, Coef.strm [1, 2, 3]] [Coef.const (1 : Rat)] 0) [] 0
      (itsOf [Coef.const 1, Coef.strm [1, 2, 3]] []) [1, 1, 1, 1, 1, 1, 1, 1, 1, 1]).1 = [1, 3, 4] := by
  decide +kernel
example : tvspec [Coef.const 1, Coef.strm [1, 2, 3]] [] (Coef.const (1 : Rat)) 0 0 [] []
    [1, 1, 1, 1, 1, 1, 1, 1, 1, 1] = [1, 3, 4] := by decide +kernel
/-- a stream in the denominator, gain 2, a constant -1 and a zero: hypotheses of C06.1 hold -/
example : (evalTV (compileTV [Coef.const (-1), Coef.const 0, Coef.strm [1, 2, 3, 4]]
      [Coef.const (2 : ℚ), Coef.strm [1, -1, 1, -1]] 0) [5] 0
      (itsOf [Coef.const (-1), Coef.const 0, Coef.strm [1, 2, 3, 4]] [Coef.strm [1, -1, 1, -1]]) [1, 2, 3]).1
    = tvspec [Coef.const (-1), Coef.const 0, Coef.strm [1, 2, 3, 4]] [Coef.strm [1, -1, 1, -1]]
        (Coef.const 2) 0 0 [5] [] [1, 2, 3] :=
  tv_eq_spec _ _ _ _ _ _ rfl (by simp)
/-- reads_once on a concrete run: two outputs, iterator of b1 advanced by two -/
example : (evalTV (compileTV [Coef.const 1, Coef.strm [1, 2, 3, 4, 5]] [Coef.const (1 : Rat)] 0) [] 0
      (itsOf [Coef.const 1, Coef.strm [1, 2, 3, 4, 5]] []) [1, 1]).2.b = [[], [3, 4, 5]] := by
  decide +kernel
example := reads_once [Coef.const 1, Coef.strm [1, 2, 3, 4, 5]] [] (1 : ℚ) 0 [] [1, 1, 1] 2
  (by rw [ends_with_shortest _ _ _ _ _ _ rfl]; decide)
/-- the variable-gain path on `(1 + z^-1) / (Stream(2,3,4,5,6) + Stream(1,1,1,1,1) z^-1)` -/
example : tvspec [Coef.const 1, Coef.const 1] [Coef.strm [1, 1, 1, 1, 1]] (Coef.strm [(2 : Rat), 3, 4, 5, 6]) 0 0
    [0] [] [1, 1, 1, 1] = [1/2, 1/2, 3/8, 13/40] := by decide +kernel
example := gain_path [Coef.const 1, Coef.const 1] [Coef.strm [1, 1, 1, 1, 1]] [(2 : ℚ), 3, 4, 5, 6] 0 [0]
  [1, 1, 1, 1] rfl (by simp)
example := gain_path_property [Coef.const 1, Coef.const 1] [Coef.strm [1, 1, 1, 1, 1]] [(2 : ℚ), 3] 0 [0]
  [1, 1, 1, 1] rfl (by simp) (by
    intro n hn
    have : n = 0 ∨ n = 1 := by simp at hn; omega
    rcases this with rfl | rfl <;> norm_num)
/-- const_stream: `Stream(3,3,3,3)` in the numerator of a 3-sample run is the constant 3 -/
example := const_stream_single [Coef.const (1 : ℚ)] [] [Coef.strm [1, 2, 3]] 3 1 0 4 [0] [1, 2, 3] rfl
  (by simp) (by norm_num)
example := constants_eq_c04 [1, -1, 0, 3] [1, -1, 0, 5] (2 : ℚ) 0 [1, 2, 3, 4] [2, 4, 6] rfl (by simp)
/-- algebra: (1 + s z^-1)(1 - t z^-1) at time 1, s = 2,3,4  t = 1/2,1/2,1/2 -/
example : snap 1 (ALV.C07.mul [((0 : Int), Coef.const (1 : Rat)), (1, Coef.strm [2, 3, 4])]
      [(0, Coef.const 1), (1, Coef.strm [-1/2, -1/2, -1/2])])
    = [(0, 1), (1, -1/2 + 3), (2, -3/2)] := by decide +kernel
example := poly_mul_elementwise 1 [((0 : Int), Coef.const (1 : ℚ)), (1, Coef.strm [2, 3, 4])]
  [(0, Coef.const 1), (1, Coef.strm [-1/2, -1/2, -1/2])]
  (by intro kv hk; simp at hk; rcases hk with rfl | rfl <;> simp [Coef.defined])
  (by intro kv hk; simp at hk; rcases hk with rfl | rfl <;> simp [Coef.defined])
/-- ends with the shortest: input 10, streams of 3 and 5 items -/
example : endLen 10 [Coef.const (1 : Rat), Coef.strm [1, 2, 3], Coef.strm [1, 2, 3, 4, 5]] = 3 := by
  decide +kernel

/-- C06.7: `(1 + z^-1) / (Stream(2,3,4,5,6) + Stream(1,1,1,1,1) z^-1)` as a filter object -/
example : (callTV [((0 : Int), Coef.const (1 : Rat)), (1, Coef.const 1)]
      [(0, Coef.strm [2, 3, 4, 5, 6]), (1, Coef.strm [1, 1, 1, 1, 1])] Mem.none 0 [1, 1, 1, 1]).map Prod.fst
    = .ok [1/2, 1/2, 3/8, 13/40] := by decide +kernel
example := call_gain_eq_spec [((0 : Int), Coef.const (1 : ℚ)), (1, Coef.const 1)]
  [(1, Coef.strm [1, 1, 1, 1, 1])] [2, 3, 4, 5, 6] Mem.none 0 [1, 1, 1, 1]
  (by simp) (by simp) (by simp) (by simp)
  (by intro h; have := h.1 (Coef.const 1) (by simp [dense, order, coefAt]; exact ⟨0, by omega, by simp⟩); simp at this)
example := call_eq_spec [((0 : Int), Coef.const (1 : ℚ)), (1, Coef.strm [1, 2, 3])] [(0, Coef.const 2)]
  Mem.none 0 [1, 1, 1, 1] 2 (by simp) (by simp [coefAt]) (by norm_num)
  (by intro h; have := h.1 (Coef.const 1) (by simp [dense, order, coefAt]; exact ⟨0, by omega, by simp⟩); simp at this)
example : callTV [((-1 : Int), Coef.strm [(1 : Rat)])] [(0, Coef.const 1)] Mem.none 0 [1]
    = .error .valueError := noncausal _ _ _ _ _ ⟨((-1 : Int), Coef.strm [1]), by simp, by simp⟩

/-- C06.8: `ZFilter({3: 0, 1: Stream(1,2,3,4), -1: 5, 2: 1, 1: Stream(2,2,2,2)}, {2: Stream(1,1,1,1),
1: Stream(2,4,8,16), 0: 0})` — unordered dictionaries, a duplicate power (the last wins), stored zeros
(dropped), Stream coefficients incl. a Stream `a0` at power 1, a numerator term at power −1 … which
makes the filter non-causal after normalisation: -/
example : (filterCallTV [((3 : Int), Coef.const (0 : Rat)), (1, Coef.strm [1, 2, 3, 4]), (-1, Coef.const 5),
      (2, Coef.const 1), (1, Coef.strm [2, 2, 2, 2])]
      [(2, Coef.strm [1, 1, 1, 1]), (1, Coef.strm [2, 4, 8, 16]), (0, Coef.const 0)] Mem.none 0 [1, 1, 1]).map Prod.fst
    = .error .valueError := by decide +kernel
/-- … and the same with the negative power carrying a stored zero, which the normalisation removes:
`(Stream(2,2,2,2) + z^-1) / (Stream(2,4,8,16) + Stream(1,1,1,1) z^-1)` after the common delay 1 is
divided out — a Stream gain, a Stream numerator coefficient, a Stream feedback coefficient. -/
example : (filterCallTV [((3 : Int), Coef.const (0 : Rat)), (1, Coef.strm [1, 2, 3, 4]), (-1, Coef.const 0),
      (2, Coef.const 1), (1, Coef.strm [2, 2, 2, 2])]
      [(2, Coef.strm [1, 1, 1, 1]), (1, Coef.strm [2, 4, 8, 16]), (0, Coef.const 0)] Mem.none 0 [1, 1, 1]).map Prod.fst
    = .ok [1, 1/2, 5/16] := by decide +kernel
example : specCallTV [((3 : Int), Coef.const (0 : Rat)), (1, Coef.strm [1, 2, 3, 4]), (-1, Coef.const 0),
      (2, Coef.const 1), (1, Coef.strm [2, 2, 2, 2])]
      [(2, Coef.strm [1, 1, 1, 1]), (1, Coef.strm [2, 4, 8, 16]), (0, Coef.const 0)] Mem.none 0 [1, 1, 1]
    = .ok [1, 1/2, 5/16] := by decide +kernel
example := filterCallTV_eq_specCallTV [((3 : Int), Coef.const (0 : ℚ)), (1, Coef.strm [1, 2, 3, 4]),
    (-1, Coef.const 0), (2, Coef.const 1), (1, Coef.strm [2, 2, 2, 2])]
  [(2, Coef.strm [1, 1, 1, 1]), (1, Coef.strm [2, 4, 8, 16]), (0, Coef.const 0)] Mem.none 0 [1, 1, 1]
/-- C06.7c on the normalised object of that filter -/
example := (call_normalised [((0 : Int), Coef.strm [(2 : ℚ), 2, 2, 2]), (1, Coef.const 1)]
  [(0, Coef.strm [2, 4, 8, 16]), (1, Coef.strm [1, 1, 1, 1])] Mem.none 0 [1, 1, 1]
  (by simp) (by simp) (by simp) (by simp) (by simp [coefAt])).2
  (by intro h; have := h.1 (Coef.const 1) (by simp [dense, order, coefAt]; exact ⟨1, by omega, by simp⟩); simp at this)
/-- C06.9: `ZFilter([], [Stream(2)])([1,2,3], zero=7)`: three outputs from a one-item gain stream -/
example : (callTV ([] : Terms (Coef Rat)) [((0 : Int), Coef.strm [2])] Mem.none 7 [1, 2, 3]).map
    (fun r => (r.1, r.2.b, r.2.a)) = .ok ([7, 7, 7], [], []) := by decide +kernel
example := allzero_stream_gain_not_shortest [(2 : ℚ)] Mem.none 7 [1, 2, 3] (by simp)
/-- the same written with stored zeros, from the raw pairs -/
example : (filterCallTV [((1 : Int), Coef.const (0 : Rat))] [(1, Coef.const 0), (0, Coef.strm [2])] Mem.none 7
    [1, 2, 3]).map Prod.fst = .ok [7, 7, 7] := by decide +kernel
/-- C06.2' / C06.4' on `(1 + z^-1) / (Stream(2,3) + z^-1)`: hypotheses satisfiable, two outputs -/
example := call_ends_with_shortest [((0 : Int), Coef.const (1 : ℚ)), (1, Coef.const 1)]
  [(0, Coef.strm [2, 3]), (1, Coef.const 1)] Mem.none 0 [1, 1, 1]
  (by simp) (by simp) (by simp) (by simp) (by simp [coefAt])
  (by intro h; have := h.2.1 (Coef.const 1) (by simp [dense, order, coefAt]; exact ⟨0, by omega, by simp⟩); simp at this)
example : (callTV [((0 : Int), Coef.const (1 : Rat)), (1, Coef.const 1)]
    [(0, Coef.strm [2, 3]), (1, Coef.const 1)] Mem.none 0 [1, 1, 1]).map Prod.fst = .ok [1/2, 1/2] := by
  decide +kernel
example := call_reads_once [((0 : Int), Coef.const (1 : ℚ)), (1, Coef.const 1)]
  [(0, Coef.strm [2, 3]), (1, Coef.const 1)] Mem.none 0 [1, 1, 1]
  (by simp) (by simp) (by simp) (by simp) (by simp [coefAt]) 1 [1/2, 1/2] ⟨[[], []], [[]]⟩
  (by decide +kernel) (by simp)
/-- C06.9b: hypotheses satisfiable (on the corner object itself) -/
example := allzero_stream_gain_shape ([] : Terms (Coef ℚ)) [] [2, 3] (by simp) (by simp) (by simp) (by simp)
  (by simp [dense, order])
/-- C06.10a: `ZFilter({0:1, 1:Stream(1..8)}, {0:2, 1:Stream(1,1/2,…,1/8)})` called twice on `[1,1,1]`
(the values observed on the real code: 1/2, 11/8, 85/48 then 1/2, 59/20, 781/240) -/
example : (callTwice [((0 : Int), Coef.const (1 : Rat)), (1, Coef.strm [1, 2, 3, 4, 5, 6, 7, 8])]
      [(0, Coef.const 2), (1, Coef.strm [1, 1/2, 1/3, 1/4, 1/5, 1/6, 1/7, 1/8])]
      Mem.none 0 [1, 1, 1] Mem.none 0 [1, 1, 1]).2.map Prod.fst = .ok [1/2, 59/20, 781/240] := by
  decide +kernel
example : tvspec [Coef.const (1 : Rat), Coef.strm [1, 2, 3, 4, 5, 6, 7, 8]]
    [Coef.strm [1, 1/2, 1/3, 1/4, 1/5, 1/6, 1/7, 1/8]] (Coef.const 2) 0 3 [0] [] [1, 1, 1]
    = [1/2, 59/20, 781/240] := by decide +kernel
example := second_call_continues [Coef.const (1 : ℚ), Coef.strm [1, 2, 3, 4, 5, 6, 7, 8]]
  [Coef.strm [1, 1/2, 1/3, 1/4, 1/5, 1/6, 1/7, 1/8]] 2 0 0 [0] [0] [1, 1, 1] [1, 1, 1] rfl (by simp)
  (by rw [ends_with_shortest _ _ _ _ _ _ rfl]; decide)
example := second_call_continues_object [((0 : Int), Coef.const (1 : ℚ)), (1, Coef.strm [1, 2, 3, 4, 5, 6, 7, 8])]
  [(0, Coef.const 2), (1, Coef.strm [1, 1/2, 1/3, 1/4, 1/5, 1/6, 1/7, 1/8])] Mem.none Mem.none 0 0
  [1, 1, 1] [1, 1, 1] 2 (by simp) (by simp) (by simp) (by simp) (by simp [coefAt]) (by norm_num)
  (by intro h; have := h.1 (Coef.const 1) (by simp [dense, order, coefAt]; exact ⟨0, by omega, by simp⟩); simp at this)
  ⟨[1/2, 11/8, 85/48], ⟨[[], [4, 5, 6, 7, 8]], [[1/4, 1/5, 1/6, 1/7, 1/8]]⟩, by decide +kernel, rfl⟩
/-- C06.10b: `(1 + z^-1) / (Stream(2,3,4,5,6,7,8,9) + Stream(1,…) z^-1)` called twice: 1/2, 1/2, 3/8
and then 1/5, 3/10, 17/70 (observed on the real code after the repair of D16) -/
example : ((callTwice [((0 : Int), Coef.const (1 : Rat)), (1, Coef.const 1)]
      [(0, Coef.strm [2, 3, 4, 5, 6, 7, 8, 9]), (1, Coef.strm [1, 1, 1, 1, 1, 1, 1, 1])]
      Mem.none 0 [1, 1, 1] Mem.none 0 [1, 1, 1]).1.map Prod.fst,
     (callTwice [((0 : Int), Coef.const (1 : Rat)), (1, Coef.const 1)]
      [(0, Coef.strm [2, 3, 4, 5, 6, 7, 8, 9]), (1, Coef.strm [1, 1, 1, 1, 1, 1, 1, 1])]
      Mem.none 0 [1, 1, 1] Mem.none 0 [1, 1, 1]).2.map Prod.fst)
    = (.ok [1/2, 1/2, 3/8], .ok [1/5, 3/10, 17/70]) := by
  decide +kernel
example := second_call_continues_stream_gain [((0 : Int), Coef.const (1 : ℚ)), (1, Coef.const 1)]
  [(1, Coef.strm [1, 1, 1, 1, 1, 1, 1, 1])] [2, 3, 4, 5, 6, 7, 8, 9] Mem.none Mem.none 0 0 [1, 1, 1] [1, 1, 1]
  (by simp) (by simp) (by simp) (by simp)
  (by intro h; have := h.1 (Coef.const 1) (by simp [dense, order, coefAt]; exact ⟨0, by omega, by simp⟩); simp at this)
  ⟨[1/2, 1/2, 3/8], ⟨[[1/5, 1/6, 1/7, 1/8, 1/9], [1/5, 1/6, 1/7, 1/8, 1/9]], [[1/5, 1/6, 1/7, 1/8, 1/9]]⟩,
    by decide +kernel, rfl⟩
/-- … which is what the contract for the two-call history says -/
example : specCallTwice [((0 : Int), Coef.const (1 : Rat)), (1, Coef.const 1)]
      [(0, Coef.strm [2, 3, 4, 5, 6, 7, 8, 9]), (1, Coef.strm [1, 1, 1, 1, 1, 1, 1, 1])]
      Mem.none 0 [1, 1, 1] Mem.none 0 [1, 1, 1]
    = (.ok [1/2, 1/2, 3/8], .ok [1/5, 3/10, 17/70]) := by decide +kernel
/-- C06.10e/f: `(1 + Stream(1,2) z^-1) / 2` called on four samples (the stream ends the output after
two), then again: empty — model and contract -/
example : ((callTwice [((0 : Int), Coef.const (1 : Rat)), (1, Coef.strm [1, 2])] [(0, Coef.const 2)]
      Mem.none 0 [1, 1, 1, 1] Mem.none 0 [1, 1]).1.map Prod.fst,
     (callTwice [((0 : Int), Coef.const (1 : Rat)), (1, Coef.strm [1, 2])] [(0, Coef.const 2)]
      Mem.none 0 [1, 1, 1, 1] Mem.none 0 [1, 1]).2.map Prod.fst)
    = (.ok [1/2, 3/2], .ok []) := by decide +kernel
example : specCallTwice [((0 : Int), Coef.const (1 : Rat)), (1, Coef.strm [1, 2])] [(0, Coef.const 2)]
      Mem.none 0 [1, 1, 1, 1] Mem.none 0 [1, 1] = (.ok [1/2, 3/2], .ok []) := by decide +kernel
example := callTwice_eq_specCallTwice [((0 : Int), Coef.const (1 : ℚ)), (1, Coef.strm [1, 2])] [(0, Coef.const 2)]
  Mem.none Mem.none 0 0 [1, 1, 1, 1] [1, 1] [((0 : Int), Coef.const 1), (1, Coef.strm [1, 2])] [(0, Coef.const 2)]
  (by decide +kernel)
example := second_call_after_ended_stream [((0 : Int), Coef.const (1 : ℚ)), (1, Coef.strm [1, 2])] [(0, Coef.const 2)]
  Mem.none Mem.none 0 0 [1, 1, 1, 1] [1, 1] (by simp) (by simp) (by simp) (by simp) (by simp [coefAt])
  [1/2, 3/2] ⟨[[], []], []⟩ (by decide +kernel) (by simp)
/-- C06.10c / d: a non-causal object refuses twice; an object whose gain was deleted raises -/
example := refused_call_leaves_no_trace [((-1 : Int), Coef.strm [(1 : ℚ)])] [(0, Coef.const 1)] Mem.none Mem.none
  0 0 [1] [1] .valueError (noncausal _ _ _ _ _ ⟨((-1 : Int), Coef.strm [1]), by simp, by simp⟩)
example : callTV [((0 : Int), Coef.const (1 : Rat))] (ALV.C07.setItem [((0 : Int), Coef.const 2), (1, Coef.strm [1, 2])] 0 0)
    Mem.none 0 [1, 1] = .error .zeroDivision := by decide +kernel
example := no_gain_raises [((0 : Int), Coef.const (1 : ℚ))] [(1, Coef.strm [1, 2])] Mem.none 0 [1, 1]
  (by simp) (by simp)

/-- C06.11: `(Stream(1,2,3) * z^-1 + 1) * (z^-1 * Stream(2,2,2) - 3)` and a quotient with a Stream a0 -/
example : (match evalTree (ALV.C06.Tree.mul (.add (.mul (.s [(1 : Rat), 2, 3]) (.z 1)) (.c 1))
      (.sub (.mul (.z 1) (.s [2, 2, 2])) (.c 3))) with
    | .ok (.filt f) => (f.num, f.den)
    | _ => ([], []))
    = ([(2, Coef.strm [2, 4, 6]), (1, Coef.strm [-1, -4, -7]), (0, Coef.const (-3))],
       [(0, Coef.const 1)]) := by decide +kernel
example : ALV.C06.Tree.definedAt 2 (ALV.C06.Tree.mul (.add (.mul (.s [(1 : ℚ), 2, 3]) (.z 1)) (.c 1))
      (.sub (.mul (.z 1) (.s [2, 2, 2])) (.c 3))) := by simp [ALV.C06.Tree.definedAt]
example : (match evalTree (ALV.C06.Tree.div (.add (.z 1) (.c (1 : Rat))) (.add (.s [2, 3, 4]) (.mul (.s [1, 1, 1]) (.z 1)))) with
    | .ok (.filt f) => (f.num, f.den)
    | _ => ([], []))
    = ([(1, Coef.const 1), (0, Coef.const 1)], [(0, Coef.strm [2, 3, 4]), (1, Coef.strm [1, 1, 1])]) := by
  decide +kernel
example := fun v e => expr_elementwise 2 (ALV.C06.Tree.mul (.add (.mul (.s [(1 : ℚ), 2, 3]) (.z 1)) (.c 1))
      (.sub (.mul (.z 1) (.s [2, 2, 2])) (.c 3))) v e (by simp [ALV.C06.Tree.definedAt])
/-- D22's witness in the model: `Poly({0: 1, 1: 2}) / Poly({0: Stream(1,2,3)})` is `1/s[n] + (2/s[n]) x` -/
example : ALV.C07.divPoly [((0 : Int), Coef.const (1 : Rat)), (1, Coef.const 2)] [(0, Coef.strm [1, 2, 3])]
    = .ok [(0, Coef.strm [1, 1/2, 1/3]), (1, Coef.strm [2, 1, 2/3])] := by decide +kernel
/-- constant streams: `Stream(2,2,2) * z^-1 + 1` against `2 * z^-1 + 1` -/
example : ALV.C06.Tree.constUpTo 3 (ALV.C06.Tree.add (.mul (.s [(2 : ℚ), 2, 2]) (.z 1)) (.c 1)) := by
  refine ⟨⟨⟨by simp, ?_⟩, trivial⟩, trivial⟩
  intro n hn
  have : n = 0 ∨ n = 1 ∨ n = 2 := by omega
  rcases this with rfl | rfl | rfl <;> rfl
example : ALV.C06.Tree.freeze 0 (ALV.C06.Tree.add (.mul (.s [(2 : Rat), 2, 2]) (.z 1)) (.c 1))
    = ALV.C06.Tree.add (.mul (.c 2) (.z 1)) (.c 1) := rfl

end ALV.Props.C06

#write_audit "C06"
