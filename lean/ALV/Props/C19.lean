/-
  C19 — property theorems (signal generators).  Only statements of the
  property, non-vacuity examples and the audit live here; helper lemmas are in
  `ALV.Lemmas.C19*`.  `K` is any linearly ordered field with a floor (ℚ, ℝ).
-/
import ALV.Lemmas.C19
import ALV.Lemmas.C19Shapes
import ALV.Lemmas.C19Table
import ALV.Lemmas.C19Real
import ALV.Lemmas.C19Resample
import ALV.Lemmas.C19TableOps
import ALV.Lemmas.C19Obj
import ALV.Lemmas.C19Float
import ALV.Lemmas.C19FloatNeg
import ALV.Lemmas.C19Twins
import ALV.Lemmas.C19Misc
import ALV.Lemmas.C19FloatBits
import ALV.Lemmas.C19Src
import Mathlib.Tactic.NormNum
import ALV.Common.Audit

namespace ALV.Props.C19
open ALV.C19
set_option linter.unusedSectionVars false
variable {K : Type} [Field K] [LinearOrder K] [IsStrictOrderedRing K] [FloorRing K]

/-! ## modulo_counter -/

/-- **C19.mc.0** the floored-modulo lemma behind "no drift": reducing early does not change
the residue. -/
theorem fmod_no_drift (a b m : K) : fmod (fmod a m + b) m = fmod (a + b) m :=
  fmod_fmod_add a b m

/-- **C19.mc.1** every one of the eight argument-kind branches of `modulo_counter`, the
`step == 0` shortcuts and the steps-batched fast paths included, yields the recursive layer
`c_0 = p_0 mod m_0`, `c_n = (c_{n-1} + s_{n-1} + (p_n - p_{n-1})) mod m_n` of the three
lock-stepped sequences its arguments stand for — for every number of outputs `n`. -/
theorem modulo_counter_eq_rec (A M S : Arg K) (n : Nat) :
    moduloCounter A M S n = mcRec (A.expand n) (M.expand n) (S.expand n) :=
  moduloCounter_rec A M S n

/-- **C19.mc.2** numbers or streams, whichever internal path: arguments that stand for the same
sequences give the same outputs. -/
theorem modulo_counter_numbers_vs_streams (A A' M M' S S' : Arg K) (n : Nat)
    (hA : A.expand n = A'.expand n) (hM : M.expand n = M'.expand n)
    (hS : S.expand n = S'.expand n) :
    moduloCounter A M S n = moduloCounter A' M' S' n := by
  rw [moduloCounter_rec, moduloCounter_rec, hA, hM, hS]

/-- **C19.mc.3** constant modulo (a number or a constant stream): output `k` is the running sum
of `start_k` and all earlier steps, reduced once — no drift, whatever path is taken. -/
theorem modulo_counter_const_modulo (A M S : Arg K) (m : K) (n : Nat)
    (hM : M.expand n = List.replicate n m) :
    moduloCounter A M S n = mcClosed m (A.expand n) (S.expand n) := by
  rw [moduloCounter_rec, hM]
  apply mcRec_closed
  rcases A with a | ps <;> simp [Arg.expand]

/-- **C19.mc.4** all three arguments numbers (plain loop, `step == 0` or batched fast path):
output `k` is `(start + k·step) mod modulo`. -/
theorem modulo_counter_numbers (a m s : K) (n : Nat) :
    moduloCounter (.num a) (.num m) (.num s) n = mcNumbers a m s n := by
  rw [modulo_counter_const_modulo _ _ _ m n rfl]
  exact mcClosed_numbers a m s n

/-- **C19.mc.5** every output lies in `[0, m_k)` for a positive modulo `m_k` (and in `(m_k, 0]`
for a negative one, as Python's `%`). -/
theorem modulo_counter_range (A M S : Arg K) (n i : Nat) (x m : K)
    (hx : (moduloCounter A M S n)[i]? = some x) (hm : (M.expand n)[i]? = some m) :
    (0 < m → 0 ≤ x ∧ x < m) ∧ (m < 0 → m < x ∧ x ≤ 0) := by
  rw [moduloCounter_rec] at hx
  exact mcRec_inRange _ _ _ i x m hx hm

/-- **C19.mc.6** the counter ends when one of its iterable arguments does (and is endless when
none is iterable): `n` outputs are asked for, the shortest argument decides. -/
theorem modulo_counter_length (A M S : Arg K) (n : Nat) :
    (moduloCounter A M S n).length
      = min (A.expand n).length (min (M.expand n).length (S.expand n).length) := by
  rw [moduloCounter_rec, mcRec_length]

/-- the driver's `Rat` instance of the model's floor is the floor the theorems speak about -/
theorem rat_floor_agrees : (instFloorRat : Floor ℚ) = floorOfFloorRing := rfl

/-! non-vacuity: the branches are really taken, on exact rationals -/
example : mcBranch (.num (1:Rat)) (.num 5) (.num 2) = "---:fast" := by decide +kernel
example : moduloCounter (.num (1:Rat)) (.num 5) (.num 2) 6 = [1, 3, 0, 2, 4, 1] := by decide +kernel
example : moduloCounter (.strm [(1:Rat), 2, 4]) (.num 5) (.num (-2)) 6 = [1, 0, 0] := by decide +kernel
example : moduloCounter (.strm [(1:Rat), 2, 4, 4]) (.strm [3, 2, 5, 1/2]) (.strm [7, 7, -1/3, 0]) 9
    = [1, 1, 0, 1/6] := by decide +kernel
example : (Arg.num (3:Rat)).expand 2 = (Arg.strm [3, 3, 3]).expand 2 := by decide +kernel

/-! ## durations and piecewise-linear shapes -/

/-- **C19.line.1** `line(dur, begin, end, finish)` has `⌊dur + 1/2⌋` samples
`begin + i·(end-begin)/(dur-finish)` — whenever the slope exists (`dur - finish ≠ 0`). -/
theorem line_eq_spec (dur b e : K) (fin : Bool) (h : dur - (if fin then 1 else 0) ≠ 0) :
    line dur b e fin = .ok (lineSpec dur b e fin) := line_ok dur b e fin h

theorem line_length (dur b e : K) (fin : Bool) :
    (lineSpec dur b e fin).length = ⌊dur + 1 / 2⌋.toNat := by
  simp [lineSpec, durLen, floor_def, half_eq]

theorem line_sample (dur b e : K) (fin : Bool) (i : Nat) (h : i < (lineSpec dur b e fin).length) :
    (lineSpec dur b e fin)[i] = b + ((i : ℤ) : K) * (e - b) / (dur - (if fin then 1 else 0)) := by
  simp [lineSpec]

/-- **C19.line.2** the hypothesis of `line_eq_spec` is forced: at the two excluded points the code
divides by zero before yielding, while the property asks for 0 samples (`line(0)`, `fadein(0)`)
resp. the single sample `begin` (`line(1, finish=True)`) — defect D8. -/
theorem line_excluded_points (b e : K) :
    (line 0 b e false = .error "ZeroDivisionError" ∧ lineSpec 0 b e false = []) ∧
    (line 1 b e true = .error "ZeroDivisionError" ∧ lineSpec 1 b e true = [b]) := by
  have f0 : ⌊(0 : K) + half⌋ = 0 := by
    rw [half_eq, Int.floor_eq_iff]; norm_num
  have f1 : ⌊(1 : K) + half⌋ = 1 := by
    rw [half_eq, Int.floor_eq_iff]; norm_num
  refine ⟨⟨line_err _ _ _ _ (by simp), ?_⟩, ⟨line_err _ _ _ _ (by simp), ?_⟩⟩
  · rw [zero_add] at f0; simp [lineSpec, durLen, floor_def, f0]
  · simp [lineSpec, durLen, floor_def, f1]

/-- **C19.line.3** the fades are the lines 0 → 1 and 1 → 0 of `⌊dur + 1/2⌋` samples. -/
theorem fadein_eq_spec (dur : K) (h : dur ≠ 0) : fadein dur = .ok (lineSpec dur 0 1 false) :=
  line_ok dur 0 1 false (by simpa using h)
theorem fadeout_eq_spec (dur : K) (h : dur ≠ 0) : fadeout dur = .ok (lineSpec dur 1 0 false) :=
  line_ok dur 1 0 false (by simpa using h)

/-- **C19.dur.1** `ones` / `zeros`: `⌊dur + 1/2⌋` copies of the value (endless without a
duration), for every number `n` of samples read. -/
theorem ones_zeros_eq_spec (v : K) (dur : Option K) (n : Nat) :
    constGen v dur n = constSpec v dur n := constGen_eq v dur n

/-- **C19.dur.2** `impulse`: `⌊dur + 1/2⌋` samples, `one` first, then only `zero`
(any item type). -/
theorem impulse_eq_spec {β : Type} (dur : Option K) (one zero : β) (n : Nat) :
    impulse dur one zero n = impulseSpec dur one zero n := impulse_eq dur one zero n

/-- **C19.adsr.1** `adsr` with positive attack, decay and release times is the piecewise-linear
envelope 0 → 1 → s, s held, s → 0. -/
theorem adsr_eq_spec (dur a d s r : K) (ha : 0 < a) (hd : 0 < d) (hr : 0 < r) :
    adsr dur a d s r = .ok (adsrSpec dur a d s r) := adsr_ok dur a d s r ha hd hr

/-- **C19.adsr.2** it lasts `⌊dur + 1/2⌋` samples when attack, decay and release fit in. -/
theorem adsr_length (dur a d s r : K) (h : durLen a + durLen d + durLen r ≤ durLen dur) :
    (adsrSpec dur a d s r).length = durLen dur := adsrSpec_length dur a d s r h

/-- **C19.adsr.3** a zero attack, decay or release time makes the code divide by zero (D8),
although the envelope of the property is well defined there (that segment is empty). -/
theorem adsr_excluded_points (dur a d s r : K) (h : a = 0 ∨ d = 0 ∨ r = 0) :
    adsr dur a d s r = .error "ZeroDivisionError" := adsr_err dur a d s r h

/-- **C19.attack.1** `attack(a, d, s)`: 0 → 1 over `a`, 1 → s over `d`, then `s` for ever … -/
theorem attack_number_eq_spec (a d x : K) (n : Nat) (ha : a ≠ 0) (hd : d ≠ 0) :
    attack a d (.num x) n = .ok (attackSpec a d x (List.replicate n x) n) :=
  attack_num_ok a d x n ha hd

/-- … or, for an iterable sustain, decaying to its first item and continuing with the others. -/
theorem attack_stream_eq_spec (a d x : K) (xs : List K) (n : Nat) (ha : a ≠ 0) (hd : d ≠ 0) :
    attack a d (.strm (x :: xs)) n = .ok (attackSpec a d x xs n) :=
  attack_strm_ok a d x xs n ha hd

example : line (4 : Rat) 1 3 false = .ok [1, 3/2, 2, 5/2] := by decide +kernel
example : line (7/2 : Rat) 1 3 true = .ok [1, 9/5, 13/5, 17/5] := by decide +kernel
example : adsr (21/2 : Rat) (5/2) 2 (1/2) 3
    = .ok [0, 2/5, 4/5, 1, 3/4, 1/2, 1/2, 1/2, 1/2, 1/3, 1/6] := by decide +kernel
example : (0 : Rat) < 5/2 ∧ durLen (5/2 : Rat) + durLen (2 : Rat) + durLen (3 : Rat) ≤ durLen (21/2 : Rat) := by
  decide +kernel
example : impulse (some (7/2 : Rat)) "one" "zero" 9 = ["one", "zero", "zero", "zero"] := by decide +kernel
example : attack (2 : Rat) 2 (.strm [1/2, 7, 8]) 9 = .ok [0, 1/2, 1, 3/4, 7, 8] := by decide +kernel

/-- **C19.noise.1** `white_noise(dur)` / `gauss_noise(dur)` use `rint(dur)`: the same
`⌊dur + 1/2⌋` samples as the other generators, for every duration (negative: none). -/
theorem noise_duration (dur : K) : (rint dur).toNat = durLen dur := rint_toNat dur

/-! ## oscillators on top of modulo_counter -/

/-- **C19.table.1** a `TableLookup` oscillator never indexes outside its table and its sample
`k` is the cyclic linear interpolation of the table at the *unreduced* position
`c·phase_k + Σ_{i<k} c·freq_i`, `c = len / (cycles·2π)` — numbers or streams, any path of the
underlying counter, every `n`. -/
theorem table_lookup_eq_spec (tbl : List K) (h : tbl ≠ []) (den : K) (freq phase : Arg K) (n : Nat) :
    tableCall tbl den freq phase n = (tableSpec tbl den freq phase n).map some :=
  tableCall_eq tbl h den freq phase n

/-- **C19.table.1b** for a constant frequency and phase: sample `k` is the table read at
`c·phase + k·c·freq`. -/
theorem table_lookup_numbers (tbl : List K) (den f p : K) (n : Nat) :
    tableSpec tbl den (.num f) (.num p) n
      = (List.range n).map fun (k : Nat) =>
          interpCyc tbl (((tbl.length : Int) : K) / den * p
            + (((k : Nat) : ℤ) : K) * (((tbl.length : Int) : K) / den * f)) :=
  tableSpec_numbers tbl den f p n

/-- **C19.table.2** the interpolation is cyclic: whole table lengths do not matter. -/
theorem interp_cyclic (tbl : List K) (x : K) (z : ℤ) :
    interpCyc tbl (x + z * ((tbl.length : ℤ) : K)) = interpCyc tbl x :=
  interpCyc_add_int_mul tbl x z

/-- **C19.table.3** `TableLookup.__getitem__` is the cyclic linear interpolation at every
non-negative and at every integer position.  (For a negative non-integer position the code
truncates toward zero instead of flooring — defect D15, see the `example` below.) -/
theorem table_getitem_eq_spec (tbl : List K) (h : tbl ≠ []) (idx : K)
    (hidx : 0 ≤ idx ∨ idx = ((⌊idx⌋ : ℤ) : K)) :
    tableGetItem tbl idx = some (interpCyc tbl idx) :=
  tableGetItem_eq tbl h idx hidx

/-- **C19.table.4** operators act on the table contents element by element (equal cycles and
sizes; otherwise the model raises ValueError as the code does). -/
theorem table_binary_elementwise (op : TOp) (t1 t2 : List K) (c : K) (h : t1.length = t2.length) :
    tblBinary op t1 c t2 c = .ok (List.zipWith op.app t1 t2) := tblBinary_ok op t1 t2 c h

/-- **C19.table.5** `normalize()` keeps the size, every value lies within [-1, 1] and the value
1 is reached (the element of largest magnitude is divided by itself). -/
theorem table_normalize_range (t r : List K) (h : tblNormalize t = .ok r) :
    r.length = t.length ∧ (∀ x ∈ r, |x| ≤ 1) ∧ (1 : K) ∈ r := tblNormalize_range t r h

/-- **C19.table.6** `harmonize`: when `partial + 1` divides the table length, partial `p` reads
the table `p + 1` times as fast, cyclically: entry `k` is `Σ amplitude_p · table[k·(p+1) mod len]`. -/
theorem table_harmonize_eq_spec (t : List K) (harm : List (Nat × K))
    (hd : ∀ pa ∈ harm, (pa.1 + 1) ∣ t.length) :
    tblHarmonize t harm = harmonizeSpec t harm := tblHarmonize_eq t harm hd

/-- **C19.sin.1** `sinusoid(freq, phase)` sample `k` is `sin(phase_k + Σ_{i<k} freq_i)`: the
reduction modulo `2π` inside the counter is invisible (over ℝ, for every path and every `n`). -/
theorem sinusoid_eq_spec (freq phase : Arg ℝ) (n : Nat) :
    sinusoid Real.sin (2 * Real.pi) freq phase n = sinusoidSpec Real.sin freq phase n :=
  sinusoid_real freq phase n

/-- **C19.sin.2** for numbers: `sin(phase + k·freq)`. -/
theorem sinusoid_numbers (f p : ℝ) (n : Nat) :
    sinusoid Real.sin (2 * Real.pi) (.num f) (.num p) n
      = (List.range n).map fun (k : Nat) => Real.sin (p + (((k : Nat) : ℤ) : ℝ) * f) := by
  rw [sinusoid_real, sinusoidSpec_numbers]

/-- **C19.ks.1** `karplus_strong`: the generated filter loop of the linearised comb (shift
register of `⌈delay⌉` cells, zero input) is the recursion
`y[k] = alpha·((1-w)·y[k-D] + w·y[k-D-1])` started on the (left zero-padded) initial memory. -/
theorem karplus_eq_spec (alpha delay : K) (h1 : 1 ≤ delay) (memory : List K) (n : Nat) :
    karplus alpha delay memory n = karplusSpec alpha delay memory n :=
  karplus_eq alpha delay h1 memory n

example : tableCall [(0 : Rat), 10, 20, 30] 1 (.num (3/8)) (.num (1/2)) 8
    = [20, 15, 10, 25, 0, 15, 30, 5].map some := by decide +kernel
example : tableGetItem [(0 : Rat), 10, 20, 30] (7/2) = some 15 := by decide +kernel
-- D15: a negative fractional index is not interpolated by the code
example : tableGetItem [(0 : Rat), 10, 20, 30] (-1/2) = some 0 ∧ interpCyc [(0 : Rat), 10, 20, 30] (-1/2) = 15 := by
  decide +kernel
example : tblHarmonize [(0 : Rat), 1, 2, 3, 4, 5] [(0, 1), (1, 1/2), (2, 2)] = [0, 8, 4, 9, 5, 13] := by
  decide +kernel
example : tblNormalize [(1 : Rat), -2] = .ok [-1/2, 1] := by decide +kernel
example : karplus (1 : Rat) (9/4) [1, 2, 3] 6 = [9/4, 5/4, 31/16, 3/2, 113/64, 103/64] := by decide +kernel

/-! ## resample -/

/-- **C19.res.1** (constant step `old/new ≥ 0`, order ≥ 1, at least `order/2 + 1` input samples)
the generator — `deque` window, `while idx > threshold` loop, `lagrange(enumerate(data))(idx)` —
yields exactly the specification: output `m` is the order-`p` Lagrange interpolation of the
`p+1` neighbouring samples of the left-zero-extended input at position `m·old/new`, as long as
that window does not reach past the last input sample; it ends (`≠ fuel`) exactly when the
specification does — i.e. when its input does.  For every input, zero value and `n`. -/
theorem resample_eq_spec (xs : List K) (s : K) (order : Nat) (zero : K) (n : Nat)
    (ho : 1 ≤ order) (hlen : order / 2 + 1 ≤ xs.length) (hs : 0 ≤ s) :
    ∃ r, resample xs (.num s) order zero n = .ok r ∧
      r.1 = (resampleSpec xs (.num s) order zero n).1 ∧
      (r.2 ≠ .fuel ↔ (resampleSpec xs (.num s) order zero n).2 = true) :=
  resample_num xs s order zero n ho hlen hs

/-- **C19.res.2** the same for a time-varying step (a stream of non-negative steps): positions
are the running sums, and the output also ends when the step stream does. -/
theorem resample_stream_eq_spec (xs ss : List K) (order : Nat) (zero : K) (n : Nat)
    (ho : 1 ≤ order) (hlen : order / 2 + 1 ≤ xs.length) (hss : ∀ s ∈ ss, 0 ≤ s) :
    ∃ r, resample xs (.strm ss) order zero n = .ok r ∧
      r.1 = (resampleSpec xs (.strm ss) order zero n).1 ∧
      (r.2 ≠ .fuel ↔ (resampleSpec xs (.strm ss) order zero n).2 = true) :=
  resample_strm xs ss order zero n ho hlen hss

/-- **C19.res.3** integer positions reproduce the input: at position `p ∈ ℕ` the interpolated
value is the input sample `x[p]` (whatever the order). -/
theorem resample_integer_position (xs : List K) (zero : K) (order : Nat) (p : Nat) :
    resValue xs zero order (((p : Int) : K)) = xs.getD p zero := by
  rw [resValue_nat]; simp [extGet]

/-- **C19.res.3b** identity resampling (`old = new`): the generator reproduces its input (all
but the last `order/2` samples, whose interpolation window would need samples after the end). -/
theorem resample_identity (xs : List K) (order : Nat) (zero : K) (n : Nat)
    (ho : 1 ≤ order) (hlen : order / 2 + 1 ≤ xs.length) :
    ∃ r, resample xs (.num 1) order zero n = .ok r ∧
      r.1 = (xs.take (xs.length - order / 2)).take n := by
  obtain ⟨r, h1, h2, _⟩ := resample_num xs 1 order zero n ho hlen zero_le_one
  exact ⟨r, h1, by rw [h2, resampleSpec_identity]⟩

/-- **C19.res.4** the Waring–Lagrange interpolator on `enumerate(data)` returns `data[i]` at
node `i` (C07.4 for the nodes `0..p`). -/
theorem lagrange_interpolates (data : List K) (i : Nat) (hi : i < data.length) :
    lagrangeEnum data (((i : Int) : K)) = data.getD i 0 := lagrangeEnum_node data i hi

/-- **C19.res.5** `order = 0` makes the code raise TypeError (D14): the hypothesis `1 ≤ order`
of C19.res.1 is forced; the specification itself is meaningful there (nearest neighbour). -/
theorem resample_order_zero (xs : List K) (step : Arg K) (zero : K) (n : Nat) :
    resample xs step 0 zero n = .error "TypeError" := by
  simp [resample]

example : resample [(1 : Rat), 2, 4, 8] (.num (1/2)) 1 0 20 = .ok ([1, 3/2, 2, 3, 4, 6, 8], .input) := by
  decide +kernel
example : resampleSpec [(1 : Rat), 2, 4, 8] (.num (1/2)) 1 0 20 = ([1, 3/2, 2, 3, 4, 6, 8], true) := by
  decide +kernel
example : (resampleSpec [(1 : Rat), 2, 4, 8, 3] (.num (3/4)) 0 0 20).1 = [1, 2, 2, 4, 8, 3, 3] := by
  decide +kernel

/-! ## `TableLookup` objects are mutable: histories

A history is any sequence of operations on a heap of python lists, `TableLookup` objects referring
to them (several objects may share one list) and open oscillator streams: attribute assignments
`tl.table = …` / `tl.cycles = …`, in-place list changes, operators / `normalize` / `harmonize`,
`tl(freq, phase)` (a lazy stream, read in chunks, several alive at once), `tl[idx]`, `len(tl)`,
`==`.  `histModel` is the code as written — the `table` setter caches `len(table)`, a call reads
the cached length, `self.cycles` and `self.table` once —, `histSpec` answers every use from the
*current* table contents and the *current* `cycles`.  `denOf c` is the value of `c * 2 * pi`. -/

/-- **C19.hist.0** the empty heap satisfies the invariant (no list is empty; every `_table` is a
list; every cached length is the length of the list it was taken from). -/
theorem hist_invariant_initial : WF ({ lists := [], objs := [], oscs := [] } : Heap K) :=
  ⟨by simp, by simp, by simp⟩

/-- **C19.hist.1** the invariant is kept by every operation — assignments of either attribute,
in-place item assignment, every operator, `normalize`, `harmonize`, calls, reads, and every
*failing* operation — except the two that change the length of a list behind the object's back
(`append`, `pop`) and the assignment of something without a length to `table` (`HOp.safe`). -/
theorem hist_invariant_preserved (denOf : K → K) (h : Heap K) (ops : List (HOp K)) (w : WF h)
    (hs : ∀ op ∈ ops, op.safe) : WF (runHeap denOf h ops) := runHeap_WF denOf ops h w hs

/-- **C19.hist.2** every step of every such history, as coded = as specified: each oscillator read
is the cyclic linear interpolation of the table its stream refers to, at `len/(cycles·2π)`
positions per radian with the `cycles` of the moment of the call; `tl[idx]`, `len(tl)`, the
operators' compatibility checks and `harmonize` use the current table. -/
theorem hist_model_eq_spec (denOf : K → K) (h : Heap K) (ops : List (HOp K)) (w : WF h)
    (hs : ∀ op ∈ ops, op.safe) : histModel denOf h ops = histSpec denOf h ops :=
  histModel_eq_histSpec denOf ops h w hs

/-- **C19.hist.3** the oscillator depends only on the current table and the current `cycles`:
after whatever history (invariant kept), calling object `i` and reading `n` samples gives the
specification evaluated on the contents `xs` of its list and on its `cycles` — the right-hand side
mentions nothing else of the heap (no cached value, no earlier assignment). -/
theorem hist_oscillator_reads_current_value (denOf : K → K) (h : Heap K) (w : WF h) (i : Nat)
    (f p : Arg K) (n : Nat) (xs : List K) (c : K) (e : h.value? i = some (xs, c)) (hd : denOf c ≠ 0) :
    (step denOf (step denOf h (.call i f p)).1 (.read h.oscs.length n)).2
      = .samples (tableSpec xs (denOf c) f p n)
          (if (tableSpec xs (denOf c) f p n).length < n then "stop" else "fuel") := by
  unfold Heap.value? at e
  cases e' : h.obj? i with
  | none => simp [e'] at e
  | some q =>
    obtain ⟨o, t⟩ := q
    simp only [e', Option.map_some, Option.some.injEq, Prod.mk.injEq] at e
    obtain ⟨rfl, rfl⟩ := e
    exact call_read_current denOf h w i f p n o t e' hd

/-- **C19.hist.3b** hence two objects with equal table contents and equal `cycles` — in two heaps
reached by arbitrary different histories — sound the same. -/
theorem hist_oscillator_depends_only_on_value (denOf : K → K) (h₁ h₂ : Heap K) (w₁ : WF h₁) (w₂ : WF h₂)
    (i j : Nat) (f p : Arg K) (n : Nat) (xs : List K) (c : K)
    (e₁ : h₁.value? i = some (xs, c)) (e₂ : h₂.value? j = some (xs, c)) (hd : denOf c ≠ 0) :
    (step denOf (step denOf h₁ (.call i f p)).1 (.read h₁.oscs.length n)).2
      = (step denOf (step denOf h₂ (.call j f p)).1 (.read h₂.oscs.length n)).2 := by
  rw [hist_oscillator_reads_current_value denOf h₁ w₁ i f p n xs c e₁ hd,
      hist_oscillator_reads_current_value denOf h₂ w₂ j f p n xs c e₂ hd]

/-- **C19.hist.4** a stream that is already open is isolated from everything that happens to the
object afterwards: whatever operations follow — assignments of `table` or `cycles`, operators,
other calls, reads of other streams —, as long as the list the stream refers to is not changed in
place and the stream itself is not read, its next samples are what they would have been. -/
theorem hist_stream_isolated (denOf : K → K) (h : Heap K) (ops : List (HOp K)) (s k : Nat)
    (o : Osc K) (xs : List K) (ho : h.oscs[s]? = some o) (hx : h.lists[o.tbl]? = some xs)
    (hall : ∀ op ∈ ops, ¬ op.mutatesList o.tbl ∧ ¬ op.readsStream s) :
    (step denOf (runHeap denOf h ops) (.read s k)).2 = (step denOf h (.read s k)).2 := by
  obtain ⟨a, b⟩ := runHeap_keeps_stream denOf ops h ho hx hall
  exact read_obs_congr denOf h _ s k o (some xs) ho hx a b

/-- **C19.hist.5** a failing operation (ValueError of incompatible operands or of `normalize` on
zeros, NotImplementedError for an unknown scalar type, IndexError, ZeroDivisionError, TypeError on
a broken object) leaves the heap exactly as it was — with one exception, forced: the `table`
setter stores its argument *before* asking for its length, so `tl.table = <no len()>` raises
TypeError with `_table` already replaced (defect D17, `example` below; the specification
`specStep` leaves the object alone there). -/
theorem hist_failing_step_changes_nothing (denOf : K → K) (h : Heap K) (op : HOp K) (e : String)
    (hne : ¬ op.isUnsizedAssign) (he : (step denOf h op).2 = .err e) : (step denOf h op).1 = h :=
  step_err_unchanged denOf h op e hne he

/-- **C19.hist.5b** in the specification every failing operation, that assignment included,
changes nothing. -/
theorem hist_spec_failing_step_changes_nothing (denOf : K → K) (h : Heap K) (w : WF h) (op : HOp K)
    (e : String) (he : (specStep denOf h op).2 = .err e) : (specStep denOf h op).1 = h := by
  by_cases hu : op.isUnsizedAssign
  · cases op <;> simp only [HOp.isUnsizedAssign] at hu
    simp only [specStep]; split <;> rfl
  · by_cases hs : op.safe
    · rw [← step_eq_specStep denOf h op w hs] at he ⊢
      exact step_err_unchanged denOf h op e hu he
    · cases op <;> simp only [HOp.safe, HOp.isUnsizedAssign, not_true_eq_false, not_false_eq_true] at hs hu
      all_goals exact step_err_unchanged denOf h _ e (by simp [HOp.isUnsizedAssign]) he

/-- **C19.hist.6** uses are pure: reading a stream, `tl[idx]`, `len`, `==` and looking at the table
change no list and no object. -/
theorem hist_uses_are_pure (denOf : K → K) (h : Heap K) (op : HOp K) (hu : op.isUse) :
    (step denOf h op).1.lists = h.lists ∧ (step denOf h op).1.objs = h.objs :=
  step_use_pure denOf h op hu

/-- **C19.hist.7** operators, `normalize` and `harmonize` return new objects with new lists: every
existing list, object and stream is left as it was (at most one list and one object are added). -/
theorem hist_operators_allocate (denOf : K → K) (h : Heap K) (op : HOp K) (ho : op.isOperator) :
    ∃ ls os, (step denOf h op).1.lists = h.lists ++ ls ∧ (step denOf h op).1.objs = h.objs ++ os ∧
      ls.length ≤ 1 ∧ os.length = ls.length ∧ (step denOf h op).1.oscs = h.oscs :=
  step_operator_fresh denOf h op ho

/-! non-vacuity, on exact rationals (`denOf = id`: one table per `cycles` radians).  One object,
called; `cycles` reassigned; called again: the second stream runs at the new speed, the first one
goes on at the old one. -/
example : histModel (fun c : Rat => c) { lists := [], objs := [], oscs := [] }
    [.newList [0, 10, 20, 30], .new 0 1, .call 0 (.num (3/8)) (.num (1/2)), .read 0 4,
     .setCycles 0 2, .call 0 (.num (3/8)) (.num (1/2)), .read 1 4, .read 0 2, .len 0]
    = [.ref 0, .ref 0, .ref 0, .samples [20, 15, 10, 25] "fuel",
       .unit, .ref 1, .samples [10, 35/2, 25, 45/2] "fuel", .samples [0, 15] "fuel", .nat 4] := by
  decide +kernel
-- a failing operator, then an operator result edited in place: the operand is untouched
example : histModel (fun c : Rat => c) { lists := [], objs := [], oscs := [] }
    [.newList [1, 2], .new 0 1, .newList [5, 6, 7], .new 1 1, .binary .add 0 1, .neg 0,
     .setItem 2 0 9, .table 2, .table 0]
    = [.ref 0, .ref 0, .ref 1, .ref 1, .err "ValueError", .ref 2, .unit, .table [9, -2] 1, .table [1, 2] 1] := by
  decide +kernel
-- the hypothesis `safe` of C19.hist.1/2 is forced: after `table.append(x)` the cached length is
-- stale and the oscillator is the cyclic interpolation of neither the old nor the new table
example : histModel (fun c : Rat => c) { lists := [], objs := [], oscs := [] }
      [.newList [0, 10, 20, 30], .new 0 4, .append 0 40, .call 0 (.num (1/2)) (.num 0), .read 0 8, .len 0]
    = [.ref 0, .ref 0, .unit, .ref 0, .samples [0, 10, 10, 20, 20, 30, 30, 15] "fuel", .nat 4] ∧
    histSpec (fun c : Rat => c) { lists := [], objs := [], oscs := [] }
      [.newList [0, 10, 20, 30], .new 0 4, .append 0 40, .call 0 (.num (1/2)) (.num 0), .read 0 8, .len 0]
    = [.ref 0, .ref 0, .unit, .ref 0, .samples [0, 25/4, 25/2, 75/4, 25, 125/4, 75/2, 25] "fuel", .nat 5] := by
  decide +kernel

-- D17: the failing assignment is not atomic in the code as written — afterwards the object's
-- table cannot be read any more, while the specification leaves it as it was
example : histModel (fun c : Rat => c) { lists := [], objs := [], oscs := [] }
      [.newList [0, 10], .new 0 1, .setTableUnsized 0, .table 0, .len 0]
    = [.ref 0, .ref 0, .err "TypeError", .err "TypeError", .nat 2] ∧
    histSpec (fun c : Rat => c) { lists := [], objs := [], oscs := [] }
      [.newList [0, 10], .new 0 1, .setTableUnsized 0, .table 0, .len 0]
    = [.ref 0, .ref 0, .err "TypeError", .table [0, 10] 1, .nat 2] := by
  decide +kernel


/-! ## the float regime: operation-generic generators

`ALV/Model/C19Float.lean` writes the generators once more over a record `NumOps α` of the number
operations (`+ - * / % ==0 < int() ceil isinf`, the raising ones `Except`-valued).  The driver runs
them on IEEE binary64 (`floatOps`) and predicts the float outputs of the real code bit for bit;
here: (a) over the exact operations they are the proved model / the specification, (b) for ANY
operations every output of `modulo_counter` is a double reduction, (c) Python's float `%` — C
`fmod`, exact, then ONE rounded addition to move the result to the sign of the divisor — lands in
the closed range `[0, m]` once and in `[0, m)` twice, for any monotone rounding, hence (d) the
range contract of the counter for any such float-like number type. -/

/-- **C19.float.1** over the exact operations the operation-generic `modulo_counter` is the model
(all eight branches, `step == 0` shortcuts, both batched fast paths) and raises nothing: every
theorem above speaks about it. -/
theorem generic_counter_is_model (A M S : Arg K) (n : Nat) :
    mcG fieldOps A M S n = (moduloCounter A M S n, none) := mcG_field A M S n

/-- **C19.float.2** whatever the number operations (IEEE floats included): every output of every
path of `modulo_counter` is `y % m % m` for some `y` and a modulo `m` delivered by the `modulo`
argument.  (A path that reduces only once is not this code.) -/
theorem counter_outputs_double_reduced {α : Type} (o : NumOps α) (A M S : Arg α) (n : Nat) :
    ∀ x ∈ (mcG o A M S n).1, ∃ y, ∃ m ∈ Arg.vals M, mod2G o y m = .ok x := mcG_double o A M S n

/-- **C19.float.3** one float reduction `a % m`, `m > 0`, with any monotone rounding that fixes `0`
and `m`: the CLOSED range `[0, m]` … -/
theorem float_mod_closed_range (rnd : K → K) (mono : Monotone rnd) (a m : K) (hm : 0 < m)
    (h0 : rnd 0 = 0) (hmm : rnd m = m) : 0 ≤ fmodR rnd a m ∧ fmodR rnd a m ≤ m :=
  fmodR_closed_range rnd mono a m hm h0 hmm

/-- **C19.float.4** … and the double reduction `a % m % m` that the code writes everywhere: `[0, m)`. -/
theorem float_mod_double_range (rnd : K → K) (mono : Monotone rnd) (a m : K) (hm : 0 < m)
    (h0 : rnd 0 = 0) (hmm : rnd m = m) :
    0 ≤ fmodR rnd (fmodR rnd a m) m ∧ fmodR rnd (fmodR rnd a m) m < m :=
  fmodR_double_range rnd mono a m hm h0 hmm

/-- **C19.float.5** without rounding Python's float `%` is the floored modulo of the exact model. -/
theorem float_mod_exact (a m : K) (hm : 0 < m) : fmodR id a m = fmod a m := fmodR_id a m hm

/-- **C19.float.6** the range contract for any float-like number type: if `%` is Python's float
`%` with a monotone rounding (all OTHER operations arbitrary — rounded sums, products, …), then
every output of `modulo_counter(start, m, step)`, `m > 0` a number, numbers or streams for the
other two, plain or batched path, lies in `[0, m)`. -/
theorem counter_range_any_rounding (o : NumOps K) (rnd : K → K) (mono : Monotone rnd) (m : K)
    (hm : 0 < m) (h0 : rnd 0 = 0) (hmm : rnd m = m) (hmod : ∀ a, o.mod a m = .ok (fmodR rnd a m))
    (A S : Arg K) (n : Nat) : ∀ x ∈ (mcG o A (.num m) S n).1, 0 ≤ x ∧ x < m := by
  intro x hx
  obtain ⟨y, m', hm', e⟩ := mcG_double o A (.num m) S n x hx
  simp only [Arg.vals, List.mem_singleton] at hm'
  subst hm'
  simp only [mod2G, hmod, Except.ok.injEq] at e
  rw [← e]
  exact fmodR_double_range rnd mono y m' hm h0 hmm

/-- **C19.float.7** `line` as coded today (an empty line needs no slope) over the exact operations
is the specification for EVERY duration, `dur - finish = 0` included (C19.line.2 is repaired). -/
theorem generic_line_eq_spec (dur b e : K) (fin : Bool) (n : Nat) :
    lineG fieldOps dur b e fin n = ((lineSpec dur b e fin).take n, none) := lineG_field dur b e fin n

/-- **C19.float.8** `ones` / `zeros` / `impulse`, operation-generic, over the exact operations. -/
theorem generic_const_eq_spec (v : K) (dur : Option K) (n : Nat) :
    constG fieldOps v dur n = (constSpec v dur n, none) := constG_field v dur n

theorem generic_impulse_eq_spec {β : Type} (dur : Option K) (one zero : β) (n : Nat) :
    impulseG fieldOps dur one zero n = (impulseSpec dur one zero n, none) := by
  rw [impulseG_field, impulse_eq]

-- the closed end IS reached by one reduction: a tiny negative value rounds up to the modulo …
example : fmodR rndQuarter (-1/100 : Rat) 5 = 5 := by decide +kernel
-- … the second reduction brings it back, and the exact `%` never gets there
example : fmodR rndQuarter (fmodR rndQuarter (-1/100 : Rat) 5) 5 = 0 := by decide +kernel
example : fmodR id (-1/100 : Rat) 5 = 499/100 ∧ fmod (-1/100 : Rat) 5 = 499/100 := by decide +kernel
-- the generic counter on exact rationals (fast path, batch boundary crossed)
example : mcG (fieldOps : NumOps Rat) (.num 1) (.num 5) (.num 2) 6 = ([1, 3, 0, 2, 4, 1], none) := by
  rw [mcG_field]; decide +kernel
example : lineG (fieldOps : NumOps Rat) 0 3 7 false 5 = ([], none) ∧
    lineG (fieldOps : NumOps Rat) 1 3 7 true 5 = ([3], none) := by decide +kernel

/-! ### negative modulo: the mirror image (PENDING of round 3, proved) -/

/-- **C19.float.3n** one float reduction `a % m`, `m < 0`, any monotone rounding that fixes `0` and
`m`: the CLOSED range `[m, 0]`. -/
theorem float_mod_closed_range_neg (rnd : K → K) (mono : Monotone rnd) (a m : K) (hm : m < 0)
    (h0 : rnd 0 = 0) (hmm : rnd m = m) : m ≤ fmodR rnd a m ∧ fmodR rnd a m ≤ 0 :=
  fmodR_closed_range_neg rnd mono a m hm h0 hmm

/-- **C19.float.4n** the double reduction `a % m % m`, `m < 0`: `(m, 0]`. -/
theorem float_mod_double_range_neg (rnd : K → K) (mono : Monotone rnd) (a m : K) (hm : m < 0)
    (h0 : rnd 0 = 0) (hmm : rnd m = m) :
    m < fmodR rnd (fmodR rnd a m) m ∧ fmodR rnd (fmodR rnd a m) m ≤ 0 :=
  fmodR_double_range_neg rnd mono a m hm h0 hmm

/-- **C19.float.5n** without rounding Python's float `%` is the floored modulo of the exact model
for EVERY non-zero modulo. -/
theorem float_mod_exact_any_sign (a m : K) (hm : m ≠ 0) : fmodR id a m = fmod a m := fmodR_id_ne a m hm

/-- **C19.float.6n** the range contract for any float-like number type and a NEGATIVE modulo: every
output of `modulo_counter(start, m, step)` lies in `(m, 0]`, whatever path, whatever the other
operations do. -/
theorem counter_range_any_rounding_neg (o : NumOps K) (rnd : K → K) (mono : Monotone rnd) (m : K)
    (hm : m < 0) (h0 : rnd 0 = 0) (hmm : rnd m = m) (hmod : ∀ a, o.mod a m = .ok (fmodR rnd a m))
    (A S : Arg K) (n : Nat) : ∀ x ∈ (mcG o A (.num m) S n).1, m < x ∧ x ≤ 0 := by
  intro x hx
  obtain ⟨y, m', hm', e⟩ := mcG_double o A (.num m) S n x hx
  simp only [Arg.vals, List.mem_singleton] at hm'
  subst hm'
  simp only [mod2G, hmod, Except.ok.injEq] at e
  rw [← e]
  exact fmodR_double_range_neg rnd mono y m' hm h0 hmm

-- the closed end `m` IS reached by one reduction with a negative modulo, the second one removes it
example : fmodR rndQuarter (1/100 : Rat) (-5) = -5 ∧
    fmodR rndQuarter (fmodR rndQuarter (1/100 : Rat) (-5)) (-5) = 0 := by decide +kernel
example : fmodR id (1/100 : Rat) (-5) = -499/100 ∧ fmod (1/100 : Rat) (-5) = -499/100 := by decide +kernel

/-! ### the remaining generic twins over the exact operations: `adsr`, `attack`, `TableLookup` -/

/-- **C19.float.9** `adsr` as coded today (`m = num / t if t != 0 else 0.`: an empty segment needs
no slope) over the exact operations is the envelope of the property for all non-negative attack,
decay and release times, ZERO INCLUDED (C19.adsr.3 is repaired): segments of
`⌊a+½⌋`, `⌊d+½⌋`, `⌊dur+½⌋ - ⌊a+½⌋ - ⌊d+½⌋ - ⌊r+½⌋` (sustain; none if negative), `⌊r+½⌋` samples —
each time rounded separately —, read through `n` samples; nothing is raised. -/
theorem generic_adsr_eq_spec (dur a d s r : K) (n : Nat) (ha : 0 ≤ a) (hd : 0 ≤ d) (hr : 0 ≤ r) :
    adsrG fieldOps dur a d s r n = ((adsrSpec dur a d s r).take n, none) :=
  adsrG_field dur a d s r n ha hd hr

/-- **C19.float.9b** twin: wherever the unguarded model `adsr` of C19.adsr.1 yields samples (no zero
time; any sign), the generic definition yields the same ones. -/
theorem generic_adsr_is_model (dur a d s r : K) (n : Nat) (ha : a ≠ 0) (hd : d ≠ 0) (hr : r ≠ 0) :
    ∃ xs, adsr dur a d s r = .ok xs ∧ adsrG fieldOps dur a d s r n = (xs.take n, none) :=
  adsrG_field_eq_adsr dur a d s r n ha hd hr

/-- **C19.adsr.4** the documented durations, segment by segment: the envelope of the property is the
concatenation of the attack line `i/a` (`⌊a+½⌋` samples), the decay line `1 + i·(s-1)/d`
(`⌊d+½⌋`), the sustain level (`⌊dur+½⌋ - ⌊a+½⌋ - ⌊d+½⌋ - ⌊r+½⌋`, none if that is negative) and the
release line `s - i·s/r` (`⌊r+½⌋`). -/
theorem adsr_spec_segments (dur a d s r : K) :
    adsrSpec dur a d s r
      = ((List.range (durLen a)).map fun (i : Nat) => ((i : ℤ) : K) * (1 / a))
        ++ ((List.range (durLen d)).map fun (i : Nat) => 1 + ((i : ℤ) : K) * ((s - 1) / d))
        ++ List.replicate (durLen dur - durLen a - durLen d - durLen r) s
        ++ ((List.range (durLen r)).map fun (i : Nat) => s + ((i : ℤ) : K) * ((-s * 1) / r)) :=
  (adsr_segments dur a d s r _ _ _ (fun _ => rfl) (fun _ => rfl) (fun _ => rfl)).symm

/-- **C19.float.10** `attack` as coded today over the exact operations is the specification for
EVERY attack and decay time (zero and negative included: an empty segment needs no slope), for a
number … -/
theorem generic_attack_number_eq_spec (a d x : K) (n : Nat) :
    attackG fieldOps a d (.num x) n = (attackSpec a d x (List.replicate n x) n, none) :=
  attackG_field_num a d x n

/-- … and for an iterable sustain (first item = level of the decay line, the others follow). -/
theorem generic_attack_stream_eq_spec (a d x : K) (xs : List K) (n : Nat) :
    attackG fieldOps a d (.strm (x :: xs)) n = (attackSpec a d x xs n, none) :=
  attackG_field_strm a d x xs n

/-- **C19.float.10b** twin: wherever the unguarded model `attack` is defined it is the generic one. -/
theorem generic_attack_is_model (a d : K) (s : Arg K) (n : Nat) (ha : a ≠ 0) (hd : d ≠ 0) :
    attackG fieldOps a d s n = match attack a d s n with
      | .ok xs => (xs, none)
      | .error e => ([], some e) := attackG_field_eq_attack a d s n ha hd

/-- **C19.float.11** the guarded slope of today's code. -/
theorem generic_slope (num t : K) : slopeG fieldOps num t = if t = 0 then 0 else num / t :=
  slopeG_field num t

/-- **C19.float.12** one oscillator sample, generic twin over the exact operations = the model's
`lookupAt` (`none` ↔ IndexError). -/
theorem generic_lookup_is_model (tbl : List K) (idx : K) :
    lookupAtG fieldOps tbl idx = match lookupAt tbl idx with
      | some v => .ok v
      | none => .error "IndexError" := lookupAtG_field tbl idx

/-- **C19.float.13** `TableLookup(tbl, cycles)(freq, phase)`, generic twin over the exact operations:
the samples are the cyclic linear interpolation of the table at the unreduced positions
(C19.table.1), nothing is raised, and the table positions are the outputs of the model's counter. -/
theorem generic_table_lookup_eq_spec (tbl : List K) (h : tbl ≠ []) (den : K) (freq phase : Arg K) (n : Nat) :
    tableCallG fieldOps tbl den freq phase n
      = ((tableSpec tbl den freq phase n, none),
         moduloCounter (phase.map ((((tbl.length : Int) : K) / den) * ·)) (.num ((tbl.length : Int) : K))
           (freq.map ((((tbl.length : Int) : K) / den) * ·)) n) :=
  tableCallG_field tbl h den freq phase n

/-- **C19.float.14** a lazily mapped stream (`Stream.map` over the counter): as long as no sample
fails it is the mapped list; the first failing sample ends it with that exception and what was
yielded before stays. -/
theorem lazy_map_stops_at_first_error {α β : Type} (f : α → Except String β) (xs : List α) (x : α)
    (zs : List α) (e : Option String) (err : String) (ys : List β)
    (hok : List.Forall₂ (fun a b => f a = .ok b) xs ys) (hx : f x = .error err) :
    mapRun f (xs ++ x :: zs) e = (ys, some err) := mapRun_error f xs x zs e err ys hok hx

/-- **C19.float.15** the path labels: over the exact operations the generic label is the model's … -/
theorem generic_branch_is_model (A M S : Arg K) : mcBranchG fieldOps A M S = mcBranch A M S :=
  mcBranchG_field A M S

/-- … which is one of the twelve paths (eight argument-kind branches; `step == 0` / batched / plain
for the two with a number as modulo and as step) … -/
theorem counter_branch_exhaustive (A M S : Arg K) : mcBranch A M S ∈ branchLabels := mcBranch_mem A M S

/-- … and `fast` means what it says: the label is `fast` exactly when `step ≠ 0` and
`int(modulo/step) > 1`, and then the model runs the steps-batched loop (whose outputs are those of
every other path by C19.mc.1/2). -/
theorem counter_fast_path_iff (a m s : K) (n : Nat) :
    (mcBranch (.num a) (.num m) (.num s) = "---:fast" ↔ s ≠ 0 ∧ 1 < pyInt (m / s)) ∧
    (mcBranch (.num a) (.num m) (.num s) = "---:fast" →
      moduloCounter (.num a) (.num m) (.num s) n = fastN m s (pyInt (m / s)) n a 0) :=
  ⟨mcBranch_num_fast a m s, fun h => moduloCounter_num_fast a m s n ((mcBranch_num_fast a m s).mp h)⟩

theorem counter_fast_path_stream_iff (ps : List K) (m s : K) (n : Nat) :
    (mcBranch (.strm ps) (.num m) (.num s) = "P--:fast" ↔ s ≠ 0 ∧ 1 < pyInt (m / s)) ∧
    (mcBranch (.strm ps) (.num m) (.num s) = "P--:fast" →
      moduloCounter (.strm ps) (.num m) (.num s) n = (fastP m s (pyInt (m / s)) 0 0 0 ps).take n) :=
  ⟨mcBranch_strm_fast ps m s, fun h => moduloCounter_strm_fast ps m s n ((mcBranch_strm_fast ps m s).mp h)⟩

/-- **C19.mc.7** where Python raises ZeroDivisionError: at the first zero among the modulo values
the counter gets to use (`none`: no zero among them). -/
theorem counter_zero_modulo_position (A M S : Arg K) (n : Nat) :
    mcZeroAt A M S n = ((M.expand n).take (moduloCounter A M S n).length).findIdx? (· = 0) :=
  mcZeroAt_eq A M S n

/-- **C19.noise.2** number of samples of `white_noise(dur)` / `gauss_noise(dur)` among `n` reads:
endless without a duration, `⌊dur + 1/2⌋` otherwise. -/
theorem noise_length (dur : Option K) (n : Nat) :
    noiseLen dur n = match dur with
      | none => n
      | some d => min n (durLen d) := noiseLen_eq dur n

/-- **C19.res.6** the hypothesis `order/2 + 1 ≤ len` of C19.res.1/2 is exactly `resShort = false`,
and on a shorter input the specification has no output at all (the window of output 0 already
reaches past the last input sample): resample ends when its input does — at once. -/
theorem resample_short_input (xs : List K) (step : Arg K) (order : Nat) (zero : K) (n : Nat) :
    (resShort xs order = false ↔ order / 2 + 1 ≤ xs.length) ∧
    (resShort xs order = true → resampleSpec xs step order zero n = ([], true)) :=
  ⟨resShort_iff xs order, resampleSpec_short xs step order zero n⟩

example : adsrG (fieldOps : NumOps Rat) (21/2) 0 2 (1/2) 3 20
    = ([1, 3/4, 1/2, 1/2, 1/2, 1/2, 1/2, 1/2, 1/2, 1/3, 1/6], none) := by decide +kernel
example : (0 : Rat) ≤ 0 ∧ adsrSpec (21/2 : Rat) 0 2 (1/2) 3
    = [1, 3/4, 1/2, 1/2, 1/2, 1/2, 1/2, 1/2, 1/2, 1/3, 1/6] := by decide +kernel
-- each time is rounded separately: 5/2 → 3, 5/2 → 3, 3/2 → 2 and the total 21/2 → 11 leave 3 sustain samples
example : adsrSpec (21/2 : Rat) (5/2) (5/2) (1/2) (3/2)
    = [0, 2/5, 4/5, 1, 4/5, 3/5, 1/2, 1/2, 1/2, 1/2, 1/6] := by decide +kernel
-- the hypothesis `0 ≤ a` of C19.float.9 is forced: a negative time lengthens the sustain in the code
example : (adsrG (fieldOps : NumOps Rat) 10 (-3) 2 (1/2) 2 99).1.length = 12 ∧
    (adsrSpec (10 : Rat) (-3) 2 (1/2) 2).length = 10 := by decide +kernel
example : attackG (fieldOps : NumOps Rat) 0 2 (.strm [1/2, 7, 8]) 9 = ([1, 3/4, 7, 8], none) := by decide +kernel
example : tableCallG (fieldOps : NumOps Rat) [0, 10, 20, 30] 1 (.num (3/8)) (.num (1/2)) 4
    = (([20, 15, 10, 25], none), [2, 7/2, 1, 5/2]) := by decide +kernel
example : mapRun (fun x : Nat => if x < 3 then Except.ok (x + 1) else .error "IndexError") [0, 1, 5, 2] none
    = ([1, 2], some "IndexError") := by decide +kernel
example : mcZeroAt (.strm [(1:Rat), 2, 3]) (.strm [5, 0, 0, 0]) (.num 1) 9 = some 1 := by decide +kernel
example : resShort [(1 : Rat)] 3 = true ∧ resampleSpec [(1 : Rat)] (.num (1/2)) 3 0 5 = ([], true) := by decide +kernel

/-! ## the bit-level float helpers, as far as they can be proved without a theory of IEEE arithmetic

`floatOps` builds `%`, `int()`, `math.ceil` from the bit pattern: `fDecode x = (sign, m, e)` with
exact value `tval sign m e = ± m·2^e`, then INTEGER arithmetic on the triple, then `fExact` back.
Proved here, over ℚ (any ordered field with a floor): the integer arithmetic computes truncation,
ceiling and the C `fmod` remainder of the exact values; `float_rem` (written once, `pyModGen`) is
`fmodR` on exact values, i.e. the floored modulo when the one addition is not rounded.
TRUSTED (tied bit for bit on every float case, not proved): `fDecode` reads sign / exponent /
fraction fields of `Float.toBits` correctly; `fExact` (`Float.ofNat`, `Float.scaleB` on a value
with ≤ 53 significant bits) returns the float with that exact value; Lean's `Float` `==`, `<` are
the comparisons of the exact values and `+` is the IEEE round-to-nearest-even sum — a monotone
rounding fixing `0` and `m`, which is what C19.float.3/4/3n/4n ask of `rnd`. -/

/-- **C19.bits.1** `fAbsTrunc m e` = (⌊m·2^e⌋, "m·2^e is an integer"). -/
theorem float_abs_trunc (m : Nat) (e : Int) :
    (((fAbsTrunc m e).1 : Nat) : Int) = ⌊(aval m e : K)⌋ ∧
    ((fAbsTrunc m e).2 = true ↔ ((⌊(aval m e : K)⌋ : Int) : K) = aval m e) :=
  ⟨fAbsTrunc_fst m e, fAbsTrunc_snd m e⟩

/-- **C19.bits.2** `int(x)` of a float: OverflowError / ValueError for inf / nan (`fNonFinite`),
otherwise the truncation toward zero (the exact model's `pyInt`) of the exact value. -/
theorem float_trunc_on_decoded (x : Float) :
    fTrunc x = match fDecode x with
      | none => fNonFinite x
      | some (neg, m, e) => .ok (pyInt (tval neg m e : ℚ)) := by
  cases h : fDecode x with
  | none => simp only [fTrunc, h]
  | some t =>
    obtain ⟨neg, m, e⟩ := t
    simp only [fTrunc, h]
    rw [truncT_eq (K := ℚ)]
    rfl

/-- **C19.bits.3** `math.ceil(x)` of a float: the ceiling (the model's `pyCeil`) of the exact value. -/
theorem float_ceil_on_decoded (x : Float) :
    fCeil x = match fDecode x with
      | none => fNonFinite x
      | some (neg, m, e) => .ok (pyCeil (tval neg m e : ℚ)) := by
  cases h : fDecode x with
  | none => simp only [fCeil, h]
  | some t =>
    obtain ⟨neg, m, e⟩ := t
    simp only [fCeil, h]
    rw [ceilT_eq (K := ℚ)]
    rfl

/-- **C19.bits.4** C `fmod(x, y)` of two finite floats, `y ≠ 0`: the float that `fExact` builds from
sign, mantissa and exponent of EXACTLY `x - trunc(x/y)·y` (no rounding: the remainder is computed
in integers on the common exponent). -/
theorem c_fmod_on_decoded (x y : Float) :
    match fDecode x, fDecode y with
    | some (nx, mx, ex), some (ny, my, ey) =>
      my ≠ 0 → cFmod x y = fExact nx (fmodT mx ex my ey).1 (fmodT mx ex my ey).2 ∧
        (tval nx (fmodT mx ex my ey).1 (fmodT mx ex my ey).2 : ℚ)
          = cRemM (tval nx mx ex) (tval ny my ey)
    | _, _ => True := by
  cases hx : fDecode x with
  | none => trivial
  | some tx =>
    cases hy : fDecode y with
    | none => trivial
    | some ty =>
      obtain ⟨nx, mx, ex⟩ := tx
      obtain ⟨ny, my, ey⟩ := ty
      intro hmy
      refine ⟨?_, fmodT_value nx ny mx my ex ey⟩
      simp [cFmod, hx, hy, hmy]

/-- **C19.bits.5** that remainder on exact values: `a - n·m` for an integer `n`, smaller than the
divisor in absolute value, with the sign of the dividend. -/
theorem c_fmod_exact (a m : K) (hm : m ≠ 0) :
    (∃ n : Int, cRemM a m = a - (n : K) * m) ∧ |cRemM a m| < |m| ∧
    (0 ≤ a → 0 ≤ cRemM a m) ∧ (a ≤ 0 → cRemM a m ≤ 0) := cRemM_props a m hm

/-- **C19.bits.6** Python's float `%` is `float_rem` written once over the operations it uses
(`pyModGen`), run on binary64 … -/
theorem float_rem_is_generic (x y : Float) : pyModF x y = pyModGen floatModOps x y := rfl

/-- … and the SAME code over exact values whose one addition is followed by `rnd` is `fmodR rnd` —
the function of C19.float.3–6 —, hence the sign-adjusted remainder in `[0, m)` resp. `(m, 0]`,
namely the floored modulo of the exact model, before that final rounding (`rnd = id`);
a zero divisor raises ZeroDivisionError. -/
theorem float_rem_exact_instance (rnd : K → K) (a m : K) (hm : m ≠ 0) :
    pyModGen (exactModOps rnd) a m = .ok (fmodR rnd a m) ∧
    pyModGen (exactModOps (id : K → K)) a m = .ok (fmod a m) := by
  simp only [pyModGen_exact, if_neg hm, fmodR_id_ne a m hm, and_self]

theorem float_rem_zero_divisor (rnd : K → K) (a : K) :
    pyModGen (exactModOps rnd) a 0 = .error "ZeroDivisionError" := by
  rw [pyModGen_exact, if_pos rfl]

/-- **C19.bits.7** renormalising a mantissa (`fExact` strips trailing zero bits) keeps the value. -/
theorem float_renormalise_keeps_value (f n : Nat) (k : Int) :
    (aval (stripZeros f n k).1 (stripZeros f n k).2 : K) = aval n k := stripZeros_value f n k

/-- **C19.bits.8** C19.float.2 instantiated at the operations the float tie runs: every float
output of every path of `modulo_counter` is `y % m % m` with Python's float `%`. -/
theorem float_counter_outputs_double_reduced (A M S : Arg Float) (n : Nat) :
    ∀ x ∈ (mcG floatOps A M S n).1, ∃ y, ∃ m ∈ Arg.vals M, mod2G floatOps y m = .ok x :=
  mcG_double floatOps A M S n

-- 5·2^-1 = 2.5: truncates to 2 (inexact), -2.5 truncates to -2, ceil(2.5) = 3, ceil(-2.5) = -2
example : fAbsTrunc 5 (-1) = (2, false) ∧ truncT true 5 (-1) = -2 ∧ ceilT false 5 (-1) = 3 ∧
    ceilT true 5 (-1) = -2 ∧ fAbsTrunc 5 3 = (40, true) := by decide +kernel
-- fmod(7·2^0, 1·2^1) = 1·2^0; fmod(5·2^-1, 3·2^-2) = 1·2^-2 (2.5 = 3·0.75 + 0.25)
example : fmodT 7 0 1 1 = (1, 0) ∧ fmodT 5 (-1) 3 (-2) = (1, -2) := by decide +kernel
example : (tval true 1 (-2) : ℚ) = -1/4 ∧ cRemM (-5/2 : ℚ) (3/4) = -1/4 := by
  refine ⟨by norm_num [tval, aval], by decide +kernel⟩
example : pyModGen (exactModOps rndQuarter) (-1/100 : Rat) 5 = .ok 5 ∧
    pyModGen (exactModOps (id : Rat → Rat)) (-1/100) 5 = .ok (499/100) := by decide +kernel
example : stripZeros 6 40 (-3) = (5, 0) := by decide +kernel

/-! ### D28: the batch size is computed only when modulo and step are numbers

`steps = int(modulo / step)` sits in the two branches whose modulo and step are numbers.  If that
conversion raises (binary64: `modulo / step` overflows to `inf` for finite arguments such as
`modulo_counter(0., 16., 2.**-1022)` or `(0., 1e300, 1e-10)`; `int(inf)` is an OverflowError), the
call raises at its first read, while the SAME call with `Stream(step)` never computes a batch size
and yields the counter: "identically whether its arguments are numbers or streams" fails there.
For any number operations: -/

/-- **C19.float.16** (known finding D28) whatever the number operations, a failing `int(modulo/step)`
ends the all-numbers call (and the one with only `start` iterable) before its first output, while
with the step given as a stream the first output is `start % modulo % modulo` as always. -/
theorem counter_batch_size_error_numbers_only {α : Type} (o : NumOps α) (a m s : α) (ps ss : List α)
    (n : Nat) (e : String) (hs : o.isZero s = false) (he : o.trunc (o.div m s) = .error e) :
    mcG o (.num a) (.num m) (.num s) n = ([], some e) ∧
    mcG o (.strm ps) (.num m) (.num s) n = ([], some e) ∧
    ∀ c, mod2G o a m = .ok c → (mcG o (.num a) (.num m) (.strm (s :: ss)) (n + 1)).1.head? = some c := by
  refine ⟨by simp [mcG, hs, he], by simp [mcG, hs, he], ?_⟩
  intro c hc
  simp [mcG, gS, hc, rcons]

/-- exact operations whose `int()` refuses values beyond ±1000 (a toy overflow) -/
def overflowOps : NumOps Rat :=
  { (fieldOps : NumOps Rat) with
    trunc := fun x => if 1000 < x ∨ x < -1000 then .error "OverflowError" else .ok (pyInt x) }

example : overflowOps.isZero (1/1000) = false ∧ overflowOps.trunc (overflowOps.div 16 (1/1000)) = .error "OverflowError" ∧
    mcG overflowOps (.num 0) (.num 16) (.num (1/1000)) 3 = ([], some "OverflowError") ∧
    mcG overflowOps (.num 0) (.num 16) (.strm [1/1000, 1/1000, 1/1000]) 3 = ([0, 1/1000, 1/500], none) := by
  decide +kernel

/-! ### the model regenerated from the source (translator `harness/props/c19_tr.py`)

`ALV.Gen.C19.*` (file `ALV/Gen/C19Src.lean`) is rewritten from the text of `audiolazy/lazy_synth.py`
on every run: the dispatch of `modulo_counter` on `isinstance(·, Iterable)`, its twelve loop bodies
(every `% modulo` reduction counted where it stands), the length and slope expressions of `line`,
`adsr`, `attack` with their guards, the calls in `fadein` / `fadeout` with `line`'s defaults.  The
theorems `src_*_is_model` say that what the source says NOW is the code shaped model all the other
theorems of this file are about; an edit of the source that changes the meaning breaks them. -/

/-- **C19.src.1** `modulo_counter` as regenerated from the source is the code shaped model of today's
code (`mcNow`: the recursive loops of `mcG`, batch size guarded as D28 was repaired), for every
number type. -/
theorem src_modulo_counter_is_model {α : Type} : @ALV.Gen.C19.modulo_counter α = @mcNow α := by
  funext o a m s n; exact gen_modulo_counter o a m s n

/-- **C19.src.2** where `int(modulo / step)` raises nothing the regenerated `modulo_counter` is `mcG`,
the model of rounds 3–4 … -/
theorem src_modulo_counter_eq_mcG {α : Type} (o : NumOps α) (A M S : Arg α) (n : Nat)
    (h : ∀ m s, M = .num m → S = .num s → o.isZero s = false → ∃ k, o.trunc (o.div m s) = .ok k) :
    ALV.Gen.C19.modulo_counter o A M S n = mcG o A M S n := by
  rw [gen_modulo_counter, mcNow_eq_mcG o A M S n h]

/-- **C19.src.3** … so over the exact operations it is the model `moduloCounter`, hence (C19.mc.1) the
recursive layer of the three lock-stepped sequences, on every path, and raises nothing. -/
theorem src_modulo_counter_exact (A M S : Arg K) (n : Nat) :
    ALV.Gen.C19.modulo_counter fieldOps A M S n = (mcRec (A.expand n) (M.expand n) (S.expand n), none) := by
  rw [src_modulo_counter_eq_mcG fieldOps A M S n (fun m s _ _ _ => ⟨_, rfl⟩), mcG_field, moduloCounter_rec]

/-- **C19.src.4** (D28 as repaired) when `int(modulo / step)` raises, the source now runs the plain
loop — the arithmetic of the call with `Stream(step)`. -/
theorem src_modulo_counter_overflow_plain {α : Type} (o : NumOps α) (a m s : α) (n : Nat) (e : String)
    (hs : o.isZero s = false) (he : o.trunc (o.div m s) = .error e) :
    ALV.Gen.C19.modulo_counter o (.num a) (.num m) (.num s) n = gN o m s n a := by
  rw [gen_modulo_counter, mcNow_overflow_plain o a m s n e hs he]

/-- **C19.src.5** `line` as regenerated from the source is `lineG` … -/
theorem src_line_is_model {α : Type} : @ALV.Gen.C19.line α = @lineG α := by
  funext o dur b e fin n; exact gen_line o dur b e fin n

/-- … hence the specification, for every duration. -/
theorem src_line_eq_spec (dur b e : K) (fin : Bool) (n : Nat) :
    ALV.Gen.C19.line fieldOps dur b e fin n = ((lineSpec dur b e fin).take n, none) := by
  rw [gen_line, lineG_field]

/-- **C19.src.6** `fadein(dur)` / `fadeout(dur)` as written (`line(dur)` with `line`'s defaults read from
its signature, `line(dur, 1., 0.)`). -/
theorem src_fadein_is_model {α : Type} (o : NumOps α) (dur : α) (n : Nat) :
    ALV.Gen.C19.fadein o dur n = lineG o dur o.zero o.one false n := gen_line ..

theorem src_fadeout_is_model {α : Type} (o : NumOps α) (dur : α) (n : Nat) :
    ALV.Gen.C19.fadeout o dur n = lineG o dur o.one o.zero false n := gen_line ..

/-- **C19.src.7** `adsr` as regenerated from the source is `adsrG` … -/
theorem src_adsr_is_model {α : Type} : @ALV.Gen.C19.adsr α = @adsrG α := by
  funext o dur a d s r n; exact gen_adsr o dur a d s r n

/-- … hence the specification for non-negative times. -/
theorem src_adsr_eq_spec (dur a d s r : K) (n : Nat) (ha : 0 ≤ a) (hd : 0 ≤ d) (hr : 0 ≤ r) :
    ALV.Gen.C19.adsr fieldOps dur a d s r n = ((adsrSpec dur a d s r).take n, none) := by
  rw [gen_adsr, adsrG_field dur a d s r n ha hd hr]

/-- **C19.src.8** `attack` as regenerated from the source is `attackG`, except that an empty sustain
iterable ends the envelope silently (D23 as repaired: `except StopIteration: return`). -/
theorem src_attack_is_model {α : Type} : @ALV.Gen.C19.attack α = @attackNow α := by
  funext o a d s n; exact gen_attack o a d s n

theorem src_attack_eq_spec (a d x : K) (xs : List K) (n : Nat) :
    ALV.Gen.C19.attack fieldOps a d (.num x) n = (attackSpec a d x (List.replicate n x) n, none) ∧
    ALV.Gen.C19.attack fieldOps a d (.strm (x :: xs)) n = (attackSpec a d x xs n, none) ∧
    ALV.Gen.C19.attack (fieldOps : NumOps K) a d (.strm []) n = ([], none) := by
  refine ⟨?_, ?_, ?_⟩ <;> rw [gen_attack]
  · exact attackG_field_num a d x n
  · exact attackG_field_strm a d x xs n
  · rfl

/-- **C19.src.10** `ones` / `zeros` as regenerated from the source (the optional duration, the endless
`while True` that the finite loop is never reached after) are `constG` with the yielded constant. -/
theorem src_ones_is_model {α : Type} (o : NumOps α) : ALV.Gen.C19.ones o = constG o o.one := by
  funext dur n; exact gen_ones o dur n

theorem src_zeros_is_model {α : Type} (o : NumOps α) : ALV.Gen.C19.zeros o = constG o o.zero := by
  funext dur n; exact gen_zeros o dur n

/-- **C19.src.11** `impulse` as regenerated from the source is `impulseG`, for items of any type. -/
theorem src_impulse_is_model {α β : Type} (o : NumOps α) :
    (ALV.Gen.C19.impulse o : Option α → β → β → Nat → Run β) = impulseG o := by
  funext dur one zero n; exact gen_impulse o dur one zero n

-- the regenerated definitions run: an endless / a rounded / a refused duration
example : ALV.Gen.C19.ones (fieldOps : NumOps Rat) none 3 = ([1, 1, 1], none) ∧
    ALV.Gen.C19.zeros (fieldOps : NumOps Rat) (some (5/2)) 9 = ([0, 0, 0], none) ∧
    ALV.Gen.C19.impulse (fieldOps : NumOps Rat) (some (5/2)) 'a' 'b' 9 = (['a', 'b', 'b'], none) ∧
    ALV.Gen.C19.impulse (fieldOps : NumOps Rat) (some (1/4)) 'a' 'b' 9 = ([], none) ∧
    ALV.Gen.C19.impulse (fieldOps : NumOps Rat) none 'a' 'b' 2 = (['a', 'b'], none) := by decide +kernel

/-- **C19.src.12** `sinusoid` as regenerated from the source (which argument of `modulo_counter` is the phase, which
the frequency, the modulo `2 * pi`, `sin` of every sample) is `sinusoidNow` … -/
theorem src_sinusoid_is_model {α β : Type} (o : NumOps α) :
    (ALV.Gen.C19.sinusoid o : (α → β) → α → Arg α → Arg α → Nat → Run β) = sinusoidNow o := by
  funext sin twoPi freq phase n; exact gen_sinusoid o sin twoPi freq phase n

/-- … over the exact operations the model `sinusoid` of C19.sin.1 / C19.sin.2, raising nothing. -/
theorem src_sinusoid_exact {β : Type} (sin : K → β) (twoPi : K) (freq phase : Arg K) (n : Nat) :
    ALV.Gen.C19.sinusoid fieldOps sin twoPi freq phase n = (sinusoid sin twoPi freq phase n, none) := by
  rw [gen_sinusoid, sinusoidNow, mcNow_eq_mcG fieldOps _ _ _ n (fun m s _ _ _ => ⟨_, rfl⟩), mcG_field]
  rfl

/-- **C19.src.13** `TableLookup.__call__` as regenerated from the source — the cycle length, step and start of the
counter, the modulo `float(len(self))`, and for every position the sample `tbl[int(idx)] * (1. - (idx - int(idx))) +
tbl[int(ceil(idx)) - total_length] * (idx - int(idx))` with its raising primitives in Python's order of evaluation — is
`tableCallNow` … -/
theorem src_table_call_is_model {α : Type} : @ALV.Gen.C19.table_call α = @tableCallNow α := by
  funext o tbl den freq phase n; exact gen_table_call o tbl den freq phase n

/-- … which is the generic twin `tableCallG` of rounds 3–4 where `int(modulo / step)` raises nothing and `ceil`
raises nothing when `int()` raises nothing … -/
theorem src_table_call_eq_G {α : Type} (o : NumOps α) (tbl : List α) (den : α) (freq phase : Arg α) (n : Nat)
    (hc : ∀ idx i, o.trunc idx = .ok i → ∃ c, o.ceil idx = .ok c)
    (hm : ∀ m s, o.isZero s = false → ∃ k, o.trunc (o.div m s) = .ok k) :
    ALV.Gen.C19.table_call o tbl den freq phase n = (tableCallG o tbl den freq phase n).1 := by
  rw [gen_table_call, tableCallNow_eq_G o tbl den freq phase n hc hm]

/-- … hence, over exact numbers and a non-empty table, the cyclic linear interpolation of the table at the
unreduced positions (C19.table.1), raising nothing. -/
theorem src_table_call_eq_spec (tbl : List K) (h : tbl ≠ []) (den : K) (freq phase : Arg K) (n : Nat) :
    ALV.Gen.C19.table_call fieldOps tbl den freq phase n = (tableSpec tbl den freq phase n, none) := by
  rw [src_table_call_eq_G fieldOps tbl den freq phase n (fun _ _ _ => ⟨_, rfl⟩) (fun _ _ _ => ⟨_, rfl⟩),
    tableCallG_field tbl h den freq phase n]

example : ALV.Gen.C19.table_call (fieldOps : NumOps Rat) [0, 10, 20, 30] 1 (.num (3/8)) (.num (1/2)) 4
    = (tableCallG (fieldOps : NumOps Rat) [0, 10, 20, 30] 1 (.num (3/8)) (.num (1/2)) 4).1 := by decide +kernel

/-- **C19.src.14** `TableLookup.__getitem__` as regenerated from the source (D15 as repaired: `left = int(floor(idx))`,
both neighbours `% len(self)`, the weights `1. - (idx - left)` and `idx - left`) is `getItemNow` … -/
theorem src_table_getitem_is_model {α : Type} : @ALV.Gen.C19.table_getitem α = @getItemNow α := by
  funext o floor tbl idx; exact gen_table_getitem o floor tbl idx

/-- … hence, over exact numbers and a non-empty table, the cyclic linear interpolation `interpCyc` for EVERY index,
negative and fractional ones included, raising nothing; on an empty table it raises ZeroDivisionError. -/
theorem src_table_getitem_eq_spec (tbl : List K) (h : tbl ≠ []) (idx : K) :
    ALV.Gen.C19.table_getitem fieldOps (fun x => .ok (Floor.floor x)) tbl idx = .ok (interpCyc tbl idx) := by
  have hL : ((tbl.length : Nat) : Int) ≠ 0 := by
    have := List.length_pos_of_ne_nil h; omega
  have key : getItemNow fieldOps (fun x => .ok (Floor.floor x)) tbl idx
      = match getItemLen tbl tbl.length idx with
        | some v => .ok v
        | none => .error "IndexError" := by
    simp only [getItemNow, getItemLen, hL, if_false, fieldOps]
    cases pyIndex tbl ((Floor.floor idx : Int).fmod (tbl.length : Int)) <;>
      cases pyIndex tbl ((pyCeil idx).fmod (tbl.length : Int)) <;> rfl
  rw [gen_table_getitem, key, getItemLen_eq tbl h idx]

theorem src_table_getitem_empty {α : Type} (o : NumOps α) (floor : α → Except String Int) (idx : α) (k : Int)
    (hf : floor idx = .ok k) : ALV.Gen.C19.table_getitem o floor [] idx = .error "ZeroDivisionError" := by
  simp [gen_table_getitem, getItemNow, hf]

example : ALV.Gen.C19.table_getitem (fieldOps : NumOps Rat) (fun x => .ok (Floor.floor x)) [0, 10, 20, 30] (-1/2)
    = .ok 15 := by decide +kernel

/-- **C19.src.9** the defaults and decorators as written in the source are the documented ones. -/
theorem src_defaults_are_documented :
    ALV.Gen.C19.defaults = [("modulo_counter", "start", "0.0"), ("modulo_counter", "modulo", "256.0"),
      ("modulo_counter", "step", "1.0"), ("line", "begin", "0.0"), ("line", "end", "1.0"),
      ("line", "finish", "False"), ("ones", "dur", "None"), ("zeros", "dur", "None"), ("impulse", "dur", "None"),
      ("impulse", "one", "1.0"), ("impulse", "zero", "0.0"), ("sinusoid", "phase", "0.0"), ("table_call", "phase", "0.0")] ∧
    ALV.Gen.C19.decorators = [("modulo_counter", ["tostream"]), ("line", ["tostream"]), ("fadein", []),
      ("fadeout", []), ("attack", []), ("adsr", ["tostream"]), ("ones", ["tostream"]), ("zeros", ["tostream"]),
      ("impulse", ["tostream"]), ("sinusoid", ["tostream"]), ("table_call", []), ("table_getitem", [])] := by decide

-- the regenerated definitions run: fast path with the batch boundary crossed, start a stream, …
example : ALV.Gen.C19.modulo_counter (fieldOps : NumOps Rat) (.num 1) (.num 5) (.num 2) 6 = ([1, 3, 0, 2, 4, 1], none) ∧
    ALV.Gen.C19.modulo_counter (fieldOps : NumOps Rat) (.strm [0, 1, 1, 3]) (.num 5) (.num 2) 6 = ([0, 3, 0, 4], none) ∧
    ALV.Gen.C19.modulo_counter (fieldOps : NumOps Rat) (.num 7) (.strm [5, 3]) (.strm [1, 1]) 6
      = ([2, 0], none) := by decide +kernel
-- … the toy overflow of D28 now takes the plain loop, …
example : ALV.Gen.C19.modulo_counter overflowOps (.num 0) (.num 16) (.num (1/1000)) 3 = ([0, 1/1000, 1/500], none) := by
  decide +kernel
-- … lines, envelopes
example : ALV.Gen.C19.line (fieldOps : NumOps Rat) 4 1 3 false 9 = ([1, 3/2, 2, 5/2], none) ∧
    ALV.Gen.C19.fadeout (fieldOps : NumOps Rat) 2 9 = ([1, 1/2], none) ∧
    ALV.Gen.C19.adsr (fieldOps : NumOps Rat) 8 2 2 (1/2) 2 9 = ([0, 1/2, 1, 3/4, 1/2, 1/2, 1/2, 1/4], none) ∧
    ALV.Gen.C19.attack (fieldOps : NumOps Rat) 2 0 (.strm [1/2, 7, 9]) 9 = ([0, 1/2, 7, 9], none) ∧
    ALV.Gen.C19.attack (fieldOps : NumOps Rat) 2 2 (.strm []) 9 = ([], none) := by decide +kernel

end ALV.Props.C19


#write_audit "C19"
