/-
  C19 — property theorems (signal generators).  Only statements of the
  property, non-vacuity examples and the audit live here; helper lemmas are in
  `ALV.Lemmas.C19*`.  `K` is any linearly ordered field with a floor (ℚ, ℝ).
-/
import ALV.Lemmas.C19
import ALV.Common.Audit

namespace ALV.Props.C19
open ALV.C19
set_option linter.unusedSectionVars false
variable {K : Type} [Field K] [LinearOrder K] [IsStrictOrderedRing K] [FloorRing K]

/-! ## modulo_counter -/

/-- **C19.mc.0** the floored-modulo lemma behind "no drift": reducing early does not change
the residue. -/
theorem fmod_no_drift (a b m : K) : fmod (fmod a m + b) m = fmod (a + b) m :=
  fmod_fmod_add a b m

/-- **C19.mc.1** every one of the eight argument-kind branches of `modulo_counter`, the
`step == 0` shortcuts and the steps-batched fast paths included, yields the recursive layer
`c_0 = p_0 mod m_0`, `c_n = (c_{n-1} + s_{n-1} + (p_n - p_{n-1})) mod m_n` of the three
lock-stepped sequences its arguments stand for — for every number of outputs `n`. -/
theorem modulo_counter_eq_rec (A M S : Arg K) (n : Nat) :
    moduloCounter A M S n = mcRec (A.expand n) (M.expand n) (S.expand n) :=
  moduloCounter_rec A M S n

/-- **C19.mc.2** numbers or streams, whichever internal path: arguments that stand for the same
sequences give the same outputs. -/
theorem modulo_counter_numbers_vs_streams (A A' M M' S S' : Arg K) (n : Nat)
    (hA : A.expand n = A'.expand n) (hM : M.expand n = M'.expand n)
    (hS : S.expand n = S'.expand n) :
    moduloCounter A M S n = moduloCounter A' M' S' n := by
  rw [moduloCounter_rec, moduloCounter_rec, hA, hM, hS]

/-- **C19.mc.3** constant modulo (a number or a constant stream): output `k` is the running sum
of `start_k` and all earlier steps, reduced once — no drift, whatever path is taken. -/
theorem modulo_counter_const_modulo (A M S : Arg K) (m : K) (n : Nat)
    (hM : M.expand n = List.replicate n m) :
    moduloCounter A M S n = mcClosed m (A.expand n) (S.expand n) := by
  rw [moduloCounter_rec, hM]
  apply mcRec_closed
  rcases A with a | ps <;> simp [Arg.expand]

/-- **C19.mc.4** all three arguments numbers (plain loop, `step == 0` or batched fast path):
output `k` is `(start + k·step) mod modulo`. -/
theorem modulo_counter_numbers (a m s : K) (n : Nat) :
    moduloCounter (.num a) (.num m) (.num s) n = mcNumbers a m s n := by
  rw [modulo_counter_const_modulo _ _ _ m n rfl]
  exact mcClosed_numbers a m s n

/-- **C19.mc.5** every output lies in `[0, m_k)` for a positive modulo `m_k` (and in `(m_k, 0]`
for a negative one, as Python's `%`). -/
theorem modulo_counter_range (A M S : Arg K) (n i : Nat) (x m : K)
    (hx : (moduloCounter A M S n)[i]? = some x) (hm : (M.expand n)[i]? = some m) :
    (0 < m → 0 ≤ x ∧ x < m) ∧ (m < 0 → m < x ∧ x ≤ 0) := by
  rw [moduloCounter_rec] at hx
  exact mcRec_inRange _ _ _ i x m hx hm

/-- **C19.mc.6** the counter ends when one of its iterable arguments does (and is endless when
none is iterable): `n` outputs are asked for, the shortest argument decides. -/
theorem modulo_counter_length (A M S : Arg K) (n : Nat) :
    (moduloCounter A M S n).length
      = min (A.expand n).length (min (M.expand n).length (S.expand n).length) := by
  rw [moduloCounter_rec, mcRec_length]

/-- the driver's `Rat` instance of the model's floor is the floor the theorems speak about -/
theorem rat_floor_agrees : (instFloorRat : Floor ℚ) = floorOfFloorRing := rfl

/-! non-vacuity: the branches are really taken, on exact rationals -/
example : mcBranch (.num (1:Rat)) (.num 5) (.num 2) = "---:fast" := by decide +kernel
example : moduloCounter (.num (1:Rat)) (.num 5) (.num 2) 6 = [1, 3, 0, 2, 4, 1] := by decide +kernel
example : moduloCounter (.strm [(1:Rat), 2, 4]) (.num 5) (.num (-2)) 6 = [1, 0, 0] := by decide +kernel
example : moduloCounter (.strm [(1:Rat), 2, 4, 4]) (.strm [3, 2, 5, 1/2]) (.strm [7, 7, -1/3, 0]) 9
    = [1, 1, 0, 1/6] := by decide +kernel
example : (Arg.num (3:Rat)).expand 2 = (Arg.strm [3, 3, 3]).expand 2 := by decide +kernel

end ALV.Props.C19

#write_audit "C19"
