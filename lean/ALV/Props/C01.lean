/-
  C01 — property theorems.  Only statements of the property, non-vacuity examples and the audit
  live here; helper lemmas are in `ALV.Lemmas.C01`, `ALV.Lemmas.C01Py`.

  Reading guide:
    `Gen.OpTable.table`   the operator table and the insertion logic, REGENERATED from /repo (T1)
    `install`             model of `OpMethod._insert/_initialize` + `AbstractOperatorOverloaderMeta.__new__`
    `evalPy`, `Iter.run`  model of the dunders built by `StreamMeta` and of the iterators they create
    `specTable`, `Py.at`, `Py.len`, `Py.sort`    the specification (hand-written, property shaped)
-/
import ALV.Lemmas.C01Py
import ALV.Lemmas.C01Bcast
import ALV.Lemmas.C01ExcPy
import ALV.Lemmas.C01Query
import ALV.Gen.OpTable
import ALV.Gen.C01Src
import ALV.Lemmas.C01Src
import ALV.Common.Audit

namespace ALV.Props.C01
open ALV.C01

/-- the dunders of `class Stream`, computed by the model of the metaclass from the regenerated table -/
def genInstalled : List (Name × Dunder) := (install ALV.Gen.OpTable.table).getD []

/-! ### C01.3 — the operator table (finite: `decide` over the regenerated table) -/

/-- class creation succeeds (no KeyError in the builder dict) -/
theorem optable_installs : (install ALV.Gen.OpTable.table).isSome = true := by decide

/-- **C01.3a** every one of the specified dunders is installed, built by the right builder
(unary / binary / reflected binary) around the right `operator` function. -/
theorem optable_correct : ∀ sp ∈ specTable, genInstalled.lookup sp.dname = some sp.dunder := by decide

/-- **C01.3b** and nothing else is installed by the metaclass. -/
theorem optable_complete : ∀ kv ∈ genInstalled, (specLookup kv.1).map DunderSpec.dunder = some kv.2 := by
  decide

/-- the specification table has the 35 operator methods, no name twice: 3 unary, 13 reflected binary
    (the comparisons have no reflected form), 19 plain binary -/
theorem spectable_shape :
    specTable.length = 35 ∧ (specTable.map (·.dname)).Nodup ∧
    (specTable.filter (fun sp => sp.arity == 1)).length = 3 ∧
    (specTable.filter (fun sp => sp.reflected)).length = 13 ∧
    (∀ sp ∈ specTable, sp.arity = 1 ∨ sp.arity = 2) ∧
    (∀ sp ∈ specTable, sp.reflected = true → sp.arity = 2) := by decide

/-! ### C01.3c — any class built with the metaclass: missing builders, `__operators__` selections -/

/-- with all three builders present the general loop is the loop of `class Stream` -/
theorem installW_full (T : TableSrc) (ns : List Name) : ∀ (ops : List OpMethod) (acc : List (Name × Dunder)),
    installLoopW T (fun _ => true) ns ops acc =
      match installLoop { T with classNamespace := ns } ops acc with
      | some r => .ok r
      | none => .error .keyError := by
  intro ops
  induction ops with
  | nil => intro acc; rfl
  | cons op ops ih =>
    intro acc
    simp only [installLoopW, installLoop]
    by_cases h : ns.contains op.dname = true
    · simp only [h, if_true]; exact ih acc
    · simp only [h, Bool.false_eq_true, if_false]
      cases hb : (T.dispatch.lookup (op.rev, op.arity)).bind builderOfName with
      | none => rfl
      | some b => simp only [if_true]; exact ih _

/-- class creation succeeds exactly when every selected operator method that the class body does not
    define itself has a builder; otherwise it fails (TypeError naming an operator method, or KeyError) -/
theorem installW_ok_iff (T : TableSrc) (hv : Builder → Bool) (ns : List Name) :
    ∀ (ops : List OpMethod) (acc : List (Name × Dunder)),
    (installLoopW T hv ns ops acc).isOk =
      ops.all fun op => ns.contains op.dname ||
        (match (T.dispatch.lookup (op.rev, op.arity)).bind builderOfName with
         | some b => hv b
         | none => false) := by
  intro ops
  induction ops with
  | nil => intro acc; rfl
  | cons op ops ih =>
    intro acc
    simp only [installLoopW, List.all_cons]
    by_cases h : ns.contains op.dname = true
    · simp only [h, if_true, Bool.true_or, Bool.true_and]; exact ih acc
    · simp only [h, Bool.false_eq_true, if_false, Bool.false_or]
      cases hb : (T.dispatch.lookup (op.rev, op.arity)).bind builderOfName with
      | none => simp [Except.isOk, Except.toBool]
      | some b =>
        cases hvb : hv b with
        | true => simp only [hvb, if_true, Bool.true_and]; exact ih _
        | false => simp [hvb, Except.isOk, Except.toBool]

/-- non-vacuity: a metaclass with only `__binary__` asked for `"+"` (add, radd, pos) fails at `__radd__`;
    asked for `add` alone it succeeds; an unknown operator name is a ValueError -/
example : installW ALV.Gen.OpTable.table (fun b => b == .binary) [] [n!"+"] [] = .error (.noBuilder n!"__radd__") := by rfl
example : (installW ALV.Gen.OpTable.table (fun b => b == .binary) [] [n!"add"] []).isOk = true := by decide
example : (installW ALV.Gen.OpTable.table (fun b => b == .binary) [n!"__radd__", n!"__pos__"] [n!"+"] []).isOk = true := by decide
example : installW ALV.Gen.OpTable.table (fun _ => true) [] [n!"div"] [] = .error .valueError := by rfl

/-! ### C01.1 / C01.2 — iterator trees (any shape, any depth, finite / empty / unequal / endless) -/

/-- **C01.1 (iterators)** the i-th item delivered is the pointwise reading of the tree at i. -/
theorem iter_get (e : Iter) (n i : Nat) :
    (e.run n)[i]? = if i < n then e.get i else none :=
  Iter.run_getElem? n e i

/-- **C01.2 (iterators)** `take(n)` delivers `min n len` items: the result ends exactly with the
shortest iterable operand. -/
theorem iter_len (e : Iter) (n : Nat) : Len.fin (e.run n).length = (Len.fin n).min e.len :=
  Iter.run_length n e

/-- the pointwise reading is defined exactly below the length (so a result never has holes) -/
theorem iter_get_isSome (e : Iter) (i : Nat) : (e.get i).isSome = e.len.gt i :=
  Iter.get_isSome e i

/-! ### C01.1 / C01.2 — Python-level expressions over the class built from the regenerated table -/

/-- **C01.1** For every well-typed Stream expression `p` (any nesting of the 35 operator methods,
`Stream(...)`, `abs`/attribute/call/map, `append`; operands Streams, other iterables, scalars on
either side): evaluation succeeds, gives a Stream, and the i-th item it delivers is `p.at i` — the
operator applied to the i-th elements of the operands, scalars repeated. -/
theorem eval_get (p : Py) (hp : p.sort = some .stream) :
    ∃ it, evalPy genInstalled p = .ok (.iterable true it) ∧
      ∀ n i, (it.run n)[i]? = if i < n then p.at i else none := by
  obtain ⟨v, hv, hm⟩ := evalPy_sound genInstalled optable_correct p _ hp
  obtain ⟨it, rfl⟩ := Val.of_sort_stream hm.sort
  refine ⟨it, hv, fun n i => ?_⟩
  rw [Iter.run_getElem?]
  have : it.get i = p.at i := hm.get i
  rw [this]

/-- **C01.2** … and it ends exactly where the shortest iterable operand ends (`p.len`):
`take(n)` has `min n p.len` items. -/
theorem eval_len (p : Py) (hp : p.sort = some .stream) :
    ∃ it, evalPy genInstalled p = .ok (.iterable true it) ∧
      ∀ n, Len.fin (it.run n).length = (Len.fin n).min p.len := by
  obtain ⟨v, hv, hm⟩ := evalPy_sound genInstalled optable_correct p _ hp
  obtain ⟨it, rfl⟩ := Val.of_sort_stream hm.sort
  refine ⟨it, hv, fun n => ?_⟩
  rw [Iter.run_length]
  have : it.len = p.len := hm.len
  rw [this]

/-- `p.at` is defined exactly below `p.len` for well-typed expressions (no holes; scalars never end). -/
theorem at_isSome_iff (p : Py) (so : Sort') (hp : p.sort = some so) (i : Nat) :
    (p.at i).isSome = p.len.gt i := by
  obtain ⟨v, _, hm⟩ := evalPy_sound genInstalled optable_correct p _ hp
  rw [← hm.get, ← hm.len]
  cases v with
  | scalar c => rfl
  | ignored c => rfl
  | iterable b it => exact Iter.get_isSome it i

/-- `list(expr)` of a finite expression does not depend on how long one keeps asking. -/
theorem eval_list (p : Py) (hp : p.sort = some .stream) (L : Nat) (hL : p.len = .fin L) :
    ∃ it, evalPy genInstalled p = .ok (.iterable true it) ∧
      ∀ n, L ≤ n → it.run n = (List.range L).filterMap p.at := by
  obtain ⟨it, hv, hg⟩ := eval_get p hp
  refine ⟨it, hv, fun n hn => ?_⟩
  apply List.ext_getElem?
  intro i
  rw [hg]
  have hsome := at_isSome_iff p _ hp
  by_cases hi : i < L
  · have h1 : i < n := by omega
    have h2 : (p.at i).isSome = true := by rw [hsome, hL]; simp [hi]
    obtain ⟨x, hx⟩ := Option.isSome_iff_exists.mp h2
    rw [if_pos h1, hx]
    -- the filterMap keeps every index below L
    have hall : ∀ k, k < L → (p.at k).isSome = true := fun k hk => by rw [hsome, hL]; simp [hk]
    have : ∀ (m : Nat), m ≤ L → ∀ j, j < m → ((List.range m).filterMap p.at)[j]? = p.at j := by
      intro m
      induction m with
      | zero => intro _ j hj; omega
      | succ m ih =>
        intro hm j hj
        rw [List.range_succ, List.filterMap_append]
        have hlen : ((List.range m).filterMap p.at).length = m := by
          clear ih hj
          induction m with
          | zero => rfl
          | succ m ihm =>
            rw [List.range_succ, List.filterMap_append, List.length_append, ihm (by omega)]
            obtain ⟨y, hy⟩ := Option.isSome_iff_exists.mp (hall m (by omega))
            simp [hy]
        by_cases hjm : j < m
        · rw [List.getElem?_append_left (by rw [hlen]; exact hjm)]
          exact ih (by omega) j hjm
        · have : j = m := by omega
          subst this
          rw [List.getElem?_append_right (by rw [hlen]; exact Nat.le_refl _), hlen]
          obtain ⟨y, hy⟩ := Option.isSome_iff_exists.mp (hall j (by omega))
          simp [hy]
    rw [this L (Nat.le_refl _) i hi, hx]
  · have h2 : (p.at i).isSome = false := by rw [hsome, hL]; simp [hi]
    have h3 : p.at i = none := by cases h : p.at i <;> simp_all
    have hlen : ((List.range L).filterMap p.at).length ≤ L := by
      have := List.length_filterMap_le p.at (List.range L)
      simpa using this
    rw [List.getElem?_eq_none (by omega)]
    split <;> simp [h3]

theorem gen_complete : TableComplete genInstalled := by
  intro d dd h
  exact optable_complete _ (lookup_mem _ h)

/-- **converse of C01.1**: every expression the specification calls ill-typed (a dunder that is not one of
the 35, wrong number of operands, an operand of an ignored class, a non-Stream receiver, `Stream(xs, c)`
mixing iterables and scalars) is refused by the model — so model and specification agree on ALL
expressions, not only on the well-typed ones. -/
theorem eval_refuses (p : Py) (hp : p.sort = none) : ∃ e, evalPy genInstalled p = .error e :=
  evalPy_refuses genInstalled optable_correct gen_complete spectable_shape.2.2.2.2.1 p hp

/-- an unknown operator method is an AttributeError in the model (nothing else is installed) -/
theorem eval_unknown (d : Name) (s o : Py) (it : Iter) (v : Val)
    (hs : evalPy genInstalled s = .ok (.iterable true it)) (ho : evalPy genInstalled o = .ok v)
    (hd : specLookup d = none) :
    evalPy genInstalled (.bin d s o) = .error .attributeError := by
  have hl := lookup_none_of_spec_none gen_complete hd
  simp [evalPy, hs, ho, bind, Except.bind, asStream, callDunder, hl]

/-- an operand of a class registered with `avoid_stream` makes every binary dunder return NotImplemented -/
theorem eval_ignored (sp : DunderSpec) (hsp : sp ∈ specTable) (h2 : sp.arity = 2) (s : Py) (it : Iter) (c : Term)
    (hs : evalPy genInstalled s = .ok (.iterable true it)) :
    evalPy genInstalled (.bin sp.dname s (.ignored c)) = .error .notImplemented := by
  have hlook := optable_correct sp hsp
  simp only [evalPy, hs, bind, Except.bind, asStream, callDunder, hlook]
  cases hbb : sp.dunder.builder with
  | unary =>
    simp [DunderSpec.dunder, DunderSpec.builder, h2] at hbb
    cases hr : sp.reflected <;> simp [hr] at hbb
  | binary => rfl
  | rbinary => rfl

/-! ### non-vacuity: the hypotheses are satisfiable on non-trivial expressions -/

/-- `(Stream(1, 2) * [10, 11, 12]).__radd__(7)`-like tree of depth 3 mixing a periodic stream, a finite
list and a scalar on the left: `c7 + (cyc * xs)` -/
def demo : Py :=
  .bin n!"__radd__"
    (.bin n!"__mul__" (.stream2 (.scalar (.atom 1)) (.scalar (.atom 2)))
                      (.iterable 0 [.atom 10, .atom 11, .atom 12]))
    (.scalar (.atom 7))

example : demo.sort = some .stream := by decide
example : demo.len = .fin 3 := by decide
example : demo.at 1 = some (.app n!"__add__" [.atom 7, .app n!"__mul__" [.atom 2, .atom 11]]) := by rfl
example : ∃ it, evalPy genInstalled demo = .ok (.iterable true it) ∧
    it.run 10 = [.app n!"__add__" [.atom 7, .app n!"__mul__" [.atom 1, .atom 10]],
                 .app n!"__add__" [.atom 7, .app n!"__mul__" [.atom 2, .atom 11]],
                 .app n!"__add__" [.atom 7, .app n!"__mul__" [.atom 1, .atom 12]]] := by
  obtain ⟨it, h, hl⟩ := eval_list demo (by decide) 3 (by decide)
  exact ⟨it, h, by rw [hl 10 (by omega)]; rfl⟩
/-- an empty operand ends everything at once -/
example : (Py.bin n!"__lt__" (.stream1 (.scalar (.atom 1))) (.iterable 0 [])).len = .fin 0 := by decide
/-- a comparison has no reflected form: ill-typed in the specification, AttributeError in the model -/
example : (Py.bin n!"__rlt__" (.stream1 (.scalar (.atom 1))) (.scalar (.atom 2))).sort = none := by decide
example : ∃ e, evalPy genInstalled (Py.bin n!"__rlt__" (.stream1 (.scalar (.atom 1))) (.scalar (.atom 2))) = .error e :=
  eval_refuses _ (by decide)

/-! ### C01.4 — broadcast functions (`elementwise`) -/

/-- **C01.4a** container kind: scalar in → scalar out, lazy inputs (generator, range, enumerate, zip,
map, filter) stay lazy generators, a Stream (or subclass) gives a Stream, list / tuple / set /
frozenset / deque come back as the same kind. -/
theorem elementwise_kind (c : ECall) (hf : c.found = true) (hw : c.arg.wf = true) :
    (elementwise c).kind = bcastKind c.arg.kind := by
  have hk : (!c.isPositional && !(c.kwargs.any fun kv => kv.1 == c.dname)) = false := by
    unfold ECall.found at hf
    rw [← ECall.positional_eq] at hf
    cases h1 : c.isPositional <;> cases h2 : (c.kwargs.any fun kv => kv.1 == c.dname) <;> simp_all
  unfold elementwise
  rw [hk]
  cases ha : c.arg with
  | obj k self =>
    rw [ha] at hw
    cases k <;> simp_all [BArg.wf, BArg.kind, CKind.isIterable, CKind.isStr, BOut.kind, bcastKind]
  | sized k t xs =>
    rw [ha] at hw
    cases k <;> simp_all [BArg.wf, BArg.kind, CKind.isIterable, CKind.isStr, CKind.isSomeGen, CKind.isStream,
      BOut.kind, bcastKind]
  | lazy k src =>
    rw [ha] at hw
    cases k <;> simp_all [BArg.wf, BArg.kind, CKind.isIterable, CKind.isStr, CKind.isSomeGen, CKind.isStream,
      BOut.kind, bcastKind]

/-- a call that does not supply the broadcast argument fails with KeyError (`kwargs[name]`) -/
theorem elementwise_not_found (c : ECall) (hf : c.found = false) : elementwise c = .keyError := by
  unfold ECall.found at hf
  rw [← ECall.positional_eq] at hf
  unfold elementwise
  cases h1 : c.isPositional <;> cases h2 : (c.kwargs.any fun kv => kv.1 == c.dname) <;> simp_all

/-- **C01.4b** scalar in, scalar out: the value is the function applied to the argument itself, all
other arguments unchanged (a `str` counts as a scalar). -/
theorem elementwise_scalar (c : ECall) (k : CKind) (self : Term) (ha : c.arg = .obj k self)
    (hk : k = .scalar ∨ k = .str) (hf : c.found = true) :
    elementwise c = .value (c.callWith self) := by
  have hk' : (!c.isPositional && !(c.kwargs.any fun kv => kv.1 == c.dname)) = false := by
    unfold ECall.found at hf
    rw [← ECall.positional_eq] at hf
    cases h1 : c.isPositional <;> cases h2 : (c.kwargs.any fun kv => kv.1 == c.dname) <;> simp_all
  have hp := ECall.plainCall_spec c hf
  rw [ha] at hp
  unfold elementwise
  rw [hk']
  rcases hk with rfl | rfl <;> simp [ha, BArg.kind, CKind.isIterable, CKind.isStr, hp, BArg.self]

/-- **C01.4c** lazy inputs: the result is a generator (a Stream for Streams) that has read NOTHING
from the source when the function returns; its first `n` items are the function applied to the first
`n` items of the source (the i-th to the i-th), and asking for `n` items advances the source exactly
as `n` calls of `next` on the source itself would (one read per `next`).  Any source: finite, empty,
endless. -/
theorem elementwise_lazy (c : ECall) (k : CKind) (src : Iter) (ha : c.arg = .lazy k src)
    (hk : k.isSomeGen = true ∨ k.isStream = true) (hf : c.found = true) :
    ∃ it, (elementwise c = if k.isSomeGen then .gen it else .stream it) ∧
      it.unread = src.unread ∧
      (∀ n, it.run n = (src.run n).map c.callWith) ∧
      (∀ n, (it.runS n).2.unread = (src.runS n).2.unread) ∧
      (∀ n i, (it.run n)[i]? = if i < n then (src.get i).map c.callWith else none) := by
  have hk' : (!c.isPositional && !(c.kwargs.any fun kv => kv.1 == c.dname)) = false := by
    unfold ECall.found at hf
    rw [← ECall.positional_eq] at hf
    cases h1 : c.isPositional <;> cases h2 : (c.kwargs.any fun kv => kv.1 == c.dname) <;> simp_all
  obtain ⟨pre, post, hd, hx⟩ := ECall.data_spec c hf
  have hiter : c.arg.iter = src := by rw [ha]; rfl
  rw [hiter] at hd
  have hfun : (fun x => Term.app c.f (pre ++ x :: post)) = c.callWith := funext hx
  refine ⟨c.data, ?_, ?_, ?_, ?_, ?_⟩
  · unfold elementwise
    rw [hk']
    have hit : k.isIterable = true := by cases k <;> simp_all [CKind.isIterable, CKind.isSomeGen, CKind.isStream]
    have hns : k.isStr = false := by cases k <;> simp_all [CKind.isStr, CKind.isSomeGen, CKind.isStream]
    simp only [ha, BArg.kind, hit, hns]
    cases hg : k.isSomeGen with
    | true => simp
    | false =>
      have : k.isStream = true := by rcases hk with h | h <;> simp_all
      simp [this]
  · rw [hd]; rfl
  · intro n
    rw [hd]
    show ((Iter.mapc true c.f pre post src).runS n).1 = _
    rw [Iter.runS_mapc, hfun]; rfl
  · intro n
    rw [hd, Iter.runS_mapc]; rfl
  · intro n i
    rw [hd, Iter.run_getElem?]
    simp only [Iter.get, hfun]

/-- **C01.4d** sized containers: the result is the same kind of container, holding the function
applied to every item in order; the argument has been read to its end. -/
theorem elementwise_cast (c : ECall) (k : CKind) (t : Nat) (xs : List Term) (ha : c.arg = .sized k t xs)
    (hw : c.arg.wf = true) (hf : c.found = true) :
    ∃ left, elementwise c = .cast k (xs.map c.callWith) left ∧ left.unread = [(t, 0)] := by
  have hk' : (!c.isPositional && !(c.kwargs.any fun kv => kv.1 == c.dname)) = false := by
    unfold ECall.found at hf
    rw [← ECall.positional_eq] at hf
    cases h1 : c.isPositional <;> cases h2 : (c.kwargs.any fun kv => kv.1 == c.dname) <;> simp_all
  obtain ⟨pre, post, hd, hx⟩ := ECall.data_spec c hf
  have hiter : c.arg.iter = .list t xs := by rw [ha]; rfl
  rw [hiter] at hd
  have hfun : (fun x => Term.app c.f (pre ++ x :: post)) = c.callWith := funext hx
  rw [ha] at hw
  simp only [BArg.wf, Bool.and_eq_true, Bool.not_eq_true'] at hw
  obtain ⟨⟨⟨h1, h2⟩, h3⟩, h4⟩ := hw
  refine ⟨.mapc true c.f pre post (.list t []), ?_, rfl⟩
  unfold elementwise
  rw [hk']
  simp only [ha, BArg.kind, h1, h2, h3, h4, BArg.drainFuel, hd, Iter.runS_mapc, Iter.runS_list_drain, hfun]
  simp

/-! non-vacuity of C01.4 -/

/-- `log(xs, 10)` style call: broadcast argument first, one more positional, one keyword -/
def demoCall (arg : BArg) : ECall :=
  { f := n!"f", dname := n!"x", dpos := some 0, args := [.atom 0, .atom 10], kwargs := [(n!"base", .atom 11)], arg := arg }

example : (demoCall (.sized .tuple 3 [.atom 1, .atom 2])).found = true := by decide
example : elementwise (demoCall (.sized .tuple 3 [.atom 1, .atom 2])) =
    .cast .tuple [.app n!"f" [.atom 1, .atom 10, kwMarker n!"base", .atom 11],
                  .app n!"f" [.atom 2, .atom 10, kwMarker n!"base", .atom 11]]
      (.mapc true n!"f" [] [.atom 10, kwMarker n!"base", .atom 11] (.list 3 [])) := by rfl
example : (elementwise (demoCall (.lazy .filter (.list 3 [.atom 1, .atom 2])))).kind = .generator := by rfl
example : (elementwise (demoCall (.obj .str (.atom 5)))) =
    .value (.app n!"f" [.atom 5, .atom 10, kwMarker n!"base", .atom 11]) := by rfl
/-- keyword route: `f(7, x=<container>, base=11)` with `elementwise("x", 1)` -/
example : elementwise { f := n!"f", dname := n!"x", dpos := some 1, args := [.atom 7],
                        kwargs := [(n!"x", .atom 0), (n!"base", .atom 11)], arg := .sized .list 0 [.atom 1] } =
    .cast .list [.app n!"f" [.atom 7, kwMarker n!"x", .atom 1, kwMarker n!"base", .atom 11]]
      (.mapc true n!"f" [.atom 7, kwMarker n!"x"] [kwMarker n!"base", .atom 11] (.list 0 [])) := by rfl

/-! ### C01.5 — an element operation RAISES in the middle and the caller goes on reading

`bad` says for which applications python raises; every theorem holds for every `bad`.
`Iter.drainE bad n it` = what `n` calls of `next` in a try/except loop deliver (until the first
StopIteration); `Iter.takeE` = `Stream.take(k)`. -/

/-- **C01.5a** a map object (unary operator, operator with a scalar operand on either side,
`Stream.map`, `abs`): position by position — where the operand has an item the outcome is `f(item)` or
its exception, where the operand's own computation raised that exception stands; in particular the
positions AFTER an exception are still `f(x[i+1])`, … -/
theorem exc_map (bad : Term → Bool) (f : Name) (pre post : List Term) (a : Iter) (n : Nat) :
    (Iter.mapc false f pre post a).drainE bad n =
      mapOuts bad (fun x => .app f (pre ++ x :: post)) (a.drainE bad n) :=
  Iter.drainE_map bad f pre post n a

/-- … position `i` of the result is the lifted position `i` of the operand, for every `i` -/
theorem exc_map_get (bad : Term → Bool) (f : Name) (pre post : List Term) (a : Iter) (n i : Nat) :
    ((Iter.mapc false f pre post a).drainE bad n)[i]? =
      ((a.drainE bad n)[i]?).map (liftOut bad fun x => .app f (pre ++ x :: post)) := by
  rw [exc_map]; simp [mapOuts]

/-- **C01.5b** … and the result ends exactly when its operand ends, exceptions or not. -/
theorem exc_map_length (bad : Term → Bool) (f : Name) (pre post : List Term) (a : Iter) (n : Nat) :
    ((Iter.mapc false f pre post a).drainE bad n).length = (a.drainE bad n).length := by
  rw [exc_map]; simp [mapOuts]

/-- **C01.5c** a generator expression (`s.attr`, `s(...)`, the lazy result of a broadcast function) is
the same up to and including the first exception and delivers nothing after it. -/
theorem exc_gen (bad : Term → Bool) (f : Name) (pre post : List Term) (a : Iter) (n : Nat) :
    (Iter.mapc true f pre post a).drainE bad n =
      cutRaise (mapOuts bad (fun x => .app f (pre ++ x :: post)) (a.drainE bad n)) :=
  Iter.drainE_gen bad f pre post n a

/-- **C01.5d** `map(f, a, b)` (two iterable operands): the outcomes are `merge2` of the operands'
outcomes — an exception of `a`'s own computation stands and does not advance `b`; an item of `a` meets
the next outcome of `b`. -/
theorem exc_map2 (bad : Term → Bool) (f : Name) (a b : Iter) (n m : Nat) (h : n ≤ m) :
    (Iter.map2 f a b).drainE bad n = merge2 bad f (a.drainE bad n) (b.drainE bad m) :=
  Iter.drainE_map2 bad f n m a b h

/-- … when the operand python evaluates first never raises (plain data, or computations that succeed):
position by position, ending exactly with the shortest operand — whatever the second operand raises. -/
theorem exc_map2_aligned (bad : Term → Bool) (f : Name) (a b : Iter) (n : Nat)
    (ha : allItems (a.drainE bad n) = true) :
    (Iter.map2 f a b).drainE bad n = zipOuts bad f (a.drainE bad n) (b.drainE bad n) ∧
    ((Iter.map2 f a b).drainE bad n).length = Nat.min (a.drainE bad n).length (b.drainE bad n).length := by
  have h1 : (Iter.map2 f a b).drainE bad n = zipOuts bad f (a.drainE bad n) (b.drainE bad n) := by
    rw [exc_map2 bad f a b n n (Nat.le_refl _), merge2_eq_zip bad f _ _ ha]
  exact ⟨h1, by rw [h1, zipOuts_length bad f _ _ ha (Iter.drainE_no_stop bad n b)]⟩

/-- **C01.5e** `itertools.chain` (`Stream(a, b)`, `append`): all outcomes of `a` — exceptions included —
then those of `b`. -/
theorem exc_chain (bad : Term → Bool) (a b : Iter) (n : Nat) :
    (Iter.chain a b).drainE bad n = a.drainE bad n ++ b.drainE bad (n - (a.drainE bad n).length) :=
  Iter.drainE_chain bad n a b

/-- **C01.5f** `take(k)` after / across an exception: the `k` items that `k` calls of `next` deliver, or the
first exception among them … -/
theorem exc_take (bad : Term → Bool) (e : Iter) (k : Nat) : (e.takeE bad k).1 = takeOuts (e.drainE bad k) :=
  Iter.takeE_outs bad k e

/-- … and (when the data does not end within these `k` calls) the Stream goes on right after the
exception resp. after the `k` items: a later read sees the outcomes that follow. -/
theorem exc_take_state (bad : Term → Bool) (e : Iter) (k m : Nat) (h : (e.drainE bad k).length = k) :
    ((e.takeE bad k).2).drainE bad m =
      (e.drainE bad (takeUsed (e.drainE bad k) + m)).drop (takeUsed (e.drainE bad k)) :=
  Iter.takeE_state bad k e h m

/-- **C01.5g** conservative: when no element operation raises, the reading with exceptions is the
reading without (so C01.1 / C01.2 above are the special case `bad = fun _ => false`). -/
theorem exc_total (bad : Term → Bool) (hb : ∀ t, bad t = false) (e : Iter) (n : Nat) :
    e.drainE bad n = (e.run n).map .item :=
  Iter.drainE_total bad hb n e

/-- **C01.5h** For every well-typed Stream expression `p` — any nesting of the 35 operator methods,
scalars on either side, iterable operands, unary operators, `map`/`abs`/attribute/call, `Stream(..)`,
`append` — and every `bad`: reading the value with `next` in a try/except loop delivers `p.outs bad`:
the compositional element-by-element reading of section `Spec/C01Exc.lean`. -/
theorem exc_eval (bad : Term → Bool) (p : Py) (hp : p.sort = some .stream) :
    ∃ it, evalPy genInstalled p = .ok (.iterable true it) ∧ ∀ n, it.drainE bad n = p.outs bad n := by
  obtain ⟨v, hv, hs, hd⟩ := evalPy_outs bad genInstalled optable_correct p _ hp
  obtain ⟨it, rfl⟩ := Val.of_sort_stream hs
  exact ⟨it, hv, hd⟩

/-- **C01.5i** … and when `p` has no attribute-access / call node (the two generator expressions of
`class Stream`) this is the property's reading `p.outsP`, in which EVERY operation goes on after an
exception. -/
theorem exc_eval_property (bad : Term → Bool) (p : Py) (hp : p.sort = some .stream) (hg : p.genFree = true) :
    ∃ it, evalPy genInstalled p = .ok (.iterable true it) ∧ ∀ n, it.drainE bad n = p.outsP bad n := by
  obtain ⟨it, h1, h2⟩ := exc_eval bad p hp
  exact ⟨it, h1, fun n => by rw [h2, Py.outs_eq_outsP bad p hg]⟩

/-- **C01.5j** broadcast functions, lazy inputs (generators & co, Streams): nothing is computed by the call;
reading delivers the function applied item by item up to the first element on which it raises, that
exception, and then nothing (the result is a generator expression). -/
theorem elementwiseE_lazy (bad : Term → Bool) (c : ECall) (k : CKind) (src : Iter) (ha : c.arg = .lazy k src)
    (hk : k.isSomeGen = true ∨ k.isStream = true) (hf : c.found = true) :
    ∃ it, (elementwiseE bad c = if k.isSomeGen then .gen it else .stream it) ∧
      ∀ n, it.drainE bad n = bcastOuts bad c (src.drainE bad n) := by
  have hk' : (!c.isPositional && !(c.kwargs.any fun kv => kv.1 == c.dname)) = false := by
    unfold ECall.found at hf
    rw [← ECall.positional_eq] at hf
    cases h1 : c.isPositional <;> cases h2 : (c.kwargs.any fun kv => kv.1 == c.dname) <;> simp_all
  obtain ⟨pre, post, hd, hx⟩ := ECall.data_spec c hf
  have hiter : c.arg.iter = src := by rw [ha]; rfl
  rw [hiter] at hd
  have hfun : (fun x => Term.app c.f (pre ++ x :: post)) = c.callWith := funext hx
  refine ⟨c.data, ?_, fun n => ?_⟩
  · unfold elementwiseE
    rw [hk']
    have hit : k.isIterable = true := by cases k <;> simp_all [CKind.isIterable, CKind.isSomeGen, CKind.isStream]
    have hns : k.isStr = false := by cases k <;> simp_all [CKind.isStr, CKind.isSomeGen, CKind.isStream]
    simp only [ha, BArg.kind, hit, hns]
    cases hg : k.isSomeGen with
    | true => simp
    | false =>
      have : k.isStream = true := by rcases hk with h | h <;> simp_all
      simp [this]
  · rw [hd, exc_gen, hfun]; rfl

/-- **C01.5k** broadcast functions, scalar in: the value, or the exception of the function itself. -/
theorem elementwiseE_scalar (bad : Term → Bool) (c : ECall) (k : CKind) (self : Term) (ha : c.arg = .obj k self)
    (hk : k = .scalar ∨ k = .str) (hf : c.found = true) :
    elementwiseE bad c = .value (chk bad (c.callWith self)) := by
  have hk' : (!c.isPositional && !(c.kwargs.any fun kv => kv.1 == c.dname)) = false := by
    unfold ECall.found at hf
    rw [← ECall.positional_eq] at hf
    cases h1 : c.isPositional <;> cases h2 : (c.kwargs.any fun kv => kv.1 == c.dname) <;> simp_all
  have hp := ECall.plainCall_spec c hf
  rw [ha] at hp
  unfold elementwiseE
  rw [hk']
  rcases hk with rfl | rfl <;> simp [ha, BArg.kind, CKind.isIterable, CKind.isStr, hp, BArg.self]

/-- **C01.5l** broadcast functions, sized containers: the call itself applies the function to the items
in order; the first item on which it raises makes the CALL raise that exception (no container). -/
theorem elementwiseE_cast (bad : Term → Bool) (c : ECall) (k : CKind) (t : Nat) (xs : List Term)
    (ha : c.arg = .sized k t xs) (hw : c.arg.wf = true) (hf : c.found = true) :
    ∃ left, elementwiseE bad c = .cast k (takeOuts (bcastOuts bad c (xs.map .item))) left := by
  have hk' : (!c.isPositional && !(c.kwargs.any fun kv => kv.1 == c.dname)) = false := by
    unfold ECall.found at hf
    rw [← ECall.positional_eq] at hf
    cases h1 : c.isPositional <;> cases h2 : (c.kwargs.any fun kv => kv.1 == c.dname) <;> simp_all
  obtain ⟨pre, post, hd, hx⟩ := ECall.data_spec c hf
  have hiter : c.arg.iter = .list t xs := by rw [ha]; rfl
  rw [hiter] at hd
  have hfun : (fun x => Term.app c.f (pre ++ x :: post)) = c.callWith := funext hx
  rw [ha] at hw
  simp only [BArg.wf, Bool.and_eq_true, Bool.not_eq_true'] at hw
  obtain ⟨⟨⟨h1, h2⟩, h3⟩, h4⟩ := hw
  refine ⟨(c.data.takeE bad (xs.length + 1)).2, ?_⟩
  unfold elementwiseE
  rw [hk']
  simp only [ha, BArg.kind, h1, h2, h3, h4, BArg.drainFuel]
  simp only [Bool.not_false, Bool.and_true, if_true, Bool.false_eq_true, if_false]
  congr 1
  rw [exc_take, hd, exc_gen, hfun, Iter.drainE_data bad _ (.list t xs) rfl, Iter.run_list,
    List.take_of_length_le (Nat.le_succ xs.length)]
  rfl

/-! non-vacuity of C01.5: `1 / Stream([1, 0, 2, 4])`-like readings -/

/-- python raises exactly for `f(·, atom 0)` resp. `f(atom 0)` -/
def demoBad : Term → Bool
  | .app _ [_, .atom 0] => true
  | .app _ [.atom 0] => true
  | _ => false

/-- `s.__rtruediv__(c7)` over `[1, 0, 2]`, then `+ [10, 20, 30]` with the raising tree on the LEFT:
the second operand falls one position behind — the exact behaviour of `map` -/
def demoE : Py :=
  .bin n!"__add__" (.bin n!"__rtruediv__" (.stream1 (.iterable 0 [.atom 1, .atom 0, .atom 2])) (.scalar (.atom 7)))
    (.iterable 1 [.atom 10, .atom 20, .atom 30])

example : demoE.sort = some .stream := by decide
example : demoE.genFree = true := by decide
example : demoE.outs demoBad 5 =
    [.item (.app n!"__add__" [.app n!"__truediv__" [.atom 7, .atom 1], .atom 10]),
     .raised (.app n!"__truediv__" [.atom 7, .atom 0]),
     .item (.app n!"__add__" [.app n!"__truediv__" [.atom 7, .atom 2], .atom 20])] := by rfl
/-- scalar operand: the seed's situation — position 1 raises, position 2 is still `7 / x[2]`, 3 outcomes -/
example : (Iter.mapL n!"__truediv__" (.atom 7) (.list 0 [.atom 1, .atom 0, .atom 2])).drainE demoBad 9 =
    [.item (.app n!"__truediv__" [.atom 7, .atom 1]), .raised (.app n!"__truediv__" [.atom 7, .atom 0]),
     .item (.app n!"__truediv__" [.atom 7, .atom 2])] := by rfl
/-- the same written as a generator expression ends after the exception -/
example : (Iter.mapc true n!"__truediv__" [.atom 7] [] (.list 0 [.atom 1, .atom 0, .atom 2])).drainE demoBad 9 =
    [.item (.app n!"__truediv__" [.atom 7, .atom 1]), .raised (.app n!"__truediv__" [.atom 7, .atom 0])] := by rfl
/-- `take(2)` twice over `[1, 0, 2, 4]`: the first raises (its first item is lost), the second gives the rest -/
example : ((Iter.mapL n!"f" (.atom 7) (.list 0 [.atom 1, .atom 0, .atom 2, .atom 4])).script demoBad [.take 2, .take 2]).1 =
    [.took (.error (.app n!"f" [.atom 7, .atom 0])),
     .took (.ok [.app n!"f" [.atom 7, .atom 2], .app n!"f" [.atom 7, .atom 4]])] := by rfl
example : allItems ((Iter.list 0 [.atom 1, .atom 0]).drainE demoBad 5) = true := by rfl
/-- a sized container with a raising element in the middle: the call raises -/
example : elementwiseE (fun t => match t with | .app _ (.atom 0 :: _) => true | _ => false)
      (demoCall (.sized .tuple 3 [.atom 1, .atom 0, .atom 2])) =
    .cast .tuple (.error (.app n!"f" [.atom 0, .atom 10, kwMarker n!"base", .atom 11]))
      (.dead (.list 3 [.atom 2])) := by rfl
example : (demoCall (.lazy .generator (.list 3 [.atom 1, .atom 0, .atom 2]))).found = true := by decide

/-! ### C01.6 — the QUERY log: why a finite, settled oracle table is enough

The driver is not handed python's number semantics but a finite table of the applications that raise,
and answers with the applications it asked about (`Iter.stepQ` per call of `next`, `Iter.drainQ` per
reading).  The harness settles the table until it agrees with python on every logged query. -/

/-- **C01.6a** one call of `next`: an oracle that agrees with `bad` on the logged queries gives the same
outcome, the same state afterwards and the same log. -/
theorem oracle_step (bad bad' : Term → Bool) (e : Iter) (h : ∀ t ∈ e.stepQ bad, bad' t = bad t) :
    e.stepE bad' = e.stepE bad ∧ e.stepQ bad' = e.stepQ bad :=
  Iter.stepE_congr bad bad' e h

/-- **C01.6b** a whole reading (`n` calls of `next` in try/except): a table that agrees with the true
oracle on the logged queries gives the run of the true oracle — outcomes, final state (read counts) and log. -/
theorem oracle_settled (bad bad' : Term → Bool) (e : Iter) (n : Nat)
    (h : ∀ q ∈ e.drainQ bad n, ∀ t ∈ q, bad' t = bad t) :
    e.drainS bad' n = e.drainS bad n ∧ e.drainQ bad' n = e.drainQ bad n :=
  Iter.drain_congr bad bad' n e h

/-- … the same for `take(k)` (the sized containers of the broadcast functions) … -/
theorem oracle_settled_take (bad bad' : Term → Bool) (e : Iter) (k : Nat)
    (h : ∀ q ∈ e.drainQ bad k, ∀ t ∈ q, bad' t = bad t) : e.takeE bad' k = e.takeE bad k :=
  Iter.takeE_congr bad bad' k e h

/-- … and for every script of `next` / `take(k)` reads that uses at most `n` calls, as far as it is observed
(through the first read that meets the end of the data). -/
theorem oracle_settled_script (bad bad' : Term → Bool) (e : Iter) (n : Nat) (rs : List Read) (hc : readsCost rs ≤ n)
    (h : ∀ q ∈ e.drainQ bad n, ∀ t ∈ q, bad' t = bad t) :
    untilEnd rs (e.script bad' rs).1 = untilEnd rs (e.script bad rs).1 := by
  have h1 : e.drainE bad' n = e.drainE bad n := by
    unfold Iter.drainE; rw [(Iter.drain_congr bad bad' n e h).1]
  rw [Iter.script_outs bad' rs e n hc, Iter.script_outs bad rs e n hc, h1]

/-- **C01.6c** the log of one call is the trace of the exception-free machine (`Iter.stepTrace`: every element
computation python performs, thrown-away ones included) through its first raising application … -/
theorem query_log (bad : Term → Bool) (e : Iter) : e.stepQ bad = throughFirst bad e.stepTrace :=
  (Iter.traceOK bad e).1

/-- … so every logged application but the last does not raise, and the call raises exactly when the last one
does — then with that application's exception. -/
theorem query_verdicts (bad : Term → Bool) (e : Iter) :
    (∀ t, (e.stepE bad).1 = .raised t →
      ∃ qs, e.stepQ bad = qs ++ [t] ∧ (∀ q ∈ qs, bad q = false) ∧ bad t = true) ∧
    ((∀ t, (e.stepE bad).1 ≠ .raised t) → ∀ q ∈ e.stepQ bad, bad q = false) := by
  have hT := Iter.traceOK bad e
  cases hf : e.stepTrace.find? bad with
  | none =>
    obtain ⟨h1, h2⟩ := hT.none hf
    refine ⟨fun t ht => ?_, fun _ q hq => find?_none_all hf q (h2 ▸ hq)⟩
    rw [h1] at ht
    exact absurd ht (liftStep'_not_raised _ t)
  | some t =>
    obtain ⟨e', h1⟩ := hT.some hf
    obtain ⟨qs, rest, _, hq2, hgood, hbt⟩ := throughFirst_some bad _ t hf
    refine ⟨fun t' ht' => ?_, fun hno => absurd (by rw [h1]) (hno t)⟩
    rw [h1] at ht'
    cases ht'
    exact ⟨qs, by rw [hT.1, hq2], hgood, hbt⟩

/-- **C01.6d** necessity: the log contains nothing superfluous — changing the verdict on ONE logged
application (all other verdicts unchanged) changes the outcome of the call. -/
theorem oracle_query_needed (bad bad' : Term → Bool) (e : Iter) (q : Term) (hq : q ∈ e.stepQ bad)
    (hsame : ∀ t, t ≠ q → bad' t = bad t) (hdiff : bad' q ≠ bad q) :
    (e.stepE bad').1 ≠ (e.stepE bad).1 :=
  Iter.stepQ_needed bad bad' e q hq hsame hdiff

/-! ### C01.7 — the step trace: which exception surfaces (entry `expr`: the exception-free machine plus its trace) -/

/-- **C01.7a** one call of `next` under any oracle, read off the exception-free machine `Iter.step` and its
trace: the exception of the first traced application that raises; when none raises, exactly the step of
the exception-free machine (item, end and state). -/
theorem trace_step (bad : Term → Bool) (e : Iter) :
    match e.stepTrace.find? bad with
    | some t => (e.stepE bad).1 = .raised t
    | none => e.stepE bad = ((match e.step.1 with | some x => Out.item x | none => Out.stop), e.step.2) := by
  have hT := Iter.traceOK bad e
  cases hf : e.stepTrace.find? bad with
  | some t => obtain ⟨e', h⟩ := hT.some hf; simp [h]
  | none =>
    obtain ⟨h, _⟩ := hT.none hf
    simp only [h]
    cases hs : e.step with
    | mk o e' => cases o <;> rfl

/-- **C01.7b** `take(n)`: the exception of the first application that raises, in the order of the traces of
the successive calls (`Iter.runT`); when none raises, the items of the exception-free run. -/
theorem trace_take (bad : Term → Bool) (e : Iter) (n : Nat) :
    (e.takeE bad n).1 =
      match (e.runT n).flatten.find? bad with
      | some t => .error t
      | none => .ok (e.run n) :=
  Iter.takeE_trace bad n e

/-- **C01.7c** conservative extension, pointwise in the oracle: when nothing the exception-free run computes
raises, the reading with exceptions IS that run (items, final state) and the query log is its trace. -/
theorem trace_drain (bad : Term → Bool) (e : Iter) (n : Nat) (h : (e.runT n).flatten.find? bad = none) :
    e.drainS bad n = ((e.runS n).1.map .item, (e.runS n).2) ∧ e.drainQ bad n = e.runT n :=
  Iter.drain_trace bad n e h

/-! ### C01.8 — scripts of reads (`next` / `take(k)` in try/except, in any order, on the same Stream) -/

/-- **C01.8a** a script is a function of the outcomes that successive calls of `next` deliver: `next` is the
next outcome; `take(k)` all items of the next `k` outcomes or the first exception among them, and the Stream
goes on right after that exception resp. after the `k` items. -/
theorem exc_script (bad : Term → Bool) (e : Iter) (rs : List Read) (n : Nat) (hc : readsCost rs ≤ n) :
    untilEnd rs (e.script bad rs).1 = scriptOuts rs (e.drainE bad n) :=
  Iter.script_outs bad rs e n hc

/-- **C01.8b** … hence for every well-typed Stream expression a script delivers `scriptOuts` of the
compositional element-by-element reading `p.outs`. -/
theorem exc_script_eval (bad : Term → Bool) (p : Py) (hp : p.sort = some .stream) :
    ∃ it, evalPy genInstalled p = .ok (.iterable true it) ∧
      ∀ rs n, readsCost rs ≤ n → untilEnd rs (it.script bad rs).1 = scriptOuts rs (p.outs bad n) := by
  obtain ⟨it, h1, h2⟩ := exc_eval bad p hp
  exact ⟨it, h1, fun rs n hc => by rw [exc_script bad it rs n hc, h2]⟩

/-- **C01.8c** `peek(k)` (= `copy().take(k)`, an `itertools.tee` over the data) answers like `take(k)`: the
items of the next `k` outcomes or the first exception among them; afterwards the items it saw are STILL in the
Stream, the exception it met is GONE from it (a later read does not see it again), and the data goes on behind it. -/
theorem exc_peek (bad : Term → Bool) (e : Iter) (k : Nat) :
    (e.peekE bad k []).1 = takeOuts (e.drainE bad k) ∧
    (ReadOut.metEnd (.peek k) (.took (takeOuts (e.drainE bad k))) = false → ∀ m,
      ((e.peekE bad k []).2).drainE bad ((itemTerms (e.drainE bad k)).length + m) =
        (itemTerms (e.drainE bad k)).map .item ++
          (e.drainE bad (takeUsed (e.drainE bad k) + m)).drop (takeUsed (e.drainE bad k))) := by
  obtain ⟨hp1, hp2⟩ := Iter.peekE_outs bad k [] e
  refine ⟨by rw [hp1]; cases takeOuts (e.drainE bad k) <;> simp, fun hend m => ?_⟩
  have hend' : ReadOut.metEnd (.take k) (.took (takeOuts (e.drainE bad k))) = false := by
    cases h : takeOuts (e.drainE bad k) with
    | error t => rfl
    | ok xs => rw [h] at hend; simpa [ReadOut.metEnd] using hend
  rw [hp2]
  simp only [List.nil_append]
  rw [Iter.drainE_buffer, Iter.takeE_state' bad k e hend' m]

/-! non-vacuity of C01.6 – C01.8 -/

/-- `7 / x` over `[1, 0, 2]` plus `[10, 20, 30]`, as an iterator tree -/
def demoIt : Iter :=
  .map2 n!"__add__" (.mapL n!"__truediv__" (.atom 7) (.list 0 [.atom 1, .atom 0, .atom 2])) (.list 1 [.atom 10, .atom 20, .atom 30])

/-- the log of the reading: per call, the applications asked about -/
example : demoIt.drainQ demoBad 5 =
    [[.app n!"__truediv__" [.atom 7, .atom 1], .app n!"__add__" [.app n!"__truediv__" [.atom 7, .atom 1], .atom 10]],
     [.app n!"__truediv__" [.atom 7, .atom 0]],
     [.app n!"__truediv__" [.atom 7, .atom 2], .app n!"__add__" [.app n!"__truediv__" [.atom 7, .atom 2], .atom 20]],
     []] := by rfl
/-- a table with the one raising application agrees with `demoBad` on the log (hypothesis of C01.6b) -/
def demoTable : Term → Bool
  | .app _ [.atom 7, .atom 0] => true
  | _ => false
example : ∀ q ∈ demoIt.drainQ demoBad 5, ∀ t ∈ q, demoTable t = demoBad t := by decide
/-- the tables differ elsewhere -/
example : demoTable (.app n!"f" [.atom 0]) ≠ demoBad (.app n!"f" [.atom 0]) := by decide
/-- C01.6d: the first logged query of the first call flipped -/
example : (demoIt.stepE (fun t => match t with | .app _ [.atom 7, .atom 1] => true | _ => false)).1 =
    .raised (.app n!"__truediv__" [.atom 7, .atom 1]) := by rfl
/-- C01.7: trace and first raising application of the second call -/
example : (demoIt.runT 2).flatten.find? demoBad = some (.app n!"__truediv__" [.atom 7, .atom 0]) := by rfl
example : (demoIt.takeE demoBad 2).1 = .error (.app n!"__truediv__" [.atom 7, .atom 0]) := by rfl
example : (demoIt.runT 3).flatten.find? (fun _ => false) = none := by rfl
/-- C01.8: next, take(2) across the exception, next -/
example : readsCost [.next, .take 2, .next] ≤ 4 := by decide
example : scriptOuts [.next, .take 2, .next] (demoE.outs demoBad 4) =
    [.one (.item (.app n!"__add__" [.app n!"__truediv__" [.atom 7, .atom 1], .atom 10])),
     .took (.error (.app n!"__truediv__" [.atom 7, .atom 0])),
     .one (.item (.app n!"__add__" [.app n!"__truediv__" [.atom 7, .atom 2], .atom 20]))] := by rfl
/-- `peek(3)` meets the exception of position 1: position 0 is still there, the exception is not, position 2 follows -/
example : ReadOut.metEnd (.peek 3) (.took (takeOuts (demoIt.drainE demoBad 3))) = false := by rfl
example : (demoIt.script demoBad [.peek 3, .next, .next]).1 =
    [.took (.error (.app n!"__truediv__" [.atom 7, .atom 0])),
     .one (.item (.app n!"__add__" [.app n!"__truediv__" [.atom 7, .atom 1], .atom 10])),
     .one (.item (.app n!"__add__" [.app n!"__truediv__" [.atom 7, .atom 2], .atom 20]))] := by rfl
example : scriptOuts [.peek 3, .next, .next] (demoE.outs demoBad 5) =
    [.took (.error (.app n!"__truediv__" [.atom 7, .atom 0])),
     .one (.item (.app n!"__add__" [.app n!"__truediv__" [.atom 7, .atom 1], .atom 10])),
     .one (.item (.app n!"__add__" [.app n!"__truediv__" [.atom 7, .atom 2], .atom 20]))] := by rfl
/-- a `take` that meets the end closes the observation -/
example : scriptOuts [.take 3, .next] [.item (.atom 1)] = [.took (.ok [.atom 1])] := by rfl

/-! ### C01.3d — the lookup API `OpMethod.get` (finite: `decide` over the regenerated table)

`genOps` = `OpMethod.get("all")` as computed by the model of `_initialize` / `_insert` from the regenerated
table; `lookupK` = `OpMethod._all[key]`; `getOpsK` = `list(OpMethod.get(keys, without))`. -/

def genOps : List OpMethod := initializeOps ALV.Gen.OpTable.table

/-- the dunder names of a lookup result -/
def dn (r : Option (List OpMethod)) : Option (List Name) := r.map fun l => l.map (·.dname)

/-- `"all"` finds the 35 operator methods, each once -/
theorem opget_all : getOpsK genOps [.str n!"all"] [] = some genOps ∧ genOps.length = 35 ∧ genOps.Nodup := by
  decide +kernel

/-- every operator method of the specification has an entry whose fields are as documented: name without
underscores, symbol, reversed flag, arity, `operator` function, `repr` -/
theorem opmethod_fields : ∀ sp ∈ specTable, ∃ o ∈ genOps, o.dname = sp.dname ∧ o.name = sp.name ∧
    o.symbol = sp.symbol ∧ o.rev = sp.reflected ∧ o.arity = sp.arity ∧ o.func = sp.fn ∧ o.reprStr = sp.repr := by
  decide +kernel

/-- by name (`"add"`, `"radd"`, `"pos"`): exactly that operator method -/
theorem opget_by_name : ∀ sp ∈ specTable, dn (lookupK genOps (.str sp.name)) = some [sp.dname] := by decide +kernel
/-- by dunder (`"__add__"`): exactly that operator method -/
theorem opget_by_dunder : ∀ sp ∈ specTable, dn (lookupK genOps (.str sp.dname)) = some [sp.dname] := by decide +kernel
/-- by symbol (`"+"`): binary, reversed binary, unary — in this order -/
theorem opget_by_symbol : ∀ sp ∈ specTable, dn (lookupK genOps (.str sp.symbol)) = some (specBySymbol sp.symbol) := by
  decide +kernel
/-- by `operator` function (`operator.add`): the plain and the reversed method -/
theorem opget_by_func : ∀ sp ∈ specTable, dn (lookupK genOps (.func sp.fn)) = some (specByFunc sp.fn) := by
  decide +kernel
/-- `"r"`: exactly the reversed ones; `1` / `"1"`, `2` / `"2"`: exactly those of that arity -/
theorem opget_by_flag : ∀ sp ∈ specTable,
    (((lookupK genOps (.str n!"r")).getD []).any (fun o => o.dname == sp.dname) = sp.reflected) ∧
    (∀ a ∈ [1, 2], (((lookupK genOps (.int a)).getD []).any (fun o => o.dname == sp.dname) = (sp.arity == a)) ∧
                   lookupK genOps (.str [Char.ofNat (48 + a)]) = lookupK genOps (.int a)) := by
  decide +kernel
/-- the keys are all there is: anything else — `"div"`, a dunder without its underscores … — is unknown -/
theorem opget_unknown (k : OpKey) : lookupK genOps k = none ↔ ∀ o ∈ genOps, k ∉ o.keysK := by
  rw [lookupK_eq]
  unfold OpMethod.under
  constructor
  · intro h o ho hk
    split at h
    · rename_i h0
      have : o ∈ genOps.filter fun o => o.keysK.contains k := List.mem_filter.mpr ⟨ho, by simpa using hk⟩
      rw [h0] at this; cases this
    · cases h
  · intro h
    rw [if_pos]
    apply List.filter_eq_nil_iff.mpr
    intro o ho
    simpa using h o ho
example : ∀ k ∈ [n!"div", n!"__div__", n!"rdiv", n!"__rdiv__", n!"foo", n!"__add", n!"3"], lookupK genOps (.str k) = none := by
  decide +kernel

/-- **`OpMethod.get` in general**: when every key is known, the result is the entries filed under the keys, in the
order asked for, minus those filed under a `without` key; one unknown key (in either list) is a ValueError. -/
theorem opget_spec (ops : List OpMethod) (keys without : List OpKey) :
    ((∀ k ∈ keys ++ without, OpMethod.under ops k ≠ []) →
      getOpsK ops keys without =
        some ((keys.flatMap (OpMethod.under ops)).filter fun o => !(without.any fun k => o.keysK.contains k))) ∧
    ((∃ k ∈ keys ++ without, OpMethod.under ops k = []) → getOpsK ops keys without = none) :=
  ⟨getOpsK_some ops keys without, getOpsK_none ops keys without⟩

/-- twin: on string keys the general lookup is the one the metaclass model (`installW`) uses -/
theorem opget_strings (ops : List OpMethod) (keys without : List Name) :
    getOpsK ops (keys.map .str) (without.map .str) = getOps ops keys without ∧
    (∀ k, lookupK ops (.str k) = allLookup ops k) :=
  ⟨getOpsK_str ops keys without, lookupK_str ops⟩

/-- twin: `class Stream` through the general path (`__operators__ = "all"`, no `__without__`, all three builders,
the names bound in the class body) is the class of `install` that C01.1 / C01.2 are about -/
theorem installW_stream :
    installW ALV.Gen.OpTable.table (fun _ => true) ALV.Gen.OpTable.table.classNamespace [n!"all"] [] = .ok genInstalled := by
  rfl

/-- the examples of the docstring of `OpMethod.get` -/
theorem opget_doc_examples :
    dn (getOpsK genOps [.str n!"*"] []) = some [n!"__mul__", n!"__rmul__"] ∧
    (getOpsK genOps [.str n!">>"] []).map List.length = some 2 ∧
    dn (getOpsK genOps [.str n!"__add__"] []) = some [n!"__add__"] ∧
    (getOpsK genOps [.str n!"rsub"] []).map (fun l => l.map (·.symbol)) = some [n!"-"] ∧
    (getOpsK genOps [.str n!"%"] []).map (fun l => l.map fun o => (o.rev, o.arity)) = some [(false, 2), (true, 2)] ∧
    dn (getOpsK genOps [.str n!"+"] []) = some [n!"__add__", n!"__radd__", n!"__pos__"] ∧
    (getOpsK genOps [.func n!"__add__"] []).map (fun l => l.map (·.symbol)) = some [n!"+", n!"+"] ∧
    (getOpsK genOps [.str n!"<<", .str n!">>"] []).map List.length = some 4 ∧
    (getOpsK genOps [.str n!"<<", .str n!">>"] [.str n!"r"]).map List.length = some 2 ∧
    dn (getOpsK genOps [.str n!"+", .str n!"&"] [.func n!"__add__", .str n!"r"]) = some [n!"__pos__", n!"__and__"] ∧
    (getOpsK genOps [.int 2] [.str n!"-", .str n!"+", .str n!"*", .str n!"%", .str n!"r"]).map List.length = some 15 := by
  decide +kernel

/-! ### C01.S — the builder closures, REGENERATED from the source text (translator `harness/props/c01_tr.py`)

`ALV.Gen.C01.binary / rbinary / unary / getattr / call` are values of the program type `Src.Closure`
(Model/C01Src.lean), written by the translator from the bodies of `StreamMeta.__binary__ / __rbinary__ /
__unary__` and `Stream.__getattr__ / __call__` on every run.  Their interpretation IS the hand-written model
function: every theorem above about `evalPy` / `callDunder` is a theorem about what the source says now. -/

/-- the dunder `StreamMeta.__binary__` builds: NotImplemented for ignored classes, `map(f, self, other)` for an
iterable, `map(lambda a: f(a, other), self)` for a scalar -/
theorem src_binary_is_model : ALV.Gen.C01.binary.run2 = binaryDunder := by
  funext f self o; cases o <;> rfl

/-- the dunder `StreamMeta.__rbinary__` builds: the same with the operands in the REFLECTED order -/
theorem src_rbinary_is_model : ALV.Gen.C01.rbinary.run2 = rbinaryDunder := by
  funext f self o; cases o <;> rfl

/-- the dunder `StreamMeta.__unary__` builds -/
theorem src_unary_is_model : ALV.Gen.C01.unary.run1 = unaryDunder := by
  funext f self; rfl

/-- `Stream.__getattr__` for any name but `__next__`: a MAP OBJECT (flag `false`: an element exception does not
end the Stream) of `getattr(·, name)` over `self._data` -/
theorem src_getattr_is_model (label : Name) (self : Iter) :
    ALV.Gen.C01.getattr.runMeth label self false = .ok (Src.methStream false label self) := rfl

/-- `Stream.__getattr__("__next__")` raises AttributeError ("Streams are iterable, not iterators") -/
theorem src_getattr_next (label : Name) (self : Iter) :
    ALV.Gen.C01.getattr.runMeth label self true = .error .attributeError := rfl

/-- `Stream.__call__`: a map object of `·(*args, **kwargs)` over `self._data`, whatever the name -/
theorem src_call_is_model (label : Name) (self : Iter) (isNext : Bool) :
    ALV.Gen.C01.call.runMeth label self isNext = .ok (Src.methStream false label self) := rfl

/-- what `evalPy` does with attribute access / call nodes is `methStream` of the evaluated receiver -/
theorem src_meth_in_eval (tbl : List (Name × Dunder)) (g : Bool) (l : Name) (s : Py) :
    evalPy tbl (.meth g l s) = (do
      let vs ← evalPy tbl s
      let it ← asStream vs
      pure (Src.methStream g l it)) := Src.evalPy_meth tbl g l s

/-- the method call `getattr(self, dname)(*args)` of the model, with the three builders replaced by the
regenerated programs, is the model's -/
theorem src_callDunder_is_model :
    Src.callDunderSrc ALV.Gen.C01.unary ALV.Gen.C01.binary ALV.Gen.C01.rbinary = callDunder :=
  Src.callDunderSrc_eq _ _ _ src_unary_is_model src_binary_is_model src_rbinary_is_model

/-- the interpreter tells the programs apart: swapping the operands of the reflected builder's `map` gives
another function (non-vacuity of `src_rbinary_is_model`) -/
example : ALV.Gen.C01.binary.run2 n!"__sub__" (.list 0 [.atom 1]) (.iterable false (.list 1 [.atom 2]))
    ≠ ALV.Gen.C01.rbinary.run2 n!"__sub__" (.list 0 [.atom 1]) (.iterable false (.list 1 [.atom 2])) := by
  rw [src_binary_is_model, src_rbinary_is_model]
  simp [binaryDunder, rbinaryDunder]

/-- **`lazy_misc.elementwise`, regenerated**: the decision tree the translator reads from the source
(decorator default `pos = 0`, `positional`, where `arg` is found, the Iterable / STR_TYPES / SOME_GEN_TYPES / Stream
tests in their order, the two generator expressions, `Stream(data)`, `type(arg)(data)`, the plain call), interpreted
over the model's vocabulary, never leaves the model and IS the hand-written `elementwise` — for every call. -/
theorem src_elementwise_is_model (c : ECall) : ALV.Gen.C01.elementwise.run c = some (elementwise c) := by
  obtain ⟨f, dname, dpos, args, kwargs, arg⟩ := c
  have key : ∀ (b1 b2 b3 b4 b5 : Bool), arg.kind.isIterable = b1 → arg.kind.isStr = b2 → arg.kind.isSomeGen = b3 →
      arg.kind.isStream = b4 → (kwargs.any fun kv => kv.1 == dname) = b5 →
      ALV.Gen.C01.elementwise.run ⟨f, dname, dpos, args, kwargs, arg⟩ = some (elementwise ⟨f, dname, dpos, args, kwargs, arg⟩) := by
    intro b1 b2 b3 b4 b5 h1 h2 h3 h4 h5
    have hd : (dname == []) = true ∨ (dname == []) = false := by cases (dname == []) <;> simp
    rcases hd with hd | hd <;> cases dpos with
    | none =>
      by_cases h : 0 < args.length <;> cases b1 <;> cases b2 <;> cases b3 <;> cases b4 <;> cases b5 <;>
        simp [Src.EwProg.run, ALV.Gen.C01.elementwise, Src.evalEwTest, elementwise, ECall.isPositional, ECall.pos, ECall.data,
          ECall.plainCall, Src.evalEwLookup, Src.evalEwTree, Src.evalEwExpr, Src.dataSplice, Src.dataKw, Src.plainAt,
          hd, h, h1, h2, h3, h4, h5]
    | some p =>
      by_cases h : p < args.length <;> cases b1 <;> cases b2 <;> cases b3 <;> cases b4 <;> cases b5 <;>
        simp [Src.EwProg.run, ALV.Gen.C01.elementwise, Src.evalEwTest, elementwise, ECall.isPositional, ECall.pos, ECall.data,
          ECall.plainCall, Src.evalEwLookup, Src.evalEwTree, Src.evalEwExpr, Src.dataSplice, Src.dataKw, Src.plainAt,
          hd, h, h1, h2, h3, h4, h5]
  exact key _ _ _ _ _ rfl rfl rfl rfl rfl

/-- non-vacuity: a list handed over by keyword, another keyword argument present -/
example : ALV.Gen.C01.elementwise.run ⟨n!"log", n!"x", some 0, [], [(n!"base", .atom 9), (n!"x", .atom 0)],
      .sized .list 1 [.atom 1, .atom 2]⟩ =
    some (.cast .list [.app n!"log" [kwMarker n!"base", .atom 9, kwMarker n!"x", .atom 1],
                       .app n!"log" [kwMarker n!"base", .atom 9, kwMarker n!"x", .atom 2]] (.mapc true n!"log"
      [kwMarker n!"base", .atom 9, kwMarker n!"x"] [] (.list 1 []))) := by
  rw [src_elementwise_is_model]; rfl

/-! ### C01.9 — operand kinds between "iterable" and "scalar"

An operand is described by what can be OBSERVED about it (`Operand`: `isinstance(·, Iterable)`, whether `iter()`
works, `__getitem__`, `__len__`, what `iter()` would deliver); the model's rule `Operand.toVal` / `toPy` consults
`isIgnored`, then exactly `isIterableABC`. -/

/-- every specified dunder is found under its own name -/
theorem specLookup_self : ∀ sp ∈ specTable, specLookup sp.dname = some sp := by decide +kernel

/-- **C01.9a** the classification: an operand of no ignored class that is no `Iterable` is ONE element,
whatever `iter()` does on it (indexable objects: vectors, `Poly`, `TableLookup`, `__len__` + `__getitem__`);
an `Iterable` is read through `iter()` (strings, bytes, dicts, sets, unsized classes with `__iter__` included). -/
theorem operand_class (o : Operand) (hi : o.isIgnored = false) :
    (o.isIterableABC = false → o.toVal = .scalar o.self ∧ o.toPy = .scalar o.self) ∧
    (o.isIterableABC = true → o.toVal = .iterable false (.list o.tag o.items) ∧ o.toPy = .iterable o.tag o.items) := by
  constructor <;> intro ha <;> simp [Operand.toVal, Operand.toPy, hi, ha]

/-- … so the predicates the builders do not consult do not matter: two objects that agree on `self`,
`isIgnored`, `isIterableABC = false` are the same operand -/
theorem operand_iter_irrelevant (o o' : Operand) (hs : o.self = o'.self) (hi : o.isIgnored = o'.isIgnored)
    (ha : o.isIterableABC = false) (ha' : o'.isIterableABC = false) : o.toVal = o'.toVal ∧ o.toPy = o'.toPy := by
  simp [Operand.toVal, Operand.toPy, hs, hi, ha, ha']

/-- the leaf evaluates to the classified value -/
theorem operand_eval (tbl : List (Name × Dunder)) (o : Operand) : evalPy tbl o.toPy = .ok o.toVal := by
  unfold Operand.toPy Operand.toVal
  cases o.isIgnored <;> cases o.isIterableABC <;> rfl

/-- **C01.9b** non-iterable operands are repeated for every position: for each of the 32 binary operator methods
(plain, reflected, comparisons incl. `==`, `@`), every well-typed Stream expression `s` and every operand `o` that
is no `Iterable` — `iter(o)` may well succeed —, position `i` of `s <op> o` is the operator applied to position `i` of
`s` and to `o` ITSELF (operands swapped for a reflected method), and the result ends exactly when `s` ends. -/
theorem operand_repeated (sp : DunderSpec) (hsp : sp ∈ specTable) (h2 : sp.arity = 2) (s : Py)
    (hs : s.sort = some .stream) (o : Operand) (hi : o.isIgnored = false) (ha : o.isIterableABC = false) :
    ∃ it, evalPy genInstalled (.bin sp.dname s o.toPy) = .ok (.iterable true it) ∧
      (∀ n i, (it.run n)[i]? = if i < n then
          (s.at i).map (fun x => Term.app sp.fn (if sp.reflected then [o.self, x] else [x, o.self])) else none) ∧
      (∀ n, Len.fin (it.run n).length = (Len.fin n).min s.len) := by
  have hpy : o.toPy = .scalar o.self := ((operand_class o hi).1 ha).2
  have hl := specLookup_self sp hsp
  have hsort : (Py.bin sp.dname s (.scalar o.self)).sort = some .stream := by
    simp [Py.sort, hs, hl, h2]
  rw [hpy]
  obtain ⟨it, hv, hg⟩ := eval_get _ hsort
  obtain ⟨it', hv', hlen⟩ := eval_len _ hsort
  rw [hv] at hv'
  cases hv'
  refine ⟨it, hv, fun n i => ?_, fun n => ?_⟩
  · rw [hg n i]
    by_cases hin : i < n
    · simp only [hin, if_true, Py.at, hl]
      cases s.at i <;> rfl
    · simp [hin]
  · rw [hlen n]
    simp [Py.len]

/-- **C01.9c** the same read off the REGENERATED builder bodies: the programs the translator wrote from
`StreamMeta.__binary__` / `__rbinary__` give, on such an operand, `map(lambda a: f(a, o), self)` resp.
`map(lambda a: f(o, a), self)` — not a `map` over `iter(o)`. -/
theorem src_operand_repeated (f : Name) (self : Iter) (o : Operand) (hi : o.isIgnored = false)
    (ha : o.isIterableABC = false) :
    ALV.Gen.C01.binary.run2 f self o.toVal = .ok (.iterable true (.mapR f self o.self)) ∧
    ALV.Gen.C01.rbinary.run2 f self o.toVal = .ok (.iterable true (.mapL f o.self self)) := by
  rw [src_binary_is_model, src_rbinary_is_model, ((operand_class o hi).1 ha).1]
  exact ⟨rfl, rfl⟩

/-- non-vacuity: a `Vec2`-like value (`__getitem__`, `__len__`, no `__iter__`: `iter()` would deliver its two
components) on the right of `*` and on the left of `@` over a Stream of 3 items: 3 items, each with the WHOLE object -/
def demoVec : Operand :=
  { self := .atom 9, isIgnored := false, isIterableABC := false, iterWorks := true, hasGetItem := true, hasLen := true,
    tag := 5, items := [.atom 90, .atom 91] }

example : ∃ it, evalPy genInstalled (.bin n!"__mul__" (.stream1 (.iterable 0 [.atom 1, .atom 2, .atom 3])) demoVec.toPy)
      = .ok (.iterable true it) ∧
    it.run 10 = [.app n!"__mul__" [.atom 1, .atom 9], .app n!"__mul__" [.atom 2, .atom 9], .app n!"__mul__" [.atom 3, .atom 9]] :=
  ⟨_, rfl, rfl⟩
example : ∃ it, evalPy genInstalled (.bin n!"__rmatmul__" (.stream1 (.iterable 0 [.atom 1, .atom 2, .atom 3])) demoVec.toPy)
      = .ok (.iterable true it) ∧
    it.run 10 = [.app n!"__matmul__" [.atom 9, .atom 1], .app n!"__matmul__" [.atom 9, .atom 2], .app n!"__matmul__" [.atom 9, .atom 3]] :=
  ⟨_, rfl, rfl⟩
/-- the same object, were it an `Iterable`, would be zipped component by component: 2 items -/
example : ∃ it, evalPy genInstalled (.bin n!"__mul__" (.stream1 (.iterable 0 [.atom 1, .atom 2, .atom 3]))
      { demoVec with isIterableABC := true }.toPy) = .ok (.iterable true it) ∧
    it.run 10 = [.app n!"__mul__" [.atom 1, .atom 90], .app n!"__mul__" [.atom 2, .atom 91]] :=
  ⟨_, rfl, rfl⟩

/-! ### C01.10 — container kinds of the broadcast functions carry the class identity

`CKind.sub base cls` is the proper subclass number `cls` of a builtin container (or a user `Sequence`) whose
constructor takes one iterable: `type(arg)(data)` gives back THAT class. -/

/-- **C01.10a** every kind that is neither scalar / str, nor lazy, nor a Stream comes back as ITSELF — the
argument's own class, for subclasses too (not the builtin base `isinstance` sees behind it) -/
theorem elementwise_same_class (c : ECall) (k : CKind) (t : Nat) (xs : List Term) (ha : c.arg = .sized k t xs)
    (hw : c.arg.wf = true) (hf : c.found = true) :
    (elementwise c).kind = .same k ∧ bcastKind k = .same k := by
  obtain ⟨left, he, _⟩ := elementwise_cast c k t xs ha hw hf
  refine ⟨by rw [he]; rfl, ?_⟩
  rw [ha] at hw
  cases k <;> simp_all [BArg.wf, CKind.isIterable, CKind.isStr, CKind.isSomeGen, CKind.isStream, bcastKind]

/-- **C01.10b** subclasses: whatever the base (list, tuple, set, frozenset, deque, user Sequence) and the class,
by position or by keyword: the result is of class `sub base cls` and holds the function applied to every item -/
theorem elementwise_subclass (c : ECall) (b : CBase) (cls t : Nat) (xs : List Term)
    (ha : c.arg = .sized (.sub b cls) t xs) (hf : c.found = true) :
    ∃ left, elementwise c = .cast (.sub b cls) (xs.map c.callWith) left ∧ left.unread = [(t, 0)] ∧
      (elementwise c).kind ≠ .same b.builtin := by
  have hw : c.arg.wf = true := by rw [ha]; rfl
  obtain ⟨left, he, hu⟩ := elementwise_cast c _ t xs ha hw hf
  refine ⟨left, he, hu, ?_⟩
  rw [he]
  cases b <;> simp [BOut.kind, CBase.builtin]

/-- non-vacuity: `class Vector(tuple)` (class number 3) by keyword -/
example : (elementwise ⟨n!"sqrt", n!"x", some 0, [], [(n!"x", .atom 0)], .sized (.sub .tuple 3) 1 [.atom 1, .atom 2]⟩).kind =
    .same (.sub .tuple 3) := by rfl
example : ALV.Gen.C01.elementwise.run ⟨n!"sqrt", [], none, [.atom 0], [], .sized (.sub .tuple 3) 1 [.atom 1, .atom 2]⟩ =
    some (.cast (.sub .tuple 3) [.app n!"sqrt" [.atom 1], .app n!"sqrt" [.atom 2]] (.mapc true n!"sqrt" [] [] (.list 1 []))) := by
  rw [src_elementwise_is_model]; rfl

end ALV.Props.C01

#write_audit "C01"
