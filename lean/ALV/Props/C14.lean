/-
  C14 — property theorems: window functions (`window` / `wsymm` of `lazy_analysis`).

  The objects: `ALV.Gen.Windows` is REGENERATED from the repo's formula table and code templates
  on every check (translator T2); `ALV.C14.call` is the hand-written model of the registry built by
  `_generate_window_strategies` applied to those generated definitions — proved in Part 2b to be the run of
  `ALV.Gen.C14.generateWindowStrategies`, the loop REGENERATED from the source text (translator T2b) —; `ALV.C14.sample`,
  `periodic`, `symmetric`, `resolve`, `hopSum`, `colaConst` are the hand-written specification.

  Part 1 holds for every number class (`Float` included: these are statements about the very terms
  the driver evaluates, hence bit-exact facts about floats).  Parts 2–5 are over `ℝ`.
  Helper lemmas live in `ALV.Lemmas.C14Core` / `ALV.Lemmas.C14`.
-/
import ALV.Lemmas.C14
import ALV.Lemmas.C14Call
import ALV.Lemmas.C14Src
import ALV.Gen.C14Src
import ALV.Common.Audit

namespace ALV.Props.C14
open ALV ALV.C14 ALV.Gen.Windows

/-! ## Part 1 — any number class -/
section anyClass
variable {α : Type} [TrigField α]

/-- **length**: whatever the name, parameter and (integer) size, a call that returns yields exactly
    `size` samples (`max size 0` for a negative size). -/
theorem call_length (d : DictId) (name : Option String) (size : Int) (alpha : Option α) (xs : List α)
    (h : call d name size alpha = .ok xs) : xs.length = size.toNat := by
  unfold call at h
  cases name <;> simp only at h <;> split at h
  · cases h
  · exact callFunc_length _ _ _ _ h
  · cases h
  · exact callFunc_length _ _ _ _ h

/-- **periodic prefix, template level**: for every formula, the periodic template at `n` is the first
    `n` samples of the symmetric template at `n + 1` — the same terms, so exact on floats too. -/
theorem periodic_prefix_template (f : α → α → α) (n : Nat) :
    periodicT f (n : Int) = (symmT f ((n + 1 : Nat) : Int)).take n :=
  periodicT_prefix f n

/-- **periodic prefix**: `window.X(n)` equals the first `n` samples of `wsymm.X(n+1)` exactly, for every
    documented name `X` that both dictionaries know, every size and parameter, every number class. -/
theorem call_periodic_prefix (k : Kind) (name : String) (hn : name ∈ k.names)
    (hgap : k.distinct = false → name = k.sname) (n : Nat) (alpha : Option α) (xs ys : List α)
    (hx : call .window (some name) (n : Int) alpha = .ok xs)
    (hy : call .wsymm (some name) ((n + 1 : Nat) : Int) alpha = .ok ys) :
    xs = ys.take n := by
  rw [call_some (window_dict_get k name hn)] at hx
  rw [call_some (wsymm_dict_get k name hn hgap)] at hy
  obtain ⟨a, rfl, hall⟩ := callFunc_ok k _ _ _ _ hx
  rw [hall] at hy
  injection hy with hy
  subst hy
  cases hd : k.distinct
  · -- rect: one shared strategy, whose formula ignores `size`
    have hk : k = .rect := by cases k <;> first | rfl | simp [Kind.distinct] at hd
    subst hk
    simpa using periodicT_prefix_const (fun x n => genFormula Kind.rect x n a) (fun _ _ _ => rfl) n
  · simpa using periodicT_prefix (fun x n => genFormula k x n a) n

/-- **size 1**: `wsymm.X(1)` is `[1.0]` for every name of `wsymm`. -/
theorem wsymm_one (k : Kind) (name : String) (hn : name ∈ k.names)
    (hgap : k.distinct = false → name = k.sname) (alpha : Option α) (xs : List α)
    (h : call .wsymm (some name) 1 alpha = .ok xs) : xs = [TrigField.ofInt 1] := by
  rw [call_some (wsymm_dict_get k name hn hgap)] at h
  obtain ⟨a, rfl, _⟩ := callFunc_ok k _ _ _ _ h
  cases k <;> rfl

/-- the same relation between the specified lists (specification level, any class) -/
theorem spec_periodic_prefix {α : Type} [TrigField α] (k : Kind) (a : α) (n : Nat) :
    periodic k a n = (symmetric k a (n + 1)).take n := by
  by_cases h : n = 0
  · subst h; simp [periodic]
  · have h1 : ¬ (n + 1 = 1) := by omega
    simp only [periodic, symmetric, h1, if_false, Nat.add_sub_cancel, ← List.map_take, List.take_range]
    simp

/-- the generated parameter defaults are the documented ones (blackman 0.16, cos 1) -/
theorem alpha_defaults (k : Kind) : alphaDefault (α := α) k.sname = k.alphaDefault :=
  alphaDefault_sname k

/-! ### histories: the strategies are functions of the arguments of each call -/

/-- **every call of a history on its own**: whatever calls were made before, whatever the caller did in
    place (`Step.change`, ANY function — append the first sample, scale, sort, clear …) with whichever
    list object it holds (`Step.target`), from whatever store, the `k`-th call of a history returns what
    `call` returns for the arguments of that call alone. -/
theorem history_outcomes (steps : List (Step α)) (h : Heap α) :
    (runHistory steps h).1.map Prod.fst = steps.map Step.call := by
  induction steps generalizing h with
  | nil => rfl
  | cons s rest ih => simp [runHistory, ih]

/-- the store only grows: one new object per call that returns, none rewritten away -/
theorem history_store_length (steps : List (Step α)) (h : Heap α) :
    h.length ≤ (runHistory steps h).2.length := by
  induction steps generalizing h with
  | nil => exact Nat.le_refl _
  | cons s rest ih =>
    simp only [runHistory]
    refine Nat.le_trans ?_ (ih _)
    rw [List.length_modify]
    split <;> simp

/-- **a new list object on every call**: the identities of the lists returned along a history are
    pairwise different, and none is an object that existed before the history. -/
theorem history_fresh_objects (steps : List (Step α)) (h : Heap α) :
    ((runHistory steps h).1.filterMap Prod.snd).Pairwise (· < ·) ∧
    ∀ i ∈ (runHistory steps h).1.filterMap Prod.snd, h.length ≤ i := by
  induction steps generalizing h with
  | nil => simp [runHistory]
  | cons s rest ih =>
    simp only [runHistory]
    cases hr : s.call with
    | err k =>
      have := ih (List.modify h s.target s.change)
      simpa [List.length_modify] using this
    | ok xs =>
      have := ih (List.modify (h ++ [xs]) s.target s.change)
      simp only [List.length_modify, List.length_append, List.length_singleton] at this
      show (h.length :: _).Pairwise (· < ·) ∧ ∀ i ∈ (h.length :: _), h.length ≤ i
      refine ⟨List.pairwise_cons.2 ⟨fun i hi => ?_, this.1⟩, fun i hi => ?_⟩
      · have := this.2 i hi; omega
      · rcases List.mem_cons.1 hi with rfl | hi
        · exact Nat.le_refl _
        · have := this.2 i hi; omega

/-- in particular: the second of two calls with the same arguments returns the same samples in a
    different object, whatever was done to the first -/
theorem history_repeat (s t : Step α) (h : Heap α)
    (hd : t.d = s.d) (hn : t.name = s.name) (hs : t.size = s.size) (ha : t.alpha = s.alpha) (xs : List α)
    (hx : s.call = .ok xs) :
    (runHistory [s, t] h).1 = [(.ok xs, some h.length), (.ok xs, some (h.length + 1))] := by
  have ht : t.call = .ok xs := by rw [← hx]; simp [Step.call, hd, hn, hs, ha]
  simp [runHistory, hx, ht, List.length_modify]

end anyClass

/-! ## Part 2 — the registry and the cross-links (finite, by evaluation of the model) -/

/-- every documented name of `window` denotes the documented strategy (periodic variant) -/
theorem window_names : ∀ k ∈ Kind.all, ∀ name ∈ k.names,
    generated.window.get name = some ⟨k.sname, false⟩ ∧ resolve false name = some (k, false) := by
  decide

/-- every name of `wsymm` denotes the documented strategy: the symmetric variant, except the shared
    rectangular window (`wsymm.rect is window.rect`) -/
theorem wsymm_names : ∀ k ∈ Kind.all, ∀ name ∈ k.names, (k.distinct = false → name = k.sname) →
    generated.wsymm.get name = some ⟨k.sname, k.distinct⟩ ∧ resolve true name = some (k, k.distinct) := by
  decide

/-- whatever `wsymm` knows under a documented name is what the documentation says -/
theorem wsymm_sound : ∀ k ∈ Kind.all, ∀ name ∈ k.names, ∀ fn,
    generated.wsymm.get name = some fn → fn = ⟨k.sname, k.distinct⟩ := by
  decide

-- OBSERVATION O1 (not a theorem, and not pending: it is FALSE for the current table, because
-- `wsymm[sname] = window[sname]` registers the shared rectangular strategy under its first name only;
-- DESIGN.md section 8 does not count the two missing aliases as a violation):
/-- every documented alias is also a name of `wsymm` -/
def wsymm_aliases_complete : Prop :=
  ∀ k ∈ Kind.all, ∀ name ∈ k.names, generated.wsymm.get name = some ⟨k.sname, k.distinct⟩

/-- `X.periodic is window.X` and `X.symm is wsymm.X` for every strategy object of either dictionary -/
theorem function_links : ∀ k ∈ Kind.all, ∀ b : Bool,
    generated.periodicOf ⟨k.sname, b && k.distinct⟩ = generated.window.get k.sname ∧
    generated.symmOf ⟨k.sname, b && k.distinct⟩ = generated.wsymm.get k.sname := by
  decide

/-- both dictionaries default to their `hann` -/
theorem defaults : generated.window.default = generated.window.get "hann" ∧
    generated.wsymm.default = generated.wsymm.get "hann" := by
  decide

/-- `window.symm is wsymm`, `wsymm.symm is wsymm`, `window.periodic is window`, `wsymm.periodic is window` -/
theorem dict_links (d : DictId) : dictSymm d = .wsymm ∧ dictPeriodic d = .window := ⟨rfl, rfl⟩

/-! ## Part 2b — the loop `_generate_window_strategies` itself, REGENERATED from the source (translator T2b)

`ALV.Gen.C14.generateWindowStrategies` is the program (`ALV.C14.Loop.Prog`) the translator reads from the text of
the function on every run; `ALV.C14.Loop.model` is the reading of it that the hand-written `genStep` was made for. -/

/-- **the source still says what the model says**: statement by statement — which field the names come from, that
    `sname` is `names[0]` and is what the template is formatted with, the `params_def` default, the order
    `[window, wsymm]`, which dictionary's template is exec'ed and into which names (`pi`, `sin`, `cos`, `xrange` of
    `math` / `lazy_compat`), the decorators and their order, `wsymm[sname] = window[sname]; break` for rows that are
    not distinct (default: distinct), both attribute lines; and the module calls the function exactly once -/
theorem src_generate_window_strategies_is_model :
    ALV.Gen.C14.generateWindowStrategies = ALV.C14.Loop.model := rfl

/-- **every iteration of the regenerated loop is `genStep`**, for all states and all rows that have a name -/
theorem src_generate_window_strategies_row (st : State) (row : Row) (h : row.names ≠ []) :
    Loop.runRow ALV.Gen.C14.generateWindowStrategies st row = some (genStep st row) := by
  rw [src_generate_window_strategies_is_model]; exact Loop.model_row st row h

/-- **the regenerated loop run on the regenerated table leaves the module state of the model**: every theorem about
    `generated` (names, aliases, links, defaults, and through `call` all the others) is about what the text of
    `_generate_window_strategies` does to the table of `lazy_analysis.py` as they are NOW.  By evaluation of the
    interpreter: independent of `src_generate_window_strategies_is_model` (a rewrite of the loop that builds the
    same registry keeps this one) -/
theorem src_generated_is_model :
    Loop.runTable ALV.Gen.C14.generateWindowStrategies rows = some generated := by
  decide

/-- the same for any table (rows with a name), through `Loop.model` -/
theorem src_generate_window_strategies_table (rs : List Row) (h : ∀ r ∈ rs, r.names ≠ []) :
    Loop.runTable ALV.Gen.C14.generateWindowStrategies rs = some (rs.foldl genStep {}) := by
  rw [src_generate_window_strategies_is_model]; exact Loop.model_table rs h

/-! ## Part 3 — refinement: the generated code computes the documented closed forms (over ℝ) -/

/-- **each sample equals the documented closed form**, one statement per generated formula, for all
    real arguments -/
theorem hann_closed_form (N n : ℝ) : hann N n = 1 / 2 - 1 / 2 * Real.cos (2 * Real.pi * n / N) := by
  simpa [sample, genFormula] using genFormula_eq_sample .hann 0 N n
theorem hamming_closed_form (N n : ℝ) : hamming N n = 27 / 50 - 23 / 50 * Real.cos (2 * Real.pi * n / N) := by
  simpa [sample, genFormula] using genFormula_eq_sample .hamming 0 N n
theorem rect_closed_form (N n : ℝ) : rect N n = 1 := by
  simpa [sample, genFormula] using genFormula_eq_sample .rect 0 N n
theorem bartlett_closed_form (N n : ℝ) : bartlett N n = 1 - |n - N / 2| / (N / 2) := by
  simpa [sample, genFormula] using genFormula_eq_sample .bartlett 0 N n
theorem triangular_closed_form (N n : ℝ) : triangular N n = 1 - |n - N / 2| / ((N + 2) / 2) := by
  simpa [sample, genFormula] using genFormula_eq_sample .triangular 0 N n
theorem blackman_closed_form (N n a : ℝ) : blackman N n a
    = (1 - a) / 2 - 1 / 2 * Real.cos (2 * Real.pi * n / N) + a / 2 * Real.cos (4 * Real.pi * n / N) := by
  simpa [sample, genFormula] using genFormula_eq_sample .blackman a N n
theorem cos_closed_form (N n a : ℝ) : Gen.Windows.cos N n a = Real.sin (Real.pi * n / N) ^ a := by
  simpa [sample, genFormula] using genFormula_eq_sample .cos a N n

/-- relations between the families (sanity of the closed forms) -/
theorem hann_eq_blackman_zero (N n : ℝ) : hann N n = blackman N n 0 := by
  have e1 := genFormula_eq_sample .hann 0 N n
  have e2 := genFormula_eq_sample .blackman 0 N n
  simp only [genFormula] at e1 e2
  rw [e1, e2]
  simp [sample]

/-- hann is the squared cosine-family window (`cos` with alpha = 2) -/
theorem hann_eq_cos_two (N n : ℝ) : hann N n = Gen.Windows.cos N n 2 := by
  have e1 := genFormula_eq_sample .hann 0 N n
  have e2 := genFormula_eq_sample .cos 2 N n
  simp only [genFormula] at e1 e2
  rw [e1, e2]
  have h2 : Real.cos (2 * Real.pi * n / N) = 2 * Real.cos (Real.pi * n / N) ^ 2 - 1 := by
    rw [← Real.cos_two_mul]; congr 1; ring
  simp only [sample, TrigField.real_ofInt, TrigField.real_ofRat, TrigField.real_pi, TrigField.real_cos,
    TrigField.real_sin, TrigField.real_pow, Int.cast_ofNat, Int.cast_one, Nat.cast_ofNat]
  rw [h2, Real.rpow_two]
  nlinarith [Real.sin_sq_add_cos_sq (Real.pi * n / N)]

/-- **model = spec**: for every dictionary, every documented name (the two aliases `wsymm` lacks
    excepted), every size and every parameter, the call through the modelled registry, generated
    template and generated formula returns exactly the specified list. -/
theorem call_eq_spec (symmDict : Bool) (k : Kind) (name : String) (hn : name ∈ k.names)
    (hgap : symmDict = true → k.distinct = false → name = k.sname) (size : ℕ) (alpha : Option ℝ) :
    call (if symmDict then DictId.wsymm else .window) (some name) (size : Int) alpha
      = match specList k (symmDict && k.distinct) alpha size with
        | some xs => Outcome.ok xs
        | none => Outcome.err "TypeError" := by
  rw [call_some (dict_get symmDict k name hn hgap), callFunc_kind]
  cases alpha <;> cases k <;> cases symmDict <;>
    simp [specList, effAlpha, Kind.alphaDefault, Kind.distinct, periodicT_eq_spec, symmT_eq_spec]

/-- what a successful call returns, in terms of the specification -/
theorem call_ok_spec (symmDict : Bool) (k : Kind) (name : String) (hn : name ∈ k.names)
    (hgap : symmDict = true → k.distinct = false → name = k.sname) (size : ℕ) (alpha : Option ℝ) (xs : List ℝ)
    (h : call (if symmDict then DictId.wsymm else .window) (some name) (size : Int) alpha = .ok xs) :
    xs = if (symmDict && k.distinct) then symmetric k (effAlpha k alpha) size else periodic k (effAlpha k alpha) size := by
  rw [call_eq_spec symmDict k name hn hgap] at h
  cases hs : specList k (symmDict && k.distinct) alpha size with
  | none => rw [hs] at h; cases h
  | some ys =>
    rw [hs] at h
    injection h with h
    subst h
    unfold specList at hs
    split at hs
    · cases hs
    · injection hs with hs; exact hs.symm

/-- the dictionaries called directly use `hann` -/
theorem call_default_eq_spec (symmDict : Bool) (size : ℕ) :
    call (if symmDict then DictId.wsymm else .window) none (size : Int) (none : Option ℝ)
      = .ok (if symmDict then symmetric .hann 0 size else periodic .hann 0 size) := by
  have h := call_eq_spec symmDict .hann "hann" (by decide) (by intro _ h; cases h) size none
  cases symmDict <;> simpa [call, specList, effAlpha, Kind.alphaDefault, Kind.distinct, defaults, State.dict] using h

/-! ## Part 4 — the specified windows: prefix, symmetry, size 1, range (over ℝ) -/

theorem spec_length (k : Kind) (a : ℝ) (size : ℕ) :
    (periodic k a size).length = size ∧ (symmetric k a size).length = size := by
  refine ⟨periodic_length k a size, ?_⟩
  unfold symmetric; split <;> simp [*]

/-- `wsymm.X(size)` read backwards is itself -/
theorem wsymm_symmetric (k : Kind) (a : ℝ) (size : ℕ) :
    (symmetric k a size).reverse = symmetric k a size :=
  symmetric_reverse k a size

/-- … and so is every list a call on `wsymm` returns (model level) -/
theorem call_wsymm_symmetric (k : Kind) (name : String) (hn : name ∈ k.names)
    (hgap : k.distinct = false → name = k.sname) (size : ℕ) (alpha : Option ℝ) (xs : List ℝ)
    (h : call .wsymm (some name) (size : Int) alpha = .ok xs) : xs.reverse = xs := by
  have := call_ok_spec true k name hn (fun _ => hgap) size alpha xs h
  subst this
  cases hd : k.distinct
  · have hk : k = .rect := by cases k <;> first | rfl | simp [Kind.distinct] at hd
    subst hk
    simpa using periodic_rect_reverse _ size
  · simpa using symmetric_reverse k _ size

/-- sample `i` equals sample `size − 1 − i` -/
theorem wsymm_symmetric_index (k : Kind) (a : ℝ) (size i : ℕ) (hi : i < size) :
    (symmetric k a size)[i]? = (symmetric k a size)[size - 1 - i]? := by
  have hl := (spec_length k a size).2
  conv_lhs => rw [← symmetric_reverse k a size]
  rw [List.getElem?_reverse (by omega), hl]

theorem wsymm_size_one (k : Kind) (a : ℝ) : symmetric k a 1 = [1] := by
  simp [symmetric]

/-- all samples lie in [0,1] (blackman: `alpha ∈ [-1/4, 1/4]`; cos: `alpha ≥ 0`) -/
theorem window_range (k : Kind) (a : ℝ) (ha : rangeOK k a) (size : ℕ) :
    ∀ x ∈ periodic k a size, 0 ≤ x ∧ x ≤ 1 :=
  periodic_range k a ha size

theorem wsymm_range (k : Kind) (a : ℝ) (ha : rangeOK k a) (size : ℕ) :
    ∀ x ∈ symmetric k a size, 0 ≤ x ∧ x ≤ 1 :=
  symmetric_range k a ha size

/-- every list a call returns lies in [0,1] (model level; `effAlpha` = given or default parameter) -/
theorem call_range (symmDict : Bool) (k : Kind) (name : String) (hn : name ∈ k.names)
    (hgap : symmDict = true → k.distinct = false → name = k.sname) (size : ℕ) (alpha : Option ℝ) (xs : List ℝ)
    (ha : rangeOK k (effAlpha k alpha))
    (h : call (if symmDict then DictId.wsymm else .window) (some name) (size : Int) alpha = .ok xs) :
    ∀ x ∈ xs, 0 ≤ x ∧ x ≤ 1 := by
  have := call_ok_spec symmDict k name hn hgap size alpha xs h
  subst this
  split
  · exact symmetric_range k _ ha size
  · exact periodic_range k _ ha size

/-- the hypothesis of `window_range` for blackman is forced: with `alpha = 1` the closed form is
    negative at a quarter of the period -/
theorem blackman_range_needs_alpha : sample Kind.blackman (1 : ℝ) 4 1 < 0 := by
  have h1 : Real.cos (2 * Real.pi * 1 / 4) = 0 := by
    rw [show 2 * Real.pi * 1 / 4 = Real.pi / 2 by ring]; exact Real.cos_pi_div_two
  have h2 : Real.cos (4 * Real.pi * 1 / 4) = -1 := by
    rw [show 4 * Real.pi * 1 / 4 = Real.pi by ring]; exact Real.cos_pi
  simp only [sample, TrigField.real_ofInt, TrigField.real_ofRat, TrigField.real_pi, TrigField.real_cos,
    Int.cast_ofNat, Int.cast_one, Nat.cast_ofNat, h1, h2]
  norm_num

/-! ## Part 5 — constant overlap-add (over ℝ) -/

/-- hop = size/2 (any even size `2·h`): the hop-shifted sum of the periodic hann, hamming, bartlett and
    rectangular windows is the same constant at every position -/
theorem cola_hop_half (k : Kind) (hk : k = .hann ∨ k = .hamming ∨ k = .bartlett ∨ k = .rect) (a : ℝ)
    (h j : ℕ) (hj : j < h) : some (hopSum (periodic k a (2 * h)) h j) = colaConst k a 2 :=
  cola_half k hk a h j hj

/-- hop = size/4 (any size `4·h`): hann, hamming, blackman (any alpha) — and bartlett, rect — have a
    constant hop-shifted sum -/
theorem cola_hop_quarter (k : Kind)
    (hk : k = .hann ∨ k = .hamming ∨ k = .blackman ∨ k = .bartlett ∨ k = .rect) (a : ℝ)
    (h j : ℕ) (hj : j < h) : some (hopSum (periodic k a (4 * h)) h j) = colaConst k a 4 :=
  cola_quarter k hk a h j hj

/-- the same on the lists the calls return (model level) -/
theorem call_cola_half (k : Kind) (hk : k = .hann ∨ k = .hamming ∨ k = .bartlett ∨ k = .rect)
    (name : String) (hn : name ∈ k.names) (alpha : Option ℝ) (h j : ℕ) (hj : j < h) (xs : List ℝ)
    (hc : call .window (some name) ((2 * h : ℕ) : Int) alpha = .ok xs) :
    some (hopSum xs h j) = colaConst k (effAlpha k alpha) 2 := by
  have := call_ok_spec false k name hn (by intro h; cases h) (2 * h) alpha xs hc
  subst this
  simpa using cola_half k hk _ h j hj

theorem call_cola_quarter (k : Kind) (hk : k = .hann ∨ k = .hamming ∨ k = .blackman ∨ k = .bartlett ∨ k = .rect)
    (name : String) (hn : name ∈ k.names) (alpha : Option ℝ) (h j : ℕ) (hj : j < h) (xs : List ℝ)
    (hc : call .window (some name) ((4 * h : ℕ) : Int) alpha = .ok xs) :
    some (hopSum xs h j) = colaConst k (effAlpha k alpha) 4 := by
  have := call_ok_spec false k name hn (by intro h; cases h) (4 * h) alpha xs hc
  subst this
  simpa using cola_quarter k hk _ h j hj
/-! ## Part 6 — the regenerated tables (finite, by evaluation) -/

/-- the table has exactly the documented strategies, names, aliases and `distinct` flags, in the documented order -/
theorem table_names : rows.map (fun r => (r.names, r.distinct)) = Kind.all.map (fun k => (k.names, k.distinct)) := by
  decide

/-- both templates have the signature `(size{params_def})`: `size` first and required, then the parameters of the row -/
theorem template_signatures :
    windowSig = [.param ⟨"size", none⟩, .paramsDef] ∧ wsymmSig = [.param ⟨"size", none⟩, .paramsDef] := by
  decide

/-- **signature = (size[, alpha])** of every generated function -/
theorem signatures : ∀ k ∈ Kind.all, ∀ symm : Bool,
    (rowOf k.sname).map (funcSig (if symm then wsymmSig else windowSig)) = some k.docSig := by
  decide

/-- alpha defaults as documented -/
theorem alpha_default_values : ∀ k ∈ Kind.all,
    ((k.docSig.find? (·.name == "alpha")).bind (·.dflt)).map Lit.toVal = k.alphaVal := by
  decide

theorem dict_links_table : ∀ d : DictId, dictAttr d "symm" = some .wsymm ∧ dictAttr d "periodic" = some .window := by
  intro d; cases d <;> decide

theorem default_route : ∀ d : DictId, resolveRoute d none .dflt = resolveRoute d (some "hann") .item := by
  intro d; cases d <;> decide

theorem link_routes : ∀ k ∈ Kind.all, ∀ d : DictId,
    resolveRoute d (some k.sname) (.funcLink "symm") = resolveRoute .wsymm (some k.sname) .item ∧
    resolveRoute d (some k.sname) (.funcLink "periodic") = resolveRoute .window (some k.sname) .item ∧
    resolveRoute d (some k.sname) (.dictLink "symm") = resolveRoute .wsymm (some k.sname) .item ∧
    resolveRoute d (some k.sname) (.dictLink "periodic") = resolveRoute .window (some k.sname) .item := by
  intro k hk d
  cases d <;> revert k <;> decide


/-! ## Part 7 — the call layer: shapes, spellings, defaults, rejected inputs (any number class) -/
section callLayer
variable {α : Type} [TrigField α]

/-- **positional = keyword**: every way to write `(size, alpha)` binds the same -/
theorem pycall_shapes (k : Kind) (symm : Bool) (s a : Val) :
    pyCallFunc (α := α) ⟨k.sname, symm⟩ ⟨[s], [("alpha", a)]⟩ = pyCallFunc ⟨k.sname, symm⟩ ⟨[s, a], []⟩ ∧
    pyCallFunc (α := α) ⟨k.sname, symm⟩ ⟨[], [("size", s), ("alpha", a)]⟩ = pyCallFunc ⟨k.sname, symm⟩ ⟨[s, a], []⟩ ∧
    pyCallFunc (α := α) ⟨k.sname, symm⟩ ⟨[], [("alpha", a), ("size", s)]⟩ = pyCallFunc ⟨k.sname, symm⟩ ⟨[s, a], []⟩ ∧
    pyCallFunc (α := α) ⟨k.sname, symm⟩ ⟨[], [("size", s)]⟩ = pyCallFunc ⟨k.sname, symm⟩ ⟨[s], []⟩ := by
  cases k <;> cases symm <;> exact ⟨rfl, rfl, rfl, rfl⟩

/-- **alpha omitted = the documented default written out** (blackman `.16`, cos `1`) -/
theorem pycall_omitted_alpha (k : Kind) (symm : Bool) (s d : Val) (hd : k.alphaVal = some d) :
    pyCallFunc (α := α) ⟨k.sname, symm⟩ ⟨[s], []⟩ = pyCallFunc ⟨k.sname, symm⟩ ⟨[s, d], []⟩ := by
  cases k <;> simp only [Kind.alphaVal] at hd <;> cases hd <;> cases symm <;> rfl

/-- a strategy without an `alpha` parameter called with one (positional or keyword): TypeError -/
theorem pycall_no_alpha_parameter (k : Kind) (hk : k.alphaVal = none) (symm : Bool) (s a : Val) :
    pyCallFunc (α := α) ⟨k.sname, symm⟩ ⟨[s, a], []⟩ = .err "TypeError" ∧
    pyCallFunc (α := α) ⟨k.sname, symm⟩ ⟨[s], [("alpha", a)]⟩ = .err "TypeError" := by
  cases k <;> first | (simp [Kind.alphaVal] at hk; done) | (cases symm <;> exact ⟨rfl, rfl⟩)

/-- malformed calls: no size, a third positional argument, an unknown keyword, a parameter given twice -/
theorem pycall_malformed (k : Kind) (symm : Bool) (s a e : Val) (kw : String) (hkw : kw ≠ "size" ∧ kw ≠ "alpha") :
    pyCallFunc (α := α) ⟨k.sname, symm⟩ ⟨[], []⟩ = .err "TypeError" ∧
    pyCallFunc (α := α) ⟨k.sname, symm⟩ ⟨[], [("alpha", a)]⟩ = .err "TypeError" ∧
    pyCallFunc (α := α) ⟨k.sname, symm⟩ ⟨[s, a, e], []⟩ = .err "TypeError" ∧
    pyCallFunc (α := α) ⟨k.sname, symm⟩ ⟨[s, a], [("alpha", e)]⟩ = .err "TypeError" ∧
    pyCallFunc (α := α) ⟨k.sname, symm⟩ ⟨[s], [("size", e)]⟩ = .err "TypeError" ∧
    pyCallFunc (α := α) ⟨k.sname, symm⟩ ⟨[s], [(kw, e)]⟩ = .err "TypeError" := by
  obtain ⟨h1, h2⟩ := hkw
  have b1 : (kw == "size") = false := by simpa using h1
  have b2 : (kw == "alpha") = false := by simpa using h2
  refine ⟨?_, ?_, ?_, ?_, ?_, ?_⟩
  · cases k <;> cases symm <;> rfl
  · cases k <;> cases symm <;> rfl
  · cases k <;> cases symm <;> rfl
  · cases k <;> cases symm <;> rfl
  · cases k <;> cases symm <;> rfl
  · rw [pyCallFunc_kind]
    have : C14.bind k.docSig ⟨[s], [(kw, e)]⟩ = .error "TypeError" := by
      cases k <;> simp [C14.bind, Kind.docSig, bindPos, bindKw, Ne.symm h1, Ne.symm h2, Bind.bind, Except.bind, Except.map]
    rw [this]

/-- `bool` is an `int`: `True` / `False` as size or alpha are `1` / `0` -/
theorem pycall_bool (k : Kind) (symm : Bool) (b : Bool) (v : Val) (rest : List Val) :
    pyCallFunc (α := α) ⟨k.sname, symm⟩ ⟨.bool b :: rest, []⟩ = pyCallFunc ⟨k.sname, symm⟩ ⟨.int (if b then 1 else 0) :: rest, []⟩ ∧
    pyCallFunc (α := α) ⟨k.sname, symm⟩ ⟨[v, .bool b], []⟩ = pyCallFunc ⟨k.sname, symm⟩ ⟨[v, .int (if b then 1 else 0)], []⟩ := by
  constructor
  · match rest with
    | [] => cases k <;> cases symm <;> cases b <;> rfl
    | [a] => cases k <;> cases symm <;> cases b <;> rfl
    | _ :: _ :: _ => cases k <;> cases symm <;> cases b <;> rfl
  · cases k <;> cases symm <;> cases b <;> rfl

/-- **sizes the code rejects**: a number without `__index__` (float `4.0`, `Fraction(4)`) is a TypeError in every
    strategy — except that the symmetric template answers `[1.0]` when the number EQUALS 1 (`wsymm.hann(1.0)`) —;
    `None` / a str always are -/
theorem pycall_size_not_an_index (k : Kind) (symm : Bool) (q : Rat) (a : Option Val) :
    pyCallFunc (α := α) ⟨k.sname, symm⟩ (plainArgs (.float q) a) = pyCallFunc ⟨k.sname, symm⟩ (plainArgs (.frac q) a) ∧
    (a = none → pyCallFunc (α := α) ⟨k.sname, symm⟩ (plainArgs (.float q) a)
      = if symm = true ∧ q = 1 then .ok [TrigField.ofInt 1] else .err "TypeError") ∧
    pyCallFunc (α := α) ⟨k.sname, symm⟩ (plainArgs .none none) = .err "TypeError" ∧
    pyCallFunc (α := α) ⟨k.sname, symm⟩ (plainArgs .str none) = .err "TypeError" := by
  refine ⟨?_, ?_, ?_, ?_⟩
  · cases a <;> cases k <;> cases symm <;> rfl
  · rintro rfl
    rw [pyCallFunc_kind]
    cases k <;> cases symm <;> by_cases hq : q = 1 <;>
      simp [hq, plainArgs, C14.bind, Kind.docSig, bindPos, bindKw, bindDefaults, Bind.bind, Except.bind, Except.map,
        evalBound, runTemplate, periodicN, symmN, C14.ofExcept, Lit.toVal, Val.toNum, List.lookup]
  · cases k <;> cases symm <;> rfl
  · cases k <;> cases symm <;> rfl

/-- **the old interface inside the new one**: the plain positional call with an integer size and a numeric (or
    omitted) alpha, by a documented name, is `call` — so every theorem about `call` is a theorem about these calls -/
theorem pycall_eq_call (symmDict : Bool) (k : Kind) (name : String) (hn : name ∈ k.names)
    (hgap : symmDict = true → k.distinct = false → name = k.sname) (size : Int) (alpha : Option Val)
    (hnum : ∀ v, alpha = some v → v.isNum = true) :
    pyCall (α := α) (if symmDict then .wsymm else .window) (some name) .item (plainArgs (.int size) alpha)
      = call (if symmDict then .wsymm else .window) (some name) size (alpha.bind Val.toNum) := by
  rw [pyCall_doc symmDict k name hn hgap, call_some (dict_get symmDict k name hn hgap)]
  exact pyCallFunc_eq_callFunc k _ size alpha hnum

/-- `alpha=None` (or a str): TypeError exactly when a sample is computed by a formula that uses alpha — not for
    size ≤ 0 (no sample), not for `wsymm.X(1)` (the literal `[1.0]`) -/
theorem pycall_alpha_none (k : Kind) (hk : k = .blackman ∨ k = .cos) (symm : Bool) (size : Int) :
    pyCallFunc (α := α) ⟨k.sname, symm⟩ ⟨[.int size, .none], []⟩
      = if size ≤ 0 then .ok [] else if symm = true ∧ size = 1 then .ok [TrigField.ofInt 1] else .err "TypeError" := by
  rw [pyCallFunc_kind]
  have hb : ∀ n : Nat, ∀ N : Int, (blackman (TrigField.ofInt N) (TrigField.ofInt (Int.ofNat n)) (⟨true⟩ : Taint)).t = true := fun _ _ => rfl
  have hc : ∀ n : Nat, ∀ N : Int, (Gen.Windows.cos (TrigField.ofInt N) (TrigField.ofInt (Int.ofNat n)) (⟨true⟩ : Taint)).t = true := fun _ _ => rfl
  by_cases h0 : size ≤ 0
  · have hz : size.toNat = 0 := by omega
    have h1 : size ≠ 1 := by omega
    rcases hk with rfl | rfl <;> cases symm <;>
      simp [C14.bind, Kind.docSig, bindPos, bindKw, bindDefaults, Bind.bind, Except.bind, Except.map, evalBound,
        runTemplate, Val.toNum, List.lookup, genFormula, periodicT, symmT, xrange, h0, hz, h1]
  · have hp : 0 < size.toNat := by omega
    by_cases h1 : size = 1
    · subst h1
      rcases hk with rfl | rfl <;> cases symm <;>
        simp [C14.bind, Kind.docSig, bindPos, bindKw, bindDefaults, Bind.bind, Except.bind, Except.map, evalBound,
          runTemplate, Val.toNum, List.lookup, genFormula, periodicT, symmT, xrange] <;> rfl
    · rcases hk with rfl | rfl <;> cases symm <;>
        simp only [C14.bind, Kind.docSig, bindPos, bindKw, bindDefaults, Bind.bind, Except.bind, Except.map, evalBound,
          runTemplate, Val.toNum, List.lookup, genFormula, periodicT, symmT, xrange, h0, h1, List.map_map, if_false,
          Function.comp_def, taint_any _ (fun n => hb n _) , taint_any _ (fun n => hc n _), hp, decide_true, if_true,
          and_false, Bool.false_eq_true, beq_self_eq_true, String.reduceBEq]

end callLayer

/-! ## Part 8 — the call layer over ℝ -/

/-- over ℝ an argument counts by its VALUE, whatever its spelling (`0`, `0.0`, `Fraction(0)`, `False`) -/
theorem toNum_real (v : Val) : (v.toNum : Option ℝ) = v.rat.map (fun q => (q : ℝ)) := by
  cases v with
  | int i => simp [Val.toNum, Val.rat]
  | bool b => cases b <;> simp [Val.toNum, Val.rat]
  | float q => simp [Val.toNum, Val.rat, TrigField.ofQ, Rat.cast_def]
  | frac q => simp [Val.toNum, Val.rat, TrigField.ofQ, Rat.cast_def]
  | none => rfl
  | str => rfl

/-- two spellings of the same number give the same window (over ℝ): positional or keyword, int / float / Fraction / bool -/
theorem pycall_alpha_spelling (k : Kind) (symm : Bool) (s v w : Val) (h : v.rat = w.rat) (hv : v.isNum = true) :
    pyCallFunc (α := ℝ) ⟨k.sname, symm⟩ ⟨[s, v], []⟩ = pyCallFunc ⟨k.sname, symm⟩ ⟨[s, w], []⟩ := by
  have hw : w.isNum = true := by
    cases v <;> cases w <;> simp_all [Val.rat, Val.isNum]
  have e : (v.toNum : Option ℝ) = w.toNum := by rw [toNum_real, toNum_real, h]
  rw [pyCallFunc_kind, pyCallFunc_kind]
  cases k <;>
    simp [C14.bind, Kind.docSig, bindPos, bindKw, bindDefaults, Bind.bind, Except.bind, Except.map, evalBound, List.lookup, e]

/-- **cos with alpha = 0 is the rectangular window**: every sample is 1 — also the zero end points `sin(0)`, `sin(π)` of
    the symmetric one (`0 ** 0 = 1`) -/
theorem cos_alpha_zero_is_rect (a : ℝ) (size : ℕ) :
    periodic .cos 0 size = periodic .rect a size ∧ symmetric .cos 0 size = symmetric .rect a size := by
  have h : ∀ N n : ℝ, sample Kind.cos 0 N n = sample Kind.rect a N n := by
    intro N n; simp [sample]
  constructor
  · simp [periodic, h]
  · simp [symmetric, h]


/-- a size ≤ 0 gives the empty list (`xrange` of a non-positive number), in every strategy and number class -/
theorem call_nonpositive_size {α : Type} [TrigField α] (d : DictId) (name : Option String) (size : Int) (hs : size ≤ 0)
    (alpha : Option α) (xs : List α) (h : call d name size alpha = .ok xs) : xs = [] := by
  have := call_length d name size alpha xs h
  have hz : size.toNat = 0 := by omega
  exact List.eq_nil_of_length_eq_zero (this.trans hz)

/-- the range clause for calls as they are written: `X(size)`, `X(size, alpha)` with alpha in any numeric spelling -/
theorem pycall_range (symmDict : Bool) (k : Kind) (name : String) (hn : name ∈ k.names)
    (hgap : symmDict = true → k.distinct = false → name = k.sname) (size : ℕ) (alpha : Option Val)
    (hnum : ∀ v, alpha = some v → v.isNum = true) (xs : List ℝ)
    (ha : rangeOK k (effAlpha k (alpha.bind Val.toNum)))
    (h : pyCall (if symmDict then DictId.wsymm else .window) (some name) .item (plainArgs (.int size) alpha) = .ok xs) :
    ∀ x ∈ xs, 0 ≤ x ∧ x ≤ 1 := by
  rw [pycall_eq_call symmDict k name hn hgap size alpha hnum] at h
  exact call_range symmDict k name hn hgap size _ xs ha h

/-! ## non-vacuity -/

example : (4 : ℕ) < 7 ∧ rangeOK .blackman (4 / 25) := ⟨by decide, by constructor <;> norm_num⟩
example : rangeOK .cos 2 := by show (0 : ℝ) ≤ 2; norm_num
example : "hanning" ∈ Kind.hann.names ∧ (Kind.hann.distinct = false → "hanning" = Kind.hann.sname) := by decide
example : call (α := ℝ) .wsymm (some "triangle") 5 none = .ok (symmetric .triangular 0 5) := by
  simpa [specList, effAlpha, Kind.alphaDefault, Kind.distinct] using
    call_eq_spec true .triangular "triangle" (by decide) (by decide) 5 none
example : call (α := ℝ) .window (some "blackman") 8 (some (1/4)) = .ok (periodic .blackman (1/4) 8) := by
  simpa [specList, effAlpha, Kind.alphaDefault, Kind.distinct] using
    call_eq_spec false .blackman "blackman" (by decide) (by decide) 8 (some (1/4))
example : generated.wsymm.get "rect" = generated.window.get "rect" := by decide
example : (1 : ℕ) < 3 ∧ (Kind.hann = .hann ∨ Kind.hann = .hamming ∨ Kind.hann = .bartlett ∨ Kind.hann = .rect) :=
  ⟨by decide, Or.inl rfl⟩
-- a history: `p = window.hann(4); p.append(p[0])` (here: `change` on object 0), then `window.hann(4)` again
example : ((runHistory (α := ℝ)
      [{ d := .window, name := some "hann", size := 4, alpha := none, target := 0, change := fun p => p ++ p.take 1 },
       { d := .window, name := some "hann", size := 4, alpha := none, target := 0, change := id }] []).1.map Prod.snd)
    = [some 0, some 1] := by
  have h : call (α := ℝ) .window (some "hann") 4 none = _ :=
    call_eq_spec false .hann "hann" (by decide) (by decide) 4 none
  simp [runHistory, Step.call, h, specList]

-- the regenerated loop: a row with aliases that is not distinct, from a state that already has a strategy
example : (⟨["rect", "dirichlet"], false, []⟩ : Row).names ≠ [] := by decide
example : (Loop.runRow ALV.Gen.C14.generateWindowStrategies generated ⟨["r", "q"], false, []⟩).map
      (fun st => (st.wsymm.get "r", st.wsymm.get "q", st.window.get "q", st.symmOf ⟨"r", false⟩))
    = some (some ⟨"r", false⟩, none, some ⟨"r", false⟩, some ⟨"r", false⟩) := by decide
example : ∀ r ∈ rows, r.names ≠ [] := by decide

-- the call layer
example : "beta" ≠ "size" ∧ "beta" ≠ "alpha" := by decide
example : Kind.blackman.alphaVal = some (.float (mkRat 4 25)) ∧ Kind.hann.alphaVal = none := ⟨rfl, rfl⟩
example : (Val.int 0).rat = (Val.frac 0).rat ∧ (Val.bool false).rat = (Val.float 0).rat ∧ (Val.float 0).isNum = true := by decide
example : pyCallFunc (α := ℝ) ⟨Kind.cos.sname, true⟩ ⟨[.int 1, .none], []⟩ = .ok [1] := by
  simpa using pycall_alpha_none (α := ℝ) .cos (Or.inr rfl) true 1
example : pyCallFunc (α := ℝ) ⟨Kind.cos.sname, false⟩ ⟨[.int 3, .none], []⟩ = .err "TypeError" := by
  simpa using pycall_alpha_none (α := ℝ) .cos (Or.inr rfl) false 3
example : pyCallFunc (α := ℝ) ⟨Kind.hann.sname, true⟩ (plainArgs (.float 1) none) = .ok [1] := by
  simpa using (pycall_size_not_an_index (α := ℝ) .hann true 1 none).2.1 rfl
example : ∀ v, some (Val.frac (1/4)) = some v → v.isNum = true := by intro v h; cases h; rfl
example : rangeOK .cos (effAlpha .cos ((some (Val.int 0)).bind Val.toNum)) := by
  show (0 : ℝ) ≤ _; simp [effAlpha, Val.toNum]

end ALV.Props.C14

#write_audit "C14"
