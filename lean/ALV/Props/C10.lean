/-
  C10 — property theorems (first milestone: definitional clauses; the Levinson theorems follow).
-/
import ALV.Model.C10
import ALV.Spec.C10
import ALV.Common.Audit

namespace ALV.Props.C10
open ALV.C10
variable {α : Type} [Add α] [Mul α] [Sub α] [Neg α] [Div α] [OfNat α 0] [OfNat α 1]

/-- `toeplitz` is the table `T[j][i] = vect[|i−j|]` -/
theorem toeplitz_entry (v : List α) (i j : Nat) (hi : i < v.length) (hj : j < v.length) :
    ((toeplitz v).getD j []).getD i 0 = coef v (adiff i j) := by
  simp [toeplitz, hi, hj, List.getD_eq_getElem?_getD]

end ALV.Props.C10

#write_audit "C10"
