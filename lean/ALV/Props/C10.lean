/-
  C10 — property theorems.  Only statements of the property, non-vacuity examples and the audit
  live here; helper lemmas are in `ALV.Lemmas.C10*`.

  `levinson r order = .ok (a, e)` reads: `levinson_durbin(r, order)` returns a filter with
  `numerator = a` and `error = e` (no division by zero met).  `K` is any field.
-/
import ALV.Lemmas.C10Min
import ALV.Lemmas.C10Uniq
import ALV.Lemmas.C10CovMin
import ALV.Lemmas.C10Call
import ALV.Lemmas.C10MinUniq
import ALV.Lemmas.C10Float
import ALV.Lemmas.C12Gauss
import ALV.Lemmas.C10Src
import ALV.Common.Audit

namespace ALV.Props.C10
open ALV.C10

section tables
variable {α : Type} [Add α] [Mul α] [OfNat α 0]

/-- **C10.2a** `acorr(blk, L)` has L+1 entries (`len(blk)` entries for `max_lag=None`) … -/
theorem acorr_length (blk : List α) (lag : Option Nat) :
    (acorr blk lag).length = (match lag with | none => blk.length | some L => L + 1) := by
  cases lag <;> simp [acorr]

/-- … and entry tau is the documented sum `Σ_{n < N−tau} x[n]·x[n+tau]`. -/
theorem acorr_entry (blk : List α) (lag : Option Nat) (tau : Nat) (h : tau < (acorr blk lag).length) :
    (acorr blk lag)[tau] = acorrAt blk tau := by
  simp [acorr, acorrAt]

/-- **C10.2b** `lag_matrix(blk, L)` raises ValueError exactly when `L ≥ len(blk)` … -/
theorem lagMatrix_raises_iff (blk : List α) (L : Nat) :
    (∃ e, lagMatrix blk (some L) = .error e) ↔ blk.length ≤ L := by
  unfold lagMatrix
  by_cases h : L ≥ blk.length <;> simp [h]

/-- … otherwise it is the (L+1)×(L+1) table whose row j, column i is `Σ_{n=L}^{N−1} x[n−i]·x[n−j]`. -/
theorem lagMatrix_entry (blk : List α) (L : Nat) (hL : L < blk.length) :
    ∃ t, lagMatrix blk (some L) = .ok t ∧ t.length = L + 1 ∧
      ∀ i j, i ≤ L → j ≤ L → (t.getD j []).getD i 0 = lagAt blk L i j := by
  refine ⟨lagTable blk L, ?_, by simp [lagTable], ?_⟩
  · unfold lagMatrix; simp [Nat.not_le.2 hL]
  · intro i j hi hj
    simp [lagTable, lagAt, List.getD_eq_getElem?_getD, Nat.lt_succ_of_le hi, Nat.lt_succ_of_le hj]

omit [Add α] [Mul α] in
/-- **C10.2c** `toeplitz(v)` is the n×n table `T[j][i] = v[|i−j|]`. -/
theorem toeplitz_entry (v : List α) (i j : Nat) (hi : i < v.length) (hj : j < v.length) :
    ((toeplitz v).getD j []).getD i 0 = coef v (adiff i j) := by
  simp [toeplitz, hi, hj, List.getD_eq_getElem?_getD]

omit [Add α] [Mul α] in
theorem toeplitz_length (v : List α) : (toeplitz v).length = v.length := by simp [toeplitz]

/-- non-vacuity (the docstring examples of the real functions) -/
example : acorr [(1 : Rat), 2, 3, 4, 3, 4, 2] none = [59, 52, 42, 30, 17, 8, 2] := by decide +kernel
example : acorr [(1 : Rat), 2, 3, 4, 3, 4, 2] (some 9) = [59, 52, 42, 30, 17, 8, 2, 0, 0, 0] := by
  decide +kernel
example : lagMatrix [(1 : Rat), 2, 3, 4] (some 2) = .ok [[25, 18, 11], [18, 13, 8], [11, 8, 5]] := by
  decide +kernel
example : lagMatrix [(1 : Rat), 2, 3] (some 3) = .error "ValueError" := by decide +kernel
example : toeplitz [(1 : Rat), 2, 3] = [[1, 2, 3], [2, 1, 2], [3, 2, 1]] := by decide +kernel

end tables

variable {K : Type} [Field K] [DecidableEq K]

/-- **C10.1a** (normal equations).  Whenever `levinson_durbin(r, order)` returns — i.e. on every
lag vector on which the recursion meets no zero divisor — for every order (also `order ≥ len(r)`,
zero extension) the returned filter is monic, has at most `order+1` coefficients and satisfies
`Σ_j a_j · r|i−j| = 0` for `i = 1..order`. -/
theorem levinson_normal_eqs (r : List K) (order : Option Nat) (a : List K) (e : K)
    (h : levinson r order = .ok (a, e)) : IsYuleWalker r a (orderOf r order) := by
  cases order with
  | none =>
    obtain ⟨_, h1, _⟩ := levinson_none_ok h
    exact IsYuleWalker_of_inv (levIter_inv r _ a h1)
  | some p =>
    obtain ⟨h1, _⟩ := levinson_some_ok h
    exact IsYuleWalker_of_inv (levInv_zeroExt (levIter_inv _ p a h1))

/-- **C10.1b** (true error).  The `error` attribute, computed by the code as `inner(A, A)`,
equals `Σ_j a_j · r_j`. -/
theorem levinson_error (r : List K) (order : Option Nat) (a : List K) (e : K)
    (h : levinson r order = .ok (a, e)) : e = predError r a (orderOf r order) := by
  cases order with
  | none =>
    obtain ⟨_, h1, h2⟩ := levinson_none_ok h
    rw [h2, (levIter_inv r _ a h1).inner_self, predError_eq]; rfl
  | some p =>
    obtain ⟨h1, h2⟩ := levinson_some_ok h
    have hinv := levIter_inv _ p a h1
    rw [h2, hinv.inner_self, predError_eq]
    exact Nf_congr_r _ _ _ _ _ (coef_zeroExt r p)

/-- **C10.1f** (uniqueness: "*the* monic order-p filter").  Whenever `levinson_durbin` returns,
every monic order-p solution of the normal equations has the returned coefficients. -/
theorem levinson_unique (r : List K) (order : Option Nat) (a : List K) (e : K)
    (h : levinson r order = .ok (a, e)) (b : List K) (hb : IsYuleWalker r b (orderOf r order)) :
    ∀ j, coef b j = coef a j := by
  -- the lag list the loop ran on, coefficient-wise equal to r
  obtain ⟨r', hr', hA⟩ : ∃ r' : List K, (∀ k, coef r' k = coef r k) ∧
      levIter r' (orderOf r order) = .ok a := by
    cases order with
    | none => exact ⟨r, fun _ => rfl, (levinson_none_ok h).2.1⟩
    | some p => exact ⟨zeroExt r p, coef_zeroExt r p, (levinson_some_ok h).1⟩
  set p := orderOf r order
  have hinv := levIter_inv r' p a hA
  obtain ⟨hb0, hblen, hbne⟩ := hb
  have hd := yuleWalker_diff_zero hA (fun j => coef b j - 1 * coef a j)
    (by simp [hb0, hinv.a0])
    (fun j hj => by
      rw [coef_of_length_le b j (by omega), coef_of_length_le a j (by have := hinv.len; omega)]; simp)
    (fun i h1 h2 => by
      rw [Nf_sub_smul, hinv.ne i h1 h2, Nf_congr_r r' r _ _ _ hr', ← neResidual_eq, hbne i h1 h2]; simp)
  intro j
  have := hd j
  simp only [one_mul] at this
  exact sub_eq_zero.1 this

/-- **C10.1c** (the excluded inputs, exactly).  For a definite order the only exception is
ParCorError, and it is raised iff some smaller order has a zero prediction error (the divisor
`inner(B, B)` of pass m+1 *is* the error of order m). -/
theorem levinson_raises_iff (r : List K) (p : Nat) :
    (∃ e, levinson r (some p) = .error e) ↔
      ∃ m, m < p ∧ ∃ a, levinson r (some m) = .ok (a, 0) := by
  have hc : ∀ m k, coef (zeroExt r m) k = coef (zeroExt r p) k := fun m k => by
    rw [coef_zeroExt, coef_zeroExt]
  constructor
  · rintro ⟨e, he⟩
    simp only [levinson] at he
    cases hA : levIter (zeroExt r p) p with
    | ok A => rw [hA] at he; cases he
    | error e' =>
      obtain ⟨_, m, hm, A, h1, h2⟩ := levIter_error hA
      refine ⟨m, hm, A, ?_⟩
      simp only [levinson, levIter_congr _ _ (hc m) m, h1]
      show Except.ok (A, inner (zeroExt r m) A A) = Except.ok (A, 0)
      rw [inner_congr _ _ A A (hc m), h2]
  · rintro ⟨m, hm, a, h⟩
    obtain ⟨h1, h2⟩ := levinson_some_ok h
    rw [levIter_congr _ _ (hc m) m] at h1
    rw [inner_congr _ _ a a (hc m)] at h2
    refine ⟨"ParCorError", ?_⟩
    simp only [levinson, levIter_error_of_zero h1 h2.symm hm]
    rfl

theorem levinson_raises_kind (r : List K) (p : Nat) (e : String)
    (h : levinson r (some p) = .error e) : e = "ParCorError" := by
  simp only [levinson] at h
  cases hA : levIter (zeroExt r p) p with
  | ok A => rw [hA] at h; cases h
  | error e' =>
    rw [hA] at h
    injection h with h
    subst h
    exact (levIter_error hA).1

/-- **C10.1d** (order update of the error).  `E_{p+1} = E_p − Δ²/E_p` with
`Δ = Σ_j a_j · r|p+1−j|` — the reported errors of successive orders are linked as the lattice
recursion says (`E_{p+1} = E_p·(1 − k²)`, `k = −Δ/E_p`). -/
theorem levinson_error_step (r : List K) (p : Nat) (a a' : List K) (e e' : K)
    (h : levinson r (some p) = .ok (a, e)) (h' : levinson r (some (p + 1)) = .ok (a', e')) :
    e' = e - (neResidual r a (p + 1) (p + 1)) ^ 2 / e := by
  have hc : ∀ k, coef (zeroExt r p) k = coef (zeroExt r (p + 1)) k := fun k => by
    rw [coef_zeroExt, coef_zeroExt]
  obtain ⟨h1, h2⟩ := levinson_some_ok h
  obtain ⟨h1', h2'⟩ := levinson_some_ok h'
  rw [levIter_congr _ _ hc] at h1
  rw [inner_congr _ _ a a hc] at h2
  simp only [levIter, h1] at h1'
  have := levStep_error (levIter_inv _ p a h1) h1'
  rw [h2', h2, this, neResidual_eq, Nf_congr_r r (zeroExt r (p + 1)) _ _ _ (fun k => (coef_zeroExt r (p + 1) k).symm)]

/-- **C10.1e** (matrix form of the docstring, ties `toeplitz` to `levinson_durbin`):
`R . a[1:] = −r[1:p+1]` with `R = toeplitz(r[:p])`. -/
theorem levinson_solves_toeplitz (r : List K) (order : Option Nat) (a : List K) (e : K)
    (h : levinson r order = .ok (a, e)) (i : Nat) (hi : i < orderOf r order) :
    sumL ((List.range (orderOf r order)).map fun j =>
      coef ((toeplitz ((zeroExt r (orderOf r order)).take (orderOf r order))).getD i []) j * coef a (j + 1))
      = - coef r (i + 1) := by
  set p := orderOf r order with hp
  have hyw := levinson_normal_eqs r order a e h
  have hlen : ((zeroExt r p).take p).length = p := by
    rw [List.length_take]; have := zeroExt_length r p; omega
  have hR : ∀ k, k < p → coef ((zeroExt r p).take p) k = coef r k := fun k hk => by
    rw [← coef_zeroExt r p k]
    simp [coef, List.getD_eq_getElem?_getD, hk]
  rw [sumL_map_range, ← yuleWalker_matrix_form r a p hyw _ hR i hi]
  refine Finset.sum_congr rfl fun j hj => ?_
  have hj' : j < p := by simpa using hj
  have := toeplitz_entry ((zeroExt r p).take p) j i (by omega) (by omega)
  unfold coef at this ⊢
  rw [this]

/-- non-vacuity: the recursion returns on a non-trivial lag vector, with the documented values
    (`levinson_durbin([1, 1/2, 1/4, 1/3], 3)`), and raises on a singular one -/
example : levinson [(1 : Rat), 1/2, 1/4, 1/3] (some 3) = .ok ([1, -1/2, 5/36, -5/18], 299/432) := by decide +kernel
example : levinson [(1 : Rat), 1/2, 1/4, 1/3] (some 2) = .ok ([1, -1/2], 3/4) := by decide +kernel
example : (299/432 : Rat) = 3/4 - (5/24) ^ 2 / (3/4) := by decide +kernel
example : levinson [(1 : Rat), 1, 1] (some 2) = .error "ParCorError" := by decide +kernel
example : levinson [(1 : Rat), 1, 1] (some 1) = .ok ([1, -1], 0) := by decide +kernel
example : levinson [(2 : Rat), 1] (some 3) = .ok ([1, -3/4, 1/2, -1/4], 5/4) := by decide +kernel

/-! ### lpc.kautocor -/

/-- **C10.3a** `lpc.kautocor(blk, order)`, when it returns, solves the Yule–Walker equations of
the block's autocorrelation `acorr(blk, order)`. -/
theorem kautocor_normal_eqs (blk : List K) (order : Option Nat) (a : List K) (e : K)
    (h : kautocor blk order = .ok (a, e)) :
    IsYuleWalker (acorr blk order) a (blkOrder blk order) := by
  have := levinson_normal_eqs (acorr blk order) order a e h
  cases order with
  | none => simpa [orderOf, blkOrder, acorr] using this
  | some p => simpa [orderOf, blkOrder] using this

/-- **C10.3b** its `error` attribute equals the energy of `a` convolved with the zero-extended
block, `Σ_{n < N+p} (Σ_j a_j x̃[n−j])²` (all orders, also `order ≥ len(blk)`). -/
theorem kautocor_energy (blk : List K) (order : Option Nat) (a : List K) (e : K)
    (h : kautocor blk order = .ok (a, e)) : e = energy a blk (blkOrder blk order) := by
  obtain ⟨r, hr, hinv, he⟩ := kautocor_ok h
  rw [he]
  exact inner_acorr_eq_energy blk r a _ hinv.len hr

/-- **C10.3c** (ordered field) and the returned filter minimises that energy among all monic
filters of order ≤ p. -/
theorem kautocor_minimises [LinearOrder K] [IsStrictOrderedRing K]
    (blk : List K) (order : Option Nat) (a : List K) (e : K)
    (h : kautocor blk order = .ok (a, e)) (b : List K) (hb0 : coef b 0 = 1)
    (hbl : b.length ≤ blkOrder blk order + 1) :
    energy a blk (blkOrder blk order) ≤ energy b blk (blkOrder blk order) := by
  obtain ⟨r, hr, hinv, _⟩ := kautocor_ok h
  unfold blkOrder at hbl ⊢
  rw [← inner_acorr_eq_energy blk r a _ hinv.len hr, ← inner_acorr_eq_energy blk r b _ hbl hr,
    inner_eq_bilT r a a _ hinv.len hinv.len, inner_eq_bilT r b b _ hbl hbl]
  exact bilT_minimal (coef blk) blk.length (fun n hn => coef_of_length_le blk n hn) r _ hr
    (coef a) (coef b) hinv.a0 hb0 hinv.ne

/-- non-vacuity: `lpc.kautocor([1,2,3,4,3,2], 2)` returns, with the values of the real code -/
example : kautocor [(1 : Rat), 2, 3, 4, 3, 2] (some 2) = .ok ([1, -38/27, 16/27], 55/9) := by decide +kernel
example : energy [(1 : Rat), -38/27, 16/27] [1, 2, 3, 4, 3, 2] 2 = 55/9 := by decide +kernel
example : energy [(1 : Rat), -1, 1/2] [1, 2, 3, 4, 3, 2] 2 = 43/4 ∧ (55/9 : Rat) ≤ 43/4 := by decide +kernel

/-- **C10.3e** (ordered field; "minimises", strictly).  Whenever `lpc.kautocor` returns — the
recursion met no zero divisor, i.e. the Toeplitz system is non-singular — the returned filter is the
ONLY minimiser: a monic filter of order ≤ p whose energy is not larger has the returned
coefficients. -/
theorem kautocor_minimiser_unique [LinearOrder K] [IsStrictOrderedRing K]
    (blk : List K) (order : Option Nat) (a : List K) (e : K)
    (h : kautocor blk order = .ok (a, e)) (b : List K) (hb0 : coef b 0 = 1)
    (hbl : b.length ≤ blkOrder blk order + 1)
    (hle : energy b blk (blkOrder blk order) ≤ energy a blk (blkOrder blk order)) :
    ∀ j, coef b j = coef a j := by
  obtain ⟨r, hr, hA⟩ := kautocor_ok_iter h
  have hinv := levIter_inv r _ a hA
  unfold blkOrder at hbl hle
  rw [← inner_acorr_eq_energy blk r a _ hinv.len hr, ← inner_acorr_eq_energy blk r b _ hbl hr,
    inner_eq_bilT r a a _ hinv.len hinv.len, inner_eq_bilT r b b _ hbl hbl] at hle
  exact bilT_minimiser_unique (coef blk) blk.length (fun n hn => coef_of_length_le blk n hn) r _ hr hA
    (coef b) hb0 (fun j hj => coef_of_length_le b j (by omega)) hle

/-- strict form: every other monic filter of order ≤ p has strictly larger energy -/
theorem kautocor_strict_minimum [LinearOrder K] [IsStrictOrderedRing K]
    (blk : List K) (order : Option Nat) (a : List K) (e : K)
    (h : kautocor blk order = .ok (a, e)) (b : List K) (hb0 : coef b 0 = 1)
    (hbl : b.length ≤ blkOrder blk order + 1) (hne : ∃ j, coef b j ≠ coef a j) :
    energy a blk (blkOrder blk order) < energy b blk (blkOrder blk order) := by
  by_contra hlt
  obtain ⟨j, hj⟩ := hne
  exact hj (kautocor_minimiser_unique blk order a e h b hb0 hbl (not_lt.1 hlt) j)

/-- non-vacuity: the competitor of the example above is strictly worse -/
example : kautocor [(1 : Rat), 2, 3, 4, 3, 2] (some 2) = .ok ([1, -38/27, 16/27], 55/9) ∧
    coef [(1 : Rat), -1, 1/2] 1 ≠ coef [(1 : Rat), -38/27, 16/27] 1 ∧
    energy [(1 : Rat), -38/27, 16/27] [1, 2, 3, 4, 3, 2] 2 < energy [(1 : Rat), -1, 1/2] [1, 2, 3, 4, 3, 2] 2 := by
  decide +kernel

/-! ### lpc.kcovar -/

/-- **C10.4a** `lpc.kcovar(blk, order)`, when it returns (no zero `beta`, no `|k| ≥ 1` exit —
whatever the exit test is), gives a monic filter of order ≤ p that satisfies the covariance
normal equations `Σ_j a_j · φ(i,j) = 0` (i = 1..p), `φ(i,j) = Σ_{n=p}^{N−1} x[n−i]·x[n−j]`. -/
theorem kcovar_normal_eqs (unstable : K → Bool) (blk : List K) (order : Option Nat) (a : List K)
    (e : K) (h : kcovarWith unstable blk order = .ok (a, e)) :
    IsCovarSol blk a (blkOrder blk order) := by
  obtain ⟨_, h1⟩ := kcovarWith_ok h
  obtain ⟨_, ha0, halen, horth, _⟩ := kcovarOn_ok (phiOf_lagTable_symm blk _) h1
  rw [lagTable_length] at halen horth
  refine ⟨ha0, halen, fun i hi1 hi2 => ?_⟩
  rw [← bil_lagTable_unit blk a _ i hi2]
  exact horth i hi1 (by omega)

/-- **C10.4b** and its `error` attribute equals the residual energy over n ≥ p,
`Σ_{n=p}^{N−1} (Σ_j a_j x[n−j])²`, which is also `Σ_j a_j · φ(0,j)`. -/
theorem kcovar_error (unstable : K → Bool) (blk : List K) (order : Option Nat) (a : List K)
    (e : K) (h : kcovarWith unstable blk order = .ok (a, e)) :
    e = covEnergy a blk (blkOrder blk order) ∧ e = covResidual blk a (blkOrder blk order) 0 := by
  obtain ⟨_, h1⟩ := kcovarWith_ok h
  obtain ⟨_, ha0, halen, horth, he⟩ := kcovarOn_ok (phiOf_lagTable_symm blk _) h1
  rw [lagTable_length] at halen horth
  refine ⟨by rw [he]; exact innerM_lagTable_self blk a _ halen, ?_⟩
  rw [he, innerM_eq_bil _ a a _ halen halen,
    bil_self_of_orth _ _ (by omega) _ ha0 horth, bil_lagTable_unit blk a _ 0 (by omega)]

/-- the same two clauses for `lpc.kcovar` itself (exit test `k >= 1 or k <= -1`) over an ordered
field -/
theorem kcovar_returns_solution [LinearOrder K] [IsStrictOrderedRing K]
    (blk : List K) (order : Option Nat) (a : List K) (e : K)
    (h : kcovar blk order = .ok (a, e)) :
    IsCovarSol blk a (blkOrder blk order) ∧ e = covEnergy a blk (blkOrder blk order) :=
  ⟨kcovar_normal_eqs _ blk order a e h, (kcovar_error _ blk order a e h).1⟩

/-- **C10.4c** (ordered field; beyond the property text) the returned filter minimises the
residual energy over n ≥ p among all monic filters of order ≤ p. -/
theorem kcovar_minimises [LinearOrder K] [IsStrictOrderedRing K] (unstable : K → Bool)
    (blk : List K) (order : Option Nat) (a : List K) (e : K)
    (h : kcovarWith unstable blk order = .ok (a, e)) (b : List K) (hb0 : coef b 0 = 1)
    (hbl : b.length ≤ blkOrder blk order + 1) :
    covEnergy a blk (blkOrder blk order) ≤ covEnergy b blk (blkOrder blk order) := by
  obtain ⟨_, h1⟩ := kcovarWith_ok h
  obtain ⟨_, ha0, halen, horth, _⟩ := kcovarOn_ok (phiOf_lagTable_symm blk _) h1
  rw [lagTable_length] at halen horth
  rw [← innerM_lagTable_self blk a _ halen, ← innerM_lagTable_self blk b _ hbl,
    innerM_eq_bil _ a a _ halen halen, innerM_eq_bil _ b b _ hbl hbl]
  exact bil_lagTable_minimal blk _ (coef a) (coef b) ha0 hb0 horth

/-- `lpc.kcovar` raises (ValueError from `lag_matrix`) when `order ≥ len(blk)` -/
theorem kcovar_order_too_large (unstable : K → Bool) (blk : List K) (L : Nat)
    (h : blk.length ≤ L) : kcovarWith unstable blk (some L) = .error "ValueError" := by
  simp [kcovarWith, lagMatrix, h, bind, Except.bind]

/-- non-vacuity: `lpc.kcovar([1,2,3,4,3,2,5,1], 2)` returns, with the values of the real code;
    the unstable exit and the zero division are reachable -/
example : kcovar [(1 : Rat), 2, 3, 4, 3, 2, 5, 1] (some 2) =
    .ok ([1, -33/577, -567/577], 9730/577) := by decide +kernel
example : covEnergy [(1 : Rat), -33/577, -567/577] [1, 2, 3, 4, 3, 2, 5, 1] 2 = 9730/577 := by
  decide +kernel
example : covEnergy [(1 : Rat), -1, 0] [1, 2, 3, 4, 3, 2, 5, 1] 2 = 29 ∧ (9730/577 : Rat) ≤ 29 := by
  decide +kernel
example : kcovar [(1 : Rat), 2, 3] (some 3) = .error "ValueError" := by decide +kernel
example : kcovar [(1 : Rat), 2, 4, 8] (some 1) = .error "ValueError" := by decide +kernel
example : kcovar [(0 : Rat), 0, 0, 0] (some 1) = .error "ZeroDivisionError" := by decide +kernel

/-! ### when `lpc.kcovar` does NOT return -/

/-- **C10.4d** (the exceptions of `lpc.kcovar(blk, order)`, `order` a natural number or None).
ValueError (`lag_matrix`: `order ≥ len(blk)`; or the `|k| ≥ 1` exit), ZeroDivisionError (line 326),
IndexError (order 0 / a block of length ≤ 1: `phi[1][1]`).  Nothing else: in particular the
unguarded divisions by `beta[q]` in `gamma` (line 337) never raise. -/
theorem kcovar_raises_kind (unstable : K → Bool) (blk : List K) (order : Option Nat) (e : String)
    (h : kcovarWith unstable blk order = .error e) :
    e = "ValueError" ∨ e = "ZeroDivisionError" ∨ (e = "IndexError" ∧ blkOrder blk order = 0) := by
  by_cases hlt : blkOrder blk order < blk.length
  · rw [kcovarWith_eq _ _ _ hlt] at h
    rcases kcovarOn_error_kind h with ⟨he, hl⟩ | he | he
    · rw [lagTable_length] at hl
      exact .inr (.inr ⟨he, by omega⟩)
    · exact .inr (.inl he)
    · exact .inl he
  · rcases kcovarWith_short unstable blk order (by omega) with ⟨h', _⟩ | ⟨h', ho, hb⟩
    · rw [h'] at h; injection h with h; exact .inl h.symm
    · rw [h'] at h; injection h with h
      subst ho; subst hb
      exact .inr (.inr ⟨h.symm, rfl⟩)

/-- **C10.4e** (ZeroDivisionError, exactly).  For `1 ≤ p < len(blk)`: `lpc.kcovar(blk, p)` raises
ZeroDivisionError iff the Gram–Schmidt loop as coded meets a zero `beta[m] = ⟨B_m, B_m⟩` at some
`m < p` (all earlier passes having completed: no zero `beta`, no `|k| ≥ 1` exit before). -/
theorem kcovar_zero_division_iff (unstable : K → Bool) (blk : List K) (p : Nat) (hp : 1 ≤ p)
    (hlen : p < blk.length) :
    kcovarWith unstable blk (some p) = .error "ZeroDivisionError" ↔
      ∃ m, m < p ∧ ∃ s, kcIter (lagTable blk p) unstable m = .ok s ∧ coef s.beta m = 0 := by
  rw [kcovarWith_eq unstable blk (some p) hlen]
  have h2 : 2 ≤ (lagTable blk p).length := by rw [lagTable_length]; omega
  have := kcovarOn_zeroDiv_iff (u := unstable) h2
  rw [lagTable_length] at this
  simpa [blkOrder] using this

/-- **C10.4f** (ordered field) ZeroDivisionError means a SINGULAR covariance system: a non-zero
combination of the delays 1..p annihilates the block on the whole window n = p..N−1 (the delayed
copies x[n−1..n−p] are linearly dependent there) -/
theorem kcovar_zero_division_singular [LinearOrder K] [IsStrictOrderedRing K] (unstable : K → Bool)
    (blk : List K) (order : Option Nat)
    (h : kcovarWith unstable blk order = .error "ZeroDivisionError") :
    ∃ b, CovDependent blk (blkOrder blk order) b := by
  by_cases hlt : blkOrder blk order < blk.length
  · rw [kcovarWith_eq _ _ _ hlt] at h
    set p := blkOrder blk order
    by_cases h2 : 2 ≤ (lagTable blk p).length
    · obtain ⟨m, hm, s, hs, hz⟩ := (kcovarOn_zeroDiv_iff h2).1 h
      rw [lagTable_length] at hm
      exact ⟨_, dependent_of_beta_zero (by omega) hs hz⟩
    · rcases kcovarOn_error_kind h with ⟨he, _⟩ | he | he
      · exact absurd he (by decide)
      · unfold kcovarOn at h
        simp only [show (lagTable blk p).length ≤ 1 by omega, if_true] at h
        exact absurd h (by simp)
      · exact absurd he (by decide)
  · rcases kcovarWith_short unstable blk order (by omega) with ⟨h', _⟩ | ⟨h', _, _⟩ <;>
      (rw [h'] at h; exact absurd h (by simp))

/-- **C10.4g** (any field) conversely a singular covariance system excludes a return: "when it
returns" of the property implies that the delayed copies of the block are linearly independent on
the window (the normal equations have exactly one solution). -/
theorem kcovar_returns_nonsingular (unstable : K → Bool) (blk : List K) (order : Option Nat)
    (a : List K) (e : K) (h : kcovarWith unstable blk order = .ok (a, e)) :
    ¬ ∃ b, CovDependent blk (blkOrder blk order) b := by
  rintro ⟨b, hb⟩
  obtain ⟨_, h1⟩ := kcovarWith_ok h
  obtain ⟨m, s, hm, hs, hne⟩ := kcovarOn_ok_betas h1
  rw [lagTable_length] at hm
  exact no_dependent_of_betas (by omega) hs hne b hb

/-- **C10.4h** (ordered field; beyond the property text) … and it is the ONLY minimiser: a returning
call means a non-singular covariance system (C10.4g), so a monic filter of order ≤ p whose residual
energy is not larger has the returned coefficients. -/
theorem kcovar_minimiser_unique [LinearOrder K] [IsStrictOrderedRing K] (unstable : K → Bool)
    (blk : List K) (order : Option Nat) (a : List K) (e : K)
    (h : kcovarWith unstable blk order = .ok (a, e)) (b : List K) (hb0 : coef b 0 = 1)
    (hbl : b.length ≤ blkOrder blk order + 1)
    (hle : covEnergy b blk (blkOrder blk order) ≤ covEnergy a blk (blkOrder blk order)) :
    ∀ j, coef b j = coef a j := by
  have hnd := kcovar_returns_nonsingular unstable blk order a e h
  obtain ⟨_, h1⟩ := kcovarWith_ok h
  obtain ⟨_, ha0, halen, horth, _⟩ := kcovarOn_ok (phiOf_lagTable_symm blk _) h1
  rw [lagTable_length] at halen horth
  rw [← innerM_lagTable_self blk a _ halen, ← innerM_lagTable_self blk b _ hbl,
    innerM_eq_bil _ a a _ halen halen, innerM_eq_bil _ b b _ hbl hbl] at hle
  exact bil_lagTable_minimiser_unique blk _ (coef a) (coef b) ha0 hb0
    (fun j hj => coef_of_length_le a j (by omega)) (fun j hj => coef_of_length_le b j (by omega))
    horth hnd hle

/-- non-vacuity: a singular system (x[n−2] = 2·x[n−1] on the window) raises
    ZeroDivisionError at the second pass; the witness annihilates the window -/
example : kcovar [(1 : Rat), 2, 4, 8, 16, 32] (some 2) = .error "ValueError" := by decide +kernel
example : kcovar [(4 : Rat), 2, 1, 1/2, 1/4, 1/8] (some 2) = .error "ZeroDivisionError" := by
  decide +kernel
example : (List.range 4).map (winOut [(0 : Rat), -2, 1] [4, 2, 1, 1/2, 1/4, 1/8] 2) = [0, 0, 0, 0] := by
  decide +kernel
example : kcovar [(0 : Rat), 0, 0, 0] (some 1) = .error "ZeroDivisionError" ∧
    (List.range 3).map (winOut [(0 : Rat), 1] [0, 0, 0, 0] 1) = [0, 0, 0] := by decide +kernel

/-! ### the call layer: defaults, spellings of `order` / `max_lag`, the StrategyDict -/

section defaults
variable {α : Type} [Add α] [Mul α] [OfNat α 0]

/-- **C10.5a** `acorr(blk)` = `acorr(blk, len(blk) − 1)`, whatever the block's contents (also when it
ends in zeros) -/
theorem acorr_default (blk : List α) (h : blk ≠ []) :
    acorr blk none = acorr blk (some (blk.length - 1)) := by
  have := List.length_pos_iff.2 h
  simp [acorr, show blk.length - 1 + 1 = blk.length by omega]

/-- **C10.5b** `lag_matrix(blk)` = `lag_matrix(blk, len(blk) − 1)` -/
theorem lagMatrix_default (blk : List α) (h : blk ≠ []) :
    lagMatrix blk none = lagMatrix blk (some (blk.length - 1)) := by
  have := List.length_pos_iff.2 h
  have h0 : blk.length ≠ 0 := by omega
  have h1 : ¬ blk.length - 1 ≥ blk.length := by omega
  simp [lagMatrix, h0, h1]

end defaults

/-- **C10.5c** `levinson_durbin(r)` = `levinson_durbin(r, len(r) − 1)` -/
theorem levinson_default (r : List K) (h : r ≠ []) :
    levinson r none = levinson r (some (r.length - 1)) := levinson_none_eq r h

/-- **C10.3d** `lpc.kautocor(blk, p)` IS `levinson_durbin(acorr(blk, p), p)` … -/
theorem kautocor_eq_levinson_acorr (blk : List K) (order : Option Nat) :
    kautocor blk order = levinson (acorr blk order) order := rfl

/-- … and the default order is `len(blk) − 1` on both layers -/
theorem kautocor_default (blk : List K) (h : blk ≠ []) :
    kautocor blk none = kautocor blk (some (blk.length - 1)) := by
  have hl := List.length_pos_iff.2 h
  have hr : acorr blk (some (blk.length - 1)) ≠ [] := by
    intro h0
    have := congrArg List.length h0
    simp [acorr] at this
  rw [kautocor_eq_levinson_acorr, kautocor_eq_levinson_acorr, acorr_default blk h,
    levinson_default _ hr]
  congr 2
  simp [acorr]

theorem kcovar_default (unstable : K → Bool) (blk : List K) (h : blk ≠ []) :
    kcovarWith unstable blk none = kcovarWith unstable blk (some (blk.length - 1)) := by
  unfold kcovarWith
  rw [lagMatrix_default blk h]

/-- **C10.5d** (every spelling of the order).  `levinson_durbin(r, order)` called with the order
omitted, `None`, an int of any sign (a bool), or a non-int number: when it returns, the filter
solves the normal equations of the order `callOrder` (the int, 0 for a negative one, `len − 1` by
default) with the true error; a non-int never returns. -/
theorem levinsonCall_spec (r : List K) (o : OrdArg) (a : List K) (e : K)
    (h : levinsonCall r o = .ok (a, e)) :
    IsYuleWalker r a (callOrder r.length o) ∧ e = predError r a (callOrder r.length o) := by
  have key : levinson r o.toOption = .ok (a, e) ∧ orderOf r o.toOption = callOrder r.length o := by
    cases o with
    | omitted => exact ⟨h, rfl⟩
    | none => exact ⟨h, rfl⟩
    | int i =>
      have hr : 0 ≤ i ∨ r ≠ [] := by
        by_cases hi : i < 0
        · right; rintro rfl
          simp [levinsonCall, hi] at h
        · left; omega
      rw [levinsonCall_int r i hr] at h
      exact ⟨h, rfl⟩
    | real q fl => simp only [levinsonCall] at h; split at h <;> cases h
  rw [← key.2]
  exact ⟨levinson_normal_eqs r _ a e key.1, levinson_error r _ a e key.1⟩

/-- a negative order is order 0 on a non-empty lag list: `A = 1`, `error = r[0]` -/
theorem levinsonCall_negative (r : List K) (i : Int) (hi : i < 0) (hr : r ≠ []) :
    levinsonCall r (.int i) = .ok ([1], coef r 0) := by
  have hl : r.length ≠ 0 := fun h0 => hr (List.length_eq_zero_iff.1 h0)
  simp only [levinsonCall, hi, if_true, hl, if_false]
  congr 2
  rw [inner_eq_sum]
  simp [coef, adiff]

/-- the exceptions of a `levinson_durbin` call: ParCorError (a zero prediction error of a smaller
order), IndexError (empty lag list with a default / negative order), TypeError (non-int order; a
Fraction ≥ len(r) gives ValueError instead: `Stream.take` hands it to `islice`) -/
theorem levinsonCall_raises_kind (r : List K) (o : OrdArg) (e : String)
    (h : levinsonCall r o = .error e) :
    e = "ParCorError" ∨ (e = "IndexError" ∧ r = []) ∨
      ((e = "TypeError" ∨ e = "ValueError") ∧ ∃ q fl, o = .real q fl) := by
  have hnone : levinson r none = .error e →
      e = "ParCorError" ∨ (e = "IndexError" ∧ r = []) ∨
        ((e = "TypeError" ∨ e = "ValueError") ∧ ∃ q fl, o = .real q fl) := by
    intro h
    by_cases hr : r = []
    · subst hr
      simp [levinson] at h
      exact .inr (.inl ⟨h.symm, rfl⟩)
    · rw [levinson_default r hr] at h
      exact .inl (levinson_raises_kind r _ e h)
  cases o with
  | omitted => exact hnone h
  | none => exact hnone h
  | int i =>
    by_cases hi : i < 0
    · by_cases hr : r = []
      · subst hr
        simp [levinsonCall, hi] at h
        exact .inr (.inl ⟨h.symm, rfl⟩)
      · rw [levinsonCall_negative r i hi hr] at h; cases h
    · rw [levinsonCall_int r i (.inl (by omega))] at h
      exact .inl (levinson_raises_kind r _ e h)
  | real q fl =>
    simp only [levinsonCall] at h
    split at h <;> injection h with h
    · exact .inr (.inr ⟨.inr h.symm, q, fl, rfl⟩)
    · exact .inr (.inr ⟨.inl h.symm, q, fl, rfl⟩)

/-- **C10.5e** `lpc.kautocor(blk, order)` for every spelling of the order: normal equations of
`acorr(blk, order)`, `error` = energy of `a` convolved with the zero-extended block. -/
theorem kautocorCall_spec (blk : List K) (o : OrdArg) (a : List K) (e : K)
    (h : kautocorCall blk o = .ok (a, e)) :
    IsYuleWalker (acorr blk o.toOption) a (callOrder blk.length o) ∧
      e = energy a blk (callOrder blk.length o) := by
  obtain ⟨h1, h2⟩ := kautocorCall_ok h
  rw [← h2]
  exact ⟨kautocor_normal_eqs blk _ a e h1, kautocor_energy blk _ a e h1⟩

/-- **C10.5f** `lpc.kcovar(blk, order)` for every spelling of the order -/
theorem kcovarCall_spec (unstable : K → Bool) (blk : List K) (o : OrdArg) (a : List K) (e : K)
    (h : kcovarCallWith unstable blk o = .ok (a, e)) :
    IsCovarSol blk a (callOrder blk.length o) ∧ e = covEnergy a blk (callOrder blk.length o) := by
  obtain ⟨h1, h2⟩ := kcovarCallWith_ok h
  rw [← h2]
  exact ⟨kcovar_normal_eqs unstable blk _ a e h1, (kcovar_error unstable blk _ a e h1).1⟩

/-- samples without an order (complex): `lpc.kcovar` never returns (`k >= 1` raises TypeError) -/
theorem kcovarCallNoOrder_never_returns (blk : List K) (o : OrdArg) (x : List K × K) :
    kcovarCallNoOrder blk o ≠ .ok x := by
  intro h
  unfold kcovarCallNoOrder at h
  cases hphi : lagMatrixCall blk o with
  | error e' => simp [hphi, bind, Except.bind] at h
  | ok phi =>
    simp only [hphi, bind, Except.bind] at h
    cases hk : kcovarOn phi (fun _ => true) with
    | error e' => rw [hk] at h; dsimp only at h; split at h <;> cases h
    | ok y => exact kcovarOn_const_true y hk

/-- **C10.5g** the default strategy `lpc(blk, order)`: with an int order ≥ 100 on which
`lpc.kautocor` returns, it IS `lpc.kautocor` (whatever numpy would do) … -/
theorem lpcAutocor_ge_100 (np : Strat → List K → OrdArg → Except String (List K × K)) (blk : List K)
    (i : Int) (hi : 100 ≤ i) (x : List K × K) (hk : kautocorCall blk (.int i) = .ok x) :
    lpcAutocor np blk (.int i) = .ok x := by
  have : ¬ i < 100 := by omega
  simp [lpcAutocor, below100, this, hk, bind, Except.bind]

/-- … below 100, and on ParCorError, it is the numpy strategy; with the order left to its documented
default `None` it raises TypeError (`None < 100`, Python 3). -/
theorem lpcAutocor_lt_100 (np : Strat → List K → OrdArg → Except String (List K × K)) (blk : List K)
    (i : Int) (hi : i < 100) : lpcAutocor np blk (.int i) = np .nautocor blk (.int i) := by
  simp [lpcAutocor, below100, hi, bind, Except.bind]

theorem lpcAutocor_parcor (np : Strat → List K → OrdArg → Except String (List K × K)) (blk : List K)
    (i : Int) (hi : 100 ≤ i) (hk : kautocorCall blk (.int i) = .error "ParCorError") :
    lpcAutocor np blk (.int i) = np .nautocor blk (.int i) := by
  have : ¬ i < 100 := by omega
  simp [lpcAutocor, below100, this, hk, bind, Except.bind]

theorem lpcAutocor_default (np : Strat → List K → OrdArg → Except String (List K × K)) (blk : List K) :
    lpcAutocor np blk .omitted = .error "TypeError" ∧ lpcAutocor np blk .none = .error "TypeError" := by
  simp [lpcAutocor, below100, bind, Except.bind]

/-- without numpy, a returning `lpc.<strategy>(blk, order)` call is `lpc.kautocor` or `lpc.kcovar`
    (ordered field) -/
theorem lpcCall_noNumpy_ok [LinearOrder K] [IsStrictOrderedRing K] (s : Strat) (blk : List K)
    (o : OrdArg) (x : List K × K) (h : lpcCall noNumpy s blk o = .ok x) :
    (s = .kcovar ∧ kcovarCall blk o = .ok x) ∨
    ((s = .kautocor ∨ s = .autocor) ∧ kautocorCall blk o = .ok x) := by
  cases s with
  | kcovar => exact .inl ⟨rfl, h⟩
  | kautocor => exact .inr ⟨.inl rfl, h⟩
  | nautocor => simp [lpcCall, noNumpy] at h
  | covar => simp [lpcCall, noNumpy] at h
  | autocor =>
    refine .inr ⟨.inr rfl, ?_⟩
    simp only [lpcCall, lpcAutocor, noNumpy] at h
    cases hb : below100 o with
    | error e' => simp [hb, bind, Except.bind] at h
    | ok b =>
      simp only [hb, bind, Except.bind] at h
      cases b with
      | true => simp at h
      | false =>
        simp only [Bool.false_eq_true, if_false] at h
        cases hk : kautocorCall blk o with
        | error e' => rw [hk] at h; dsimp only at h; split at h <;> cases h
        | ok y => rw [hk] at h; exact h

/-- the strategy names of the decorators (the first registered strategy is the default) -/
theorem strategy_names :
    defaultStrategy = .autocor ∧
    ["kautocor", "kacorr", "kautocorrelation", "kauto_correlation"].map strategyOf =
      List.replicate 4 (some .kautocor) ∧
    ["kcovar", "kcov", "kcovariance"].map strategyOf = List.replicate 3 (some .kcovar) ∧
    ["autocor", "acorr", "autocorrelation", "auto_correlation"].map strategyOf =
      List.replicate 4 (some .autocor) ∧
    ["nautocor", "nacorr", "nautocorrelation", "nauto_correlation"].map strategyOf =
      List.replicate 4 (some .nautocor) ∧
    ["covar", "cov", "covariance", "ncovar", "ncov", "ncovariance"].map strategyOf =
      List.replicate 6 (some .covar) ∧
    strategyOf "levinson" = none := by decide

/-- non-vacuity of the call layer -/
example : levinsonCall [(4 : Rat), 2, 1] (.int (-5)) = .ok ([1], 4) := by decide +kernel
example : levinsonCall [(4 : Rat), 2, 1] .omitted = levinsonCall [(4 : Rat), 2, 1] (.int 2) := by
  decide +kernel
example : levinsonCall ([] : List Rat) (.int (-1)) = .error "IndexError" := by decide +kernel
example : levinsonCall [(4 : Rat), 2, 1] (.real 2 true) = .error "TypeError" ∧
    levinsonCall [(4 : Rat), 2, 1] (.real 3 true) = .error "TypeError" ∧
    levinsonCall [(4 : Rat), 2, 1] (.real 3 false) = .error "ValueError" := by decide +kernel
example : kautocorCall [(1 : Rat), 2, 3] (.int 1) = .ok ([1, -4/7], 66/7) := by decide +kernel
example : kautocorCall [(1 : Rat), 2, 3] (.int (-1)) = .error "IndexError" := by decide +kernel
example : lagMatrixCall [(1 : Rat), 2, 3] (.real 3 true) = .error "ValueError" ∧
    lagMatrixCall [(1 : Rat), 2, 3] (.real 2 false) = .error "TypeError" ∧
    lagMatrixCall [(1 : Rat), 2, 3] (.int (-2)) = .ok [] := by decide +kernel
example : lpcCall noNumpy .autocor [(0 : Rat), 0] (.int 100) = .error "ModuleNotFoundError" ∧
    kautocorCall [(0 : Rat), 0] (.int 100) = .error "ParCorError" := by decide +kernel
example : lpcCall noNumpy .autocor [(1 : Rat), 2] (.int 5) = .error "ModuleNotFoundError" := by
  decide +kernel

/-- the canonical name of a strategy selects it -/
theorem strategyOf_name (s : Strat) : strategyOf s.name = some s := by cases s <;> decide

/-! ### the float regime: the run twin IS the model

`Model/C10Float.lean` repeats the model with Python's builtin `sum` as a parameter `S`; the driver
runs it on binary64 bit patterns (`F64`) with `S = sumN`, CPython's compensated float loop, and
compares numerator, error, tables and exception kinds with the implementation BIT FOR BIT (entry
`f64`).  Trusted there: Lean's `Float` `+ - * /`, `abs`, comparisons are the IEEE-754 binary64
operations CPython performs; the reading of `builtin_sum_impl` as `sumN` (tied by the extra check
`float-twin-sum-is-cpython-sum`); the operation order of `Poly` / `ZFilter` arithmetic read from the
sources (header of `Model/C10Float.lean`). -/

section twin
variable {α : Type} [Add α] [Mul α] [Sub α] [Neg α] [Div α] [OfNat α 0] [OfNat α 1] [DecidableEq α]

/-- **C10.6a** (any carrier — `Rat`, a field, `F64`; no law of arithmetic): with the left fold for
`sum` the parameterised definitions ARE the model of the theorems above. -/
theorem twin_plain_is_model (unstable : α → Bool) (l : List α) (o : Option Nat) :
    acorrS sumL l o = acorr l o ∧ lagMatrixS sumL l o = lagMatrix l o ∧
    levinsonS sumL l o = levinson l o ∧ kautocorS sumL l o = kautocor l o ∧
    kcovarWithS sumL unstable l o = kcovarWith unstable l o :=
  ⟨acorrS_sumL l o, lagMatrixS_sumL l o, levinsonS_sumL l o, kautocorS_sumL l o,
    kcovarWithS_sumL unstable l o⟩

end twin

/-- **C10.6b** CPython's compensated float `sum` over exact operations (any ring) is the plain sum,
whatever `fabs(f) >= fabs(x)` and `isfinite` answer: the correction term stays zero. -/
theorem sumN_exact_is_sum {R : Type} [Ring R] [DecidableEq R] (ge : R → R → Bool) (fin : R → Bool)
    (l : List R) : sumN ge fin l = sumL l := sumN_exact ge fin l

/-- **C10.6c** (any field) the twin that is run — `sum` = the compensated loop — over exact
operations is the model: every theorem of this file speaks about the definitions the driver
evaluates on binary64 numbers. -/
theorem twin_exact_is_model (ge : K → K → Bool) (fin : K → Bool) (unstable : K → Bool) (l : List K)
    (o : Option Nat) :
    acorrS (sumN ge fin) l o = acorr l o ∧ lagMatrixS (sumN ge fin) l o = lagMatrix l o ∧
    levinsonS (sumN ge fin) l o = levinson l o ∧ kautocorS (sumN ge fin) l o = kautocor l o ∧
    kcovarWithS (sumN ge fin) unstable l o = kcovarWith unstable l o := by
  rw [sumN_exact_fun ge fin]
  exact twin_plain_is_model unstable l o

/-- **C10.6d** hence the property for the twin over exact operations: normal equations, true error,
uniqueness. -/
theorem twin_levinson_spec (ge : K → K → Bool) (fin : K → Bool) (r : List K) (order : Option Nat)
    (a : List K) (e : K) (h : levinsonS (sumN ge fin) r order = .ok (a, e)) :
    IsYuleWalker r a (orderOf r order) ∧ e = predError r a (orderOf r order) := by
  rw [(twin_exact_is_model ge fin (fun _ => false) r order).2.2.1] at h
  exact ⟨levinson_normal_eqs r order a e h, levinson_error r order a e h⟩

/-- the binary64 instantiations the driver runs are these definitions at `F64` with CPython's
`sum`; `levinsonF64Plain` is the model itself at `F64` -/
theorem twin_f64_defs (l : List ALV.C11.F64) (o : Option Nat) :
    acorrF64 l o = acorrS (sumN f64AbsGe ALV.C11.F64.isFinite) l o ∧
    lagMatrixF64 l o = lagMatrixS (sumN f64AbsGe ALV.C11.F64.isFinite) l o ∧
    levinsonF64 l o = levinsonS (sumN f64AbsGe ALV.C11.F64.isFinite) l o ∧
    kautocorF64 l o = kautocorS (sumN f64AbsGe ALV.C11.F64.isFinite) l o ∧
    kcovarF64 l o = kcovarWithS (sumN f64AbsGe ALV.C11.F64.isFinite) unstableF64 l o ∧
    levinsonF64Plain l o = levinsonS sumL l o :=
  ⟨rfl, rfl, rfl, rfl, rfl, (levinsonS_sumL l o).symm⟩

/-- how the driver reads a binary64 input: the bit pattern, `-0.0` stored as `+0.0` (serialisation) -/
theorem twin_f64_input (b : UInt64) :
    ALV.C11.F64.ofBits b = ALV.C11.F64.ofFloat (Float.ofBits b) := rfl

/-- non-vacuity: the compensated loop on rationals, with a genuine magnitude test, runs the
    documented example to the documented values -/
example : levinsonS (sumN (fun a b : Rat => decide (b * b ≤ a * a)) (fun _ => true))
    [(1 : Rat), 1/2, 1/4, 1/3] (some 3) = .ok ([1, -1/2, 5/36, -5/18], 299/432) := by decide +kernel
example : sumN (fun a b : Rat => decide (b * b ≤ a * a)) (fun _ => true) [(1 : Rat), 1/3, -7/5] =
    sumL [(1 : Rat), 1/3, -7/5] := by decide +kernel

/-! ### complex samples: the executable Gaussian rationals of the driver are a field -/

/-- the theorems above hold for the Gaussian rationals the driver computes with (`Field GRat`:
`Lemmas/C12Gauss.lean`); its division is multiplication by `conj x / |x|²` -/
theorem levinson_gauss (r : List ALV.C12.GRat) (order : Option Nat) (a : List ALV.C12.GRat)
    (e : ALV.C12.GRat) (h : levinson r order = .ok (a, e)) :
    IsYuleWalker r a (orderOf r order) ∧ e = predError r a (orderOf r order) :=
  ⟨levinson_normal_eqs r order a e h, levinson_error r order a e h⟩

theorem gauss_inv (x : ALV.C12.GRat) :
    (ALV.C12.GRat.inv x).re = x.re / (x.re * x.re + x.im * x.im) ∧
    (ALV.C12.GRat.inv x).im = -x.im / (x.re * x.re + x.im * x.im) := ⟨rfl, rfl⟩

example : levinson [(⟨2, 1⟩ : ALV.C12.GRat), ⟨0, 1⟩] (some 1) = .ok ([1, ⟨-1/5, -2/5⟩], ⟨12/5, 4/5⟩) := by
  decide +kernel

/-! ### The model IS the source: definitions regenerated from the text of the repo (translator)

`ALV.Gen.C10.*` is rewritten by `harness/props/c10_tr.py` from `audiolazy/lazy_analysis.py` and
`audiolazy/lazy_lpc.py` before every build; each theorem below says that what the source says NOW is the
model function every other theorem of this file is about.  An argument `order` / `max_lag` is `None` or a
natural number here (other spellings: call layer, `Model/C10Call`). -/
section source
variable {α : Type} [Add α] [Mul α] [Sub α] [Neg α] [Div α] [OfNat α 0] [OfNat α 1]

/-- `acorr` as written in lazy_analysis.py is the model `acorr`. -/
theorem src_acorr_is_model (blk : List α) (lag : Option Nat) :
    ALV.Gen.C10.acorr blk (lag.map Int.ofNat) = acorr blk lag := Src.src_acorr_is_model blk lag

/-- `lag_matrix` as written (with its ValueError exit) is the model `lagMatrix`. -/
theorem src_lag_matrix_is_model (blk : List α) (lag : Option Nat) :
    ALV.Gen.C10.lag_matrix blk (lag.map Int.ofNat) = lagMatrix blk lag := Src.src_lag_matrix_is_model blk lag

/-- `toeplitz` as written is the model `toeplitz`. -/
theorem src_toeplitz_is_model (vect : List α) : ALV.Gen.C10.toeplitz vect = toeplitz vect :=
  Src.src_toeplitz_is_model vect

variable [DecidableEq α]

/-- the closure `inner` of `levinson_durbin` as written is the model `inner`. -/
theorem src_levinson_inner_is_model (r a b : List α) :
    ALV.Gen.C10.levinson_durbin_inner r a b = inner r a b := Src.src_levinson_inner_is_model r a b

/-- `levinson_durbin` as written (default order, zero extension, the `for m` loop under
    `except ZeroDivisionError: raise ParCorError`, the error attribute) is the model `levinson`.
    The one exit outside the expression language is the IndexError of `acdata[0]` on an empty list with
    the default order, which the model has by hand. -/
theorem src_levinson_durbin_is_model (r : List α) (order : Option Nat) (h : order = none → r ≠ []) :
    ALV.Gen.C10.levinson_durbin r (order.map Int.ofNat) = levinson r order :=
  Src.src_levinson_is_model r order h

/-- `lpc.kautocor` as written is the model `kautocor`. -/
theorem src_kautocor_is_model (blk : List α) (order : Option Nat) (h : order = none → blk ≠ []) :
    ALV.Gen.C10.lpc_kautocor blk (order.map Int.ofNat) = kautocor blk order :=
  Src.src_kautocor_is_model blk order h

/-- the closure `inner` of `lpc.kcovar` as written is the model `innerM`. -/
theorem src_kcovar_inner_is_model (phi : List (List α)) (a b : List α) :
    ALV.Gen.C10.lpc_kcovar_inner phi a b = innerM phi a b := Src.src_kcovar_inner_is_model phi a b

/-- `lpc.kcovar` as written - `lag_matrix`, the initial `A`, `B`, `beta`, the `while True` loop with its three exits
    (ZeroDivisionError of `/ beta[m - 1]` and of the `gamma` comprehension, ValueError of the stability test, the
    return at `m >= order`), emitted as a recursion on a fuel of `order - m + 1` passes - is the model `kcovar`; the
    two comparisons of the stability test are the emitted `lpc_kcovar_cmp0` (`k >= 1`) and `lpc_kcovar_cmp1`
    (`k <= -1`).  Hypothesis: the lag table has at least 2 rows (order >= 1); below that the source raises the
    IndexError of `phi[0][1]`, which is outside the expression language and which the model has by hand. -/
theorem src_kcovar_is_model [LE α] [DecidableRel (α := α) (· ≤ ·)] (blk : List α) (order : Option Nat)
    (h : ∀ phi, lagMatrix blk order = .ok phi → 2 ≤ phi.length) :
    ALV.Gen.C10.lpc_kcovar ALV.Gen.C10.lpc_kcovar_cmp0 ALV.Gen.C10.lpc_kcovar_cmp1 blk (order.map Int.ofNat)
      = kcovar blk order := Src.src_kcovar_is_model blk order h

/-- the names registered by the `@lpc.strategy(...)` decorators, in source order, are the model's table. -/
theorem src_strategy_names_is_model : ALV.Gen.C10.strategyNames = strategyNames.map (·.2) :=
  Src.src_strategy_names

/-- non-vacuity: the regenerated definitions run (docstring example of levinson_durbin) -/
example : ALV.Gen.C10.levinson_durbin [(12 : Rat), 6, 0, -3] (some 3) = .ok ([1, -5/8, 1/4, 1/8], 63/8) := by
  decide +kernel
example : ∀ phi, lagMatrix [(1 : Rat), 2, 4, 3, 1] (some 2) = .ok phi → 2 ≤ phi.length := by
  intro phi h; simp [lagMatrix] at h; subst h; simp [lagTable]
example : ALV.Gen.C10.acorr [(1 : Rat), 2, 3, 4, 3, 4, 2] none = [59, 52, 42, 30, 17, 8, 2] := by decide +kernel
end source

end ALV.Props.C10

#write_audit "C10"
