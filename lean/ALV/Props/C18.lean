/-
  C18 — property theorems (PCM byte codecs).  Only statements of the property, non-vacuity
  examples and the audit live here; helper lemmas are in `ALV.Lemmas.C18*`.
-/
import ALV.Lemmas.C18
import ALV.Common.Audit

namespace ALV.Props.C18
open ALV.C18

/-- **C18.1** `struct.unpack(fmt, struct.pack(fmt, v)) = v` on the FULL signed range of every
width `w ≥ 1` (b, h, i are w = 1, 2, 4; the WAV 24-bit width is w = 3), both byte orders. -/
theorem unpack_pack_int (w : Nat) (hw : 0 < w) (o : Order) (v : Int) (h : inRange w v) :
    ∃ bs, packInt w o v = .ok bs ∧ bs.length = w ∧ unpackInt w o bs = some v := by
  refine ⟨orderBytes o (leBytes w v), ?_, ?_, unpackInt_orderBytes_leBytes w hw o v h⟩
  · simp [packInt, packIntLE, h, Except.map]
  · rw [orderBytes_length, leBytes_length]

example : packInt 2 .big (-2) = .ok [0xFF, 0xFE] := by rfl
example : inRange 2 (-32768) ∧ inRange 2 32767 ∧ ¬ inRange 2 32768 := by decide

end ALV.Props.C18

#write_audit "C18"
