/-
  C18 — property theorems (PCM byte codecs are exact: chunk packing and WAV sample decoding).
  Only statements of the property, non-vacuity examples and the audit live here; helper lemmas
  are in `ALV.Lemmas.C18` (codecs), `C18Chunks` (both chunk strategies refine the spec),
  `C18Wav` (reader chain, laziness), `C18Round` (round trip), `C18Norm` (range, Mathlib order),
  `C18Src` (the definitions regenerated from the source by `harness/props/c18_tr.py` are the model).

  Quantifiers: every width `w ≥ 1`, both byte orders, every machine order, every chunk size ≥ 1,
  every sequence length, every item type / element encoder (so b h i f d alike), every sample
  list, both channel counts, all four WAV widths, `keep` or not, any number `k` of `next()` calls.
-/
import ALV.Lemmas.C18Round
import ALV.Lemmas.C18Norm
import ALV.Lemmas.C18Surj
import ALV.Lemmas.C18Res
import ALV.Model.C18Riff
import ALV.Lemmas.C18Riff
import ALV.Lemmas.C18Call
import ALV.Lemmas.C18Src
import ALV.Common.Audit

namespace ALV.Props.C18
open ALV.C18
variable {α ε : Type}

/-! ## integer codecs -/

/-- **C18.1** `struct.unpack(fmt, struct.pack(fmt, v)) = v` on the FULL signed range of every
width `w ≥ 1` (b, h, i are w = 1, 2, 4; the WAV 24-bit width is w = 3), both byte orders. -/
theorem unpack_pack_int (w : Nat) (hw : 0 < w) (o : Order) (v : Int) (h : inRange w v) :
    ∃ bs, packInt w o v = .ok bs ∧ bs.length = w ∧ unpackInt w o bs = some v := by
  refine ⟨orderBytes o (leBytes w v), ?_, ?_, unpackInt_orderBytes_leBytes w hw o v h⟩
  · simp [packInt, packIntLE, h, Except.map]
  · rw [orderBytes_length, leBytes_length]

example : packInt 2 .big (-2) = .ok [0xFF, 0xFE] := by rfl
example : inRange 2 (-32768) ∧ inRange 2 32767 ∧ ¬ inRange 2 32768 := by decide

/-- **C18.2** the packed bytes are the two's-complement image of the spec: byte `k` (from the
least significant end) is `⌊v / 256^k⌋ mod 256`; a value outside the range is refused. -/
theorem pack_int_eq_twos (w : Nat) (o : Order) (v : Int) :
    packInt w o v = if inRange w v then .ok (twos w o v) else .error .range := by
  unfold packInt packIntLE
  by_cases h : inRange w v
  · rw [if_pos h, if_pos h, leBytes_eq_twosLE]; cases o <;> rfl
  · rw [if_neg h, if_neg h]; rfl

/-- **C18.3** whatever an integer unpacker returns lies in the signed range of its width. -/
theorem unpack_int_range (w : Nat) (hw : 0 < w) (o : Order) (bs : Bytes) (n : Int)
    (h : unpackInt w o bs = some n) : inRange w n :=
  unpackInt_range w hw o bs n h

example : unpackInt 2 .little [0x00, 0x80] = some (-32768) := by decide

/-! ## WavStream -/

/-- **C18.4** 24-bit path: the zero-prefixed little-endian 32-bit read shifted right by 8 is the
sign-extended 24-bit number, for EVERY three-byte string; any other length is `struct.error`. -/
theorem unpack24_sign_extends (bs : Bytes) :
    unpack24 bs = if bs.length = 3 then .ok (toSigned 24 (leValue bs)) else .error .structLen := by
  by_cases h : bs.length = 3
  · rw [if_pos h, unpack24_eq bs h]
  · rw [if_neg h, unpack24_wrong_length bs h]

example : unpack24 [0x00, 0x00, 0x80] = .ok (-8388608) := by decide
example : unpack24 [0xFF, 0xFF, 0xFF] = .ok (-1) := by decide

/-- **C18.5** each of the four unpackers returns exactly the stored integer (unsigned for 8 bit,
signed otherwise) on the whole stored range. -/
theorem unpackers_exact (bits : Nat) (hb : bits = 8 ∨ bits = 16 ∨ bits = 24 ∨ bits = 32) (n : Int)
    (hs : stored bits n) : ∃ up, unpacker bits = some up ∧ up (pcmSample bits n) = .ok n :=
  unpacker_pcm bits hb n hs

example : stored 8 255 ∧ stored 24 (-8388608) ∧ ¬ stored 24 8388608 := by decide

section field
variable {K : Type} [IntCast K] [Div K]

/-- **C18.6** `WavStream` over the PCM file holding the integers `samples` (mono or stereo,
8/16/24/32 bit, any length) yields — read to its end, without error — exactly those integers
with `keep`, and otherwise those integers (8 bit: minus 128) divided by `2^(bits−1)`; channels
stay interleaved in file order; `rate`, `channels`, `bits` mirror the header. -/
theorem wavstream_yields_stored (bits : Nat) (hb : bits = 8 ∨ bits = 16 ∨ bits = 24 ∨ bits = 32)
    (channels : Nat) (hc : channels = 1 ∨ channels = 2) (rate : Nat) (keep : Bool)
    (samples : List Int) (hst : ∀ n ∈ samples, stored bits n) (hlen : channels ∣ samples.length) :
    let o : WavObs K := wavStream ⟨channels, bits / 8, rate, pcmData bits samples⟩ keep
    o.gen = ⟨wavSpec bits keep samples, none⟩ ∧ o.rate = rate ∧ o.channels = channels ∧ o.bits = bits := by
  have hbits : 8 * (bits / 8) = bits := by rcases hb with rfl | rfl | rfl | rfl <;> rfl
  have hw : 0 < bits / 8 := by rcases hb with rfl | rfl | rfl | rfl <;> decide
  refine ⟨?_, rfl, rfl, hbits⟩
  simp only [wavStream, hbits]
  have hsr : sampleReader channels (bits / 8) (blockReader (bits / 8 * channels) (pcmData bits samples)) =
      samples.map (pcmSample bits) := by
    rcases hc with rfl | rfl
    · exact sampleReader_mono bits hw samples
    · obtain ⟨k, hk⟩ := hlen
      exact sampleReader_stereo bits hw k samples hk
  rw [hsr]
  exact dataGenerator_pcm bits hb keep samples hst

/-- **C18.6b** the same for ANY data chunk made of whole frames (every byte content): the stream
yields the integers stored in the successive `bits/8`-byte groups (`storedValue`: Σ b_k·256^k,
unsigned for 8 bit, sign-extended otherwise), so the quantifier of C18.6 covers every
well-formed PCM file. -/
theorem wavstream_any_file (bits : Nat) (hb : bits = 8 ∨ bits = 16 ∨ bits = 24 ∨ bits = 32)
    (channels : Nat) (hc : channels = 1 ∨ channels = 2) (rate : Nat) (keep : Bool)
    (data : Bytes) (frames : Nat) (hd : data.length = frames * channels * (bits / 8)) :
    (wavStream ⟨channels, bits / 8, rate, data⟩ keep : WavObs K).gen
      = ⟨wavSpec bits keep ((splitEvery (bits / 8) data).map (storedValue bits)), none⟩ := by
  obtain ⟨hk, hst, hp⟩ := pcmData_decode bits hb (frames * channels) data hd
  have h := (wavstream_yields_stored (K := K) bits hb channels hc rate keep _ hst
    (by rw [hk]; exact Nat.dvd_mul_left _ _)).1
  rw [hp] at h
  exact h

end field

/-- non-vacuity: the hypotheses hold for a stereo 24-bit file with both extremes -/
example : (wavStream ⟨2, 24 / 8, 8000, pcmData 24 [-8388608, 8388607, 1, -1]⟩ true : WavObs Rat).gen
    = ⟨[.raw (-8388608), .raw 8388607, .raw 1, .raw (-1)], none⟩ :=
  (wavstream_yields_stored 24 (by decide) 2 (by decide) 8000 true [-8388608, 8388607, 1, -1]
    (by decide) (by decide)).1

example : ([0x00, 0x00, 0x80, 0xFF, 0xFF, 0x7F] : Bytes).length = 1 * 2 * (24 / 8) := by decide
example : storedValue 24 [0x00, 0x00, 0x80] = -8388608 ∧ storedValue 8 [0xFF] = 255 := by decide

/-- **C18.7** without `keep`, every value the stream yields lies in `[−1, 1)` — for every byte
content of the file, every supported width, in any linearly ordered field. -/
theorem normalised_in_unit_interval {K : Type} [Field K] [LinearOrder K] [IsStrictOrderedRing K]
    (f : WavFile) (x : K) (hx : Sample.scaled x ∈ (wavStream f false : WavObs K).gen.out) :
    (-1 : K) ≤ x ∧ x < 1 :=
  dataGenerator_range _ _ x hx

/-- **C18.8** laziness and closing: after `k` `next()` calls on a freshly opened stream exactly
the first `min k n` raw samples were handed out (`n` = number of samples in the file), and
`w.close()` has run iff the end of the data was reached, i.e. iff `k > n`.  In particular the
file is closed once the stream is exhausted and never earlier. -/
theorem wav_lazy_and_closed (channels sw fs : Nat) (data : Bytes) (k : Nat) :
    let all := sampleReader channels sw (blockReader fs data)
    let r := wavTake channels sw fs k ⟨data, [], false⟩
    r.1 = all.take k ∧ r.2.closed = closedAfter all.length k := by
  exact wavTake_fresh channels sw fs data k

example : (wavTake 1 2 2 2 ⟨[1, 0, 2, 0], [], false⟩).2.closed = false
    ∧ (wavTake 1 2 2 3 ⟨[1, 0, 2, 0], [], false⟩).2.closed = true := by decide


/-! ## the file life-cycle (resource clause: "the file is closed once the stream is exhausted")

  Handle table of the process = `pre` (whatever exists before the call, the caller's own file object
  included) followed by what the stream opens.  `g` is the complete run of the stream as the value
  model computes it (`(wavStream f keep).gen`); a history is any list of `next()` calls and
  collections of the stream object. -/

section resources
variable {β : Type} (g : Gen β WavErr)

/-- **C18.17** a stream opened BY NAME, any history: the stream opened exactly one handle (the table is
`pre ++ [h]`, so every other handle of the process is untouched); `close()` reached it at most once
and it is never abandoned to the runtime (no ResourceWarning); it is open iff nobody closed it; once
a `next()` returned StopIteration or raised a decoding error — the stream object still alive — or
once the stream object was collected, it is closed, by exactly one `close()`, and `getfp()` is None;
before that it is open (never closed early). -/
theorem res_name_closed_exactly_once (pre : List Handle) (evs : List Ev) :
    ∃ s0, construct .name true pre = .ok s0 ∧
      let r := rRun g false evs s0
      ∃ h, r.2.handles = pre ++ [h] ∧ h.owner = .stream ∧ h.closeCalls ≤ 1 ∧ h.abandoned = false
        ∧ (h.isOpen = true ↔ h.closeCalls = 0)
        ∧ ((ended r.1 = true ∨ Ev.collect ∈ evs) → h.isOpen = false ∧ h.closeCalls = 1 ∧ r.2.wr.fp = false)
        ∧ ((ended r.1 = false ∧ Ev.collect ∉ evs) → h.isOpen = true ∧ r.2.wr.fp = true) := by
  refine ⟨openSt pre 0 false, construct_name_ok pre, ?_⟩
  rcases rRun_open g pre evs 0 false with ⟨p, st, h1, h2, h3⟩ | ⟨p, st, d, h1, h2⟩
  · refine ⟨hOpen, by rw [h1]; rfl, rfl, by decide, rfl, by decide, ?_, ?_⟩
    · rintro (h | h)
      · rw [h2] at h; cases h
      · exact absurd h h3
    · intro _; rw [h1]; exact ⟨rfl, rfl⟩
  · refine ⟨hClosed, by rw [h1]; rfl, rfl, by decide, rfl, by decide, ?_, ?_⟩
    · intro _; rw [h1]; exact ⟨rfl, rfl, rfl⟩
    · rintro ⟨ha, hb⟩
      rcases h2 with h2 | h2
      · rw [ha] at h2; cases h2
      · exact absurd h2 hb

/-- non-vacuity: three samples read by name; after the 4th `next()` the handle is closed once, and
the later collection (`Wave_read.__del__` calls `close()` again) does not close it a second time -/
example : (rRun (⟨[1, 2, 3], none⟩ : Gen Nat WavErr) false [.next, .next, .next, .next, .next, .collect]
      (openSt [Handle.fresh .caller] 0 false)).2.handles
    = [Handle.fresh .caller, ⟨.stream, false, 1, false⟩] := by decide
example : (rRun (⟨[1, 2, 3], none⟩ : Gen Nat WavErr) false [.next, .next, .next]
      (openSt [] 0 false)).2.handles = [⟨.stream, true, 0, false⟩] := by decide
/-- a truncated file: the decoding error closes the file as well -/
example : (rRun (⟨[1], some .structLen⟩ : Gen Nat WavErr) false [.next, .next] (openSt [] 0 false))
    = ([.item 1, .raised .structLen], closedSt [] 1 true false) := by decide

/-- **C18.18** a stream over a file object of the caller or over `io.BytesIO`: no history (not even
the excluded early error) opens, closes or abandons any handle — the caller's handle is left to the
caller, as `wave` documents. -/
theorem res_caller_handle_untouched (src : Source) (hs : src = .fileObj ∨ src = .memory) (early : Bool)
    (pre : List Handle) (evs : List Ev) :
    ∃ s0, construct src true pre = .ok s0 ∧ (rRun g early evs s0).2.handles = pre := by
  rcases hs with rfl | rfl
  · exact ⟨_, rfl, rRun_no_handle g early evs _ rfl rfl⟩
  · exact ⟨_, rfl, rRun_no_handle g early evs _ rfl rfl⟩

example : (rRun (⟨[1, 2], none⟩ : Gen Nat WavErr) false [.next, .next, .next, .collect]
    ⟨0, false, false, false, ⟨true, none⟩, none, [Handle.fresh .caller]⟩).2.handles = [Handle.fresh .caller] := by
  decide

/-- **C18.19** a constructor that raises leaves no open handle of its own behind: by name the file it
opened is closed explicitly, never abandoned (`close()` reaches it twice: the `except` clause of
`Wave_read.__init__`, then `__del__` of the half-built object, on the already closed file — observed
on the real code), every other way nothing was opened; a name kind `wave.open` refuses opens nothing. -/
theorem res_open_failure (pre : List Handle) :
    construct .name false pre = .error (pre ++ [⟨.stream, false, 2, false⟩])
      ∧ construct .fileObj false pre = .error pre ∧ construct .memory false pre = .error pre
      ∧ ∀ ok, construct .refusedName ok pre = .error pre :=
  ⟨construct_name_fail pre, rfl, rfl, fun _ => rfl⟩

/-- **C18.20** values and resources are one machine: `k` successive `next()` calls on a freshly
constructed stream (any source) show the first `k` items of `g`, then — once — how `g` ends
(StopIteration or the decoding error), then StopIteration for ever (a generator dies at its first
exception). -/
theorem res_next_values (src : Source) (early : Bool) (pre : List Handle) (s0 : RS)
    (h0 : construct src true pre = .ok s0) (k : Nat) :
    (rRun g early (List.replicate k Ev.next) s0).1 = expectObs g k := by
  have hfresh : s0.pos = 0 ∧ s0.dead = false ∧ s0.dropped = false := by
    cases src <;> simp [construct] at h0 <;> subst h0 <;> exact ⟨rfl, rfl, rfl⟩
  have := rRun_nexts_obs g early k s0 hfresh.2.1 hfresh.2.2
  rw [this, hfresh.1]
  simp [expectObs]

example : expectObs (⟨[7, 8], some .structLen⟩ : Gen Nat WavErr) 5
    = [.item 7, .item 8, .raised .structLen, .stop, .stop] := by decide

/-- **C18.22** the point C18.17 excludes (`early`: the error is raised before the reader chain exists —
`_unpackers[bits]` KeyError for a header whose sample width is not 8/16/24/32): the stream is
finished after its first `next()`, but the file opened by name STAYS OPEN until the stream object is
collected; the collection then closes it exactly once.  (Observed on the real code as well.) -/
theorem res_early_error_keeps_file_open (e : WavErr) (pre : List Handle) (n : Nat) :
    let g : Gen β WavErr := ⟨[], some e⟩
    (rRun g true (List.replicate (n + 1) Ev.next) (openSt pre 0 false)).2.handles = pre ++ [hOpen]
      ∧ (rRun g true (List.replicate (n + 1) Ev.next ++ [Ev.collect]) (openSt pre 0 false)).2.handles
          = pre ++ [hClosed] := by
  have step : rNext (⟨[], some e⟩ : Gen β WavErr) true (openSt pre 0 false)
      = (.raised e, { openSt pre 0 false with started := true, dead := true }) := by
    simp [rNext, openSt, endObs]
  have stay : ∀ (m : Nat) (tl : List Ev),
      (rRun (⟨[], some e⟩ : Gen β WavErr) true (List.replicate m Ev.next ++ tl)
        { openSt pre 0 false with started := true, dead := true }).2
      = (rRun (⟨[], some e⟩ : Gen β WavErr) true tl
        { openSt pre 0 false with started := true, dead := true }).2 := by
    intro m tl
    induction m with
    | zero => rfl
    | succ m ih =>
      simp only [List.replicate_succ, List.cons_append, rRun]
      simpa [rNext, openSt] using ih
  refine ⟨?_, ?_⟩
  · have := stay n []
    simp only [List.append_nil] at this
    simp only [List.replicate_succ, rRun, step]
    simp only [openSt, Bool.false_eq_true, if_false] at this ⊢
    rw [this]; rfl
  · have := stay n [Ev.collect]
    simp only [List.replicate_succ, List.cons_append, rRun, step]
    simp only [openSt, Bool.false_eq_true, if_false] at this ⊢
    rw [this]
    simp [rRun, rCollect, wrClose, modifyAt_append_length, hOpen, hClosed, Handle.close, Handle.dealloc]

end resources

/-- **C18.21** for the four widths of the property the stream never ends by the early error, so
C18.17 (`early = false`) is about every 8/16/24/32-bit file, truncated ones included. -/
theorem wav_no_early_error {K : Type} [IntCast K] [Div K] (bits : Nat)
    (hb : bits = 8 ∨ bits = 16 ∨ bits = 24 ∨ bits = 32) (keep : Bool) (samples : List Bytes) :
    (dataGenerator (K := K) bits keep samples).err ≠ some .noUnpacker :=
  dataGenerator_no_early bits hb keep samples

/-! ## chunks -/

/-- **C18.9** `chunks.struct` (blocks with hop = size, then `Struct.pack`) is the specification:
one chunk per group of `size` items of the sequence followed by `(−len) mod size` pad values —
including where it stops when an item cannot be packed.  Every size ≥ 1, length, byte order,
item type and element encoder (b h i f d alike). -/
theorem chunks_struct_eq_spec (order : Order) (le : α → Except ε Bytes) (size : Nat) (hs : 0 < size)
    (pad : α) (xs : List α) :
    chunksStruct order le size pad xs = chunksSpec (encOrder order le) size pad xs :=
  chunksStruct_eq_spec order le size hs pad xs

/-- **C18.10** the array strategy yields identically the same chunks (and stops at the same
item with the same failure) as the struct strategy — for every requested byte order AND every
machine byte order. -/
theorem chunks_array_eq_struct (native order : Order) (le : α → Except ε Bytes) (zero : α) (z : Bytes)
    (hz : le zero = .ok z) (size : Nat) (hs : 0 < size) (pad : α) (xs : List α) :
    chunksArray native order le zero size pad xs = chunksStruct order le size pad xs := by
  rw [chunksArray_eq_spec native order le zero z hz size hs pad xs,
    chunksStruct_eq_spec order le size hs pad xs]

example : chunksArray .little .big (leElem false .h) (.int 0) 2 (.int 0) [.int 1, .int 2, .int (-3)]
    = ⟨[[0, 1, 0, 2], [0xFF, 0xFD, 0, 0]], none⟩ := by rfl

/-- **C18.11** the pad count is `(−len) mod size`; it is `< size` and completes a multiple. -/
theorem pad_count (size len : Nat) (hs : 0 < size) :
    ((padLen size len : Nat) : Int) = (-(len : Int)) % (size : Int)
      ∧ padLen size len < size ∧ size ∣ len + padLen size len :=
  ⟨padLen_eq_neg_emod size len hs, padLen_lt_size size len hs, padLen_dvd size len hs⟩

/-- **C18.12** when every item and the pad value can be packed (`g` = their byte images, each `w`
bytes long): the generator ends normally, the chunks concatenated are the images of the sequence
followed by the pad values, every chunk is exactly `size·w` bytes, and there are
`(len + pad count) / size` of them. -/
theorem chunks_concat (order : Order) (le : α → Except ε Bytes) (g : α → Bytes) (w size : Nat)
    (hs : 0 < size) (pad : α) (xs : List α)
    (hok : ∀ x ∈ pad :: xs, le x = .ok (g x)) (hw : ∀ x ∈ pad :: xs, (g x).length = w) :
    let r := chunksStruct order le size pad xs
    r.err = none
      ∧ r.out.flatten = ((xs ++ List.replicate (padLen size xs.length) pad).map (orderBytes order ∘ g)).flatten
      ∧ (∀ c ∈ r.out, c.length = size * w)
      ∧ r.out.length * size = xs.length + padLen size xs.length := by
  have hok' : ∀ x ∈ pad :: xs, encOrder order le x = .ok ((orderBytes order ∘ g) x) := by
    intro x hx; simp [encOrder, hok x hx, Except.map]
  have hsp := chunksSpec_all_ok (encOrder order le) (orderBytes order ∘ g) size hs pad xs hok'
  have hdvd : size ∣ (padded size pad xs).length := by
    rw [padded_length]; exact padLen_dvd size xs.length hs
  have hlens := splitEvery_lengths size hs _ (padded size pad xs) rfl hdvd
  simp only [chunksStruct_eq_spec order le size hs pad xs, hsp]
  refine ⟨by trivial, ?_, ?_, ?_⟩
  · rw [flatten_map_flatten, splitEvery_flatten size hs _ _ rfl]; rfl
  · intro c hc
    obtain ⟨b, hb, rfl⟩ := List.mem_map.mp hc
    rw [flatten_length_const _ w b, hlens b hb]
    intro x hx
    have hmem := mem_padded size pad xs x (mem_of_mem_splitEvery size hs _ b hb x hx)
    simp [orderBytes_length, hw x hmem]
  · rw [List.length_map, ← padded_length size pad xs]
    have hfl := splitEvery_flatten size hs _ (padded size pad xs) rfl
    have := flatten_length_const (fun (b : List α) => b) size (splitEvery size (padded size pad xs))
      (fun b hb => hlens b hb)
    simp only [List.map_id'] at this
    rw [← this, hfl]

/-- **C18.13** round trip in the words of the property: the chunks, concatenated and unpacked
with the same format (`dec` inverts the element encoder — the hypothesis that stands for the
IEEE formats f and d), give the sequence followed by the pad values. -/
theorem chunks_roundtrip (order : Order) (le : α → Except ε Bytes) (g : α → Bytes)
    (dec : Bytes → Option α) (w size : Nat) (hw0 : 0 < w) (hs : 0 < size) (pad : α) (xs : List α)
    (hok : ∀ x ∈ pad :: xs, le x = .ok (g x)) (hw : ∀ x ∈ pad :: xs, (g x).length = w)
    (hdec : ∀ x ∈ pad :: xs, dec (orderBytes order (g x)) = some x) :
    unpackSeq dec w (chunksStruct order le size pad xs).out.flatten
      = some (xs ++ List.replicate (padLen size xs.length) pad) := by
  rw [(chunks_concat order le g w size hs pad xs hok hw).2.1]
  apply unpackSeq_flatten dec _ w hw0
  intro x hx
  have hmem : x ∈ pad :: xs := mem_padded size pad xs x hx
  exact ⟨by simp [orderBytes_length, hw x hmem], hdec x hmem⟩

/-- **C18.14** the integer formats b, h, i (any width `w ≥ 1`) discharge that hypothesis: for
in-range integers both strategies succeed, agree, and unpack to the sequence followed by the pad
values — every byte order, machine order, size and length. -/
theorem chunks_roundtrip_int (w : Nat) (hw : 0 < w) (native order : Order) (size : Nat) (hs : 0 < size)
    (pad : Int) (xs : List Int) (hr : ∀ v ∈ pad :: xs, inRange w v) :
    let s := chunksStruct order (packIntLE w) size pad xs
    chunksArray native order (packIntLE w) 0 size pad xs = s
      ∧ s.err = none
      ∧ (∀ c ∈ s.out, c.length = size * w)
      ∧ unpackSeq (unpackInt w order) w s.out.flatten
          = some (xs ++ List.replicate (padLen size xs.length) pad) := by
  have hok : ∀ v ∈ pad :: xs, packIntLE w v = .ok (leBytes w v) := by
    intro v hv; simp [packIntLE, hr v hv]
  have hlen : ∀ v ∈ pad :: xs, (leBytes w v).length = w := fun v _ => leBytes_length w v
  have hz : packIntLE w 0 = .ok (leBytes w 0) := by
    have : inRange w 0 := by
      unfold inRange
      have : (0 : Int) < 2 ^ (8 * w - 1) := Int.pow_pos (by omega)
      omega
    simp [packIntLE, this]
  refine ⟨chunks_array_eq_struct native order _ 0 _ hz size hs pad xs,
    (chunks_concat order _ (leBytes w) w size hs pad xs hok hlen).1,
    (chunks_concat order _ (leBytes w) w size hs pad xs hok hlen).2.2.1,
    chunks_roundtrip order _ (leBytes w) (unpackInt w order) w size hw hs pad xs hok hlen ?_⟩
  intro v hv
  exact unpackInt_orderBytes_leBytes w hw order v (hr v hv)

example : (∀ v ∈ [(0 : Int), -32768, 32767, -1], inRange 2 v) := by decide
example : (chunksStruct .big (packIntLE 2) 3 0 [-32768, 32767, -1, 5]).out
    = [[0x80, 0, 0x7F, 0xFF, 0xFF, 0xFF], [0, 5, 0, 0, 0, 0]] := by rfl

/-- **C18.15** the element encoder the driver runs for the formats b, h, i on Python ints is
`packIntLE` of the format's width (so C18.14 is about the very function the tie executes). -/
theorem leElem_int (strict : Bool) (v : Int) :
    leElem strict .b (.int v) = packIntLE 1 v ∧ leElem strict .h (.int v) = packIntLE 2 v
      ∧ leElem strict .i (.int v) = packIntLE 4 v := ⟨rfl, rfl, rfl⟩

/-- **C18.16** formats f and d: the bytes are the little-endian image of the IEEE bit pattern
(`Float.toBits` / `Float32.toBits`, trusted), and that byte layout loses nothing: every `w`-byte
bit pattern is recovered from its bytes, in both byte orders.  (What a theorem cannot say here —
that `toBits` inverts — is the `hdec` hypothesis of C18.13 and is listed in the trusted base.) -/
theorem ieee_bytes_exact (w : Nat) (o : Order) (u : Nat) (hu : u < 2 ^ (8 * w)) :
    (orderBytes o (leBytes w u)).length = w
      ∧ leValue (orderBytes o (orderBytes o (leBytes w u))) = u
      ∧ (∀ strict x, leElem strict .d x = .ok (leBytes 8 (x.toFloat.toBits.toNat : Int))) := by
  refine ⟨by rw [orderBytes_length, leBytes_length], ?_, fun _ _ => rfl⟩
  rw [orderBytes_orderBytes, leValue_leBytes, pow256]
  have : ((u : Nat) : Int) < 2 ^ (8 * w) := by exact_mod_cast hu
  exact Int.emod_eq_of_lt (by omega) this

example : leBytes 4 (0x3FC00000 : Nat) = [0x00, 0x00, 0xC0, 0x3F] := by decide   -- 1.5f

/-! ## the other integer formats of the struct table (B H I l L q Q) and the spelling of a value -/

/-- **C18.23** unsigned formats: `unpack(pack(v)) = v` on the FULL range `0 ≤ v < 2^(8w)` of every
width `w` (B H I Q and the two sizes of L are w = 1, 2, 4, 8), both byte orders; outside it
`pack` refuses. -/
theorem unpack_pack_uint (w : Nat) (o : Order) (v : Int) :
    (inURange w v → ∃ bs, packUInt w o v = .ok bs ∧ bs.length = w ∧ unpackUInt w o bs = some v)
      ∧ (¬ inURange w v → packUInt w o v = .error .range) := by
  refine ⟨fun h => ⟨orderBytes o (leBytes w v), ?_, ?_, ?_⟩, fun h => ?_⟩
  · simp [packUInt, packUIntLE, h, Except.map]
  · rw [orderBytes_length, leBytes_length]
  · unfold unpackUInt
    rw [if_pos (by rw [orderBytes_length, leBytes_length]), orderBytes_orderBytes, leValue_leBytes, pow256]
    exact congrArg some (Int.emod_eq_of_lt h.1 h.2)
  · simp [packUInt, packUIntLE, h, Except.map]

example : packUInt 2 .big 65535 = .ok [0xFF, 0xFF] ∧ inURange 2 65535 ∧ ¬ inURange 2 65536 ∧ ¬ inURange 2 (-1) := by
  decide

/-- **C18.24** unsigned formats through both chunk strategies: for in-range integers they succeed,
agree, and unpack to the sequence followed by the pad values — every width, byte order, machine
order, size and length (the unsigned twin of C18.14). -/
theorem chunks_roundtrip_uint (w : Nat) (hw : 0 < w) (native order : Order) (size : Nat) (hs : 0 < size)
    (pad : Int) (xs : List Int) (hr : ∀ v ∈ pad :: xs, inURange w v) :
    let s := chunksStruct order (packUIntLE w) size pad xs
    chunksArray native order (packUIntLE w) 0 size pad xs = s
      ∧ s.err = none
      ∧ (∀ c ∈ s.out, c.length = size * w)
      ∧ unpackSeq (unpackUInt w order) w s.out.flatten
          = some (xs ++ List.replicate (padLen size xs.length) pad) := by
  have hok : ∀ v ∈ pad :: xs, packUIntLE w v = .ok (leBytes w v) := by
    intro v hv; simp [packUIntLE, hr v hv]
  have hlen : ∀ v ∈ pad :: xs, (leBytes w v).length = w := fun v _ => leBytes_length w v
  have hz : packUIntLE w 0 = .ok (leBytes w 0) := by
    have : inURange w 0 := ⟨Int.le_refl 0, Int.pow_pos (by omega)⟩
    simp [packUIntLE, this]
  refine ⟨chunks_array_eq_struct native order _ 0 _ hz size hs pad xs,
    (chunks_concat order _ (leBytes w) w size hs pad xs hok hlen).1,
    (chunks_concat order _ (leBytes w) w size hs pad xs hok hlen).2.2.1,
    chunks_roundtrip order _ (leBytes w) (unpackUInt w order) w size hw hs pad xs hok hlen ?_⟩
  intro v hv
  obtain ⟨bs, hp, _, hu⟩ := (unpack_pack_uint w order v).1 (hr v hv)
  have : bs = orderBytes order (leBytes w v) := by
    simp [packUInt, packUIntLE, hr v hv, Except.map] at hp; exact hp.symm
  rw [← this]; exact hu

example : (chunksStruct .big (packUIntLE 2) 3 0 [65535, 256, 1, 5]).out
    = [[0xFF, 0xFF, 1, 0, 0, 1], [0, 5, 0, 0, 0, 0]] := by rfl

/-- **C18.25** the encoder the driver runs, by format and by SPELLING of the value: signed / unsigned
integer formats take ints and bools (`True` is 1) through `packIntLE` / `packUIntLE` and refuse a
float or a Fraction — even an integral one; the float formats take every spelling through its
`float()`.  So C18.14 / C18.24 are about the very function the tie executes. -/
theorem leElem_spellings (strict : Bool) (w : Nat) (v : Int) (b : Bool) (x : Float) :
    leElem strict (.s w) (.int v) = packIntLE w v ∧ leElem strict (.u w) (.int v) = packUIntLE w v
      ∧ leElem strict (.u w) (.bool b) = packUIntLE w (if b then 1 else 0)
      ∧ leElem strict .h (.bool b) = packIntLE 2 (if b then 1 else 0)
      ∧ leElem strict (.u w) (.flt x) = .error .notInt ∧ leElem strict (.s w) (.frac x) = .error .notInt
      ∧ leElem strict .d (.frac x) = leElem strict .d (.flt x)
      ∧ leElem strict .f (.frac x) = leElem strict .f (.flt x) :=
  ⟨rfl, rfl, rfl, rfl, rfl, rfl, rfl, rfl⟩

/-! ## laziness of the chunk generators (endless sources) -/

/-- **C18.26** one whole block in, one chunk out: for a sequence that starts with `size` items the
first chunk is the packed block (or the generator stops at the item that cannot be packed) and what
follows are the chunks of the REST — whatever the rest is.  By induction the first `k` chunks
depend on the first `k·size` items only, which is what taking `k` chunks from an endless source
observes; both strategies (C18.10). -/
theorem chunks_block_step (order : Order) (le : α → Except ε Bytes) (size : Nat) (hs : 0 < size) (pad : α)
    (blk rest : List α) (h : blk.length = size) :
    chunksStruct order le size pad (blk ++ rest) =
      match packSeq (encOrder order le) blk with
      | .error e => ⟨[], some e⟩
      | .ok b => (chunksStruct order le size pad rest).cons b := by
  rw [chunksStruct_eq_spec order le size hs pad (blk ++ rest), chunksStruct_eq_spec order le size hs pad rest]
  unfold chunksSpec
  have hp : padded size pad (blk ++ rest) = blk ++ padded size pad rest := by
    unfold padded
    rw [List.length_append, h, padLen_add, List.append_assoc]
  rw [hp, splitEvery_cons_block size hs blk _ h, genMap]
  cases packSeq (encOrder order le) blk <;> rfl

example : (chunksStruct .little (packIntLE 1) 2 0 ([1, 2] ++ [3, 4, 5])).out
    = [1, 2] :: (chunksStruct .little (packIntLE 1) 2 0 [3, 4, 5]).out := by rfl

/-! ## the header (`rate`, `channels`, `bits` mirror the header) -/

/-- **C18.27** `bits` is `8 · sampwidth` with `sampwidth = ⌈header bits / 8⌉`: for a header width that
is a multiple of 8 — the four widths of the property — `bits` IS the header field; any other width
is rounded up to the next multiple of 8 (observed on the real code: a 12-bit header gives `bits = 16`). -/
theorem bits_mirror_header (hb : Nat) :
    (8 ∣ hb → 8 * headerSampwidth hb = hb)
      ∧ hb ≤ 8 * headerSampwidth hb ∧ 8 * headerSampwidth hb < hb + 8 := by
  unfold headerSampwidth
  refine ⟨fun ⟨k, hk⟩ => by omega, by omega, by omega⟩

example : headerSampwidth 24 = 3 ∧ headerSampwidth 12 = 2 ∧ (wavStream ⟨2, headerSampwidth 12, 8000, []⟩ true : WavObs Rat).bits = 16 := by
  decide

/-- **C18.28** a file shorter than the 8 bytes of a RIFF header is refused with EOFError, and a file
whose first four bytes are not `RIFF` with wave.Error — before anything else is looked at. -/
theorem riff_refuses (file : Bytes) :
    (file.length < 8 → parseRiff file = .error .eof)
      ∧ (8 ≤ file.length → file.take 4 ≠ idRIFF → parseRiff file = .error .waveError) := by
  refine ⟨fun h => ?_, fun h hne => ?_⟩
  · unfold parseRiff
    by_cases h4 : (file.take 4).length < 4
    · rw [if_pos h4]
    · rw [if_neg h4, if_pos (by simp only [List.length_take, List.length_drop]; omega)]
  · unfold parseRiff
    rw [if_neg (by simp only [List.length_take]; omega),
      if_neg (by simp only [List.length_take, List.length_drop]; omega), if_pos hne]

/-- non-vacuity and the reader at work: a stereo 16-bit file with a LIST chunk of odd size before
`fmt ` and another chunk after `data` is read back exactly (header fields and data chunk) -/
example : parseRiff (buildRiff [(([0x4C, 0x49, 0x53, 0x54] : Bytes), [1, 2, 3])] [] [(([0x69, 0x64, 0x33, 0x20] : Bytes), [9])]
    2 8000 16 [1, 0, 2, 0, 0xFF, 0x7F, 0, 0x80]) = .ok ⟨2, 2, 8000, [1, 0, 2, 0, 0xFF, 0x7F, 0, 0x80]⟩ := by rfl

/-- **C18.29** (was PENDING) every well-formed file is read back exactly: any extra chunks (names other
than `fmt ` and `data`, any content, odd sizes padded) before `fmt `, between `fmt ` and `data`, and ANY
chunks at all after `data` (the reader never looks at them: no hypothesis on `post`); by induction on
the chunk lists, for the builder `buildRiff` and the reader shaped like `wave.Wave_read.initfp`. -/
theorem riff_parse_build (pre mid post : List (Bytes × Bytes)) (channels rate bits : Nat) (data : Bytes)
    (hpm : ∀ c ∈ pre ++ mid, c.1.length = 4 ∧ c.1 ≠ idFmt ∧ c.1 ≠ idData)
    (hc0 : 0 < channels) (hc : channels < 2 ^ 16) (hr : rate < 2 ^ 32) (hb0 : 0 < bits) (hb : bits < 2 ^ 16)
    (hlen : (buildRiff pre mid post channels rate bits data).length < 2 ^ 32) :
    parseRiff (buildRiff pre mid post channels rate bits data) = .ok ⟨channels, headerSampwidth bits, rate, data⟩ :=
  parseRiff_buildRiff pre mid post channels rate bits data hpm hc0 hc hr hb0 hb hlen

/-- non-vacuity: the hypotheses hold for a file with a LIST chunk of odd size before `fmt `, a `fact`
chunk between, and a chunk after `data` whose name is not even four bytes long -/
example : parseRiff (buildRiff [(([0x4C, 0x49, 0x53, 0x54] : Bytes), [1, 2, 3])] [(([0x66, 0x61, 0x63, 0x74] : Bytes), [7, 7])]
    [(([0x69] : Bytes), [9])] 2 8000 24 [1, 0, 2, 0, 0xFF, 0x7F]) = .ok ⟨2, 3, 8000, [1, 0, 2, 0, 0xFF, 0x7F]⟩ :=
  riff_parse_build _ _ _ 2 8000 24 _ (by decide) (by decide) (by decide) (by decide) (by decide) (by decide)
    (by decide)

/-- **C18.30** the reader composed with the stream: `WavStream` over the BYTES of any well-formed file
(extra chunks included) yields what C18.6b says about its data chunk, and `rate`, `channels`, `bits`
are the header's (for the four PCM widths `bits` is the header field itself). -/
theorem wavstream_over_file_bytes {K : Type} [IntCast K] [Div K] (pre mid post : List (Bytes × Bytes))
    (channels rate bits : Nat) (data : Bytes) (keep : Bool)
    (hpm : ∀ c ∈ pre ++ mid, c.1.length = 4 ∧ c.1 ≠ idFmt ∧ c.1 ≠ idData)
    (hcc : channels = 1 ∨ channels = 2) (hr : rate < 2 ^ 32)
    (hb : bits = 8 ∨ bits = 16 ∨ bits = 24 ∨ bits = 32) (frames : Nat)
    (hd : data.length = frames * channels * (bits / 8))
    (hlen : (buildRiff pre mid post channels rate bits data).length < 2 ^ 32) :
    ∃ f, parseRiff (buildRiff pre mid post channels rate bits data) = .ok f ∧
      (wavStream f keep : WavObs K).gen
        = ⟨wavSpec bits keep ((splitEvery (bits / 8) data).map (storedValue bits)), none⟩ ∧
      (wavStream f keep : WavObs K).rate = rate ∧ (wavStream f keep : WavObs K).channels = channels ∧
      (wavStream f keep : WavObs K).bits = bits := by
  have hsw : headerSampwidth bits = bits / 8 := by
    rcases hb with rfl | rfl | rfl | rfl <;> rfl
  have hbits : 8 * (bits / 8) = bits := by rcases hb with rfl | rfl | rfl | rfl <;> rfl
  refine ⟨⟨channels, headerSampwidth bits, rate, data⟩, ?_, ?_, rfl, rfl, ?_⟩
  · exact riff_parse_build pre mid post channels rate bits data hpm
      (by rcases hcc with rfl | rfl <;> decide) (by rcases hcc with rfl | rfl <;> decide) hr
      (by rcases hb with rfl | rfl | rfl | rfl <;> decide) (by rcases hb with rfl | rfl | rfl | rfl <;> decide) hlen
  · rw [hsw]; exact wavstream_any_file bits hb channels hcc rate keep data frames hd
  · show 8 * headerSampwidth bits = bits
    rw [hsw, hbits]

/-! ## byte-order spellings -/

/-- **C18.31** the seven spellings of `byte_order`: `"<"` is little endian, `">"` and `"!"` are big
endian, omitted / `None` / `"@"` / `"="` are the machine's order — the struct module's prefix table and
the array strategy's `{"<": "little", ">": "big", "!": "big"}.get(byte_order, sys.byteorder)` are this one
function; on this platform (ASSUMPTION `native = little`, read from `sys.byteorder` by the tie) five
spellings are little endian and two are big endian. -/
theorem byte_order_spellings (native : Order) (a : OrderArg) :
    resolveOrder native a.order =
        (match a with | .lt => Order.little | .gt => .big | .bang => .big | _ => native)
      ∧ (native = .little →
          (resolveOrder native a.order = .big ↔ (a = .gt ∨ a = .bang))
          ∧ (resolveOrder native a.order = .little ↔ (a ≠ .gt ∧ a ≠ .bang))) := by
  refine ⟨by cases a <;> rfl, fun h => ?_⟩
  subst h
  cases a <;> simp [resolveOrder, OrderArg.order]

/-- **C18.31b** which spellings are prefixes with STANDARD sizes (`l` / `L` are 4 bytes under them, the
machine's `long` otherwise — the driver picks the width of those two formats by it): `"="`, `"<"`, `">"`,
`"!"`; every spelling that names an order is one of them. -/
theorem order_std_prefix (a : OrderArg) :
    (a.std = true ↔ (a = .eq ∨ a = .lt ∨ a = .gt ∨ a = .bang)) ∧ (a.order.isSome = true → a.std = true) := by
  cases a <;> simp [OrderArg.std, OrderArg.order]

example : resolveOrder .little OrderArg.eq.order = .little ∧ resolveOrder .big OrderArg.at.order = .big
    ∧ resolveOrder .little OrderArg.bang.order = .big := by decide

/-! ## both strategies over the table of formats, every value -/

/-- **C18.32** "identically for the struct and array strategies and for every byte order": for every
format of the table, every spelling of the byte order, every machine order, size ≥ 1, pad value and
sequence of Python numbers — in range or NOT (both stop at the same item with the same failure) —
`chunks.array` yields what `chunks.struct` yields, provided no finite double overflows the 32-bit
float format (the one place where the code differs: struct raises OverflowError, an array stores
inf); for every format other than f the proviso is void. -/
theorem chunks_table_struct_eq_array (native : Order) (a : OrderArg) (fmt : Fmt) (size : Nat) (hs : 0 < size)
    (pad : PVal) (xs : List PVal)
    (hf : fmt = .f → ∀ x ∈ pad :: xs, leElem true .f x = leElem false .f x) :
    chunksArrayPy native a fmt size pad xs = chunksStructPy native a fmt size pad xs := by
  unfold chunksArrayPy chunksStructPy
  obtain ⟨z, hz⟩ := leElem_zero_ok fmt
  rw [chunksArray_eq_spec native _ _ _ z hz size hs pad xs, chunksStruct_eq_spec _ _ size hs pad xs]
  apply chunksSpec_congr _ _ size hs
  intro x hx
  unfold encOrder
  by_cases h : fmt = .f
  · subst h; rw [hf rfl x hx]
  · rw [leElem_strict_irrelevant false true fmt h x]

/-- non-vacuity, with the extremes of the 16-bit format and a value outside it: both stop after one chunk -/
example : chunksArrayPy .little .bang .h 2 (.int 0) [.int (-32768), .int 32767, .int 32768, .int 5]
    = ⟨[[0x80, 0, 0x7F, 0xFF]], some .range⟩ := by rfl
example : chunksStructPy .little .bang .h 2 (.int 0) [.int (-32768), .int 32767, .int 32768, .int 5]
    = ⟨[[0x80, 0, 0x7F, 0xFF]], some .range⟩ := by rfl

/-- **C18.32b** the StrategyDict entry `chunks(...)`: whichever strategy `chunks.default` names (the
docstring suggests `chunks.default = chunks.array`), the call yields the same chunks and stops at the
same item; only the CLASS of the exception follows the strategy (`structExc` / `arrayExc`). -/
theorem chunks_entry_any_default (native : Order) (a : OrderArg) (fmt : Fmt) (size : Nat) (hs : 0 < size)
    (pad : PVal) (xs : List PVal)
    (hf : fmt = .f → ∀ x ∈ pad :: xs, leElem true .f x = leElem false .f x) :
    (chunksEntry .array native a fmt fmt size pad xs).out = (chunksEntry .struct native a fmt fmt size pad xs).out
      ∧ ((chunksEntry .array native a fmt fmt size pad xs).err.isSome
          = (chunksEntry .struct native a fmt fmt size pad xs).err.isSome)
      ∧ (chunksEntry .struct native a fmt fmt size pad xs).err
          = (chunksStructPy native a fmt size pad xs).err.map structExc
      ∧ (chunksEntry .array native a fmt fmt size pad xs).err
          = (chunksStructPy native a fmt size pad xs).err.map arrayExc := by
  have h := chunks_table_struct_eq_array native a fmt size hs pad xs hf
  simp only [chunksEntry, h]
  refine ⟨trivial, ?_, trivial, trivial⟩
  cases (chunksStructPy native a fmt size pad xs).err <;> rfl

example : chunksEntry .array .little .gt .h .h 2 (.int 0) [.int 1, .int 2, .int 40000]
    = ⟨[[0, 1, 0, 2]], some .overflowError⟩ := by rfl
example : chunksEntry .struct .little .gt .h .h 2 (.int 0) [.int 1, .int 2, .int 40000]
    = ⟨[[0, 1, 0, 2]], some .structError⟩ := by rfl

/-- **C18.33** the extreme values of every integer width are inside the format and their neighbours are
outside: −2^(8w−1) and 2^(8w−1)−1 signed (−128, 127, −32768, 32767, −2³¹, 2³¹−1, …), 0 and 2^(8w)−1
unsigned; so C18.14 / C18.24 / C18.32 speak about them, in every position. -/
theorem int_extremes (w : Nat) :
    inRange w (-(2 ^ (8 * w - 1))) ∧ inRange w (2 ^ (8 * w - 1) - 1)
      ∧ ¬ inRange w (-(2 ^ (8 * w - 1)) - 1) ∧ ¬ inRange w (2 ^ (8 * w - 1))
      ∧ inURange w 0 ∧ inURange w (2 ^ (8 * w) - 1) ∧ ¬ inURange w (-1) ∧ ¬ inURange w (2 ^ (8 * w)) := by
  have hp : (0 : Int) < 2 ^ (8 * w - 1) := Int.pow_pos (by omega)
  have hq : (0 : Int) < 2 ^ (8 * w) := Int.pow_pos (by omega)
  unfold inRange inURange
  refine ⟨⟨by omega, by omega⟩, ⟨by omega, by omega⟩, by omega, by omega, ⟨by omega, hq⟩, ⟨by omega, by omega⟩,
    by omega, by omega⟩

example : inRange 1 (-128) ∧ inRange 4 (-2147483648) ∧ ¬ inRange 4 2147483648 ∧ inURange 8 18446744073709551615 := by
  decide

/-- **C18.34** a value outside the format (or a float / Fraction in an integer format), after a prefix
of storable items: BOTH strategies yield exactly the chunks of the whole groups of the prefix
(`⌊len/size⌋` of them) and then raise — `struct.error` from the struct strategy, `OverflowError`
(range) or `TypeError` (not an integer) from the array strategy: the classes differ, as coded. -/
theorem chunks_stop_at_unstorable (native : Order) (a : OrderArg) (fmt : Fmt) (hfm : fmt ≠ .f) (size : Nat)
    (hs : 0 < size) (pad : PVal) (good : List PVal) (goodB : List Bytes) (bad : PVal) (e : PackErr)
    (rest : List PVal)
    (hg : good.map (encOrder (resolveOrder native a.order) (leElem true fmt)) = goodB.map Except.ok)
    (hb : leElem true fmt bad = .error e) :
    let s := chunksStructPy native a fmt size pad (good ++ bad :: rest)
    chunksArrayPy native a fmt size pad (good ++ bad :: rest) = s
      ∧ s.err = some e ∧ s.out.length = good.length / size
      ∧ (e = .range → structExc e = .structError ∧ arrayExc e = .overflowError)
      ∧ (e = .notInt → structExc e = .structError ∧ arrayExc e = .typeError) := by
  have hbad : encOrder (resolveOrder native a.order) (leElem true fmt) bad = .error e := by
    simp [encOrder, hb, Except.map]
  have hsp := chunksSpec_stops _ size hs pad bad e hbad rest good.length good goodB rfl hg
  refine ⟨chunks_table_struct_eq_array native a fmt size hs pad _ (fun h => absurd h hfm), ?_, ?_,
    fun h => by subst h; exact ⟨rfl, rfl⟩, fun h => by subst h; exact ⟨rfl, rfl⟩⟩
  · show (chunksStruct _ _ size pad _).err = some e
    rw [chunksStruct_eq_spec _ _ size hs, hsp]
  · show (chunksStruct _ _ size pad _).out.length = _
    rw [chunksStruct_eq_spec _ _ size hs, hsp]
    simp only [List.length_map]
    have hl : (good.take (good.length / size * size)).length = good.length / size * size := by
      rw [List.length_take]; exact Nat.min_eq_left (Nat.div_mul_le_self _ _)
    have hd : size ∣ (good.take (good.length / size * size)).length := by rw [hl]; exact Nat.dvd_mul_left _ _
    have hlens := splitEvery_lengths size hs _ (good.take (good.length / size * size)) rfl hd
    have hfl := splitEvery_flatten size hs _ (good.take (good.length / size * size)) rfl
    have := flatten_length_const (fun (b : List PVal) => b) size
      (splitEvery size (good.take (good.length / size * size))) (fun b hb => hlens b hb)
    simp only [List.map_id'] at this
    rw [hfl, hl] at this
    exact (Nat.eq_of_mul_eq_mul_right hs this).symm

example : (chunksStructPy .little .lt .b 2 (.int 0) ([.int 1, .int 2, .int 3] ++ .int 128 :: [.int 4])).out.length
    = [PVal.int 1, .int 2, .int 3].length / 2 := by decide

/-- **C18.35** `width` (what the tie multiplies the chunk size with) is the byte count of every element
the encoder stores, for every format of the table. -/
theorem fmt_width (strict : Bool) (fmt : Fmt) (v : PVal) (bs : Bytes) (h : leElem strict fmt v = .ok bs) :
    bs.length = fmt.width := by
  unfold leElem at h
  cases hi : fmt.intSpec with
  | some p =>
    obtain ⟨sg, w⟩ := p
    have hw : fmt.width = w := by cases fmt <;> simp_all [Fmt.intSpec, Fmt.width]
    rw [hi] at h
    simp only at h
    cases hv : v.asInt with
    | none => rw [hv] at h; cases h
    | some n =>
      rw [hv] at h
      simp only [packIntLE, packUIntLE] at h
      cases sg <;> simp only [Bool.false_eq_true, if_false, if_true] at h <;>
        (split at h <;> cases h; rw [leBytes_length, hw])
  | none =>
    rw [hi] at h
    simp only at h
    by_cases hd : fmt = .d
    · subst hd; simp only [if_true] at h; cases h; rw [leBytes_length]; rfl
    · have hf : fmt = .f := by cases fmt <;> simp_all [Fmt.intSpec]
      subst hf
      simp only [if_neg hd] at h
      split at h
      · cases h
      · cases h; rw [leBytes_length]; rfl

/-! ## the trace the tie compares is the run the theorems speak about -/

/-- **C18.36** `rTrace` (what the driver prints: after every event the observation and the whole state)
erases to `rRun` (what C18.17–22 are about): the observations are the run's observations, there is one
entry per event, and the `i`-th state is the state of the run over the first `i + 1` events. -/
theorem trace_is_run {β : Type} (g : Gen β WavErr) (early : Bool) (evs : List Ev) (s : RS) :
    (rTrace g early evs s).filterMap (·.1) = (rRun g early evs s).1
      ∧ (rTrace g early evs s).length = evs.length
      ∧ ∀ i p, (rTrace g early evs s)[i]? = some p → p.2 = (rRun g early (evs.take (i + 1)) s).2 :=
  ⟨rTrace_obs g early evs s, rTrace_length g early evs s, rTrace_state g early evs s⟩

example : ((rTrace (⟨[1, 2], none⟩ : Gen Nat WavErr) false [.next, .collect, .next] (openSt [] 0 false)).map
    fun p => p.2.handles) = [[hOpen], [hClosed], [hClosed]] := by decide

/-! ## the call `WavStream(wave_file, keep=False)` -/

section call
variable {K : Type} [IntCast K] [Div K]

/-- **C18.37** every shape of the call: `keep` is the SECOND parameter and defaults to `False`; given
positionally, by keyword (the file positionally or as `wave_file=`) or omitted, the stream is
`wavStream f` with the TRUTH VALUE of what was passed — so every theorem about `wavStream f keep` is
about the call.  Three positionals, `keep` twice, an unknown keyword or no file: TypeError. -/
theorem wavstream_call_shapes (f : WavFile) (k : PyV) :
    wavStreamCall (K := K) f [.file] [] = .ok (wavStream f false)
      ∧ wavStreamCall (K := K) f [.file, k] [] = .ok (wavStream f k.truthy)
      ∧ wavStreamCall (K := K) f [.file] [("keep", k)] = .ok (wavStream f k.truthy)
      ∧ wavStreamCall (K := K) f [] [("wave_file", .file), ("keep", k)] = .ok (wavStream f k.truthy)
      ∧ wavStreamCall (K := K) f [] [("keep", k), ("wave_file", .file)] = .ok (wavStream f k.truthy)
      ∧ wavStreamCall (K := K) f [] [("wave_file", .file)] = .ok (wavStream f false)
      ∧ wavStreamCall (K := K) f [.file, k, k] [] = .error .typeError
      ∧ wavStreamCall (K := K) f [.file, k] [("keep", k)] = .error .typeError
      ∧ wavStreamCall (K := K) f [] [("keep", k)] = .error .typeError
      ∧ (∀ name, name ≠ "wave_file" → name ≠ "keep" →
          wavStreamCall (K := K) f [.file] [(name, k)] = .error .typeError) := by
  refine ⟨rfl, rfl, rfl, rfl, rfl, rfl, rfl, rfl, rfl, ?_⟩
  intro name h1 h2
  simp [wavStreamCall, bindWav, ALV.C08.bind, wavParams, h1, h2]

/-- **C18.38** truthy and falsy spellings of `keep`: `False 0 0.0 -0.0 None "" [] ()` read as `False`,
everything else (`True`, any other number, NaN, a non-empty string or list) as `True`. -/
theorem keep_truthiness (n : Int) (s : String) (len : Nat) :
    PyV.truthy (.bool false) = false ∧ PyV.truthy (.bool true) = true ∧ PyV.truthy .none = false
      ∧ (PyV.truthy (.int n) = true ↔ n ≠ 0) ∧ (PyV.truthy (.str s) = true ↔ s ≠ "")
      ∧ (PyV.truthy (.list len) = true ↔ len ≠ 0) := by
  simp [PyV.truthy]

end call

example : wavStreamCall (K := Rat) ⟨1, 2, 8000, [0, 0x80]⟩ [.file, .list 1] []
    = .ok (wavStream ⟨1, 2, 8000, [0, 0x80]⟩ true) := (wavstream_call_shapes _ (.list 1)).2.1

/-! ## how much of the file is read (laziness in bytes) -/

/-- **C18.39** after `k` `next()` calls on a fresh stream the unread part of the data chunk is the
data chunk minus `framesFor channels k` whole frames: one frame per sample (mono), one frame per two
samples (otherwise; the second half waits in the generator) — so exactly `min (frames·fs) len` bytes
of the data chunk were taken, never a byte beyond the frame of the last sample handed out, for every
file content, truncated or not; the only byte outside the data chunk that may be taken is the
alignment byte of an odd-sized chunk, together with its last frame (`_Chunk.read`, observed on the
real code: a mono 24-bit file with an odd number of frames).  (How many frames ONE `readframes` call takes is fixed to 1 by the code.) -/
theorem wav_reads_only_needed_bytes (channels sw fs : Nat) (data : Bytes) (k : Nat) :
    let r := wavTake channels sw fs k ⟨data, [], false⟩
    r.2.data = data.drop (framesFor channels k * fs)
      ∧ data.length - r.2.data.length = bytesRead channels fs data k
      ∧ bytesRead channels fs data k + alignByte channels fs data k ≤ data.length + data.length % 2
      ∧ (bytesRead channels fs data k < data.length → alignByte channels fs data k = 0) := by
  have h := wavTake_data channels sw fs k ⟨data, [], false⟩ (by simp)
  have hf : framesFrom channels k 0 = framesFor channels k := rfl
  simp only [List.length_nil, hf] at h
  refine ⟨h, ?_, ?_, ?_⟩
  · simp only [h, List.length_drop, bytesRead]
    omega
  · unfold alignByte; split <;> simp only [bytesRead] <;> omega
  · intro hlt; unfold alignByte; rw [if_neg (by omega)]

example : (wavTake 2 2 4 3 ⟨[1, 0, 2, 0, 3, 0, 4, 0, 5, 0, 6, 0], [], false⟩).2.data = [5, 0, 6, 0]
    ∧ bytesRead 2 4 [1, 0, 2, 0, 3, 0, 4, 0, 5, 0, 6, 0] 3 = 8 := by decide

/-! ## "always in [−1, 1)" over the stored integers -/

/-- **C18.40** in the words of the property: for every width (any `bits ≥ 1`; 8 bit with its offset of
128) and every list of stored integers, every value the specification yields without `keep` lies in
`[−1, 1)`; the lowest stored integer gives exactly −1. -/
theorem stored_normalised_in_unit_interval {K : Type} [Field K] [LinearOrder K] [IsStrictOrderedRing K]
    (bits : Nat) (samples : List Int) (hst : ∀ n ∈ samples, stored bits n) (x : K)
    (hx : Sample.scaled x ∈ (wavSpec bits false samples : List (Sample K))) : (-1 : K) ≤ x ∧ x < 1 := by
  simp only [wavSpec, Bool.false_eq_true, if_false, List.mem_map] at hx
  obtain ⟨n, hn, hx⟩ := hx
  cases hx
  have hs := hst n hn
  unfold stored at hs
  by_cases h8 : bits = 8
  · subst h8
    simp only [if_true] at hs ⊢
    exact normalise_range 8 (n - 128) (by simp; omega) (by simp; omega)
  · simp only [if_neg h8] at hs ⊢
    exact normalise_range bits n hs.1 hs.2

example : ((wavSpec 8 false [0, 255, 128] : List (Sample Rat)).map fun | .scaled x => x | .raw _ => 7)
    = [-1, 127 / 128, 0] := by decide +kernel
example : stored 8 0 ∧ stored 8 255 ∧ stored 24 (-8388608) := by decide

/-! ## the model is what the source says (translator `harness/props/c18_tr.py`)

`ALV.Gen.C18.*` is rewritten from `audiolazy/lazy_wav.py` / `lazy_io.py` before every build.  Each theorem below says
that a regenerated definition IS the hand-written model function all theorems above are about; an edit of the source
that changes the meaning of one of these functions breaks its theorem on the next run. -/

/-- **C18.41** the `_unpackers` table of the source, as programs, is the table of the model … -/
theorem src_unpackers_is_model : ALV.Gen.C18.unpackers = unpackersModel := by decide

/-- … and the model's `unpacker` is what those programs compute: `WavStream._unpackers[bits]`, for every `bits`, is the
model's decoder of that width (`none` = KeyError). -/
theorem src_unpackers_run (bits : Nat) :
    (lookupNat bits ALV.Gen.C18.unpackers).map IExp.run = unpacker bits := by
  rw [src_unpackers_is_model, unpacker_eq_table]

example : (lookupNat 24 ALV.Gen.C18.unpackers).map (fun p => p.run [0x00, 0x00, 0x80]) = some (.ok (-8388608)) := by
  decide

/-- **C18.42** `def __init__(self, wave_file, keep=False)`: the parameter list the model binds calls to, and the value
of an omitted `keep`. -/
theorem src_init_signature_is_model :
    ALV.Gen.C18.initParams = wavParams ∧ bindWav [.file] [] = some (.file, ALV.Gen.C18.keepDefault) :=
  ⟨by decide, rfl⟩

/-- **C18.43** `block_reader` of the source (one frame per read, until `b""`) is the model's. -/
theorem src_block_reader_is_model : ALV.Gen.C18.blockReader = blockReader := by
  funext fs data
  simp [ALV.Gen.C18.blockReader, readLoop]

/-- **C18.44** `sample_reader` of the source is the model's (which is given `bits // 8` as the sample width). -/
theorem src_sample_reader_is_model :
    (fun channels bits frames => ALV.Gen.C18.sampleReader channels bits frames)
      = fun channels bits frames => sampleReader channels (bits / 8) frames := rfl

/-- **C18.45** `data_generator` of the source — table lookup, the `keep` branch, `d = 1 << (bits - 1)`, the 8-bit
override `ord(v) - 128`, the true division — is the model's. -/
theorem src_data_generator_is_model {K : Type} [IntCast K] [Div K] :
    @ALV.Gen.C18.dataGenerator K _ _ = @dataGenerator K _ _ := by
  funext bits keep samples
  exact gen_dataGenerator_eq bits keep samples

/-- **C18.46** `WavStream.__init__` of the source (rate, channels, `bits = 8 * sampwidth`, the chain
`data_generator ∘ sample_reader ∘ block_reader`) is the model's `wavStream`. -/
theorem src_wavstream_is_model {K : Type} [IntCast K] [Div K] :
    @ALV.Gen.C18.wavStream K _ _ = @wavStream K _ _ := by
  funext f keep
  simp only [ALV.Gen.C18.wavStream, wavStream, src_data_generator_is_model, src_block_reader_is_model]
  rfl

example : ((ALV.Gen.C18.wavStream ⟨2, 2, 8000, [0xFF, 0x7F, 0x00, 0x80]⟩ true : WavObs Rat).gen.out.map
    fun | .raw n => n | .scaled _ => 0) = [32767, -32768] := by decide +kernel

/-- **C18.47** `chunks.struct` of the source — the format string `[byte_order] str(size) dfmt`, `struct.Struct`, one
`pack(*block)` per block of `blocks(seq, size, padval=padval)` — is the model's, for every size ≥ 1; in particular the
item count of the format always matches the block (`struct.error` for a wrong count, `none` here, never occurs). -/
theorem src_chunks_struct_is_model (native : Order) (a : OrderArg) (fmt : Fmt) (size : Nat) (hs : 0 < size)
    (pad : PVal) (xs : List PVal) :
    ALV.Gen.C18.chunksStruct native a fmt size pad xs = (chunksStructPy native a fmt size pad xs).someErr :=
  gen_chunksStruct_eq native a fmt size hs pad xs

example : (ALV.Gen.C18.chunksStruct .little .gt .h 2 (.int 0) [.int 1, .int 2, .int 3]).out
    = [[0, 1, 0, 2], [0, 3, 0, 0]] := by decide +kernel

/-- **C18.48** the byte-order table of `chunks.array` is the model's … -/
theorem src_array_order_is_model : ALV.Gen.C18.arrayOrderTable = orderTableModel := by decide

/-- … so the order `chunks.array` exports in is the one the model resolves for every spelling of `byte_order`, and the
source's `swap` is exactly the test of `exportCells` (`order = native` = no swap). -/
theorem src_array_swap_is_model (native : Order) (a : OrderArg) :
    ALV.Gen.C18.arraySwap native a = (resolveOrder native a.order != native)
    ∧ ∀ cells, exportCells native (resolveOrder native a.order) cells
        = (if ALV.Gen.C18.arraySwap native a then cells.map List.reverse else cells).flatten := by
  have h : ALV.Gen.C18.arraySwap native a = (resolveOrder native a.order != native) := by
    unfold ALV.Gen.C18.arraySwap
    rw [src_array_order_is_model, orderGet_model]
  refine ⟨h, fun cells => ?_⟩
  rw [h]
  unfold exportCells
  cases native <;> cases (resolveOrder _ a.order) <;> rfl

/-- **C18.49** `chunks.array` of the source, statement by statement — the working array `array.array(dfmt, [0] * size)` as a
list of `size` cells (machine representation of each item), `chunk[idx] = el` as `set` after the array module's
conversion (which may raise), the `idx` bookkeeping, the `export()` closure (`tobytes`, after a `byteswap` of a copy when
`swap`), the fill loop with its `yield export()` / `idx = 0`, the end-of-input test, the pad loop over
`xrange(idx, size)` and the last partial chunk — IS the model's array strategy, for every machine order, spelling of the
byte order, format, size, pad value and input (no side condition).  Every theorem above about `chunksArrayPy`
(`chunksArray`, `aLoop`, `aFill`, `exportCells`) is from here on a theorem about the regenerated definition. -/
theorem src_chunks_array_is_model (native : Order) (a : OrderArg) (fmt : Fmt) (size : Nat) (pad : PVal) (xs : List PVal) :
    ALV.Gen.C18.chunksArray native a fmt size pad xs = chunksArrayPy native a fmt size pad xs :=
  gen_chunksArray_eq native a fmt size pad xs (src_array_swap_is_model native a).1

/-- the pieces: `export()` is `exportCells`, the pad loop is `aFill` -/
theorem src_array_export_is_model (native : Order) (a : OrderArg) (cells : List Bytes) :
    ALV.Gen.C18.arrayExport native a cells = exportCells native (resolveOrder native a.order) cells :=
  gen_arrayExport_eq native a cells (src_array_swap_is_model native a).1

/-- **C18.50** transfer of C18.32 to the regenerated code: what the source's `chunks.array` yields (and where it stops,
with which failure) is what the source's `chunks.struct` yields, for every format of the table, every spelling of the byte
order, machine order, size ≥ 1, pad value and sequence of Python numbers, provided no finite double overflows the 32-bit
float format (void for every format other than f). -/
theorem src_chunks_array_eq_src_chunks_struct (native : Order) (a : OrderArg) (fmt : Fmt) (size : Nat) (hs : 0 < size)
    (pad : PVal) (xs : List PVal)
    (hf : fmt = .f → ∀ x ∈ pad :: xs, leElem true .f x = leElem false .f x) :
    (ALV.Gen.C18.chunksArray native a fmt size pad xs).someErr = ALV.Gen.C18.chunksStruct native a fmt size pad xs := by
  rw [src_chunks_array_is_model, src_chunks_struct_is_model native a fmt size hs,
    chunks_table_struct_eq_array native a fmt size hs pad xs hf]

/-- non-vacuity: big-endian on a little-endian machine (the swapping branch of `export()`), a full chunk and a padded one;
a value outside the format stops both strategies after the first chunk -/
example : (ALV.Gen.C18.chunksArray .little .gt .h 2 (.int 7) [.int 1, .int 2, .int 3])
    = ⟨[[0, 1, 0, 2], [0, 3, 0, 7]], none⟩ := by rfl
example : (ALV.Gen.C18.chunksArray .little .lt .h 2 (.int 0) [.int 1, .int 2, .int 32768, .int 5])
    = ⟨[[1, 0, 2, 0]], some .range⟩ := by rfl


end ALV.Props.C18

#write_audit "C18"
