/-
  C16 — the definitions REGENERATED from the source (`ALV.Gen.C16`, written by harness/props/c16_tr.py from
  audiolazy/lazy_stream.py on every check) are the hand-written machines of `ALV.Model.C16Gen` / `C16X` / `C16`.
  Core Lean only.  The proofs unfold both sides and split on what the code splits on, so that a rewrite of the
  source that keeps the meaning (statement order inside the start loop, a removal block without its guard) still
  goes through, while a changed comparison / constant / order of effects does not.
-/
import ALV.Gen.C16Src
namespace ALV.C16
variable {α β ε : Type}

theorem src_startLoop (count : Rat) (q : List (Rat × Snd α)) (playing : List (Snd α)) :
    ALV.Gen.C16.startLoop count q playing = pstartLoop count q playing := by
  induction q generalizing count playing with
  | nil => rfl
  | cons hd q ih =>
    obtain ⟨d, nd⟩ := hd
    simp only [ALV.Gen.C16.startLoop, pstartLoop, ih]

theorem src_sumLoop [Add α] (data : α) (ps : List (Snd α)) :
    ALV.Gen.C16.sumLoop data ps = sumLoop data ps := by
  induction ps generalizing data with
  | nil => rfl
  | cons snd ps ih =>
    obtain ⟨i, rest⟩ := snd
    cases rest with
    | nil => simp only [ALV.Gen.C16.sumLoop, sumLoop, ih]
    | cons x xs => simp only [ALV.Gen.C16.sumLoop, sumLoop, ih]

theorem src_removeLoop (l : List Nat) (playing : List (Snd α)) :
    ALV.Gen.C16.removeLoop l playing = removeAll l playing := by
  induction l generalizing playing with
  | nil => rfl
  | cons i l ih => simp only [ALV.Gen.C16.removeLoop, removeAll, ih]

/-- `if to_remove: …` around the removal loop changes nothing: the loop over an empty list does nothing -/
theorem guarded_removeLoop (l : List Nat) (playing : List (Snd α)) :
    (if l.isEmpty = false then removeAll l playing else playing) = removeAll l playing := by
  cases l with
  | nil => rfl
  | cons i l => simp only [List.isEmpty_cons, if_true]

theorem src_xsumLoop [XAdd ε α] (data : α) (ps : List (Snd (Except ε α))) :
    ALV.Gen.C16.xsumLoop data ps = xsumLoop data ps := by
  induction ps generalizing data with
  | nil => rfl
  | cons snd ps ih =>
    obtain ⟨i, rest⟩ := snd
    cases rest with
    | nil =>
      simp only [ALV.Gen.C16.xsumLoop, xsumLoop, ih]
      rcases xsumLoop data ps with ⟨e, pl⟩ | r <;> rfl
    | cons x xs =>
      cases x with
      | error e => simp only [ALV.Gen.C16.xsumLoop, xsumLoop]
      | ok x =>
        simp only [ALV.Gen.C16.xsumLoop, xsumLoop]
        cases XAdd.xadd (ε := ε) data x with
        | error e => rfl
        | ok d =>
          simp only [ih]
          rcases xsumLoop d ps with ⟨e, pl⟩ | r <;> rfl

/-- the stop test `not (self.keep or self._playing or self._not_playing)` in the two spellings -/
theorem stop_test (k a b : Bool) :
    ((!(k || !a || !b)) = true) ↔ (k = false ∧ a = true ∧ b = true) := by
  cases k <;> cases a <;> cases b <;> decide

theorem src_next [Add α] (zero : α) (s : PState α) : ALV.Gen.C16.next zero s = pnext zero s := by
  unfold ALV.Gen.C16.next pnext
  simp only [src_startLoop, src_sumLoop, src_removeLoop, guarded_removeLoop, stop_test]

theorem src_xnext [XAdd ε α] (zero : α) (s : PState (Except ε α)) : ALV.Gen.C16.xnext zero s = xnext zero s := by
  unfold ALV.Gen.C16.xnext xnext
  simp only [src_startLoop, src_xsumLoop, src_removeLoop, guarded_removeLoop, stop_test]
  split
  · rfl
  · rcases xsumLoop zero _ with ⟨e, pl⟩ | r <;> rfl

theorem src_add (s : PState α) (delta : Rat) (data : List α) : ALV.Gen.C16.add s delta data = padd s delta data := by
  unfold ALV.Gen.C16.add padd; rfl

theorem src_xadd (s : PState (Except ε α)) (delta : Rat) (data : List (Except ε α)) :
    ALV.Gen.C16.xadd s delta data = xadd s delta data := by
  unfold ALV.Gen.C16.xadd xadd; rfl

theorem src_xaddFail (s : PState (Except ε α)) (delta : Rat) (e : ε) :
    ALV.Gen.C16.xaddFail (α := α) s delta e = xaddFail s delta e := by
  unfold ALV.Gen.C16.xaddFail xaddFail; rfl

/-! ### the machines assembled from the regenerated functions (the history loop itself — which method the caller
    invokes next — is not code of the repo; an assignment to `keep` is a plain attribute store) -/

/-- one operation of a history, dispatched to the regenerated `add` / `next` -/
def gstep [Add α] (zero : α) (s : PState α) : Op α → PState α × Obs α
  | .add d x => ALV.Gen.C16.add s d x
  | .next => ALV.Gen.C16.next zero s
  | .setKeep b => ({ s with keep := b }, .ok)

def grun [Add α] (zero : α) : PState α → List (Op α) → PState α × List (Obs α)
  | s, [] => (s, [])
  | s, op :: ops =>
    let r := gstep zero s op
    let t := grun zero r.1 ops
    (t.1, r.2 :: t.2)

def gxstep [XAdd ε α] (zero : α) (s : PState (Except ε α)) : XOp ε α → PState (Except ε α) × XObs ε α
  | .add d x => ALV.Gen.C16.xadd s d x
  | .addFail d e => ALV.Gen.C16.xaddFail s d e
  | .next => ALV.Gen.C16.xnext zero s
  | .setKeep b => ({ s with keep := b }, .ok)

def gxrun [XAdd ε α] (zero : α) : PState (Except ε α) → List (XOp ε α) → PState (Except ε α) × List (XObs ε α)
  | s, [] => (s, [])
  | s, op :: ops =>
    let r := gxstep zero s op
    let t := gxrun zero r.1 ops
    (t.1, r.2 :: t.2)

/-- a history on a ControlStream, run with the regenerated read -/
def gcrun : β → List (COp β) → List (Option β)
  | _, [] => []
  | _, .set v :: ops => none :: gcrun v ops
  | value, .read :: ops => (ALV.Gen.C16.cread value).2 :: gcrun (ALV.Gen.C16.cread value).1 ops

theorem gstep_eq [Add α] (zero : α) (s : PState α) (op : Op α) : gstep zero s op = pstep zero s op := by
  cases op <;> simp only [gstep, pstep, src_add, src_next]

theorem grun_eq [Add α] (zero : α) (s : PState α) (ops : List (Op α)) : grun zero s ops = prun zero s ops := by
  induction ops generalizing s with
  | nil => rfl
  | cons op ops ih => simp only [grun, prun, gstep_eq, ih]

theorem gxstep_eq [XAdd ε α] (zero : α) (s : PState (Except ε α)) (op : XOp ε α) :
    gxstep zero s op = xstep zero s op := by
  cases op <;> simp only [gxstep, xstep, src_xadd, src_xaddFail, src_xnext]

theorem gxrun_eq [XAdd ε α] (zero : α) (s : PState (Except ε α)) (ops : List (XOp ε α)) :
    gxrun zero s ops = xrun zero s ops := by
  induction ops generalizing s with
  | nil => rfl
  | cons op ops ih => simp only [gxrun, xrun, gxstep_eq, ih]

theorem gcrun_eq (value : β) (ops : List (COp β)) : gcrun value ops = crun value ops := by
  induction ops generalizing value with
  | nil => rfl
  | cons op ops ih => cases op <;> simp only [gcrun, crun, cstep, ALV.Gen.C16.cread, ih]

end ALV.C16
