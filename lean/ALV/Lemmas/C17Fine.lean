/-
  C17 — the fine-grained system (`ALV.Model.C17Fine`: every pull of a sample is a step):

  * `own_reach`  : in EVERY reachable state (failing iterables included, both repairs) what a
                   device stream received plus what sits in the player's chunk buffer plus what is
                   still unpulled is that player's own audio — the buffer of a player is a function
                   of its own pulled samples only; every chunk written has exactly `cs` samples;
  * `sim_reach`  : when no iterable raises, every fine step is a coarse step or a stutter step
                   (a pull), so the coarse state carried along is `Reach`able in the coarse system:
                   the fine system refines the coarse one, for every schedule.
  Core Lean only.
-/
import ALV.Model.C17Fine
import ALV.Lemmas.C17Base
import ALV.Lemmas.C17Chunks
import ALV.Lemmas.C17Live
namespace ALV.C17
open ALV.C08

/-! ### chunks of a buffer followed by the rest of the iterable -/

theorem chunksOf_nil_iff (cs : Nat) (hs : 0 < cs) (xs : List Int) :
    (chunksOf cs xs).isEmpty = xs.isEmpty := by
  rw [chunksOf_eq_blocksSpec cs hs, blocksSpec]
  cases xs with
  | nil => simp
  | cons x r =>
    by_cases hlt : (x :: r).length < cs
    · have hc : (x :: r).length < cs ∨ cs = 0 ∨ cs = 0 := Or.inl hlt
      rw [dif_pos hc]
      have hgt : (((x :: r).length : Nat) : Int) > max ((cs : Int) - cs) 0 := by simp
      rw [if_pos hgt]; simp
    · have hc : ¬ ((x :: r).length < cs ∨ cs = 0 ∨ cs = 0) := by omega
      rw [dif_neg hc]; simp

/-- a full buffer is the next chunk -/
theorem chunksOf_full (cs : Nat) (hs : 0 < cs) (buf rest : List Int) (hl : buf.length = cs) :
    chunksOf cs (buf ++ rest) = buf :: chunksOf cs rest := by
  rw [chunksOf_eq_blocksSpec cs hs, chunksOf_eq_blocksSpec cs hs, blocksSpec]
  have hc : ¬ ((buf ++ rest).length < cs ∨ cs = 0 ∨ cs = 0) := by
    simp only [List.length_append]; omega
  rw [dif_neg hc, List.take_left' hl, List.drop_left' hl]

/-- at the end of the iterable a partly filled buffer is padded with zeros -/
theorem chunksOf_short (cs : Nat) (buf : List Int) (hne : buf ≠ []) (hl : buf.length < cs) :
    chunksOf cs buf = [buf ++ List.replicate (cs - buf.length) 0] := by
  have hs : 0 < cs := by omega
  rw [chunksOf_eq_blocksSpec cs hs, blocksSpec]
  have hc : buf.length < cs ∨ cs = 0 ∨ cs = 0 := Or.inl hl
  rw [dif_pos hc]
  have hpos : 0 < buf.length := List.length_pos_iff.mpr hne
  have hgt : ((buf.length : Nat) : Int) > max ((cs : Int) - cs) 0 := by simp; omega
  rw [if_pos hgt]

/-! ### reachability in the fine system -/

inductive ReachF (fc : FCfg) (script : List Cmd) : FState → Prop
  | init : ReachF fc script (initF script)
  | step {fs fs' : FState} {t : Tid} :
      ReachF fc script fs → stepF fc fs t = some fs' → ReachF fc script fs'

/-- what the chunk generator of a player depends on -/
structure PCore where
  audio : List Int
  cs : Nat
  written : List (List Int)
  todo : List (List Int)
  fail : Bool
  deriving DecidableEq

def core (p : Player) : PCore :=
  { audio := p.audio, cs := p.cs, written := p.written, todo := p.todo, fail := p.fail }

/-- is the player inside the chunk generator / about to write? -/
def atW (p : Player) : Bool := p.pc == .write

theorem map_set_same {α β} (f : α → β) (l : List α) (i : Nat) (p p' : α)
    (h : l[i]? = some p) (hf : f p' = f p) : (l.set i p').map f = l.map f := by
  apply List.ext_getElem?
  intro k
  rw [List.getElem?_map, List.getElem?_map, List.getElem?_set]
  by_cases hk : i = k
  · subst hk
    obtain ⟨hlt, rfl⟩ := List.getElem?_eq_some_iff.mp h
    simp [hlt, hf]
  · simp [hk]

/-- the `AudioThread` object `play` creates -/
def freshPlayer (a : List Int) (c : Nat) (f : Bool) : Player :=
  { pc := .new, audio := a, cs := c, all := playChunks c a f, todo := playChunks c a f, written := [],
    sst := .unopened, lk := none, go := false, halting := false, fail := f }

/-- the control script never touches what a chunk generator depends on; it creates players -/
theorem stepMain_core (cfg : Cfg) (s s' : State) (h : stepMain cfg s = some s') :
    s'.players.map core = s.players.map core ∨
    ∃ a c, s.mpc = .pAcq a c ∧
      s'.players = s.players ++ [freshPlayer a c (cfg.fails.getD s.players.length false)] := by
  unfold stepMain at h
  split at h <;> (try split at h) <;> (try split at h) <;> (try split at h) <;> (try cases h) <;>
    (first
      | (left; simp [setP]; done)
      | (right; exact ⟨_, _, by assumption, rfl⟩)
      | (left
         first
           | (simp only [setP]
              refine map_set_same core _ _ _ _ (by assumption) ?_
              simp [core]; done)
           | (simp only [next_players, setP]
              refine map_set_same core _ _ _ _ (by assumption) ?_
              simp [core]; done)))

/-- … and it moves no player into or out of its chunk generator (`th.start()` is issued on an
    object that is still under construction) -/
theorem stepMain_atW (cfg : Cfg) (s s' : State) (h : stepMain cfg s = some s')
    (hnew : ∀ i p, s.mpc = .pStart i → s.players[i]? = some p → p.pc = .new) :
    s'.players.map atW = s.players.map atW ∨
    ∃ a c f, s'.players = s.players ++ [freshPlayer a c f] := by
  unfold stepMain at h
  split at h <;> (try split at h) <;> (try split at h) <;> (try split at h) <;> (try cases h) <;>
    (first
      | (left; simp [setP]; done)
      | (right; exact ⟨_, _, _, rfl⟩)
      | (left
         first
           | (simp only [setP]
              refine map_set_same atW _ _ _ _ (by assumption) ?_
              simp [atW]; done)
           | (simp only [next_players, setP]
              refine map_set_same atW _ _ _ _ (by assumption) ?_
              simp [atW]; done)
           | (simp only [setP]
              refine map_set_same atW _ _ _ _ (by assumption) ?_
              rename_i hm _ q hq
              have hq' : q.pc = .new := hnew _ q hm hq
              simp [atW, hq']; rfl)))

theorem set_self {α} (l : List α) (i : Nat) (p : α) (h : l[i]? = some p) : l.set i p = l := by
  apply List.ext_getElem?
  intro k
  rw [List.getElem?_set]
  by_cases hk : i = k
  · subst hk
    obtain ⟨hlt, rfl⟩ := List.getElem?_eq_some_iff.mp h
    simp [hlt]
  · simp [hk]

/-- the steps of `run` outside the chunk generator: one player record changes, nothing the
    chunk generator depends on, and the player is not at `write` before or after -/
theorem stepPlayer_rest (cfg : Cfg) (s s' : State) (i : Nat) (p : Player)
    (hp : s.players[i]? = some p) (h : stepPlayer cfg s i = some s')
    (h1 : p.pc ≠ .begin) (h2 : p.pc ≠ .isSet) (h3 : p.pc ≠ .startStream) (h4 : p.pc ≠ .write) :
    ∃ p', s'.players = s.players.set i p' ∧ core p' = core p ∧ atW p' = false ∧ atW p = false := by
  unfold stepPlayer at h
  rw [hp] at h
  simp only at h
  have hw : atW p = false := by simp [atW, h4]
  split at h <;> (try split at h) <;> (try cases h) <;> (try contradiction) <;>
    exact ⟨_, rfl, by simp [core], by simp only [atW]; (try split) <;> decide, hw⟩

/-! ### invariants over (player, chunk assembly) pairs -/

/-- every player has its `Asm`, and `G` holds of what `f` shows of the player and of the `Asm` -/
def AllF {β : Type} (f : Player → β) (fs : FState) (G : β → Asm → Prop) : Prop :=
  fs.asm.length = fs.base.players.length ∧
  ∀ (k : Nat) (p : Player) (a : Asm), fs.base.players[k]? = some p → fs.asm[k]? = some a → G (f p) a

theorem AllF_init {β : Type} (f : Player → β) (G : β → Asm → Prop) (script : List Cmd) :
    AllF f (initF script) G := by
  refine ⟨rfl, ?_⟩
  intro k p a hk; simp [initF, init] at hk

/-- a step that changes player `i` and its `Asm` (possibly to themselves) -/
theorem AllF_update {β : Type} {f : Player → β} {G : β → Asm → Prop} {fs fs' : FState} {i : Nat}
    {p p' : Player} {a a' : Asm} (hp : fs.base.players[i]? = some p) (ha : fs.asm[i]? = some a)
    (hps : fs'.base.players = fs.base.players.set i p') (has : fs'.asm = fs.asm.set i a')
    (inv : AllF f fs G) (hstep : G (f p) a → G (f p') a') : AllF f fs' G := by
  obtain ⟨hl, hall⟩ := inv
  refine ⟨by rw [hps, has]; simpa using hl, ?_⟩
  intro k q b hk hb
  rw [hps, List.getElem?_set] at hk
  rw [has, List.getElem?_set] at hb
  by_cases hik : i = k
  · subst hik
    simp only [if_true] at hk hb
    split at hk
    · split at hb
      · cases hk; cases hb; exact hstep (hall i p a hp ha)
      · cases hb
    · cases hk
  · simp only [hik, if_false] at hk hb
    exact hall k q b hk hb

/-- a step of the control script that creates no player -/
theorem AllF_main_same {β : Type} {f : Player → β} {G : β → Asm → Prop} (fc : FCfg) {fs : FState}
    {s' : State} (hm : s'.players.map f = fs.base.players.map f) (inv : AllF f fs G) :
    AllF f { base := s', asm := syncAsm fc s'.players fs.asm } G := by
  obtain ⟨hl, hall⟩ := inv
  have hlen : s'.players.length = fs.base.players.length := by
    have := congrArg List.length hm; simpa using this
  have hnone : s'.players[fs.asm.length]? = none := by
    rw [List.getElem?_eq_none]; omega
  have hsync : syncAsm fc s'.players fs.asm = fs.asm := by simp [syncAsm, hnone]
  refine ⟨by simp only [hsync]; omega, ?_⟩
  intro k q b hk hb
  simp only [hsync] at hb
  simp only at hk
  have h1 : (s'.players.map f)[k]? = some (f q) := by rw [List.getElem?_map, hk]; rfl
  rw [hm, List.getElem?_map] at h1
  cases hq : fs.base.players[k]? with
  | none => rw [hq] at h1; cases h1
  | some q0 =>
    rw [hq] at h1
    simp only [Option.map_some, Option.some.injEq] at h1
    rw [← h1]; exact hall k q0 b hq hb

/-- `play`: one player more, with a fresh `Asm` -/
theorem AllF_main_new {β : Type} {f : Player → β} {G : β → Asm → Prop} (fc : FCfg) {fs : FState}
    {s' : State} {p' : Player} (hm : s'.players = fs.base.players ++ [p']) (inv : AllF f fs G)
    (hnew : G (f p') (newAsm fc fs.base.players.length p')) :
    AllF f { base := s', asm := syncAsm fc s'.players fs.asm } G := by
  obtain ⟨hl, hall⟩ := inv
  have hsome : s'.players[fs.asm.length]? = some p' := by rw [hm, hl]; simp
  have hsync : syncAsm fc s'.players fs.asm = fs.asm ++ [newAsm fc fs.asm.length p'] := by
    simp [syncAsm, hsome]
  refine ⟨by show (syncAsm fc s'.players fs.asm).length = s'.players.length; rw [hsync, hm]; simp [hl], ?_⟩
  intro k q b hk hb
  simp only [hsync] at hb
  simp only [hm] at hk
  by_cases hlt : k < fs.base.players.length
  · rw [List.getElem?_append_left hlt] at hk
    rw [List.getElem?_append_left (by omega)] at hb
    exact hall k q b hk hb
  · by_cases heq : k = fs.base.players.length
    · subst heq
      simp at hk
      rw [← hl] at hb
      simp at hb
      subst hk; subst hb; rw [hl]; exact hnew
    · rw [List.getElem?_eq_none (by simp; omega)] at hk; cases hk

/-! ### the chunk buffer of a player holds that player's own samples (every configuration) -/

/-- what the device stream received, then the buffer, then what is still unpulled, is the audio
    (or, once the last chunk was padded, the stream holds the audio followed by zeros); the buffer
    never overflows; every chunk written has exactly `cs` samples -/
structure Own (c : PCore) (a : Asm) : Prop where
  len : a.buf.length ≤ c.cs
  own : c.written.flatten ++ a.buf ++ a.rest = c.audio ∨
        (a.rest = [] ∧ a.buf = [] ∧ ∃ n, c.written.flatten = c.audio ++ List.replicate n 0)
  full : ∀ ch ∈ c.written, ch.length = c.cs

theorem own_write (c : PCore) (a : Asm) (h : Own c a)
    (hr : a.buf.length = c.cs ∨ a.rest = []) :
    Own { c with written := c.written ++ [a.buf ++ List.replicate (c.cs - a.buf.length) 0],
                 todo := c.todo.tail } { a with buf := [] } := by
  obtain ⟨h1, h2, h3⟩ := h
  refine ⟨by simp, ?_, ?_⟩
  · simp only [List.flatten_append, List.flatten_cons, List.flatten_nil, List.append_nil]
    rcases hr with hr | hr
    · rw [hr, Nat.sub_self, List.replicate_zero, List.append_nil]
      rcases h2 with h2 | ⟨e1, e2, n, e3⟩
      · left; simpa using h2
      · right; refine ⟨e1, trivial, n, ?_⟩; rw [e2, List.append_nil]; exact e3
    · right
      rcases h2 with h2 | ⟨_, e2, n, e3⟩
      · refine ⟨hr, trivial, c.cs - a.buf.length, ?_⟩
        rw [hr, List.append_nil] at h2
        rw [← h2]; simp
      · refine ⟨hr, trivial, n + c.cs, ?_⟩
        rw [e2, e3]; simp [List.append_assoc]
  · intro ch hch
    rcases List.mem_append.mp hch with hch | hch
    · exact h3 ch hch
    · simp only [List.mem_singleton] at hch
      subst hch; simp; omega

theorem own_pull (c : PCore) (a : Asm) (x : Int) (r : List Int) (h : Own c a)
    (hrest : a.rest = x :: r) (hn : a.buf.length ≠ c.cs) :
    Own c { a with rest := r, buf := a.buf ++ [x] } := by
  obtain ⟨h1, h2, h3⟩ := h
  refine ⟨by simp; omega, ?_, h3⟩
  rcases h2 with h2 | ⟨e1, _, _⟩
  · left; rw [hrest] at h2; simpa using h2
  · rw [hrest] at e1; cases e1

theorem own_stepPlayerF (fc : FCfg) (fs fs' : FState) (i : Nat)
    (h : stepPlayerF fc fs i = some fs') (inv : AllF core fs Own) : AllF core fs' Own := by
  unfold stepPlayerF at h
  split at h
  · rename_i p a hp ha
    simp only at h
    split at h
    · cases h
      exact AllF_update hp ha rfl (set_self _ _ _ ha).symm inv (by simp [core])
    · cases h
      exact AllF_update hp ha rfl (set_self _ _ _ ha).symm inv (by simp [core])
    · cases h
      exact AllF_update hp ha rfl (set_self _ _ _ ha).symm inv (by simp [core])
    · split at h
      · rename_i hready
        cases h
        refine AllF_update hp ha rfl rfl inv (fun hO => ?_)
        have hr : a.buf.length = p.cs ∨ a.rest = [] := by
          simp only [chunkReady, Bool.or_eq_true, beq_iff_eq, Bool.and_eq_true,
            List.isEmpty_iff] at hready
          rcases hready with hready | hready
          · exact Or.inl hready
          · exact Or.inr hready.1
        exact own_write (core p) a hO hr
      · rename_i hready
        have hn : a.buf.length ≠ p.cs := by
          intro e; apply hready; simp [chunkReady, e]
        split at h
        · rename_i x r hrest
          cases h
          exact AllF_update hp ha (set_self _ _ _ hp).symm rfl inv
            (fun hO => own_pull (core p) a x r hO hrest hn)
        · cases h
          exact AllF_update hp ha rfl (set_self _ _ _ ha).symm inv (by simp [core])
    · rename_i h1 h2 h3 h4
      cases hs : stepPlayer fc.cfg fs.base i with
      | none => rw [hs] at h; cases h
      | some s' =>
        rw [hs] at h
        cases h
        obtain ⟨p', hps, hc, _, _⟩ := stepPlayer_rest fc.cfg fs.base s' i p hp hs h1 h2 h3 h4
        exact AllF_update hp ha hps (set_self _ _ _ ha).symm inv (by rw [hc]; exact id)
  · cases h

theorem own_stepMainF (fc : FCfg) (fs fs' : FState) (h : stepMainF fc fs = some fs')
    (inv : AllF core fs Own) : AllF core fs' Own := by
  unfold stepMainF at h
  cases hs : stepMain fc.cfg fs.base with
  | none => rw [hs] at h; cases h
  | some s' =>
    rw [hs] at h
    cases h
    rcases stepMain_core fc.cfg fs.base s' hs with hm | ⟨a, c, hm⟩
    · exact AllF_main_same fc hm inv
    · obtain ⟨_, hm⟩ := hm
      refine AllF_main_new fc hm inv ?_
      exact ⟨by simp [newAsm, core, freshPlayer], by left; simp [newAsm, core, freshPlayer],
             by simp [core, freshPlayer]⟩

/-- **the central invariant**, for every schedule of every configuration (iterables that raise
    included, with or without the repairs) -/
theorem own_reach {fc : FCfg} {script : List Cmd} {fs : FState} (h : ReachF fc script fs) :
    AllF core fs Own := by
  induction h with
  | init => exact AllF_init _ _ _
  | step _ hs ih =>
    rename_i fs fs' t _
    cases t with
    | main => exact own_stepMainF fc fs fs' hs ih
    | player i => exact own_stepPlayerF fc fs fs' i hs ih

/-! ### the call being issued is a call of the script -/

theorem nextCmd_pAcq (sc : List Cmd) : ∀ (X : State) (a : List Int) (c : Nat),
    (nextCmd X sc).mpc = .pAcq a c → Cmd.play a c ∈ sc := by
  induction sc with
  | nil => intro X a c h; simp [nextCmd] at h
  | cons cmd rest ih =>
    intro X a c h
    cases cmd with
    | play a' c' =>
      simp only [nextCmd, MPc.pAcq.injEq] at h
      obtain ⟨rfl, rfl⟩ := h
      exact List.mem_cons_self
    | close => simp [nextCmd] at h
    | ctl k i =>
      simp only [nextCmd] at h
      split at h
      · simp at h
      · exact List.mem_cons_of_mem _ (ih _ a c h)
    | join i =>
      simp only [nextCmd] at h
      split at h
      · simp at h
      · exact List.mem_cons_of_mem _ (ih _ a c h)

theorem pacq_stepMain (cfg : Cfg) (script : List Cmd) (s s' : State)
    (h : stepMain cfg s = some s') (scr : SCR script s) :
    ∀ a c, s'.mpc = .pAcq a c → Cmd.play a c ∈ script := by
  unfold stepMain at h
  cases hm : s.mpc <;> simp only [hm] at h <;>
    (try split at h) <;> (try split at h) <;> (try split at h) <;> (try cases h) <;>
  (first
    | (intro a c hh; simp at hh; done)
    | (intro a c hh; exact scr.sub _ (nextCmd_pAcq _ _ a c hh))
    | (intro a c hh; unfold State.next at hh; exact scr.sub _ (nextCmd_pAcq _ _ a c hh))
    | (intro a c hh; split at hh <;> simp at hh; done))

theorem pacq_reach {cfg : Cfg} {script : List Cmd} {s : State} (h : Reach cfg script s) :
    ∀ a c, s.mpc = .pAcq a c → Cmd.play a c ∈ script := by
  induction h with
  | init => intro a c h; simp [init] at h
  | step hr hs ih =>
    rename_i s s' t
    cases t with
    | main => exact pacq_stepMain cfg script s s' hs (scr_reach hr)
    | player i =>
      intro a c h
      rw [(stepPlayer_frame cfg s s' i hs).1] at h
      exact ih a c h

/-! ### refinement: without failing iterables a fine step is a coarse step or a stutter step -/

/-- no played iterable raises -/
def NoFail (fc : FCfg) : Prop := ∀ b, b ∈ fc.cfg.fails → b = false

/-- every `play` call of the script has a positive chunk size -/
def PosCs (script : List Cmd) : Prop := ∀ a c, Cmd.play a c ∈ script → 0 < c

/-- `PosCs` as a check of the script -/
def posCsB : List Cmd → Bool
  | [] => true
  | .play _ c :: l => decide (0 < c) && posCsB l
  | .ctl _ _ :: l => posCsB l
  | .join _ :: l => posCsB l
  | .close :: l => posCsB l

theorem posCs_of_check : ∀ (script : List Cmd), posCsB script = true → PosCs script := by
  intro script
  induction script with
  | nil => intro _ a c h; simp at h
  | cons cmd rest ih =>
    intro hb a c h
    cases cmd with
    | play a' c' =>
      simp only [posCsB, Bool.and_eq_true, decide_eq_true_eq] at hb
      rcases List.mem_cons.mp h with h | h
      · simp only [Cmd.play.injEq] at h; obtain ⟨_, rfl⟩ := h; exact hb.1
      · exact ih hb.2 a c h
    | ctl k i =>
      rcases List.mem_cons.mp h with h | h
      · cases h
      · exact ih hb a c h
    | join i =>
      rcases List.mem_cons.mp h with h | h
      · cases h
      · exact ih hb a c h
    | close =>
      rcases List.mem_cons.mp h with h | h
      · cases h
      · exact ih hb a c h

/-- what the refinement looks at: the chunk generator's data and "is at `write`" -/
def genView (p : Player) : PCore × Bool := (core p, atW p)

/-- the ghost `todo` of the coarse record is the chunk sequence of what the chunk generator still
    holds (buffer, then unpulled samples); the buffer is empty outside the generator -/
structure Ref (fc : FCfg) (d : PCore × Bool) (a : Asm) : Prop where
  pos : 0 < d.1.cs
  fl : a.fail = d.1.fail
  ok : fc.dieFixed = true ∨ a.fail = false
  todo : d.1.todo = playChunks d.1.cs (a.buf ++ a.rest) a.fail
  idle : d.2 = false → a.buf = [] ∨ a.fail = true
  busy : d.2 = true → a.buf ++ a.rest ≠ [] ∨ a.fail = true
  len : a.buf.length ≤ d.1.cs

/-- the hypothesis of the refinement: `run` has its `try … finally` (an iterable that raises sends
    the thread to its epilogue), or no played iterable raises -/
def Sound (fc : FCfg) : Prop := fc.dieFixed = true ∨ NoFail fc

theorem playChunks_false (cs : Nat) (xs : List Int) : playChunks cs xs false = chunksOf cs xs := by
  simp [playChunks]

/-- a full buffer is the next chunk, for an iterable that raises at its end too -/
theorem playChunks_full (cs : Nat) (hs : 0 < cs) (buf rest : List Int) (f : Bool)
    (hl : buf.length = cs) : playChunks cs (buf ++ rest) f = buf :: playChunks cs rest f := by
  cases f with
  | false => simp only [playChunks_false]; exact chunksOf_full cs hs buf rest hl
  | true =>
    simp only [playChunks, if_true]
    rw [chunksOf_full cs hs buf rest hl, List.length_append, hl, Nat.add_div_left _ hs,
      List.take_succ_cons]

/-- fewer samples than a chunk and then an exception: no chunk -/
theorem playChunks_short_fail (cs : Nat) (xs : List Int) (hl : xs.length < cs) :
    playChunks cs xs true = [] := by
  simp [playChunks, Nat.div_eq_of_lt hl]

theorem chunksOf_nil (cs : Nat) (hs : 0 < cs) : chunksOf cs [] = [] := by
  have := chunksOf_nil_iff cs hs []
  simpa using this

theorem loopHead_eq (fc : FCfg) (p : Player) (a : Asm) (h : Ref fc (genView p) a)
    (hw : atW p = false) : loopHeadF a = loopHead p := by
  have hfl := h.fl
  simp only [genView, core] at hfl
  unfold loopHeadF loopHead
  cases hf : a.fail with
  | true => rw [← hfl, hf]; simp
  | false =>
    have hb : a.buf = [] := by
      rcases h.idle hw with hb | hb
      · exact hb
      · rw [hf] at hb; cases hb
    have ht := h.todo
    simp only [genView, core, hb, List.nil_append, hf, playChunks_false] at ht
    rw [ht, chunksOf_nil_iff p.cs h.pos, ← hfl, hf]

/-- the record after the loop header keeps `Ref` -/
theorem ref_loopHead (fc : FCfg) (p p' : Player) (a : Asm) (h : Ref fc (genView p) a)
    (hw : atW p = false) (hc : core p' = core p) (hpc : p'.pc = loopHeadF a ∨ atW p' = false) :
    Ref fc (genView p') a := by
  obtain ⟨h1, hfl, hok, h3, h4, h5, h6⟩ := h
  simp only [genView] at *
  rw [hc]
  refine ⟨h1, hfl, hok, h3, fun _ => h4 hw, ?_, h6⟩
  intro hw'
  rcases hpc with hpc | hpc
  · cases hf : a.fail with
    | true => exact Or.inr rfl
    | false =>
      left
      have hb : a.buf = [] := by
        rcases h4 hw with hb | hb
        · exact hb
        · rw [hf] at hb; cases hb
      simp only [atW, hpc, loopHeadF] at hw'
      rw [hb, List.nil_append]
      intro hr
      rw [hr, hf] at hw'
      simp at hw'
  · rw [hpc] at hw'; cases hw'

theorem ref_write (fc : FCfg) (p : Player) (a : Asm) (h : Ref fc (genView p) a) (hw : atW p = true)
    (hready : chunkReady p a = true) :
    p.todo = (a.buf ++ List.replicate (p.cs - a.buf.length) 0) :: playChunks p.cs a.rest a.fail := by
  obtain ⟨h1, _, _, h3, _, h5, h6⟩ := h
  simp only [genView, core] at h1 h3 h5 h6
  rw [h3]
  by_cases hfull : a.buf.length = p.cs
  · rw [playChunks_full p.cs h1 _ _ _ hfull, hfull, Nat.sub_self, List.replicate_zero, List.append_nil]
  · have hr : a.rest = [] ∧ a.fail = false := by
      simp only [chunkReady, Bool.or_eq_true, beq_iff_eq, Bool.and_eq_true, List.isEmpty_iff,
        Bool.not_eq_true'] at hready
      rcases hready with hready | hready
      · exact absurd hready hfull
      · exact hready
    have hne : a.buf ≠ [] := by
      rcases h5 hw with h | h
      · rw [hr.1, List.append_nil] at h; exact h
      · rw [hr.2] at h; cases h
    rw [hr.1, hr.2, List.append_nil, playChunks_false, playChunks_false,
      chunksOf_short p.cs a.buf hne (by omega), chunksOf_nil p.cs h1]

/-- samples still to be pulled, all players together (the stutter steps decrease it) -/
def restSum (asm : List Asm) : Nat := (asm.map (fun a => a.rest.length)).sum

theorem restSum_set (asm : List Asm) (i : Nat) (a a' : Asm) (ha : asm[i]? = some a) :
    restSum (asm.set i a') + a.rest.length = restSum asm + a'.rest.length := by
  induction asm generalizing i with
  | nil => simp at ha
  | cons b l ih =>
    cases i with
    | zero =>
      simp only [List.getElem?_cons_zero, Option.some.injEq] at ha
      subst ha
      simp only [restSum, List.set_cons_zero, List.map_cons, List.sum_cons]
      omega
    | succ j =>
      simp only [List.getElem?_cons_succ] at ha
      have := ih j ha
      simp only [restSum, List.set_cons_succ, List.map_cons, List.sum_cons] at this ⊢
      omega

theorem sim_stepPlayerF (fc : FCfg) (fs fs' : FState) (i : Nat)
    (h : stepPlayerF fc fs i = some fs') (inv : AllF genView fs (Ref fc)) :
    ((stepPlayer fc.cfg fs.base i = some fs'.base ∧ restSum fs'.asm = restSum fs.asm) ∨
      (fs'.base = fs.base ∧ restSum fs'.asm + 1 = restSum fs.asm)) ∧ AllF genView fs' (Ref fc) := by
  unfold stepPlayerF at h
  split at h
  · rename_i p a hp ha
    have hR := inv.2 i p a hp ha
    simp only at h
    split at h
    · rename_i hpc
      have hw : atW p = false := by simp [atW, hpc]
      cases h
      refine ⟨Or.inl ⟨?_, rfl⟩, AllF_update hp ha rfl (set_self _ _ _ ha).symm inv
        (fun hR => ref_loopHead fc p _ a hR hw (by simp [core]) (Or.inl rfl))⟩
      rw [loopHead_eq fc p a hR hw]
      simp [stepPlayer, hp, hpc]
    · rename_i hpc
      have hw : atW p = false := by simp [atW, hpc]
      cases h
      refine ⟨Or.inl ⟨?_, rfl⟩, AllF_update hp ha rfl (set_self _ _ _ ha).symm inv
        (fun hR => ref_loopHead fc p _ a hR hw (by simp [core]) ?_)⟩
      · rw [loopHead_eq fc p a hR hw]
        simp [stepPlayer, hp, hpc]
      · cases p.go
        · right; simp [atW]
        · left; simp
    · rename_i hpc
      have hw : atW p = false := by simp [atW, hpc]
      cases h
      refine ⟨Or.inl ⟨?_, rfl⟩, AllF_update hp ha rfl (set_self _ _ _ ha).symm inv
        (fun hR => ref_loopHead fc p _ a hR hw (by simp [core]) (Or.inl rfl))⟩
      rw [loopHead_eq fc p a hR hw]
      simp [stepPlayer, hp, hpc]
    · rename_i hpc
      have hw : atW p = true := by simp [atW, hpc]
      split at h
      · rename_i hready
        have ht := ref_write fc p a hR hw hready
        cases h
        refine ⟨Or.inl ⟨?_, ?_⟩, AllF_update hp ha rfl rfl inv (fun hR => ?_)⟩
        · simp only [stepPlayer, hp, hpc, ht, List.tail_cons]
        · have := restSum_set fs.asm i a { a with buf := [] } ha
          simp only at this ⊢
          omega
        · obtain ⟨h1, hfl, hok, _, _, _, _⟩ := hR
          refine ⟨h1, hfl, hok, ?_, fun _ => Or.inl rfl, ?_, by simp⟩
          · simp only [genView, core, ht, List.tail_cons, List.nil_append]
          · intro hw'
            simp only [genView, atW] at hw'
            split at hw' <;> simp at hw'
      · rename_i hready
        split at h
        · rename_i x r hrest
          cases h
          have hsum : restSum (fs.asm.set i { a with rest := r, buf := a.buf ++ [x] }) + 1 =
              restSum fs.asm := by
            have := restSum_set fs.asm i a { a with rest := r, buf := a.buf ++ [x] } ha
            rw [hrest] at this
            simp only [List.length_cons] at this
            omega
          refine ⟨Or.inr ⟨rfl, hsum⟩, AllF_update hp ha (set_self _ _ _ hp).symm rfl inv (fun hR => ?_)⟩
          obtain ⟨h1, hfl, hok, h3, _, _, h6⟩ := hR
          have hn : a.buf.length ≠ p.cs := by
            intro e; apply hready; simp [chunkReady, e]
          refine ⟨h1, hfl, hok, ?_, fun hw' => ?_, fun _ => Or.inl (by simp), ?_⟩
          · rw [h3, hrest]; simp
          · simp only [genView] at hw'; rw [hw] at hw'; cases hw'
          · simp only [genView, core] at h6 ⊢
            simp only [List.length_append, List.length_cons, List.length_nil]
            omega
        · -- the iterable raises: the coarse player is at `write` with nothing left and `fail` set
          rename_i hrest
          have hfail : a.fail = true := by
            cases hf : a.fail with
            | true => rfl
            | false => exfalso; apply hready; simp [chunkReady, hrest, hf]
          have hdie : fc.dieFixed = true := by
            rcases hR.ok with h | h
            · exact h
            · rw [hfail] at h; cases h
          have hn : a.buf.length < p.cs := by
            have h6 := hR.len
            simp only [genView, core] at h6
            have : a.buf.length ≠ p.cs := by
              intro e; apply hready; simp [chunkReady, e]
            omega
          have ht : p.todo = [] := by
            have h3 := hR.todo
            simp only [genView, core] at h3
            rw [h3, hrest, List.append_nil, hfail]
            exact playChunks_short_fail p.cs a.buf hn
          have hpf : p.fail = true := by
            have := hR.fl; simp only [genView, core] at this; rw [← this]; exact hfail
          cases h
          refine ⟨Or.inl ⟨?_, rfl⟩, AllF_update hp ha rfl (set_self _ _ _ ha).symm inv (fun hR => ?_)⟩
          · simp [stepPlayer, hp, hpc, ht, hpf, hdie]
          · obtain ⟨h1, hfl, hok, h3, _, _, h6⟩ := hR
            refine ⟨h1, hfl, hok, h3, fun _ => Or.inr hfail, fun hw' => ?_, h6⟩
            simp [genView, atW, hdie] at hw'
    · rename_i h1 h2 h3 h4
      cases hs : stepPlayer fc.cfg fs.base i with
      | none => rw [hs] at h; cases h
      | some s' =>
        rw [hs] at h
        cases h
        obtain ⟨p', hps, hc, hw', hw⟩ := stepPlayer_rest fc.cfg fs.base s' i p hp hs h1 h2 h3 h4
        refine ⟨Or.inl ⟨rfl, rfl⟩, AllF_update hp ha hps (set_self _ _ _ ha).symm inv ?_⟩
        have : genView p' = genView p := by simp [genView, hc, hw, hw']
        rw [this]; exact id
  · cases h

theorem map_genView {l l' : List Player} (h1 : l'.map core = l.map core)
    (h2 : l'.map atW = l.map atW) : l'.map genView = l.map genView := by
  have e : ∀ (m : List Player), m.map genView = (m.map core).zip (m.map atW) := by
    intro m; rw [List.zip_map']; rfl
  rw [e, e, h1, h2]

theorem sim_stepMainF (fc : FCfg) (script : List Cmd) (fs fs' : FState) (hsd : Sound fc)
    (hpos : PosCs script) (h : stepMainF fc fs = some fs') (hr : Reach fc.cfg script fs.base)
    (inv : AllF genView fs (Ref fc)) :
    stepMain fc.cfg fs.base = some fs'.base ∧ AllF genView fs' (Ref fc) := by
  unfold stepMainF at h
  cases hs : stepMain fc.cfg fs.base with
  | none => rw [hs] at h; cases h
  | some s' =>
    rw [hs] at h
    cases h
    refine ⟨rfl, ?_⟩
    have hnew : ∀ i p, fs.base.mpc = .pStart i → fs.base.players[i]? = some p → p.pc = .new := by
      intro i p hm hp
      have := (si_reach hr).g.creat i (by rw [hm]; rfl)
      rw [pcAt_of_get hp] at this
      simpa using this
    rcases stepMain_core fc.cfg fs.base s' hs with hm | ⟨a, c, hpa, hm⟩
    · rcases stepMain_atW fc.cfg fs.base s' hs hnew with hm2 | ⟨a, c, f, hm2⟩
      · exact AllF_main_same fc (map_genView hm hm2) inv
      · exfalso
        have := congrArg List.length hm
        rw [hm2] at this
        simp at this
    · refine AllF_main_new fc hm inv ?_
      have hc : 0 < c := hpos a c (pacq_reach hr a c hpa)
      have hok : fc.dieFixed = true ∨ (fc.cfg.fails.getD fs.base.players.length false) = false := by
        rcases hsd with h | hnf
        · exact Or.inl h
        · right
          rw [List.getD_eq_getElem?_getD]
          cases hg : fc.cfg.fails[fs.base.players.length]? with
          | none => rfl
          | some b => exact hnf b (List.mem_of_getElem? hg)
      refine ⟨hc, rfl, hok, ?_, fun _ => Or.inl rfl, ?_, by simp [newAsm]⟩
      · simp [genView, core, freshPlayer, newAsm]
      · intro hw; simp [genView, atW, freshPlayer] at hw

/-- **refinement**: the coarse state carried by a reachable fine state is reachable in the coarse
    system (same script, same `Cfg`), and `Ref` ties its ghost `todo` to the chunk generators -/
theorem sim_reach {fc : FCfg} {script : List Cmd} {fs : FState} (hsd : Sound fc)
    (hpos : PosCs script) (h : ReachF fc script fs) :
    Reach fc.cfg script fs.base ∧ AllF genView fs (Ref fc) := by
  induction h with
  | init => exact ⟨Reach.init, AllF_init _ _ _⟩
  | step _ hs ih =>
    rename_i fs fs' t _
    obtain ⟨hr, inv⟩ := ih
    cases t with
    | main =>
      obtain ⟨h1, h2⟩ := sim_stepMainF fc script fs fs' hsd hpos hs hr inv
      exact ⟨Reach.step (t := .main) hr h1, h2⟩
    | player i =>
      obtain ⟨h1, h2⟩ := sim_stepPlayerF fc fs fs' i hs inv
      rcases h1 with ⟨h1, _⟩ | ⟨h1, _⟩
      · exact ⟨Reach.step (t := .player i) hr h1, h2⟩
      · rw [h1]; exact ⟨hr, h2⟩

theorem sound_of_nofail {fc : FCfg} (h : NoFail fc) : Sound fc := Or.inr h

end ALV.C17
