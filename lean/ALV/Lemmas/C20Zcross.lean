/-
  C20 — zcross: the two-phase state machine equals the closed characterisation
  (`curSign` = sign of the latest earlier sample outside the band, else `first_sign`).
-/
import ALV.Lemmas.C20Basic

namespace ALV.C20
variable {K : Type} [Field K] [LinearOrder K] [IsStrictOrderedRing K]
set_option linter.unusedSectionVars false

/- `zFrom` (the recursion over the current sign) is defined in `ALV.Spec.C20`. -/

theorem curSign_snoc (h fs : K) (pre : List K) (x : K) :
    curSign h fs (pre ++ [x]) = if outside h x then sgn3 x else curSign h fs pre := by
  unfold curSign
  simp only [List.reverse_append, List.reverse_cons, List.reverse_nil, List.nil_append,
    List.singleton_append, List.find?_cons]
  by_cases ho : outside h x <;> simp [ho]

theorem zFrom_eq (h fs : K) (xs : List K) : ∀ pre : List K,
    zFrom h (curSign h fs pre) xs =
      (List.range xs.length).map fun n =>
        if crossing h (curSign h fs (pre ++ xs.take n)) (xs.getD n 0) then 1 else 0 := by
  induction xs with
  | nil => intro pre; simp [zFrom]
  | cons x rest ih =>
    intro pre
    simp only [zFrom, List.length_cons, List.range_succ_eq_map, List.map_cons, List.map_map]
    rw [← curSign_snoc, ih (pre ++ [x])]
    congr 1
    · simp
    · apply List.map_congr_left; intro n _
      simp only [Function.comp, List.take_succ_cons, List.getD_cons_succ, List.append_assoc,
        List.singleton_append]

theorem zcrossSpec_eq_from (h fs : K) (xs : List K) :
    zcrossSpec h fs xs = zFrom h (sgn3 fs) xs := by
  have := zFrom_eq h fs xs []
  simp only [List.nil_append] at this
  have e : curSign h fs [] = sgn3 fs := by simp [curSign]
  rw [e] at this
  rw [this]; rfl

theorem sgnPM_eq_sgn3 (x : K) (hx : x ≠ 0) : sgnPM x = sgn3 x := by
  unfold sgnPM sgn3
  rcases lt_or_gt_of_ne hx with h | h
  · simp [h]
  · simp [h, not_lt.mpr h.le]

theorem sgn3_pm (x : K) (hx : x ≠ 0) : sgn3 x = 1 ∨ sgn3 x = -1 := by
  unfold sgn3
  rcases lt_or_gt_of_ne hx with h | h
  · right; simp [h]
  · left; simp [h, not_lt.mpr h.le]

theorem outside_ne_zero (h x : K) (h0 : 0 ≤ h) (ho : outside h x) : x ≠ 0 := by
  rcases ho with ho | ho
  · exact ne_of_gt (lt_of_le_of_lt h0 ho)
  · have : x < 0 := by linarith
    exact ne_of_lt this

theorem mul_sign_lt_iff (h s x : K) (hs : s = 1 ∨ s = -1) : x * s < -h ↔ crossing h s x := by
  have h1 : (1 : K) ≠ -1 := by
    intro e; have : (0 : K) < 1 := zero_lt_one; linarith
  rcases hs with rfl | rfl
  · simp [crossing, h1]
  · have h2 : (-1 : K) ≠ 1 := fun e => h1 e.symm
    simp only [crossing, h2, false_and, true_and, false_or, gt_iff_lt]
    constructor <;> intro hh <;> linarith

/-- second loop = specification recursion, from a determined sign on -/
theorem zphase2_eq (h : K) (h0 : 0 ≤ h) (xs : List K) : ∀ s : K, (s = 1 ∨ s = -1) →
    zphase2 h s xs = zFrom h s xs := by
  induction xs with
  | nil => intro s _; simp [zphase2, zFrom]
  | cons x rest ih =>
    intro s hs
    simp only [zphase2, zFrom, mul_sign_lt_iff h s x hs]
    by_cases hc : crossing h s x
    · have ho : outside h x := by
        rcases hc with ⟨_, hc⟩ | ⟨_, hc⟩
        · exact Or.inr hc
        · exact Or.inl hc
      have hx := outside_ne_zero h x h0 ho
      simp only [hc, if_true, ho]
      rw [sgnPM_eq_sgn3 x hx, ih _ (sgn3_pm x hx)]
    · simp only [hc, if_false]
      by_cases ho : outside h x
      · simp only [ho, if_true]
        have hx := outside_ne_zero h x h0 ho
        have : sgn3 x = s := by
          unfold sgn3
          rcases hs with rfl | rfl
          · have : ¬ x < -h := fun hh => hc (Or.inl ⟨rfl, hh⟩)
            rcases ho with ho | ho
            · have hp : 0 < x := lt_of_le_of_lt h0 ho
              simp [hp, not_lt.mpr hp.le]
            · exact absurd ho this
          · have : ¬ x > h := fun hh => hc (Or.inr ⟨rfl, hh⟩)
            rcases ho with ho | ho
            · exact absurd ho this
            · have hn : x < 0 := by linarith
              simp [hn]
        rw [this, ih s hs]
      · simp only [ho, if_false]
        rw [ih s hs]

theorem not_crossing_zero (h x : K) : ¬ crossing h 0 x := by
  have h1 : (0 : K) ≠ 1 := zero_ne_one
  have h2 : (0 : K) ≠ -1 := by
    intro e; have : (0 : K) < 1 := zero_lt_one; linarith
  simp [crossing, h1, h2]

/-- first loop = specification recursion while the sign is undetermined -/
theorem zphase1_eq (h : K) (h0 : 0 ≤ h) (xs : List K) : zphase1 h xs = zFrom h 0 xs := by
  induction xs with
  | nil => simp [zphase1, zFrom]
  | cons x rest ih =>
    simp only [zphase1, zFrom, not_crossing_zero, if_false]
    by_cases ho : outside h x
    · have ho' : x > h ∨ x < -h := ho
      have hx := outside_ne_zero h x h0 ho
      simp only [ho, ho', if_true]
      rw [sgnPM_eq_sgn3 x hx, zphase2_eq h h0 rest _ (sgn3_pm x hx)]
    · have ho' : ¬ (x > h ∨ x < -h) := ho
      simp only [ho, ho', if_false]
      rw [ih]

theorem zcross_eq_from (h fs : K) (h0 : 0 ≤ h) (xs : List K) :
    zcross h fs xs = zFrom h (sgn3 fs) xs := by
  unfold zcross
  by_cases hf : fs = 0
  · subst hf
    have : sgn3 (0 : K) = 0 := by simp [sgn3]
    simp [this, zphase1_eq h h0]
  · simp only [hf, if_false]
    rw [sgnPM_eq_sgn3 fs hf, zphase2_eq h h0 xs _ (sgn3_pm fs hf)]

/-- one output per input (any hysteresis, also negative) -/
theorem zphase2_length (h : K) (xs : List K) : ∀ s : K, (zphase2 h s xs).length = xs.length := by
  induction xs with
  | nil => intro s; simp [zphase2]
  | cons x rest ih => intro s; simp only [zphase2]; split <;> simp [ih]

theorem zphase1_length (h : K) (xs : List K) : (zphase1 h xs).length = xs.length := by
  induction xs with
  | nil => simp [zphase1]
  | cons x rest ih => simp only [zphase1]; split <;> simp [ih, zphase2_length]

theorem zphase2_01 (h : K) (xs : List K) : ∀ s : K, ∀ y ∈ zphase2 h s xs, y = 0 ∨ y = 1 := by
  induction xs with
  | nil => intro s y hy; simp [zphase2] at hy
  | cons x rest ih =>
    intro s y hy
    simp only [zphase2] at hy
    split at hy
    · rcases List.mem_cons.mp hy with rfl | hy
      · right; rfl
      · exact ih _ y hy
    · rcases List.mem_cons.mp hy with rfl | hy
      · left; rfl
      · exact ih _ y hy

theorem zphase1_01 (h : K) (xs : List K) : ∀ y ∈ zphase1 h xs, y = 0 ∨ y = 1 := by
  induction xs with
  | nil => intro y hy; simp [zphase1] at hy
  | cons x rest ih =>
    intro y hy
    simp only [zphase1] at hy
    rcases List.mem_cons.mp hy with rfl | hy
    · left; rfl
    · split at hy
      · exact zphase2_01 h rest _ y hy
      · exact ih y hy

end ALV.C20
