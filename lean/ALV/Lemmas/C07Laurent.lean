/-
  C07 — interpretation of the dictionary model in Mathlib's Laurent polynomial
  ring `K[T;T⁻¹]` (= `AddMonoidAlgebra K ℤ`) and the homomorphism lemmas.
-/
import Mathlib.Algebra.Polynomial.Laurent
import ALV.Lemmas.C07Basic

set_option linter.unusedSectionVars false

open LaurentPolynomial

namespace ALV.C07
variable {K : Type} [Field K] [DecidableEq K]

/-- the Laurent polynomial that a term list denotes: `Σ c·T^k` -/
noncomputable def toLaurent (p : MPoly K) : K[T;T⁻¹] :=
  (p.map fun kv => (AddMonoidAlgebra.single kv.1 kv.2 : K[T;T⁻¹])).sum

@[simp] theorem toLaurent_nil : toLaurent ([] : MPoly K) = 0 := rfl

@[simp] theorem toLaurent_cons (a : Int × K) (t : MPoly K) :
    toLaurent (a :: t) = AddMonoidAlgebra.single a.1 a.2 + toLaurent t := by
  simp [toLaurent]

@[simp] theorem toLaurent_append (p q : MPoly K) : toLaurent (p ++ q) = toLaurent p + toLaurent q := by
  induction p with
  | nil => simp
  | cons a t ih => simp [ih, add_assoc]

/-! ### number helpers are the field operations -/

theorem npow_eq (a : K) (n : ℕ) : npow a n = a ^ n := by
  induction n with
  | zero => simp [npow]
  | succ n ih => simp [npow, ih, pow_succ]

theorem powInt_eq (a : K) (n : ℤ) : powInt a n = a ^ n := by
  unfold powInt
  split
  · rename_i h
    obtain ⟨m, rfl⟩ := Int.eq_ofNat_of_zero_le h
    rw [npow_eq]
    simp
  · rename_i h
    obtain ⟨m, rfl⟩ := Int.exists_eq_neg_ofNat (le_of_lt (not_le.1 h))
    rw [npow_eq]
    simp

theorem ofNatA_eq (n : ℕ) : (ofNatA n : K) = (n : K) := by
  induction n with
  | zero => simp [ofNatA]
  | succ n ih => simp [ofNatA, ih]

theorem ofIntA_eq (n : ℤ) : (ofIntA n : K) = (n : K) := by
  cases n with
  | ofNat n => simp [ofIntA, ofNatA_eq]
  | negSucc n => simp [ofIntA, ofNatA_eq, Int.negSucc_eq]

/-! ### coefficients -/

theorem coeff_toLaurent (p : MPoly K) (k : ℤ) : (toLaurent p).coeff k = coeff p k := by
  induction p with
  | nil => simp [coeff]
  | cons a t ih =>
    obtain ⟨k', c⟩ := a
    simp only [toLaurent_cons, AddMonoidAlgebra.coeff_add, Finsupp.add_apply, ih, coeff,
      AddMonoidAlgebra.coeff_single, Finsupp.single_apply]
    split <;> simp

theorem toLaurent_eq_iff (p q : MPoly K) : toLaurent p = toLaurent q ↔ ∀ k, coeff p k = coeff q k := by
  constructor
  · intro h k; rw [← coeff_toLaurent, ← coeff_toLaurent, h]
  · intro h; apply LaurentPolynomial.ext; intro k; rw [coeff_toLaurent, coeff_toLaurent, h]

theorem coeff_eq_zero_of_not_mem {p : MPoly K} {k : ℤ} (h : k ∉ keys p) : coeff p k = 0 := by
  induction p with
  | nil => rfl
  | cons a t ih =>
    obtain ⟨k', c⟩ := a
    simp only [keys_cons, List.mem_cons, not_or] at h
    have : k' ≠ k := fun e => h.1 e.symm
    simp [coeff, this, ih h.2]

/-- with distinct keys the denoted coefficient is the dictionary lookup (`Poly.__getitem__`) -/
theorem coeff_eq_getD {p : MPoly K} (h : (keys p).Nodup) (k : ℤ) : coeff p k = getD p k := by
  induction p with
  | nil => rfl
  | cons a t ih =>
    obtain ⟨k', c⟩ := a
    simp only [keys_cons, List.nodup_cons] at h
    unfold getD at ih ⊢
    simp only [coeff, find?_cons]
    by_cases hk : k' = k
    · subst hk
      simp [coeff_eq_zero_of_not_mem h.1]
    · simp [hk, ih h.2]

theorem coeff_append (p q : MPoly K) (k : ℤ) : coeff (p ++ q) k = coeff p k + coeff q k := by
  rw [← coeff_toLaurent, toLaurent_append]; simp [coeff_toLaurent]

/-! ### compaction, accumulation, product -/

theorem toLaurent_compact (p : MPoly K) : toLaurent (compact p) = toLaurent p := by
  induction p with
  | nil => rfl
  | cons a t ih =>
    unfold compact at ih ⊢
    rw [List.filter_cons]
    by_cases h : a.2 = 0
    · simp [h, ih]
    · simp [h, ih]

theorem toLaurent_accum (d : MPoly K) (k : ℤ) (v : K) :
    toLaurent (accum d k v) = toLaurent d + AddMonoidAlgebra.single k v := by
  induction d with
  | nil => simp [accum]
  | cons a t ih =>
    obtain ⟨k', c⟩ := a
    by_cases h : k' = k
    · subst h
      simp only [accum, if_true, toLaurent_cons, AddMonoidAlgebra.single_add]
      abel
    · simp only [accum, h, if_false, toLaurent_cons, ih]
      abel

theorem toLaurent_mulInner (a : Int × K) (q d : MPoly K) :
    toLaurent (q.foldl (fun d kv2 => accum d (a.1 + kv2.1) (a.2 * kv2.2)) d) =
      toLaurent d + AddMonoidAlgebra.single a.1 a.2 * toLaurent q := by
  induction q generalizing d with
  | nil => simp
  | cons b u ih =>
    simp only [List.foldl_cons, ih, toLaurent_accum, toLaurent_cons, mul_add,
      AddMonoidAlgebra.single_mul_single]
    abel

theorem toLaurent_mulOuter (p q d : MPoly K) :
    toLaurent (p.foldl (fun d kv1 => q.foldl
        (fun d kv2 => accum d (kv1.1 + kv2.1) (kv1.2 * kv2.2)) d) d) =
      toLaurent d + toLaurent p * toLaurent q := by
  induction p generalizing d with
  | nil => simp
  | cons a t ih =>
    simp only [List.foldl_cons, ih, toLaurent_mulInner, toLaurent_cons, add_mul]
    abel

/-- `*` is the product of the Laurent ring — for every pair of term lists -/
theorem toLaurent_mul (p q : MPoly K) : toLaurent (mul p q) = toLaurent p * toLaurent q := by
  unfold mul mulLoop
  rw [toLaurent_compact, toLaurent_mulOuter]
  simp

/-! ### constructors -/

theorem getD_mk (l : List (Int × K)) (k : ℤ) : getD (mk l) k = (findLast? l k).getD 0 := by
  unfold getD mk
  rw [find?_compact (nodup_keys_ofPairs l), find?_ofPairs]
  cases findLast? l k with
  | none => rfl
  | some v =>
    by_cases h : v = 0
    · simp [Option.filter, h]
    · simp [Option.filter, h]

theorem coeff_mk (l : List (Int × K)) (k : ℤ) : coeff (mk l) k = (findLast? l k).getD 0 := by
  rw [coeff_eq_getD (wf_mk l).1, getD_mk]

theorem toLaurent_mk_of_nodup {l : List (Int × K)} (h : (keys l).Nodup) : toLaurent (mk l) = toLaurent l := by
  unfold mk
  rw [toLaurent_compact, ofPairs_of_nodup h]

theorem toLaurent_ofScalar (c : K) : toLaurent (ofScalar c) = C c := by
  unfold ofScalar
  rw [toLaurent_mk_of_nodup (by simp)]
  simp

theorem toLaurent_X : toLaurent (X : MPoly K) = T 1 := by
  unfold X
  rw [toLaurent_mk_of_nodup (by simp)]
  simp only [toLaurent_cons, toLaurent_nil, add_zero]
  rfl

theorem toLaurent_pos {p : MPoly K} (h : (keys p).Nodup) : toLaurent (pos p) = toLaurent p :=
  toLaurent_mk_of_nodup h

theorem keys_map_snd (p : MPoly K) (f : Int × K → K) : keys (p.map fun kv => (kv.1, f kv)) = keys p := by
  simp [keys, List.map_map, Function.comp_def]

theorem toLaurent_neg {p : MPoly K} (h : (keys p).Nodup) : toLaurent (neg p) = -toLaurent p := by
  unfold neg
  rw [toLaurent_mk_of_nodup (by rw [keys_map_snd p (fun kv => -kv.2)]; exact h)]
  induction p with
  | nil => simp
  | cons a t ih =>
    simp only [keys_cons, List.nodup_cons] at h
    simp [ih h.2]
    abel

/-! ### addition (pointwise on the lookups) -/

theorem findLast?_inter {p q : MPoly K} (hp : (keys p).Nodup) (k : ℤ) :
    findLast? (inter p q) k =
      match find? p k, find? q k with
      | some v, some w => some (v + w)
      | _, _ => none := by
  unfold inter
  induction p with
  | nil => simp [findLast?]
  | cons a t ih =>
    obtain ⟨k', v⟩ := a
    simp only [keys_cons, List.nodup_cons] at hp
    rw [List.filterMap_cons]
    by_cases hk : k' = k
    · subst hk
      have hn : find? t k' = none := find?_eq_none.2 hp.1
      have ih' := ih hp.2
      rw [hn] at ih'
      simp only [find?_cons, if_true]
      cases hq : find? q k' with
      | none => simpa [hq] using ih'
      | some w => simp only [Option.map_some, findLast?, ih', if_true]
    · simp only [find?_cons, hk, if_false]
      cases hq : find? q k' with
      | none => simpa using ih hp.2
      | some w =>
        simp only [Option.map_some, findLast?, ih hp.2, hk, if_false]
        cases find? t k <;> cases find? q k <;> rfl

theorem getD_add {p q : MPoly K} (hp : (keys p).Nodup) (hq : (keys q).Nodup) (k : ℤ) :
    getD (add p q) k = getD p k + getD q k := by
  unfold add
  rw [getD_mk, findLast?_append, findLast?_append, findLast?_inter hp,
    findLast?_eq_find? hp, findLast?_eq_find? hq]
  unfold getD
  cases find? p k <;> cases find? q k <;> simp

/-- `+` is the sum of the Laurent ring -/
theorem toLaurent_add {p q : MPoly K} (hp : (keys p).Nodup) (hq : (keys q).Nodup) :
    toLaurent (add p q) = toLaurent p + toLaurent q := by
  apply LaurentPolynomial.ext
  intro k
  rw [AddMonoidAlgebra.coeff_add, Finsupp.add_apply, coeff_toLaurent, coeff_toLaurent, coeff_toLaurent,
    coeff_eq_getD (wf_add p q).1, coeff_eq_getD hp, coeff_eq_getD hq, getD_add hp hq]

theorem toLaurent_sub {p q : MPoly K} (hp : (keys p).Nodup) (hq : (keys q).Nodup) :
    toLaurent (sub p q) = toLaurent p - toLaurent q := by
  unfold sub
  rw [toLaurent_add hp (wf_neg q).1, toLaurent_neg hq, sub_eq_add_neg]

/-! ### powers -/

theorem toLaurent_powLoop (p : MPoly K) (m : ℕ) : toLaurent (powLoop p m) = toLaurent p ^ (m + 1) := by
  induction m with
  | zero => simp [powLoop]
  | succ m ih => rw [powLoop, toLaurent_mul, ih]; exact (pow_succ _ _).symm

/-- `p ** n` (natural `n`) is the n-fold product of the Laurent ring -/
theorem toLaurent_pow (p : MPoly K) (n : ℕ) : toLaurent (pow p (n : ℤ)) = toLaurent p ^ n := by
  unfold pow
  by_cases h0 : (n : ℤ) = 0
  · have : n = 0 := by exact_mod_cast h0
    subst this
    simp [toLaurent_ofScalar]
  · have hn : n ≠ 0 := fun e => h0 (by exact_mod_cast e)
    simp only [h0, if_false]
    split
    · simp [hn]
    · rename_i k v
      rw [toLaurent_mk_of_nodup (by simp)]
      have hv : (if v = 1 then (1 : K) else powInt v n) = v ^ n := by
        split
        · rename_i h1; simp [h1]
        · rw [powInt_eq]; simp
      simp only [toLaurent_cons, toLaurent_nil, add_zero, hv, AddMonoidAlgebra.single_pow]
      congr 1
      simp [mul_comm]
    · rw [toLaurent_powLoop]
      congr 1
      omega

/-- negative powers of a monomial: the inverse in the Laurent ring -/
theorem toLaurent_pow_mono (k : ℤ) (v : K) (n : ℤ) :
    toLaurent (pow [(k, v)] n) = AddMonoidAlgebra.single (k * n) (v ^ n) := by
  unfold pow
  by_cases h0 : n = 0
  · subst h0
    simp only [if_true, toLaurent_ofScalar, mul_zero, zpow_zero]
    rfl
  · simp only [h0, if_false]
    rw [toLaurent_mk_of_nodup (by simp)]
    have : (if v = 1 then (1 : K) else powInt v n) = v ^ n := by
      split
      · rename_i h1; simp [h1]
      · rw [powInt_eq]
    simp [this]

/-! ### equality -/

theorem find?_eq_of_getD {p q : MPoly K} (hp : WF p) (hq : WF q)
    (h : ∀ k, getD p k = getD q k) (k : ℤ) : find? p k = find? q k := by
  have := h k
  unfold getD at this
  cases h1 : find? p k with
  | none =>
    cases h2 : find? q k with
    | none => rfl
    | some w =>
      rw [h1, h2] at this
      exact absurd this.symm (hq.2 _ (find?_some_mem h2))
  | some v =>
    cases h2 : find? q k with
    | none =>
      rw [h1, h2] at this
      exact absurd this (hp.2 _ (find?_some_mem h1))
    | some w => rw [h1, h2] at this; simpa using this

theorem keys_perm_of_find? {p q : MPoly K} (hp : (keys p).Nodup) (hq : (keys q).Nodup)
    (h : ∀ k, find? p k = find? q k) : (keys p).Perm (keys q) := by
  rw [List.perm_ext_iff_of_nodup hp hq]
  intro k
  rw [← has_iff, ← has_iff]
  unfold has
  rw [h k]

theorem eq_of_find? {p q : MPoly K} (hp : (keys p).Nodup) (hq : (keys q).Nodup)
    (h : ∀ k, find? p k = find? q k) : eq p q = true := by
  unfold eq
  rw [Bool.and_eq_true]
  constructor
  · have := (keys_perm_of_find? hp hq h).length_eq
    simpa [keys] using this
  · rw [List.all_eq_true]
    intro kv hkv
    rw [← h kv.1, find?_of_mem hp (k := kv.1) (v := kv.2) hkv]
    simp

theorem find?_of_eq {p q : MPoly K} (hp : (keys p).Nodup) (_hq : (keys q).Nodup)
    (h : eq p q = true) (k : ℤ) : find? p k = find? q k := by
  unfold eq at h
  rw [Bool.and_eq_true, List.all_eq_true] at h
  obtain ⟨hl, ha⟩ := h
  have hl : p.length = q.length := by simpa using hl
  -- every binding of p is a binding of q
  have hsub : ∀ kv ∈ p, find? q kv.1 = some kv.2 := by
    intro kv hkv
    have := ha kv hkv
    cases hf : find? q kv.1 with
    | none => simp [hf] at this
    | some w => simp [hf] at this; rw [this]
  have hks : keys p ⊆ keys q := by
    intro k hk
    obtain ⟨kv, hkv, rfl⟩ := List.mem_map.1 hk
    exact mem_keys_of_mem (find?_some_mem (hsub kv hkv))
  have hperm : (keys p).Perm (keys q) := by
    apply (List.subperm_of_subset hp hks).perm_of_length_le
    simp [keys, hl]
  cases h1 : find? p k with
  | some v => exact (hsub (k, v) (find?_some_mem h1)).symm
  | none =>
    have : k ∉ keys q := fun hk => (find?_eq_none.1 h1) (hperm.symm.subset hk)
    exact (find?_eq_none.2 this).symm

/-- `==` decides equality of the denoted Laurent polynomials -/
theorem eq_iff_toLaurent {p q : MPoly K} (hp : WF p) (hq : WF q) :
    eq p q = true ↔ toLaurent p = toLaurent q := by
  rw [toLaurent_eq_iff]
  constructor
  · intro h k
    rw [coeff_eq_getD hp.1, coeff_eq_getD hq.1]
    unfold getD
    rw [find?_of_eq hp.1 hq.1 h]
  · intro h
    apply eq_of_find? hp.1 hq.1
    apply find?_eq_of_getD hp hq
    intro k
    rw [← coeff_eq_getD hp.1, ← coeff_eq_getD hq.1, h]

/-- a well-formed Poly denotes 0 only if it is the empty Poly -/
theorem eq_nil_of_toLaurent_eq_zero {p : MPoly K} (hp : WF p) (h : toLaurent p = 0) : p = [] := by
  cases p with
  | nil => rfl
  | cons a t =>
    exfalso
    obtain ⟨k, v⟩ := a
    have h1 := coeff_toLaurent ((k, v) :: t) k
    rw [h, coeff_eq_getD hp.1] at h1
    have h2 : getD ((k, v) :: t) k = v := by simp [getD, find?_cons]
    rw [h2] at h1
    exact hp.2 (k, v) List.mem_cons_self (by simpa using h1.symm)

theorem toLaurent_foldl_mul (l : List (MPoly K)) (acc : MPoly K) :
    toLaurent (l.foldl mul acc) = toLaurent acc * (l.map toLaurent).prod := by
  induction l generalizing acc with
  | nil => simp
  | cons a t ih => simp [ih, toLaurent_mul, mul_assoc]

theorem wf_foldl_mul (l : List (MPoly K)) {acc : MPoly K} (h : WF acc) : WF (l.foldl mul acc) := by
  induction l generalizing acc with
  | nil => exact h
  | cons a t ih => exact ih (wf_mul _ _)

end ALV.C07
