/-
  C07 — `Poly.order` and `Poly.values()` as documented: the order of a polynomial is its degree
  (AttributeError for negative powers), `values()` lists the coefficients of the powers `0 .. order`,
  and `Poly(list(p.values())) == p`.
-/
import ALV.Lemmas.C07Eval

set_option linter.unusedSectionVars false
set_option linter.unusedVariables false

namespace ALV.C07
variable {K : Type} [Field K] [DecidableEq K]

theorem foldl_max_spec (l : MPoly K) (m : Int) :
    m ≤ l.foldl (fun m kv => max m kv.1) m ∧ (∀ kv ∈ l, kv.1 ≤ l.foldl (fun m kv => max m kv.1) m) ∧
      (l.foldl (fun m kv => max m kv.1) m = m ∨ l.foldl (fun m kv => max m kv.1) m ∈ keys l) := by
  induction l generalizing m with
  | nil => simp [keys]
  | cons a t ih =>
    simp only [List.foldl_cons]
    obtain ⟨h1, h2, h3⟩ := ih (max m a.1)
    refine ⟨by omega, ?_, ?_⟩
    · intro kv hkv
      rcases List.mem_cons.1 hkv with rfl | h
      · omega
      · exact h2 kv h
    · rcases h3 with h | h
      · rw [h]
        by_cases hm : a.1 ≤ m
        · left; omega
        · right; simp only [keys_cons, List.mem_cons]; left; omega
      · right; simp only [keys_cons, List.mem_cons]; right; exact h

theorem order_error_iff (p : MPoly K) : order p = .error .attribute ↔ ¬ IsPoly p := by
  unfold order
  split
  · rename_i h; simp [(isPoly_iff p).1 h]
  · rename_i h
    simp only [true_iff]
    exact fun hp => h ((isPoly_iff p).2 hp)

theorem order_ok {p : MPoly K} {n : ℤ} (h : order p = .ok n) :
    IsPoly p ∧ 0 ≤ n ∧ (∀ k ∈ keys p, k ≤ n) ∧ (p ≠ [] → n ∈ keys p) := by
  unfold order at h
  split at h
  · rename_i hp
    have hp' := (isPoly_iff p).1 hp
    simp only [Except.ok.injEq] at h
    obtain ⟨h1, h2, h3⟩ := foldl_max_spec p 0
    rw [h] at h1 h2 h3
    refine ⟨hp', h1, ?_, ?_⟩
    · intro k hk
      obtain ⟨kv, hkv, rfl⟩ := List.mem_map.1 hk
      exact h2 kv hkv
    · intro hne
      rcases h3 with h3 | h3
      · match p, hne with
        | a :: t, _ =>
          have ha1 := hp' a List.mem_cons_self
          have ha2 := h2 a List.mem_cons_self
          have : a.1 = n := by omega
          rw [← this]; simp
      · exact h3
  · cases h

/-- **`order` is the degree**: the coefficient of `x^order` is not zero and every higher one is -/
theorem order_degree {p : MPoly K} {n : ℤ} (hp : WF p) (h : order p = .ok n) (hne : p ≠ []) :
    coeff p n ≠ 0 ∧ ∀ k, n < k → coeff p k = 0 := by
  obtain ⟨_, _, h3, h4⟩ := order_ok h
  constructor
  · obtain ⟨kv, hkv, hk⟩ := List.mem_map.1 (h4 hne)
    rw [coeff_eq_getD hp.1]
    unfold getD
    rw [find?_of_mem hp.1 (k := n) (v := kv.2) (by rw [← hk]; exact hkv)]
    exact hp.2 kv hkv
  · intro k hk
    apply coeff_eq_zero_of_not_mem
    intro hm
    have := h3 k hm
    omega

theorem findLast?_enumFrom (l : List K) (i k : ℤ) :
    findLast? (enumFrom i l) k = if i ≤ k then l[(k - i).toNat]? else none := by
  induction l generalizing i with
  | nil => simp [enumFrom, findLast?]
  | cons a t ih =>
    simp only [enumFrom, findLast?, ih]
    by_cases h1 : i + 1 ≤ k
    · have h2 : i ≤ k := by omega
      have h3 : (k - i).toNat = (k - (i + 1)).toNat + 1 := by omega
      have h4 : ¬ i = k := by omega
      simp only [h1, h2, if_true, h3, List.getElem?_cons_succ, h4, if_false]
      cases t[(k - (i + 1)).toNat]? <;> rfl
    · by_cases h2 : i = k
      · subst h2; simp
      · have h3 : ¬ i ≤ k := by omega
        simp [h1, h2, h3]

theorem coeff_ofList (l : List K) (k : ℤ) :
    coeff (ofList l) k = if 0 ≤ k then (l[k.toNat]?).getD 0 else 0 := by
  unfold ofList
  rw [coeff_mk, findLast?_enumFrom]
  split <;> simp

theorem values_nil : values ([] : MPoly K) = .ok [] := rfl

theorem values_ok {p : MPoly K} {vs : List K} (h : values p = .ok vs) (hne : p ≠ []) :
    ∃ n, order p = .ok n ∧ vs = (List.range (n.toNat + 1)).map (fun (i : ℕ) => getD p (Int.ofNat i)) := by
  unfold values at h
  have : p.isEmpty = false := by cases p <;> simp_all
  rw [this] at h
  cases ho : order p with
  | error e => rw [ho] at h; cases h
  | ok n =>
    rw [ho] at h
    simp only [Bool.false_eq_true, if_false] at h
    refine ⟨n, rfl, ?_⟩
    cases h; rfl

theorem values_error_iff (p : MPoly K) : values p = .error .attribute ↔ ¬ IsPoly p := by
  cases p with
  | nil => simp [values, IsPoly]
  | cons a t =>
    rw [← order_error_iff]
    unfold values
    simp only [List.isEmpty_cons, Bool.false_eq_true, if_false]
    cases ho : order (a :: t) with
    | error e =>
      unfold order at ho
      split at ho <;> cases ho
      simp [bind, Except.bind]
    | ok n => simp [bind, Except.bind, pure, Except.pure]

/-- **`Poly(list(p.values())) == p`**: `values()` lists exactly the coefficients of the polynomial -/
theorem values_roundtrip {p : MPoly K} {vs : List K} (hp : WF p) (h : values p = .ok vs) :
    eq (ofList vs) p = true := by
  by_cases hne : p = []
  · subst hne
    cases h
    rfl
  · obtain ⟨n, ho, hvs⟩ := values_ok h hne
    obtain ⟨hpoly, hn0, hle, _⟩ := order_ok ho
    rw [eq_iff_toLaurent (wf_ofList vs) hp, toLaurent_eq_iff]
    intro k
    rw [coeff_ofList]
    split
    · rename_i hk
      rw [hvs, List.getElem?_map]
      by_cases hkn : k ≤ n
      · have : k.toNat < n.toNat + 1 := by omega
        rw [List.getElem?_range this]
        simp only [Option.map_some, Option.getD_some]
        rw [coeff_eq_getD hp.1]
        congr 1
        show ((k.toNat : ℕ) : ℤ) = k
        omega
      · have : ¬ k.toNat < n.toNat + 1 := by omega
        rw [List.getElem?_eq_none (by simp; omega)]
        simp only [Option.map_none, Option.getD_none]
        symm
        apply coeff_eq_zero_of_not_mem
        intro hm
        exact hkn (hle k hm)
    · rename_i hk
      symm
      apply coeff_eq_zero_of_not_mem
      intro hm
      obtain ⟨kv, hkv, rfl⟩ := List.mem_map.1 hm
      exact hk (hpoly kv hkv)

theorem mapM_nodes (l : List (K × K)) (F : K → Except PyErr K)
    (h : ∀ pr ∈ l, F pr.1 = .ok pr.2) : (l.map (·.1)).mapM F = .ok (l.map (·.2)) := by
  induction l with
  | nil => rfl
  | cons a t ih =>
    rw [List.map_cons, List.mapM_cons, h a List.mem_cons_self, ih (fun pr hpr => h pr (List.mem_cons_of_mem _ hpr))]
    rfl

end ALV.C07
