/-
  C17 — the chunk sequence of an audio iterable: `chunks(audio)` (model: `blocks` with hop =
  size, C08) is the sequence of consecutive groups of `cs` samples of the audio followed by
  zero padding to a chunk boundary.  Core Lean only.
-/
import ALV.Lemmas.C08
import ALV.Model.C17
import ALV.Spec.C17
namespace ALV.C17
open ALV.C08

theorem chunksOf_eq_blocksSpec (cs : Nat) (hs : 0 < cs) (xs : List Int) :
    chunksOf cs xs = blocksSpec cs cs 0 xs := by
  have inv : BInv cs (⟨[], 0⟩ : BState Int) := ⟨by simpa using hs, by simp, fun _ => by simp⟩
  have := bloop_spec cs cs hs hs (0 : Int) xs ⟨[], 0⟩ inv
  simpa [chunksOf, blocks, virt, lastN] using this

theorem padLen_lt (cs len : Nat) (h0 : 0 < len) (hlt : len < cs) : padLen cs len = cs - len := by
  unfold padLen
  rw [Nat.mod_eq_of_lt hlt, Nat.mod_eq_of_lt (by omega)]

theorem padLen_sub (cs len : Nat) (hle : cs ≤ len) : padLen cs (len - cs) = padLen cs len := by
  unfold padLen
  have : len % cs = (len - cs) % cs := by
    conv => lhs; rw [show len = (len - cs) + cs by omega]
    exact Nat.add_mod_right _ _
  rw [this]

theorem groups_nil (cs : Nat) : groups cs [] = [] := by
  rw [groups]; simp

theorem blocksSpec_eq_chunksSpec (cs : Nat) (hs : 0 < cs) : ∀ (n : Nat) (xs : List Int),
    xs.length = n → blocksSpec cs cs 0 xs = chunksSpec cs xs := by
  intro n
  induction n using Nat.strongRecOn with
  | _ n ih =>
    intro xs hn
    rw [blocksSpec]
    by_cases hlt : xs.length < cs
    · have hc : xs.length < cs ∨ cs = 0 ∨ cs = 0 := Or.inl hlt
      rw [dif_pos hc]
      by_cases h0 : xs.length = 0
      · have : xs = [] := List.eq_nil_of_length_eq_zero h0
        subst this
        simp [chunksSpec, padded, padLen, groups_nil]
      · have hpos : 0 < xs.length := Nat.pos_of_ne_zero h0
        have hgt : (xs.length : Int) > max ((cs : Int) - cs) 0 := by simp; omega
        rw [if_pos hgt]
        unfold chunksSpec padded
        rw [padLen_lt cs xs.length hpos hlt, groups]
        have hne : ¬ (xs ++ List.replicate (cs - xs.length) (0 : Int) = [] ∨ cs = 0) := by
          intro h; rcases h with h | h
          · have hl := congrArg List.length h
            simp only [List.length_append, List.length_replicate, List.length_nil] at hl
            omega
          · omega
        rw [dif_neg hne]
        have hlen : (xs ++ List.replicate (cs - xs.length) (0 : Int)).length = cs := by simp; omega
        rw [List.take_of_length_le (by omega), List.drop_of_length_le (by omega), groups_nil]
    · have hc : ¬ (xs.length < cs ∨ cs = 0 ∨ cs = 0) := by omega
      rw [dif_neg hc]
      have hle : cs ≤ xs.length := by omega
      rw [ih (xs.length - cs) (by rw [← hn]; omega) (xs.drop cs) (by simp)]
      unfold chunksSpec padded
      conv => rhs; rw [groups]
      have hne : ¬ (xs ++ List.replicate (padLen cs xs.length) (0 : Int) = [] ∨ cs = 0) := by
        intro h; rcases h with h | h
        · have hl := congrArg List.length h
          simp only [List.length_append, List.length_replicate, List.length_nil] at hl
          omega
        · omega
      rw [dif_neg hne, List.take_append_of_le_length hle, List.drop_append_of_le_length hle,
        List.length_drop, padLen_sub cs xs.length hle]

/-- `chunks(audio)` = the groups of `cs` samples of `audio ++ zeros` -/
theorem chunksOf_eq_chunksSpec (cs : Nat) (hs : 0 < cs) (xs : List Int) :
    chunksOf cs xs = chunksSpec cs xs := by
  rw [chunksOf_eq_blocksSpec cs hs, blocksSpec_eq_chunksSpec cs hs _ xs rfl]

theorem groups_flatten (cs : Nat) (hs : 0 < cs) : ∀ (n : Nat) (ys : List Int), ys.length = n →
    (groups cs ys).flatten = ys := by
  intro n
  induction n using Nat.strongRecOn with
  | _ n ih =>
    intro ys hn
    rw [groups]
    by_cases h : ys = [] ∨ cs = 0
    · rw [dif_pos h]
      rcases h with h | h
      · simp [h]
      · omega
    · rw [dif_neg h]
      have hne : ys ≠ [] := fun e => h (Or.inl e)
      have hpos : 0 < ys.length := List.length_pos_iff.mpr hne
      simp only [List.flatten_cons]
      rw [ih (ys.length - cs) (by rw [← hn]; omega) (ys.drop cs) (by simp), List.take_append_drop]

theorem groups_len (cs : Nat) (hs : 0 < cs) : ∀ (n : Nat) (ys : List Int), ys.length = n →
    ys.length % cs = 0 → ∀ c ∈ groups cs ys, c.length = cs := by
  intro n
  induction n using Nat.strongRecOn with
  | _ n ih =>
    intro ys hn hmod c hc
    rw [groups] at hc
    by_cases h : ys = [] ∨ cs = 0
    · rw [dif_pos h] at hc; cases hc
    · rw [dif_neg h] at hc
      have hne : ys ≠ [] := fun e => h (Or.inl e)
      have hpos : 0 < ys.length := List.length_pos_iff.mpr hne
      have hle : cs ≤ ys.length := by
        by_cases hlt : ys.length < cs
        · rw [Nat.mod_eq_of_lt hlt] at hmod; omega
        · omega
      rcases List.mem_cons.mp hc with hc | hc
      · subst hc; simp; omega
      · refine ih (ys.length - cs) (by rw [← hn]; omega) (ys.drop cs) (by simp) ?_ c hc
        simp only [List.length_drop]
        have : ys.length % cs = (ys.length - cs) % cs := by
          conv => lhs; rw [show ys.length = (ys.length - cs) + cs by omega]
          exact Nat.add_mod_right _ _
        omega

theorem padded_len_mod (cs : Nat) (hs : 0 < cs) (xs : List Int) : (padded cs xs).length % cs = 0 := by
  unfold padded padLen
  simp only [List.length_append, List.length_replicate]
  have h1 : xs.length % cs < cs := Nat.mod_lt _ hs
  by_cases h0 : xs.length % cs = 0
  · rw [h0]; simp [h0]
  · have : (cs - xs.length % cs) % cs = cs - xs.length % cs := Nat.mod_eq_of_lt (by omega)
    rw [this]
    have hd := Nat.div_add_mod xs.length cs
    have : xs.length + (cs - xs.length % cs) = cs * (xs.length / cs + 1) := by
      rw [Nat.mul_add, Nat.mul_one]; omega
    rw [this]; exact Nat.mul_mod_right _ _

/-- the first `n` of chunks of uniform length `k`, concatenated = the first `n * k` samples -/
theorem flatten_take_uniform (k : Nat) : ∀ (l : List (List Int)) (n : Nat),
    (∀ c ∈ l, c.length = k) → (l.take n).flatten = l.flatten.take (n * k) := by
  intro l
  induction l with
  | nil => intro n _; simp
  | cons c l ih =>
    intro n hl
    cases n with
    | zero => simp
    | succ n =>
      have hc : c.length = k := hl c List.mem_cons_self
      have hl' : ∀ d ∈ l, d.length = k := fun d hd => hl d (List.mem_cons_of_mem _ hd)
      simp only [List.take_succ_cons, List.flatten_cons, ih n hl', List.take_append, hc]
      have e1 : (n + 1) * k - k = n * k := by rw [Nat.add_mul, Nat.one_mul, Nat.add_sub_cancel]
      have e2 : c.take ((n + 1) * k) = c := by
        apply List.take_of_length_le; rw [hc, Nat.add_mul, Nat.one_mul]; omega
      rw [e1, e2]

end ALV.C17
