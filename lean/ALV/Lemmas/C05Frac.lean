/-
  C05 — interpretation of the filter model in the field of fractions of Mathlib's Laurent
  polynomial ring, `Q K = FractionRing K[T;T⁻¹]` (rational functions in `z⁻¹`), and the
  homomorphism lemma of every operator: whenever the operands are valid filter objects the
  operator does not raise, returns a valid object, and that object denotes the field operation
  on the denotations (`Den (add f g) (val f + val g)`, …).
-/
import Mathlib.Algebra.Polynomial.Laurent
import Mathlib.Algebra.MonoidAlgebra.NoZeroDivisors
import Mathlib.RingTheory.Localization.FractionRing
import Mathlib.Tactic.FieldSimp
import Mathlib.Tactic.Ring
import ALV.Lemmas.C07Laurent
import ALV.Lemmas.C04Field
import ALV.Spec.C05

set_option linter.unusedSectionVars false
set_option linter.unusedSimpArgs false

open LaurentPolynomial

namespace ALV.C05
open ALV.C07
variable {K : Type} [Field K] [DecidableEq K]

/-- rational functions in `z⁻¹` -/
abbrev Q (K : Type) [Field K] := FractionRing K[T;T⁻¹]

/-- the embedding of the Laurent polynomials -/
noncomputable def ι : K[T;T⁻¹] →+* Q K := algebraMap _ _

theorem ι_inj : Function.Injective (ι (K := K)) := IsFractionRing.injective _ _

theorem ι_eq_zero {a : K[T;T⁻¹]} : ι a = 0 ↔ a = 0 := map_eq_zero_iff _ ι_inj

/-- the invariant of a filter object: both dictionaries well formed (distinct powers, no stored
zero) and a denominator that is not the zero polynomial -/
def Valid (f : ZF K) : Prop := WF f.num ∧ WF f.den ∧ f.den ≠ []

/-- numerator / denominator as Laurent polynomials -/
noncomputable def N (f : ZF K) : K[T;T⁻¹] := toLaurent f.num
noncomputable def D (f : ZF K) : K[T;T⁻¹] := toLaurent f.den

/-- the rational function a filter denotes -/
noncomputable def val (f : ZF K) : Q K := ι (N f) / ι (D f)

/-- `f ≈ g`: the same rational function, by cross multiplication in `K[T;T⁻¹]` -/
def Equiv (f g : ZF K) : Prop := N f * D g = N g * D f

theorem toLaurent_ne_zero {p : MPoly K} (hp : WF p) (h : p ≠ []) : toLaurent p ≠ 0 :=
  fun e => h (eq_nil_of_toLaurent_eq_zero hp e)

theorem ne_nil_of_toLaurent_ne_zero {p : MPoly K} (h : toLaurent p ≠ 0) : p ≠ [] := by
  rintro rfl; exact h rfl

theorem D_ne_zero {f : ZF K} (hf : Valid f) : D f ≠ 0 := toLaurent_ne_zero hf.2.1 hf.2.2

theorem ιD_ne_zero {f : ZF K} (hf : Valid f) : ι (D f) ≠ 0 := fun e => D_ne_zero hf (ι_eq_zero.1 e)

theorem equiv_iff_val {f g : ZF K} (hf : Valid f) (hg : Valid g) : Equiv f g ↔ val f = val g := by
  unfold Equiv val
  rw [div_eq_div_iff (ιD_ne_zero hf) (ιD_ne_zero hg), ← map_mul, ← map_mul]
  exact ⟨fun h => by rw [h], fun h => ι_inj h⟩

theorem val_eq_zero_iff {f : ZF K} (hf : Valid f) : val f = 0 ↔ f.num = [] := by
  unfold val
  rw [div_eq_zero_iff, ι_eq_zero, ι_eq_zero]
  constructor
  · rintro (h | h)
    · exact eq_nil_of_toLaurent_eq_zero hf.1 h
    · exact absurd h (D_ne_zero hf)
  · intro h; left; simp [N, h]

/-! ### `LinearFilter.__init__` -/

theorem ofList_zero_one : (ofList [0, 1] : MPoly K) = [(1, 1)] := by
  simp [ofList, C07.mk, C07.enumFrom, ofPairs, C07.set, compact]

theorem toLaurent_polyDelta (p : ℤ) : toLaurent (polyDelta p : MPoly K) = T (-p) := by
  unfold polyDelta
  rw [ofList_zero_one, toLaurent_pow_mono, one_mul, one_zpow]
  rfl

theorem T_ne_zero (n : ℤ) : (T n : K[T;T⁻¹]) ≠ 0 := by
  intro h
  have := congrArg (· * (T (-n) : K[T;T⁻¹])) h
  simp only [← T_add, add_neg_cancel, T_zero, zero_mul] at this
  exact one_ne_zero this

/-- the constructor never fails on a non-zero denominator, returns a valid object, and rewrites
numerator and denominator by one common power of the variable -/
theorem ofPolys_spec {n d : MPoly K} (hn : WF n) (hd : WF d) (hd0 : d ≠ []) :
    ∃ h p, ofPolys n d = .ok h ∧ Valid h ∧ N h = toLaurent n * T (-p) ∧ D h = toLaurent d * T (-p) := by
  unfold ofPolys
  rw [mk_of_wf hn, mk_of_wf hd]
  cases hm : C04.minKey d with
  | none => exact absurd ((C04.minKey_eq_none d).1 hm) hd0
  | some p =>
    by_cases hp : p = 0
    · subst hp
      exact ⟨⟨n, d⟩, 0, by simp [hm], ⟨hn, hd, hd0⟩, by simp [N], by simp [D]⟩
    · refine ⟨⟨C07.mul n (polyDelta p), C07.mul d (polyDelta p)⟩, p, by simp [hm, hp],
        ⟨wf_mul _ _, wf_mul _ _, ?_⟩, ?_, ?_⟩
      · apply ne_nil_of_toLaurent_ne_zero
        rw [toLaurent_mul, toLaurent_polyDelta]
        exact mul_ne_zero (toLaurent_ne_zero hd hd0) (T_ne_zero _)
      · simp [N, toLaurent_mul, toLaurent_polyDelta]
      · simp [D, toLaurent_mul, toLaurent_polyDelta]

/-- an `Except` result that is a valid filter denoting the rational function `v` -/
def Den (r : Except PyErr (ZF K)) (v : Q K) : Prop := ∃ h, r = .ok h ∧ Valid h ∧ val h = v

theorem Den.ok {f : ZF K} (hf : Valid f) : Den (.ok f) (val f) := ⟨f, rfl, hf, rfl⟩

theorem ofPolys_den {n d : MPoly K} (hn : WF n) (hd : WF d) (hd0 : d ≠ []) :
    Den (ofPolys n d) (ι (toLaurent n) / ι (toLaurent d)) := by
  obtain ⟨h, p, hok, hv, hN, hD⟩ := ofPolys_spec hn hd hd0
  refine ⟨h, hok, hv, ?_⟩
  unfold val
  rw [hN, hD, map_mul, map_mul]
  exact mul_div_mul_right _ _ (fun e => T_ne_zero _ (ι_eq_zero.1 e))

/-- bind on denotations -/
theorem Den.bind {r : Except PyErr (ZF K)} {v w : Q K} {k : ZF K → Except PyErr (ZF K)}
    (hr : Den r v) (hk : ∀ h, Valid h → val h = v → Den (k h) w) : Den (r >>= k) w := by
  obtain ⟨h, rfl, hv, hval⟩ := hr
  exact hk h hv hval

/-! ### constants -/

theorem wf_one : WF (C07.mk [((0 : ℤ), (1 : K))]) := wf_mk _

theorem toLaurent_mk_one : toLaurent (C07.mk [((0 : ℤ), (1 : K))]) = 1 := by
  have := toLaurent_ofScalar (1 : K)
  simpa [C07.ofScalar] using this

theorem mk_one_ne_nil : C07.mk [((0 : ℤ), (1 : K))] ≠ [] :=
  ne_nil_of_toLaurent_ne_zero (by rw [toLaurent_mk_one]; exact one_ne_zero)

theorem ofScalar_den (c : K) : Den (ofScalar c) (ι (C c)) := by
  have h := ofPolys_den (wf_ofList [c]) (wf_one (K := K)) mk_one_ne_nil
  have e : toLaurent (ofList [c]) = C c := by
    have := toLaurent_ofScalar c
    simpa [C07.ofScalar, ofList, C07.enumFrom] using this
  rw [e, toLaurent_mk_one, map_one, div_one] at h
  exact h

theorem z_den : Den (C05.z : Except PyErr (ZF K)) (ι (T (-1))) := by
  have h := ofPolys_den (wf_mk [((-1 : ℤ), (1 : K))]) (wf_one (K := K)) mk_one_ne_nil
  have e : toLaurent (C07.mk [((-1 : ℤ), (1 : K))]) = T (-1) := by
    rw [toLaurent_mk_of_nodup (by simp)]
    simp only [toLaurent_cons, toLaurent_nil, add_zero]
    rfl
  rw [e, toLaurent_mk_one, map_one, div_one] at h
  exact h

/-! ### the operators -/

theorem neg_den {f : ZF K} (hf : Valid f) : Den (neg f) (-val f) := by
  have h := ofPolys_den (wf_neg f.num) hf.2.1 hf.2.2
  rw [toLaurent_neg hf.1.1, map_neg, neg_div] at h
  exact h

theorem pos_den {f : ZF K} (hf : Valid f) : Den (pos f) (val f) := by
  have h := ofPolys_den (wf_pos f.num) hf.2.1 hf.2.2
  rw [toLaurent_pos hf.1.1] at h
  exact h

theorem mul_ne_nil {p q : MPoly K} (hp : WF p) (hq : WF q) (hp0 : p ≠ []) (hq0 : q ≠ []) :
    C07.mul p q ≠ [] := by
  apply ne_nil_of_toLaurent_ne_zero
  rw [toLaurent_mul]
  exact mul_ne_zero (toLaurent_ne_zero hp hp0) (toLaurent_ne_zero hq hq0)

theorem add_den {f g : ZF K} (hf : Valid f) (hg : Valid g) : Den (add f g) (val f + val g) := by
  unfold add
  by_cases he : C07.eq f.den g.den = true
  · rw [if_pos he]
    have hD : D f = D g := (eq_iff_toLaurent hf.2.1 hg.2.1).1 he
    have h := ofPolys_den (wf_add f.num g.num) hf.2.1 hf.2.2
    rw [toLaurent_add hf.1.1 hg.1.1, map_add, add_div] at h
    unfold val
    rw [← hD]
    exact h
  · rw [if_neg he]
    have h := ofPolys_den (wf_add (C07.mul f.num g.den) (C07.mul g.num f.den)) (wf_mul f.den g.den)
      (mul_ne_nil hf.2.1 hg.2.1 hf.2.2 hg.2.2)
    rw [toLaurent_add (wf_mul _ _).1 (wf_mul _ _).1, toLaurent_mul, toLaurent_mul, toLaurent_mul,
      map_add, map_mul, map_mul, map_mul] at h
    have e : val f + val g = (ι (N f) * ι (D g) + ι (N g) * ι (D f)) / (ι (D f) * ι (D g)) := by
      unfold val
      rw [div_add_div _ _ (ιD_ne_zero hf) (ιD_ne_zero hg)]
      ring
    rw [e]
    exact h

theorem sub_den {f g : ZF K} (hf : Valid f) (hg : Valid g) : Den (sub f g) (val f - val g) := by
  unfold sub
  rw [sub_eq_add_neg]
  exact (neg_den hg).bind fun h hv hval => by rw [← hval]; exact add_den hf hv

theorem mul_den {f g : ZF K} (hf : Valid f) (hg : Valid g) : Den (mul f g) (val f * val g) := by
  have h := ofPolys_den (wf_mul f.num g.num) (wf_mul f.den g.den) (mul_ne_nil hf.2.1 hg.2.1 hf.2.2 hg.2.2)
  rw [toLaurent_mul, toLaurent_mul, map_mul, map_mul, ← div_mul_div_comm] at h
  exact h

theorem mulScalar_den {f : ZF K} (hf : Valid f) (c : K) : Den (mulScalar f c) (val f * ι (C c)) := by
  have h := ofPolys_den (wf_mul f.num (C07.ofScalar c)) hf.2.1 hf.2.2
  rw [toLaurent_mul, toLaurent_ofScalar, map_mul, mul_div_right_comm] at h
  exact h

theorem truediv_den {f g : ZF K} (hf : Valid f) (hg : Valid g) (hg0 : g.num ≠ []) :
    Den (truediv f g) (val f / val g) := by
  have h := ofPolys_den (wf_mul f.num g.den) (wf_mul f.den g.num) (mul_ne_nil hf.2.1 hg.1 hf.2.2 hg0)
  rw [toLaurent_mul, toLaurent_mul, map_mul, map_mul] at h
  have e : val f / val g = (ι (N f) * ι (D g)) / (ι (D f) * ι (N g)) := by
    unfold val
    rw [div_div_div_eq]
  rw [e]
  exact h

theorem divScalar_den {f : ZF K} (hf : Valid f) {c : K} (hc : c ≠ 0) :
    Den (divScalar f c) (val f / ι (C c)) := by
  unfold divScalar
  rw [if_neg hc]
  have h := mulScalar_den hf (1 / c)
  have e : ι (C (1 / c)) = (ι (C c))⁻¹ := by
    have h1 : ι (C (1 / c)) * ι (C c) = 1 := by
      rw [← map_mul, ← map_mul, one_div, inv_mul_cancel₀ hc, map_one, map_one]
    exact eq_inv_of_mul_eq_one_left h1
  rw [e, ← div_eq_mul_inv] at h
  exact h

theorem addScalar_den {f : ZF K} (hf : Valid f) (c : K) : Den (addScalar f c) (val f + ι (C c)) :=
  (ofScalar_den c).bind fun h hv hval => by rw [← hval]; exact add_den hf hv

theorem subScalar_den {f : ZF K} (hf : Valid f) (c : K) : Den (subScalar f c) (val f - ι (C c)) := by
  unfold subScalar
  have := addScalar_den hf (-c)
  rwa [map_neg, map_neg, ← sub_eq_add_neg] at this

theorem raddScalar_den {f : ZF K} (hf : Valid f) (c : K) : Den (raddScalar c f) (ι (C c) + val f) :=
  (ofScalar_den c).bind fun h hv hval => by rw [← hval]; exact add_den hv hf

theorem rsubScalar_den {f : ZF K} (hf : Valid f) (c : K) : Den (rsubScalar c f) (ι (C c) - val f) :=
  (ofScalar_den c).bind fun h hv hval => by rw [← hval]; exact sub_den hv hf

theorem rmulScalar_den {f : ZF K} (hf : Valid f) (c : K) : Den (rmulScalar c f) (ι (C c) * val f) :=
  (ofScalar_den c).bind fun h hv hval => by rw [← hval]; exact mul_den hv hf

theorem rdivScalar_den {f : ZF K} (hf : Valid f) (hf0 : f.num ≠ []) (c : K) :
    Den (rdivScalar c f) (ι (C c) / val f) :=
  (ofScalar_den c).bind fun h hv hval => by rw [← hval]; exact truediv_den hv hf hf0

end ALV.C05
