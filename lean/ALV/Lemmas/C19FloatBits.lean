/-
  C19 — what can be proved about the bit-level float helpers of `ALV/Model/C19Float.lean` without a
  theory of IEEE arithmetic: on a decoded triple `(sign, mantissa, exponent)` — exact value
  `tval = ± m·2^e` in any ordered field with a floor — the integer arithmetic of `fAbsTrunc`,
  `truncT`, `ceilT`, `fmodT`, `stripZeros` computes truncation, ceiling, the C `fmod` remainder and
  a renormalisation of that exact value; `float_rem` written once (`pyModGen`) is `fmodR` on exact
  values.  NOT proved (trusted, tied bit for bit): `fDecode` (field extraction from
  `Float.toBits`), `fExact` (`Float.ofNat`, `Float.scaleB` on representable values), Lean's `Float`
  comparisons and `+` being the exact comparison / the IEEE rounded sum.
-/
import ALV.Lemmas.C19FloatNeg
import ALV.Lemmas.C19Table

namespace ALV.C19
set_option linter.unusedSectionVars false

section Bits
variable {K : Type} [Field K] [LinearOrder K] [IsStrictOrderedRing K] [FloorRing K]

/-- the exact value `m·2^e` -/
def aval (m : Nat) (e : Int) : K := (m : K) * (2 : K) ^ e

/-- the exact value `± m·2^e` of a decoded float -/
def tval (neg : Bool) (m : Nat) (e : Int) : K := if neg then - aval m e else aval m e

theorem two_zpow_pos (e : Int) : (0 : K) < (2 : K) ^ e := zpow_pos (by norm_num) e

theorem aval_nonneg (m : Nat) (e : Int) : (0 : K) ≤ aval m e :=
  mul_nonneg (Nat.cast_nonneg m) (two_zpow_pos e).le

theorem aval_of_nonneg (m : Nat) (k : Nat) : (aval m (k : Int) : K) = ((m * 2 ^ k : Nat) : K) := by
  simp [aval, zpow_natCast]

theorem aval_of_neg (m : Nat) (k : Nat) : (aval m (-(k : Int)) : K) = (m : K) / ((2 ^ k : Nat) : K) := by
  simp [aval, zpow_neg, zpow_natCast, div_eq_mul_inv]

/-- `fAbsTrunc` is the floor of the exact absolute value … -/
theorem fAbsTrunc_fst (m : Nat) (e : Int) : (((fAbsTrunc m e).1 : Nat) : Int) = ⌊(aval m e : K)⌋ := by
  unfold fAbsTrunc
  by_cases he : e ≥ 0
  · obtain ⟨k, rfl⟩ := Int.eq_ofNat_of_zero_le he
    simp only [he, if_true, Int.toNat_natCast, Nat.shiftLeft_eq, aval_of_nonneg, Int.floor_natCast]
  · have hk : e = -(((-e).toNat : Nat) : Int) := by omega
    generalize (-e).toNat = k at hk
    subst hk
    have he' : ¬ (-(k : Int) ≥ 0) := he
    simp only [he', if_false, Nat.shiftRight_eq_div_pow, aval_of_neg]
    rw [Int.floor_div_natCast, Int.floor_natCast]
    push_cast; rfl

/-- … and reports whether that value is an integer -/
theorem fAbsTrunc_snd (m : Nat) (e : Int) :
    (fAbsTrunc m e).2 = true ↔ ((⌊(aval m e : K)⌋ : Int) : K) = aval m e := by
  rw [← fAbsTrunc_fst]
  unfold fAbsTrunc
  by_cases he : e ≥ 0
  · obtain ⟨k, rfl⟩ := Int.eq_ofNat_of_zero_le he
    simp only [he, if_true, Int.toNat_natCast, Nat.shiftLeft_eq, aval_of_nonneg, Int.cast_natCast]
  · have hk : e = -(((-e).toNat : Nat) : Int) := by omega
    generalize (-e).toNat = k at hk
    subst hk
    have he' : ¬ (-(k : Int) ≥ 0) := he
    have h2 : ((2 ^ k : Nat) : K) ≠ 0 := by positivity
    simp only [he', if_false, Nat.shiftRight_eq_div_pow, Nat.shiftLeft_eq, aval_of_neg, beq_iff_eq,
      Int.cast_natCast]
    rw [eq_div_iff h2]
    constructor
    · intro h; exact_mod_cast h
    · intro h; exact_mod_cast h

/-- `int()` on a decoded float is the truncation toward zero of its exact value -/
theorem truncT_eq (neg : Bool) (m : Nat) (e : Int) : truncT neg m e = pyInt (tval neg m e : K) := by
  have h := fAbsTrunc_fst (K := K) m e
  cases neg
  · simp only [truncT, tval, Bool.false_eq_true, if_false, pyInt_of_nonneg (aval_nonneg m e), h]
  · simp only [truncT, tval, if_true, pyInt_neg, pyInt_of_nonneg (aval_nonneg m e), h]

/-- `math.ceil` on a decoded float is the ceiling of its exact value -/
theorem ceilT_eq (neg : Bool) (m : Nat) (e : Int) : ceilT neg m e = pyCeil (tval neg m e : K) := by
  have h1 := fAbsTrunc_fst (K := K) m e
  have h2 := fAbsTrunc_snd (K := K) m e
  rw [pyCeil_eq]
  rcases hft : fAbsTrunc m e with ⟨a, ex⟩
  rw [hft] at h1 h2
  simp only at h1 h2
  cases neg
  · simp only [ceilT, hft, tval, Bool.false_eq_true, if_false]
    cases ex
    · have hne : ((⌊(aval m e : K)⌋ : Int) : K) ≠ aval m e := fun hh => by simpa using h2.mpr hh
      have hlt : ((⌊(aval m e : K)⌋ : Int) : K) < aval m e := lt_of_le_of_ne (Int.floor_le _) hne
      have hc : ⌈(aval m e : K)⌉ = ⌊(aval m e : K)⌋ + 1 := by
        rw [Int.ceil_eq_iff]; constructor
        · push_cast; linarith
        · push_cast; exact (Int.lt_floor_add_one _).le
      simp only [Bool.false_eq_true, if_false, hc, h1]
    · have hh := h2.mp rfl
      have hc : ⌈(aval m e : K)⌉ = ⌊(aval m e : K)⌋ := by
        conv_lhs => rw [← hh]
        exact Int.ceil_intCast _
      simp only [if_true, hc, h1]
  · simp only [ceilT, hft, tval, if_true, Int.ceil_neg, h1]

/-- renormalising the mantissa keeps the exact value -/
theorem stripZeros_value (f n : Nat) (k : Int) :
    (aval (stripZeros f n k).1 (stripZeros f n k).2 : K) = aval n k := by
  induction f generalizing n k with
  | zero => rfl
  | succ f ih =>
    unfold stripZeros
    split
    · next h =>
      rw [ih]
      simp only [Bool.and_eq_true, bne_iff_ne, ne_eq, beq_iff_eq] at h
      have h2 : n = 2 * (n / 2) := by omega
      have : (n : K) = 2 * ((n / 2 : Nat) : K) := by exact_mod_cast h2
      unfold aval
      rw [zpow_add_one₀ (two_ne_zero), this]
      ring
    · rfl

/-! ### C `fmod` on exact values -/

theorem cRemM_eq_cRem (a m : K) : cRemM a m = cRem a m := rfl

theorem cRem_neg_left (a m : K) : cRem (-a) m = - cRem a m := by
  have := cRem_neg_neg a (-m)
  rw [neg_neg] at this
  rw [this, cRem_neg_right]

/-- on naturals scaled by a common positive unit, C `fmod` is the integer remainder -/
theorem cRem_nat (X Y : Nat) (u : K) (hu : 0 < u) :
    cRem ((X : K) * u) ((Y : K) * u) = ((X % Y : Nat) : K) * u := by
  unfold cRem
  rw [mul_div_mul_right _ _ hu.ne', pyInt_of_nonneg (div_nonneg (Nat.cast_nonneg X) (Nat.cast_nonneg Y)),
    Int.floor_div_natCast, Int.floor_natCast]
  have h : (X : K) = ((X % Y : Nat) : K) + (Y : K) * ((X / Y : Nat) : K) := by
    exact_mod_cast (Nat.mod_add_div X Y).symm
  have e0 : ((X : Int) / (Y : Int)) = ((X / Y : Nat) : Int) := (Int.natCast_div X Y).symm
  rw [e0, Int.cast_natCast, h]
  ring

theorem aval_shift (m : Nat) (e e' : Int) (h : e' ≤ e) :
    (aval (m <<< (e - e').toNat) e' : K) = aval m e := by
  obtain ⟨k, hk⟩ := Int.eq_ofNat_of_zero_le (show 0 ≤ e - e' by omega)
  have he : e = e' + k := by omega
  subst he
  simp only [hk, Int.toNat_natCast, Nat.shiftLeft_eq, aval]
  rw [zpow_add₀ (two_ne_zero), zpow_natCast]
  push_cast; ring

/-- `fmodT` computes mantissa and exponent of `fmod(x, y)` for the exact values of `x` and `y`;
the result carries the sign of the dividend -/
theorem fmodT_value (nx ny : Bool) (mx my : Nat) (ex ey : Int) :
    (tval nx (fmodT mx ex my ey).1 (fmodT mx ex my ey).2 : K)
      = cRemM (tval nx mx ex) (tval ny my ey) := by
  rw [cRemM_eq_cRem]
  have hx := aval_shift (K := K) mx ex (min ex ey) (min_le_left _ _)
  have hy := aval_shift (K := K) my ey (min ex ey) (min_le_right _ _)
  have key := cRem_nat (K := K) (mx <<< (ex - min ex ey).toNat) (my <<< (ey - min ex ey).toNat)
    ((2 : K) ^ (min ex ey)) (two_zpow_pos _)
  simp only [fmodT, tval]
  rw [← hx, ← hy]
  simp only [aval] at key ⊢
  cases nx <;> cases ny <;>
    simp only [Bool.false_eq_true, if_false, if_true, cRem_neg_left, cRem_neg_right, key]

/-- C `fmod` on exact values: `a - n·m` for an integer `n`, smaller than the divisor in absolute
value, with the sign of the dividend -/
theorem cRemM_props (a m : K) (hm : m ≠ 0) :
    (∃ n : Int, cRemM a m = a - (n : K) * m) ∧ |cRemM a m| < |m| ∧
    (0 ≤ a → 0 ≤ cRemM a m) ∧ (a ≤ 0 → cRemM a m ≤ 0) := by
  refine ⟨⟨pyInt (a / m), by simp [cRemM]; ring⟩, ?_⟩
  rw [cRemM_eq_cRem]
  have pos : ∀ m' : K, 0 < m' → |cRem a m'| < m' ∧ (0 ≤ a → 0 ≤ cRem a m') ∧ (a ≤ 0 → cRem a m' ≤ 0) := by
    intro m' hm'
    obtain ⟨hp, hn⟩ := cRem_pos (a := a) hm'
    rcases le_or_gt 0 a with ha | ha
    · obtain ⟨r0, r1⟩ := hp ha
      refine ⟨by rw [abs_of_nonneg r0]; exact r1, fun _ => r0, fun h => ?_⟩
      have : a = 0 := le_antisymm h ha
      subst this; simp [cRem, pyInt, floor_def]
    · obtain ⟨r0, r1⟩ := hn ha
      refine ⟨by rw [abs_of_nonpos r1]; linarith, fun h => absurd h (not_le.mpr ha), fun _ => r1⟩
  rcases lt_or_gt_of_ne hm with h | h
  · have := pos (-m) (neg_pos.mpr h)
    rw [cRem_neg_right] at this
    rw [abs_of_neg h]; exact this
  · have := pos m h
    rw [abs_of_pos h]; exact this

end Bits

/-! ### `float_rem` written once: the exact instance is `fmodR` -/
section Gen
variable {α : Type} [Add α] [Sub α] [Mul α] [Div α] [Neg α] [OfNat α 0] [OfNat α 1]
  [IntCast α] [Floor α] [DecidableEq α] [LT α] [DecidableLT α]

theorem pyModGen_exact (rnd : α → α) (a m : α) :
    pyModGen (exactModOps rnd) a m
      = if m = 0 then .error "ZeroDivisionError" else .ok (fmodR rnd a m) := by
  unfold pyModGen exactModOps fmodR cRemM
  by_cases hm : m = 0
  · simp [hm]
  · simp only [hm, decide_false, Bool.false_eq_true, if_false, decide_eq_true_eq]
    split_ifs <;> rfl

end Gen

end ALV.C19
