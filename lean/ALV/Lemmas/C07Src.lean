/-
  C07 — the definitions regenerated from the source text of `lazy_poly.py` (`ALV/Gen/C07Src.lean`, written by
  `harness/props/c07_tr.py` on every check) ARE the hand-written model functions of `Model/C07Zero.lean`.
  Core Lean only.
-/
import ALV.Gen.C07Src
import ALV.Lemmas.C07Basic

set_option linter.unusedSectionVars false
set_option linter.unusedVariables false

namespace ALV.C07.Src
open ALV.C07 ALV.Gen.C07

/-! ### helpers -/

theorem ofPairs_ofPairs (l : List (Int × PyNum)) : ofPairs (ofPairs l) = ofPairs l :=
  ofPairs_of_nodup (nodup_keys_ofPairs l)

theorem map_eta (l : List (Int × PyNum)) : l.map (fun kv => (kv.1, kv.2)) = l := by simp

theorem init_some (ps : List (Int × PyNum)) (z : PyVal) : py_init (.dict ps) (some z) = normZ ps z := rfl

theorem mapM_ok {β : Type} (l : List (Int × PyNum)) (h : Int × PyNum → β) :
    l.mapM (fun kv => (Except.ok (h kv) : Except PyErr β)) = .ok (l.map h) := by
  induction l with
  | nil => rfl
  | cons a t ih => simp [List.mapM_cons, ih, bind, Except.bind, pure, Except.pure]

theorem mapM_ok_of {β : Type} (l : List (Int × PyNum)) (F : Int × PyNum → Except PyErr β) (h : Int × PyNum → β)
    (hF : ∀ kv ∈ l, F kv = .ok (h kv)) : l.mapM F = .ok (l.map h) := by
  induction l with
  | nil => rfl
  | cons a t ih =>
    rw [List.mapM_cons, hF a (List.mem_cons_self ..), ih (fun kv hkv => hF kv (List.mem_cons_of_mem _ hkv))]
    rfl

/-- a comprehension whose element divides by a loop-invariant number: ZeroDivisionError at the first item -/
theorem mapM_truediv (l : List (Int × PyNum)) (w : PyNum) (g : Int × PyNum → PyNum) (f : Int × PyNum → PyNum → Int × PyNum) :
    l.mapM (fun kv => Except.bind (Py.truediv (g kv) w) (fun t => Except.ok (f kv t))) =
      if l.isEmpty then .ok [] else if w.isZero then .error .zeroDivision else .ok (l.map (fun kv => f kv (g kv / w))) := by
  cases hw : w.isZero
  · have : (fun kv => Except.bind (Py.truediv (g kv) w) (fun t => Except.ok (f kv t))) =
        (fun kv => (Except.ok (f kv (g kv / w)) : Except PyErr (Int × PyNum))) := by
      funext kv; simp [Py.truediv, hw, Except.bind]
    rw [this, mapM_ok]
    cases l <;> simp
  · cases l with
    | nil => rfl
    | cons a t => simp [List.mapM_cons, Py.truediv, hw, bind, Except.bind]

/-! ### constructors -/

theorem init_dict (ps : List (Int × PyNum)) (z : Option PyVal) : py_init (.dict ps) z = ofDictZ ps z := by
  cases z <;> rfl
theorem init_list (cs : List PyNum) (z : Option PyVal) : py_init (.list cs) z = ofListZ cs z := by
  cases z <;> rfl
theorem init_num (c : PyNum) (z : Option PyVal) : py_init (.num c) z = ofNumZ c z := by
  cases z <;> rfl
theorem init_none (z : Option PyVal) : py_init .none z = ofNoneZ z := by
  cases z <;> rfl
theorem init_poly (p : ZPoly) (z : Option PyVal) : py_init (.poly p) z = ofPolyZ p z := by
  cases z <;> rfl

theorem zero_get (p : ZPoly) : py_zero p = p.zero := rfl

theorem zero_set (h : Bool) (p : ZPoly) (z : PyVal) :
    py_zero_set h p z = if h then .error .type else .ok (setZeroZ p z) := by
  cases h <;> rfl

theorem len (p : ZPoly) : py_len p = p.data.length := rfl

theorem getitem (p : ZPoly) (k : Int) : py_getitem p k = getZ p k := by
  unfold py_getitem getZ; cases find? p.data k <;> rfl

theorem setitem (h : Bool) (p : ZPoly) (k : Int) (c : PyNum) :
    py_setitem h p k c = if h then .error .type else .ok (setItemZ p k c) := by
  cases h
  · cases hx : PyVal.eq (PyVal.num c) p.zero <;> cases hk : has p.data k <;>
      simp [py_setitem, setItemZ, stored, hx, hk]
  · rfl

theorem copy (p : ZPoly) (z : Option PyVal) : py_copy p z = copyZ p z := by
  cases z <;> simp [py_copy, copyZ, py_zero, init_some, normZ, ofPairs_ofPairs]

/-! ### calculus -/

theorem diff (p : ZPoly) (n : Nat) : py_diff p n = diffZ p n := rfl

theorem isZero_int (n : Int) : (PyNum.int n).isZero = decide (n = 0) := by
  simp [PyNum.isZero, PyNum.re, PyNum.im]

theorem integrate (p : ZPoly) : py_integrate p = integrateZ p := by
  unfold py_integrate integrateZ
  cases hm : has p.data (-1)
  · -- no power -1: `k + 1` is never zero, no division raises
    have hne : ∀ kv ∈ p.data, kv.1 + 1 ≠ 0 := by
      intro kv hkv h0
      have : (-1 : Int) ∈ keys p.data := by
        have hk : kv.1 = -1 := by omega
        rw [← hk]; exact List.mem_map_of_mem (f := (·.1)) hkv
      have := has_iff.2 this
      simp [hm] at this
    have hfun : p.data.mapM (fun kv => Except.bind (Py.truediv kv.2 (PyNum.int (kv.1 + 1))) (fun t1 => Except.ok (kv.1 + 1, t1))) =
        .ok (p.data.map (fun kv => (kv.1 + 1, kv.2 / PyNum.int (kv.1 + 1)))) := by
      apply mapM_ok_of
      intro kv hkv
      simp [Py.truediv, isZero_int, hne kv hkv, Except.bind]
    rw [hfun]
    simp [Except.bind, py_zero, init_some, normZ, ofPairs_ofPairs]
  · rfl

/-! ### the metaclass: unary and reflected operators -/

theorem unary_neg (p : ZPoly) : py_neg p = negZ p := by
  simp [py_neg, py_unary, negZ, py_zero, init_some, normZ, ofPairs_ofPairs]

theorem unary_pos (p : ZPoly) : py_unary PyNum.pos p = posZ p := by
  simp [py_unary, posZ, py_zero, init_some, normZ, ofPairs_ofPairs]

/-! ### + - * -/

theorem add (p q : ZPoly) : py_add p q = addZ p q := by
  simp [py_add, addZ, py_zero, init_some, normZ, ofPairs_ofPairs, Py.interWith, inter]

theorem add_num (p : ZPoly) (c : PyNum) : py_add_num p c = scalZ .adds p c := by
  show py_add p (py_init (.num c) none) = _
  rw [add, init_num]; rfl

theorem sub (p q : ZPoly) : py_sub p q = subZ p q := by
  simp [py_sub, subZ, add, unary_neg]

theorem sub_num (p : ZPoly) (c : PyNum) : py_sub_num p c = scalZ .subs p c := by
  simp [py_sub_num, add_num, scalZ]

theorem mul (p q : ZPoly) : py_mul p q = mulZ p q := by
  have h : ∀ (l : List (Int × PyNum)) (n : Nat), l.map (fun kv => (kv.1, Py.thub kv.2 n)) = l := by
    intro l n; simp [Py.thub]
  simp only [py_mul, mulZ, py_zero, init_some, normZ, h]
  show (⟨compactZ p.zero (ofPairs (mulLoop p.data q.data)), p.zero⟩ : ZPoly) = _
  rw [ofPairs_of_nodup (nodup_keys_mulLoop _ _)]

theorem mul_num (p : ZPoly) (c : PyNum) : py_mul_num p c = scalZ .muls p c := by
  show py_mul p (py_init (.num c) none) = _
  rw [mul, init_num]; rfl

theorem radd (p : ZPoly) (c : PyNum) : py_rbinary py_add p c = scalZ .radds p c := by
  simp [py_rbinary, py_zero, add, init_num, scalZ]
theorem rsub (p : ZPoly) (c : PyNum) : py_rbinary py_sub p c = scalZ .rsubs p c := by
  simp [py_rbinary, py_zero, sub, init_num, scalZ]
theorem rmul (p : ZPoly) (c : PyNum) : py_rbinary py_mul p c = scalZ .rmuls p c := by
  simp [py_rbinary, py_zero, mul, init_num, scalZ]

/-! ### == != -/

theorem eq (p q : ZPoly) : py_eq p q = eqZ p q := rfl

theorem eq_num (p : ZPoly) (c : PyNum) : py_eq_num p c = eqsZ p c := by
  show py_eq p (py_init (.num c) (some (py_zero p))) = _
  rw [eq, init_num]; rfl

theorem ne (p q : ZPoly) : py_ne p q = neZ p q := rfl

/-! ### / -/

theorem truediv_num (p : ZPoly) (c : PyNum) : py_truediv_num p c = divsZ p c := by
  unfold py_truediv_num divsZ
  simp only [Py.thub]
  rw [mapM_truediv p.data c (fun kv => kv.2) (fun kv t => (kv.1, t))]
  cases p.data with
  | nil => rfl
  | cons a t =>
    cases c.isZero
    · simp [Except.bind, py_zero, init_some, normZ, ofPairs_ofPairs]
    · rfl

theorem truediv (p q : ZPoly) : py_truediv p q = divZ p q := by
  obtain ⟨qd, qz⟩ := q
  unfold py_truediv divZ
  simp only [len, Py.thub]
  rcases qd with _ | ⟨⟨d, w⟩, _ | ⟨b, t⟩⟩
  · rfl
  · simp only [List.length_cons, List.length_nil, Py.next, List.headD_cons]
    rw [mapM_truediv p.data w (fun kv => kv.2) (fun kv t => (kv.1 - d, t))]
    cases p.data with
    | nil => rfl
    | cons a t =>
      cases w.isZero
      · simp [Except.bind, py_zero, init_some, normZ, ofPairs_ofPairs]
      · rfl
  · simp

/-! ### ** -/

theorem foldl_replicate (p : ZPoly) (hc : copyZ p none = p) (m : Nat) :
    (List.replicate m p).foldl mulZ p = powLoopZ p m := by
  induction m with
  | zero => exact hc.symm
  | succ m ih => rw [List.replicate_succ', List.foldl_append, ih]; rfl

theorem ofPairs_single (k : Int) (v : PyNum) : ofPairs [(k, v)] = [(k, v)] := rfl

theorem mul_fun : py_mul = mulZ := by funext a b; exact mul a b

/-- `Poly.__pow__` with a number exponent.  Hypothesis: `p.copy()` has the same contents as `p` (true of every instance
    the constructor produced: distinct powers, no stored zero) — the source multiplies copies, the model `p` itself. -/
theorem pow (p : ZPoly) (n : Int) (ek : ExpKind) (hc : copyZ p none = p) :
    Py.toPowRes (py_pow p n ek) = powZ p n ek := by
  unfold py_pow powZ
  by_cases hn : n = 0
  · simp [hn, init_num, py_zero, Py.toPowRes]
  · rw [copy] at *
    simp only [hn, decide_false, if_false, Bool.false_eq_true]
    obtain ⟨d, z⟩ := p
    rcases d with _ | ⟨⟨k, v⟩, _ | ⟨b, t⟩⟩
    · simp [init_none, py_zero, Py.toPowRes]
    · cases hv : PyNum.eq v (.int 1)
      · by_cases hz : n < 0 ∧ v.isZero = true
        · simp [List.mapM_cons, Py.pow, hv, hz, bind, Except.bind, Py.toPowRes]
        · simp [List.mapM_cons, Py.pow, hv, hz, bind, Except.bind, pure, Except.pure, Py.toPowRes, py_zero, init_some, ofPairs_single]
      · simp [List.mapM_cons, hv, bind, Except.bind, pure, Except.pure, Py.toPowRes, py_zero, init_some, ofPairs_single]
    · cases ek
      case float => simp [Py.rep, Except.bind, Py.toPowRes]
      all_goals
        by_cases h1 : n ≤ 1
        · have : (n - 1).toNat = 0 := by omega
          simp [Py.rep, Except.bind, Py.toPowRes, Py.reduceMul, this, h1]
        · obtain ⟨m, hm⟩ : ∃ m, (n - 1).toNat = m + 1 := ⟨(n - 1).toNat - 1, by omega⟩
          simp only [Py.rep, Except.bind, Py.toPowRes, Py.reduceMul, hm, h1, if_false, List.replicate_succ, hc]
          simp [List.foldl_append, mul_fun, foldl_replicate _ hc, powLoopZ]

/-! ### evaluation on a number -/

theorem eq_int0 (v : PyNum) : PyNum.eq v (PyNum.int 0) = v.isZero := by
  unfold PyNum.eq PyNum.isZero
  have h1 : (PyNum.int 0).re = 0 := by simp [PyNum.re]
  have h2 : (PyNum.int 0).im = 0 := rfl
  rw [h1, h2]

theorem sortDesc_ne_nil {d : MPoly PyNum} (h : d.isEmpty = false) : ∃ a t, sortDesc d = a :: t := by
  have hl : (sortDesc d).length = d.length := by simp [sortDesc, sortAsc, List.length_mergeSort]
  cases hs : sortDesc d with
  | nil => rw [hs] at hl; cases d <;> simp_all
  | cons a t => exact ⟨a, t, rfl⟩

theorem step_eq (v : PyNum) : (fun (old new : Int × PyNum) =>
      let x4 := old.1
      let x5 := old.2
      let x6 := new.1
      let x7 := new.2
      let x8 := (if decide (x4 = (x6 + 1)) then v else (PyNum.powInt v (x4 - x6)))
      (x6, (x7 + (x5 * x8)))) = hornerStepZ v := by
  funext old new
  simp [hornerStepZ]

theorem horner_eq (p : ZPoly) (v : PyNum) (he : p.data.isEmpty = false) :
    (let x3 := (sortDesc p.data)
     let t1 := (Py.reduce1 (hornerStepZ v) x3)
     (t1.2 * (PyNum.powInt v t1.1))) = evalHornerZ p.data v := by
  obtain ⟨a, t, hs⟩ := sortDesc_ne_nil he
  simp only [evalHornerZ, hs, Py.reduce1]

theorem direct_eq (d : MPoly PyNum) (v : PyNum) :
    ((sortAsc d).map (fun kv => (kv.2 * (PyNum.powInt v kv.1)))).foldl (fun acc x => acc + x) (PyNum.int 0) = evalDirectZ d v := by
  unfold evalDirectZ
  rw [List.foldl_map]; rfl

theorem call (p : ZPoly) (v : PyNum) (h : Horner) : py_call p v h = callZ p v h := by
  unfold py_call callZ
  cases he : p.data.isEmpty
  · cases hv : v.isZero
    · cases h
      · simp only [he, eq_int0, hv, Py.thub, step_eq, Bool.false_eq_true, if_false]
        cases isPolynomial p.data
        · simp [direct_eq]
        · simp only [if_true]; congr 1; exact horner_eq p v he
      · simp only [he, eq_int0, hv, Py.thub, step_eq, Bool.false_eq_true, if_false]
        congr 1; exact horner_eq p v he
      · simp [he, eq_int0, hv, Py.thub, direct_eq]
    · cases h <;> simp [he, eq_int0, hv, getitem]
  · cases h <;> simp [he, py_zero]

end ALV.C07.Src
