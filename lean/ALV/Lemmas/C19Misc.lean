/-
  C19 — small facts about the definitions the driver runs beside the generators themselves:
  the path labels (`mcBranch`), the position of the first zero modulo (`mcZeroAt`), the noise
  duration (`noiseLen`), inputs shorter than half a resampling window (`resShort`).
-/
import ALV.Lemmas.C19Twins
import ALV.Lemmas.C19Resample

namespace ALV.C19
set_option linter.unusedSectionVars false

variable {K : Type} [Field K] [LinearOrder K] [IsStrictOrderedRing K] [FloorRing K]

/-! ### path labels -/

/-- the labels of the twelve paths -/
def branchLabels : List String :=
  ["PMS", "P-S", "PM-", "P--:step0", "P--:fast", "P--:plain",
   "-MS", "--S", "-M-", "---:step0", "---:fast", "---:plain"]

theorem mcBranch_mem (A M S : Arg K) : mcBranch A M S ∈ branchLabels := by
  rcases A with a | ps <;> rcases M with m | ms <;> rcases S with s | ss <;>
    simp only [mcBranch] <;> (try split_ifs) <;> decide

theorem mcBranch_num_fast (a m s : K) :
    mcBranch (.num a) (.num m) (.num s) = "---:fast" ↔ s ≠ 0 ∧ 1 < pyInt (m / s) := by
  simp only [mcBranch]
  split_ifs with h1 h2
  · simp [h1]
  · simp [h1, h2]
  · simp [h1, h2]

theorem mcBranch_strm_fast (ps : List K) (m s : K) :
    mcBranch (.strm ps) (.num m) (.num s) = "P--:fast" ↔ s ≠ 0 ∧ 1 < pyInt (m / s) := by
  simp only [mcBranch]
  split_ifs with h1 h2
  · simp [h1]
  · simp [h1, h2]
  · simp [h1, h2]

theorem moduloCounter_num_fast (a m s : K) (n : Nat) (h : s ≠ 0 ∧ 1 < pyInt (m / s)) :
    moduloCounter (.num a) (.num m) (.num s) n = fastN m s (pyInt (m / s)) n a 0 := by
  simp [moduloCounter, h.1, h.2]

theorem moduloCounter_strm_fast (ps : List K) (m s : K) (n : Nat) (h : s ≠ 0 ∧ 1 < pyInt (m / s)) :
    moduloCounter (.strm ps) (.num m) (.num s) n = (fastP m s (pyInt (m / s)) 0 0 0 ps).take n := by
  simp [moduloCounter, h.1, h.2]

/-! ### the first zero modulo -/

theorem mcZeroAt_eq (A M S : Arg K) (n : Nat) :
    mcZeroAt A M S n = ((M.expand n).take (moduloCounter A M S n).length).findIdx? (· = 0) := by
  rw [moduloCounter_rec, mcRec_length]; rfl

/-! ### noise duration -/

theorem noiseLen_eq (dur : Option K) (n : Nat) :
    noiseLen dur n = match dur with
      | none => n
      | some d => min n (durLen d) := by
  cases dur with
  | none => rfl
  | some d => simp [noiseLen, rint_toNat]

/-! ### inputs shorter than half a window -/

theorem resShort_iff (xs : List K) (order : Nat) :
    resShort xs order = false ↔ order / 2 + 1 ≤ xs.length := by
  simp [resShort]

/-- the specification on an input with fewer than `order/2 + 1` samples: no output exists (the
window of output 0 already reaches past the last input sample) -/
theorem resampleSpec_short (xs : List K) (step : Arg K) (order : Nat) (zero : K) (n : Nat)
    (h : resShort xs order = true) : resampleSpec xs step order zero n = ([], true) := by
  have hlt : xs.length < order / 2 + 1 := by simpa [resShort] using h
  have h0 : resExists xs order (0 : K) = false := by
    have := resExists_nat xs order 0
    simp only [Nat.cast_zero, Int.cast_zero] at this
    rw [this]; simp; omega
  unfold resampleSpec
  rcases step with s | ss
  · simp [List.range_succ_eq_map, h0]
  · cases ss <;> simp [resPositions, h0]

end ALV.C19
