/-
  C07 — the executable specification (`Spec/C07.lean`: coefficient-wise ring
  operations in canonical form) denotes Mathlib's ring operations, and the sorted
  terms of the model's results are *equal* to the specification's results.
-/
import ALV.Lemmas.C07Hash
import ALV.Lemmas.C07Calc

set_option linter.unusedSectionVars false

open LaurentPolynomial

namespace ALV.C07
variable {K : Type} [Field K] [DecidableEq K]

/-! ### sorted candidate supports -/

theorem mem_insertKey {k x : ℤ} {l : List ℤ} : x ∈ insertKey k l ↔ x = k ∨ x ∈ l := by
  induction l with
  | nil => simp [insertKey]
  | cons a t ih =>
    unfold insertKey
    split
    · simp
    · split
      · rename_i h; subst h; simp
      · simp only [List.mem_cons, ih]
        constructor
        · rintro (h | h | h) <;> simp [h]
        · rintro (h | h | h) <;> simp [h]

theorem pairwise_insertKey {k : ℤ} {l : List ℤ} (h : l.Pairwise (· < ·)) :
    (insertKey k l).Pairwise (· < ·) := by
  induction l with
  | nil => simp [insertKey]
  | cons a t ih =>
    rw [List.pairwise_cons] at h
    unfold insertKey
    split
    · rename_i hk
      rw [List.pairwise_cons]
      refine ⟨?_, List.pairwise_cons.2 h⟩
      intro b hb
      rcases List.mem_cons.1 hb with hb | hb
      · subst hb; exact hk
      · exact lt_trans hk (h.1 b hb)
    · split
      · exact List.pairwise_cons.2 h
      · rename_i h1 h2
        rw [List.pairwise_cons]
        refine ⟨?_, ih h.2⟩
        intro b hb
        rcases mem_insertKey.1 hb with hb | hb
        · subst hb; omega
        · exact h.1 b hb

theorem mem_sortedKeys {x : ℤ} {ks : List ℤ} : x ∈ sortedKeys ks ↔ x ∈ ks := by
  unfold sortedKeys
  induction ks with
  | nil => simp
  | cons a t ih => simp [List.foldr_cons, mem_insertKey, ih]

theorem pairwise_sortedKeys (ks : List ℤ) : (sortedKeys ks).Pairwise (· < ·) := by
  unfold sortedKeys
  induction ks with
  | nil => simp
  | cons a t ih => exact pairwise_insertKey ih

/-! ### canonical forms -/

/-- strictly ascending powers -/
def Ascending (p : MPoly K) : Prop := (keys p).Pairwise (· < ·)

theorem keys_canonOn_sublist (ks : List ℤ) (f : ℤ → K) : (keys (canonOn ks f)).Sublist (sortedKeys ks) := by
  unfold canonOn keys
  have h1 : ((sortedKeys ks).map (fun k => (k, f k))).map (·.1) = sortedKeys ks := by
    simp [List.map_map, Function.comp_def]
  conv_rhs => rw [← h1]
  exact List.Sublist.map _ List.filter_sublist

theorem ascending_canonOn (ks : List ℤ) (f : ℤ → K) : Ascending (canonOn ks f) :=
  (pairwise_sortedKeys ks).sublist (keys_canonOn_sublist ks f)

theorem nodup_of_ascending {p : MPoly K} (h : Ascending p) : (keys p).Nodup :=
  h.imp (fun hab => ne_of_lt hab)

theorem wf_canonOn (ks : List ℤ) (f : ℤ → K) : WF (canonOn ks f) := by
  refine ⟨nodup_of_ascending (ascending_canonOn ks f), ?_⟩
  intro kv h
  have := (List.mem_filter.1 h).2
  simpa using this

theorem mem_canonOn {ks : List ℤ} {f : ℤ → K} {k : ℤ} {v : K} :
    (k, v) ∈ canonOn ks f ↔ k ∈ ks ∧ v = f k ∧ v ≠ 0 := by
  unfold canonOn
  rw [List.mem_filter, List.mem_map]
  constructor
  · rintro ⟨⟨k', hk', he⟩, hv⟩
    cases he
    exact ⟨mem_sortedKeys.1 hk', rfl, by simpa using hv⟩
  · rintro ⟨hk, rfl, hv⟩
    exact ⟨⟨k, mem_sortedKeys.2 hk, rfl⟩, by simpa using hv⟩

theorem getD_canonOn (ks : List ℤ) (f : ℤ → K) (k : ℤ) :
    getD (canonOn ks f) k = if k ∈ ks then f k else 0 := by
  unfold getD
  by_cases h : k ∈ ks ∧ f k ≠ 0
  · rw [find?_of_mem (wf_canonOn ks f).1 (mem_canonOn.2 ⟨h.1, rfl, h.2⟩)]
    simp [h.1]
  · have : find? (canonOn ks f) k = none := by
      rw [find?_eq_none]
      intro hk
      obtain ⟨kv, hkv, rfl⟩ := List.mem_map.1 hk
      obtain ⟨h1, h2, h3⟩ := mem_canonOn.1 (show (kv.1, kv.2) ∈ canonOn ks f from hkv)
      exact h ⟨h1, h2 ▸ h3⟩
    rw [this]
    by_cases hk : k ∈ ks
    · have : f k = 0 := by
        by_contra hf; exact h ⟨hk, hf⟩
      simp [hk, this]
    · simp [hk]

/-- the coefficient function of a canonical form, when `f` vanishes outside `ks` -/
theorem coeff_canonOn {ks : List ℤ} {f : ℤ → K} (hf : ∀ k, k ∉ ks → f k = 0) (k : ℤ) :
    coeff (canonOn ks f) k = f k := by
  rw [coeff_eq_getD (wf_canonOn ks f).1, getD_canonOn]
  split
  · rfl
  · rename_i h; exact (hf k h).symm

theorem toLaurent_canonOn {ks : List ℤ} {f : ℤ → K} (hf : ∀ k, k ∉ ks → f k = 0) (g : K[T;T⁻¹])
    (hg : ∀ k, g.coeff k = f k) : toLaurent (canonOn ks f) = g := by
  apply LaurentPolynomial.ext
  intro k
  rw [coeff_toLaurent, coeff_canonOn hf, hg]

/-- a term list and its canonical form denote the same Laurent polynomial -/
theorem toLaurent_canon (p : MPoly K) : toLaurent (canon p) = toLaurent p :=
  toLaurent_canonOn (fun _ h => coeff_eq_zero_of_not_mem h) _ (fun k => coeff_toLaurent p k)

theorem toLaurent_sAdd (p q : MPoly K) : toLaurent (sAdd p q) = toLaurent p + toLaurent q := by
  apply toLaurent_canonOn
  · intro k hk
    simp only [List.mem_append, not_or] at hk
    rw [coeff_eq_zero_of_not_mem hk.1, coeff_eq_zero_of_not_mem hk.2, add_zero]
  · intro k; simp [coeff_toLaurent]

theorem toLaurent_sNeg (p : MPoly K) : toLaurent (sNeg p) = -toLaurent p := by
  apply toLaurent_canonOn
  · intro k hk; rw [coeff_eq_zero_of_not_mem hk, neg_zero]
  · intro k; simp [coeff_toLaurent]

theorem toLaurent_sSub (p q : MPoly K) : toLaurent (sSub p q) = toLaurent p - toLaurent q := by
  apply toLaurent_canonOn
  · intro k hk
    simp only [List.mem_append, not_or] at hk
    rw [coeff_eq_zero_of_not_mem hk.1, coeff_eq_zero_of_not_mem hk.2, sub_zero]
  · intro k; simp [coeff_toLaurent]

theorem sumL_eq (l : List K) : sumL l = l.sum := by
  unfold sumL
  induction l with
  | nil => rfl
  | cons a t ih => simp [ih]

/-- the convolution formula of the spec is Mathlib's product -/
theorem coeff_mul_toLaurent (p q : MPoly K) (k : ℤ) :
    (toLaurent p * toLaurent q).coeff k = (p.map fun a => a.2 * coeff q (k - a.1)).sum := by
  induction p with
  | nil => simp
  | cons a t ih =>
    rw [toLaurent_cons, add_mul, AddMonoidAlgebra.coeff_add, Finsupp.add_apply, ih, List.map_cons,
      List.sum_cons]
    congr 1
    have : k = a.1 + (k - a.1) := by ring
    conv_lhs => rw [this]
    rw [AddMonoidAlgebra.coeff_single_mul_add, coeff_toLaurent]

theorem toLaurent_sMul (p q : MPoly K) : toLaurent (sMul p q) = toLaurent p * toLaurent q := by
  apply toLaurent_canonOn
  · intro k hk
    rw [sumL_eq]
    apply List.sum_eq_zero
    intro x hx
    obtain ⟨a, ha, rfl⟩ := List.mem_map.1 hx
    have : k - a.1 ∉ keys q := by
      intro hm
      apply hk
      obtain ⟨b, hb, hbe⟩ := List.mem_map.1 hm
      rw [List.mem_flatMap]
      refine ⟨a, ha, List.mem_map.2 ⟨b, hb, ?_⟩⟩
      rw [hbe]; ring
    rw [coeff_eq_zero_of_not_mem this, mul_zero]
  · intro k; rw [coeff_mul_toLaurent, sumL_eq]

theorem toLaurent_sConst (c : K) : toLaurent (sConst c) = C c := by
  apply toLaurent_canonOn
  · intro k hk
    have : k ≠ 0 := by simpa using hk
    simp [this]
  · intro k
    rw [← single_eq_C, AddMonoidAlgebra.coeff_single, Finsupp.single_apply]
    by_cases h : k = 0
    · simp [h]
    · simp [h, Ne.symm h]

theorem toLaurent_sPow (p : MPoly K) (n : ℕ) : toLaurent (sPow p n) = toLaurent p ^ n := by
  induction n with
  | zero => simp [sPow, toLaurent_sConst]
  | succ n ih => rw [sPow, toLaurent_sMul, ih, pow_succ]

theorem toLaurent_sDiff (p : MPoly K) : toLaurent (sDiff p) = D (toLaurent p) := by
  apply toLaurent_canonOn
  · intro k hk
    have : k + 1 ∉ keys p := by
      intro hm
      apply hk
      exact List.mem_map.2 ⟨k + 1, hm, by ring⟩
    rw [coeff_eq_zero_of_not_mem this, mul_zero]
  · intro k; rw [coeff_D, coeff_toLaurent, ofIntA_eq]

/-! ### uniqueness of canonical forms: model results, once sorted, *are* the spec results -/

theorem sortAsc_of_ascending {s : MPoly K} (h : Ascending s) : sortAsc s = s := by
  unfold sortAsc
  apply List.mergeSort_of_pairwise
  unfold Ascending keys at h
  rw [List.pairwise_map] at h
  exact h.imp (fun hab => by simpa using le_of_lt hab)

/-- Two well-formed Polys that denote the same Laurent polynomial have the same sorted terms;
in particular a model result equals an (ascending, well-formed) spec result once sorted. -/
theorem sortAsc_eq_of_toLaurent {m s : MPoly K} (hm : WF m) (hs : WF s) (ha : Ascending s)
    (h : toLaurent m = toLaurent s) : sortAsc m = s := by
  have := (hashKey_eq_iff hm.1 hs.1).2 ((eq_iff_toLaurent hm hs).2 h)
  unfold hashKey at this
  rw [this, sortAsc_of_ascending ha]

end ALV.C07
