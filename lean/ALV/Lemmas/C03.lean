/-
  C03 — helper lemmas: denotation of iterators, heap invariant, `next` refines `head/tail`.
-/
import ALV.Model.C03
import ALV.Spec.C03

namespace ALV.C03
variable {α : Type}

/-! ### fuel monotonicity -/

theorem next_mono : ∀ (f : Nat) (h : Heap α) (it : It α) r,
    next f h it = some r → next (f + 1) h it = some r := by
  intro f
  induction f with
  | zero => intro h it r hr; simp [next] at hr
  | succ f ih =>
    intro h it r hr
    cases it with
    | src xs => cases xs <;> simpa [next] using hr
    | cyc per rest =>
      cases rest with
      | nil => cases per <;> simpa [next] using hr
      | cons x r => simpa [next] using hr
    | tee k pos =>
      rw [next] at hr ⊢
      cases hk : h[k]? with
      | none => simpa [hk] using hr
      | some hub =>
        simp only [hk] at hr ⊢
        by_cases hp : pos < hub.buf.length
        · simpa [hp] using hr
        · simp only [hp, if_false] at hr ⊢
          cases hx : next f h hub.parent with
          | none => simp [hx] at hr
          | some x => rw [ih _ _ _ hx]; simpa [hx] using hr
    | map g it =>
      rw [next] at hr ⊢
      cases hx : next f h it with
      | none => simp [hx] at hr
      | some x => rw [ih _ _ _ hx]; simpa [hx] using hr
    | filter p it =>
      rw [next] at hr ⊢
      cases hx : next f h it with
      | none => simp [hx] at hr
      | some x =>
        rw [ih _ _ _ hx]
        obtain ⟨h', it', o⟩ := x
        cases o with
        | none => simpa [hx] using hr
        | some v =>
          simp only [hx] at hr ⊢
          by_cases hv : p v
          · simpa [hv] using hr
          · simp only [hv] at hr ⊢
            exact ih _ _ _ hr
    | chain a b =>
      rw [next] at hr ⊢
      cases hx : next f h a with
      | none => simp [hx] at hr
      | some x =>
        rw [ih _ _ _ hx]
        obtain ⟨h', a', o⟩ := x
        cases o with
        | none => simp only [hx] at hr ⊢; exact ih _ _ _ hr
        | some v => simpa [hx] using hr
    | skipper n it =>
      cases n with
      | zero => rw [next] at hr ⊢; exact ih _ _ _ hr
      | succ n =>
        rw [next] at hr ⊢
        cases hx : next f h it with
        | none => simp [hx] at hr
        | some x =>
          rw [ih _ _ _ hx]
          obtain ⟨h', it', o⟩ := x
          cases o with
          | none => simpa [hx] using hr
          | some v => simp only [hx] at hr ⊢; exact ih _ _ _ hr
    | limiter n it =>
      cases n with
      | zero => simpa [next] using hr
      | succ n =>
        rw [next] at hr ⊢
        cases hx : next f h it with
        | none => simp [hx] at hr
        | some x =>
          rw [ih _ _ _ hx]
          obtain ⟨h', it', o⟩ := x
          cases o <;> simpa [hx] using hr

theorem next_mono_le {f f' : Nat} (hle : f ≤ f') {h : Heap α} {it : It α} {r}
    (hr : next f h it = some r) : next f' h it = some r := by
  induction hle with
  | refl => exact hr
  | step _ ih => exact next_mono _ _ _ _ ih

/-! ### denotation of an iterator

`E` lists, for every tee hub, the whole sequence that hub distributes (what it has buffered
so far followed by what its parent still holds).  It is fixed when the hub is created and
never changes: this is the hub invariant `buf ++ den parent = original`. -/

def envAt (E : List (List α)) (k : Nat) : List α := (E[k]?).getD []

def den (E : List (List α)) : It α → List α
  | .src xs => xs
  | .cyc _ _ => []
  | .tee k pos => (envAt E k).drop pos
  | .map f it => (den E it).map f
  | .filter p it => (den E it).filter p
  | .chain a b => den E a ++ den E b
  | .skipper n it => (den E it).drop n
  | .limiter n it => (den E it).take n

def It.size : It α → Nat
  | .src _ => 1
  | .cyc _ _ => 1
  | .tee _ _ => 1
  | .map _ it => it.size + 1
  | .filter _ it => it.size + 1
  | .chain a b => a.size + b.size + 1
  | .skipper _ it => it.size + 1
  | .limiter _ it => it.size + 1

/-- every tee leaf refers to a hub with an id below `k` -/
def Below (k : Nat) : It α → Prop
  | .src _ => True
  | .cyc _ _ => True
  | .tee j _ => j < k
  | .map _ it => Below k it
  | .filter _ it => Below k it
  | .chain a b => Below k a ∧ Below k b
  | .skipper _ it => Below k it
  | .limiter _ it => Below k it

/-- finite (no `cycle`), and every tee leaf points at an existing hub, not beyond its buffer -/
def Ok (h : Heap α) : It α → Prop
  | .src _ => True
  | .cyc _ _ => False
  | .tee j pos => ∃ hub, h[j]? = some hub ∧ pos ≤ hub.buf.length
  | .map _ it => Ok h it
  | .filter _ it => Ok h it
  | .chain a b => Ok h a ∧ Ok h b
  | .skipper _ it => Ok h it
  | .limiter _ it => Ok h it

/-- the heap invariant: acyclic, well formed, and every hub still distributes `E[k]` -/
def HeapOK (E : List (List α)) (h : Heap α) : Prop :=
  E.length = h.length ∧
  ∀ (k : Nat) (hub : Hub α), h[k]? = some hub →
    Below k hub.parent ∧ Ok h hub.parent ∧ envAt E k = hub.buf ++ den E hub.parent

/-- hubs stay, buffers only grow -/
def Grow (h h' : Heap α) : Prop :=
  h'.length = h.length ∧
  ∀ (k : Nat) (hub : Hub α), h[k]? = some hub →
    ∃ hub' : Hub α, h'[k]? = some hub' ∧ hub.buf.length ≤ hub'.buf.length

theorem Grow.refl (h : Heap α) : Grow h h := ⟨rfl, fun _ hub hk => ⟨hub, hk, Nat.le_refl _⟩⟩

theorem Grow.trans {h1 h2 h3 : Heap α} (a : Grow h1 h2) (b : Grow h2 h3) : Grow h1 h3 := by
  refine ⟨b.1.trans a.1, fun k hub hk => ?_⟩
  obtain ⟨hub2, h2k, l2⟩ := a.2 k hub hk
  obtain ⟨hub3, h3k, l3⟩ := b.2 k hub2 h2k
  exact ⟨hub3, h3k, Nat.le_trans l2 l3⟩

theorem Grow.set {h : Heap α} {k : Nat} {hub : Hub α} (hk : h[k]? = some hub) (p : It α)
    (nb : List α) (hl : hub.buf.length ≤ nb.length) : Grow h (h.set k ⟨p, nb⟩) := by
  refine ⟨by simp, fun j hj hjk => ?_⟩
  by_cases e : k = j
  · subst e
    have hlt : k < h.length := by
      rcases Nat.lt_or_ge k h.length with l | l
      · exact l
      · simp [List.getElem?_eq_none l] at hk
    refine ⟨⟨p, nb⟩, by simp [List.getElem?_set, hlt], ?_⟩
    rw [hk] at hjk; cases hjk; exact hl
  · exact ⟨hj, by simp [List.getElem?_set, e, hjk], Nat.le_refl _⟩

theorem Ok.grow {h h' : Heap α} (g : Grow h h') : ∀ {it : It α}, Ok h it → Ok h' it
  | .src _, _ => trivial
  | .cyc _ _, hx => hx
  | .tee j pos, ⟨hub, hj, hp⟩ => by
      obtain ⟨hub', hj', hl⟩ := g.2 j hub hj
      exact ⟨hub', hj', Nat.le_trans hp hl⟩
  | .map _ it, hx => Ok.grow (it := it) g hx
  | .filter _ it, hx => Ok.grow (it := it) g hx
  | .chain a b, hx => ⟨Ok.grow (it := a) g hx.1, Ok.grow (it := b) g hx.2⟩
  | .skipper _ it, hx => Ok.grow (it := it) g hx
  | .limiter _ it, hx => Ok.grow (it := it) g hx

theorem Below.mono {k k' : Nat} (hle : k ≤ k') : ∀ {it : It α}, Below k it → Below k' it
  | .src _, _ => trivial
  | .cyc _ _, _ => trivial
  | .tee _ _, hx => Nat.lt_of_lt_of_le hx hle
  | .map _ it, hx => Below.mono (it := it) hle hx
  | .filter _ it, hx => Below.mono (it := it) hle hx
  | .chain a b, hx => ⟨Below.mono (it := a) hle hx.1, Below.mono (it := b) hle hx.2⟩
  | .skipper _ it, hx => Below.mono (it := it) hle hx
  | .limiter _ it, hx => Below.mono (it := it) hle hx

/-- a well formed iterator only mentions existing hubs -/
theorem Ok.below {h : Heap α} : ∀ {it : It α}, Ok h it → Below h.length it
  | .src _, _ => trivial
  | .cyc _ _, _ => trivial
  | .tee j _, ⟨hub, hj, _⟩ => by
      show j < h.length
      rcases Nat.lt_or_ge j h.length with l | l
      · exact l
      · simp [List.getElem?_eq_none l] at hj
  | .map _ it, hx => Ok.below (it := it) hx
  | .filter _ it, hx => Ok.below (it := it) hx
  | .chain a b, hx => ⟨Ok.below (it := a) hx.1, Ok.below (it := b) hx.2⟩
  | .skipper _ it, hx => Ok.below (it := it) hx
  | .limiter _ it, hx => Ok.below (it := it) hx

theorem It.size_pos : ∀ it : It α, 0 < it.size
  | .src _ | .cyc _ _ | .tee _ _ | .map _ _ | .filter _ _ | .chain _ _ | .skipper _ _ | .limiter _ _ => by
    simp [It.size]

theorem getElem?_lt {h : List β} {k : Nat} {x : β} (hk : h[k]? = some x) : k < h.length := by
  rcases Nat.lt_or_ge k h.length with l | l
  · exact l
  · simp [List.getElem?_eq_none l] at hk

/-- replacing hub `k` by a hub that distributes the same sequence keeps the invariant -/
theorem HeapOK.set {E : List (List α)} {h : Heap α} {k : Nat} {hub : Hub α} (hH : HeapOK E h)
    (hk : h[k]? = some hub) {p : It α} {nb : List α} (hl : hub.buf.length ≤ nb.length)
    (hB : Below k p) (hO : Ok h p) (hE : envAt E k = nb ++ den E p) :
    HeapOK E (h.set k ⟨p, nb⟩) := by
  have g := Grow.set hk p nb hl
  refine ⟨by simpa using hH.1, fun j hj hjk => ?_⟩
  by_cases e : k = j
  · subst e
    have hlt := getElem?_lt hk
    simp [hlt] at hjk
    subst hjk
    exact ⟨hB, Ok.grow g hO, hE⟩
  · have hjk' : h[j]? = some hj := by simpa [List.getElem?_set, e] using hjk
    obtain ⟨b, o, ev⟩ := hH.2 j hj hjk'
    exact ⟨b, Ok.grow g o, ev⟩

/-- what one `next` achieves: it returns the head of the denotation, the new iterator
    denotes the tail, the invariant survives, hubs above the iterator's reach are untouched -/
structure Good (E : List (List α)) (h : Heap α) (it : It α) (f : Nat) (h' : Heap α) (it' : It α) : Prop where
  run : next f h it = some (h', it', (den E it).head?)
  den' : den E it' = (den E it).tail
  hok : HeapOK E h'
  ok : Ok h' it'
  sz : it'.size ≤ it.size
  grow : Grow h h'
  below : ∀ k, Below k it → Below k it' ∧ ∀ j, k ≤ j → h'[j]? = h[j]?

theorem good_tee {E : List (List α)} {K : Nat}
    (IH : ∀ (h : Heap α) (it : It α) (k : Nat), k < K → HeapOK E h → Ok h it → Below k it →
      ∃ f h' it', Good E h it f h' it')
    (h : Heap α) (k pos : Nat) (hH : HeapOK E h) (hO : Ok h (.tee k pos)) (hB : Below K (.tee k pos : It α)) :
    ∃ f h' it', Good E h (.tee k pos) f h' it' := by
  obtain ⟨hub, hk, hp⟩ := hO
  obtain ⟨hBp, hOp, hE⟩ := hH.2 k hub hk
  by_cases hlt : pos < hub.buf.length
  · refine ⟨1, h, .tee k (pos + 1), ?_, ?_, hH, ⟨hub, hk, hlt⟩, Nat.le_refl _, Grow.refl h,
      fun k' hb => ⟨hb, fun _ _ => rfl⟩⟩
    · simp [next, hk, hlt, den, hE, List.getElem?_append_left]
    · simp [den]
  · have hpos : pos = hub.buf.length := Nat.le_antisymm hp (Nat.le_of_not_lt hlt)
    subst hpos
    obtain ⟨f, h1, p1, G⟩ := IH h hub.parent k hB hH hOp hBp
    obtain ⟨hBp1, hfr⟩ := G.below k hBp
    have hk1 : h1[k]? = some hub := by rw [hfr k (Nat.le_refl _)]; exact hk
    cases hys : den E hub.parent with
    | nil =>
      have hE' : envAt E k = hub.buf ++ den E p1 := by rw [G.den', hE, hys]; rfl
      refine ⟨f + 1, h1.set k ⟨p1, hub.buf⟩, .tee k hub.buf.length, ?_, ?_,
        HeapOK.set G.hok hk1 (Nat.le_refl _) hBp1 G.ok hE', ?_, Nat.le_refl _,
        G.grow.trans (Grow.set hk1 _ _ (Nat.le_refl _)), fun k' hb => ⟨hb, fun j hj => ?_⟩⟩
      · have := G.run
        rw [hys] at this
        simp [next, hk, this, den, hE, hys]
      · simp [den, hE, hys]
      · exact ⟨⟨p1, hub.buf⟩, by simp [getElem?_lt hk1], Nat.le_refl _⟩
      · have hkj : k ≠ j := Nat.ne_of_lt (Nat.lt_of_lt_of_le hb hj)
        rw [List.getElem?_set_ne hkj]
        exact hfr j (Nat.le_of_lt (Nat.lt_of_lt_of_le hb hj))
    | cons v r =>
      have hE' : envAt E k = (hub.buf ++ [v]) ++ den E p1 := by rw [G.den', hE, hys]; simp
      refine ⟨f + 1, h1.set k ⟨p1, hub.buf ++ [v]⟩, .tee k (hub.buf.length + 1), ?_, ?_,
        HeapOK.set G.hok hk1 (by simp) hBp1 G.ok hE', ?_, Nat.le_refl _,
        G.grow.trans (Grow.set hk1 _ _ (by simp)), fun k' hb => ⟨hb, fun j hj => ?_⟩⟩
      · have := G.run
        rw [hys] at this
        simp [next, hk, this, den, hE, hys]
      · simp [den, hE, hys]
      · exact ⟨⟨p1, hub.buf ++ [v]⟩, by simp [getElem?_lt hk1], by simp⟩
      · have hkj : k ≠ j := Nat.ne_of_lt (Nat.lt_of_lt_of_le hb hj)
        rw [List.getElem?_set_ne hkj]
        exact hfr j (Nat.le_of_lt (Nat.lt_of_lt_of_le hb hj))

section children
variable {E : List (List α)} {K S : Nat}
  (ih : ∀ (h : Heap α) (it : It α), HeapOK E h → Ok h it → Below K it → it.size ≤ S →
      ∃ f h' it', Good E h it f h' it')
include ih

theorem good_map (g : α → α) (h : Heap α) (c : It α) (hH : HeapOK E h) (hO : Ok h c)
    (hB : Below K c) (hS : c.size ≤ S) : ∃ f h' it', Good E h (.map g c) f h' it' := by
  obtain ⟨f, h1, c1, G⟩ := ih h c hH hO hB hS
  refine ⟨f + 1, h1, .map g c1, ?_, ?_, G.hok, G.ok, Nat.succ_le_succ G.sz, G.grow, fun k hb => G.below k hb⟩
  · simp [next, G.run, den]
  · simp [den, G.den']

theorem good_filter (p : α → Bool) : ∀ (n : Nat) (h : Heap α) (c : It α), HeapOK E h → Ok h c →
    Below K c → c.size ≤ S → (den E c).length = n → ∃ f h' it', Good E h (.filter p c) f h' it' := by
  intro n
  induction n using Nat.strongRecOn with
  | ind n ihn =>
    intro h c hH hO hB hS hn
    obtain ⟨f, h1, c1, G⟩ := ih h c hH hO hB hS
    cases hd : den E c with
    | nil =>
      refine ⟨f + 1, h1, .filter p c1, ?_, ?_, G.hok, G.ok, Nat.succ_le_succ G.sz, G.grow,
        fun k hb => G.below k hb⟩
      · have := G.run; rw [hd] at this; simp [next, this, den, hd]
      · simp [den, G.den', hd]
    | cons v r =>
      have hrun := G.run; rw [hd] at hrun
      by_cases hv : p v = true
      · refine ⟨f + 1, h1, .filter p c1, ?_, ?_, G.hok, G.ok, Nat.succ_le_succ G.sz, G.grow,
          fun k hb => G.below k hb⟩
        · simp [next, hrun, den, hd, hv]
        · simp [den, G.den', hd, hv]
      · have hlen : (den E c1).length < n := by rw [G.den', hd, ← hn, hd]; simp
        obtain ⟨f2, h2, it2, G2⟩ := ihn _ hlen h1 c1 G.hok G.ok (G.below K hB).1
          (Nat.le_trans G.sz hS) rfl
        refine ⟨max f f2 + 1, h2, it2, ?_, ?_, G2.hok, G2.ok, ?_, G.grow.trans G2.grow, fun k hb => ?_⟩
        · have r1 := next_mono_le (Nat.le_max_left f f2) hrun
          have r2 := next_mono_le (Nat.le_max_right f f2) G2.run
          simp [next, r1, hv, r2, den, hd, G.den']
        · rw [G2.den']; simp [den, hd, hv, G.den']
        · exact Nat.le_trans G2.sz (Nat.succ_le_succ G.sz)
        · obtain ⟨b1, f1⟩ := G.below k hb
          obtain ⟨b2, f2'⟩ := G2.below k b1
          exact ⟨b2, fun j hj => (f2' j hj).trans (f1 j hj)⟩

theorem good_chain (h : Heap α) (a b : It α) (hH : HeapOK E h) (hO : Ok h (.chain a b))
    (hB : Below K (.chain a b)) (hSa : a.size ≤ S) (hSb : b.size ≤ S) :
    ∃ f h' it', Good E h (.chain a b) f h' it' := by
  obtain ⟨f, h1, a1, G⟩ := ih h a hH hO.1 hB.1 hSa
  have hOb : Ok h1 b := Ok.grow G.grow hO.2
  cases hd : den E a with
  | cons v r =>
    have hrun := G.run; rw [hd] at hrun
    refine ⟨f + 1, h1, .chain a1 b, ?_, ?_, G.hok, ⟨G.ok, hOb⟩, ?_, G.grow, fun k hb => ?_⟩
    · simp [next, hrun, den, hd]
    · simp [den, G.den', hd]
    · simp only [It.size]; have := G.sz; omega
    · obtain ⟨b1, f1⟩ := G.below k hb.1
      exact ⟨⟨b1, hb.2⟩, f1⟩
  | nil =>
    have hrun := G.run; rw [hd] at hrun
    obtain ⟨f2, h2, b2, G2⟩ := ih h1 b G.hok hOb hB.2 hSb
    refine ⟨max f f2 + 1, h2, b2, ?_, ?_, G2.hok, G2.ok, ?_, G.grow.trans G2.grow, fun k hb => ?_⟩
    · have r1 := next_mono_le (Nat.le_max_left f f2) hrun
      have r2 := next_mono_le (Nat.le_max_right f f2) G2.run
      simp [next, r1, r2, den, hd]
    · rw [G2.den']; simp [den, hd]
    · simp only [It.size]; have := G2.sz; omega
    · obtain ⟨_, f1⟩ := G.below k hb.1
      obtain ⟨b2', f2'⟩ := G2.below k hb.2
      exact ⟨b2', fun j hj => (f2' j hj).trans (f1 j hj)⟩

theorem good_skipper : ∀ (n : Nat) (h : Heap α) (c : It α), HeapOK E h → Ok h c →
    Below K c → c.size ≤ S → ∃ f h' it', Good E h (.skipper n c) f h' it' := by
  intro n
  induction n with
  | zero =>
    intro h c hH hO hB hS
    obtain ⟨f, h1, c1, G⟩ := ih h c hH hO hB hS
    refine ⟨f + 1, h1, c1, ?_, ?_, G.hok, G.ok, Nat.le_succ_of_le G.sz, G.grow, fun k hb => G.below k hb⟩
    · simp [next, G.run, den]
    · simp [den, G.den']
  | succ n ihn =>
    intro h c hH hO hB hS
    obtain ⟨f, h1, c1, G⟩ := ih h c hH hO hB hS
    cases hd : den E c with
    | nil =>
      have hrun := G.run; rw [hd] at hrun
      refine ⟨f + 1, h1, .src [], ?_, ?_, G.hok, trivial, ?_, G.grow,
        fun k hb => ⟨trivial, (G.below k hb).2⟩⟩
      · simp [next, hrun, den, hd]
      · simp [den, hd]
      · simp only [It.size]; omega
    | cons v r =>
      have hrun := G.run; rw [hd] at hrun
      obtain ⟨f2, h2, it2, G2⟩ := ihn h1 c1 G.hok G.ok (G.below K hB).1 (Nat.le_trans G.sz hS)
      refine ⟨max f f2 + 1, h2, it2, ?_, ?_, G2.hok, G2.ok, ?_, G.grow.trans G2.grow, fun k hb => ?_⟩
      · have r1 := next_mono_le (Nat.le_max_left f f2) hrun
        have r2 := next_mono_le (Nat.le_max_right f f2) G2.run
        simp [next, r1, r2, den, hd, G.den']
      · rw [G2.den']; simp [den, hd, G.den']
      · exact Nat.le_trans G2.sz (Nat.succ_le_succ G.sz)
      · obtain ⟨b1, f1⟩ := G.below k hb
        obtain ⟨b2, f2'⟩ := G2.below k b1
        exact ⟨b2, fun j hj => (f2' j hj).trans (f1 j hj)⟩

theorem good_limiter (n : Nat) (h : Heap α) (c : It α) (hH : HeapOK E h) (hO : Ok h c)
    (hB : Below K c) (hS : c.size ≤ S) : ∃ f h' it', Good E h (.limiter n c) f h' it' := by
  cases n with
  | zero =>
    refine ⟨1, h, .src [], ?_, ?_, hH, trivial, ?_, Grow.refl h, fun k _ => ⟨trivial, fun _ _ => rfl⟩⟩
    · simp [next, den]
    · simp [den]
    · simp only [It.size]; omega
  | succ n =>
    obtain ⟨f, h1, c1, G⟩ := ih h c hH hO hB hS
    cases hd : den E c with
    | nil =>
      have hrun := G.run; rw [hd] at hrun
      refine ⟨f + 1, h1, .src [], ?_, ?_, G.hok, trivial, ?_, G.grow,
        fun k hb => ⟨trivial, (G.below k hb).2⟩⟩
      · simp [next, hrun, den, hd]
      · simp [den, hd]
      · simp only [It.size]; omega
    | cons v r =>
      have hrun := G.run; rw [hd] at hrun
      refine ⟨f + 1, h1, .limiter n c1, ?_, ?_, G.hok, G.ok, Nat.succ_le_succ G.sz, G.grow,
        fun k hb => G.below k hb⟩
      · simp [next, hrun, den, hd]
      · simp [den, hd, G.den']

end children

theorem good_aux {E : List (List α)} {K : Nat}
    (IH : ∀ (h : Heap α) (it : It α) (k : Nat), k < K → HeapOK E h → Ok h it → Below k it →
      ∃ f h' it', Good E h it f h' it') :
    ∀ (S : Nat) (h : Heap α) (it : It α), HeapOK E h → Ok h it → Below K it → it.size ≤ S →
      ∃ f h' it', Good E h it f h' it' := by
  intro S
  induction S with
  | zero => intro h it _ _ _ hS; have := It.size_pos it; omega
  | succ S ih =>
    intro h it hH hO hB hS
    cases it with
    | src xs =>
      cases xs with
      | nil =>
        exact ⟨1, h, .src [], by simp [next, den], by simp [den], hH, trivial, Nat.le_refl _,
          Grow.refl h, fun k _ => ⟨trivial, fun _ _ => rfl⟩⟩
      | cons x xs =>
        exact ⟨1, h, .src xs, by simp [next, den], by simp [den], hH, trivial, Nat.le_refl _,
          Grow.refl h, fun k _ => ⟨trivial, fun _ _ => rfl⟩⟩
    | cyc per rest => exact absurd hO id
    | tee k pos => exact good_tee IH h k pos hH hO hB
    | map g c => exact good_map ih g h c hH hO hB (by simp only [It.size] at hS; omega)
    | filter p c =>
      exact good_filter ih p _ h c hH hO hB (by simp only [It.size] at hS; omega) rfl
    | chain a b =>
      exact good_chain ih h a b hH hO hB (by simp only [It.size] at hS; omega)
        (by simp only [It.size] at hS; omega)
    | skipper n c => exact good_skipper ih n h c hH hO hB (by simp only [It.size] at hS; omega)
    | limiter n c => exact good_limiter ih n h c hH hO hB (by simp only [It.size] at hS; omega)

/-- **`next` refines head/tail** for every well formed finite iterator over every heap that
    satisfies the hub invariant. -/
theorem next_good {E : List (List α)} : ∀ (K : Nat) (h : Heap α) (it : It α), HeapOK E h → Ok h it →
    Below K it → ∃ f h' it', Good E h it f h' it' := by
  intro K
  induction K with
  | zero =>
    intro h it hH hO hB
    exact good_aux (fun _ _ k hk => absurd hk (Nat.not_lt_zero k)) it.size h it hH hO hB (Nat.le_refl _)
  | succ K ihK =>
    intro h it hH hO hB
    refine good_aux (fun h' it' k hk hH' hO' hB' => ?_) it.size h it hH hO hB (Nat.le_refl _)
    exact ihK h' it' hH' hO' (Below.mono (Nat.le_of_lt_succ hk) hB')

theorem next_ok {E : List (List α)} {h : Heap α} {it : It α} (hH : HeapOK E h) (hO : Ok h it) :
    ∃ f h' it', Good E h it f h' it' :=
  next_good h.length h it hH hO (Ok.below hO)

/-! ### finite sequences of the specification are plain lists -/

@[simp] theorem LSeq.unroll_fin (xs : List α) (n : Nat) : (LSeq.mk xs []).unroll n = xs := by
  simp [LSeq.unroll]
@[simp] theorem LSeq.take_fin (xs : List α) (n : Nat) : (LSeq.mk xs []).take n = xs.take n := by
  simp [LSeq.take]
@[simp] theorem LSeq.drop_fin (xs : List α) (n : Nat) : (LSeq.mk xs []).drop n = ⟨xs.drop n, []⟩ := by
  simp [LSeq.drop]
@[simp] theorem LSeq.map_fin (f : α → α) (xs : List α) : (LSeq.mk xs []).map f = ⟨xs.map f, []⟩ := by
  simp [LSeq.map]
@[simp] theorem LSeq.filter_fin (p : α → Bool) (xs : List α) :
    (LSeq.mk xs []).filter p = ⟨xs.filter p, []⟩ := by
  simp [LSeq.filter]
@[simp] theorem LSeq.append_fin (xs ys : List α) :
    (LSeq.mk xs []).append ⟨ys, []⟩ = ⟨xs ++ ys, []⟩ := by
  simp [LSeq.append, LSeq.endless]

/-! ### take / list() on an iterator -/

/-- result of a multi-item read: for all large enough fuel the model returns `vs` and leaves
    an iterator denoting `rest`, in a heap that still satisfies the invariant -/
structure Read (E : List (List α)) (h : Heap α) (h' : Heap α) (it' : It α) (rest : List α) : Prop where
  den' : den E it' = rest
  hok : HeapOK E h'
  ok : Ok h' it'
  grow : Grow h h'

theorem takeN_ok {E : List (List α)} : ∀ (n : Nat) (h : Heap α) (it : It α), HeapOK E h → Ok h it →
    ∃ f h' it', (∀ f', f ≤ f' → takeN f' n h it = some (h', it', (den E it).take n)) ∧
      Read E h h' it' ((den E it).drop n) := by
  intro n
  induction n with
  | zero => intro h it hH hO; exact ⟨0, h, it, fun _ _ => by simp [takeN], ⟨by simp, hH, hO, Grow.refl h⟩⟩
  | succ n ihn =>
    intro h it hH hO
    obtain ⟨f, h1, it1, G⟩ := next_ok hH hO
    cases hd : den E it with
    | nil =>
      have hrun := G.run; rw [hd] at hrun
      refine ⟨f, h1, it1, fun f' hf => ?_, ⟨by simp [G.den', hd], G.hok, G.ok, G.grow⟩⟩
      simp [takeN, next_mono_le hf hrun]
    | cons v r =>
      have hrun := G.run; rw [hd] at hrun
      obtain ⟨f2, h2, it2, run2, R2⟩ := ihn h1 it1 G.hok G.ok
      refine ⟨max f f2, h2, it2, fun f' hf => ?_,
        ⟨by rw [R2.den', G.den', hd]; simp, R2.hok, R2.ok, G.grow.trans R2.grow⟩⟩
      have r1 := next_mono_le (Nat.le_trans (Nat.le_max_left f f2) hf) hrun
      have r2 := run2 f' (Nat.le_trans (Nat.le_max_right f f2) hf)
      simp [takeN, r1, r2, G.den', hd]

theorem drainIt_ok {E : List (List α)} : ∀ (n : Nat) (h : Heap α) (it : It α), HeapOK E h → Ok h it →
    (den E it).length = n →
    ∃ f h' it', (∀ f' g, f ≤ f' → n < g → drainIt f' g h it = some (h', it', den E it)) ∧
      Read E h h' it' [] := by
  intro n
  induction n with
  | zero =>
    intro h it hH hO hn
    obtain ⟨f, h1, it1, G⟩ := next_ok hH hO
    have hd : den E it = [] := List.eq_nil_of_length_eq_zero hn
    have hrun := G.run; rw [hd] at hrun
    refine ⟨f, h1, it1, fun f' g hf hg => ?_, ⟨by simp [G.den', hd], G.hok, G.ok, G.grow⟩⟩
    obtain ⟨g, rfl⟩ : ∃ g', g = g' + 1 := ⟨g - 1, by omega⟩
    simp [drainIt, next_mono_le hf hrun, hd]
  | succ n ihn =>
    intro h it hH hO hn
    obtain ⟨f, h1, it1, G⟩ := next_ok hH hO
    cases hd : den E it with
    | nil => rw [hd] at hn; simp at hn
    | cons v r =>
      have hrun := G.run; rw [hd] at hrun
      have hn1 : (den E it1).length = n := by rw [G.den', hd]; rw [hd] at hn; simpa using hn
      obtain ⟨f2, h2, it2, run2, R2⟩ := ihn h1 it1 G.hok G.ok hn1
      refine ⟨max f f2, h2, it2, fun f' g hf hg => ?_, ⟨R2.den', R2.hok, R2.ok, G.grow.trans R2.grow⟩⟩
      obtain ⟨g, rfl⟩ : ∃ g', g = g' + 1 := ⟨g - 1, by omega⟩
      have r1 := next_mono_le (Nat.le_trans (Nat.le_max_left f f2) hf) hrun
      have r2 := run2 f' g (Nat.le_trans (Nat.le_max_right f f2) hf) (by omega)
      simp [drainIt, r1, r2, G.den', hd]

/-- `Stream.take` (every kind of count) on a finite iterator = `specTake` on its denotation -/
theorem takeIt_ok {E : List (List α)} {h : Heap α} {it : It α} (hH : HeapOK E h) (hO : Ok h it) (c : Cnt) :
    ∃ f h' it' o, (∀ f', f ≤ f' → takeIt f' h it c = some (h', it', o)) ∧
      specTake ⟨den E it, []⟩ c = some (⟨den E it', []⟩, o) ∧ Read E h h' it' (den E it') := by
  cases hm : takeMode c with
  | one =>
    obtain ⟨f, h1, it1, G⟩ := next_ok hH hO
    cases hd : den E it with
    | nil =>
      have hrun := G.run; rw [hd] at hrun
      refine ⟨f, h1, it1, .err "StopIteration", fun f' hf => ?_, ?_, ⟨rfl, G.hok, G.ok, G.grow⟩⟩
      · simp [takeIt, hm, next_mono_le hf hrun]
      · simp [specTake, hm, G.den', hd]
    | cons v r =>
      have hrun := G.run; rw [hd] at hrun
      refine ⟨f, h1, it1, .item v, fun f' hf => ?_, ?_, ⟨rfl, G.hok, G.ok, G.grow⟩⟩
      · simp [takeIt, hm, next_mono_le hf hrun]
      · simp [specTake, hm, G.den', hd]
  | all =>
    obtain ⟨f, h1, it1, run1, R⟩ := drainIt_ok _ h it hH hO rfl
    refine ⟨max f ((den E it).length + 1), h1, it1, .items (den E it), fun f' hf => ?_, ?_,
      ⟨rfl, R.hok, R.ok, R.grow⟩⟩
    · have := run1 f' f' (Nat.le_trans (Nat.le_max_left _ _) hf)
        (Nat.lt_of_lt_of_le (Nat.lt_succ_self _) (Nat.le_trans (Nat.le_max_right _ _) hf))
      simp [takeIt, hm, this]
    · simp [specTake, hm, LSeq.endless, R.den']
  | n k =>
    obtain ⟨f, h1, it1, run1, R⟩ := takeN_ok k h it hH hO
    refine ⟨f, h1, it1, .items ((den E it).take k), fun f' hf => ?_, ?_, ⟨rfl, R.hok, R.ok, R.grow⟩⟩
    · simp [takeIt, hm, run1 f' hf]
    · simp [specTake, hm, R.den']

end ALV.C03
