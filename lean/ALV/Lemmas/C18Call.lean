/-
  C18 — lemmas for the call layers (`ALV.Model.C18Call`), the trace of the life-cycle machine and the
  bytes the reader chain takes.  Core Lean only.
-/
import ALV.Model.C18Call
import ALV.Model.C18Res
import ALV.Lemmas.C18Chunks
import ALV.Lemmas.C18Round
namespace ALV.C18

/-! ### the trace is the run, state by state -/
section trace
variable {β ε : Type} (g : Gen β ε) (early : Bool)

/-- one event -/
def rStep (e : Ev) (s : RS) : RS := (rRun g early [e] s).2

theorem rRun_cons_state (e : Ev) (evs : List Ev) (s : RS) :
    (rRun g early (e :: evs) s).2 = (rRun g early evs (rStep g early e s)).2 := by
  cases e with
  | next =>
    by_cases hd : s.dropped = true
    · simp [rRun, rStep, hd]
    · simp [rRun, rStep, hd]
  | collect => simp [rRun, rStep]

theorem rTrace_length : ∀ (evs : List Ev) (s : RS), (rTrace g early evs s).length = evs.length := by
  intro evs
  induction evs with
  | nil => intro s; rfl
  | cons e evs ih =>
    intro s
    cases e with
    | next =>
      by_cases hd : s.dropped = true
      · simp [rTrace, hd, ih]
      · simp [rTrace, hd, ih]
    | collect => simp [rTrace, ih]

theorem rTrace_cons (e : Ev) (evs : List Ev) (s : RS) :
    ∃ o, rTrace g early (e :: evs) s = (o, rStep g early e s) :: rTrace g early evs (rStep g early e s) := by
  cases e with
  | next =>
    by_cases hd : s.dropped = true
    · exact ⟨none, by simp [rTrace, rStep, rRun, hd]⟩
    · exact ⟨some (rNext g early s).1, by simp [rTrace, rStep, rRun, hd]⟩
  | collect => exact ⟨none, by simp [rTrace, rStep, rRun]⟩

/-- the observations of the trace are the observations of the run -/
theorem rTrace_obs : ∀ (evs : List Ev) (s : RS),
    (rTrace g early evs s).filterMap (·.1) = (rRun g early evs s).1 := by
  intro evs
  induction evs with
  | nil => intro s; rfl
  | cons e evs ih =>
    intro s
    cases e with
    | next =>
      by_cases hd : s.dropped = true
      · simp [rTrace, rRun, hd, ih]
      · simp [rTrace, rRun, hd, ih]
    | collect => simp [rTrace, rRun, ih]

/-- the `i`-th state of the trace is the state of the run over the first `i + 1` events -/
theorem rTrace_state : ∀ (evs : List Ev) (s : RS) (i : Nat) (p : Option (Obs β ε) × RS),
    (rTrace g early evs s)[i]? = some p → p.2 = (rRun g early (evs.take (i + 1)) s).2 := by
  intro evs
  induction evs with
  | nil => intro s i p h; simp [rTrace] at h
  | cons e evs ih =>
    intro s i p h
    obtain ⟨o, ho⟩ := rTrace_cons g early e evs s
    rw [ho] at h
    cases i with
    | zero =>
      simp only [List.getElem?_cons_zero, Option.some.injEq] at h
      subst h
      simp [rStep]
    | succ i =>
      simp only [List.getElem?_cons_succ] at h
      rw [List.take_succ_cons, rRun_cons_state]
      exact ih _ i p h

end trace

/-! ### the bytes the reader chain takes from the data chunk -/

/-- frames asked for by `k` `next()` calls in a state with `p` samples pending -/
def framesFrom (channels k p : Nat) : Nat := if channels = 1 then k - p else (k - p + 1) / 2

theorem wavTake_data (channels sw fs : Nat) : ∀ (k : Nat) (s : WState),
    (s.closed = true → (s.data = [] ∨ fs = 0)) →
    (wavTake channels sw fs k s).2.data = s.data.drop (framesFrom channels k s.pending.length * fs) := by
  intro k
  induction k with
  | zero =>
    intro s _
    have : framesFrom channels 0 s.pending.length = 0 := by unfold framesFrom; split <;> omega
    simp [wavTake, this]
  | succ k ih =>
    intro s hinv
    obtain ⟨data, pending, closed⟩ := s
    have stay : ∀ n : Nat, (data = [] ∨ fs = 0) → data = data.drop (n * fs) := by
      intro n h; rcases h with h | h
      · subst h; simp
      · subst h; simp
    cases pending with
    | cons p ps =>
      have hn : wavNext channels sw fs ⟨data, p :: ps, closed⟩ = (some p, ⟨data, ps, closed⟩) := rfl
      have := ih ⟨data, ps, closed⟩ hinv
      simp only [wavTake, hn, List.length_cons] at this ⊢
      rw [this]
      have : framesFrom channels (k + 1) (ps.length + 1) = framesFrom channels k ps.length := by
        unfold framesFrom
        have e : k + 1 - (ps.length + 1) = k - ps.length := by omega
        rw [e]
      rw [this]
    | nil =>
      cases closed with
      | true =>
        have hn : wavNext channels sw fs ⟨data, [], true⟩ = (none, ⟨data, [], true⟩) := rfl
        simp only [wavTake, hn]
        exact stay _ (hinv rfl)
      | false =>
        by_cases hd : data = [] ∨ fs = 0
        · have hn : wavNext channels sw fs ⟨data, [], false⟩ = (none, ⟨data, [], true⟩) := by
            simp [wavNext, hd]
          simp only [wavTake, hn]
          exact stay _ hd
        · by_cases hc : channels = 1
          · have hn : wavNext channels sw fs ⟨data, [], false⟩ =
                (some (data.take fs), ⟨data.drop fs, [], false⟩) := by
              simp [wavNext, hd, hc]
            have := ih ⟨data.drop fs, [], false⟩ (by simp)
            simp only [wavTake, hn, List.length_nil] at this ⊢
            rw [this, List.drop_drop]
            congr 1
            simp only [framesFrom, if_pos hc, Nat.sub_zero]
            rw [Nat.add_mul, Nat.one_mul, Nat.add_comm]
          · have hn : wavNext channels sw fs ⟨data, [], false⟩ =
                (some ((data.take fs).take sw), ⟨data.drop fs, [(data.take fs).drop sw], false⟩) := by
              simp [wavNext, hd, hc]
            have := ih ⟨data.drop fs, [(data.take fs).drop sw], false⟩ (by simp)
            simp only [wavTake, hn, List.length_nil, List.length_cons] at this ⊢
            rw [this, List.drop_drop]
            congr 1
            simp only [framesFrom, if_neg hc, Nat.sub_zero]
            have : (k + 1 + 1) / 2 = (k - (0 + 1) + 1) / 2 + 1 := by omega
            rw [this, Nat.add_mul, Nat.one_mul, Nat.add_comm]

/-! ### the formats of the table -/

/-- every format of the table stores the integer zero in an array (the initial fill of the working array) -/
theorem leElem_zero_ok (fmt : Fmt) : ∃ z, leElem false fmt (.int 0) = .ok z := by
  unfold leElem
  cases h : fmt.intSpec with
  | some p =>
    obtain ⟨sg, w⟩ := p
    have hp : (0 : Int) < 2 ^ (8 * w - 1) := Int.pow_pos (by omega)
    have hq : (0 : Int) < 2 ^ (8 * w) := Int.pow_pos (by omega)
    cases sg
    · have : inURange w 0 := ⟨Int.le_refl 0, hq⟩
      exact ⟨leBytes w 0, by simp [PVal.asInt, packUIntLE, this]⟩
    · have : inRange w 0 := ⟨by omega, hp⟩
      exact ⟨leBytes w 0, by simp [PVal.asInt, packIntLE, this]⟩
  | none =>
    by_cases hd : fmt = .d
    · exact ⟨leBytes 8 ((PVal.int 0).toFloat.toBits.toNat : Int), by simp [hd]⟩
    · exact ⟨leBytes 4 ((PVal.int 0).toFloat.toFloat32.toBits.toNat : Int), by simp [hd]⟩

/-- the element encoder does not look at `strict` except for the format f -/
theorem leElem_strict_irrelevant (s1 s2 : Bool) (fmt : Fmt) (hf : fmt ≠ .f) (v : PVal) :
    leElem s1 fmt v = leElem s2 fmt v := by
  unfold leElem
  cases h : fmt.intSpec with
  | some p => rfl
  | none =>
    have hd : fmt = .d := by
      cases fmt <;> simp_all [Fmt.intSpec]
    simp [hd]

/-! ### the chunks depend on the element encoder only through the items and the pad value -/
section congr
variable {α ε : Type}

theorem packSeq_congr (e1 e2 : α → Except ε Bytes) : ∀ (l : List α), (∀ x ∈ l, e1 x = e2 x) →
    packSeq e1 l = packSeq e2 l := by
  intro l
  induction l with
  | nil => intro _; rfl
  | cons x xs ih =>
    intro h
    rw [packSeq_cons, packSeq_cons, h x (by simp), ih (fun y hy => h y (by simp [hy]))]

theorem genMap_congr {β γ : Type} (f1 f2 : β → Except ε γ) : ∀ (l : List β), (∀ b ∈ l, f1 b = f2 b) →
    genMap f1 l = genMap f2 l := by
  intro l
  induction l with
  | nil => intro _; rfl
  | cons x xs ih =>
    intro h
    rw [genMap, genMap, h x (by simp), ih (fun y hy => h y (by simp [hy]))]

theorem chunksSpec_congr (e1 e2 : α → Except ε Bytes) (size : Nat) (hs : 0 < size) (pad : α) (xs : List α)
    (h : ∀ x ∈ pad :: xs, e1 x = e2 x) : chunksSpec e1 size pad xs = chunksSpec e2 size pad xs := by
  unfold chunksSpec
  apply genMap_congr
  intro b hb
  apply packSeq_congr
  intro x hx
  exact h x (mem_padded size pad xs x (mem_of_mem_splitEvery size hs _ b hb x hx))

/-- a sequence whose first items all encode and whose next item does not: the chunks of the whole
groups of the good prefix, then that item's error — whatever follows, whatever the pad value -/
theorem chunksSpec_stops (enc : α → Except ε Bytes) (size : Nat) (hs : 0 < size) (pad : α) (bad : α) (e : ε)
    (hbad : enc bad = .error e) (rest : List α) :
    ∀ (k : Nat) (good : List α) (goodB : List Bytes), good.length = k → good.map enc = goodB.map Except.ok →
      chunksSpec enc size pad (good ++ bad :: rest)
        = ⟨(splitEvery size (good.take (good.length / size * size))).map
            (fun b => ((b.map fun x => match enc x with | .ok c => c | .error _ => []).flatten)), some e⟩ := by
  intro k
  induction k using Nat.strongRecOn with
  | ind k ih =>
    intro good goodB hk hg
    have hgl : goodB.length = good.length := by
      have := congrArg List.length hg; simpa using this.symm
    by_cases hlt : good.length < size
    · -- the first group holds the bad item
      have hq : good.length / size = 0 := Nat.div_eq_of_lt hlt
      rw [hq, Nat.zero_mul, List.take_zero, splitEvery_nil]
      unfold chunksSpec
      have hne : padded size pad (good ++ bad :: rest) ≠ [] := by
        apply padded_length_pos; simp
      obtain ⟨more, hm⟩ : ∃ more, (padded size pad (good ++ bad :: rest)).take size = good ++ bad :: more := by
        unfold padded
        rw [List.append_assoc, List.take_append, List.take_of_length_le (by omega)]
        have : size - good.length = (size - good.length - 1) + 1 := by omega
        rw [this, List.cons_append, List.take_succ_cons]
        exact ⟨_, rfl⟩
      rw [splitEvery]
      rw [dif_neg (by intro h; rcases h with h | h; exact hne h; omega)]
      rw [genMap, hm, packSeq_err enc good goodB bad e more hg hbad]
      rfl
    · -- a whole group of good items first
      have hge : size ≤ good.length := by omega
      have hsplit : good ++ bad :: rest = good.take size ++ (good.drop size ++ bad :: rest) := by
        rw [← List.append_assoc, List.take_append_drop]
      have hbl : (good.take size).length = size := by rw [List.length_take]; omega
      have hpad : padded size pad (good.take size ++ (good.drop size ++ bad :: rest))
          = good.take size ++ padded size pad (good.drop size ++ bad :: rest) := by
        unfold padded
        rw [List.length_append, hbl, padLen_add, List.append_assoc]
      have hgd : (good.drop size).map enc = (goodB.drop size).map Except.ok := by
        rw [List.map_drop, List.map_drop, hg]
      have hgt : (good.take size).map enc = (goodB.take size).map Except.ok := by
        rw [List.map_take, List.map_take, hg]
      have hrec := ih (good.drop size).length (by rw [← hk, List.length_drop]; omega) (good.drop size)
        (goodB.drop size) rfl hgd
      have hpk : packSeq enc (good.take size) = .ok ((goodB.take size).flatten) := by
        have := packSeq_ok_prefix enc (good.take size) (goodB.take size) [] hgt
        simpa [packSeq] using this
      have hq : good.length / size = (good.drop size).length / size + 1 := by
        rw [List.length_drop]
        have : good.length = (good.length - size) + size := by omega
        rw [this, Nat.add_div_right _ hs]; simp
      have htake : good.take (((good.drop size).length / size + 1) * size)
          = good.take size ++ (good.drop size).take ((good.drop size).length / size * size) := by
        rw [Nat.add_mul, Nat.one_mul, Nat.add_comm, List.take_add]
      unfold chunksSpec at hrec ⊢
      rw [hsplit, hpad, splitEvery_cons_block size hs _ _ hbl, genMap, hpk, hrec, hq, htake,
        splitEvery_cons_block size hs _ _ hbl]
      simp only [Gen.cons, List.map_cons]
      congr 2
      -- the bytes of the first group
      have : ∀ (l : List α) (lB : List Bytes), l.map enc = lB.map Except.ok →
          (l.map fun x => match enc x with | .ok c => c | .error _ => []) = lB := by
        intro l
        induction l with
        | nil => intro lB h; cases lB <;> simp_all
        | cons x xs ihx =>
          intro lB h
          cases lB with
          | nil => simp at h
          | cons b bs =>
            simp only [List.map_cons, List.cons.injEq] at h
            simp only [List.map_cons, h.1, ihx bs h.2]
      rw [this _ _ hgt]

end congr

end ALV.C18
