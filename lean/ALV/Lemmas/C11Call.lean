/-
  C11 — helper lemmas, part 9: the call model (`ALV/Model/C11Call.lean`): what the constructor's
  shift leaves of a denominator, idempotence of `Poly`'s zero compaction.
-/
import ALV.Model.C11Call
import ALV.Lemmas.C11Coded
import Mathlib.Data.List.DropRight

set_option linter.unusedSectionVars false
set_option linter.unusedVariables false

namespace ALV.C11
variable {K : Type} [Field K] [DecidableEq K]

theorem stripZeros_eq_rdropWhile (l : List K) :
    stripZeros l = l.rdropWhile (fun x => decide (x = 0)) := rfl

theorem stripZeros_idem (l : List K) : stripZeros (stripZeros l) = stripZeros l := by
  simp only [stripZeros_eq_rdropWhile]
  exact List.rdropWhile_idempotent _ _

theorem drop_leadZeros (l : List K) :
    l.drop (leadZeros l) = l.dropWhile (fun x => decide (x = 0)) := by
  unfold leadZeros
  have h := List.takeWhile_append_dropWhile (p := fun x => decide (x = 0)) (l := l)
  calc l.drop (l.takeWhile (fun x => decide (x = 0))).length
      = (l.takeWhile (fun x => decide (x = 0)) ++ l.dropWhile (fun x => decide (x = 0))).drop
          (l.takeWhile (fun x => decide (x = 0))).length := by rw [h]
    _ = _ := List.drop_left

/-- zero compaction keeps a non-zero head -/
theorem stripZeros_cons_ne (g : K) (hg : g ≠ 0) (t : List K) : ∃ t', stripZeros (g :: t) = g :: t' := by
  have hp : stripZeros (g :: t) <+: g :: t := by
    rw [stripZeros_eq_rdropWhile]; exact List.rdropWhile_prefix _ _
  cases hs : stripZeros (g :: t) with
  | nil =>
    rw [stripZeros_eq_rdropWhile, List.rdropWhile_eq_nil_iff] at hs
    have := hs g (by simp)
    simp at this
    exact absurd this hg
  | cons h t' =>
    rw [hs] at hp
    obtain ⟨r, hr⟩ := hp
    simp only [List.cons_append, List.cons.injEq] at hr
    exact ⟨t', by rw [hr.1]⟩

/-- after `LinearFilter.__init__` the denominator is the zero polynomial or starts with a non-zero
    coefficient (its lowest power is 0) and is stable under zero compaction -/
theorem shiftedDen_cases (den : List K) :
    shiftedDen den = [] ∨ ∃ g t, g ≠ 0 ∧ shiftedDen den = g :: t ∧ stripZeros (g :: t) = g :: t := by
  unfold shiftedDen
  rw [drop_leadZeros]
  cases hd : den.dropWhile (fun x => decide (x = 0)) with
  | nil => left; simp [stripZeros]
  | cons g t =>
    right
    have hg : g ≠ 0 := by
      have h := List.head?_dropWhile_not (fun x => decide (x = 0)) den
      rw [hd] at h
      simpa using h
    obtain ⟨t', ht'⟩ := stripZeros_cons_ne g hg t
    exact ⟨g, t', hg, ht', by rw [← ht', stripZeros_idem]⟩

/-- the shift of the constructor: the same integer added to the powers of numerator and
    denominator changes nothing -/
theorem parcorCall_shift (s numLo denLo : Int) (num den : List K) :
    parcorCall (numLo + s) num (denLo + s) den = parcorCall numLo num denLo den := by
  unfold parcorCall
  have : numLo + s - (denLo + s + (leadZeros den : Int)) = numLo - (denLo + (leadZeros den : Int)) := by
    omega
  rw [this]

theorem causalPart_zero (l : List K) : causalPart 0 l = l := by simp [causalPart]

theorem hasAdvance_zero (l : List K) : hasAdvance 0 l = false := by simp [hasAdvance]

end ALV.C11
