/-
  C17 — a syntactic, decidable sufficient condition for "no player is paused when `close` is
  called": the `go` flags are written by the control script only, so their values at the first
  `close` are a function of the script alone (`goCheck`).  Core Lean only.
-/
import ALV.Lemmas.C17Live
namespace ALV.C17

/-- abstract run of the script over the `go` flags (one per player created so far) up to the
    first `close`; there every flag must be set -/
def goCheck (cfg : Cfg) : List Bool → List Cmd → Bool
  | _, [] => true
  | g, .play _ _ :: r => goCheck cfg (g ++ [true]) r
  | g, .ctl k i :: r => goCheck cfg (g.set i (ctlGo cfg k)) r
  | g, .join _ :: r => goCheck cfg g r
  | g, .close :: _ => g.all id

/-- no player is paused at the first `close` of the script (later ones return at once) -/
def closeUnpaused (cfg : Cfg) (script : List Cmd) : Bool := goCheck cfg [] script

def gosAux (m : MPc) (g : List Bool) : List Bool :=
  match m with
  | .pGoSet i => g.set i true
  | _ => g

def pendAux (m : MPc) (sc : List Cmd) : List Cmd :=
  match m with
  | .pAcq a c => .play a c :: sc
  | .cAcq k i | .cEvt k i => .ctl k i :: sc
  | .kHAcq => .close :: sc
  | _ => sc

def goes (s : State) : List Bool := s.players.map (·.go)

/-- the flags at the next call boundary and the calls still to be interpreted -/
def CH (cfg : Cfg) (s : State) : Prop :=
  s.finished = false → goCheck cfg (gosAux s.mpc (goes s)) (pendAux s.mpc s.script) = true

theorem goCheck_nextCmd (cfg : Cfg) (sc : List Cmd) : ∀ (X : State) (g : List Bool),
    g.length = X.players.length →
    goCheck cfg (gosAux (nextCmd X sc).mpc g) (pendAux (nextCmd X sc).mpc (nextCmd X sc).script) =
      goCheck cfg g sc := by
  induction sc with
  | nil => intro X g _; simp [nextCmd, gosAux, pendAux]
  | cons c rest ih =>
    intro X g hg
    cases c with
    | play a => simp [nextCmd, gosAux, pendAux]
    | close => simp [nextCmd, gosAux, pendAux]
    | ctl k i =>
      simp only [nextCmd]; split
      · simp [gosAux, pendAux]
      · rename_i hlt
        rw [ih { X with log := X.log ++ [.skipped] } g hg]
        simp only [goCheck]
        rw [List.set_eq_of_length_le (by omega)]
    | join i =>
      simp only [nextCmd]; split
      · simp [gosAux, pendAux, goCheck]
      · rw [ih { X with log := X.log ++ [.skipped] } g hg]
        simp only [goCheck]

theorem goes_set_same {l : List Player} {i : Nat} {p p' : Player} (hp : l[i]? = some p)
    (h : p'.go = p.go) : (l.set i p').map (·.go) = l.map (·.go) := by
  apply List.ext_getElem?
  intro k
  by_cases hki : k = i
  · subst hki
    rw [List.getElem?_map, List.getElem?_map, getElem?_set_self' hp, hp]; simp [h]
  · rw [List.getElem?_map, List.getElem?_map, getElem?_set_ne' hki]

theorem ch_same {cfg : Cfg} {s s' : State} (inv : CH cfg s)
    (hg : gosAux s'.mpc (goes s') = gosAux s.mpc (goes s))
    (hp : pendAux s'.mpc s'.script = pendAux s.mpc s.script) (hf : s'.finished = s.finished) :
    CH cfg s' := by
  intro h; rw [hg, hp]; exact inv (by rw [← hf]; exact h)

theorem ch_next {cfg : Cfg} {s X : State} (e : Ev) (inv : CH cfg s)
    (hg : goes X = gosAux s.mpc (goes s)) (hp : X.script = pendAux s.mpc s.script)
    (hf : X.finished = s.finished) : CH cfg (X.next e) := by
  intro h
  unfold State.next
  have := goCheck_nextCmd cfg X.script { X with log := X.log ++ [e] } (goes X) (by simp [goes])
  unfold goes at this ⊢
  rw [nextCmd_players]
  rw [this]
  rw [next_finished, hf] at h
  have := inv h
  rw [← hg, ← hp] at this
  exact this

theorem ch_stepMain (cfg : Cfg) (s s' : State) (h : stepMain cfg s = some s') (mi : MI s)
    (inv : CH cfg s) : CH cfg s' := by
  unfold stepMain at h
  cases hm : s.mpc <;> simp only [hm] at h
  case begin =>
    cases h
    intro hf
    have := goCheck_nextCmd cfg s.script s (goes s) (by simp [goes])
    unfold goes at this ⊢
    rw [nextCmd_players, this]
    rw [nextCmd_finished] at hf
    have := inv hf
    simpa [hm, gosAux, pendAux, goes] using this
  case done => cases h
  case pAcq a =>
    split at h
    · cases h
    split at h
    · rename_i hfin; cases h; intro hf; rw [hfin] at hf; cases hf
    · cases h
      intro hf
      have := inv hf
      simp only [hm, gosAux, pendAux, goCheck, goes] at this ⊢
      rw [List.map_append, List.map_cons, List.map_nil]
      have hl : s.players.length = (s.players.map (·.go)).length := by simp
      rw [hl, List.set_append_right _ _ (Nat.le_refl _)]
      simpa using this
  case kHAcq =>
    split at h
    · cases h
    split at h
    · rename_i hfin; cases h; intro hf; rw [hfin] at hf; cases hf
    · cases h; intro hf; cases hf
  case pGoSet i =>
    split at h
    · rename_i p hp
      cases h
      refine ch_same inv ?_ (by simp [hm, pendAux, setP]) rfl
      simp only [hm, gosAux, goes, setP, List.map_set]
    · cases h
  case cEvt k i =>
    split at h
    · rename_i p hp
      cases h
      intro hf
      have := inv hf
      simp only [hm, gosAux, pendAux, goCheck, goes] at this
      simpa [gosAux, pendAux, goes, setP, List.map_set] using this
    · cases h
  case cAcq k i =>
    split at h
    · rename_i p hp
      split at h
      · cases h
      cases h
      refine ch_same inv ?_ (by simp [hm, pendAux, setP]) rfl
      simp only [hm, gosAux, goes, setP]
      exact goes_set_same hp rfl
    · cases h
  case pOpen i =>
    split at h
    · rename_i p hp
      cases h
      refine ch_same inv ?_ (by simp [hm, pendAux, setP]) rfl
      simp only [hm, gosAux, goes, setP]
      exact goes_set_same hp rfl
    · cases h
  case pStart i =>
    split at h
    · rename_i p hp
      cases h
      refine ch_same inv ?_ (by simp [hm, pendAux, setP]) rfl
      simp only [hm, gosAux, goes, setP]
      exact goes_set_same hp rfl
    · cases h
  case cRel k i =>
    split at h
    · rename_i p hp
      cases h
      refine ch_next _ inv ?_ (by simp [hm, pendAux, setP]) rfl
      simp only [hm, gosAux, goes, setP]
      exact goes_set_same hp rfl
    · cases h
  case pRaiseRel => cases h; exact ch_next _ inv (by simp [hm, gosAux, goes]) (by simp [hm, pendAux]) rfl
  case pRel => cases h; exact ch_next _ inv (by simp [hm, gosAux, goes]) (by simp [hm, pendAux]) rfl
  case kAssertRel => cases h; exact ch_next _ inv (by simp [hm, gosAux, goes]) (by simp [hm, pendAux]) rfl
  case kHRel b => cases h; exact ch_next _ inv (by simp [hm, gosAux, goes]) (by simp [hm, pendAux]) rfl
  case jJoin i =>
    split at h
    · cases h; exact ch_next _ inv (by simp [hm, gosAux, goes]) (by simp [hm, pendAux]) rfl
    · cases h
  all_goals
    (have hfin := (mi.pre (by rw [hm]; rfl)).1
     (try split at h) <;> (try split at h) <;> (try split at h) <;> (try cases h) <;>
     (intro hf; simp [setP, hfin] at hf))

theorem ch_reach {cfg : Cfg} {script : List Cmd} {s : State} (h : Reach cfg script s) :
    closeUnpaused cfg script = true → CH cfg s := by
  intro hc
  induction h with
  | init => intro _; simpa [init, gosAux, pendAux, goes, closeUnpaused] using hc
  | step hr hs ih =>
    rename_i s s' t
    cases t with
    | main => exact ch_stepMain cfg s s' hs (mi_reach hr) ih
    | player j =>
      obtain ⟨h1, h2, _, h4, _⟩ := stepPlayer_frame cfg s s' j hs
      obtain ⟨p, p', hp, hs', hgo, _⟩ := stepPlayer_shape cfg s s' j hs
      refine ch_same ih ?_ (by rw [h1, h2]) h4
      rw [h1]; unfold goes; rw [hs', goes_set_same hp hgo]

/-- the syntactic check implies the hypothesis of the wait clause -/
theorem unpaused_of_check {cfg : Cfg} {script : List Cmd} (hc : closeUnpaused cfg script = true) :
    UnpausedAtClose cfg script := by
  intro s hr hm hfin k p hp
  have := ch_reach hr hc hfin
  simp only [hm, gosAux, pendAux, goCheck, goes, List.all_eq_true, List.mem_map, id] at this
  left
  exact this p.go ⟨p, List.mem_of_getElem? hp, rfl⟩

end ALV.C17
