/-
  C05 — powers (`ZFilter.__pow__` with its negative-power flip) and substitution
  (`ZFilter.__call__` on a filter) in the field of rational functions.
-/
import ALV.Lemmas.C05Frac
import Mathlib.Algebra.BigOperators.Group.List.Basic

set_option linter.unusedSectionVars false
set_option linter.unusedSimpArgs false

open LaurentPolynomial

namespace ALV.C05
open ALV.C07
variable {K : Type} [Field K] [DecidableEq K]

/-! ### the variable `z⁻¹` and monomials in `Q K` -/

/-- `z⁻¹` as a rational function -/
noncomputable def zinv : Q K := ι (T 1)

theorem zinv_ne_zero : (zinv : Q K) ≠ 0 := fun e => T_ne_zero 1 (ι_eq_zero.1 e)

theorem ι_T (m : ℤ) : ι (T m : K[T;T⁻¹]) = (zinv : Q K) ^ m := by
  induction m using Int.induction_on with
  | zero => simp [zinv]
  | succ i ih =>
    rw [T_add, map_mul, ih, zpow_add_one₀ zinv_ne_zero]
    rfl
  | pred i ih =>
    have h1 : ι (T (-1) : K[T;T⁻¹]) = (zinv : Q K)⁻¹ := by
      apply eq_inv_of_mul_eq_one_left
      unfold zinv
      rw [← map_mul, ← T_add]
      simp
    rw [sub_eq_add_neg, T_add, map_mul, ih, h1, ← zpow_sub_one₀ zinv_ne_zero, sub_eq_add_neg]

theorem ι_C_zpow (a : K) (n : ℤ) : ι (C (a ^ n) : K[T;T⁻¹]) = (ι (C a) : Q K) ^ n :=
  map_zpow₀ ((ι : K[T;T⁻¹] →+* Q K).comp C) a n

/-- a monomial raised to an integer power -/
theorem ι_single_zpow (k : ℤ) (v : K) (n : ℤ) :
    ι (AddMonoidAlgebra.single (k * n) (v ^ n) : K[T;T⁻¹]) = (ι (AddMonoidAlgebra.single k v) : Q K) ^ n := by
  rw [single_eq_C_mul_T, single_eq_C_mul_T, map_mul, map_mul, ι_C_zpow, ι_T, ι_T, mul_zpow, zpow_mul]

/-! ### `ZFilter.__pow__` -/

theorem pow_den_nat {f : ZF K} (hf : Valid f) (n : ℕ) : Den (pow f (n : ℤ)) (val f ^ n) := by
  unfold pow
  have hn : ¬ ((n : ℤ) < 0 ∧ (f.num.length ≥ 2 ∨ f.den.length ≥ 2)) := by omega
  rw [if_neg hn]
  have h := ofPolys_den (wf_pow hf.1 n) (wf_pow hf.2.1 n)
    (ne_nil_of_toLaurent_ne_zero (by rw [toLaurent_pow]; exact pow_ne_zero _ (D_ne_zero hf)))
  rw [toLaurent_pow, toLaurent_pow, map_pow, map_pow, ← div_pow] at h
  exact h

theorem pow_den_flip {f : ZF K} (hf : Valid f) (hf0 : f.num ≠ []) (m : ℕ) (hm : 0 < m)
    (hlen : f.num.length ≥ 2 ∨ f.den.length ≥ 2) : Den (pow f (-(m : ℤ))) (val f ^ (-(m : ℤ))) := by
  unfold pow
  have hn : (-(m : ℤ)) < 0 ∧ (f.num.length ≥ 2 ∨ f.den.length ≥ 2) := ⟨by omega, hlen⟩
  rw [if_pos hn, neg_neg]
  have hr : Den (ofPolys f.den f.num) (val f)⁻¹ := by
    have h := ofPolys_den hf.2.1 hf.1 hf0
    unfold val
    rw [inv_div]
    exact h
  refine hr.bind fun r hrv hrval => ?_
  have h := pow_den_nat hrv m
  unfold pow at h
  have hn' : ¬ ((m : ℤ) < 0 ∧ (r.num.length ≥ 2 ∨ r.den.length ≥ 2)) := by omega
  rw [if_neg hn'] at h
  rw [hrval, inv_pow, ← zpow_natCast, ← zpow_neg] at h
  exact h

theorem single_ne_zero' (k : ℤ) {v : K} (hv : v ≠ 0) : (AddMonoidAlgebra.single k v : K[T;T⁻¹]) ≠ 0 :=
  AddMonoidAlgebra.single_ne_zero.2 hv

theorem pow_den_mono {f : ZF K} (hf : Valid f) (n : ℤ) (hn0 : n ≠ 0)
    (hlen : ¬ (f.num.length ≥ 2 ∨ f.den.length ≥ 2)) : Den (pow f n) (val f ^ n) := by
  unfold pow
  have hn : ¬ (n < 0 ∧ (f.num.length ≥ 2 ∨ f.den.length ≥ 2)) := fun h => hlen h.2
  rw [if_neg hn]
  obtain ⟨num, den⟩ := f
  simp only [ge_iff_le, not_or, not_le] at hlen
  obtain ⟨hfn, hfd, hfd0⟩ := hf
  simp only at hfn hfd hfd0 hlen ⊢
  match den, hfd, hfd0, hlen.2 with
  | [(k, v)], hfd, _, _ =>
    have hv : v ≠ 0 := hfd.2 (k, v) List.mem_cons_self
    have hdn : toLaurent (C07.pow [(k, v)] n) = AddMonoidAlgebra.single (k * n) (v ^ n) :=
      toLaurent_pow_mono k v n
    have hdne : C07.pow [(k, v)] n ≠ [] :=
      ne_nil_of_toLaurent_ne_zero (by rw [hdn]; exact single_ne_zero' _ (zpow_ne_zero _ hv))
    match num, hfn, hlen.1 with
    | [], hfn, _ =>
      have e : C07.pow ([] : MPoly K) n = [] := by simp [C07.pow, hn0]
      rw [e]
      have h := ofPolys_den (wf_nil (α := K)) (wf_pow hfd n) hdne
      simp only [toLaurent_nil, map_zero, zero_div] at h
      have : val (⟨[], [(k, v)]⟩ : ZF K) = 0 := by simp [val, N]
      rw [this, zero_zpow n hn0]
      exact h
    | [(j, w)], hfn, _ =>
      have h := ofPolys_den (wf_pow hfn n) (wf_pow hfd n) hdne
      rw [hdn, toLaurent_pow_mono, ι_single_zpow, ι_single_zpow, ← div_zpow] at h
      have : val (⟨[(j, w)], [(k, v)]⟩ : ZF K) = ι (AddMonoidAlgebra.single j w) / ι (AddMonoidAlgebra.single k v) := by
        simp [val, N, D]
      rw [this]
      exact h
    | _ :: _ :: _, _, hl => simp at hl
  | _ :: _ :: _, _, _, hl => simp at hl

/-- **`f ** n` denotes the `n`-th power of the rational function**, for every integer `n`
(negative powers need a non-zero numerator unless both polynomials are monomials, where the
code computes `0 ** n = 0`) -/
theorem pow_den {f : ZF K} (hf : Valid f) (n : ℤ) (h : 0 ≤ n ∨ f.num ≠ []) : Den (pow f n) (val f ^ n) := by
  by_cases hn : 0 ≤ n
  · obtain ⟨m, rfl⟩ := Int.eq_ofNat_of_zero_le hn
    have := pow_den_nat hf m
    rwa [← zpow_natCast] at this
  · have hf0 : f.num ≠ [] := h.resolve_left hn
    by_cases hlen : f.num.length ≥ 2 ∨ f.den.length ≥ 2
    · obtain ⟨m, rfl⟩ := Int.exists_eq_neg_ofNat (le_of_lt (not_le.1 hn))
      exact pow_den_flip hf hf0 m (by omega) hlen
    · exact pow_den_mono hf n (by omega) hlen

/-! ### substitution -/

/-- `Σ_k c_k · v^(-k)`: the polynomial in `z⁻¹` evaluated at `z = v` -/
noncomputable def evalQ (v : Q K) (p : MPoly K) : Q K := (p.map fun kv => ι (C kv.2) * v ^ (-kv.1)).sum

theorem evalQ_perm {p q : MPoly K} (h : p.Perm q) (v : Q K) : evalQ v p = evalQ v q :=
  (h.map _).sum_eq

/-- the ring homomorphism `K[T;T⁻¹] → Q K`, `z⁻¹ ↦ v⁻¹` -/
noncomputable def substHom (v : Q K) (hv : v ≠ 0) : K[T;T⁻¹] →+* Q K :=
  LaurentPolynomial.eval₂ ((ι : K[T;T⁻¹] →+* Q K).comp C) (Units.mk0 v⁻¹ (inv_ne_zero hv))

theorem substHom_single (v : Q K) (hv : v ≠ 0) (k : ℤ) (c : K) :
    substHom v hv (AddMonoidAlgebra.single k c) = ι (C c) * v ^ (-k) := by
  unfold substHom
  rw [single_eq_C_mul_T, eval₂_C_mul_T]
  simp [Units.val_zpow_eq_zpow_val]

theorem substHom_toLaurent (v : Q K) (hv : v ≠ 0) (p : MPoly K) : substHom v hv (toLaurent p) = evalQ v p := by
  induction p with
  | nil => simp [evalQ]
  | cons a t ih =>
    rw [toLaurent_cons, map_add, substHom_single, ih]
    simp [evalQ]

/-- substituting `z` for `z` changes nothing -/
theorem evalQ_z (p : MPoly K) : evalQ (ι (T (-1))) p = ι (toLaurent p) := by
  induction p with
  | nil => simp [evalQ]
  | cons a t ih =>
    unfold evalQ at ih ⊢
    rw [List.map_cons, List.sum_cons, ih, toLaurent_cons, map_add, single_eq_C_mul_T, map_mul, ι_T, ι_T,
      ← zpow_mul]
    simp

theorem substStep_den {g : ZF K} (hg : Valid g) {acc : ZF K} (hacc : Valid acc) (kv : ℤ × K)
    (h : 0 ≤ -kv.1 ∨ g.num ≠ []) :
    Den (do
      let gk ← pow g (-kv.1)
      let c ← ofScalar kv.2
      let t ← mul c gk
      add acc t) (val acc + ι (C kv.2) * val g ^ (-kv.1)) :=
  (pow_den hg (-kv.1) h).bind fun gk hgk egk =>
    (ofScalar_den kv.2).bind fun c hc ec =>
      (mul_den hc hgk).bind fun t ht et => by
        rw [← egk, ← ec, ← et]
        exact add_den hacc ht

theorem substFold_den {g : ZF K} (hg : Valid g) (l : MPoly K)
    (hl : ∀ kv ∈ l, 0 ≤ -kv.1 ∨ g.num ≠ []) {acc : ZF K} (hacc : Valid acc) :
    Den (l.foldlM (fun acc kv => do
      let gk ← pow g (-kv.1)
      let c ← ofScalar kv.2
      let t ← mul c gk
      add acc t) acc) (val acc + evalQ (val g) l) := by
  induction l generalizing acc with
  | nil =>
    simp only [List.foldlM_nil, evalQ, List.map_nil, List.sum_nil, add_zero]
    exact Den.ok hacc
  | cons a t ih =>
    rw [List.foldlM_cons]
    refine (substStep_den hg hacc a (hl a List.mem_cons_self)).bind fun h hh eh => ?_
    have := ih (fun kv hkv => hl kv (List.mem_cons_of_mem _ hkv)) hh
    rw [eh] at this
    have e : evalQ (val g) (a :: t) = ι (C a.2) * val g ^ (-a.1) + evalQ (val g) t := by simp [evalQ]
    rw [e, ← add_assoc]
    exact this

theorem substSum_den {g : ZF K} (hg : Valid g) (p : MPoly K) (hl : ∀ kv ∈ p, 0 ≤ -kv.1 ∨ g.num ≠ []) :
    Den (substSum p g) (evalQ (val g) p) := by
  unfold substSum
  refine (ofScalar_den 0).bind fun z0 hz0 ez0 => ?_
  have hperm : (sortAsc p).Perm p := List.mergeSort_perm _ _
  have := substFold_den hg (sortAsc p) (fun kv hkv => hl kv (hperm.subset hkv)) hz0
  rw [ez0, map_zero, map_zero, zero_add, evalQ_perm hperm] at this
  exact this

/-- **`f(g)` substitutes `g` for `z`**: the result denotes `N_f(g) / D_f(g)` -/
theorem subst_den {f g : ZF K} (_hf : Valid f) (hg : Valid g) (hg0 : g.num ≠ [])
    (hd : evalQ (val g) f.den ≠ 0) :
    Den (subst f g) (evalQ (val g) f.num / evalQ (val g) f.den) := by
  unfold subst
  refine (substSum_den hg f.num fun _ _ => Or.inr hg0).bind fun n hn en => ?_
  refine (substSum_den hg f.den fun _ _ => Or.inr hg0).bind fun d hdv ed => ?_
  have hd0 : d.num ≠ [] := by
    intro e
    have := (val_eq_zero_iff hdv).2 e
    rw [ed] at this
    exact hd this
  rw [← en, ← ed]
  exact truediv_den hn hdv hd0

end ALV.C05

namespace ALV.C05
open ALV.C07
variable {K : Type} [Field K] [DecidableEq K]

/-! ### agreement of two computations -/

/-- both computations succeed and return valid filters denoting the same rational function
(`num · den' = num' · den` in `K[T;T⁻¹]`) -/
def Agree (a b : Except PyErr (ZF K)) : Prop :=
  ∃ x y, a = .ok x ∧ b = .ok y ∧ Valid x ∧ Valid y ∧ Equiv x y

theorem agree_of_den {a b : Except PyErr (ZF K)} {v : Q K} (ha : Den a v) (hb : Den b v) : Agree a b := by
  obtain ⟨x, rfl, hx, ex⟩ := ha
  obtain ⟨y, rfl, hy, ey⟩ := hb
  exact ⟨x, y, rfl, rfl, hx, hy, (equiv_iff_val hx hy).2 (ex.trans ey.symm)⟩

theorem val_ne_zero {f : ZF K} (hf : Valid f) (h0 : f.num ≠ []) : val f ≠ 0 :=
  fun e => h0 ((val_eq_zero_iff hf).1 e)

theorem Den.num_ne_nil {r : Except PyErr (ZF K)} {v : Q K} (h : Den r v) (hv : v ≠ 0) :
    ∀ x, r = .ok x → x.num ≠ [] := by
  obtain ⟨y, rfl, hy, ey⟩ := h
  intro x hx e
  cases hx
  exact hv (ey ▸ (val_eq_zero_iff hy).2 e)

theorem Equiv.refl (f : ZF K) : Equiv f f := rfl
theorem Equiv.symm {f g : ZF K} (h : Equiv f g) : Equiv g f := Eq.symm h
theorem Equiv.trans {f g h : ZF K} (hf : Valid f) (hg : Valid g) (hh : Valid h)
    (h1 : Equiv f g) (h2 : Equiv g h) : Equiv f h :=
  (equiv_iff_val hf hh).2 (((equiv_iff_val hf hg).1 h1).trans ((equiv_iff_val hg hh).1 h2))

end ALV.C05

namespace ALV.C05
open ALV.C07
variable {K : Type} [Field K] [DecidableEq K]

/-! ### denominators of sums and products; transfer of fractions along a ring homomorphism -/

theorem add_D {f g : ZF K} (hf : Valid f) (hg : Valid g) :
    ∃ s p, add f g = .ok s ∧ (D s = D f * T p ∨ D s = D f * D g * T p) := by
  unfold add
  by_cases he : C07.eq f.den g.den = true
  · rw [if_pos he]
    obtain ⟨s, p, e, _, _, hD⟩ := ofPolys_spec (wf_add f.num g.num) hf.2.1 hf.2.2
    exact ⟨s, -p, e, Or.inl hD⟩
  · rw [if_neg he]
    obtain ⟨s, p, e, _, _, hD⟩ := ofPolys_spec (wf_add (C07.mul f.num g.den) (C07.mul g.num f.den))
      (wf_mul f.den g.den) (mul_ne_nil hf.2.1 hg.2.1 hf.2.2 hg.2.2)
    rw [toLaurent_mul] at hD
    exact ⟨s, -p, e, Or.inr hD⟩

theorem mul_D {f g : ZF K} (hf : Valid f) (hg : Valid g) :
    ∃ s p, mul f g = .ok s ∧ D s = D f * D g * T p := by
  obtain ⟨s, p, e, _, _, hD⟩ := ofPolys_spec (wf_mul f.num g.num) (wf_mul f.den g.den)
    (mul_ne_nil hf.2.1 hg.2.1 hf.2.2 hg.2.2)
  rw [toLaurent_mul] at hD
  exact ⟨s, -p, e, hD⟩

/-- two fractions of Laurent polynomials that are equal as rational functions stay equal under
any ring homomorphism that does not kill the denominators -/
theorem frac_transfer (φ : K[T;T⁻¹] →+* Q K) {a b c d : K[T;T⁻¹]} (hb : b ≠ 0) (hd : d ≠ 0)
    (h : ι a / ι b = ι c / ι d) (hφb : φ b ≠ 0) (hφd : φ d ≠ 0) : φ a / φ b = φ c / φ d := by
  rw [div_eq_div_iff (fun e => hb (ι_eq_zero.1 e)) (fun e => hd (ι_eq_zero.1 e)), ← map_mul, ← map_mul] at h
  rw [div_eq_div_iff hφb hφd, ← map_mul, ← map_mul, ι_inj h]

theorem substHom_T_ne_zero (v : Q K) (hv : v ≠ 0) (p : ℤ) : substHom v hv (T p) ≠ 0 := by
  intro e
  have h1 : substHom v hv (T p) * substHom v hv (T (-p)) = 1 := by
    rw [← map_mul, ← T_add]; simp
  rw [e, zero_mul] at h1
  exact zero_ne_one h1

end ALV.C05
