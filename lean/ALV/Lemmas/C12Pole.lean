/-
  C12 — helper lemmas, part 7: the term-list (dict) form of the specification is the dense one;
  "nan where the denominator vanishes" as an equivalence; a denominator with the factor `1 - r·w`
  (a pole at `z = r`) exactly at the pole and next to it.
-/
import ALV.Lemmas.C12Bank

set_option linter.unusedSectionVars false
set_option linter.unusedSimpArgs false

namespace ALV.C12
variable {K : Type} [Field K] [DecidableEq K]

/-! #### the dict form of the specification -/

theorem termSum_denseTerms (w : K) (i : Nat) (c : List K) :
    termSum (denseTerms i c) w = evalFrom w i c := by
  induction c generalizing i with
  | nil => simp [denseTerms, evalFrom]
  | cons x xs ih =>
    simp only [denseTerms, termSum_cons, evalFrom, ih, pw_eq_pow, zpow_natCast]

theorem evalTerms_denseTerms (c : List K) (w : K) : evalTerms (denseTerms 0 c) w = evalDirect c w := by
  rw [evalTerms_eq, termSum_denseTerms]; rfl

theorem evalTerms_polyFrom (c : List K) (w : K) : evalTerms (polyFrom 0 c) w = evalDirect c w := by
  rw [evalTerms_eq, termSum_polyFrom]; rfl

theorem denseTerms_all_zero (i : Nat) (a : List K) :
    (denseTerms i a).all (fun t => decide (t.2 = 0)) = a.all (fun c => decide (c = 0)) := by
  induction a generalizing i with
  | nil => rfl
  | cons x xs ih => simp [denseTerms, ih]

theorem polyFrom_all_zero (i : Nat) (a : List K) :
    (polyFrom i a).all (fun t => decide (t.2 = 0)) = a.all (fun c => decide (c = 0)) := by
  induction a generalizing i with
  | nil => rfl
  | cons x xs ih =>
    by_cases hx : x = 0
    · simp [polyFrom, hx, ih]
    · simp [polyFrom, hx]

theorem HspecTerms_dense (b a : List K) (w : K) :
    HspecTerms (denseTerms 0 b) (denseTerms 0 a) w = Hspec b a w := by
  simp only [HspecTerms, Hspec, evalTerms_denseTerms]

theorem HspecTerms_polyFrom (b a : List K) (w : K) :
    HspecTerms (polyFrom 0 b) (polyFrom 0 a) w = Hspec b a w := by
  simp only [HspecTerms, Hspec, evalTerms_polyFrom]

theorem respSpecTerms_dense (b a : List K) (w : K) :
    respSpecTerms (denseTerms 0 b) (denseTerms 0 a) w = respSpec b a w := by
  simp only [respSpecTerms, respSpec, HspecTerms_dense, denseTerms_all_zero]

theorem respSpecTerms_polyFrom (b a : List K) (w : K) :
    respSpecTerms (polyFrom 0 b) (polyFrom 0 a) w = respSpec b a w := by
  simp only [respSpecTerms, respSpec, HspecTerms_polyFrom, polyFrom_all_zero]

/-! #### nan ⇔ the denominator vanishes -/

theorem all_zero_iff (a : List K) : a.all (fun c => decide (c = 0)) = true ↔ ∀ c ∈ a, c = 0 := by
  simp

theorem respSpec_eq_nan_iff (b a : List K) (w : K) :
    respSpec b a w = Resp.nan ↔ (∃ c ∈ a, c ≠ 0) ∧ evalDirect a w = 0 := by
  unfold respSpec Hspec
  by_cases h1 : a.all (fun c => decide (c = 0)) = true
  · have : ¬ ∃ c ∈ a, c ≠ 0 := by
      have := (all_zero_iff a).1 h1
      rintro ⟨c, hc, hne⟩; exact hne (this c hc)
    simp [h1, this]
  · have hex : ∃ c ∈ a, c ≠ 0 := by
      by_contra hn
      apply h1
      rw [all_zero_iff]
      intro c hc
      by_contra hne
      exact hn ⟨c, hc, hne⟩
    simp only [h1, Bool.false_eq_true, if_false, hex, true_and]
    by_cases h2 : evalDirect a w = 0
    · simp [h2]
    · simp [h2]

theorem respSpec_eq_val_iff (b a : List K) (w v : K) :
    respSpec b a w = Resp.val v ↔
      (∃ c ∈ a, c ≠ 0) ∧ evalDirect a w ≠ 0 ∧ v = evalDirect b w / evalDirect a w := by
  unfold respSpec Hspec
  by_cases h1 : a.all (fun c => decide (c = 0)) = true
  · have : ¬ ∃ c ∈ a, c ≠ 0 := by
      have := (all_zero_iff a).1 h1
      rintro ⟨c, hc, hne⟩; exact hne (this c hc)
    simp [h1, this]
  · have hex : ∃ c ∈ a, c ≠ 0 := by
      by_contra hn
      apply h1
      rw [all_zero_iff]
      intro c hc
      by_contra hne
      exact hn ⟨c, hc, hne⟩
    simp only [h1, Bool.false_eq_true, if_false, hex, true_and]
    by_cases h2 : evalDirect a w = 0
    · simp [h2]
    · simp only [h2, if_false, not_false_eq_true, true_and, Resp.val.injEq]
      exact ⟨fun h => ⟨h2, h.symm⟩, fun h => h.2.symm⟩

/-- the response is always one of: ValueError of the constructor, nan, a value — never another
    exception (no ZeroDivisionError: the zero test precedes the division) -/
theorem respSpec_cases (b a : List K) (w : K) :
    respSpec b a w = Resp.valueError ∨ respSpec b a w = Resp.nan ∨ ∃ v, respSpec b a w = Resp.val v := by
  unfold respSpec
  split
  · exact Or.inl rfl
  · cases Hspec b a w with
    | none => exact Or.inr (Or.inl rfl)
    | some v => exact Or.inr (Or.inr ⟨v, rfl⟩)

/-! #### a denominator with the factor `1 - r·w`: a pole at `z = r` -/

theorem evalDirect_factor (r w : K) : evalDirect [1, -r] w = 1 - r * w := by
  rw [evalDirect_cons, evalDirect_cons]
  simp [evalDirect, evalFrom]
  ring

theorem convL_factor_head (r q0 : K) (qs : List K) :
    ∃ t, convL [1, -r] (q0 :: qs) = q0 :: t := by
  simp only [convL, scaleL, List.map_cons, addL, one_mul, add_zero]
  exact ⟨_, rfl⟩

/-- `ZFilter(b, (1 - r z^-1)·q)`, `q_0 ≠ 0`, at every point `w` -/
theorem respOfFilter_factor (b qs : List K) (q0 : K) (hq : q0 ≠ 0) (r w : K) :
    respOfFilter b (convL [1, -r] (q0 :: qs)) w =
      if (1 - r * w) * evalDirect (q0 :: qs) w = 0 then Resp.nan
      else Resp.val (evalDirect b w / ((1 - r * w) * evalDirect (q0 :: qs) w)) := by
  obtain ⟨t, ht⟩ := convL_factor_head r q0 qs
  have hev := evalDirect_convL [1, -r] (q0 :: qs) w
  rw [evalDirect_factor] at hev
  rw [ht] at hev ⊢
  rw [respOfFilter_eq_spec_of_head b t q0 hq w]
  unfold respSpec Hspec
  have hall : (q0 :: t).all (fun c => decide (c = 0)) = false := by simp [hq]
  simp only [hall, Bool.false_eq_true, if_false, hev]
  by_cases h0 : (1 - r * w) * evalDirect (q0 :: qs) w = 0
  · simp only [h0, if_true]
  · simp only [h0, if_false]

end ALV.C12
